(* Model of /repo/internal/orderedmap/map.go.
   Definitions only (no proofs) so the model still evaluates when a proof breaks.
   The Go hash map `records` is observable only through lookup/insert/delete, so it is
   modelled as a partial function; `order` is the Go slice of keys. *)
From Coq Require Export List String ZArith Bool.
Export ListNotations.
Local Open Scope list_scope.

Definition K := string.
Definition V := Z.
Definition keqb : K -> K -> bool := String.eqb.

Record omap := { records : K -> option V ; order : list K }.

Definition upd (f : K -> option V) (k : K) (v : option V) : K -> option V :=
  fun k' => if keqb k' k then v else f k'.

(* New() *)
Definition onew : omap := {| records := fun _ => None ; order := [] |}.

(* Set *)
Definition oset (m : omap) (k : K) (v : V) : omap :=
  {| records := upd (records m) k (Some v) ;
     order := match records m k with Some _ => order m | None => order m ++ [k] end |}.

(* Get: zero value when absent *)
Definition oget (m : omap) (k : K) : V :=
  match records m k with Some v => v | None => 0%Z end.

Definition ohas (m : omap) (k : K) : bool :=
  match records m k with Some _ => true | None => false end.

(* At: order[index] panics when out of range *)
Definition oat (m : omap) (i : nat) : option V :=
  match nth_error (order m) i with Some k => Some (oget m k) | None => None end.

(* Remove: delete + rebuild order without key. (make([]K, 0, len(order)) after the fix:
   never panics; before the fix the capacity len(order)-1 panicked on an empty map.) *)
Definition oremove (m : omap) (k : K) : omap :=
  {| records := upd (records m) k None ;
     order := filter (fun e => negb (keqb e k)) (order m) |}.

Definition olen (m : omap) : nat := List.length (order m).

(* Iterate: the list of callback invocations *)
Definition oiterate (m : omap) : list (K * V) :=
  map (fun k => (k, oget m k)) (order m).

Definition ovalues (m : omap) : list V := map (oget m) (order m).

(* Map / Filter build a new map through Set *)
Definition omapf (f : K -> V -> V) (m : omap) : omap :=
  fold_left (fun acc k => oset acc k (f k (oget m k))) (order m) onew.

Definition ofilter (p : K -> V -> bool) (m : omap) : omap :=
  fold_left (fun acc k => if p k (oget m k) then oset acc k (oget m k) else acc) (order m) onew.

(* Sort: sort.SliceStable over order. A stable sort with a strict weak order has a unique
   result; insertion sort (stable) computes it. *)
Fixpoint insert_sorted {A} (less : A -> A -> bool) (x : A) (l : list A) : list A :=
  match l with
  | [] => [x]
  | y :: r => if less y x then y :: insert_sorted less x r else x :: y :: r
  end.
(* x came before every element of l: it stays in front of everything that is not strictly smaller *)
Fixpoint stable_sort {A} (less : A -> A -> bool) (l : list A) : list A :=
  match l with
  | [] => []
  | x :: r => insert_sorted less x (stable_sort less r)
  end.

Definition osort (less : K -> K -> bool) (m : omap) : omap :=
  {| records := records m ; order := stable_sort less (order m) |}.

(* MarshalJSON: the ordered list of members *)
Definition omarshal (m : omap) : list (K * V) := oiterate m.

(* UnmarshalJSON merges the members into the receiver through Set *)
Definition ounmarshal (m : omap) (doc : list (K * V)) : omap :=
  fold_left (fun acc kv => oset acc (fst kv) (snd kv)) doc m.

(* FromMap: keys sorted ascending, then Set. The argument is a Go map: given here as an
   association list whose *last* binding of a key wins (how the harness builds it). *)
Definition alist_get (l : list (K * V)) (k : K) : option V :=
  fold_left (fun acc kv => if keqb (fst kv) k then Some (snd kv) else acc) l None.
Fixpoint dedup (l : list K) : list K :=
  match l with
  | [] => []
  | k :: r => if existsb (keqb k) r then dedup r else k :: dedup r
  end.
Definition kless (a b : K) : bool :=
  match String.compare a b with Lt => true | _ => false end.
Definition ofrommap (l : list (K * V)) : omap :=
  fold_left (fun acc k => match alist_get l k with Some v => oset acc k v | None => acc end)
            (stable_sort kless (dedup (map fst l))) onew.

(* ---- the reference: an association list remembering first insertion ---- *)
Definition spec := list (K * V).

Fixpoint sset (s : spec) (k : K) (v : V) : spec :=
  match s with
  | [] => [(k, v)]
  | (k', v') :: r => if keqb k' k then (k', v) :: r else (k', v') :: sset r k v
  end.
Fixpoint sfind (s : spec) (k : K) : option V :=
  match s with
  | [] => None
  | (k', v') :: r => if keqb k' k then Some v' else sfind r k
  end.
Definition sget (s : spec) (k : K) : V := match sfind s k with Some v => v | None => 0%Z end.
Definition shas (s : spec) (k : K) : bool := match sfind s k with Some _ => true | None => false end.
Definition sat (s : spec) (i : nat) : option V := option_map snd (nth_error s i).
Definition sremove (s : spec) (k : K) : spec := filter (fun p => negb (keqb (fst p) k)) s.
Definition slen (s : spec) : nat := List.length s.
Definition svalues (s : spec) : list V := map snd s.
Definition smapf (f : K -> V -> V) (s : spec) : spec := map (fun p => (fst p, f (fst p) (snd p))) s.
Definition sfilter (p : K -> V -> bool) (s : spec) : spec := filter (fun kv => p (fst kv) (snd kv)) s.
Definition ssort (less : K -> K -> bool) (s : spec) : spec :=
  stable_sort (fun a b => less (fst a) (fst b)) s.
Definition sunmarshal (s : spec) (doc : list (K * V)) : spec :=
  fold_left (fun acc kv => sset acc (fst kv) (snd kv)) doc s.
Definition sfrommap (l : list (K * V)) : spec :=
  fold_left (fun acc k => match alist_get l k with Some v => sset acc k v | None => acc end)
            (stable_sort kless (dedup (map fst l))) [].

(* ---- histories: operations over a register file of maps ---- *)
(* defunctionalised callbacks, identical in the Go harness *)
Inductive vfun := VAdd1 | VConst7 | VKeyLen.
Inductive pfun := PEven | PNotA | PNone | PAll.
Inductive lfun := LAsc | LDesc | LNever | LLen.

Definition app_vfun (f : vfun) (k : K) (v : V) : V :=
  match f with VAdd1 => (v + 1)%Z | VConst7 => 7%Z | VKeyLen => (v + Z.of_nat (String.length k))%Z end.
Definition app_pfun (p : pfun) (k : K) (v : V) : bool :=
  match p with PEven => Z.even v | PNotA => negb (keqb k "a"%string) | PNone => false | PAll => true end.
Definition app_lfun (l : lfun) (a b : K) : bool :=
  match l with
  | LAsc => kless a b | LDesc => kless b a | LNever => false
  | LLen => Nat.ltb (String.length a) (String.length b)
  end.

Inductive op :=
| OpSet (r : nat) (k : K) (v : V)
| OpGet (r : nat) (k : K)
| OpHas (r : nat) (k : K)
| OpAt (r : nat) (i : nat)
| OpRemove (r : nat) (k : K)
| OpLen (r : nat)
| OpIterate (r : nat)
| OpValues (r : nat)
| OpMap (r : nat) (f : vfun)
| OpFilter (r : nat) (p : pfun)
| OpSort (r : nat) (l : lfun)
| OpMarshal (r : nat)
| OpUnmarshal (r : nat) (doc : list (K * V))
| OpFromMap (doc : list (K * V))
| OpNew.

Inductive out :=
| OutUnit | OutV (v : V) | OutB (b : bool) | OutN (n : nat)
| OutPairs (l : list (K * V)) | OutVals (l : list V)
| OutPanic     (* the operation panicked *)
| OutNoReg.    (* register index does not exist: operation skipped (never generated) *)

Fixpoint set_nth {A} (l : list A) (i : nat) (x : A) : list A :=
  match l, i with
  | [], _ => []
  | _ :: r, O => x :: r
  | y :: r, S j => y :: set_nth r j x
  end.

(* one step of the implementation model *)
Definition mstep (regs : list omap) (o : op) : list omap * out :=
  let on r (f : omap -> list omap * out) :=
      match nth_error regs r with Some m => f m | None => (regs, OutNoReg) end in
  match o with
  | OpSet r k v => on r (fun m => (set_nth regs r (oset m k v), OutUnit))
  | OpGet r k => on r (fun m => (regs, OutV (oget m k)))
  | OpHas r k => on r (fun m => (regs, OutB (ohas m k)))
  | OpAt r i => on r (fun m => (regs, match oat m i with Some v => OutV v | None => OutPanic end))
  | OpRemove r k => on r (fun m => (set_nth regs r (oremove m k), OutUnit))
  | OpLen r => on r (fun m => (regs, OutN (olen m)))
  | OpIterate r => on r (fun m => (regs, OutPairs (oiterate m)))
  | OpValues r => on r (fun m => (regs, OutVals (ovalues m)))
  | OpMap r f => on r (fun m => (regs ++ [omapf (app_vfun f) m], OutUnit))
  | OpFilter r p => on r (fun m => (regs ++ [ofilter (app_pfun p) m], OutUnit))
  | OpSort r l => on r (fun m => (set_nth regs r (osort (app_lfun l) m), OutUnit))
  | OpMarshal r => on r (fun m => (regs, OutPairs (omarshal m)))
  | OpUnmarshal r doc => on r (fun m => (set_nth regs r (ounmarshal m doc), OutUnit))
  | OpFromMap doc => (regs ++ [ofrommap doc], OutUnit)
  | OpNew => (regs ++ [onew], OutUnit)
  end.

Definition sstep (regs : list spec) (o : op) : list spec * out :=
  let on r (f : spec -> list spec * out) :=
      match nth_error regs r with Some m => f m | None => (regs, OutNoReg) end in
  match o with
  | OpSet r k v => on r (fun m => (set_nth regs r (sset m k v), OutUnit))
  | OpGet r k => on r (fun m => (regs, OutV (sget m k)))
  | OpHas r k => on r (fun m => (regs, OutB (shas m k)))
  | OpAt r i => on r (fun m => (regs, match sat m i with Some v => OutV v | None => OutPanic end))
  | OpRemove r k => on r (fun m => (set_nth regs r (sremove m k), OutUnit))
  | OpLen r => on r (fun m => (regs, OutN (slen m)))
  | OpIterate r => on r (fun m => (regs, OutPairs m))
  | OpValues r => on r (fun m => (regs, OutVals (svalues m)))
  | OpMap r f => on r (fun m => (regs ++ [smapf (app_vfun f) m], OutUnit))
  | OpFilter r p => on r (fun m => (regs ++ [sfilter (app_pfun p) m], OutUnit))
  | OpSort r l => on r (fun m => (set_nth regs r (ssort (app_lfun l) m), OutUnit))
  | OpMarshal r => on r (fun m => (regs, OutPairs m))
  | OpUnmarshal r doc => on r (fun m => (set_nth regs r (sunmarshal m doc), OutUnit))
  | OpFromMap doc => (regs ++ [sfrommap doc], OutUnit)
  | OpNew => (regs ++ [ [] ], OutUnit)
  end.

(* run a history from one empty map in register 0; outputs oldest first *)
Fixpoint mrun (regs : list omap) (h : list op) : list omap * list out :=
  match h with
  | [] => (regs, [])
  | o :: r => let '(regs1, x) := mstep regs o in
              let '(regs2, xs) := mrun regs1 r in (regs2, x :: xs)
  end.
Fixpoint srun (regs : list spec) (h : list op) : list spec * list out :=
  match h with
  | [] => (regs, [])
  | o :: r => let '(regs1, x) := sstep regs o in
              let '(regs2, xs) := srun regs1 r in (regs2, x :: xs)
  end.

(* the abstraction function *)
Definition abs (m : omap) : spec := map (fun k => (k, oget m k)) (order m).

(* ---- what the harness observes after every operation, for every register ---- *)
Record obs := { o_len : nat ; o_iter : list (K * V) ; o_vals : list V ;
                o_has : list bool ; o_get : list V ; o_at : list V ; o_json : list (K * V) }.

Definition alphabet : list K := ["a"; "b"; "cc"; "zz"]%string.

Definition observe (m : omap) : obs :=
  {| o_len := olen m ; o_iter := oiterate m ; o_vals := ovalues m ;
     o_has := map (ohas m) alphabet ; o_get := map (oget m) alphabet ;
     o_at := flat_map (fun i => match oat m i with Some v => [v] | None => [] end) (seq 0 (olen m)) ;
     o_json := omarshal m |}.
Definition sobserve (s : spec) : obs :=
  {| o_len := slen s ; o_iter := s ; o_vals := svalues s ;
     o_has := map (shas s) alphabet ; o_get := map (sget s) alphabet ;
     o_at := flat_map (fun i => match sat s i with Some v => [v] | None => [] end) (seq 0 (slen s)) ;
     o_json := s |}.

(* decidable comparison of observations and outputs (for the correspondence check) *)
Fixpoint list_eqb {A} (e : A -> A -> bool) (a b : list A) : bool :=
  match a, b with
  | [], [] => true
  | x :: r, y :: s => e x y && list_eqb e r s
  | _, _ => false
  end.
Definition pair_eqb (a b : K * V) : bool := keqb (fst a) (fst b) && Z.eqb (snd a) (snd b).
Definition obs_eqb (a b : obs) : bool :=
  Nat.eqb (o_len a) (o_len b) && list_eqb pair_eqb (o_iter a) (o_iter b) &&
  list_eqb Z.eqb (o_vals a) (o_vals b) && list_eqb Bool.eqb (o_has a) (o_has b) &&
  list_eqb Z.eqb (o_get a) (o_get b) && list_eqb Z.eqb (o_at a) (o_at b) &&
  list_eqb pair_eqb (o_json a) (o_json b).
Definition out_eqb (a b : out) : bool :=
  match a, b with
  | OutUnit, OutUnit | OutPanic, OutPanic | OutNoReg, OutNoReg => true
  | OutV x, OutV y => Z.eqb x y
  | OutB x, OutB y => Bool.eqb x y
  | OutN x, OutN y => Nat.eqb x y
  | OutPairs x, OutPairs y => list_eqb pair_eqb x y
  | OutVals x, OutVals y => list_eqb Z.eqb x y
  | _, _ => false
  end.

(* A trace is, per operation, the output and the observation of every register after it *)
Definition trace := list (out * list obs).

Fixpoint mtrace (regs : list omap) (h : list op) : trace :=
  match h with
  | [] => []
  | o :: r => let '(regs1, x) := mstep regs o in (x, map observe regs1) :: mtrace regs1 r
  end.
Fixpoint strace (regs : list spec) (h : list op) : trace :=
  match h with
  | [] => []
  | o :: r => let '(regs1, x) := sstep regs o in (x, map sobserve regs1) :: strace regs1 r
  end.

Definition step_eqb (a b : out * list obs) : bool :=
  out_eqb (fst a) (fst b) && list_eqb obs_eqb (snd a) (snd b).
Definition trace_eqb (a b : trace) : bool := list_eqb step_eqb a b.

(* case = (history, trace observed on the implementation). Returns indices of cases where
   the model (resp. the reference spec = the property) disagrees with the implementation. *)
Fixpoint bad_cases (f : list op -> trace) (i : nat) (cs : list (list op * trace)) : list nat :=
  match cs with
  | [] => []
  | (h, t) :: r => if trace_eqb (f h) t then bad_cases f (S i) r else i :: bad_cases f (S i) r
  end.
Definition mismatches := bad_cases (mtrace [onew]) 0.
Definition propfails := bad_cases (strace [[]]) 0.
