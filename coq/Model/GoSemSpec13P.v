(* C13, partial converse "equal encodings => Equals": the DECIDABLE side condition under which
   json.Marshal is injective up to the generated Equals.  Definitions only.

   enc_faithful ctx t v  walks the value v along its type t (the same recursion as `encode`) and
   excludes exactly:
     - time.Time leaves (GTime): Equals compares the *Location, the encoding does not show it;
     - disjunction structs (union of scalars / union of refs): the encoding does not show the branch;
     - structs whose declaration repeats a field name (the later member overrides the earlier one
       in the encoding; Go itself rejects such a declaration, ty_supported does not);
     - representation artefacts of the model that decoding never produces: a float GFloat m e that is
       not in normal form (num_norm m e <> (m, e)), an `any` holding non-canonical JSON.
   Nothing is required of maps (no keys_aligned), pointers, slices, nil/empty collections. *)
From Coq Require Import List String ZArith Bool Ascii.
From Cog Require Import Model.IR Model.Json Model.GoSemBase Model.GoSemDecode Model.GoSemEquals Model.GoSemSpec.
Import ListNotations.
Local Open Scope list_scope.
Local Open Scope string_scope.

(* GFloat m e is the normal form of the decimal it denotes (what decode_scalar produces) *)
Definition float_normal (m e : Z) : bool :=
  let '(a, b) := num_norm m e in (Z.eqb a m && Z.eqb b e)%bool.

(* an `any` holds canonical generic JSON (what decode_scalar produces for KAny) *)
Definition json_canonical (j : json) : bool := json_eqb (canon j) j.

(* not one of the two disjunction structs made by DisjunctionToType *)
Definition plain_struct (pt : ty) : bool :=
  match union_scalars pt, union_refs pt with None, None => true | _, _ => false end.

Fixpoint enc_faithful (ctx : schemas) (t : ty) (v : gval) {struct v} : bool :=
  match v with
  | GNil | GBool _ | GInt _ | GStr _ => true
  | GFloat m e => float_normal m e
  | GTime _ _ => false
  | GAny j => json_canonical j
  | GPtr x => enc_faithful ctx (non_null t) x
  | GSlice l =>
      match payload_or_self ctx t with
      | TArray _ et => forallb (enc_faithful ctx et) l
      | _ => false
      end
  | GMap kvs =>
      match payload_or_self ctx t with
      | TMap _ _ vt => forallb (fun kv => enc_faithful ctx vt (snd kv)) kvs
      | _ => false
      end
  | GStruct fvs =>
      match payload_or_self ctx t with
      | TStruct _ _ fs as pt =>
          (plain_struct pt && str_nodup (map f_name fs) &&
           (fix go (fs : list field) (fvs : list (string * gval)) {struct fvs} : bool :=
              match fs, fvs with
              | f :: fr, (_, fv) :: vr => (enc_faithful ctx (f_type f) fv && go fr vr)%bool
              | _, _ => true
              end) fs fvs)%bool
      | _ => false
      end
  end.
