(* What the Go code cog prints MEANS, part 1: Go values, the Go type of an IR type, reference
   resolution, zero values, RFC 3339 time parsing.  Definitions only.

   Everything is a function of the post-chain IR context `ctx : schemas` (coq/Model/IR.v) exactly as
   the Go jenny receives it (languages.Context.Schemas).  Mirrors internal/jennies/golang/types.go
   (formatType / formatField) and languages.Context.ResolveRefs.

   MODELLED FRAGMENT (anything else is an explicit `Unmodelled` outcome, never silently totalised):
   IR kinds scalar (bool, string, all int/uint/float widths, any; string with the date-time hint),
   ref, constant_ref, array, map with string index, struct (plain, and the two disjunction structs
   created by DisjunctionToType), enum objects; Go options generate_json_marshaller,
   generate_strict_unmarshaller, generate_equal, generate_validate.  Not modelled: bytes,
   intersections, composable slots / variants, nullable object types, references to constant
   objects, nested disjunction structs, time zone offsets that are not whole hours. *)
From Coq Require Import List String ZArith Bool Ascii.
From Cog Require Import Model.IR Model.Json.
Import ListNotations.
Local Open Scope list_scope.
Local Open Scope string_scope.

(* ---------- Go values of generated types ---------- *)
Inductive gval :=
| GNil                                   (* nil pointer / nil slice / nil map / nil interface *)
| GBool (b : bool)
| GInt (z : Z)
| GFloat (m e : Z)                       (* normalised decimal m*10^e *)
| GStr (s : string)
| GTime (text : string) (local : bool)   (* time.Time: RFC3339Nano text it prints; loc == Local (vs nil/UTC/fixed) *)
| GPtr (v : gval)                        (* non-nil pointer *)
| GSlice (l : list gval)                 (* non-nil slice *)
| GMap (l : list (string * gval))        (* non-nil map, distinct keys, kept sorted by key *)
| GStruct (fs : list (string * gval))    (* by IR field name, declaration order *)
| GAny (j : json).                       (* non-nil interface holding a decoded generic JSON value *)

Inductive outcome (A : Type) :=
| GOk (a : A) | GErr | GPanic | GUnmodelled (why : string).
Arguments GOk {A}. Arguments GErr {A}. Arguments GPanic {A}. Arguments GUnmodelled {A}.

(* ---------- attributes ---------- *)
Definition t_nullable (t : ty) : bool := nullable (ty_attrs t).
Definition has_hint (t : ty) (h : string) : bool := alist_has (hints (ty_attrs t)) h.
Definition is_datetime (t : ty) : bool :=
  match t with TScalar _ _ _ _ => has_hint t "string_format_datetime" | _ => false end.
Definition is_constref (t : ty) : bool := match t with TConstRef _ _ _ _ => true | _ => false end.
Definition non_null (t : ty) : ty := set_nullable t false.

(* formatType: pointer iff nullable and the kind is scalar (not any / bytes), ref or struct;
   arrays, maps, any and constant references are never pointers *)
Definition is_ptr (t : ty) : bool :=
  (t_nullable t &&
   match t with
   | TScalar _ k _ _ => match k with KAny | KBytes => false | _ => true end
   | TRef _ _ _ => true
   | TStruct _ _ _ => true
   | _ => false
   end)%bool.

(* ---------- references ---------- *)
Definition count_objects (ctx : schemas) : nat :=
  fold_right (fun s n => (List.length (s_objects s) + n)%nat) 0%nat ctx.

(* languages.Context.ResolveRefs; None = the chain of aliases does not end (Go would not return) *)
Fixpoint resolve_fuel (ctx : schemas) (fuel : nat) (t : ty) : option ty :=
  match t with
  | TRef _ p n =>
      match fuel with
      | O => None
      | S f => match locate_object ctx p n with
               | Some o => resolve_fuel ctx f (o_type o)
               | None => Some t
               end
      end
  | _ => Some t
  end.
Definition resolve (ctx : schemas) (t : ty) : option ty := resolve_fuel ctx (S (count_objects ctx)) t.

Definition struct_dh (t : ty) : list (string * disj) :=
  match t with TStruct _ dh _ => dh | _ => [] end.
Definition union_scalars (t : ty) : option disj := alist_find (struct_dh t) "disjunction_of_scalars".
Definition union_refs (t : ty) : option disj := alist_find (struct_dh t) "disjunction_of_refs".

(* the scalar an enum type is declared over (`type X string` / `type X int64`): the type of its first member *)
Definition enum_base (vs : list enumval) : ty :=
  match vs with v :: _ => ev_type v | [] => TBad attrs0 "empty-enum" end.

(* StructType.FieldByRefName *)
Definition field_by_ref_name (fs : list field) (n : string) : option field :=
  find (fun f => match f_type f with TRef _ _ n' => seqb n' n | _ => false end) fs.

(* ---------- zero values ---------- *)
Definition zero_time : gval := GTime "0001-01-01T00:00:00Z" false.

Definition zero_scalar (t : ty) (k : skind) : gval :=
  match k with
  | KBool => GBool false
  | KString => if is_datetime t then zero_time else GStr ""
  | KFloat32 | KFloat64 => GFloat 0 0
  | KUint8 | KUint16 | KUint32 | KUint64 | KInt8 | KInt16 | KInt32 | KInt64 => GInt 0
  | _ => GNil
  end.

Fixpoint zero_fuel (ctx : schemas) (fuel : nat) (t : ty) : gval :=
  if is_ptr t then GNil else
  match t with
  | TScalar _ k _ _ => zero_scalar t k
  | TArray _ _ | TMap _ _ _ => GNil
  | TStruct _ _ fs =>
      match fuel with
      | O => GNil
      | S f => GStruct (map (fun fd => (f_name fd, zero_fuel ctx f (f_type fd))) fs)
      end
  | TEnum _ vs => match enum_base vs with TScalar _ k _ _ as b => zero_scalar b k | _ => GNil end
  | TRef _ p n | TConstRef _ p n _ =>
      match fuel with
      | O => GNil
      | S f => match locate_object ctx p n with
               | Some o => zero_fuel ctx f (non_null (o_type o))
               | None => GNil
               end
      end
  | _ => GNil
  end.
Definition zero (ctx : schemas) (t : ty) : gval := zero_fuel ctx (S (S (count_objects ctx))) t.

(* ---------- integer ranges ---------- *)
Definition int_range (k : skind) : option (Z * Z) :=
  match k with
  | KInt8 => Some (-128, 127) | KInt16 => Some (-32768, 32767)
  | KInt32 => Some (-2147483648, 2147483647)
  | KInt64 => Some (-9223372036854775808, 9223372036854775807)
  | KUint8 => Some (0, 255) | KUint16 => Some (0, 65535) | KUint32 => Some (0, 4294967295)
  | KUint64 => Some (0, 18446744073709551615)
  | _ => None
  end%Z.
Definition is_float_kind (k : skind) : bool := match k with KFloat32 | KFloat64 => true | _ => false end.

(* ---------- strings ---------- *)
Fixpoint str_list (s : string) : list ascii :=
  match s with EmptyString => [] | String c r => c :: str_list r end.
Fixpoint list_str (l : list ascii) : string :=
  match l with [] => EmptyString | c :: r => String c (list_str r) end.

(* utf8.RuneCountInString for well-formed UTF-8: bytes that are not continuation bytes *)
Definition is_cont_byte (c : ascii) : bool :=
  let n := nat_of_ascii c in (Nat.leb 128 n && Nat.ltb n 192)%bool.
Fixpoint rune_count (s : string) : Z :=
  match s with
  | EmptyString => 0
  | String c r => ((if is_cont_byte c then 0 else 1) + rune_count r)%Z
  end.

(* ---------- time.Time.UnmarshalJSON (strict RFC 3339) / MarshalJSON (RFC3339Nano) ---------- *)
Definition digit_val (c : ascii) : option nat :=
  let n := nat_of_ascii c in if (Nat.leb 48 n && Nat.leb n 57)%bool then Some (n - 48)%nat else None.
Definition num2 (a b : ascii) : option nat :=
  match digit_val a, digit_val b with Some x, Some y => Some (10 * x + y)%nat | _, _ => None end.
Definition num4 (a b c d : ascii) : option nat :=
  match num2 a b, num2 c d with Some x, Some y => Some (100 * x + y)%nat | _, _ => None end.
Definition is_leap (y : nat) : bool :=
  (Nat.eqb (y mod 4) 0 && (negb (Nat.eqb (y mod 100) 0) || Nat.eqb (y mod 400) 0))%bool.
Definition days_in (y m : nat) : nat :=
  match m with
  | 2 => if is_leap y then 29 else 28
  | 4 | 6 | 9 | 11 => 30
  | _ => 31
  end%nat.

Fixpoint take_digits (l : list ascii) : list ascii * list ascii :=
  match l with
  | c :: r => match digit_val c with
              | Some _ => let '(d, rest) := take_digits r in (c :: d, rest)
              | None => ([], l)
              end
  | [] => ([], [])
  end.
Fixpoint strip_trailing_zeros (l : list ascii) : list ascii :=
  match l with
  | [] => []
  | c :: r => match strip_trailing_zeros r with
              | [] => if Ascii.eqb c "0"%char then [] else [c]
              | r' => c :: r'
              end
  end.

Inductive tparse := TOk (text : string) (local : bool) | TBadTime | TUnmodelled.

(* s is the content of the JSON string *)
Definition parse_time (s : string) : tparse :=
  match str_list s with
  | y1 :: y2 :: y3 :: y4 :: d1 :: m1 :: m2 :: d2 :: a1 :: a2 :: tc :: h1 :: h2 :: c1 :: n1 :: n2 :: c2
      :: s1 :: s2 :: rest =>
      match num4 y1 y2 y3 y4, num2 m1 m2, num2 a1 a2, num2 h1 h2, num2 n1 n2, num2 s1 s2 with
      | Some y, Some mo, Some da, Some ho, Some mi, Some se =>
          if (Ascii.eqb d1 "-" && Ascii.eqb d2 "-" && Ascii.eqb tc "T" && Ascii.eqb c1 ":" && Ascii.eqb c2 ":"
              && Nat.leb 1 mo && Nat.leb mo 12 && Nat.leb 1 da && Nat.leb da (days_in y mo)
              && Nat.leb ho 23 && Nat.leb mi 59 && Nat.leb se 59)%bool
          then
            let base := [y1; y2; y3; y4; d1; m1; m2; d2; a1; a2; tc; h1; h2; c1; n1; n2; c2; s1; s2] in
            let '(frac, rest') :=
              match rest with
              | dot :: r => if Ascii.eqb dot "." then
                              let '(ds, r') := take_digits r in
                              match ds with [] => (None, rest) | _ => (Some ds, r') end
                            else (Some [], rest)
              | [] => (Some [], rest)
              end in
            match frac with
            | None => TBadTime
            | Some ds =>
                if Nat.ltb 9 (List.length ds) then TUnmodelled else
                let fr := match strip_trailing_zeros ds with [] => [] | x => "."%char :: x end in
                match rest' with
                | [z] => if Ascii.eqb z "Z" then TOk (list_str (base ++ fr ++ ["Z"%char])) false else TBadTime
                | [sg; o1; o2; oc; o3; o4] =>
                    match num2 o1 o2, num2 o3 o4 with
                    | Some oh, Some om =>
                        if ((Ascii.eqb sg "+" || Ascii.eqb sg "-") && Ascii.eqb oc ":" && Nat.leb oh 23 && Nat.leb om 59)%bool
                        then
                          if (Nat.eqb oh 0 && Nat.eqb om 0)%bool
                          then TOk (list_str (base ++ fr ++ ["Z"%char])) true
                          else if (Nat.eqb om 0 && (if Ascii.eqb sg "+" then Nat.leb oh 14 else Nat.leb oh 12))%bool
                               then TOk (list_str (base ++ fr ++ [sg; o1; o2; oc; o3; o4])) false
                               else TUnmodelled
                        else TBadTime
                    | _, _ => TBadTime
                    end
                | _ => TBadTime
                end
            end
          else TBadTime
      | _, _, _, _, _, _ => TBadTime
      end
  | _ => TBadTime
  end.

(* ---------- small list helpers ---------- *)
Fixpoint gmap_find (l : list (string * gval)) (k : string) : option gval :=
  match l with [] => None | (k', v) :: r => if seqb k' k then Some v else gmap_find r k end.
Definition gfield (fs : list (string * gval)) (n : string) : gval :=
  match gmap_find fs n with Some v => v | None => GNil end.
Definition is_nil (v : gval) : bool := match v with GNil => true | _ => false end.
Definition glen (v : gval) : nat :=
  match v with GSlice l => List.length l | GMap l => List.length l | _ => 0%nat end.
Definition unptr (v : gval) : gval := match v with GPtr x => x | _ => v end.
