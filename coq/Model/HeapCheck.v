(* Executable checks for the `copy` correspondence stream (C18). *)
From Cog Require Export Model.Heap.
Local Open Scope list_scope.

Fixpoint hval_eqb (a b : hval) : bool :=
  match a, b with
  | Leaf x, Leaf y => String.eqb x y
  | Node t l ks, Node u m js =>
      tag_eqb t u &&
      match l, m with Some x, Some y => Nat.eqb x y | None, None => true | _, _ => false end &&
      (fix go (ks js : list (string * hval)) : bool :=
         match ks, js with
         | [], [] => true
         | (k, x) :: r, (j, y) :: s => String.eqb k j && hval_eqb x y && go r s
         | _, _ => false
         end) ks js
  | _, _ => false
  end.

Definition memn (x : nat) (l : list nat) : bool := existsb (Nat.eqb x) l.
Fixpoint dedup (l : list nat) : list nat :=
  match l with [] => [] | x :: r => if memn x r then dedup r else x :: dedup r end.
Definition subset (a b : list nat) : bool := forallb (fun x => memn x b) a.
Definition set_eq (a b : list nat) : bool := subset a b && subset b a.

(* locations of the original that the copy still points at *)
Definition shared (cp orig : hval) : list nat := filter (fun l => memn l (locs orig)) (dedup (locs cp)).

Definition OFF : nat := 4000.   (* generated values use location numbers below (checked by the harness driver) *)

(* case: root struct name, original, what the real DeepCopy returned *)
Definition ccase := (string * hval * hval)%type.

Definition case_faithful (c : ccase) : bool :=
  let '(_, orig, cp) := c in hval_eqb (erase cp) (erase orig).
Definition case_independent (c : ccase) : bool :=
  let '(_, orig, cp) := c in disjointb (locs cp) (locs orig).
(* the property on the implementation's output *)
Definition copy_propfail (c : ccase) : bool := negb (case_faithful c && case_independent c).

(* model vs implementation: same data and same sharing pattern *)
Definition copy_mismatch (d : decls_t) (s : spec_t) (c : ccase) : bool :=
  let '(n, orig, cp) := c in
  let m := copy d s OFF (GNamed n) Call orig in
  negb (hval_eqb (erase cp) (erase m) && set_eq (shared cp orig) (shared m orig)).

(* is the value inside the fragment the independence theorem covers? *)
Definition copy_typed (d : decls_t) (c : ccase) : bool :=
  let '(n, orig, _) := c in wt d (GNamed n) orig.

Definition indices {A} (bad : A -> bool) (cs : list A) : list nat :=
  (fix go (i : nat) (cs : list A) : list nat :=
     match cs with
     | [] => []
     | c :: r => if bad c then i :: go (S i) r else go (S i) r
     end) 0 cs.
