(* C01 — the corrected exclusion predicate of go_roundtrip_nf_partial (see Proofs/GoSemC01Cex.v for why
   Model/GoSemSpec01.v `rts` is not enough).  Definitions only.  rtsF differs from rts in four places,
   marked (a)-(e). *)
From Coq Require Import List String ZArith Bool Ascii.
From Cog Require Import Model.GoSem Model.GoSemSpec08 Model.GoSemSpec01.
Import ListNotations.
Local Open Scope list_scope.
Local Open Scope string_scope.

(* the Go zero value of the type is nil, and `null` decodes to nil *)
Definition nilable (ctx : schemas) (t : ty) : bool :=
  (is_ptr t ||
   match payload_type ctx t with
   | PTy (TArray _ _) | PTy (TMap _ _ _) | PTy (TScalar _ KAny _ _) => true
   | _ => false
   end)%bool.

(* (a) what a null array element / map value must be for the strict decoder to accept it *)
Definition null_safe (ctx : schemas) (src : rawsrc) (t : ty) : bool :=
  match src with
  | RField => true
  | _ =>
      match payload_type ctx t with
      | PTy pt =>
          match pt with
          | TScalar _ _ _ _ | TEnum _ _ => true
          | TArray _ _ => (array_of_scalars ctx 8 pt || match src with RElem => false | _ => true end)%bool
          | TMap _ _ _ => (map_of_scalars ctx 8 pt || match src with RVal => false | _ => true end)%bool
          | _ => false
          end
      | PUnm _ => false
      end
  end.

(* (e) a collection-typed branch of a union of scalars whose JSON shape matches must be strict_ok: the generated
   UnmarshalJSON takes the FIRST branch that decodes, and `null` elements decode into any element type *)
Definition coll_fits (ctx : schemas) (j : json) (bt : ty) : bool :=
  match bt, j with
  | TArray _ et, JArr l => forallb (fun x => strict_ok ctx x et) l
  | TMap _ _ vt, JObj ms => forallb (fun kv => strict_ok ctx (snd kv) vt) ms
  | _, _ => true
  end.

Fixpoint rtsF (ctx : schemas) (src : rawsrc) (j : json) (t : ty) {struct j} : bool :=
  match j with
  | JNull => null_safe ctx src t                                                       (* (a) *)
  | _ =>
      match payload_type ctx t with
      | PUnm _ => false
      | PTy pt =>
          let simple := fun (src : rawsrc) (pt : ty) =>
            match pt with
            | TScalar _ k _ _ => scalar_safe pt k j
            | TEnum _ vs => match enum_base vs with TScalar _ k _ _ as b => scalar_safe b k j | _ => false end
            | TArray _ et =>
                match j with
                | JArr l =>
                    (forallb (fun x => rtsF ctx RElem x et) l &&
                     (array_of_scalars ctx 8 pt ||
                      (match src with RElem => false | _ => true end &&
                       (negb (is_ref t && t_nullable t) || match l with [] => true | _ => false end))))%bool
                | _ => true
                end
            | TMap _ _ vt =>
                match j with
                | JObj ms =>
                    (forallb (fun kv => rtsF ctx RVal (snd kv) vt) ms &&
                     (map_of_scalars ctx 8 pt || match src with RVal => false | _ => true end))%bool
                | _ => true
                end
            | _ => true
            end in
          let struct_safe := fun (fs : list field) (ms : list (string * json)) =>
            (forallb (fun kv =>
                        match find (fun f => seqb (f_name f) (fst kv)) fs with
                        | None => true
                        | Some f =>
                            (rtsF ctx RField (snd kv) (f_type f) &&
                             (f_required f || negb (is_empty_collection (snd kv))))%bool
                        end) ms &&
             forallb (fun f => (negb (f_required f) || str_in (f_name f) (map fst ms))%bool) fs &&
             str_nodup (map (fun f => f_name f) fs) &&                                   (* (c) *)
             forallb (fun f => (f_required f || nilable ctx (f_type f))%bool) fs)%bool in (* (c) *)
          match pt with
          | TStruct _ _ fs =>
              (is_ref t && str_nodup (map (fun f => f_name f) fs) &&                     (* (b) *)
              match union_scalars pt, union_refs pt with
              | Some _, _ => forallb (fun f => (simple RField (non_null (f_type f)) &&
                                                coll_fits ctx j (non_null (f_type f)))%bool) fs   (* (e) *)
              | None, Some d =>
                  match j with
                  | JObj ms =>
                      match select_branch d (last_member (d_disc d) ms) with
                      | Some n =>
                          match field_by_ref_name fs n with
                          | Some f => match payload_type ctx (f_type f) with
                                      | PTy (TStruct _ _ bfs) =>
                                          (struct_safe bfs ms &&
                                           match last_member (d_disc d) ms with          (* (d) *)
                                           | Some JNull => false | _ => true end)%bool
                                      | _ => false end
                          | None => false
                          end
                      | None => false
                      end
                  | _ => true
                  end
              | None, None => match j with JObj ms => struct_safe fs ms | _ => true end
              end)%bool
          | _ => simple src pt
          end
      end
  end.

Definition roundtrip_safeF (ctx : schemas) (p n : string) (d : json) : bool := rtsF ctx RField d (TRef attrs0 p n).
