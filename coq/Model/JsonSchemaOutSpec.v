(* C12: specifications the theorems about emitted documents are stated against.  Definitions only.

   jv defs s d     : the instance d is valid against the emitted shape s (Draft-07 semantics of the emitted
                     keyword subset, `$ref` through the definitions table) -- the relational specification
                     `js_valid` (Model/JsonSchemaOut.v, executable, with fuel) is sound for.
   sat ctx t v     : the Go value v of type t is a VALID instance: numeric bounds, string lengths, constants,
                     date-time texts and enumeration membership hold at every leaf (the emitted keywords other
                     than `type`, which follows from the value's typing), `any` positions hold objects, no nil
                     is encoded (a nil pointer / slice / map sits only in optional fields, where omitempty drops
                     it), struct fields are named apart.  This is the hypothesis under which the headline
                     statement is provable; each conjunct that is NOT implied by "decoded from a document the
                     source schema accepts" is a known finding of checks/c12.py (any, nullable, nil collections). *)
From Coq Require Import List String ZArith Bool Ascii.
From Cog Require Import Model.IR Model.Json Model.GoSemBase Model.GoSemDecode Model.JsonSchemaOut.
Import ListNotations.
Local Open Scope list_scope.
Local Open Scope string_scope.

Inductive jv (defs : list (string * jschema)) : jschema -> json -> Prop :=
| JV_any : forall ms, jv defs JSAnyObj (JObj ms)
| JV_empty : forall d, jv defs JSEmpty d
| JV_scalar : forall ms d, (forall k v, In (k, v) ms -> kw_valid k v d = Some true) -> jv defs (JSScalar ms) d
| JV_ref : forall p n s d, om_get defs n = Some s -> jv defs s d -> jv defs (JSRef p n) d
| JV_enum : forall vs d, existsb (fun v => json_eq v d) vs = true -> jv defs (JSEnum vs) d
| JV_array : forall i l, Forall (jv defs i) l -> jv defs (JSArray i) (JArr l)
| JV_map : forall v ms, Forall (fun kv => jv defs v (snd kv)) ms -> jv defs (JSMap v) (JObj ms)
| JV_struct : forall req props ms,
    (forall r, In r req -> In r (map fst ms)) ->
    Forall (fun kv => exists ps de df, om_get props (fst kv) = Some (ps, de, df) /\ jv defs ps (snd kv)) ms ->
    jv defs (JSStruct req props) (JObj ms)
| JV_anyof : forall bs b d, In b bs -> jv defs b d -> jv defs (JSAnyOf bs) d.

(* json.Marshal of a leaf value *)
Definition leaf_json (v : gval) : json :=
  match v with
  | GBool b => JBool b
  | GInt z => JNum z 0
  | GFloat m e => JNum m e
  | GStr s => JStr s
  | GTime s _ => JStr s
  | _ => JNull
  end.

Definition kw_holds (d : json) (kv : string * json) : bool :=
  if seqb (fst kv) "type" then true
  else match kw_valid (fst kv) (snd kv) d with Some true => true | _ => false end.

(* pt: the payload type (never a reference) *)
Definition sat_leaf (pt : ty) (v : gval) : bool :=
  match pt with
  | TScalar _ k value cs =>
      match format_scalar pt k value cs with
      | JSScalar ms => forallb (kw_holds (leaf_json v)) ms
      | _ => false
      end
  | TEnum _ vs => existsb (fun ev => json_eq (dyn_to_json (ev_value ev)) (leaf_json v)) vs
  | _ => false
  end.

Fixpoint sat (ctx : schemas) (t : ty) (v : gval) {struct v} : bool :=
  match v with
  | GNil => false
  | GPtr x => sat ctx (non_null t) x
  | GAny j => match t with
              | TScalar _ KAny DNil _ => match j with JObj _ => true | _ => false end
              | _ => false
              end
  | GSlice l => match payload_or_self ctx t with TArray _ et => forallb (sat ctx et) l | _ => false end
  | GMap kvs => match payload_or_self ctx t with
                | TMap _ _ vt => forallb (fun kv => sat ctx vt (snd kv)) kvs
                | _ => false
                end
  | GStruct fvs =>
      match payload_or_self ctx t with
      | TStruct _ dh fs as pt =>
          match union_scalars pt, union_refs pt with
          | None, None =>
              (str_nodup (map (@f_name ty) fs) &&
               (fix go (fs : list field) (fvs : list (string * gval)) {struct fvs} : bool :=
                  match fs, fvs with
                  | f :: fr, (_, fv) :: vr =>
                      ((if (negb (f_required f) && is_empty_value fv)%bool then true else sat ctx (f_type f) fv)
                       && go fr vr)%bool
                  | [], [] => true
                  | _, _ => false
                  end) fs fvs)%bool
          | _, _ => false
          end
      | _ => false
      end
  | _ => match t with
         | TConstRef _ _ _ _ => true
         | _ => sat_leaf (payload_or_self ctx t) v
         end
  end.

(* the definitions table says, under each object's name, what the jenny emits for that object *)
Definition faithful (ctx : schemas) (defs : list (string * jschema)) : Prop :=
  forall p n o, locate_object ctx p n = Some o -> om_get defs n = Some (emit_type (o_type o)).

(* ---------- witnesses of the refuted statements (the findings of checks/c12.py, as terms) ---------- *)
Definition M0 : smeta := {| m_kind := ""; m_variant := ""; m_identifier := "" |}.

(* a foreign type that refers to itself (made GenerateSchema loop forever before the `converted` set) *)
Definition w_rec_ctx : schemas :=
  [mkSchema "alpha" M0 "" (TBad attrs0 "")
     [("Root", mkObject "Root" [] (TStruct attrs0 [] [mkField "x" [] (TRef attrs0 "beta" "Node") true]) "alpha" "Root")];
   mkSchema "beta" M0 "" (TBad attrs0 "")
     [("Node", mkObject "Node" [] (TStruct attrs0 [] [mkField "next" [] (TRef attrs0 "beta" "Node") false]) "beta" "Node")]].
Definition w_rec_schema : schema := nth 0 w_rec_ctx (mkSchema "" M0 "" (TBad attrs0 "") []).

(* a foreign object with the bare name of a local one *)
Definition w_clash_ctx : schemas :=
  [mkSchema "alpha" M0 "" (TBad attrs0 "")
     [("Item", mkObject "Item" [] (TStruct attrs0 [] [mkField "mine" [] (TScalar attrs0 KString DNil []) true]) "alpha" "Item");
      ("Holder", mkObject "Holder" [] (TStruct attrs0 [] [mkField "other" [] (TRef attrs0 "beta" "Item") true;
                                                          mkField "own" [] (TRef attrs0 "alpha" "Item") true]) "alpha" "Holder")];
   mkSchema "beta" M0 "" (TBad attrs0 "")
     [("Item", mkObject "Item" [] (TStruct attrs0 [] [mkField "theirs" [] (TScalar attrs0 KInt64 DNil []) true]) "beta" "Item")]].
Definition w_clash_schema : schema := nth 0 w_clash_ctx (mkSchema "" M0 "" (TBad attrs0 "") []).
Definition w_clash_object : object :=
  mkObject "Item" [] (TStruct attrs0 [] [mkField "mine" [] (TScalar attrs0 KString DNil []) true]) "alpha" "Item".

(* `any` holding a string; a required nullable string holding nil *)
Definition w_any_ctx : schemas :=
  [mkSchema "p" M0 "" (TBad attrs0 "")
     [("Root", mkObject "Root" [] (TStruct attrs0 [] [mkField "v" [] (TScalar attrs0 KAny DNil []) true]) "p" "Root")]].
Definition w_any_val : gval := GStruct [("v", GAny (JStr "text"))].

Definition w_null_ctx : schemas :=
  [mkSchema "p" M0 "" (TBad attrs0 "")
     [("Root", mkObject "Root" []
                 (TStruct attrs0 [] [mkField "n" [] (TScalar {| nullable := true; dflt := DNil; hints := [] |} KString DNil []) true])
                 "p" "Root")]].
Definition w_null_val : gval := GStruct [("n", GNil)].

Definition w_defs (ctx : schemas) : list (string * jschema) :=
  match ctx with
  | s :: _ => match emit_schema ctx (emit_fuel ctx) s with Ok jd => defs_of jd | _ => [] end
  | [] => []
  end.
