(* G3 (a): the fragment widened with NULLABLE members (definitions only).

   A member written oneOf [T, null] (sf_null = true; or the type array [T, "null"], sf_nullta = true, T an
   unconstrained scalar) parses to the field type  TDisj attrs0 [js_ty T; null].  chain_go:
     AnonymousStructsToNamed            leaves it alone
     NotRequiredFieldAsNullableType     sets nullable on the DISJUNCTION when the field is optional (nrfn_only)
     DisjunctionWithNullToOptional      replaces it by T with nullable := true (the disjunction's own attrs are lost)
     the other eight passes             see a leafy context: identity
   chain3_out ctx = dw3_only (nrfn_only ctx) is the explicit output. *)
From Coq Require Import List String ZArith Bool Ascii.
From Cog Require Import Model.IR Model.Json Model.GoSemBase Model.GoSemValidate Model.Src Model.FrontEnd
  Model.FrontEndSpec Model.Passes Model.GoSemSpec08 Model.FrontEndChainSpec Model.FrontEndChainSpec2.
Import ListNotations.
Local Open Scope string_scope.
Local Open Scope list_scope.

(* TDisj [b; null], b not null *)
Definition disj_opt (t : ty) : option ty :=
  match t with
  | TDisj _ d =>
      match d_branches d with
      | [b; n] => if (is_null n && negb (is_null b))%bool then Some b else None
      | _ => None
      end
  | _ => None
  end.

(* ---------- IR, shape only ---------- *)
Definition fty_leafy3 (t : ty) : bool :=
  (ty_leafy t || match disj_opt t with Some b => ty_leafy b | None => false end)%bool.
Definition obj_leafy3 (ko : string * object) : bool :=
  (seqb (fst ko) (o_name (snd ko)) &&
   match o_type (snd ko) with
   | TStruct _ _ fs => forallb (fun f => fty_leafy3 (f_type f)) fs
   | _ => false
   end)%bool.
Definition schema_leafy3 (s : schema) : bool :=
  (str_nodup (map fst (s_objects s)) && forallb obj_leafy3 (s_objects s) && ty_leafy (s_entrytype s))%bool.
Definition ctx_leafy3 (ctx : schemas) : bool := forallb schema_leafy3 ctx.

(* ---------- IR, with attributes and kinds ---------- *)
Definition fty_plain3 (t : ty) : bool :=
  (ty_plainc t ||
   (attrs_plain (ty_attrs t) && match disj_opt t with Some b => ty_plainc b | None => false end))%bool.
Definition obj_plain3 (ko : string * object) : bool :=
  (seqb (fst ko) (o_name (snd ko)) &&
   match o_type (snd ko) with
   | TStruct a dh fs =>
       (attrs_plain a && match dh with [] => true | _ => false end && forallb (fun f => fty_plain3 (f_type f)) fs)%bool
   | _ => false
   end)%bool.
Definition schema_plain3 (s : schema) : bool :=
  (str_nodup (map fst (s_objects s)) && forallb obj_plain3 (s_objects s) && ty_plainc (s_entrytype s))%bool.
Definition ctx_plain3 (ctx : schemas) : bool := forallb schema_plain3 ctx.

(* ---------- the explicit output ---------- *)
Definition dw3_field (f : field) : field :=
  match disj_opt (f_type f) with
  | Some b => mkField (f_name f) (f_comments f) (set_nullable b true) (f_required f)
  | None => f
  end.
Definition dw3_obj (o : object) : object :=
  match o_type o with
  | TStruct a dh fs => set_otype o (TStruct a dh (map dw3_field fs))
  | _ => o
  end.
Definition dw3_only (ctx : schemas) : schemas :=
  map (fun s => set_objects s (map (fun ko => (fst ko, dw3_obj (snd ko))) (s_objects s))) ctx.
Definition chain3_out (ctx : schemas) : schemas := dw3_only (nrfn_only ctx).

(* ---------- the fragment, on the construct grammar ---------- *)
Definition s_unconstrained_scalar (t : src_ty) : bool :=
  match t with
  | SInt _ None None None None | SFloat _ None None None None | SString None None | SBool => true
  | _ => false
  end.
Definition sfield_plain3 (f : sfield) : bool :=
  (sty_plainc (sf_type f) &&
   (if sf_nullta f then (sf_null f && s_unconstrained_scalar (sf_type f))%bool else true))%bool.
Definition sdef_plain3 (t : src_ty) : bool :=
  match t with
  | SStruct (f :: fs) => forallb sfield_plain3 (f :: fs)
  | _ => false
  end.
Definition chain_plain3 (s : src_schema) : bool :=
  (src_wf s && forallb (fun d => sdef_plain3 (snd d)) (src_defs s))%bool.
