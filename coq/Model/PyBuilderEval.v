(* C09 — what the PYTHON builder code cog prints means (internal/jennies/python/templates/builders/*.tmpl),
   as a function of the Python language context (post-chain schemas, builder IR after veneers and nil checks).
   Definitions only.

   Python objects are `gval`s without pointers: GNil = None, GStruct = an instance of a generated model class
   (fields by IR name, in IR order; a member that to_json() omits is None), GSlice = list, GMap = dict, numbers
   GInt / GFloat as json.loads reads the literal.  An exception raised by the generated code is the outcome
   GPanic.  The constructors of the model classes are an input (`be_defaults`), as in BuilderEval.v.

   Differences from Go that the templates make: the option checks `Assignment.Constraints` itself and raises
   ValueError; build() returns the object without validating; nested builders are built with `.build()` (which
   cannot fail: a nested builder "fails" when one of ITS option calls raises, at the call site); nil checks
   assign `defaultForType` and exist for every reference on the path (NullableKinds of the Python language) and
   for the appended-to list (ProtectArrayAppend); no pointers. *)
From Coq Require Import List String ZArith Bool Ascii.
From Cog Require Import Model.IR Model.Json Model.Builders Model.GoSem Model.BuilderEval.
Import ListNotations.
Local Open Scope list_scope.
Local Open Scope string_scope.

(* json.loads *)
Fixpoint py_of_json (j : json) : gval :=
  match j with
  | JNull => GNil
  | JBool b => GBool b
  | JNum m e => if num_is_int_literal m e then GInt m else let '(a, b) := num_norm m e in GFloat a b
  | JStr s => GStr s
  | JArr l => GSlice (map py_of_json l)
  | JObj ms => GMap (fold_left (fun acc kv => gmap_set acc (fst kv) (py_of_json (snd kv))) ms [])
  end.

(* the `constraints` template: every constraint of the assignment, on the argument it names *)
Definition py_constraint (env : arg_env) (c : aconstraint) : outcome bool :=
  match env_find env (a_name (ac_arg c)) with
  | Some (AVal v) =>
      match constraint_holds {| c_op := ac_op c ; c_args := [ac_param c] |} v with
      | Some b => GOk b
      | None => GUnmodelled "constraint"
      end
  | _ => GUnmodelled "constraint on an argument that is not a plain value"
  end.

(* defaultForType of a nil check's EmptyValueType *)
Definition py_empty_value (e : benv) (t : ty) : outcome gval :=
  if negb (dyn_is_nil (dflt (ty_attrs t))) then GUnmodelled "nil check on a type with a default" else
  match t with
  | TRef _ p n =>
      match locate_object (be_ctx e) p n with
      | Some o =>
          match o_type o with
          | TStruct _ _ _ =>
              match default_of e p n with
              | Some v => GOk v
              | None => GUnmodelled "no default object for a nil check"
              end
          | _ => GUnmodelled "nil check on a reference to a non-struct"
          end
      | None => GUnmodelled "nil check on a dangling reference"
      end
  | TArray _ _ => GOk (GSlice [])
  | TMap _ _ _ => GOk (GMap [])
  | _ => GUnmodelled "nil check on this kind"
  end.

Definition py_nil_check (e : benv) (env : arg_env) (obj : gval) (nc : nilcheck) : outcome gval :=
  match path_get env (nc_path nc) obj with
  | None => GPanic                                    (* AttributeError / TypeError while evaluating the guard *)
  | Some GNil => dob ev <- py_empty_value e (nc_empty nc) ;
                 path_upd env (nc_path nc) obj (fun _ => GOk ev)
  | Some _ => GOk obj                                 (* the isinstance assertion holds for generated objects *)
  end.

Definition py_arg_value (env : arg_env) (a : argument) : outcome gval :=
  match env_find env (a_name a) with
  | None => GUnmodelled "assignment uses an argument the option does not have"
  | Some av => match unfold_aval av with
               | Some v => GOk v
               | None => GUnmodelled "failed builder value"
               end
  end.

Definition py_simple_value (env : arg_env) (arg : option argument) (c : dyn) : outcome gval :=
  match arg, c with
  | Some a, DNil => py_arg_value env a
  | None, DNil => GUnmodelled "assignment without value"
  | _, _ => const_gval c
  end.

Definition py_value (e : benv) (env : arg_env) (a : assignment) : outcome gval :=
  match as_value a with
  | AValue arg c None => py_simple_value env arg c
  | AValue None DNil (Some (et, vals)) =>
      (* value_envelope: RawType(field=value, ...) *)
      match et with
      | TRef _ p n =>
          match default_of e p n with
          | None => GUnmodelled "no default object for an envelope"
          | Some d =>
              (fix go (vals : list (path * avalue)) (acc : gval) : outcome gval :=
                 match vals with
                 | [] => GOk acc
                 | (it :: _, AValue arg c None) :: r =>
                     (* a constant field is not a parameter of the generated __init__: TypeError *)
                     if is_concrete_scalar (pi_type it) then GPanic else
                     dob v <- py_simple_value env arg c ;
                     dob acc' <- set_struct_field acc (pi_id it) v ;
                     go r acc'
                 | _ => GUnmodelled "envelope value"
                 end) vals d
          end
      | _ => GUnmodelled "envelope type"
      end
  | _ => GUnmodelled "assignment value"
  end.

Definition py_assign_method (m : string) (v : gval) : gval -> outcome gval :=
  if seqb m "append" then
    (fun old => match old with
                | GSlice l => GOk (GSlice (l ++ [v]))
                | GNil => GPanic                         (* 'NoneType' object has no attribute 'append' *)
                | _ => GUnmodelled "append to a value that is not a list"
                end)
  else (fun _ => GOk v).

Definition py_assignment (e : benv) (env : arg_env) (obj : gval) (a : assignment) : outcome gval :=
  dob oks <- omapM (py_constraint env) (as_constraints a) ;
  if negb (forallb (fun b => b) oks) then GPanic else                  (* raise ValueError *)
  dob obj1 <- (fix go (ncs : list nilcheck) (obj : gval) : outcome gval :=
                 match ncs with [] => GOk obj | nc :: r => dob o' <- py_nil_check e env obj nc ; go r o' end)
              (as_nilchecks a) obj ;
  dob v <- py_value e env a ;
  path_upd env (as_path a) obj1 (py_assign_method (as_method a) v).

Fixpoint py_assignments (e : benv) (env : arg_env) (obj : gval) (l : list assignment) : outcome gval :=
  match l with
  | [] => GOk obj
  | a :: r => dob o' <- py_assignment e env obj a ; py_assignments e env o' r
  end.

Definition py_new_builder (e : benv) (b : builder) (cargs : list aval) : outcome gval :=
  match b_props b, default_of e (builder_for_pkg b) (builder_for_name b) with
  | [], Some d => dob env <- bind_args (ct_args (b_ctor b)) cargs ;
                  py_assignments e env d (ct_assignments (b_ctor b))
  | _ :: _, _ => GUnmodelled "builder properties"
  | _, None => GUnmodelled "no default object"
  end.

Definition py_option (e : benv) (o : boption) (obj : gval) (args : list aval) : outcome gval :=
  dob env <- bind_args (op_args o) args ;
  py_assignments e env obj (op_assignments o).

(* arguments: a nested builder that raises makes the whole argument expression raise (GPanic) *)
Fixpoint py_arg (fuel : nat) (e : benv) (a : barg) {struct fuel} : outcome aval :=
  match fuel with
  | O => GUnmodelled "fuel"
  | S f =>
      match a with
      | BJson j => GOk (AVal (py_of_json j))
      | BVal v => GOk (AVal v)
      | BBuild p n ctor calls =>
          match locate_builder (be_builders e) p n with
          | None => GUnmodelled "unknown builder"
          | Some b =>
              if negb (Nat.eqb (List.length ctor) (List.length (ct_args (b_ctor b)))) then GUnmodelled "argument count" else
              dob cargs <- omapM (py_arg f e) ctor ;
              dob o0 <- py_new_builder e b cargs ;
              dob obj <- (fix run (calls : bcalls) (obj : gval) : outcome gval :=
                            match calls with
                            | [] => GOk obj
                            | (on, args) :: r =>
                                match option_by_name b on with
                                | None => GUnmodelled "unknown option"
                                | Some o =>
                                    dob avs <- omapM (py_arg f e) args ;
                                    dob obj' <- py_option e o obj avs ;
                                    run r obj'
                                end
                            end) calls o0 ;
              GOk (AVal obj)                                            (* .build() *)
          end
      | BList l => dob avs <- omapM (py_arg f e) l ; GOk (AList avs)
      | BMapB l => dob avs <- omapM (fun ka => dob x <- py_arg f e (snd ka) ; GOk (fst ka, x)) l ; GOk (AMap avs)
      end
  end.

(* the objects after the constructor and after every call; Some k = call number k (1-based; 0 = the
   constructor) raised and the trace stops before it *)
Fixpoint py_run (fuel : nat) (e : benv) (b : builder) (obj : gval) (calls : bcalls) (k : nat) : outcome (list gval * option nat) :=
  match calls with
  | [] => GOk ([], None)
  | (on, args) :: r =>
      match option_by_name b on with
      | None => GUnmodelled "unknown option"
      | Some o =>
          match (dob avs <- omapM (py_arg fuel e) args ; py_option e o obj avs) with
          | GOk obj' => dob rest <- py_run fuel e b obj' r (S k) ; GOk (obj' :: fst rest, snd rest)
          | GPanic => GOk ([], Some k)
          | GErr => GErr
          | GUnmodelled w => GUnmodelled w
          end
      end
  end.

Definition py_trace (e : benv) (p n : string) (ctor : list barg) (calls : bcalls) : outcome (list gval * option nat) :=
  match locate_builder (be_builders e) p n with
  | None => GUnmodelled "unknown builder"
  | Some b =>
      match (dob cargs <- omapM (py_arg default_fuel e) ctor ; py_new_builder e b cargs) with
      | GOk o0 => dob rest <- py_run default_fuel e b o0 calls 1 ; GOk (o0 :: fst rest, snd rest)
      | GPanic => GOk ([], Some 0%nat)
      | GErr => GErr
      | GUnmodelled w => GUnmodelled w
      end
  end.
