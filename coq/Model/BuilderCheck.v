(* C09 — comparison of the model (Model/BuilderEval.v, Model/PyBuilderEval.v) with what the real generated
   builders did, evaluated by the correspondence of checks/c09.py.  Definitions only. *)
From Coq Require Import List String ZArith Bool Ascii.
From Cog Require Import Model.IR Model.Json Model.Builders Model.GoSem Model.BuilderEval Model.PyBuilderEval.
Import ListNotations.
Local Open Scope list_scope.
Local Open Scope string_scope.

(* structural equality of values (maps are kept key-sorted on both sides) *)
Fixpoint gval_eqb (a b : gval) {struct a} : bool :=
  match a, b with
  | GNil, GNil => true
  | GBool x, GBool y => Bool.eqb x y
  | GInt x, GInt y => Z.eqb x y
  | GFloat m e, GFloat m' e' => num_eqb m e m' e'
  | GStr x, GStr y => String.eqb x y
  | GTime x l, GTime y l' => (String.eqb x y && Bool.eqb l l')%bool
  | GPtr x, GPtr y => gval_eqb x y
  | GAny x, GAny y => json_eq x y
  | GSlice la, GSlice lb =>
      (fix go (la lb : list gval) {struct la} : bool :=
         match la, lb with
         | [], [] => true
         | x :: r, y :: s => (gval_eqb x y && go r s)%bool
         | _, _ => false
         end) la lb
  | GMap la, GMap lb =>
      (fix go (la lb : list (string * gval)) {struct la} : bool :=
         match la, lb with
         | [], [] => true
         | (k, x) :: r, (k', y) :: s => (String.eqb k k' && gval_eqb x y && go r s)%bool
         | _, _ => false
         end) la lb
  | GStruct fa, GStruct fb =>
      (fix go (fa fb : list (string * gval)) {struct fa} : bool :=
         match fa, fb with
         | [], [] => true
         | (n, x) :: r, (n', y) :: s => (String.eqb n n' && gval_eqb x y && go r s)%bool
         | _, _ => false
         end) fa fb
  | _, _ => false
  end.

Fixpoint dedup_sorted (l : list string) : list string :=
  match l with
  | x :: ((y :: _) as r) => if String.eqb x y then dedup_sorted r else x :: dedup_sorted r
  | _ => l
  end.
Definition as_set (l : list string) : list string := dedup_sorted (sort_strings l).
Definition same_set (a b : list string) : bool := strings_eqb (as_set a) (as_set b).

(* what the Go driver saw of one program *)
Record bobs := mkBObs
  { bo_steps : bool ;                          (* one state per call (else: constructor state and last state) *)
    bo_states : list (gval * list string) ;    (* builder.internal, keys of builder.errors *)
    bo_call : string ;                         (* "ok" | "panic" *)
    bo_build : string ;                        (* "ok" | "err" | "panic" | "" (not run) *)
    bo_paths : list string ;                   (* BuildErrors paths of Build() *)
    bo_built : gval }.                         (* the object Build() returned *)

Definition bcase := (benv * (string * string) * list barg * bcalls * bobs)%type.

Definition pick_states {A} (steps : bool) (l : list A) : list A :=
  if steps then l else
  match l with
  | [] => []
  | [x] => [x]
  | x :: r => [x; List.last r x]
  end.

Definition state_agrees (m : bstate) (o : gval * list string) : bool :=
  (gval_eqb (bs_obj m) (fst o) && same_set (bs_errors m) (snd o))%bool.

Fixpoint all2 {A B} (f : A -> B -> bool) (a : list A) (b : list B) : bool :=
  match a, b with
  | [], [] => true
  | x :: r, y :: s => (f x y && all2 f r s)%bool
  | _, _ => false
  end.

Definition go_case_trace (c : bcase) : outcome (list bstate) :=
  let '(e, pn, ctor, calls, o) := c in go_trace e (fst pn) (snd pn) ctor calls.

Definition go_case_unmodelled (c : bcase) : bool :=
  let '(e, pn, ctor, calls, o) := c in
  (negb (ctx_supported (be_ctx e)) || is_unmodelled (go_case_trace c))%bool.

(* the states differ from the model's *)
Definition go_mm_states (c : bcase) : bool :=
  let '(e, pn, ctor, calls, o) := c in
  (negb (go_case_unmodelled c) &&
   match go_case_trace c with
   | GOk tr => negb (String.eqb (bo_call o) "ok" && all2 state_agrees (pick_states (bo_steps o) tr) (bo_states o))
   | GPanic => negb (String.eqb (bo_call o) "panic")
   | _ => true
   end)%bool.

(* Build() differs from the model's *)
Definition go_mm_build (c : bcase) : bool :=
  let '(e, pn, ctor, calls, o) := c in
  (negb (go_case_unmodelled c) &&
   match builder_eval e (fst pn) (snd pn) ctor calls with
   | GOk (_, BROk v) => negb (String.eqb (bo_build o) "ok" && gval_eqb v (bo_built o))
   | GOk (_, BRErr ps) => negb (String.eqb (bo_build o) "err" && paths_agree ps (bo_paths o))
   | GPanic => negb (String.eqb (bo_call o) "panic")
   | _ => true
   end)%bool.

(* ---------- Python ---------- *)
Record pobs := mkPObs
  { po_steps : bool ;
    po_states : list gval ;                    (* builder._internal *)
    po_call : string ;                         (* "ok" | "raise" *)
    po_raised_at : Z ;                         (* index of the raising call, -1 = constructor *)
    po_built : gval }.

Definition pcase := (benv * (string * string) * list barg * bcalls * pobs)%type.

Definition py_case_trace (c : pcase) : outcome (list gval * option nat) :=
  let '(e, pn, ctor, calls, o) := c in py_trace e (fst pn) (snd pn) ctor calls.

Definition py_case_unmodelled (c : pcase) : bool := is_unmodelled (py_case_trace c).

Definition py_mm (c : pcase) : bool :=
  let '(e, pn, ctor, calls, o) := c in
  (negb (py_case_unmodelled c) &&
   match py_case_trace c with
   | GOk (tr, None) =>
       negb (String.eqb (po_call o) "ok" && all2 gval_eqb (pick_states (po_steps o) tr) (po_states o)
             && gval_eqb (List.last tr GNil) (po_built o))
   | GOk (tr, Some k) =>
       (* the call number k raised; the states before it are as predicted *)
       negb (String.eqb (po_call o) "raise" && Z.eqb (po_raised_at o) (Z.of_nat k - 1))
   | _ => true
   end)%bool.

(* diagnosis: why a case is outside the model *)
Definition why {A} (o : outcome A) : string :=
  match o with GUnmodelled w => w | GOk _ => "" | GErr => "<err>" | GPanic => "<panic>" end.
Definition go_case_why (c : bcase) : string :=
  let '(e, pn, ctor, calls, o) := c in
  if negb (ctx_supported (be_ctx e)) then "context outside the GoSem fragment" else why (go_case_trace c).
Definition py_case_why (c : pcase) : string := why (py_case_trace c).
