(* C12: "what the generated Validate() accepts, the emitted schema accepts".  Definitions only.

   `structural ctx t v` lists, as one decidable predicate, everything the emitted schema asks of the encoding of a
   Go value that the generated Validate() (Model/GoSemValidate.v; specified by Model/GoSemSpec08.v `violations`)
   does NOT look at:
     - an `any` position holds an object                                   (finding C12-any-emitted-as-object)
     - no nil is encoded: nil pointers / slices / maps sit only in optional fields, where omitempty drops them
                                                     (findings C12-nullable-not-expressed, C12-nil-required-collection)
     - an enum-typed leaf holds one of the enum's values; a constant holds its value; a date-time text is RFC 3339
     - struct fields are named apart; disjunction structs are excluded (the jsonschema chain keeps unions)
     - Validate() actually evaluates every constraint that has a schema keyword (`constraints_checked`: the
       argument is a number, the operator is one of the six comparisons / two length bounds, the value is not a
       time.Time) -- implied by GoSem's ctx_supported for non-date-time scalars
   The numeric bounds and string lengths themselves are NOT part of it: they follow from `violations = []`. *)
From Coq Require Import List String ZArith Bool Ascii.
From Cog Require Import Model.IR Model.Json Model.GoSemBase Model.GoSemDecode Model.GoSemEquals Model.GoSemValidate
  Model.JsonSchemaOut Model.JsonSchemaOutSpec.
Import ListNotations.
Local Open Scope list_scope.
Local Open Scope string_scope.

Definition is_constraint_kw (k : string) : bool :=
  (seqb k "minLength" || seqb k "maxLength" || seqb k "minimum" || seqb k "maximum" ||
   seqb k "exclusiveMinimum" || seqb k "exclusiveMaximum" || seqb k "multipleOf")%bool.

(* the keyword a constraint of a scalar of kind k becomes (format_scalar) *)
Definition scalar_kw (k : skind) (op : string) : option string :=
  match k with
  | KBytes | KString => string_kw op
  | KFloat32 | KFloat64 => number_kw op
  | KNull | KAny | KBool | KOther _ => None
  | _ => number_kw op
  end.

Definition constraints_checked (pt : ty) (v : gval) : bool :=
  match pt with
  | TScalar _ k _ cs =>
      forallb (fun c => match scalar_kw k (c_op c) with
                        | Some _ => match constraint_holds c v with Some _ => true | None => false end
                        | None => true
                        end) cs
  | _ => true
  end.

Definition kw_holds_other (d : json) (kv : string * json) : bool :=
  if is_constraint_kw (fst kv) then true else kw_holds d kv.

Definition structural_leaf (pt : ty) (v : gval) : bool :=
  match pt with
  | TScalar _ k value cs =>
      (match format_scalar pt k value cs with
       | JSScalar ms => forallb (kw_holds_other (leaf_json v)) ms
       | _ => false
       end && constraints_checked pt v)%bool
  | TEnum _ vs => existsb (fun ev => json_eq (dyn_to_json (ev_value ev)) (leaf_json v)) vs
  | _ => false
  end.

Fixpoint structural (ctx : schemas) (t : ty) (v : gval) {struct v} : bool :=
  match v with
  | GNil => false
  | GPtr x => structural ctx (non_null t) x
  | GAny j => match t with
              | TScalar _ KAny DNil _ => match j with JObj _ => true | _ => false end
              | _ => false
              end
  | GSlice l => match payload_or_self ctx t with TArray _ et => forallb (structural ctx et) l | _ => false end
  | GMap kvs => match payload_or_self ctx t with
                | TMap _ _ vt => forallb (fun kv => structural ctx vt (snd kv)) kvs
                | _ => false
                end
  | GStruct fvs =>
      match payload_or_self ctx t with
      | TStruct _ dh fs as pt =>
          match union_scalars pt, union_refs pt with
          | None, None =>
              (str_nodup (map (@f_name ty) fs) &&
               (fix go (fs : list field) (fvs : list (string * gval)) {struct fvs} : bool :=
                  match fs, fvs with
                  | f :: fr, (_, fv) :: vr =>
                      ((if (negb (f_required f) && is_empty_value fv)%bool then true else structural ctx (f_type f) fv)
                       && go fr vr)%bool
                  | [], [] => true
                  | _, _ => false
                  end) fs fvs)%bool
          | _, _ => false
          end
      | _ => false
      end
  | _ => match t with
         | TConstRef _ _ _ _ => true
         | _ => structural_leaf (payload_or_self ctx t) v
         end
  end.

(* Validate() reports nothing below the positions that are encoded (an omitted optional field is not looked at by
   the schema either) -- implied by `violations ctx path t v = []` *)

(* ---------- a context, a value Validate() accepts, and one it rejects (non-vacuity) ---------- *)
Definition v_ex_ctx : schemas :=
  [mkSchema "p" M0 "Root" (TRef attrs0 "p" "Root")
     [("Inner", mkObject "Inner" [] (TStruct attrs0 [] [mkField "n" [] (TScalar attrs0 KInt64 DNil [{| c_op := ">="; c_args := [DInt "int64" 1] |}]) true]) "p" "Inner");
      ("Root", mkObject "Root" []
                 (TStruct attrs0 [] [mkField "id" [] (TScalar attrs0 KString DNil [{| c_op := "minLength"; c_args := [DInt "int64" 2] |}]) true;
                                     mkField "in" [] (TRef attrs0 "p" "Inner") true;
                                     mkField "opt" [] (TScalar {| nullable := true; dflt := DNil; hints := [] |} KBool DNil []) false;
                                     mkField "tags" [] (TArray attrs0 (TScalar attrs0 KString DNil [])) true]) "p" "Root")]].
Definition v_ex_val : gval :=
  GStruct [("id", GStr "ab"); ("in", GStruct [("n", GInt 3)]); ("opt", GNil); ("tags", GSlice [GStr "x"])].
Definition v_bad_val : gval :=
  GStruct [("id", GStr "a"); ("in", GStruct [("n", GInt 0)]); ("opt", GNil); ("tags", GSlice [GStr "x"])].
