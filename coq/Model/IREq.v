(* Decidable equality on the IR (used by the correspondence check and by decidable specs). *)
From Cog Require Export Model.IR.
Local Open Scope list_scope.

Definition leqb {A} (e : A -> A -> bool) : list A -> list A -> bool :=
  fix go (a b : list A) : bool :=
    match a, b with
    | [], [] => true
    | x :: r, y :: s => e x y && go r s
    | _, _ => false
    end.

Definition str_pair_eqb (a b : string * string) := seqb (fst a) (fst b) && seqb (snd a) (snd b).
Definition hints_eqb (a b : list (string * dyn)) :=
  leqb (fun x y => seqb (fst x) (fst y) && dyn_eqb (snd x) (snd y)) a b.
Definition attrs_eqb (a b : attrs) : bool :=
  Bool.eqb (nullable a) (nullable b) && dyn_eqb (dflt a) (dflt b) && hints_eqb (hints a) (hints b).
Definition constraint_eqb (a b : constraint) := seqb (c_op a) (c_op b) && leqb dyn_eqb (c_args a) (c_args b).

Fixpoint ty_eqb (x y : ty) : bool :=
  match x, y with
  | TDisj a d, TDisj b e =>
      attrs_eqb a b && leqb ty_eqb (d_branches d) (d_branches e) && seqb (d_disc d) (d_disc e)
      && leqb str_pair_eqb (d_mapping d) (d_mapping e)
  | TArray a v, TArray b w => attrs_eqb a b && ty_eqb v w
  | TEnum a vs, TEnum b ws =>
      attrs_eqb a b &&
      leqb (fun v w => ty_eqb (ev_type v) (ev_type w) && seqb (ev_name v) (ev_name w) && dyn_eqb (ev_value v) (ev_value w)) vs ws
  | TMap a i v, TMap b j w => attrs_eqb a b && ty_eqb i j && ty_eqb v w
  | TStruct a dh fs, TStruct b eh gs =>
      attrs_eqb a b &&
      leqb (fun k l => seqb (fst k) (fst l) && leqb ty_eqb (d_branches (snd k)) (d_branches (snd l))
                       && seqb (d_disc (snd k)) (d_disc (snd l))
                       && leqb str_pair_eqb (d_mapping (snd k)) (d_mapping (snd l))) dh eh &&
      leqb (fun f g => seqb (f_name f) (f_name g) && leqb seqb (f_comments f) (f_comments g)
                       && ty_eqb (f_type f) (f_type g) && Bool.eqb (f_required f) (f_required g)) fs gs
  | TRef a p n, TRef b q m => attrs_eqb a b && seqb p q && seqb n m
  | TConstRef a p n v, TConstRef b q m w => attrs_eqb a b && seqb p q && seqb n m && dyn_eqb v w
  | TScalar a k v cs, TScalar b l w ds =>
      attrs_eqb a b && skind_eqb k l && dyn_eqb v w && leqb constraint_eqb cs ds
  | TInter a bs, TInter b cs => attrs_eqb a b && leqb ty_eqb bs cs
  | TSlot a v, TSlot b w => attrs_eqb a b && seqb v w
  | TBad a k, TBad b l => attrs_eqb a b && seqb k l
  | _, _ => false
  end.

Definition object_eqb (a b : object) : bool :=
  seqb (o_name a) (o_name b) && leqb seqb (o_comments a) (o_comments b) && ty_eqb (o_type a) (o_type b)
  && seqb (o_selfpkg a) (o_selfpkg b) && seqb (o_selfname a) (o_selfname b).
Definition meta_eqb (a b : smeta) : bool :=
  seqb (m_kind a) (m_kind b) && seqb (m_variant a) (m_variant b) && seqb (m_identifier a) (m_identifier b).
Definition schema_eqb (a b : schema) : bool :=
  seqb (s_pkg a) (s_pkg b) && meta_eqb (s_meta a) (s_meta b) && seqb (s_entry a) (s_entry b)
  && ty_eqb (s_entrytype a) (s_entrytype b)
  && leqb (fun k l => seqb (fst k) (fst l) && object_eqb (snd k) (snd l)) (s_objects a) (s_objects b).
Definition schemas_eqb (a b : schemas) : bool := leqb schema_eqb a b.

(* outcomes are compared as a small enum: error and panic messages are not observables *)
Definition res_eqb {A} (e : A -> A -> bool) (a b : res A) : bool :=
  match a, b with
  | Ok x, Ok y => e x y
  | Err _, Err _ => true
  | Panic _, Panic _ => true
  | OutOfFuel, OutOfFuel => true
  | _, _ => false
  end.
