(* C07 / C03: schema consolidation (internal/ast/schema.go Consolidate, Merge) on the IR model, and
   codegen.Pipeline.Run's language loop over a SHARED, labelled heap value (internal/codegen/run.go).
   Definitions only. *)
From Cog Require Export Model.IR Model.IREq Model.Perm Model.Heap.
Local Open Scope string_scope.
Local Open Scope list_scope.

(* ---------- Schema.Merge ---------- *)
(* entry point: taken from `other` only when this schema has none (the first non-empty wins;
   two different non-empty entry points: the first is kept, silently) *)
Definition merge_entry (acc other : schema) : string * ty :=
  if negb (seqb (s_entry acc) (s_entry other)) && (seqb (s_entry acc) "" || seqb (s_entry other) "")
  then (if seqb (s_entry acc) "" then (s_entry other, s_entrytype other) else (s_entry acc, s_entrytype acc))
  else (s_entry acc, s_entrytype acc).

(* other.Objects.Iterate: absent -> AddObject (keyed by the object's Name); present -> must be Equal *)
Definition merge_step (st : list (string * object) * bool) (ko : string * object) : list (string * object) * bool :=
  match objs_get (fst st) (fst ko) with
  | None => (add_object (fst st) (snd ko), snd st)
  | Some o' => (fst st, snd st || negb (object_eqb o' (snd ko)))
  end.
Definition merge_objects (acc other : list (string * object)) : list (string * object) * bool :=
  fold_left merge_step other (acc, false).

Definition merge (acc other : schema) : res schema :=
  if negb (seqb (s_pkg acc) (s_pkg other)) then Err "schemas originate from different packages"
  else if negb (meta_eqb (s_meta acc) (s_meta other)) then Err "conflicting metadata"
  else
    let e := merge_entry acc other in
    let oc := merge_objects (s_objects acc) (s_objects other) in
    if snd oc then Err "conflicting definition"
    else Ok (mkSchema (s_pkg acc) (s_meta acc) (fst e) (snd e) (fst oc)).

Definition new_schema (pkg : string) (meta : smeta) : schema := mkSchema pkg meta "" ty_zero [].

Definition merge_all (start : res schema) (group : list schema) : res schema :=
  fold_left (fun acc s => do a <- acc ; merge a s) group start.

(* newSchema := NewSchema(pkg, groupedSchemas[0].Metadata); for each: newSchema.Merge(schema) *)
Definition merge_group (pkg : string) (group : list schema) : res schema :=
  match group with
  | [] => Panic "index out of range [0]"
  | s0 :: _ => merge_all (Ok (new_schema pkg (s_meta s0))) group
  end.

(* ---------- Schemas.Consolidate ---------- *)
Fixpoint group_add (g : list (string * list schema)) (s : schema) : list (string * list schema) :=
  match g with
  | [] => [(s_pkg s, [s])]
  | (p, l) :: r => if seqb p (s_pkg s) then (p, l ++ [s]) :: r else (p, l) :: group_add r s
  end.
(* byPackage, listed in first-appearance order (the Go map itself has no order) *)
Definition group_by_package (ss : schemas) : list (string * list schema) := fold_left group_add ss [].

(* the merge loop over a given sequence of (package, inputs of that package) *)
Definition consolidate_seq (seq : list (string * list schema)) : res schemas :=
  mapM (fun pg => merge_group (fst pg) (snd pg)) seq.

(* Schemas.Consolidate as it is NOW (fix 3c2d3f2): `for _, pkg := range packages`, the packages in
   order of first appearance among the inputs; no map iteration is left *)
Definition consolidate (ss : schemas) : res schemas := consolidate_seq (group_by_package ss).

(* the variant BEFORE that fix (not cog's code any more): `for pkg, groupedSchemas := range
   byPackage`; ord = the order the runtime picks for the map (any permutation) *)
Definition consolidate_map_order (ord : list (string * list schema) -> list (string * list schema)) (ss : schemas) : res schemas :=
  consolidate_seq (ord (group_by_package ss)).

Definition is_ok {A} (r : res A) : bool := match r with Ok _ => true | _ => false end.

(* well-formed input schema: objects are keyed by their own name, keys are distinct
   (what AddObject / the ordered map guarantee, Props/C19.v) *)
Definition wf_objects (l : list (string * object)) : Prop :=
  NoDup (map fst l) /\ Forall (fun ko => fst ko = o_name (snd ko)) l.
Definition wf_schema (s : schema) : Prop := wf_objects (s_objects s).

(* ---------- Pipeline.Run's language loop on the labelled heap ----------
   `shared` is the value LoadSchemas returned (labelled heap value of type []*Schema). For each
   language, ContextForLanguage runs Passes.Process = DeepCopy (the copy semantics of Model/Heap.v
   over the regenerated spec) followed by the language's chain, which performs the writes
   `writes L c` on the heap while working on the copy `c`; what the jennies finally print is
   `out L` of the DATA of that copy. *)
Section Run.
  Variable lang : Type.
  Variables (d : decls_t) (sp : spec_t) (off : nat) (t : gty) (m : mode).
  Variable write : loc -> list (string * hval) -> hval -> hval.
  Variable writes : lang -> hval -> list (loc * list (string * hval)).
  Variable out : lang -> hval -> list file.

  Definition iteration (L : lang) (shared : hval) : hval * list file :=
    let c := copy d sp off t m shared in
    (fold_left (fun acc w => write (fst w) (snd w) acc) (writes L c) shared, out L (erase c)).

  (* the loop over the iteration sequence of `range targetsByLanguage` *)
  Fixpoint run (seq : list lang) (shared : hval) : list (lang * list file) :=
    match seq with
    | [] => []
    | L :: r => let it := iteration L shared in (L, snd it) :: run r (fst it)
    end.
End Run.
