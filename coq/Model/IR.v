(* The intermediate representation of cog (internal/ast/types.go, schema.go), as Gallina data.
   Definitions only.  PassesTrail fields (debug information) are deliberately not modelled;
   the harness printer omits them.  Go `any` values are `dyn`, carrying the dynamic Go type. *)
From Coq Require Export List String ZArith Bool Ascii.
Export ListNotations.
Local Open Scope list_scope.

Definition seqb : string -> string -> bool := String.eqb.

(* ---------- Go `any` ---------- *)
Inductive dyn :=
| DNil
| DBool (b : bool)
| DInt (gotype : string) (z : Z)          (* int, int64, uint8, ... *)
| DFloat (gotype : string) (repr : string) (* float64 / float32 / json.Number, shortest decimal text *)
| DStr (s : string)
| DList (l : list dyn)
| DMap (l : list (string * dyn))           (* map[string]any, key-sorted by the printer *)
| DOther (gotype : string) (repr : string).

Fixpoint dyn_eqb (a b : dyn) : bool :=
  match a, b with
  | DNil, DNil => true
  | DBool x, DBool y => Bool.eqb x y
  | DInt t x, DInt u y => seqb t u && Z.eqb x y
  | DFloat t x, DFloat u y => seqb t u && seqb x y
  | DStr x, DStr y => seqb x y
  | DList x, DList y =>
      (fix go (x y : list dyn) : bool :=
         match x, y with
         | [], [] => true
         | a :: r, b :: s => dyn_eqb a b && go r s
         | _, _ => false
         end) x y
  | DMap x, DMap y =>
      (fix go (x y : list (string * dyn)) : bool :=
         match x, y with
         | [], [] => true
         | (k, a) :: r, (k', b) :: s => seqb k k' && dyn_eqb a b && go r s
         | _, _ => false
         end) x y
  | DOther t x, DOther u y => seqb t u && seqb x y
  | _, _ => false
  end.

Definition dyn_is_nil (d : dyn) : bool := match d with DNil => true | _ => false end.

(* ---------- types ---------- *)
Inductive skind :=
| KNull | KAny | KBytes | KString | KFloat32 | KFloat64
| KUint8 | KUint16 | KUint32 | KUint64 | KInt8 | KInt16 | KInt32 | KInt64 | KBool
| KOther (s : string).

Definition skind_name (k : skind) : string :=
  match k with
  | KNull => "null" | KAny => "any" | KBytes => "bytes" | KString => "string"
  | KFloat32 => "float32" | KFloat64 => "float64"
  | KUint8 => "uint8" | KUint16 => "uint16" | KUint32 => "uint32" | KUint64 => "uint64"
  | KInt8 => "int8" | KInt16 => "int16" | KInt32 => "int32" | KInt64 => "int64"
  | KBool => "bool" | KOther s => s
  end%string.
Definition skind_eqb (a b : skind) : bool := seqb (skind_name a) (skind_name b).

Record constraint := { c_op : string ; c_args : list dyn }.

(* the attributes every Type carries: Nullable, Default, Hints (hint values that are plain
   `any`; the two hints holding a DisjunctionType are kept on the struct constructor) *)
Record attrs := { nullable : bool ; dflt : dyn ; hints : list (string * dyn) }.
Definition attrs0 : attrs := {| nullable := false ; dflt := DNil ; hints := [] |}.
Definition A0 := attrs0.

Record field_ (T : Type) := mkField
  { f_name : string ; f_comments : list string ; f_type : T ; f_required : bool }.
Record enumval_ (T : Type) := mkEnumVal { ev_type : T ; ev_name : string ; ev_value : dyn }.
Record disj_ (T : Type) := mkDisj
  { d_branches : list T ; d_disc : string ; d_mapping : list (string * string) }.
Arguments mkField {T}. Arguments f_name {T}. Arguments f_comments {T}. Arguments f_type {T}.
Arguments f_required {T}.
Arguments mkEnumVal {T}. Arguments ev_type {T}. Arguments ev_name {T}. Arguments ev_value {T}.
Arguments mkDisj {T}. Arguments d_branches {T}. Arguments d_disc {T}. Arguments d_mapping {T}.

Inductive ty :=
| TDisj (a : attrs) (d : disj_ ty)
| TArray (a : attrs) (v : ty)
| TEnum (a : attrs) (vs : list (enumval_ ty))
| TMap (a : attrs) (i v : ty)
| TStruct (a : attrs) (dh : list (string * disj_ ty)) (fs : list (field_ ty))
| TRef (a : attrs) (pkg name : string)
| TConstRef (a : attrs) (pkg name : string) (value : dyn)
| TScalar (a : attrs) (k : skind) (value : dyn) (cs : list constraint)
| TInter (a : attrs) (bs : list ty)
| TSlot (a : attrs) (variant : string)
| TBad (a : attrs) (kind : string).  (* zero Type / kind without its payload *)

Definition field := field_ ty.
Definition enumval := enumval_ ty.
Definition disj := disj_ ty.

Definition ty_zero : ty := TBad attrs0 "".

Definition ty_attrs (t : ty) : attrs :=
  match t with
  | TDisj a _ | TArray a _ | TEnum a _ | TMap a _ _ | TStruct a _ _ | TRef a _ _
  | TConstRef a _ _ _ | TScalar a _ _ _ | TInter a _ | TSlot a _ | TBad a _ => a
  end.
Definition set_attrs (t : ty) (a : attrs) : ty :=
  match t with
  | TDisj _ d => TDisj a d | TArray _ v => TArray a v | TEnum _ vs => TEnum a vs
  | TMap _ i v => TMap a i v | TStruct _ dh fs => TStruct a dh fs | TRef _ p n => TRef a p n
  | TConstRef _ p n v => TConstRef a p n v | TScalar _ k v cs => TScalar a k v cs
  | TInter _ bs => TInter a bs | TSlot _ v => TSlot a v | TBad _ k => TBad a k
  end.
Definition set_nullable (t : ty) (b : bool) : ty :=
  let a := ty_attrs t in set_attrs t {| nullable := b ; dflt := dflt a ; hints := hints a |}.
Definition set_default (t : ty) (d : dyn) : ty :=
  let a := ty_attrs t in set_attrs t {| nullable := nullable a ; dflt := d ; hints := hints a |}.
Definition set_hints (t : ty) (h : list (string * dyn)) : ty :=
  let a := ty_attrs t in set_attrs t {| nullable := nullable a ; dflt := dflt a ; hints := h |}.

Definition kind_name (t : ty) : string :=
  match t with
  | TDisj _ _ => "disjunction" | TArray _ _ => "array" | TEnum _ _ => "enum" | TMap _ _ _ => "map"
  | TStruct _ _ _ => "struct" | TRef _ _ _ => "ref" | TConstRef _ _ _ _ => "constant_ref"
  | TScalar _ _ _ _ => "scalar" | TInter _ _ => "intersection" | TSlot _ _ => "composable_slot"
  | TBad _ k => k
  end%string.

Definition is_struct t := match t with TStruct _ _ _ => true | _ => false end.
Definition is_ref t := match t with TRef _ _ _ => true | _ => false end.
Definition is_disj t := match t with TDisj _ _ => true | _ => false end.
Definition is_enum t := match t with TEnum _ _ => true | _ => false end.
Definition is_scalar t := match t with TScalar _ _ _ _ => true | _ => false end.
Definition is_array t := match t with TArray _ _ => true | _ => false end.
Definition is_map t := match t with TMap _ _ _ => true | _ => false end.
Definition is_inter t := match t with TInter _ _ => true | _ => false end.
Definition is_null t := match t with TScalar _ KNull _ _ => true | _ => false end.
Definition is_any t := match t with TScalar _ KAny _ _ => true | _ => false end.
Definition is_concrete_scalar t :=
  match t with TScalar _ _ v _ => negb (dyn_is_nil v) | _ => false end.

(* ---------- objects, schemas ---------- *)
Record object := mkObject
  { o_name : string ; o_comments : list string ; o_type : ty ;
    o_selfpkg : string ; o_selfname : string }.

Record smeta := { m_kind : string ; m_variant : string ; m_identifier : string }.

Record schema := mkSchema
  { s_pkg : string ; s_meta : smeta ; s_entry : string ; s_entrytype : ty ;
    s_objects : list (string * object) }.   (* orderedmap: key, value in insertion order *)

Definition schemas := list schema.

(* the ordered map operations on the association list (licensed by Props/C19.v) *)
Fixpoint objs_set (l : list (string * object)) (k : string) (o : object) : list (string * object) :=
  match l with
  | [] => [(k, o)]
  | (k', o') :: r => if seqb k' k then (k', o) :: r else (k', o') :: objs_set r k o
  end.
Fixpoint objs_get (l : list (string * object)) (k : string) : option object :=
  match l with
  | [] => None
  | (k', o') :: r => if seqb k' k then Some o' else objs_get r k
  end.
Definition objs_has l k := match objs_get l k with Some _ => true | None => false end.
Definition add_object (l : list (string * object)) (o : object) := objs_set l (o_name o) o.

Definition locate (ss : schemas) (pkg : string) : option schema :=
  find (fun s => seqb (s_pkg s) pkg) ss.
Definition locate_object (ss : schemas) (pkg name : string) : option object :=
  match locate ss pkg with Some s => objs_get (s_objects s) name | None => None end.

(* alist helpers for Go maps printed key-sorted *)
Fixpoint alist_set {V} (l : list (string * V)) (k : string) (v : V) : list (string * V) :=
  match l with
  | [] => [(k, v)]
  | (k', v') :: r =>
      match String.compare k k' with
      | Eq => (k, v) :: r
      | Lt => (k, v) :: (k', v') :: r
      | Gt => (k', v') :: alist_set r k v
      end
  end.
Fixpoint alist_find {V} (l : list (string * V)) (k : string) : option V :=
  match l with
  | [] => None
  | (k', v') :: r => if seqb k' k then Some v' else alist_find r k
  end.
Definition alist_has {V} (l : list (string * V)) k := match alist_find l k with Some _ => true | None => false end.

(* ---------- outcomes ---------- *)
Inductive res (A : Type) := Ok (a : A) | Err (e : string) | Panic (why : string) | OutOfFuel.
Arguments Ok {A}. Arguments Err {A}. Arguments Panic {A}. Arguments OutOfFuel {A}.
Definition bind {A B} (r : res A) (f : A -> res B) : res B :=
  match r with Ok a => f a | Err e => Err e | Panic w => Panic w | OutOfFuel => OutOfFuel end.
Notation "'do' x <- r ; k" := (bind r (fun x => k)) (at level 200, x name, r at level 100, k at level 200).
Fixpoint mapM {A B} (f : A -> res B) (l : list A) : res (list B) :=
  match l with
  | [] => Ok []
  | x :: r => do y <- f x ; do ys <- mapM f r ; Ok (y :: ys)
  end.

(* ---------- ASCII case folding (strings.EqualFold restricted to ASCII) ---------- *)
Definition lower_ascii (c : ascii) : ascii :=
  let n := nat_of_ascii c in if (Nat.leb 65 n && Nat.leb n 90)%bool then ascii_of_nat (n + 32) else c.
Definition upper_ascii (c : ascii) : ascii :=
  let n := nat_of_ascii c in if (Nat.leb 97 n && Nat.leb n 122)%bool then ascii_of_nat (n - 32) else c.
Fixpoint smap (f : ascii -> ascii) (s : string) : string :=
  match s with EmptyString => EmptyString | String c r => String (f c) (smap f r) end.
Definition to_lower := smap lower_ascii.
Definition to_upper := smap upper_ascii.
Definition equal_fold (a b : string) : bool := seqb (to_lower a) (to_lower b).
