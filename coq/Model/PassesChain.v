(* Models of the "language chain" compiler passes of internal/ast/compiler (the passes every
   language jenny runs before code generation).  One definition per Go pass, named after it.
   Definitions only.

   The Go passes mutate the IR in place through shared pointers; the models are functional.
   Where a Go pass READS the schema while it is rewriting it, the comment of the pass says
   which state it observes and why.  Go panics are `Panic`, errors are `Err`, unbounded
   recursion through reference cycles (a fatal Go stack overflow) is `OutOfFuel`. *)
From Cog Require Export Model.Passes.
From Coq Require Import DecimalString.
Local Open Scope string_scope.
Local Open Scope list_scope.
Local Notation "a +++ b" := (String.append a b) (at level 60, right associativity).

(* ---------- helpers ---------- *)
Definition Z_str (z : Z) : string := NilZero.string_of_int (Z.to_int z).
Definition nat_str (n : nat) : string := NilZero.string_of_uint (Nat.to_uint n).

Fixpoint join (sep : string) (l : list string) : string :=
  match l with
  | [] => ""
  | [x] => x
  | x :: r => x +++ sep +++ join sep r
  end.

(* fmt.Sprintf("%v", any) *)
Fixpoint dyn_str (d : dyn) : string :=
  match d with
  | DNil => "<nil>"
  | DBool b => if b then "true" else "false"
  | DInt _ z => Z_str z
  | DFloat _ r => r
  | DStr s => s
  | DList l =>
      "[" +++ join " " ((fix go (l : list dyn) : list string :=
                          match l with [] => [] | x :: r => dyn_str x :: go r end) l) +++ "]"
  | DMap l =>
      "map[" +++ join " " ((fix go (l : list (string * dyn)) : list string :=
                             match l with [] => [] | (k, x) :: r => (k +++ ":" +++ dyn_str x) :: go r end) l) +++ "]"
  | DOther _ r => r
  end.

(* ast.TypeName (tools.go) *)
Fixpoint type_name (t : ty) : string :=
  match t with
  | TRef _ _ n => upper_camel_case n
  | TScalar _ k _ _ => upper_camel_case (skind_name k)
  | TArray _ v => "ArrayOf" +++ type_name v
  | _ => upper_camel_case (kind_name t)
  end.

Definition ref_str (pkg name : string) : string := pkg +++ "." +++ name.    (* RefType.String *)
Definition self_str (o : object) : string := ref_str (o_selfpkg o) (o_selfname o).

Definition mk_attrs (n : bool) (d : dyn) (h : list (string * dyn)) : attrs :=
  {| nullable := n ; dflt := d ; hints := h |}.
Definition new_object (pkg name : string) (t : ty) : object := mkObject name [] t pkg name.

Definition first_char (s : string) : option ascii :=
  match s with EmptyString => None | String c _ => Some c end.
Definition tail_str (s : string) : string :=
  match s with EmptyString => EmptyString | String _ r => r end.
Definition is_char (c : ascii) (n : nat) : bool := Nat.eqb (nat_of_ascii c) n.

Definition count_objects (ss : schemas) : nat :=
  fold_left (fun n s => n + List.length (s_objects s)) ss 0.

(* Schema.Resolve: follows references BY NAME inside one schema (the package of the reference
   is ignored).  None = not found.  A reference cycle recurses forever in Go. *)
Fixpoint resolve_in (fuel : nat) (objs : list (string * object)) (t : ty) : res (option ty) :=
  match t with
  | TRef _ _ n =>
      match fuel with
      | O => OutOfFuel
      | S f => match objs_get objs n with
               | None => Ok None
               | Some o => resolve_in f objs (o_type o)
               end
      end
  | _ => Ok (Some t)
  end.
Definition resolve (s : schema) (t : ty) : res (option ty) :=
  resolve_in (S (List.length (s_objects s))) (s_objects s) t.

(* Schemas.ResolveToType: follows references across schemas; an unresolvable reference is
   returned as it is. *)
Fixpoint resolve_to_type_in (fuel : nat) (ss : schemas) (t : ty) : res ty :=
  match t with
  | TRef _ p n =>
      match fuel with
      | O => OutOfFuel
      | S f => match locate_object ss p n with
               | None => Ok t
               | Some o => resolve_to_type_in f ss (o_type o)
               end
      end
  | _ => Ok t
  end.
Definition resolve_to_type (ss : schemas) (t : ty) : res ty :=
  resolve_to_type_in (S (count_objects ss)) ss t.

Definition has_null_type (bs : list ty) : bool := existsb is_null bs.
Definition has_only_refs (bs : list ty) : bool := forallb is_ref bs.
Definition has_only_scalar_or_array_or_map (bs : list ty) : bool :=
  forallb (fun t => is_array t || is_map t || is_scalar t) bs.

(* VisitSchema (no OnSchema) threading a state: entry-point type, then the objects in order
   (stored with AddObject), then the objects registered during the visit. *)
Definition visit_schema_st {S : Type} (init : S) (on_type : S -> ty -> res (ty * S))
           (news : S -> list object) (s : schema) : res schema :=
  do r <- on_type init (s_entrytype s) ;
  do r2 <- (fix go (l : list (string * object)) (acc : list (string * object)) (st : S)
              : res (list (string * object) * S) :=
              match l with
              | [] => Ok (acc, st)
              | (_, o) :: rest =>
                  do r <- on_type st (o_type o) ;
                  go rest (add_object acc (set_otype o (fst r))) (snd r)
              end) (s_objects s) [] (snd r) ;
  Ok (mkSchema (s_pkg s) (s_meta s) (s_entry s) (fst r) (fold_left add_object (news (snd r2)) (fst r2))).

(* the default traversal (array values, map index then value, struct fields, intersection
   branches) with only OnDisjunction set, threading a state *)
Section VisitDisj.
  Variable S : Type.
  Variable on_disj : S -> ty -> res (ty * S).
  Fixpoint visit_disj (st : S) (t : ty) : res (ty * S) :=
    match t with
    | TArray a v => do r <- visit_disj st v ; Ok (TArray a (fst r), snd r)
    | TMap a i v =>
        do ri <- visit_disj st i ; do r <- visit_disj (snd ri) v ; Ok (TMap a (fst ri) (fst r), snd r)
    | TStruct a dh fs =>
        do r <- (fix go (l : list field) (st : S) : res (list field * S) :=
                   match l with
                   | [] => Ok ([], st)
                   | f :: rest =>
                       do r1 <- visit_disj st (f_type f) ;
                       do r2 <- go rest (snd r1) ;
                       Ok (mkField (f_name f) (f_comments f) (fst r1) (f_required f) :: fst r2, snd r2)
                   end) fs st ;
        Ok (TStruct a dh (fst r), snd r)
    | TInter a bs =>
        do r <- (fix go (l : list ty) (st : S) : res (list ty * S) :=
                   match l with
                   | [] => Ok ([], st)
                   | b :: rest =>
                       do r1 <- visit_disj st b ;
                       do r2 <- go rest (snd r1) ;
                       Ok (fst r1 :: fst r2, snd r2)
                   end) bs st ;
        Ok (TInter a (fst r), snd r)
    | TDisj _ _ => on_disj st t
    | _ => Ok (t, st)
    end.
End VisitDisj.
Arguments visit_disj {S}.

(* stateless variant *)
Definition visit_disj0 (on_disj : ty -> res ty) (t : ty) : res ty :=
  do r <- visit_disj (fun (_ : unit) d => do d' <- on_disj d ; Ok (d', tt)) tt t ; Ok (fst r).
Definition visit_schemas_disj0 (on_disj : schema -> ty -> res ty) (ss : schemas) : res schemas :=
  mapM (fun s => visit_schema (visit_disj0 (on_disj s))
                   (fun o => do t <- visit_disj0 (on_disj s) (o_type o) ; Ok (set_otype o t)) s) ss.

(* ---------- anonymous_structs_to_named.go ----------
   Objects.Map keeps the keys; the new objects are appended with AddObject (later Set of the
   same name overwrites, keeping the position).  Inner structs are registered before the
   struct that contains them.  Intersections are not traversed. *)
Fixpoint astn_type (pkg parent : string) (t : ty) : ty * list object :=
  match t with
  | TArray a v => let '(v', n) := astn_type pkg parent v in (TArray a v', n)
  | TMap a i v =>
      let '(i', n1) := astn_type pkg parent i in
      let '(v', n2) := astn_type pkg parent v in
      (TMap a i' v', n1 ++ n2)
  | TDisj a d =>
      let '(bs, n) := (fix go (l : list ty) : list ty * list object :=
                         match l with
                         | [] => ([], [])
                         | b :: r => let '(b', n1) := astn_type pkg parent b in
                                     let '(r', n2) := go r in (b' :: r', n1 ++ n2)
                         end) (d_branches d) in
      (TDisj a (mkDisj bs (d_disc d) (d_mapping d)), n)
  | TStruct a dh fs =>
      let '(fs', n) := (fix go (l : list field) : list field * list object :=
                          match l with
                          | [] => ([], [])
                          | f :: r =>
                              let '(t', n1) := astn_type pkg (parent +++ upper_camel_case (f_name f)) (f_type f) in
                              let '(r', n2) := go r in
                              (mkField (f_name f) (f_comments f) t' (f_required f) :: r', n1 ++ n2)
                          end) fs in
      (TRef (mk_attrs (nullable a) (dflt a) []) pkg parent,
       n ++ [new_object pkg parent (TStruct (mk_attrs false (dflt a) (hints a)) dh fs')])
  | _ => (t, [])
  end.

Definition astn_object (o : object) : object * list object :=
  let pkg := o_selfpkg o in
  let parent := upper_camel_case pkg +++ upper_camel_case (o_name o) in
  match o_type o with
  | TArray _ _ | TMap _ _ _ | TDisj _ _ =>
      let '(t', n) := astn_type pkg parent (o_type o) in (set_otype o t', n)
  | TStruct a dh fs =>
      let '(fs', n) :=
          fold_left (fun acc f =>
                       let '(t', n1) := astn_type pkg (parent +++ upper_camel_case (f_name f)) (f_type f) in
                       (fst acc ++ [mkField (f_name f) (f_comments f) t' (f_required f)], snd acc ++ n1))
                    fs ([], []) in
      (set_otype o (TStruct a dh fs'), n)
  | _ => (o, [])
  end.

Definition astn_schema (s : schema) : schema :=
  let '(objs, news) :=
      fold_left (fun acc ko => let '(o', n) := astn_object (snd ko) in
                               (objs_set (fst acc) (fst ko) o', snd acc ++ n))
                (s_objects s) ([], []) in
  set_objects s (fold_left add_object news objs).
Definition anonymous_structs_to_named (ss : schemas) : schemas := map astn_schema ss.

(* ---------- not_required_as_nullable.go ---------- *)
Fixpoint nrfn_ty (t : ty) : ty :=
  match t with
  | TArray a v => TArray a (nrfn_ty v)
  | TMap a i v => TMap a (nrfn_ty i) (nrfn_ty v)
  | TStruct a dh fs =>
      TStruct a dh (map (fun f =>
        let t' := nrfn_ty (f_type f) in
        mkField (f_name f) (f_comments f)
                (if negb (f_required f) && negb (nullable (ty_attrs t')) then set_nullable t' true else t')
                (f_required f)) fs)
  | TDisj a d => TDisj a (mkDisj (map nrfn_ty (d_branches d)) (d_disc d) (d_mapping d))
  | TInter a bs => TInter a (map nrfn_ty bs)
  | _ => t
  end.
Definition not_required_field_as_nullable_type (ss : schemas) : schemas :=
  map (visit_schema_t nrfn_ty (fun o => set_otype o (nrfn_ty (o_type o)))) ss.

(* ---------- disjunctions_with_null_to_optional.go ----------
   OnDisjunction replaces the default traversal: branches are not visited, the result is not
   visited again.  `null | null`: NonNullTypes()[0] on an empty slice. *)
Definition dwnto_disj (t : ty) : res ty :=
  match t with
  | TDisj _ d =>
      match d_branches d with
      | [_; _] =>
          if has_null_type (d_branches d) then
            match filter (fun b => negb (is_null b)) (d_branches d) with
            | b :: _ => Ok (set_nullable b true)
            | [] => Panic "index out of range [0] with length 0"
            end
          else Ok t
      | _ => Ok t
      end
  | _ => Ok t
  end.
Definition disjunction_with_null_to_optional (ss : schemas) : res schemas :=
  visit_schemas_disj0 (fun _ => dwnto_disj) ss.

(* ---------- disjunction_with_constant_to_default.go ---------- *)
Definition dwctd_disj (t : ty) : res ty :=
  match t with
  | TDisj _ d =>
      match d_branches d with
      | [TScalar a0 k0 v0 c0 as b0; TScalar a1 k1 v1 c1 as b1] =>
          if negb (skind_eqb k0 k1) then Ok t
          else if Bool.eqb (negb (dyn_is_nil v0)) (negb (dyn_is_nil v1)) then Ok t
          else if negb (dyn_is_nil v0) then Ok (set_default b1 v0)
          else Ok (set_default b0 v1)
      | _ => Ok t
      end
  | _ => Ok t
  end.
Definition disjunction_with_constant_to_default (ss : schemas) : res schemas :=
  visit_schemas_disj0 (fun _ => dwctd_disj) ss.

(* ---------- anonymous_enum.go ----------
   The suggested name of an enum found in a struct field is always
   UpperCamelCase(object name) + UpperCamelCase(field name), whatever the nesting depth.
   The reference that replaces the enum points into the package of the SCHEMA, the new object
   carries the package of the object's SelfRef.  The Default of the enum type moves to the reference
   (ast.Default is only applied when it is not nil); its hints are lost. *)
Fixpoint aete_type (spkg pkg cur suggested : string) (t : ty) : ty * list object :=
  match t with
  | TArray a v => let '(v', n) := aete_type spkg pkg cur suggested v in (TArray a v', n)
  | TMap a i v =>
      let '(i', n1) := aete_type spkg pkg cur suggested i in
      let '(v', n2) := aete_type spkg pkg cur suggested v in
      (TMap a i' v', n1 ++ n2)
  | TStruct a dh fs =>
      let '(fs', n) := (fix go (l : list field) : list field * list object :=
                          match l with
                          | [] => ([], [])
                          | f :: r =>
                              let '(t', n1) := aete_type spkg pkg cur
                                                 (upper_camel_case cur +++ upper_camel_case (f_name f)) (f_type f) in
                              let '(r', n2) := go r in
                              (mkField (f_name f) (f_comments f) t' (f_required f) :: r', n1 ++ n2)
                          end) fs in
      (TStruct a dh fs', n)
  | TEnum a vs =>
      let name := upper_camel_case suggested in
      (TRef (mk_attrs (nullable a) (dflt a) []) spkg name,
       [new_object pkg name
          (TEnum A0 (map (fun v => mkEnumVal (ev_type v) (upper_camel_case (ev_name v)) (ev_value v)) vs))])
  | TDisj a d =>
      let '(bs, n) := (fix go (l : list ty) : list ty * list object :=
                         match l with
                         | [] => ([], [])
                         | b :: r => let '(b', n1) := aete_type spkg pkg cur suggested b in
                                     let '(r', n2) := go r in (b' :: r', n1 ++ n2)
                         end) (d_branches d) in
      (TDisj a (mkDisj bs (d_disc d) (d_mapping d)), n)
  | TInter a bs =>
      let '(bs', n) := (fix go (l : list ty) : list ty * list object :=
                          match l with
                          | [] => ([], [])
                          | b :: r => let '(b', n1) := aete_type spkg pkg cur suggested b in
                                      let '(r', n2) := go r in (b' :: r', n1 ++ n2)
                          end) bs in
      (TInter a bs', n)
  | _ => (t, [])
  end.
Definition aete_schema (s : schema) : schema :=
  let '(objs, news) :=
      fold_left (fun acc ko =>
                   let o := snd ko in
                   if is_enum (o_type o) then (objs_set (fst acc) (fst ko) o, snd acc) else
                   let '(t', n) := aete_type (s_pkg s) (o_selfpkg o) (o_name o)
                                     (upper_camel_case (o_name o) +++ "Enum") (o_type o) in
                   (objs_set (fst acc) (fst ko) (set_otype o t'), snd acc ++ n))
                (s_objects s) ([], []) in
  set_objects s (fold_left add_object news objs).
Definition anonymous_enum_to_explicit_type (ss : schemas) : schemas := map aete_schema ss.

(* ---------- enum member names ---------- *)
(* member.Type.Scalar.ScalarKind: nil pointer when the member type is not a scalar *)
Definition member_kind (v : enumval) : res skind :=
  match ev_type v with
  | TScalar _ k _ _ => Ok k
  | _ => Panic "invalid memory address or nil pointer dereference"
  end.
Definition negative_name (n : string) : string := upper_camel_case ("negative" +++ tail_str n).

Definition map_objects_res (f : object -> res object) (s : schema) : res schema :=
  do objs <- (fix go (l : list (string * object)) (acc : list (string * object)) :=
                match l with
                | [] => Ok acc
                | (k, o) :: r => do o' <- f o ; go r (objs_set acc k o')
                end) (s_objects s) [] ;
  Ok (set_objects s objs).

(* ---------- prefix_enum_values.go: top-level enum objects only ---------- *)
Definition pev_member_name (v : enumval) : res string :=
  do k <- member_kind v ;
  do none <- (if skind_eqb k KString
              then match ev_value v with
                   | DStr s => Ok (seqb s "")
                   | _ => Panic "interface conversion: interface {} is not string"
                   end
              else Ok false) ;
  if none then Ok "None"
  else if negb (skind_eqb k KInt64) then Ok (upper_camel_case (ev_name v))
  else match first_char (ev_name v) with
       | None => Panic "index out of range [0] with length 0"
       | Some c => if is_char c 45 then Ok (negative_name (ev_name v)) else Ok (upper_camel_case (ev_name v))
       end.
Definition pev_object (o : object) : res object :=
  match o_type o with
  | TEnum a vs =>
      do vs' <- mapM (fun v => do n <- pev_member_name v ;
                               Ok (mkEnumVal (ev_type v) (upper_camel_case (o_name o) +++ n) (ev_value v))) vs ;
      Ok (set_otype o (TEnum a vs'))
  | _ => Ok o
  end.
Definition prefix_enum_values (ss : schemas) : res schemas := mapM (map_objects_res pev_object) ss.

(* ---------- sanitize_enum_member_names.go: every enum the default traversal reaches ---------- *)
Definition senm_member (v : enumval) : res enumval :=
  do k <- member_kind v ;
  do n1 <- (if skind_eqb k KString && seqb (ev_name v) ""
            then match ev_value v with
                 | DStr s => Ok (if seqb s "" then "None" else ev_name v)
                 | _ => Panic "interface conversion: interface {} is not string"
                 end
            else Ok (ev_name v)) ;
  match first_char n1 with
  | None => Panic "index out of range [0] with length 0"
  | Some c =>
      let n2 := if is_char c 45 then negative_name n1 else n1 in
      match first_char n2 with
      | None => Panic "index out of range [0] with length 0"
      | Some c2 =>
          let n3 := if is_char c2 43 then upper_camel_case ("positive" +++ tail_str n2) else n2 in
          Ok (mkEnumVal (ev_type v) n3 (ev_value v))
      end
  end.
Fixpoint senm_ty (t : ty) : res ty :=
  match t with
  | TArray a v => do v' <- senm_ty v ; Ok (TArray a v')
  | TMap a i v => do i' <- senm_ty i ; do v' <- senm_ty v ; Ok (TMap a i' v')
  | TStruct a dh fs =>
      do fs' <- (fix go (l : list field) : res (list field) :=
                   match l with
                   | [] => Ok []
                   | f :: r => do t' <- senm_ty (f_type f) ; do r' <- go r ;
                               Ok (mkField (f_name f) (f_comments f) t' (f_required f) :: r')
                   end) fs ;
      Ok (TStruct a dh fs')
  | TDisj a d =>
      do bs <- (fix go (l : list ty) : res (list ty) :=
                  match l with
                  | [] => Ok []
                  | b :: r => do b' <- senm_ty b ; do r' <- go r ; Ok (b' :: r')
                  end) (d_branches d) ;
      Ok (TDisj a (mkDisj bs (d_disc d) (d_mapping d)))
  | TInter a bs =>
      do bs' <- (fix go (l : list ty) : res (list ty) :=
                   match l with
                   | [] => Ok []
                   | b :: r => do b' <- senm_ty b ; do r' <- go r ; Ok (b' :: r')
                   end) bs ;
      Ok (TInter a bs')
  | TEnum a vs => do vs' <- mapM senm_member vs ; Ok (TEnum a vs')
  | _ => Ok t
  end.
Definition sanitize_enum_member_names (ss : schemas) : res schemas :=
  mapM (visit_schema senm_ty (fun o => do t <- senm_ty (o_type o) ; Ok (set_otype o t))) ss.

(* ---------- rename_numeric_enum_values.go: top-level enum objects only ---------- *)
Fixpoint all_digits (s : string) : bool :=
  match s with EmptyString => true | String c r => is_digit c && all_digits r end.
Fixpoint digits_value (s : string) (acc : Z) : Z :=
  match s with
  | EmptyString => acc
  | String c r => digits_value r (acc * 10 + Z.of_nat (nat_of_ascii c - 48))%Z
  end.
(* strconv.Atoi succeeds: optional sign, at least one digit, value in the int64 range *)
Definition atoi_ok (s : string) : bool :=
  match s with
  | EmptyString => false
  | String c r =>
      let '(neg, ds) := if is_char c 45 then (true, r) else if is_char c 43 then (false, r) else (false, s) in
      match ds with
      | EmptyString => false
      | _ => all_digits ds &&
             (let v := digits_value ds 0%Z in
              if neg then Z.leb v 9223372036854775808 else Z.leb v 9223372036854775807)
      end
  end.
Definition rnev_object (o : object) : object :=
  match o_type o with
  | TEnum a vs =>
      set_otype o (TEnum a (map (fun v =>
        if atoi_ok (ev_name v)
        then mkEnumVal (ev_type v)
                       (match first_char (ev_name v) with
                        | Some c => if is_char c 45 then negative_name (ev_name v)
                                    else "N" +++ upper_camel_case (ev_name v)
                        | None => ev_name v
                        end) (ev_value v)
        else v) vs))
  | _ => o
  end.
Definition rename_numeric_enum_values (ss : schemas) : schemas :=
  map (fun s => set_objects s (fold_left (fun acc ko => objs_set acc (fst ko) (rnev_object (snd ko))) (s_objects s) [])) ss.

(* ---------- sizes (fuel for recursions that follow references) ---------- *)
Fixpoint ty_size (t : ty) : nat :=
  match t with
  | TArray _ v => S (ty_size v)
  | TMap _ i v => S (ty_size i + ty_size v)
  | TStruct _ _ fs => S (fold_right (fun f n => ty_size (f_type f) + n) 0 fs)
  | TDisj _ d => S (fold_right (fun b n => ty_size b + n) 0 (d_branches d))
  | TInter _ bs => S (fold_right (fun b n => ty_size b + n) 0 bs)
  | _ => 1
  end.
Definition schemas_size (ss : schemas) : nat :=
  fold_left (fun n s => fold_left (fun n ko => n + ty_size (o_type (snd ko))) (s_objects s) n) ss 0.

(* ---------- disjunction_of_constants_to_enum.go ----------
   ResolveToType reads `pass.schemas`, the slice VisitSchemas overwrites as it goes: packages
   already visited are seen in their NEW state, the current and later ones in their original
   state (top-level object types are never written in place).  A disjunction of constants seen
   through its new enum form yields the same members, so the model resolves in the original
   schemas.  Mutually recursive disjunctions recurse forever: a recursion deeper than twice the
   number of type nodes has been through the same node twice with the same candidate kind. *)
Definition is_numeric_kind (k : skind) : bool :=
  existsb (seqb (skind_name k))
          ["float32"; "float64"; "uint8"; "uint16"; "uint32"; "uint64"; "int8"; "int16"; "int32"; "int64"].
Definition docte_state := (option skind * list enumval)%type.
(* isScalarValidEnumMember: the first accepted kind becomes the candidate for good *)
Definition docte_valid (k : skind) (cand : option skind) : bool * option skind :=
  if skind_eqb k KString || is_numeric_kind k then
    match cand with
    | None => (true, Some k)
    | Some c => (skind_eqb c k, cand)
    end
  else (false, cand).
Definition value_to_string (v : dyn) : string := match v with DStr s => s | _ => dyn_str v end.

Fixpoint docte_resolves (fuel : nat) (ss : schemas) (t : ty) (st : docte_state) : res (bool * docte_state) :=
  match fuel with
  | O => OutOfFuel
  | S f =>
      do r <- resolve_to_type ss t ;
      match r with
      | TScalar _ k v _ =>
          if dyn_is_nil v then Ok (false, st) else
          let '(ok, cand) := docte_valid k (fst st) in
          if ok
          then Ok (true, (cand, snd st ++ [mkEnumVal (TScalar A0 (match cand with Some c => c | None => k end) DNil [])
                                                     (value_to_string v) v]))
          else Ok (false, (cand, snd st))
      | TDisj _ d =>
          (fix go (l : list ty) (st : docte_state) : res (bool * docte_state) :=
             match l with
             | [] => Ok (true, st)
             | b :: rest =>
                 do x <- docte_resolves f ss b st ;
                 if fst x then go rest (snd x) else Ok (false, snd x)
             end) (d_branches d) st
      | TEnum _ vs =>
          (fix go (l : list enumval) (st : docte_state) : res (bool * docte_state) :=
             match l with
             | [] => Ok (true, st)
             | m :: rest =>
                 do k <- member_kind m ;
                 let '(ok, cand) := docte_valid k (fst st) in
                 if ok then go rest (cand, snd st ++ [m]) else Ok (false, (cand, snd st))
             end) vs st
      | _ => Ok (false, st)
      end
  end.
Definition docte_disj (ss : schemas) (t : ty) : res ty :=
  match t with
  | TDisj a d =>
      match d_branches d with
      | [] | [_] => Ok t
      | _ =>
          do x <- docte_resolves (2 * (schemas_size ss + ty_size t) + 4) ss t (None, []) ;
          if fst x then Ok (TEnum (mk_attrs (nullable a) (dflt a) []) (snd (snd x))) else Ok t
      end
  | _ => Ok t
  end.
Definition disjunction_of_constants_to_enum (ss : schemas) : res schemas :=
  visit_schemas_disj0 (fun _ => docte_disj ss) ss.

(* ---------- flatten_disjunctions.go ----------
   schema.Resolve only returns top-level object types, which this pass never writes in place
   (it installs a NEW DisjunctionType on a copy of the Type), so it reads the original schema.
   A branch whose reference cannot be resolved is dropped. *)
Definition fd_state := (list string * list ty)%type.
Definition fd_add (st : fd_state) (name : string) (t : ty) : fd_state :=
  if existsb (seqb name) (fst st) then st else (fst st ++ [name], snd st ++ [t]).
Definition fd_disj (s : schema) (t : ty) : res ty :=
  match t with
  | TDisj a d =>
      do st <- (fix go (i : nat) (l : list ty) (st : fd_state) : res fd_state :=
                  match l with
                  | [] => Ok st
                  | b :: rest =>
                      let n0 := if is_struct b then "branch_" +++ nat_str i else type_name b in
                      let n := match b with
                               | TScalar _ _ v _ => if dyn_is_nil v then n0 else "concrete_" +++ n0 +++ "_" +++ dyn_str v
                               | _ => n0
                               end in
                      if negb (is_ref b) then go (S i) rest (fd_add st n b) else
                      do r <- resolve s b ;
                      match r with
                      | None => go (S i) rest st
                      | Some (TDisj _ d') =>
                          go (S i) rest (fold_left (fun st rb => fd_add st (type_name rb) rb) (d_branches d') st)
                      | Some _ => go (S i) rest (fd_add st n b)
                      end
                  end) 0 (d_branches d) ([], []) ;
      Ok (TDisj a (mkDisj (snd st) (d_disc d) (d_mapping d)))
  | _ => Ok t
  end.
Definition flatten_disjunctions (ss : schemas) : res schemas := visit_schemas_disj0 fd_disj ss.

(* ---------- disjunctions_of_anonymous_to_explicit.go ----------
   The state is visitor.newObjects (keyed by package.name; the package is the schema's, so
   the name alone identifies the entry).  Only struct branches are visited recursively. *)
Definition doaste_name (b : ty) (i : nat) : string :=
  match b with
  | TStruct _ _ fs =>
      match find (fun f => is_concrete_scalar (f_type f)) fs with
      | Some f => match f_type f with
                  | TScalar _ _ v _ => upper_camel_case (f_name f) +++ upper_camel_case (dyn_str v)
                  | _ => ""
                  end
      | None => "Branch" +++ nat_str i
      end
  | _ => ""
  end.
Fixpoint doaste_ty (pkg : string) (st : list (string * object)) (t : ty) : ty * list (string * object) :=
  match t with
  | TArray a v => let '(v', st') := doaste_ty pkg st v in (TArray a v', st')
  | TMap a i v =>
      let '(i', st1) := doaste_ty pkg st i in
      let '(v', st') := doaste_ty pkg st1 v in (TMap a i' v', st')
  | TStruct a dh fs =>
      let '(fs', st') := (fix go (l : list field) (st : list (string * object)) : list field * list (string * object) :=
                            match l with
                            | [] => ([], st)
                            | f :: r => let '(t', st1) := doaste_ty pkg st (f_type f) in
                                        let '(r', st2) := go r st1 in
                                        (mkField (f_name f) (f_comments f) t' (f_required f) :: r', st2)
                            end) fs st in
      (TStruct a dh fs', st')
  | TInter a bs =>
      let '(bs', st') := (fix go (l : list ty) (st : list (string * object)) : list ty * list (string * object) :=
                            match l with
                            | [] => ([], st)
                            | b :: r => let '(b', st1) := doaste_ty pkg st b in
                                        let '(r', st2) := go r st1 in (b' :: r', st2)
                            end) bs st in
      (TInter a bs', st')
  | TDisj a d =>
      let bs := d_branches d in
      if Nat.eqb (List.length (filter is_scalar bs)) 1 && Nat.eqb (List.length (filter is_struct bs)) 1
      then (t, st) else
      let '(bs', st') := (fix go (i : nat) (l : list ty) (st : list (string * object)) : list ty * list (string * object) :=
                            match l with
                            | [] => ([], st)
                            | b :: r =>
                                match b with
                                | TStruct _ _ _ =>
                                    let name := doaste_name b i in
                                    let '(b', st1) := doaste_ty pkg st b in
                                    let '(r', st2) := go (S i) r (objs_set st1 name (new_object pkg name b')) in
                                    (TRef A0 pkg name :: r', st2)
                                | _ => let '(r', st2) := go (S i) r st in (b :: r', st2)
                                end
                            end) 0 bs st in
      (TDisj a (mkDisj bs' (d_disc d) (d_mapping d)), st')
  | _ => (t, st)
  end.
Definition disjunction_of_anonymous_structs_to_explicit (ss : schemas) : res schemas :=
  mapM (fun s => visit_schema_st [] (fun st t => Ok (doaste_ty (s_pkg s) st t)) (map snd) s) ss.

(* ---------- disjunctions_infer_mapping.go ----------
   Reads struct fields of top-level objects through schema.Resolve; the pass only rewrites
   discriminator data of disjunctions, which those reads never look at: original schema.
   The inferred discriminator is written in place, so it stays even when building the mapping
   then fails (that failure is not an error of the pass). *)
Definition dim_candidate (f : field) : bool :=
  match f_type f with
  | TScalar _ k v _ => negb (dyn_is_nil v) && skind_eqb k KString
  | TConstRef _ _ _ _ => true
  | _ => false
  end.
Fixpoint str_alist_set {V} (l : list (string * V)) (k : string) (v : V) : list (string * V) :=
  match l with
  | [] => [(k, v)]
  | (k', v') :: r => if seqb k' k then (k', v) :: r else (k', v') :: str_alist_set r k v
  end.
(* The candidate fields of the FIRST branch's struct that are candidates in every (struct)
   branch.  Go tries them in sorted order (sort.Strings: byte-wise) and keeps the first. *)
Definition dim_infer_candidates (s : schema) (d : disj) : res (list string) :=
  do cands <- (fix go (l : list ty) (acc : list (string * list string)) : res (list (string * list string)) :=
                 match l with
                 | [] => Ok acc
                 | b :: rest =>
                     do r <- resolve s b ;
                     match r, b with
                     | Some (TStruct _ _ fs), TRef _ _ n =>
                         go rest (str_alist_set acc n (map (fun f => f_name f) (filter dim_candidate fs)))
                     | _, _ => go rest acc
                     end
                 end) (d_branches d) [] ;
  match d_branches d with
  | TRef _ _ n :: _ =>
      match alist_find cands n with
      | None => Ok []
      | Some names => Ok (filter (fun c => forallb (fun kv => existsb (seqb c) (snd kv)) cands) names)
      end
  | _ => Panic "index out of range [0] with length 0"
  end.
Definition str_min (a b : string) : string :=
  match String.compare a b with Gt => b | _ => a end.
Definition dim_infer (s : schema) (d : disj) : res string :=
  do l <- dim_infer_candidates s d ;
  Ok (match l with c :: r => fold_left str_min r c | [] => "" end).
(* Ok None: buildDiscriminatorMapping returned an error *)
Definition dim_build (s : schema) (disc : string) (bs : list ty) : res (option (list (string * string))) :=
  if seqb disc "" then Ok None else
  (fix go (l : list ty) (acc : list (string * string)) : res (option (list (string * string))) :=
     match l with
     | [] => Ok (Some acc)
     | b :: rest =>
         do r <- resolve s b ;
         match r, b with
         | None, _ => Ok None
         | Some (TStruct _ _ fs), TRef _ _ n =>
             match find (fun f => seqb (f_name f) disc) fs with
             | None => Ok None
             | Some f =>
                 match f_type f with
                 | TScalar _ _ v _ =>
                     match v with
                     | DNil => Ok None
                     | DStr x => go rest (alist_set acc x n)
                     | _ => Panic "interface conversion: interface {} is not string"
                     end
                 | TConstRef _ _ _ v =>
                     match v with
                     | DStr x => go rest (alist_set acc x n)
                     | _ => Panic "interface conversion: interface {} is not string"
                     end
                 | _ => Ok None
                 end
             end
         | Some _, _ => Panic "invalid memory address or nil pointer dereference"
         end
     end) bs [].
Definition dim_disj (s : schema) (t : ty) : res ty :=
  match t with
  | TDisj a d =>
      let bs := d_branches d in
      if negb (has_only_refs bs) then Ok t else
      let no_mapping := match d_mapping d with [] => true | _ => false end in
      if negb (seqb (d_disc d) "") && negb no_mapping then Ok t else
      do disc <- (if seqb (d_disc d) "" then dim_infer s d else Ok (d_disc d)) ;
      if no_mapping then
        do m <- dim_build s disc bs ;
        match m with
        | Some mapping => Ok (TDisj a (mkDisj bs disc mapping))
        | None => Ok (TDisj a (mkDisj bs disc (d_mapping d)))
        end
      else Ok (TDisj a (mkDisj bs disc (d_mapping d)))
  | _ => Ok t
  end.
Definition disjunction_infer_mapping (ss : schemas) : res schemas := visit_schemas_disj0 dim_disj ss.

(* ---------- hasOnlySingleTypeScalars (disjunctions.go, undiscriminated_disjunctions_to_any.go) ---------- *)
Definition single_type_scalars (s : schema) (bs : list ty) : res (option skind) :=
  match bs with
  | [] => Ok None
  | b0 :: _ =>
      do r0 <- resolve s b0 ;
      match r0 with
      | Some (TScalar _ k _ _) =>
          (fix go (l : list ty) : res (option skind) :=
             match l with
             | [] => Ok (Some k)
             | b :: rest =>
                 do r <- resolve s b ;
                 match r with
                 | Some (TScalar _ k' _ _) => if skind_eqb k' k then go rest else Ok None
                 | _ => Ok None
                 end
             end) bs
      | _ => Ok None
      end
  end.

(* ---------- undiscriminated_disjunctions_to_any.go: nullability, default and hints of the
   disjunction are not carried over to the `any` ---------- *)
Definition udta_disj (s : schema) (t : ty) : res ty :=
  match t with
  | TDisj a d =>
      let bs := d_branches d in
      do single <- single_type_scalars s bs ;
      match single with
      | Some _ => Ok t
      | None =>
          if has_only_scalar_or_array_or_map bs then Ok t
          else if has_only_refs bs && (seqb (d_disc d) "" || match d_mapping d with [] => true | _ => false end)
          then Ok (TScalar A0 KAny DNil [])
          else Ok t
      end
  | _ => Ok t
  end.
Definition undiscriminated_disjunction_to_any (ss : schemas) : res schemas := visit_schemas_disj0 udta_disj ss.

(* ---------- disjunctions.go (DisjunctionToType) ----------
   schema.Resolve sees the original top-level object types (the visitor writes the converted
   type into a copy of the Object).  The first object registered under a name wins; later
   disjunctions with the same generated name only get a reference to it.  Branches are not
   visited.  The default of the disjunction is lost on the reference. *)
Definition dtt_disj (s : schema) (st : list (string * object)) (t : ty) : res (ty * list (string * object)) :=
  match t with
  | TDisj a d =>
      let bs := d_branches d in
      do single <- single_type_scalars s bs ;
      match single with
      | Some k => Ok (TScalar (mk_attrs (nullable a) (dflt a) []) k DNil [], st)
      | None =>
          let name := join "Or" (map type_name bs) in
          let ref := TRef (mk_attrs (nullable a || has_null_type bs) DNil (hints a)) (s_pkg s) name in
          if objs_has st name then Ok (ref, st) else
          let fields := map (fun b => mkField (type_name b) [] (set_nullable b true) false)
                            (filter (fun b => negb (is_null b)) bs) in
          let dh_scalars := if has_only_scalar_or_array_or_map bs then [("disjunction_of_scalars", d)] else [] in
          do dh_refs <- (if has_only_refs bs then
                           if seqb (d_disc d) "" then Err "discriminator not set"
                           else match d_mapping d with
                                | [] => Err "discriminator mapping not set"
                                | _ => Ok [("disjunction_of_refs", d)]
                                end
                         else Ok []) ;
          let st' := objs_set st name (new_object (s_pkg s) name (TStruct (mk_attrs false DNil (hints a)) (dh_refs ++ dh_scalars) fields)) in
          Ok (ref, st')
      end
  | _ => Ok (t, st)
  end.
Definition disjunction_to_type (ss : schemas) : res schemas :=
  mapM (fun s => visit_schema_st [] (visit_disj (dtt_disj s)) (map snd) s) ss.

(* ---------- dataquery_identification.go ---------- *)
Definition dqi_object (common : object) (o : object) : res (object * bool) :=
  match o_type o with
  | TStruct a dh fs =>
      if alist_has (hints a) "implements_variant" then Ok (o, true) else
      match o_type common with
      | TStruct _ _ bfs =>
          if forallb (fun bf => has_field fs (f_name bf)) bfs
          then Ok (set_otype o (TStruct (mk_attrs (nullable a) (dflt a) (alist_set (hints a) "implements_variant" (DStr "dataquery"))) dh fs), true)
          else Ok (o, false)
      | _ => Panic "invalid memory address or nil pointer dereference"
      end
  | _ => Ok (o, false)
  end.
Definition dqi_schema (common : object) (s : schema) : res schema :=
  do r <- (fix go (l : list (string * object)) (acc : list (string * object)) (vs : list string)
             : res (list (string * object) * list string) :=
             match l with
             | [] => Ok (acc, vs)
             | (k, o) :: rest =>
                 if seqb (self_str o) (self_str common) then go rest (objs_set acc k o) vs else
                 do x <- dqi_object common o ;
                 go rest (objs_set acc k (fst x)) (if snd x then vs ++ [o_name (fst x)] else vs)
             end) (s_objects s) [] [] ;
  let '(objs, vs) := r in
  let meta := match vs with
              | [] => s_meta s
              | _ => {| m_kind := "composable" ; m_variant := "dataquery" ; m_identifier := m_identifier (s_meta s) |}
              end in
  match s_entry s, vs with
  | EmptyString, [v] =>
      let et := match objs_get objs v with
                | Some o => TRef A0 (o_selfpkg o) (o_selfname o)
                | None => TRef A0 "" ""
                end in
      Ok (mkSchema (s_pkg s) meta v et objs)
  | _, _ => Ok (mkSchema (s_pkg s) meta (s_entry s) (s_entrytype s) objs)
  end.
Definition dataquery_identification (ss : schemas) : res schemas :=
  match locate_object ss "common" "DataQuery" with
  | None => Ok ss
  | Some common => mapM (dqi_schema common) ss
  end.

(* ---------- inline_objects_with_types.go ----------
   objectsToInline maps "pkg.name" to the Type value ResolveToType returned in the first phase.
   That value shares its payload pointers with the top-level type of the object the chain of
   references ends at (its ORIGIN), and the visitor rewrites payloads in place: what a
   reference is replaced with is the origin's type AS REWRITTEN SO FAR (fully, if the origin
   was visited before; partially, if the origin is the object being visited; not at all if it
   comes later).  The inlined copy is not visited again.  The model keeps the in-place view of
   every schema (`cur`) and, while an object is being visited, the context that rebuilds its
   partially rewritten type. *)
Definition origin := (nat * string)%type.     (* schema index, object key *)
Fixpoint locate_idx (ss : schemas) (pkg : string) (i : nat) : option (nat * schema) :=
  match ss with
  | [] => None
  | s :: r => if seqb (s_pkg s) pkg then Some (i, s) else locate_idx r pkg (S i)
  end.
(* ResolveToType, also returning the object whose top-level type the result is *)
Fixpoint resolve_origin (fuel : nat) (ss : schemas) (og : origin) (t : ty) : res (ty * origin) :=
  match t with
  | TRef _ p n =>
      match fuel with
      | O => OutOfFuel
      | S f =>
          match locate_idx ss p 0 with
          | None => Ok (t, og)
          | Some (i, s) =>
              match objs_get (s_objects s) n with
              | None => Ok (t, og)
              | Some o => resolve_origin f ss (i, n) (o_type o)
              end
          end
      end
  | _ => Ok (t, og)
  end.
Definition iowt_collect (kinds : list string) (ss : schemas) : res (list (string * origin)) :=
  (fix gos (i : nat) (l : list schema) (acc : list (string * origin)) : res (list (string * origin)) :=
     match l with
     | [] => Ok acc
     | s :: rest =>
         do acc' <- (fix goo (l : list (string * object)) (acc : list (string * origin)) : res (list (string * origin)) :=
                       match l with
                       | [] => Ok acc
                       | (k, o) :: r =>
                           do x <- resolve_origin (S (count_objects ss)) ss (i, k) (o_type o) ;
                           if existsb (seqb (kind_name (fst x))) kinds && negb (is_concrete_scalar (o_type o))
                           then goo r (str_alist_set acc (self_str o) (snd x))
                           else goo r acc
                       end) (s_objects s) acc ;
         gos (S i) rest acc'
     end) 0 ss [].

Section Inline.
  (* lookup key partial-view-of-the-current-object *)
  Variable lookup : string -> ty -> option ty.
  Fixpoint iowt_ty (ctx : ty -> ty) (t : ty) : ty :=
    match t with
    | TArray a v => TArray a (iowt_ty (fun x => ctx (TArray a x)) v)
    | TMap a i v =>
        let i' := iowt_ty (fun x => ctx (TMap a x v)) i in
        TMap a i' (iowt_ty (fun x => ctx (TMap a i' x)) v)
    | TStruct a dh fs =>
        TStruct a dh
          ((fix go (done : list field) (l : list field) : list field :=
              match l with
              | [] => []
              | f :: r =>
                  let mk x := mkField (f_name f) (f_comments f) x (f_required f) in
                  let f' := mk (iowt_ty (fun x => ctx (TStruct a dh (done ++ mk x :: r))) (f_type f)) in
                  f' :: go (done ++ [f']) r
              end) [] fs)
    | TDisj a d =>
        TDisj a (mkDisj
          ((fix go (done : list ty) (l : list ty) : list ty :=
              match l with
              | [] => []
              | b :: r =>
                  let b' := iowt_ty (fun x => ctx (TDisj a (mkDisj (done ++ x :: r) (d_disc d) (d_mapping d)))) b in
                  b' :: go (done ++ [b']) r
              end) [] (d_branches d)) (d_disc d) (d_mapping d))
    | TInter a bs =>
        TInter a
          ((fix go (done : list ty) (l : list ty) : list ty :=
              match l with
              | [] => []
              | b :: r =>
                  let b' := iowt_ty (fun x => ctx (TInter a (done ++ x :: r))) b in
                  b' :: go (done ++ [b']) r
              end) [] bs)
    | TRef _ p n => match lookup (ref_str p n) (ctx t) with Some r => r | None => t end
    | _ => t
    end.
End Inline.

Definition view_type (cur : schemas) (og : origin) : option ty :=
  match nth_error cur (fst og) with
  | Some s => match objs_get (s_objects s) (snd og) with Some o => Some (o_type o) | None => None end
  | None => None
  end.
Fixpoint set_nth {A} (l : list A) (i : nat) (x : A) : list A :=
  match l, i with
  | [], _ => []
  | _ :: r, O => x :: r
  | y :: r, S j => y :: set_nth r j x
  end.
Definition iowt_lookup (inl : list (string * origin)) (cur : schemas) (self : option origin) (key : string) (partial : ty)
  : option ty :=
  match alist_find inl key with
  | None => None
  | Some og =>
      match self with
      | Some me => if Nat.eqb (fst og) (fst me) && seqb (snd og) (snd me) then Some partial else view_type cur og
      | None => view_type cur og
      end
  end.
Definition iowt_visit (inl : list (string * origin)) (ss : schemas) : schemas :=
  let '(out, _) :=
      fold_left (fun (acc : schemas * (schemas * nat)) (s : schema) =>
        let '(out, (cur, i)) := acc in
        let et := iowt_ty (iowt_lookup inl cur None) (fun x => x) (s_entrytype s) in
        let '(objs, cur') :=
            fold_left (fun (st : list (string * object) * schemas) (ko : string * object) =>
              let '(objs, cur) := st in
              let '(k, o) := ko in
              let t' := iowt_ty (iowt_lookup inl cur (Some (i, k))) (fun x => x) (o_type o) in
              let cur' := if is_ref (o_type o) then cur else
                          match nth_error cur i with
                          | Some cs => set_nth cur i (set_objects cs (objs_set (s_objects cs) k (set_otype o t')))
                          | None => cur
                          end in
              (add_object objs (set_otype o t'), cur'))
              (s_objects s) ([], cur) in
        (out ++ [mkSchema (s_pkg s) (s_meta s) (s_entry s) et objs], (cur', S i)))
        ss ([], (ss, 0)) in
  out.
Definition inline_objects_with_types (kinds : list string) (ss : schemas) : res schemas :=
  do inl <- iowt_collect kinds ss ;
  Ok (map (fun s => set_objects s (filter (fun ko => negb (alist_has inl (self_str (snd ko)))) (s_objects s)))
          (iowt_visit inl ss)).

(* ---------- remove_intersections.go ----------
   objectsToRemove / arraysToFix are keyed by object NAME only and live for the whole pass:
   what one schema records is also applied to (and removed from) the schemas visited later.
   An alias of a struct becomes a struct built with NewStruct(located.Fields...): it SHARES the
   field slice of the located struct, and the second loop rewrites fields in place, once per
   object holding the slice.  The model gives every struct object a slice identity. *)
Definition ri_state := (list (string * object) * list (string * object))%type.  (* to remove, arrays to fix *)
Definition ri_fields (st : ri_state) (fs : list field) : list field :=
  map (fun f =>
         match f_type f with
         | TRef ra _ n =>
             let f1 := match alist_find (fst st) n with
                       | Some obj => mkField (f_name f) (o_comments obj) (TRef A0 (o_selfpkg obj) (o_selfname obj)) false
                       | None => f
                       end in
             let f2 := match alist_find (snd st) n with
                       | Some obj => mkField (f_name f) (o_comments obj)
                                             (TArray A0 (match o_type obj with TArray _ v => v | _ => ty_zero end)) false
                       | None => f1
                       end in
             mkField (f_name f2) (f_comments f2)
                     (set_hints (f_type f2)
                                (fold_left (fun acc kv => alist_set acc (fst kv) (snd kv)) (hints ra) (hints (ty_attrs (f_type f2)))))
                     (f_required f2)
         | _ => f
         end) fs.
Definition ri_entry := (string * (object * nat))%type.
Fixpoint ri_get (l : list ri_entry) (k : string) : option (object * nat) :=
  match l with [] => None | (k', v) :: r => if seqb k' k then Some v else ri_get r k end.
Fixpoint ri_set (l : list ri_entry) (k : string) (v : object * nat) : list ri_entry :=
  match l with
  | [] => [(k, v)]
  | (k', v') :: r => if seqb k' k then (k', v) :: r else (k', v') :: ri_set r k v
  end.
Fixpoint ri_number (l : list (string * object)) (i : nat) : list ri_entry :=
  match l with [] => [] | (k, o) :: r => (k, (o, i)) :: ri_number r (S i) end.

Definition ri_schema (st : ri_state) (s : schema) : res (schema * ri_state) :=
  (* loop 1: objects that are references *)
  do r1 <- (fix go (keys : list string) (objs : list ri_entry) (st : ri_state) : res (list ri_entry * ri_state) :=
              match keys with
              | [] => Ok (objs, st)
              | k :: rest =>
                  match ri_get objs k with
                  | Some (o, _) =>
                      match o_type o with
                      | TRef ra _ n =>
                          match ri_get objs n with
                          | Some (lo, lid) =>
                              match o_type lo with
                              | TStruct la ldh lfs =>
                                  do h0 <- (match alist_find (hints ra) "implements_variant" with
                                            | None => Ok []
                                            | Some (DStr v) => Ok [("implements_variant", DStr v)]
                                            | Some _ => Panic "interface conversion: interface {} is not string"
                                            end) ;
                                  let h := fold_left (fun acc kv => alist_set acc (fst kv) (snd kv)) (hints la) h0 in
                                  go rest (ri_set objs k (set_otype o (TStruct (mk_attrs false DNil h) ldh lfs), lid))
                                     (str_alist_set (fst st) (o_name lo) o, snd st)
                              | TArray _ _ =>
                                  go rest objs (str_alist_set (fst st) (o_name o) o, str_alist_set (snd st) (o_name o) lo)
                              | _ => go rest objs st
                              end
                          | None => go rest objs st
                          end
                      | _ => go rest objs st
                      end
                  | None => go rest objs st
                  end
              end) (map fst (s_objects s)) (ri_number (s_objects s) 0) st ;
  let '(objs1, st1) := r1 in
  (* loop 2: struct objects, through their (possibly shared) field slices *)
  let heap0 : list (nat * list field) :=
      fold_left (fun h e => match o_type (fst (snd e)) with
                            | TStruct _ _ fs => if existsb (fun x => Nat.eqb (fst x) (snd (snd e))) h then h
                                                else h ++ [(snd (snd e), fs)]
                            | _ => h end) objs1 [] in
  let heap :=
      fold_left (fun h e => match o_type (fst (snd e)) with
                            | TStruct _ _ _ =>
                                map (fun x => if Nat.eqb (fst x) (snd (snd e)) then (fst x, ri_fields st1 (snd x)) else x) h
                            | _ => h end) objs1 heap0 in
  let objs2 :=
      map (fun e => let o := fst (snd e) in
                    match o_type o with
                    | TStruct a dh fs =>
                        let fs' := match find (fun x => Nat.eqb (fst x) (snd (snd e))) heap with
                                   | Some x => snd x | None => fs end in
                        (fst e, set_otype o (TStruct a dh fs'))
                    | _ => (fst e, o)
                    end) objs1 in
  Ok (set_objects s (filter (fun ko => negb (alist_has (fst st1) (fst ko))) objs2), st1).
Definition remove_intersections (ss : schemas) : res schemas :=
  do r <- (fix go (l : list schema) (st : ri_state) : res (list schema) :=
             match l with
             | [] => Ok []
             | s :: rest => do x <- ri_schema st s ; do rest' <- go rest (snd x) ; Ok (fst x :: rest')
             end) ss ([], []) ;
  Ok r.

(* ---------- sharing left behind by a pass ----------
   The models are functional.  Three Go passes leave payload pointers SHARED between two places
   of their result; a later pass that rewrites payloads in place then changes both places at
   once (or visits the shared part twice), which a functional model of that later pass cannot
   reproduce.  These predicates recognise (conservatively) the inputs on which that happens:
   - FlattenDisjunctions copies the branches of a referenced top-level disjunction;
   - DisjunctionToType stores the disjunction in a hint of the struct whose fields are its branches;
   - RemoveIntersections builds a struct on the field slice of the struct it aliases. *)
Definition has_payload (t : ty) : bool :=
  match t with
  | TArray _ _ | TMap _ _ _ | TStruct _ _ _ | TDisj _ _ | TInter _ _ => true
  | _ => false
  end.
Definition any_visited_disj (f : schema -> disj -> bool) (ss : schemas) : bool :=
  existsb (fun s =>
             existsb (fun t => match visit_disj (fun (st : bool) t =>
                                                   match t with
                                                   | TDisj _ d => Ok (t, st || f s d)
                                                   | _ => Ok (t, st)
                                                   end) false t with
                               | Ok r => snd r
                               | _ => false
                               end)
                     (s_entrytype s :: map (fun ko => o_type (snd ko)) (s_objects s))) ss.
Definition fd_shares (ss : schemas) : bool :=
  any_visited_disj (fun s d =>
    existsb (fun b => is_ref b && match resolve s b with
                                  | Ok (Some (TDisj _ d')) => existsb has_payload (d_branches d')
                                  | _ => false
                                  end) (d_branches d)) ss.
Definition dtt_shares (ss : schemas) : bool :=
  any_visited_disj (fun _ d => has_only_scalar_or_array_or_map (d_branches d)
                               && existsb has_payload (d_branches d)) ss.
Definition ri_shares (ss : schemas) : bool :=
  existsb (fun s => existsb (fun ko => match o_type (snd ko) with
                                       | TRef _ _ n => match objs_get (s_objects s) n with
                                                       | Some lo => is_struct (o_type lo)
                                                       | None => false
                                                       end
                                       | _ => false
                                       end) (s_objects s)) ss.
