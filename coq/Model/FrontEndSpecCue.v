(* Specifications for the CUE front-end theorems (definitions only); see Model/FrontEndSpec.v for the JSON Schema ones.

   ir_accepts_c ctx d t : ir_accepts (Model/FrontEndSpec.v) under CUE's number kinds: `int` and `float` are DISJOINT in
     CUE (1.0 is not an int, 1 is not a float), which the IR's scalar kinds keep apart too (int64 vs float64) but the
     JSON-level ir_accepts does not: a document number must be WRITTEN as an integer literal for an integer kind and
     with a fraction for a float kind (constants and enum members are compared by value on both sides).
   src_wf_cue           : the decidable well-formedness of the construct grammar the theorems quantify over; it includes
     cue_bounds_in_width: every integer bound lies inside its declared width (otherwise CUE's simplification of
     `int8 & <=500` is not what Model/FrontEndCue.v tabulates). *)
From Coq Require Import List String ZArith Bool Ascii.
From Cog Require Import Model.IR Model.Json Model.GoSemBase Model.GoSemValidate Model.Src Model.FrontEnd Model.FrontEndSpec
  Model.FrontEndCue.
Import ListNotations.
Local Open Scope list_scope.
Local Open Scope string_scope.

Definition cue_number_form (k : skind) (j : json) : bool :=
  match j with
  | JNum m e =>
      match k with
      | KFloat32 | KFloat64 => Z.ltb e 0
      | KAny | KBool | KString | KNull | KBytes | KOther _ => true
      | _ => num_is_int_literal m e
      end
  | _ => true
  end.

Fixpoint ir_accepts_c (ctx : schemas) (j : json) (t : ty) {struct j} : bool :=
  existsb (fun alt =>
    match alt with
    | TScalar a k v cs => (scalar_accepts alt a k v cs j && (negb (dyn_is_nil v) || cue_number_form k j))%bool
    | TEnum _ vs => existsb (fun ev => const_matches (ev_value ev) j) vs
    | TArray _ et => match j with JArr l => forallb (fun x => ir_accepts_c ctx x et) l | _ => false end
    | TMap _ _ vt => match j with JObj ms => forallb (fun kv => ir_accepts_c ctx (snd kv) vt) ms | _ => false end
    | TStruct _ _ fs =>
        match j with
        | JObj ms =>
            (str_nodup (map fst ms) &&
             forallb (fun kv => match find (fun f => seqb (f_name f) (fst kv)) fs with
                                | Some f => ir_accepts_c ctx (snd kv) (f_type f)
                                | None => false
                                end) ms &&
             forallb (fun f => (negb (f_required f) || str_in (f_name f) (map fst ms))%bool) fs)%bool
        | _ => false
        end
    | _ => false
    end) (alternatives ctx (alt_fuel ctx) t).

Definition ir_accepts_c_doc (ctx : schemas) (p n : string) (j : json) : bool :=
  match j with JNull => false | _ => ir_accepts_c ctx j (TRef attrs0 p n) end.

Definition parse_ctx_cue (s : src_schema) : schemas := match parse_cue s with FOk c => c | _ => [] end.

(* every integer bound lies inside the declared width *)
Definition bound_in_width (w : string) (o : option Z) : bool :=
  match o, int_range (cue_int_kind w) with
  | Some z, Some (lo, hi) => (Z.leb lo z && Z.leb z hi)%bool
  | _, _ => true
  end.
Fixpoint cue_bounds_in_width (t : src_ty) : bool :=
  match t with
  | SInt w ge gt le lt => (bound_in_width w ge && bound_in_width w gt && bound_in_width w le && bound_in_width w lt)%bool
  | SArray et => cue_bounds_in_width et
  | SMap vt => cue_bounds_in_width vt
  | SStruct fs => forallb (fun f => cue_bounds_in_width (sf_type f)) fs
  | SUnion bs => forallb cue_bounds_in_width bs
  | _ => true
  end.

Definition src_wf_cue (s : src_schema) : bool :=
  (cue_schema_supported s && forallb (fun d => ty_wf (src_defs s) (snd d)) (src_defs s) &&
   forallb (fun d => cue_bounds_in_width (snd d)) (src_defs s))%bool.

Definition cue_acceptance_agrees (s : src_schema) (tname : string) (d : json) : bool :=
  Bool.eqb (src_valid_doc "cue" s tname d) (ir_accepts_c_doc (parse_ctx_cue s) (src_pkg s) tname d).

(* one element of the stream of checks/c01.py: (schema, format, type, document, reference verdict) *)
Definition fe_cue_accept_in_domain (c : src_schema * string * string * json * bool) : bool :=
  let '(s, fmt, tname, j, _) := c in
  (seqb fmt "cue" && src_wf_cue s && json_wf j && str_in tname (map fst (src_defs s)))%bool.
Definition fe_cue_accept_disagrees (c : src_schema * string * string * json * bool) : bool :=
  let '(s, fmt, tname, j, _) := c in
  (fe_cue_accept_in_domain c && negb (cue_acceptance_agrees s tname j))%bool.
