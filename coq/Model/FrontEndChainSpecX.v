(* Specifications for the theorems ACROSS the Go compiler-pass chain for the OpenAPI and CUE front-ends
   (definitions only); the JSON Schema counterparts are in Model/FrontEndChainSpec.v and are reused where the
   meaning is the same (sdef_plain, ty_leafy, obj_leafy, attrs_plain, nrfn_only).

   What differs from JSON Schema:
     - the schema parse_openapi / parse_cue produce has NO entry point: s_entry = "" and s_entrytype = TBad attrs0 "",
       which is not a leaf of ty_leafy: `ety_leafy_x` / `ety_plain_x` also allow a TBad entry type;
     - scalar kinds: OpenAPI produces int32 / int64 / float32 / float64, CUE every integer width and both float
       widths: `kind_plain_x` allows all of them.

   chain_plain_oa s / chain_plain_cue s : src_wf_oa s / src_wf_cue s, and every definition is a non-empty struct whose
                                          members are neither nullable nor type arrays and have types built from
                                          bool / integer / number / string / date-time / array / map / reference only
                                          (sdef_plain of Model/FrontEndChainSpec.v).
   ctx_leafy_x / ctx_plain_x            : the same fragment read off the IR. *)
From Coq Require Import List String ZArith Bool Ascii.
From Cog Require Import Model.IR Model.Json Model.GoSemBase Model.GoSemValidate Model.Src Model.FrontEnd
  Model.FrontEndSpec Model.FrontEndSpecOA Model.FrontEndCue Model.FrontEndSpecCue Model.Passes Model.GoSemSpec08
  Model.FrontEndChainSpec.
Import ListNotations.
Local Open Scope list_scope.
Local Open Scope string_scope.

(* ---------- the fragment, on the construct grammar ---------- *)
Definition chain_plain_oa (s : src_schema) : bool :=
  (src_wf_oa s && forallb (fun d => sdef_plain (snd d)) (src_defs s))%bool.
Definition chain_plain_cue (s : src_schema) : bool :=
  (src_wf_cue s && forallb (fun d => sdef_plain (snd d)) (src_defs s))%bool.

(* ---------- the fragment, on the IR ---------- *)
Definition is_tbad (t : ty) : bool := match t with TBad _ _ => true | _ => false end.

(* shape only; the entry type may be the zero type *)
Definition ety_leafy_x (t : ty) : bool := (ty_leafy t || is_tbad t)%bool.
Definition schema_leafy_x (s : schema) : bool :=
  (str_nodup (map fst (s_objects s)) && forallb obj_leafy (s_objects s) && ety_leafy_x (s_entrytype s))%bool.
Definition ctx_leafy_x (ctx : schemas) : bool := forallb schema_leafy_x ctx.

(* shape + attributes + kinds, every integer and float width *)
Definition kind_plain_x (k : skind) : bool :=
  match k with
  | KBool | KString | KFloat32 | KFloat64
  | KInt8 | KInt16 | KInt32 | KInt64 | KUint8 | KUint16 | KUint32 | KUint64 => true
  | _ => false
  end.
Fixpoint ty_plain_x (t : ty) : bool :=
  match t with
  | TScalar a k v _ => (attrs_plain a && kind_plain_x k && dyn_is_nil v)%bool
  | TRef a _ _ => attrs_plain a
  | TArray a v => (attrs_plain a && ty_plain_x v)%bool
  | TMap a i v => (attrs_plain a && ty_plain_x i && ty_plain_x v)%bool
  | _ => false
  end.
Definition obj_plain_x (ko : string * object) : bool :=
  (seqb (fst ko) (o_name (snd ko)) &&
   match o_type (snd ko) with
   | TStruct a dh fs =>
       (attrs_plain a && match dh with [] => true | _ => false end && forallb (fun f => ty_plain_x (f_type f)) fs)%bool
   | _ => false
   end)%bool.
Definition ety_plain_x (t : ty) : bool := (ty_plain_x t || is_tbad t)%bool.
Definition schema_plain_x (s : schema) : bool :=
  (str_nodup (map fst (s_objects s)) && forallb obj_plain_x (s_objects s) && ety_plain_x (s_entrytype s))%bool.
Definition ctx_plain_x (ctx : schemas) : bool := forallb schema_plain_x ctx.
