(* What the Go code cog prints MEANS, part 3: the generated Equals methods
   (templates/types/struct_equality_method.tmpl, block "type_equality_check").  Definitions only.

   eqc ctx t nl a b  is the code the template emits for (Type = t, Nullable = nl, SelfName = a,
   OtherName = b); the template's case order is kept:
     any -> reflect.DeepEqual | array -> len + index loop | map -> len + range over SELF's keys
     with lookups in OTHER | nullable -> nil checks then the dereferenced check | struct -> field by
     field | reference to a struct -> that object's Equals (same code, inlined) | scalar/enum/constant
     reference -> `!=`.
   A lookup of a key that OTHER lacks yields the Go zero value of the map's value type: this is the
   defect Props/C13.v refutes symmetry/transitivity/agreement-with-encoding with. *)
From Coq Require Import List String ZArith Bool Ascii.
From Cog Require Import Model.IR Model.Json Model.GoSemBase Model.GoSemDecode.
Import ListNotations.
Local Open Scope list_scope.
Local Open Scope string_scope.

(* `!=` on comparable leaves (time.Time is a struct: wall/ext/loc compared field by field) *)
Definition leaf_eq (a b : gval) : bool :=
  match a, b with
  | GNil, GNil => true
  | GBool x, GBool y => Bool.eqb x y
  | GInt x, GInt y => Z.eqb x y
  | GFloat m e, GFloat m' e' => (Z.eqb m m' && Z.eqb e e')%bool
  | GStr x, GStr y => String.eqb x y
  | GTime x l, GTime y l' => (String.eqb x y && Bool.eqb l l')%bool
  | _, _ => false
  end.

(* reflect.DeepEqual on two interface values holding generic decoded JSON *)
Definition deep_equal (a b : gval) : bool :=
  match a, b with
  | GNil, GNil => true
  | GAny x, GAny y => json_eqb x y   (* both are canonical (see decode_scalar) *)
  | _, _ => false
  end.

Definition elems (v : gval) : list gval :=
  match v with GSlice l => l | GPtr (GSlice l) => l | _ => [] end.
Definition entries (v : gval) : list (string * gval) :=
  match v with GMap l => l | GPtr (GMap l) => l | _ => [] end.

Fixpoint eqc (ctx : schemas) (t : ty) (nl : bool) (a b : gval) {struct a} : bool :=
  if is_any t then deep_equal a b else
  match payload_type ctx t with
  | PUnm _ => false
  | PTy pt =>
      let needs := (is_ref t && t_nullable t)%bool in
      match pt with
      | TArray _ et =>
          if (needs && xorb (is_nil a) (is_nil b))%bool then false else
          let lb := elems b in
          let go := fix go (la lb : list gval) {struct la} : bool :=
                      match la, lb with
                      | [], [] => true
                      | x :: r, y :: s => (eqc ctx et (t_nullable et) x y && go r s)%bool
                      | _, _ => false
                      end in
          match a with
          | GSlice la => go la lb
          | GPtr (GSlice la) => go la lb
          | _ => match lb with [] => true | _ => false end
          end
      | TMap _ _ vt =>
          if (needs && xorb (is_nil a) (is_nil b))%bool then false else
          let lb := entries b in
          let z := zero ctx vt in
          let go := fun la : list (string * gval) =>
                      (Nat.eqb (List.length la) (List.length lb) &&
                       forallb (fun kv => eqc ctx vt (t_nullable vt) (snd kv)
                                              (match gmap_find lb (fst kv) with Some y => y | None => z end)) la)%bool in
          match a with
          | GMap la => go la
          | GPtr (GMap la) => go la
          | _ => match lb with [] => true | _ => false end
          end
      | _ =>
          if nl then
            match a, b with
            | GNil, GNil => true
            | GPtr x, GPtr y => eqc ctx t false x y
            | _, _ => false
            end
          else
            match pt with
            | TStruct _ _ fs =>
                match a, b with
                | GStruct fa, GStruct fb =>
                    (fix go (fs : list field) (fa fb : list (string * gval)) {struct fa} : bool :=
                       match fs, fa, fb with
                       | [], [], [] => true
                       | f :: fr, (_, x) :: ar, (_, y) :: br =>
                           (eqc ctx (f_type f) (t_nullable (f_type f)) x y && go fr ar br)%bool
                       | _, _, _ => false
                       end) fs fa fb
                | _, _ => false
                end
            | _ => leaf_eq a b
            end
      end
  end.

(* resource.Equals(other) for the struct object n of package p *)
Definition equals_object (ctx : schemas) (p n : string) (a b : gval) : bool :=
  eqc ctx (TRef attrs0 p n) false a b.
