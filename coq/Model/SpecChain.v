(* Case checker additions for the language-chain passes: which correspondence cases have an
   implementation result that depends on Go's map iteration order. *)
From Cog Require Export Model.Spec15.
Local Open Scope list_scope.

Fixpoint map_order_sensitive (ps : list pass) (ss : schemas) : bool :=
  match ps with
  | [] => false
  | p :: r =>
      (match p with PDisjunctionInferMapping => dim_ambiguous ss | _ => false end)
      || match run_pass p ss with
         | Ok ss' => map_order_sensitive r ss'
         | _ => false
         end
  end.
Definition case_map_order (c : pcase) : bool :=
  let '(input, ps, _, _) := c in map_order_sensitive ps input.
