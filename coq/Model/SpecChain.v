(* Case checker additions for the language-chain passes: which correspondence cases run an
   in-place pass on a result in which an earlier pass left shared pointers (the functional
   models do not reproduce the effect of that sharing). *)
From Cog Require Export Model.Spec15.
Local Open Scope list_scope.

(* passes that never write through a payload pointer another place could share *)
Definition harmless_after_sharing (p : pass) : bool :=
  match p with
  | PPrefixEnumValues | PRenameNumericEnumValues | PDataqueryIdentification | POmit _
  | PSchemaSetIdentifier _ _ | PSchemaSetEntrypoint _ _ | PInferEntrypoint | PFilterSchemas _
  | PAppendCommentObjects _ | PAddObject _ _ _ _ => true
  | _ => false
  end.
Fixpoint alias_sensitive (ps : list pass) (ss : schemas) : bool :=
  match ps with
  | [] => false
  | p :: r =>
      (negb (forallb harmless_after_sharing r) &&
       match p with
       | PFlattenDisjunctions => fd_shares ss
       | PDisjunctionToType => dtt_shares ss
       | PRemoveIntersections => ri_shares ss
       | _ => false
       end)
      || match run_pass p ss with
         | Ok ss' => alias_sensitive r ss'
         | _ => false
         end
  end.
Definition case_alias (c : pcase) : bool :=
  let '(input, ps, _, _) := c in alias_sensitive ps input.
