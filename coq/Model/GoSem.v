(* What the Go code cog prints MEANS: entry points used by the correspondence checks (cases are
   produced by vlib/gencode.py from the real generated code's output).  Definitions only. *)
From Coq Require Import List String ZArith Bool Ascii.
From Cog Require Export Model.IR Model.Json Model.GoSemBase Model.GoSemDecode Model.GoSemEquals.
Import ListNotations.
Local Open Scope list_scope.
Local Open Scope string_scope.

(* ---------- the modelled fragment, as a decidable predicate on the context ---------- *)
Fixpoint ty_supported (ctx : schemas) (t : ty) : bool :=
  match t with
  | TScalar _ k _ cs =>
      match k with KNull | KBytes | KOther _ => false | _ => true end
  | TArray _ v => ty_supported ctx v
  | TMap _ i v => (match i with TScalar _ KString _ _ => true | _ => false end && ty_supported ctx v)%bool
  | TStruct _ _ fs => forallb (fun f => ty_supported ctx (f_type f)) fs
  | TEnum _ vs => match enum_base vs with
                  | TScalar _ (KString | KInt64 | KInt32 | KInt16 | KInt8 | KUint8 | KUint16 | KUint32 | KUint64) _ _ => true
                  | _ => false end
  | TRef _ _ _ | TConstRef _ _ _ _ =>
      match payload_type ctx t with PTy _ => true | PUnm _ => false end
  | _ => false
  end.

(* fields of a disjunction struct are what DisjunctionToType makes them *)
Definition union_ok (ctx : schemas) (t : ty) : bool :=
  match t with
  | TStruct _ _ fs =>
      match union_scalars t, union_refs t with
      | None, None => true
      | Some _, None =>
          forallb (fun f => match f_type f with
                            | TScalar _ _ _ _ as b => (t_nullable b && negb (f_required f))%bool
                            | TArray _ _ | TMap _ _ _ => negb (f_required f)
                            | _ => false end) fs
      | None, Some d =>
          forallb (fun f => match f_type f with
                            | TRef _ _ _ as b =>
                                (t_nullable b && negb (f_required f) &&
                                 match payload_type ctx b with
                                 | PTy (TStruct _ [] _) => true | _ => false end)%bool
                            | _ => false end) fs
      | _, _ => false
      end
  | _ => true
  end.

Definition object_supported (ctx : schemas) (o : object) : bool :=
  (negb (t_nullable (o_type o)) && ty_supported ctx (o_type o) && union_ok ctx (o_type o))%bool.

Definition ctx_supported (ctx : schemas) : bool :=
  forallb (fun s => forallb (fun ko => object_supported ctx (snd ko)) (s_objects s)) ctx.

(* ---------- observations of one document, as the driver prints them ---------- *)
Definition std_roundtrip (ctx : schemas) (p n : string) (j : json) : outcome json :=
  match decode_object ctx p n j with
  | GOk v => GOk (encode_object ctx p n v)
  | GErr => GErr
  | GPanic => GPanic
  | GUnmodelled w => GUnmodelled w
  end.

Definition is_unmodelled {A} (o : outcome A) : bool := match o with GUnmodelled _ => true | _ => false end.

(* observed: None = decode error, Some e = decoded and re-encoded as e *)
Definition std_agrees (model : outcome json) (observed : option json) : bool :=
  match model, observed with
  | GOk e, Some e' => json_eq e e'
  | GErr, None => true
  | _, _ => false
  end.

Definition opt_bool_eqb (a b : option bool) : bool :=
  match a, b with
  | Some x, Some y => Bool.eqb x y
  | None, None => true
  | _, _ => false
  end.

(* Equals matrix over the successfully decoded values; None where a value is missing *)
Definition model_eq_matrix (ctx : schemas) (p n : string) (vs : list (outcome gval)) : list (list (option bool)) :=
  map (fun a => map (fun b => match a, b with
                               | GOk x, GOk y => Some (equals_object ctx p n x y)
                               | _, _ => None end) vs) vs.

Fixpoint matrix_eqb (a b : list (list (option bool))) : bool :=
  match a, b with
  | [], [] => true
  | r :: a', s :: b' =>
      ((fix row (r s : list (option bool)) : bool :=
          match r, s with
          | [], [] => true
          | x :: r', y :: s' => (opt_bool_eqb x y && row r' s')%bool
          | _, _ => false
          end) r s && matrix_eqb a' b')%bool
  | _, _ => false
  end.
