(* What the Go code cog prints MEANS: entry points used by the correspondence checks (cases are
   produced by vlib/gencode.py from the real generated code's output).  Definitions only. *)
From Coq Require Import List String ZArith Bool Ascii.
From Cog Require Export Model.IR Model.Json Model.GoSemBase Model.GoSemDecode Model.GoSemEquals
  Model.GoSemValidate Model.GoSemStrict Model.GoSemSpec.
Import ListNotations.
Local Open Scope list_scope.
Local Open Scope string_scope.

(* ---------- the modelled fragment, as a decidable predicate on the context ---------- *)
(* a slice whose element kind is uint8 is a Go byte slice: encoding/json prints it as a base64 string *)
Definition byte_elem (ctx : schemas) (t : ty) : bool :=
  (negb (is_ptr t) &&
   match payload_type ctx t with PTy (TScalar _ KUint8 _ _) => true | _ => false end)%bool.

Fixpoint ty_supported (ctx : schemas) (t : ty) : bool :=
  match t with
  | TScalar _ k _ cs =>
      (match k with KNull | KBytes | KOther _ => false | _ => true end
       && forallb (constraint_supported k) cs)%bool
  | TArray _ v => (negb (byte_elem ctx v) && ty_supported ctx v)%bool
  | TMap _ i v => (match i with TScalar _ KString _ _ => true | _ => false end && ty_supported ctx v)%bool
  | TStruct _ _ fs => forallb (fun f => ty_supported ctx (f_type f)) fs
  | TEnum _ vs => negb (t_nullable t) && match enum_base vs with
                  | TScalar _ (KString | KInt64 | KInt32 | KInt16 | KInt8 | KUint8 | KUint16 | KUint32 | KUint64) _ _ => true
                  | _ => false end
  | TRef _ _ _ =>
      match payload_type ctx t with PTy _ => true | PUnm _ => false end
  | TConstRef _ _ _ _ =>
      (* a nullable constant reference is printed as a non-pointer compared with nil: does not compile *)
      (negb (t_nullable t) && match payload_type ctx t with PTy (TEnum _ _) => true | _ => false end)%bool
  | _ => false
  end.

(* fields of a disjunction struct are what DisjunctionToType makes them *)
Definition union_ok (ctx : schemas) (t : ty) : bool :=
  match t with
  | TStruct _ _ fs =>
      match union_scalars t, union_refs t with
      | None, None => true
      | Some _, None =>
          forallb (fun f => match f_type f with
                            | TScalar _ _ _ _ as b => (t_nullable b && negb (f_required f))%bool
                            | TArray _ _ | TMap _ _ _ => negb (f_required f)
                            | _ => false end) fs
      | None, Some d =>
          forallb (fun f => match f_type f with
                            | TRef _ _ _ as b =>
                                (t_nullable b && negb (f_required f) &&
                                 match payload_type ctx b with
                                 | PTy (TStruct _ [] _) => true | _ => false end)%bool
                            | _ => false end) fs
      | _, _ => false
      end
  | _ => true
  end.

Definition object_supported (ctx : schemas) (o : object) : bool :=
  (negb (t_nullable (o_type o)) && ty_supported ctx (o_type o) && union_ok ctx (o_type o))%bool.

Definition ctx_supported (ctx : schemas) : bool :=
  forallb (fun s => forallb (fun ko => object_supported ctx (snd ko)) (s_objects s)) ctx.

(* ---------- observations of one document, as the driver prints them ---------- *)
Definition std_roundtrip (ctx : schemas) (p n : string) (j : json) : outcome json :=
  match decode_object ctx p n j with
  | GOk v => GOk (encode_object ctx p n v)
  | GErr => GErr
  | GPanic => GPanic
  | GUnmodelled w => GUnmodelled w
  end.

Definition is_unmodelled {A} (o : outcome A) : bool := match o with GUnmodelled _ => true | _ => false end.

(* observed: None = decode error, Some e = decoded and re-encoded as e *)
Definition std_agrees (model : outcome json) (observed : option json) : bool :=
  match model, observed with
  | GOk e, Some e' => json_eq e e'
  | GErr, None => true
  | _, _ => false
  end.

Definition opt_bool_eqb (a b : option bool) : bool :=
  match a, b with
  | Some x, Some y => Bool.eqb x y
  | None, None => true
  | _, _ => false
  end.

(* Equals matrix over the successfully decoded values; None where a value is missing *)
Definition model_eq_matrix (ctx : schemas) (p n : string) (vs : list (outcome gval)) : list (list (option bool)) :=
  map (fun a => map (fun b => match a, b with
                               | GOk x, GOk y => Some (equals_object ctx p n x y)
                               | _, _ => None end) vs) vs.

Fixpoint matrix_eqb (a b : list (list (option bool))) : bool :=
  match a, b with
  | [], [] => true
  | r :: a', s :: b' =>
      ((fix row (r s : list (option bool)) : bool :=
          match r, s with
          | [], [] => true
          | x :: r', y :: s' => (opt_bool_eqb x y && row r' s')%bool
          | _, _ => false
          end) r s && matrix_eqb a' b')%bool
  | _, _ => false
  end.

(* ---------- one driver job: documents and everything observed about them ---------- *)
Record docobs := mkObs
  { ob_std : string ;                  (* "ok" | "err" | "panic" *)
    ob_enc : option json ;             (* json.Marshal of the decoded value *)
    ob_val : option (list string) ;    (* Validate(): None = not run, Some paths (empty = nil error) *)
    ob_strict : string ;               (* "ok" | "err" | "panic" *)
    ob_senc : option json }.           (* json.Marshal of the strictly decoded value *)

Definition gcase := (schemas * string * string * list json * list docobs * list (list (option bool)))%type.

Definition outcome_tag {A} (o : outcome A) : string :=
  match o with GOk _ => "ok" | GErr => "err" | GPanic => "panic" | GUnmodelled _ => "unmodelled" end.

Definition strict_roundtrip (ctx : schemas) (p n : string) (j : json) : outcome json :=
  match strict_object ctx p n j with
  | GOk v => GOk (encode_object ctx p n v)
  | GErr => GErr
  | GPanic => GPanic
  | GUnmodelled w => GUnmodelled w
  end.

Definition roundtrip_agrees (model : outcome json) (tag : string) (enc : option json) : bool :=
  match model, enc with
  | GOk e, Some e' => (seqb tag "ok" && json_eq e e')%bool
  | GOk _, None => false
  | m, _ => seqb (outcome_tag m) tag
  end.

(* multiset comparison of path lists *)
Fixpoint insert_sorted (x : string) (l : list string) : list string :=
  match l with
  | [] => [x]
  | y :: r => if str_leb x y then x :: l else y :: insert_sorted x r
  end.
Definition sort_strings (l : list string) : list string := fold_right insert_sorted [] l.
Fixpoint strings_eqb (a b : list string) : bool :=
  match a, b with
  | [], [] => true
  | x :: r, y :: s => (seqb x y && strings_eqb r s)%bool
  | _, _ => false
  end.
Definition paths_agree (a b : list string) : bool := strings_eqb (sort_strings a) (sort_strings b).

Definition model_validate (ctx : schemas) (p n : string) (j : json) : option (list string) :=
  match decode_object ctx p n j with
  | GOk v => Some (validate_object ctx p n v)
  | _ => None
  end.

Definition case_unmodelled (c : gcase) : bool :=
  let '(ctx, p, n, docs, obs, mat) := c in
  (negb (ctx_supported ctx) ||
   existsb (fun d => (is_unmodelled (decode_object ctx p n d) || is_unmodelled (strict_object ctx p n d))%bool) docs)%bool.

Definition all_docs (f : json -> docobs -> bool) (docs : list json) (obs : list docobs) : bool :=
  (Nat.eqb (List.length docs) (List.length obs) && forallb (fun dj => f (fst dj) (snd dj)) (combine docs obs))%bool.

Definition mm_std (c : gcase) : bool :=
  let '(ctx, p, n, docs, obs, mat) := c in
  (negb (case_unmodelled c) &&
   negb (all_docs (fun d o => roundtrip_agrees (std_roundtrip ctx p n d) (ob_std o) (ob_enc o)) docs obs))%bool.

Definition mm_strict (c : gcase) : bool :=
  let '(ctx, p, n, docs, obs, mat) := c in
  (negb (case_unmodelled c) &&
   negb (all_docs (fun d o => roundtrip_agrees (strict_roundtrip ctx p n d) (ob_strict o) (ob_senc o)) docs obs))%bool.

Definition mm_validate (c : gcase) : bool :=
  let '(ctx, p, n, docs, obs, mat) := c in
  (negb (case_unmodelled c) &&
   negb (all_docs (fun d o => match model_validate ctx p n d, ob_val o with
                              | Some a, Some b => paths_agree a b
                              | None, None => true
                              | Some _, None => negb (seqb (ob_std o) "ok")   (* Validate not requested *)
                              | None, Some _ => false
                              end) docs obs))%bool.

(* the Equals matrix over [std values ; strict values] *)
Definition mm_equals (c : gcase) : bool :=
  let '(ctx, p, n, docs, obs, mat) := c in
  (negb (case_unmodelled c) &&
   negb (matrix_eqb (model_eq_matrix ctx p n (map (decode_object ctx p n) docs ++ map (strict_object ctx p n) docs)) mat))%bool.

(* ---------- sanity of the specifications on real data (evaluated by the correspondence) ---------- *)
Definition ok_values (ctx : schemas) (p n : string) (docs : list json) : list gval :=
  flat_map (fun d => match decode_object ctx p n d with GOk v => [v] | _ => [] end) docs ++
  flat_map (fun d => match strict_object ctx p n d with GOk v => [v] | _ => [] end) docs.

(* a decoded value that is not well-typed *)
Definition mm_wt (c : gcase) : bool :=
  let '(ctx, p, n, docs, obs, mat) := c in
  (negb (case_unmodelled c) && negb (forallb (wt ctx (TRef attrs0 p n)) (ok_values ctx p n docs)))%bool.

(* a pair of decoded values on which Equals differs from the reference equality although keys are aligned,
   or reference-equal values whose encodings differ after erasing empties *)
Definition mm_spec (c : gcase) : bool :=
  let '(ctx, p, n, docs, obs, mat) := c in
  let vs := ok_values ctx p n docs in
  let t := TRef attrs0 p n in
  (negb (case_unmodelled c) &&
   existsb (fun a => existsb (fun b =>
     ((keys_aligned a b && negb (Bool.eqb (eqc ctx t false a b) (vsim a b))) ||
      (vsim a b && negb (json_eqb (erase_empty (encode ctx t a)) (erase_empty (encode ctx t b)))))%bool) vs) vs)%bool.
