(* C03: the regenerated list of map-iteration sites (Gen/Sites_gen.v, written by tools/sites on every
   run) and the finite check that every one of them is accounted for. Definitions only. *)
From Coq Require Export List String Bool Arith.
Export ListNotations.
Local Open Scope list_scope.

(* syntactic class of the loop body, as recognised by the translator *)
Inductive cls := KeyedWrite | CollectThenSort | Commutative | Combined | Observable | Unknown.

Record site := mkSite
  { st_file : string ; st_func : string ; st_operand : string ; st_ordinal : nat ;
    st_kind : string ;          (* "range" | "call" (call of an order-leaking helper) *)
    st_class : cls ;
    st_reach : bool }.          (* package linked into the cog binary / library *)

(* classes discharged by the general lemmas of Proofs/PermLemmas.v *)
Definition class_discharged (c : cls) : bool :=
  match c with KeyedWrite | CollectThenSort | Commutative | Combined => true | Observable | Unknown => false end.

(* what is established about a site that needs its own model *)
Inductive verdict :=
| Invariant        (* result independent of the iteration sequence, no premise *)
| InvariantUnder   (* independent under the premise stated in the theorem (e.g. distinct paths) *)
| InvariantAsSet   (* the result is the same up to its order; the order follows the map *)
| OrderDependent   (* refuted: a witness on which two sequences give different results *)
| NotObservable    (* reaches an error message only (error texts are not observables) *)
| HelperBody.      (* body of a helper returning the sequence: every call is a site of its own *)

(* a named site: key + verdict + the statement that was PROVED about its model *)
Record named := mkNamed
  { n_file : string ; n_func : string ; n_operand : string ; n_kind : string ;
    n_verdict : verdict ; n_model : string ;
    n_stmt : Prop ; n_proof : n_stmt }.

Definition key_matches (n : named) (s : site) : bool :=
  String.eqb (n_file n) (st_file s) && String.eqb (n_func n) (st_func s) &&
  String.eqb (n_operand n) (st_operand s) && String.eqb (n_kind n) (st_kind s).

Definition site_named (tbl : list named) (s : site) : option named := find (fun n => key_matches n s) tbl.

Definition site_discharged (tbl : list named) (s : site) : bool :=
  negb (st_reach s) || class_discharged (st_class s) ||
  match site_named tbl s with Some _ => true | None => false end.

Definition undischarged (tbl : list named) (sites : list site) : list site :=
  filter (fun s => negb (site_discharged tbl s)) sites.

(* per site, for the correspondence check: 0 not linked into cog, 1 discharged by class,
   2 Invariant, 3 InvariantUnder, 4 InvariantAsSet, 5 OrderDependent, 6 NotObservable,
   7 HelperBody, 99 undischarged *)
Definition verdict_code (v : verdict) : nat :=
  match v with Invariant => 2 | InvariantUnder => 3 | InvariantAsSet => 4 | OrderDependent => 5
             | NotObservable => 6 | HelperBody => 7 end.
Definition site_code (tbl : list named) (s : site) : nat :=
  if negb (st_reach s) then 0
  else if class_discharged (st_class s) then 1
  else match site_named tbl s with Some n => verdict_code (n_verdict n) | None => 99 end.
Definition site_codes (tbl : list named) (sites : list site) : list nat := map (site_code tbl) sites.
