(* The builder IR (internal/ast/builder.go, builder_factories.go) and BuilderGenerator.FromAST.
   Definitions only.  VeneerTrail (debug text) is not modelled. *)
From Cog Require Export Model.IR.
Local Open Scope list_scope.

Record argument := mkArg { a_name : string ; a_type : ty }.

(* PathIndex{Argument *Argument, Constant any} *)
Record pathindex := mkPathIndex { px_arg : option argument ; px_const : dyn }.
Record pathitem := mkPathItem
  { pi_id : string ; pi_index : option pathindex ; pi_type : ty ; pi_typehint : option ty ; pi_root : bool }.
Definition path := list pathitem.

(* AssignmentValue{Argument *Argument, Constant any, Envelope *AssignmentEnvelope},
   AssignmentEnvelope{Type, Values []EnvelopeFieldValue{Path, Value}} *)
Inductive avalue :=
| AValue (arg : option argument) (const : dyn) (env : option (ty * list (path * avalue))).

Record aconstraint := mkAConstraint { ac_arg : argument ; ac_op : string ; ac_param : dyn }.
Record nilcheck := mkNilCheck { nc_path : path ; nc_empty : ty }.
Record assignment := mkAssignment
  { as_path : path ; as_value : avalue ; as_method : string ;
    as_constraints : list aconstraint ; as_nilchecks : list nilcheck }.

Record boption := mkOption
  { op_name : string ; op_comments : list string ; op_args : list argument ;
    op_assignments : list assignment ; op_default : option (list dyn) }.
Record constructor := mkConstructor { ct_args : list argument ; ct_assignments : list assignment }.

(* factories: OptionCallParameter{Argument*, Constant* TypedConstant{Type,Value}, Factory* FactoryCall{Ref, Parameters}} *)
Inductive ocparam :=
| OCParam (arg : option argument) (const : option (ty * dyn))
          (factory : option (string * string * string * list ocparam)).
Record optioncall := mkOptionCall { oc_name : string ; oc_params : list ocparam }.
Record factory := mkFactory
  { fa_name : string ; fa_comments : list string ; fa_args : list argument ; fa_calls : list optioncall }.

Record builder := mkBuilder
  { b_for : object ; b_pkg : string ; b_name : string ; b_props : list field ;
    b_ctor : constructor ; b_options : list boption ; b_factories : list factory }.

(* ---------- Schemas.ResolveToType: follow references while they resolve (fuel: a reference
   cycle makes the Go code recurse until the stack overflows) ---------- *)
Fixpoint resolve_to_type (fuel : nat) (ss : schemas) (t : ty) : res ty :=
  match t with
  | TRef _ p n =>
      match locate_object ss p n with
      | None => Ok t
      | Some o => match fuel with
                  | O => OutOfFuel
                  | S f => resolve_to_type f ss (o_type o)
                  end
      end
  | _ => Ok t
  end.

Definition total_objs (ss : schemas) : nat := fold_left (fun n s => n + List.length (s_objects s)) ss 0.
Definition res_fuel (ss : schemas) : nat := S (total_objs ss).

Definition scalar_constraints (t : ty) : list constraint :=
  match t with TScalar _ _ _ cs => cs | _ => [] end.

(* FieldAssignment / WithTypeConstraints: constraint.Args[0] panics on an empty argument list *)
Definition field_assignment (f : field) : res assignment :=
  let arg := mkArg (f_name f) (f_type f) in
  do cs <- mapM (fun c => match c_args c with
                          | [] => Panic "index out of range [0] with length 0"
                          | x :: _ => Ok (mkAConstraint arg (c_op c) x)
                          end) (scalar_constraints (f_type f)) ;
  Ok (mkAssignment [mkPathItem (f_name f) None (f_type f) None false]
                   (AValue (Some arg) DNil None) "direct" cs []).

Definition constant_assignment (f : field) (v : dyn) : assignment :=
  mkAssignment [mkPathItem (f_name f) None (f_type f) None false] (AValue None v None) "direct" [] [].

Definition struct_field_to_option (f : field) : res boption :=
  do a <- field_assignment f ;
  Ok (mkOption (f_name f) (f_comments f) [mkArg (f_name f) (f_type f)] [a]
               (match dflt (ty_attrs (f_type f)) with DNil => None | d => Some [d] end)).

(* what FromAST does with one field of the resolved struct *)
Inductive field_role :=
| RoleConstant (a : assignment)      (* constructor constant *)
| RoleNothing                        (* constant reference: the type's own constructor sets it *)
| RoleOption (o : boption).

Definition field_role_of (fuel : nat) (ss : schemas) (f : field) : res field_role :=
  match f_type f with
  | TScalar _ _ (DNil) _ => do o <- struct_field_to_option f ; Ok (RoleOption o)
  | TScalar _ _ v _ => Ok (RoleConstant (constant_assignment f v))
  | TRef a _ _ =>
      if f_required f && negb (nullable a) then
        do r <- resolve_to_type fuel ss (f_type f) ;
        match r with
        | TScalar _ _ DNil _ => do o <- struct_field_to_option f ; Ok (RoleOption o)
        | TScalar _ _ v _ => Ok (RoleConstant (constant_assignment f v))
        | _ => do o <- struct_field_to_option f ; Ok (RoleOption o)
        end
      else do o <- struct_field_to_option f ; Ok (RoleOption o)
  | TConstRef _ _ _ _ => Ok RoleNothing
  | _ => do o <- struct_field_to_option f ; Ok (RoleOption o)
  end.

Definition struct_object_to_builder (fuel : nat) (ss : schemas) (s : schema) (o : object) : res builder :=
  do r <- resolve_to_type fuel ss (o_type o) ;
  match r with
  | TStruct _ _ fs =>
      do roles <- mapM (field_role_of fuel ss) fs ;
      Ok (mkBuilder o (s_pkg s) (o_name o) []
            (mkConstructor [] (flat_map (fun r => match r with RoleConstant a => [a] | _ => [] end) roles))
            (flat_map (fun r => match r with RoleOption op => [op] | _ => [] end) roles) [])
  | _ => Panic "invalid memory address or nil pointer dereference (AsStruct on a reference that does not resolve)"
  end.

Definition wants_builder (r : ty) : bool := is_struct r || is_ref r.

Definition from_ast (ss : schemas) : res (list builder) :=
  let fuel := res_fuel ss in
  do bss <- mapM (fun s =>
      do bs <- mapM (fun ko =>
          do r <- resolve_to_type fuel ss (o_type (snd ko)) ;
          if wants_builder r then do b <- struct_object_to_builder fuel ss s (snd ko) ; Ok [b] else Ok [])
        (s_objects s) ;
      Ok (List.concat bs)) ss ;
  Ok (List.concat bss).
