(* C03: Go map iteration as a permutation oracle - definitions shared by the site models.
   A Go `for k, v := range m` is modelled as a fold over an ITERATION SEQUENCE: some list that is
   a Permutation of the map's entries. Model functions take the sequence as an argument; the
   theorems (Proofs/PermLemmas.v, Proofs/PermModelsProofs.v) quantify over all of them.
   Definitions only. *)
From Coq Require Export List String Bool Arith Ascii.
Export ListNotations.
Local Open Scope list_scope.

(* ---- collect, then sort: insertion sort w.r.t. a boolean order ---- *)
Section Sort.
  Variable A : Type.
  Variable leb : A -> A -> bool.
  Fixpoint insert (x : A) (l : list A) : list A :=
    match l with
    | [] => [x]
    | y :: r => if leb x y then x :: y :: r else y :: insert x r
    end.
  Fixpoint isort (l : list A) : list A :=
    match l with
    | [] => []
    | x :: r => insert x (isort r)
    end.
End Sort.
Arguments insert {A}. Arguments isort {A}.

(* sort.Strings / `<` on strings *)
Definition sleb (a b : string) : bool := String.leb a b.
(* sort.Slice(xs, func(i, j) { return key(xs[i]) < key(xs[j]) }) *)
Definition leb_by {A} (key : A -> string) (a b : A) : bool := sleb (key a) (key b).

(* lexicographic order on (package, object, field) triples: the `less` of FieldsSetDefault's sort.Slice *)
Definition cmp3 (a b : string * string * string) : comparison :=
  let '(p1, o1, f1) := a in let '(p2, o2, f2) := b in
  match String.compare p1 p2 with
  | Eq => match String.compare o1 o2 with Eq => String.compare f1 f2 | c => c end
  | c => c
  end.
Definition leb3 (a b : string * string * string) : bool := match cmp3 a b with Gt => false | _ => true end.

(* ---- Go maps as finite functions; writes and deletes keyed by a key ---- *)
Definition gmap (V : Type) := string -> option V.
Definition gempty {V} : gmap V := fun _ => None.
Definition upd {V} (m : gmap V) (k : string) (ov : option V) : gmap V :=
  fun x => if String.eqb x k then ov else m x.
(* `for k, v := range src { dst[key k v] = val k v }`  (val = None models delete(dst, k)) *)
Definition write_all {A V} (key : A -> string) (val : A -> option V) (seq : list A) (dst : gmap V) : gmap V :=
  fold_left (fun m a => upd m (key a) (val a)) seq dst.

(* ---- ordered map (association list in insertion order, Props/C19.v): Remove ---- *)
Definition oremove {V} (k : string) (l : list (string * V)) : list (string * V) :=
  filter (fun kv => negb (String.eqb (fst kv) k)) l.
Definition oremove_all {V} (keys : list string) (l : list (string * V)) : list (string * V) :=
  fold_left (fun acc k => oremove k acc) keys l.

(* ---- two accumulators updated side by side (class Combined) ---- *)
Definition fold_pair {A B X} (f : A -> X -> A) (g : B -> X -> B) (seq : list X) (a : A) (b : B) : A * B :=
  fold_left (fun ab x => (f (fst ab) x, g (snd ab) x)) seq (a, b).

(* ---- first match in iteration order (`for k, v := range m { if p(k, v) { return v } }`) ---- *)
Definition first_match {A} (p : A -> bool) (seq : list A) : option A := find p seq.

(* ---- one result per entry, appended in iteration order ---- *)
Definition append_each {A B} (g : A -> list B) (seq : list A) : list B := flat_map g seq.

(* ---- files: (path, contents); codejen.FS keeps them path-sorted and rejects duplicate paths ---- *)
Definition file := (string * string)%type.
Definition path_sort (fs : list file) : list file := isort (leb_by (@fst string string)) fs.
(* `for k, v := range m { files = append(files, g(k, v)...) }` then merged into the FS *)
Definition emit_files {A} (g : A -> list file) (seq : list A) : list file := path_sort (append_each g seq).

(* ---- strings.ReplaceAll (non-empty pattern) ---- *)
Fixpoint prefix_drop (p s : string) : option string :=
  match p, s with
  | EmptyString, _ => Some s
  | String a p', String b s' => if Ascii.eqb a b then prefix_drop p' s' else None
  | String _ _, EmptyString => None
  end.
Fixpoint replace_all_fuel (fuel : nat) (old new s : string) : string :=
  match fuel with
  | O => s
  | S f =>
      match prefix_drop old s with
      | Some rest => (new ++ replace_all_fuel f old new rest)%string
      | None =>
          match s with
          | EmptyString => EmptyString
          | String c r => String c (replace_all_fuel f old new r)
          end
      end
  end.
Definition replace_all (old new s : string) : string :=
  match old with
  | EmptyString => s            (* never happens: patterns are "%key%" *)
  | _ => replace_all_fuel (S (String.length s)) old new s
  end.
