(* G1 / G2 replayed over the fragment chain_plain3 (nullable members, string constants).  Definitions only.

   fty_sup_pre3 / ctx_sup_pre3 : ctx_sup_pre (Model/FrontEndChainSpec2.v) read through `T | null` field types.
   src_safe3 s tname d         : the source-level safety predicate src_safe extended to string constants and to
                                 nullable members (a null member is safe; a non-null value is walked along T). *)
From Coq Require Import List String ZArith Bool Ascii.
From Cog Require Import Model.IR Model.Json Model.GoSemBase Model.GoSemDecode Model.GoSemValidate Model.GoSemStrict
  Model.GoSem Model.GoSemSpec08 Model.GoSemSpec01 Model.GoSemSpec01F
  Model.Src Model.FrontEnd Model.FrontEndSpec Model.Passes Model.FrontEndChainSpec Model.FrontEndChainSpec2
  Model.FrontEndChainSpec3.
Import ListNotations.
Local Open Scope string_scope.
Local Open Scope list_scope.

Definition fty_sup_pre3 (ctx : schemas) (t : ty) : bool :=
  match disj_opt t with Some b => ty_sup_pre ctx b | None => ty_sup_pre ctx t end.
Definition oty_sup_pre3 (ctx : schemas) (t : ty) : bool :=
  match t with TStruct _ _ fs => forallb (fun f => fty_sup_pre3 ctx (f_type f)) fs | _ => false end.
Definition ctx_sup_pre3 (ctx : schemas) : bool :=
  forallb (fun s => forallb (fun ko => oty_sup_pre3 ctx (o_type (snd ko))) (s_objects s)) ctx.

(* ---------- src_safe3 ---------- *)
Definition s_is_scalar3 (t : src_ty) : bool :=
  match t with
  | SBool | SInt _ _ _ _ _ | SFloat _ _ _ _ _ | SString _ _ | SDateTime => true
  | SConst (JStr _) => true
  | _ => false
  end.
Fixpoint s_arr_scalars3 (fuel : nat) (t : src_ty) : bool :=
  match fuel with
  | O => false
  | S f => match t with
           | SArray et => match et with SArray _ => s_arr_scalars3 f et | _ => s_is_scalar3 et end
           | _ => false
           end
  end.
Fixpoint s_map_scalars3 (fuel : nat) (t : src_ty) : bool :=
  match fuel with
  | O => false
  | S f => match t with
           | SMap vt => match vt with SMap _ => s_map_scalars3 f vt | _ => s_is_scalar3 vt end
           | _ => false
           end
  end.

Fixpoint src_safe3_ty (defs : list (string * src_ty)) (src : rawsrc) (j : json) (t : src_ty) {struct j} : bool :=
  match j with
  | JNull => false          (* array elements / map values / the document itself; null MEMBERS are handled below *)
  | _ =>
      match t with
      | SRef n =>
          match src_lookup defs n with
          | Some (SStruct fs) =>
              match j with
              | JObj ms =>
                  (forallb (fun kv => match find (fun f => seqb (sf_name f) (fst kv)) fs with
                                      | None => true
                                      | Some f =>
                                          match snd kv with
                                          | JNull => true          (* null member: decodes to nil, omitted or printed null *)
                                          | _ => (src_safe3_ty defs RField (snd kv) (sf_type f) &&
                                                  (sf_req f || negb (is_empty_collection (snd kv))))%bool
                                          end
                                      end) ms &&
                   forallb (fun f => (negb (sf_req f) || str_in (sf_name f) (map fst ms))%bool) fs)%bool
              | _ => true
              end
          | _ => false
          end
      | SArray et =>
          match j with
          | JArr l => (forallb (fun x => src_safe3_ty defs RElem x et) l &&
                       (s_arr_scalars3 8 t || match src with RElem => false | _ => true end))%bool
          | _ => true
          end
      | SMap vt =>
          match j with
          | JObj ms => (forallb (fun kv => src_safe3_ty defs RVal (snd kv) vt) ms &&
                        (s_map_scalars3 8 t || match src with RVal => false | _ => true end))%bool
          | _ => true
          end
      | _ => s_scalar_safe t j
      end
  end.
Definition src_safe3 (s : src_schema) (tname : string) (d : json) : bool :=
  src_safe3_ty (src_defs s) RField d (SRef tname).
