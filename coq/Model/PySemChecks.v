(* C11: the cases of checks/c11.py and the predicates evaluated on them.  Definitions only.

   One case = one generated struct type and a group of documents the SOURCE schema's validator accepted:
     the Go post-chain context, the Python post-chain context, package, the object's name in both, the
     documents, what the Go driver observed (docobs of Model/GoSem.v: json.Unmarshal + json.Marshal) and what
     the Python driver observed (from_json then json.dumps through the generated encoder).

   mm_*  : model prediction differs from the observation (MISMATCH)
   pf_*  : the property is false on the observation, no model involved (PROPFAIL) *)
From Coq Require Import List String ZArith Bool Ascii.
From Cog Require Import Model.GoSem Model.Ctor Model.PySem.
Import ListNotations.
Local Open Scope list_scope.
Local Open Scope string_scope.

Record pyobs := mkPObs
  { po_tag : string ;            (* "ok" | "exc" *)
    po_enc : option json }.

Definition pcase := (schemas * schemas * string * string * string * list json * list docobs * list pyobs)%type.
(*                   go ctx    py ctx    pkg      go name  py name  documents   Go            Python *)

Definition zip3 {A B C} (a : list A) (b : list B) (c : list C) : list (A * B * C) := combine (combine a b) c.

Definition py_case_unmodelled (c : pcase) : bool :=
  let '(_, pctx, p, _, pn, docs, _, _) := c in
  existsb (fun d => match py_roundtrip pctx p pn d with PUnm _ => true | _ => false end) docs.

Definition py_agrees (m : pres json) (o : pyobs) : bool :=
  match m, po_enc o with
  | POk e, Some e' => (seqb (po_tag o) "ok" && json_eq e e')%bool
  | PExc _, _ => seqb (po_tag o) "exc"
  | _, _ => false
  end.

Definition mm_py (c : pcase) : bool :=
  let '(_, pctx, p, _, pn, docs, _, pobs) := c in
  (negb (py_case_unmodelled c) &&
   negb (Nat.eqb (List.length docs) (List.length pobs) &&
         forallb (fun dj => py_agrees (py_roundtrip pctx p pn (fst dj)) (snd dj)) (combine docs pobs)))%bool.

Definition go_gcase (c : pcase) : gcase :=
  let '(ctx, _, p, gn, _, docs, gobs, _) := c in (ctx, p, gn, docs, gobs, []).
(* the Go driver could not be run for this type (its package does not compile: C10 / C01 findings) *)
Definition go_absent (c : pcase) : bool :=
  let '(_, _, _, _, _, _, gobs, _) := c in existsb (fun g => seqb (ob_std g) "none") gobs.
Definition go_case_unmodelled (c : pcase) : bool := (go_absent c || case_unmodelled (go_gcase c))%bool.
Definition mm_go (c : pcase) : bool := (negb (go_absent c) && mm_std (go_gcase c))%bool.

(* ---------- the property on the observations ---------- *)
(* from_json . to_json reproduces the document up to omitted null members *)
Definition rt_holds (d : json) (o : pyobs) : bool :=
  match po_enc o with
  | Some e => (seqb (po_tag o) "ok" && json_eq_mod_null d e)%bool
  | None => false
  end.
Definition pf_rt (c : pcase) : bool :=
  let '(_, _, _, _, _, docs, _, pobs) := c in
  negb (forallb (fun dj => rt_holds (fst dj) (snd dj)) (combine docs pobs)).

(* the JSON Python produces equals the JSON Go produces; only where both produced one *)
Definition wire_differs (g : docobs) (o : pyobs) : bool :=
  match (if seqb (ob_std g) "ok" then ob_enc g else None), (if seqb (po_tag o) "ok" then po_enc o else None) with
  | Some a, Some b => negb (json_eq a b)
  | _, _ => false
  end.
Definition pf_wire (c : pcase) : bool :=
  let '(_, _, _, _, _, _, gobs, pobs) := c in existsb (fun go => wire_differs (fst go) (snd go)) (combine gobs pobs).
Definition one_side_only (c : pcase) : bool :=
  let '(_, _, _, _, _, _, gobs, pobs) := c in
  existsb (fun go => negb (Bool.eqb (seqb (ob_std (fst go)) "ok") (seqb (po_tag (snd go)) "ok"))) (combine gobs pobs).
