(* C14 — comparison of the converter model (Model/Converter.v + Model/BuilderEval.v) with the real two-stage
   build, evaluated by the correspondence of checks/c14.py.  Definitions only. *)
From Coq Require Import List String ZArith Bool Ascii.
From Cog Require Import Model.IR Model.Json Model.Builders Model.GoSem Model.BuilderEval Model.PyBuilderEval
  Model.BuilderCheck Model.Converter.
Import ListNotations.
Local Open Scope list_scope.
Local Open Scope string_scope.

(* one sample value: the builder, the value the converter was given, the option names of the top-level calls
   of the text it returned (stage 1), and what compiling and running that text gave (stage 2) *)
Record cobs := mkCObs
  { co_conv : string ;                 (* "ok" | "panic" *)
    co_names : list string ;           (* IR option names of the top-level calls, in order *)
    co_stage2 : string ;               (* "ok" | "err" | "panic" | "compile-error" *)
    co_paths : list string ;
    co_built : gval }.

Definition ccase := (benv * (string * string) * gval * cobs)%type.

Definition c14_unmodelled (c : ccase) : bool :=
  let '(e, pn, v, o) := c in
  (negb (ctx_supported (be_ctx e)) || is_unmodelled (converter_output e (fst pn) (snd pn) v)
   || is_unmodelled (convert_then_build e (fst pn) (snd pn) v))%bool.

Definition c14_why (c : ccase) : string :=
  let '(e, pn, v, o) := c in
  if negb (ctx_supported (be_ctx e)) then "context outside the GoSem fragment" else
  match converter_output e (fst pn) (snd pn) v with
  | GUnmodelled w => w
  | _ => why (convert_then_build e (fst pn) (snd pn) v)
  end.

(* the calls the model's converter emits: as a multiset of option names (a `range` over a Go map has no order) *)
Definition c14_mm_calls (c : ccase) : bool :=
  let '(e, pn, v, o) := c in
  (negb (c14_unmodelled c) &&
   match converter_output e (fst pn) (snd pn) v with
   | GOk a => negb (String.eqb (co_conv o) "ok" && strings_eqb (sort_strings (call_names a)) (sort_strings (co_names o)))
   | GPanic => negb (String.eqb (co_conv o) "panic")
   | _ => true
   end)%bool.

(* the object stage 2 builds *)
Definition c14_mm_build (c : ccase) : bool :=
  let '(e, pn, v, o) := c in
  (negb (c14_unmodelled c) && String.eqb (co_conv o) "ok" && negb (String.eqb (co_stage2 o) "compile-error") &&
   match convert_then_build e (fst pn) (snd pn) v with
   | GOk (BROk x) => negb (String.eqb (co_stage2 o) "ok" && gval_eqb x (co_built o))
   | GOk (BRErr ps) => negb (String.eqb (co_stage2 o) "err" && paths_agree ps (co_paths o))
   | GPanic => negb (String.eqb (co_stage2 o) "panic")
   | _ => true
   end)%bool.
