(* Executable models of cog's schema FRONT-ENDS on the construct grammar (Model/Src.v): what
   internal/jsonschema/generator.go and internal/openapi/generator.go make of the schema text that
   gen/srcgen.py renders for a Src schema.  Output: the PRE-chain IR (Model/IR.v), exactly what
   codegen.Pipeline.LoadSchemas returns and the harness prints.  Definitions only.

   The translation is total (`js_ty` / `oa_ty`); what the model does not cover is an explicit
   `FUnmodelled` outcome of `parse_*` decided by the boolean `*_supported` predicates, and what cog
   itself refuses is `FErr`.

   JSON Schema (generator.go; names of the Go functions in the comments):
     walkDefinition order: $ref, oneOf, anyOf, allOf, enum, then `type`
     type array           -> walkScalarDisjunction: one plain scalar per name (constraints are LOST)
     object + properties  -> walkObject: struct, fields sorted by name, Required = name in `required`
     object, no properties-> map[string]T from additionalProperties, `any` when there is none
     minimum / exclusiveMinimum / maximum / exclusiveMaximum -> ">=" ">" "<=" "<" with float64 arguments
     minLength / maxLength -> "minLength" "maxLength" with int arguments
   Numeric constants that the real IR holds as float64 are compared BY VALUE (the harness prints them in
   strconv 'g' form, the model prints plain decimals). *)
From Coq Require Import List String ZArith Bool Ascii.
From Cog Require Import Model.IR Model.Json Model.GoSemBase Model.GoSemValidate Model.Src.
Import ListNotations.
Local Open Scope list_scope.
Local Open Scope string_scope.

Inductive fres (A : Type) := FOk (a : A) | FErr (why : string) | FUnmodelled (why : string).
Arguments FOk {A}. Arguments FErr {A}. Arguments FUnmodelled {A}.

(* ---------- printing decimals ---------- *)
Definition digit_of (z : Z) : ascii := ascii_of_nat (48 + Z.to_nat z).
Fixpoint z_digits (fuel : nat) (z : Z) (acc : string) : string :=
  match fuel with
  | O => acc
  | S f => let acc' := String (digit_of (Z.modulo z 10)) acc in
           if Z.ltb z 10 then acc' else z_digits f (Z.div z 10) acc'
  end.
Definition nat_string (z : Z) : string := z_digits (S (Z.to_nat (Z.log2_up (z + 1)))) z "".
Definition z_string (z : Z) : string := if Z.ltb z 0 then "-" ++ nat_string (- z) else nat_string z.
Fixpoint zeros (n : nat) : string := match n with O => "" | S k => String "0"%char (zeros k) end.
(* m * 10^e in plain notation *)
Definition dec_string (m e : Z) : string :=
  if Z.leb 0 e then z_string (m * 10 ^ e)
  else
    let k := Z.to_nat (- e) in
    let a := Z.abs m in
    let ip := Z.div a (10 ^ (- e)) in
    let fp := nat_string (Z.modulo a (10 ^ (- e))) in
    (if Z.ltb m 0 then "-" else "") ++ nat_string ip ++ "." ++ zeros (k - String.length fp) ++ fp.

Definition dflo (m e : Z) : dyn := DFloat "float64" (dec_string m e).

(* ---------- IR building blocks ---------- *)
Definition t_string : ty := TScalar attrs0 KString DNil [].
Definition t_bool : ty := TScalar attrs0 KBool DNil [].
Definition t_int64 : ty := TScalar attrs0 KInt64 DNil [].
Definition t_float64 : ty := TScalar attrs0 KFloat64 DNil [].
Definition t_null : ty := TScalar attrs0 KNull DNil [].
Definition t_any : ty := TScalar attrs0 KAny DNil [].
Definition a_datetime : attrs := {| nullable := false ; dflt := DNil ; hints := [("string_format_datetime", DBool true)] |}.
Definition mk_disj (bs : list ty) : ty := TDisj attrs0 (mkDisj bs "" []).
Definition cstr (op : string) (arg : dyn) : constraint := {| c_op := op ; c_args := [arg] |}.

Definition opt_list {A B} (o : option A) (f : A -> B) : list B := match o with Some a => [f a] | None => [] end.

(* walkNumber: constraints in the order minimum, exclusiveMinimum, maximum, exclusiveMaximum *)
Definition js_bounds (ge gt le lt : option (Z * Z)) : list constraint :=
  opt_list ge (fun b => cstr ">=" (dflo (fst b) (snd b))) ++ opt_list gt (fun b => cstr ">" (dflo (fst b) (snd b))) ++
  opt_list le (fun b => cstr "<=" (dflo (fst b) (snd b))) ++ opt_list lt (fun b => cstr "<" (dflo (fst b) (snd b))).
Definition zb (o : option Z) : option (Z * Z) := match o with Some z => Some (z, 0%Z) | None => None end.
(* walkString *)
Definition js_lengths (mn mx : option Z) : list constraint :=
  opt_list mn (fun n => cstr "minLength" (DInt "int" n)) ++ opt_list mx (fun n => cstr "maxLength" (DInt "int" n)).

(* walkEnum: string enum unless the first value is not a string, then int64; member name = fmt %v *)
Definition json_is_string (j : json) : bool := match j with JStr _ => true | _ => false end.
Definition js_enum_member (et : ty) (j : json) : enumval :=
  match j with
  | JStr s => mkEnumVal et s (DStr s)
  | JNum m e => let z := (m * 10 ^ e)%Z in mkEnumVal et (z_string z) (DInt "int64" z)
  | _ => mkEnumVal et "" DNil
  end.
Definition js_enum (vals : list json) : ty :=
  let et := match vals with v :: _ => if json_is_string v then t_string else t_int64 | [] => t_string end in
  TEnum attrs0 (map (js_enum_member et) vals).

(* {"type": T, "const": v} *)
Definition js_const (v : json) : ty :=
  match v with
  | JStr s => TScalar attrs0 KString (DStr s) []
  | JBool b => TScalar attrs0 KBool (DBool b) []
  | JNum m e => TScalar attrs0 KInt64 (DInt "int64" (m * 10 ^ e)) []
  | _ => t_any
  end.

(* the name a scalar has in a JSON Schema type array (walkScalarDisjunction) *)
Definition js_plain (t : src_ty) : option ty :=
  match t with
  | SString _ _ => Some t_string
  | SBool => Some t_bool
  | SInt _ _ _ _ _ => Some t_int64
  | SFloat _ _ _ _ _ => Some t_float64
  | _ => None
  end.

(* sort of struct fields by name (sort.Slice on fields; names are distinct) *)
Fixpoint insert_field (f : field) (l : list field) : list field :=
  match l with
  | [] => [f]
  | g :: r => if str_leb (f_name f) (f_name g) then f :: l else g :: insert_field f r
  end.
Definition sort_fields (l : list field) : list field := fold_right insert_field [] l.

Fixpoint js_ty (pkg : string) (t : src_ty) {struct t} : ty :=
  match t with
  | SBool => t_bool
  | SInt _ ge gt le lt => TScalar attrs0 KInt64 DNil (js_bounds (zb ge) (zb gt) (zb le) (zb lt))
  | SFloat _ ge gt le lt => TScalar attrs0 KFloat64 DNil (js_bounds ge gt le lt)
  | SString mn mx => TScalar attrs0 KString DNil (js_lengths mn mx)
  | SDateTime => TScalar a_datetime KString DNil []
  | SAny => t_any
  | SConst v => js_const v
  | SEnum vals => js_enum vals
  | SArray et => TArray attrs0 (js_ty pkg et)
  | SMap vt => TMap attrs0 t_string (js_ty pkg vt)
  | SRef n => TRef attrs0 pkg n
  | SStruct fs =>
      match fs with
      | [] => t_any                                   (* walkObject: no properties, no additionalProperties *)
      | _ =>
          TStruct attrs0 []
            (sort_fields
               (map (fun f =>
                       let base := js_ty pkg (sf_type f) in
                       let ft :=
                         if sf_null f then
                           if sf_nullta f then
                             (* {"type": [T, "null"], ...}: the constraints of T are not read *)
                             match js_plain (sf_type f) with
                             | Some p => mk_disj [p; t_null]
                             | None => mk_disj [base; t_null]
                             end
                           else
                             match sf_type f with
                             | SUnion _ =>           (* the null is one more branch of the flat union *)
                                 match base with
                                 | TDisj a d => TDisj a (mkDisj (d_branches d ++ [t_null]) (d_disc d) (d_mapping d))
                                 | _ => mk_disj [base; t_null]
                                 end
                             | _ => mk_disj [base; t_null]      (* oneOf [T, {"type": "null"}] *)
                             end
                         else base in
                       mkField (sf_name f) [] ft (sf_req f)) fs))
      end
  | SUnion bs => mk_disj (map (js_ty pkg) bs)
  | SDUnion _ names => mk_disj (map (fun n => TRef attrs0 pkg n) names)
  end.

(* ---------- what is covered ---------- *)
Definition json_scalar_const (j : json) : bool :=
  match j with JStr _ | JBool _ => true | JNum m e => Z.leb 0 e | _ => false end.
Definition enum_ok (vals : list json) : bool :=
  match vals with
  | [] => false
  | JStr _ :: _ => forallb json_is_string vals
  | _ => forallb (fun j => match j with JNum m e => Z.leb 0 e | _ => false end) vals
  end.

Fixpoint js_supported (t : src_ty) : bool :=
  match t with
  | SConst v => json_scalar_const v
  | SEnum vals => enum_ok vals
  | SArray et => js_supported et
  | SMap vt => js_supported vt
  | SStruct fs =>
      (str_nodup (map sf_name fs) &&
       forallb (fun f => (js_supported (sf_type f) &&
                          (negb (sf_nullta f) || (sf_null f && match js_plain (sf_type f) with Some _ => true | None => false end)))%bool) fs)%bool
  | SUnion bs => (negb (match bs with [] => true | _ => false end) && forallb js_supported bs)%bool
  | SDUnion _ names => negb (match names with [] => true | _ => false end)
  | _ => true
  end.

(* every reference names a definition, definition names are distinct *)
Fixpoint refs_of (t : src_ty) : list string :=
  match t with
  | SRef n => [n]
  | SArray et => refs_of et
  | SMap vt => refs_of vt
  | SStruct fs => flat_map (fun f => refs_of (sf_type f)) fs
  | SUnion bs => flat_map refs_of bs
  | SDUnion _ names => names
  | _ => []
  end.
Definition defs_closed (defs : list (string * src_ty)) : bool :=
  (str_nodup (map fst defs) &&
   forallb (fun d => forallb (fun n => str_in n (map fst defs)) (refs_of (snd d))) defs)%bool.

(* definitions reachable from the root (declareDefinition is driven by walkRef) *)
Fixpoint reach (defs : list (string * src_ty)) (fuel : nat) (todo seen : list string) : list string :=
  match fuel with
  | O => seen
  | S f =>
      match todo with
      | [] => seen
      | n :: r =>
          if str_in n seen then reach defs f r seen
          else match src_lookup defs n with
               | Some t => reach defs f (refs_of t ++ r) (n :: seen)
               | None => reach defs f r seen
               end
      end
  end.
Definition reachable (s : src_schema) : list string :=
  reach (src_defs s) (S (List.length (src_defs s) + List.length (flat_map (fun d => refs_of (snd d)) (src_defs s))))
        [src_root s] [].

Fixpoint insert_obj (o : string * object) (l : list (string * object)) : list (string * object) :=
  match l with
  | [] => [o]
  | g :: r => if str_leb (fst o) (fst g) then o :: l else g :: insert_obj o r
  end.
Definition sort_objs (l : list (string * object)) : list (string * object) := fold_right insert_obj [] l.
Definition meta0 : smeta := {| m_kind := "" ; m_variant := "" ; m_identifier := "" |}.

Definition js_schema_supported (s : src_schema) : bool :=
  (defs_closed (src_defs s) && str_in (src_root s) (map fst (src_defs s)) &&
   forallb (fun d => js_supported (snd d)) (src_defs s))%bool.

(* jsonschema.GenerateAST on render_jsonschema(s): root $ref, objects sorted by name *)
Definition parse_jsonschema (s : src_schema) : fres schemas :=
  if negb (js_schema_supported s) then FUnmodelled "schema outside the modelled JSON Schema shapes" else
  let pkg := src_pkg s in
  let live := reachable s in
  let objs := map (fun d => (fst d, mkObject (fst d) [] (js_ty pkg (snd d)) pkg (fst d)))
                  (filter (fun d => str_in (fst d) live) (src_defs s)) in
  FOk [mkSchema pkg meta0 (src_root s) (TRef attrs0 pkg (src_root s)) (sort_objs objs)].

(* ---------- comparison with the observed IR: float64 constants by value ---------- *)
Definition dyn_eqv (a b : dyn) : bool :=
  match a, b with
  | DFloat t x, DFloat u y =>
      (seqb t u && match parse_dec x, parse_dec y with
                   | Some (m, e), Some (m', e') => num_eqb m e m' e'
                   | _, _ => seqb x y end)%bool
  | _, _ => dyn_eqb a b
  end.
Definition leqv {A} (e : A -> A -> bool) : list A -> list A -> bool :=
  fix go (a b : list A) : bool :=
    match a, b with
    | [], [] => true
    | x :: r, y :: s => (e x y && go r s)%bool
    | _, _ => false
    end.
Definition attrs_eqv (a b : attrs) : bool :=
  (Bool.eqb (nullable a) (nullable b) && dyn_eqv (dflt a) (dflt b) &&
   leqv (fun x y => (seqb (fst x) (fst y) && dyn_eqv (snd x) (snd y))%bool) (hints a) (hints b))%bool.
Definition constraint_eqv (a b : constraint) : bool := (seqb (c_op a) (c_op b) && leqv dyn_eqv (c_args a) (c_args b))%bool.
Definition pair_eqv (a b : string * string) : bool := (seqb (fst a) (fst b) && seqb (snd a) (snd b))%bool.

Fixpoint ty_eqv (x y : ty) : bool :=
  match x, y with
  | TDisj a d, TDisj b e =>
      (attrs_eqv a b && leqv ty_eqv (d_branches d) (d_branches e) && seqb (d_disc d) (d_disc e)
       && leqv pair_eqv (d_mapping d) (d_mapping e))%bool
  | TArray a v, TArray b w => (attrs_eqv a b && ty_eqv v w)%bool
  | TEnum a vs, TEnum b ws =>
      (attrs_eqv a b &&
       leqv (fun v w => (ty_eqv (ev_type v) (ev_type w) && seqb (ev_name v) (ev_name w) && dyn_eqv (ev_value v) (ev_value w))%bool) vs ws)%bool
  | TMap a i v, TMap b j w => (attrs_eqv a b && ty_eqv i j && ty_eqv v w)%bool
  | TStruct a dh fs, TStruct b eh gs =>
      (attrs_eqv a b && Nat.eqb (List.length dh) 0 && Nat.eqb (List.length eh) 0 &&
       leqv (fun f g => (seqb (f_name f) (f_name g) && leqv seqb (f_comments f) (f_comments g)
                         && ty_eqv (f_type f) (f_type g) && Bool.eqb (f_required f) (f_required g))%bool) fs gs)%bool
  | TRef a p n, TRef b q m => (attrs_eqv a b && seqb p q && seqb n m)%bool
  | TConstRef a p n v, TConstRef b q m w => (attrs_eqv a b && seqb p q && seqb n m && dyn_eqv v w)%bool
  | TScalar a k v cs, TScalar b l w ds =>
      (attrs_eqv a b && skind_eqb k l && dyn_eqv v w && leqv constraint_eqv cs ds)%bool
  | TBad a k, TBad b l => (attrs_eqv a b && seqb k l)%bool
  | _, _ => false
  end.

Definition object_eqv (a b : object) : bool :=
  (seqb (o_name a) (o_name b) && leqv seqb (o_comments a) (o_comments b) && ty_eqv (o_type a) (o_type b)
   && seqb (o_selfpkg a) (o_selfpkg b) && seqb (o_selfname a) (o_selfname b))%bool.
Definition schema_eqv (a b : schema) : bool :=
  (seqb (s_pkg a) (s_pkg b) && seqb (m_kind (s_meta a)) (m_kind (s_meta b)) && seqb (s_entry a) (s_entry b)
   && ty_eqv (s_entrytype a) (s_entrytype b)
   && leqv (fun k l => (seqb (fst k) (fst l) && object_eqv (snd k) (snd l))%bool) (s_objects a) (s_objects b))%bool.
Definition schemas_eqv (a b : schemas) : bool := leqv schema_eqv a b.

(* one element of the front-end correspondence stream: (Src schema, the pre-chain IR the real front-end produced,
   or None when cog rejected the schema) *)
Definition fe_agrees (model : fres schemas) (observed : option schemas) : bool :=
  match model, observed with
  | FOk m, Some o => schemas_eqv m o
  | FErr _, None => true
  | _, _ => false
  end.
Definition fe_unmodelled (model : fres schemas) : bool := match model with FUnmodelled _ => true | _ => false end.

Definition fe_js_unmodelled (c : src_schema * option schemas) : bool := fe_unmodelled (parse_jsonschema (fst c)).
Definition fe_js_mismatch (c : src_schema * option schemas) : bool :=
  (negb (fe_js_unmodelled c) && negb (fe_agrees (parse_jsonschema (fst c)) (snd c)))%bool.

(* ====================================================================================================
   OpenAPI 3.0 (internal/openapi/generator.go + utils.go, after the fixes 7fed413 "nullable on every
   schema object" and e08830e "number without format is float64"):
     walkDefinitions order: allOf, anyOf, oneOf, enum, then `type`; `nullable: true` sets Nullable on the result
     getConstraints order : minLength (only when > 0), maxLength, multipleOf, minimum, maximum;
                            arguments uint64 for lengths, int64 for `integer`, float64 for `number`
     enum                 : member type string / int64 (integer) ; names "%s" / "%#v" of the float64 JSON value;
                            VALUES of integer enums stay float64
     every components.schemas entry becomes an object (sorted by name); there is no entry point
   ==================================================================================================== *)
Definition a_nullable (a : attrs) (b : bool) : attrs :=
  {| nullable := (nullable a || b)%bool ; dflt := dflt a ; hints := hints a |}.
Definition with_nullable (t : ty) (b : bool) : ty := if b then set_attrs t (a_nullable (ty_attrs t) true) else t.

Definition oa_lower (isint : bool) (ge gt : option (Z * Z)) : list constraint :=
  let arg := fun b : Z * Z => if isint then DInt "int64" (fst b * 10 ^ snd b) else dflo (fst b) (snd b) in
  match gt, ge with
  | Some b, _ => [cstr ">" (arg b)]
  | None, Some b => [cstr ">=" (arg b)]
  | None, None => []
  end.
Definition oa_upper (isint : bool) (le lt : option (Z * Z)) : list constraint :=
  let arg := fun b : Z * Z => if isint then DInt "int64" (fst b * 10 ^ snd b) else dflo (fst b) (snd b) in
  match lt, le with
  | Some b, _ => [cstr "<" (arg b)]
  | None, Some b => [cstr "<=" (arg b)]
  | None, None => []
  end.
Definition oa_lengths (mn mx : option Z) : list constraint :=
  (match mn with Some n => if Z.ltb 0 n then [cstr "minLength" (DInt "uint64" n)] else [] | None => [] end) ++
  opt_list mx (fun n => cstr "maxLength" (DInt "uint64" n)).

Definition oa_enum_member (et : ty) (j : json) : enumval :=
  match j with
  | JStr s => mkEnumVal et s (DStr s)
  | JNum m e => mkEnumVal et (z_string (m * 10 ^ e)) (dflo m e)
  | _ => mkEnumVal et "" DNil
  end.
Definition oa_enum (vals : list json) : ty :=
  let et := match vals with v :: _ => if json_is_string v then t_string else t_int64 | [] => t_string end in
  TEnum attrs0 (map (oa_enum_member et) vals).

Fixpoint oa_ty (pkg : string) (t : src_ty) {struct t} : ty :=
  match t with
  | SBool => t_bool
  | SInt w ge gt le lt =>
      TScalar attrs0 (if seqb w "int32" then KInt32 else KInt64) DNil
              (oa_lower true (zb ge) (zb gt) ++ oa_upper true (zb le) (zb lt))
  | SFloat w ge gt le lt =>
      TScalar attrs0 (if seqb w "float32" then KFloat32 else KFloat64) DNil (oa_lower false ge gt ++ oa_upper false le lt)
  | SString mn mx => TScalar attrs0 KString DNil (oa_lengths mn mx)
  | SDateTime => TScalar a_datetime KString DNil []
  | SAny => t_any
  | SConst v => oa_enum [v]
  | SEnum vals => oa_enum vals
  | SArray et => TArray attrs0 (oa_ty pkg et)
  | SMap vt => TMap attrs0 t_string (oa_ty pkg vt)
  | SRef n => TRef attrs0 pkg n
  | SStruct fs =>
      match fs with
      | [] => t_any
      | _ =>
          TStruct attrs0 []
            (sort_fields (map (fun f => mkField (sf_name f) []
                                                (with_nullable (oa_ty pkg (sf_type f))
                                                   (sf_null f && negb (match sf_type f with SRef _ => true | _ => false end)))
                                                (sf_req f)) fs))
      end
  | SUnion bs => mk_disj (map (oa_ty pkg) bs)
  | SDUnion disc names => TDisj attrs0 (mkDisj (map (fun n => TRef attrs0 pkg n) names) disc [])
  end.

Fixpoint oa_supported (t : src_ty) : bool :=
  match t with
  | SInt w ge gt le lt =>
      ((seqb w "int32" || seqb w "int64") && negb (match ge, gt with Some _, Some _ => true | _, _ => false end)
       && negb (match le, lt with Some _, Some _ => true | _, _ => false end))%bool
  | SFloat _ ge gt le lt =>
      (negb (match ge, gt with Some _, Some _ => true | _, _ => false end)
       && negb (match le, lt with Some _, Some _ => true | _, _ => false end))%bool
  | SConst v => match v with JStr _ => true | JNum m e => Z.leb 0 e | _ => false end
  | SEnum vals => enum_ok vals
  | SArray et => oa_supported et
  | SMap vt => oa_supported vt
  | SStruct fs =>
      (str_nodup (map sf_name fs) &&
       forallb (fun f => (oa_supported (sf_type f) &&
                          negb (sf_null f && match sf_type f with SRef _ => true | _ => false end))%bool) fs)%bool
  | SUnion bs => (negb (match bs with [] => true | _ => false end) && forallb oa_supported bs)%bool
  | SDUnion _ names => negb (match names with [] => true | _ => false end)
  | _ => true
  end.

Definition oa_schema_supported (s : src_schema) : bool :=
  (defs_closed (src_defs s) && forallb (fun d => oa_supported (snd d)) (src_defs s))%bool.

Definition parse_openapi (s : src_schema) : fres schemas :=
  if negb (oa_schema_supported s) then FUnmodelled "schema outside the modelled OpenAPI shapes" else
  let pkg := src_pkg s in
  let objs := map (fun d => (fst d, mkObject (fst d) [] (oa_ty pkg (snd d)) pkg (fst d))) (src_defs s) in
  FOk [mkSchema pkg meta0 "" (TBad attrs0 "") (sort_objs objs)].

Definition fe_oa_unmodelled (c : src_schema * option schemas) : bool := fe_unmodelled (parse_openapi (fst c)).
Definition fe_oa_mismatch (c : src_schema * option schemas) : bool :=
  (negb (fe_oa_unmodelled c) && negb (fe_agrees (parse_openapi (fst c)) (snd c)))%bool.
