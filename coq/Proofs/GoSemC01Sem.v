(* C01 — decode / encode / strict decoder lemmas, by type form. *)
From Coq Require Import List String ZArith Bool Ascii Arith Lia.
From Cog Require Import Model.GoSem Model.GoSemSpec08 Model.GoSemSpec01 Proofs.GoSemEqualsProofs
  Model.GoSemSpec01F Proofs.GoSemC01Json Proofs.GoSemC01Unfold.
Import ListNotations.
Local Open Scope list_scope.
Local Open Scope string_scope.

(* ====================================================================== *)
(* types: nilable, zero values, null                                      *)
(* ====================================================================== *)
Definition nil_shape (pt : ty) : bool :=
  match pt with TArray _ _ | TMap _ _ _ | TScalar _ KAny _ _ => true | _ => false end.

Lemma nilable_eq ctx t : nilable ctx t =
  (is_ptr t || match payload_type ctx t with PTy pt => nil_shape pt | PUnm _ => false end)%bool.
Proof.
  unfold nilable. destruct (payload_type ctx t) as [pt|]; auto; destruct pt; auto; destruct k; auto.
Qed.

Lemma is_any_payload ctx t : is_any t = true -> payload_type ctx t = PTy t.
Proof. destruct t; try discriminate. reflexivity. Qed.

Lemma nullable_nilable ctx t pt :
  ty_supported ctx t = true -> payload_type ctx t = PTy pt -> t_nullable t = true -> nilable ctx t = true.
Proof.
  intros Hs Hp Hn. rewrite nilable_eq, Hp. destruct (nil_shape pt) eqn:Sh; [apply orb_true_r|].
  rewrite orb_false_r. rewrite <- Hn. symmetry.
  assert (Ha : is_any t = false).
  { destruct (is_any t) eqn:A; auto. rewrite (is_any_payload _ _ A) in Hp. inversion Hp; subst pt.
    destruct t; try discriminate. destruct k; discriminate. }
  apply (nullable_is_ptr ctx t pt Hs Ha Hp); destruct pt; try reflexivity; discriminate.
Qed.

Lemma decode_null_nilable ctx t : nilable ctx t = true -> decode ctx JNull t = DSet GNil.
Proof.
  rewrite nilable_eq. simpl. unfold decode_null. destruct (is_ptr t); auto. simpl.
  destruct (payload_type ctx t) as [pt|]; try discriminate.
  destruct pt; try discriminate; auto. destruct k; try discriminate; auto.
Qed.

Lemma zero_fuel_ptr ctx f t : is_ptr t = true -> zero_fuel ctx f t = GNil.
Proof. intros H. destruct f; simpl; rewrite H; reflexivity. Qed.

Lemma zero_fuel_shape ctx f t : nil_shape t = true -> zero_fuel ctx f (non_null t) = GNil.
Proof.
  intros H. destruct t; try discriminate.
  - destruct f; simpl; reflexivity.
  - destruct f; simpl; reflexivity.
  - destruct k; try discriminate. destruct f; simpl; reflexivity.
Qed.

Lemma zero_chain ctx : forall f t rt, resolve_fuel ctx f t = Some rt -> nil_shape rt = true ->
  zero_fuel ctx (S f) (non_null t) = GNil.
Proof.
  induction f as [|f IH]; intros t rt H Sh.
  - destruct t; simpl in H; try discriminate; inversion H; subst rt; try discriminate;
      apply zero_fuel_shape; assumption.
  - destruct t; simpl in H; try (inversion H; subst rt; try discriminate; apply zero_fuel_shape; assumption).
    destruct (locate_object ctx pkg name) as [o|] eqn:L.
    + change (zero_fuel ctx (S (S f)) (non_null (TRef a pkg name)))
        with (match locate_object ctx pkg name with
              | Some o => zero_fuel ctx (S f) (non_null (o_type o)) | None => GNil end).
      rewrite L. eapply IH; eauto.
    + inversion H; subst rt. discriminate.
Qed.

Lemma via_resolve ctx p n pt :
  match resolve ctx (TRef attrs0 p n) with
  | None => PUnm "reference cycle"
  | Some (TRef _ _ _) => PUnm "dangling reference"
  | Some rt => if t_nullable rt then PUnm "nullable object type"
               else if is_concrete_scalar rt then PUnm "reference to a constant"
               else PTy rt
  end = PTy pt -> resolve ctx (TRef attrs0 p n) = Some pt.
Proof.
  destruct (resolve ctx (TRef attrs0 p n)) as [rt|]; try discriminate.
  destruct rt; try discriminate;
    (destruct (t_nullable _); [discriminate|]; destruct (is_concrete_scalar _); [discriminate|];
     intros H; inversion H; reflexivity).
Qed.

Lemma zero_ref_shape ctx p n pt : resolve ctx (TRef attrs0 p n) = Some pt -> nil_shape pt = true ->
  match locate_object ctx p n with
  | Some o => zero_fuel ctx (S (count_objects ctx)) (non_null (o_type o)) | None => GNil end = GNil.
Proof.
  unfold resolve. simpl. destruct (locate_object ctx p n) as [o|]; auto.
  intros H Sh. eapply zero_chain; eauto.
Qed.

Lemma zero_nilable ctx t : nilable ctx t = true -> zero ctx t = GNil.
Proof.
  rewrite nilable_eq. unfold zero. destruct (is_ptr t) eqn:P; [intros _; apply zero_fuel_ptr; auto|].
  simpl orb. destruct (payload_type ctx t) as [pt|] eqn:Hp; try discriminate. intros Sh.
  destruct t; simpl in Hp; try (inversion Hp; subst pt; discriminate).
  - simpl. rewrite P. reflexivity.
  - simpl. rewrite P. reflexivity.
  - apply via_resolve in Hp. simpl. rewrite P. eapply zero_ref_shape; eauto.
  - apply via_resolve in Hp. simpl. rewrite P. eapply zero_ref_shape; eauto.
  - inversion Hp; subst pt. destruct k; try discriminate. simpl. rewrite P. reflexivity.
Qed.

(* ====================================================================== *)
(* scalars                                                                *)
(* ====================================================================== *)
Definition kind_ok (k : skind) : bool := match k with KNull | KBytes | KOther _ => false | _ => true end.
Definition is_leafany (v : gval) : bool :=
  match v with GBool _ | GInt _ | GFloat _ _ | GStr _ | GTime _ _ | GAny _ => true | _ => false end.
Definition leaf_enc (v : gval) : json :=
  match v with
  | GBool b => JBool b | GInt z => JNum z 0 | GFloat m e => JNum m e | GStr s => JStr s
  | GTime s _ => JStr s | GAny j => j | _ => JNull
  end.
Lemma encode_leaf ctx t v : is_leafany v = true -> encode ctx t v = leaf_enc v.
Proof. destruct v; try discriminate; reflexivity. Qed.

Lemma int_fits lo hi m :
  (let '(a, b) := num_norm m 0 in (Z.leb 0 b && Z.leb lo (a * 10 ^ b) && Z.leb (a * 10 ^ b) hi)%bool)
  = (Z.leb lo m && Z.leb m hi)%bool.
Proof.
  destruct (num_norm m 0) as [a b] eqn:E. apply num_norm_int in E. destruct E as [E1 E2]. rewrite E2.
  apply Z.leb_le in E1. rewrite E1. reflexivity.
Qed.

Definition scalar_good (b : ty) (k : skind) (j : json) (v : gval) : Prop :=
  is_leafany v = true /\ json_fits_scalar b k (leaf_enc v) = true /\ rel j (leaf_enc v) /\
  (k = KAny -> is_empty_value v = false).

Ltac int_case j Hs :=
  (destruct j; try congruence; try (left; split; reflexivity);
   cbn [decode_scalar scalar_safe json_fits_scalar int_range] in *;
   unfold num_is_int_literal in *;
   match goal with H : Z.eqb ?e 0 = true |- _ => apply Z.eqb_eq in H; subst e end;
   rewrite int_fits; rewrite Z.eqb_refl; cbn [andb];
   match goal with |- context [(Z.leb ?lo ?m && Z.leb ?m ?hi)%bool] =>
     destruct (Z.leb lo m && Z.leb m hi)%bool eqn:R;
     [right; split; [reflexivity|]; exists (GInt m); split; [reflexivity|];
      repeat split; try discriminate;
      [cbn [leaf_enc json_fits_scalar int_range]; rewrite int_fits; exact R | constructor; reflexivity]
     |left; split; reflexivity]
   end).

Lemma scalar_dec b k j : kind_ok k = true -> j <> JNull -> json_wf j = true -> scalar_safe b k j = true ->
  (json_fits_scalar b k j = false /\ decode_scalar b k j = DErr) \/
  (json_fits_scalar b k j = true /\ exists v, decode_scalar b k j = DSet v /\ scalar_good b k j v).
Proof.
  intros Hk Hj W Hs. destruct k; try discriminate; clear Hk.
  - (* any *) right. split; [reflexivity|]. exists (GAny (canon j)). split; [reflexivity|].
    repeat split; auto. apply rel_canon; auto.
  - (* string *)
    destruct j; try congruence; try (left; split; reflexivity).
    right. split; [reflexivity|]. cbn [decode_scalar scalar_safe] in *.
    destruct (is_datetime b).
    + destruct (parse_time s) as [x l| |] eqn:E; try discriminate. apply String.eqb_eq in Hs. subst x.
      exists (GTime s l). repeat split; try constructor; discriminate.
    + exists (GStr s). repeat split; try constructor; discriminate.
  - (* float32 *)
    destruct j; try congruence; try (left; split; reflexivity).
    right. split; [reflexivity|]. cbn [decode_scalar scalar_safe] in *.
    destruct (num_norm m e) as [a c] eqn:E. rewrite Hs. exists (GFloat a c).
    repeat split; try discriminate. constructor. rewrite (num_norm_idem _ _ _ _ E). exact E.
  - (* float64 *)
    destruct j; try congruence; try (left; split; reflexivity).
    right. split; [reflexivity|]. cbn [decode_scalar scalar_safe] in *.
    destruct (num_norm m e) as [a c] eqn:E. rewrite Hs. exists (GFloat a c).
    repeat split; try discriminate. constructor. rewrite (num_norm_idem _ _ _ _ E). exact E.
  - int_case j Hs.
  - int_case j Hs.
  - int_case j Hs.
  - int_case j Hs.
  - int_case j Hs.
  - int_case j Hs.
  - int_case j Hs.
  - int_case j Hs.
  - (* bool *)
    destruct j; try congruence; try (left; split; reflexivity).
    right. split; [reflexivity|]. exists (GBool b0). repeat split; try constructor; discriminate.
Qed.

(* ====================================================================== *)
(* list helpers                                                           *)
(* ====================================================================== *)
Lemma first_bad_all rs : (forall r, In r rs -> exists v, r = DSet v) -> first_bad rs = None.
Proof.
  induction rs as [|r rs IH]; simpl; intros H; auto.
  destruct (H r (or_introl eq_refl)) as [v ->]. apply IH. intros r' Hr. apply H. auto.
Qed.

Lemma seq_all_ok rs : (forall r, In r rs -> exists v, r = SOk v) ->
  forall acc err, exists vals, seq_results rs acc err = inr (vals, err).
Proof.
  induction rs as [|r rs IH]; simpl; intros H acc err; eauto.
  destruct (H r (or_introl eq_refl)) as [v ->]. apply IH. intros r' Hr. apply H. auto.
Qed.

Lemma Forall2_map_r {A B} (R : A -> B -> Prop) (g : A -> B) l :
  (forall x, In x l -> R x (g x)) -> Forall2 R l (map g l).
Proof. induction l; simpl; intros H; constructor; auto. Qed.

Lemma fold_left_map {A B C} (g : C -> B -> C) (h : A -> B) l : forall acc,
  fold_left g (map h l) acc = fold_left (fun acc x => g acc (h x)) l acc.
Proof. induction l; simpl; auto. Qed.

Lemma supported_payload ctx t : ty_supported ctx t = true -> exists pt, payload_type ctx t = PTy pt.
Proof.
  destruct t; simpl; try discriminate; eauto.
  - destruct (match resolve ctx (TRef attrs0 pkg name) with None => _ | _ => _ end); eauto; discriminate.
  - intros H. apply andb_true_iff in H. destruct H as [_ H].
    destruct (match resolve ctx (TRef attrs0 pkg name) with None => _ | _ => _ end); eauto; discriminate.
Qed.

Lemma non_null_idem t : non_null (non_null t) = non_null t.
Proof. destruct t; reflexivity. Qed.
Lemma payload_or_self_eq' ctx t pt : payload_type ctx t = PTy pt -> payload_or_self ctx t = pt.
Proof. unfold payload_or_self. intros ->. reflexivity. Qed.
Lemma payload_non_null ctx t pt : payload_type ctx t = PTy pt ->
  non_null (payload_or_self ctx (non_null t)) = non_null pt.
Proof.
  intros H. destruct (is_reflike t) eqn:R.
  - unfold payload_or_self. rewrite payload_non_null_ref, H by assumption. reflexivity.
  - rewrite payload_self in H by assumption. inversion H; subst pt.
    unfold payload_or_self. rewrite payload_self by (destruct t; auto). apply non_null_idem.
Qed.

(* ====================================================================== *)
(* the induction predicate                                                *)
(* ====================================================================== *)
Section Main.
  Variable ctx : schemas.
  Hypothesis Hc : ctx_supported ctx = true.

  Definition good (x : json) (t : ty) (v : gval) : Prop :=
    strict_ok ctx (encode ctx t v) t = true /\ rel x (encode ctx t v) /\
    (x <> JNull -> nilable ctx t = true -> is_empty_value v = true -> is_empty_collection x = true).

  Definition P (x : json) : Prop :=
    forall src t, ty_supported ctx t = true -> strict_ok ctx x t = true -> rtsF ctx src x t = true ->
      json_wf x = true -> (x = JNull -> src <> RField) ->
      exists v, decode ctx x t = DSet v /\ good x t v /\ exists v', strict_val ctx src x t = SOk v'.

  Definition F (et : ty) (x : json) : gval := dval (zero ctx et) (decode ctx x et).

  Lemma elem_ok src et x : P x -> ty_supported ctx et = true -> strict_ok ctx x et = true ->
    rtsF ctx src x et = true -> json_wf x = true -> src <> RField ->
    decode ctx x et = DSet (F et x) /\ good x et (F et x) /\ exists v', strict_val ctx src x et = SOk v'.
  Proof.
    intros HP Hs Hok Hr W Hsrc. destruct (HP src et Hs Hok Hr W (fun _ => Hsrc)) as [v [D [G S]]].
    unfold F. rewrite D. simpl. auto.
  Qed.

  Lemma P_null : P JNull.
  Proof.
    intros src t Hs Hok Hr _ Hsrc. specialize (Hsrc eq_refl).
    destruct (supported_payload _ _ Hs) as [pt Hp]. simpl in Hok.
    pose proof (nullable_nilable _ _ _ Hs Hp Hok) as Hn.
    pose proof (decode_null_nilable _ _ Hn) as D.
    exists GNil. split; [exact D|]. split.
    - split; [simpl; exact Hok|]. split; [constructor|]. intros X; congruence.
    - simpl in Hr. unfold null_safe in Hr. rewrite Hp in Hr. rewrite strict_val_unfold, Hp.
      assert (Std : exists v', sv_std ctx JNull t = SOk v') by (unfold sv_std; rewrite D; eauto).
      destruct src; try congruence; destruct pt; try discriminate; auto.
      + destruct (array_of_scalars ctx 8 (TArray a pt)); [auto|discriminate].
      + destruct (map_of_scalars ctx 8 (TMap a pt1 pt2)); auto. simpl. eauto.
      + destruct (array_of_scalars ctx 8 (TArray a pt)); auto. simpl. eauto.
      + destruct (map_of_scalars ctx 8 (TMap a pt1 pt2)); [auto|discriminate].
  Qed.

  (* ====================================================================== *)
  (* non-struct payload types                                               *)
  (* ====================================================================== *)
  Definition simple_ty (pt : ty) : bool :=
    match pt with TScalar _ _ _ _ | TEnum _ _ | TArray _ _ | TMap _ _ _ => true | _ => false end.
  Definition kids (j : json) : list json :=
    match j with JArr l => l | JObj ms => map snd ms | _ => [] end.

  Definition sgood (j : json) (pt : ty) (v : gval) : Prop :=
    is_nil v = false /\
    (forall t', non_null (payload_or_self ctx t') = non_null pt ->
       sok_simple ctx (encode ctx t' v) pt = true /\ rel j (encode ctx t' v)) /\
    (nil_shape pt = true -> is_empty_value v = true -> is_empty_collection j = true).

  Lemma scalar_simple b k j : kind_ok k = true -> j <> JNull -> json_wf j = true ->
    scalar_safe b k j = true -> json_fits_scalar b k j = true ->
    exists v, decode_scalar b k j = DSet v /\ is_nil v = false /\
      (forall t', json_fits_scalar b k (encode ctx t' v) = true /\ rel j (encode ctx t' v)) /\
      (k = KAny -> is_empty_value v = false).
  Proof.
    intros Hk Hj W Hs Hf. destruct (scalar_dec b k j Hk Hj W Hs) as [[X _]|[_ [v [D [L [Fi [R E]]]]]]]; [congruence|].
    exists v. split; auto. split; [destruct v; try discriminate; reflexivity|]. split; auto.
    intros t'. rewrite (encode_leaf _ _ _ L). auto.
  Qed.

  Lemma fold_left_ext {A B} (g g' : A -> B -> A) l : (forall a x, g a x = g' a x) ->
    forall a, fold_left g l a = fold_left g' l a.
  Proof. intros H. induction l; simpl; intros a0; auto. rewrite H. apply IHl. Qed.

  Lemma simple_dec j : j <> JNull -> json_wf j = true -> Forall P (kids j) ->
    forall t src pt, ty_supported ctx pt = true -> simple_ty pt = true ->
      rts_simple ctx t j src pt = true -> sok_simple ctx j pt = true ->
      exists v, dec_simple ctx j pt = DSet v /\ sgood j pt v.
  Proof.
    intros Hj W HK t src pt Hs Hst Hr Hok. destruct pt; try discriminate.
    - (* array *)
      destruct j; try discriminate. simpl in Hs, Hr, Hok, W, HK.
      apply andb_true_iff in Hs. destruct Hs as [_ Hs].
      apply andb_true_iff in Hr. destruct Hr as [Hr _].
      rewrite forallb_forall in Hr, Hok, W. rewrite Forall_forall in HK.
      assert (E : forall x, In x l -> decode ctx x pt = DSet (F pt x) /\ good x pt (F pt x)).
      { intros x Hx. destruct (elem_ok RElem pt x (HK _ Hx) Hs (Hok _ Hx) (Hr _ Hx) (W _ Hx)) as [A [B _]];
          [discriminate|auto]. }
      exists (GSlice (map (F pt) l)). split.
      + unfold dec_simple. rewrite first_bad_all.
        * rewrite map_map. reflexivity.
        * intros r Hr'. apply in_map_iff in Hr'. destruct Hr' as [x [<- Hx]]. exists (F pt x). apply E; auto.
      + split; [reflexivity|]. split.
        * intros t' Ht'. simpl. destruct (payload_or_self ctx t'); simpl in Ht'; try discriminate.
          inversion Ht'; subst. split.
          -- simpl. apply forallb_forall. intros e He. rewrite map_map in He.
             apply in_map_iff in He. destruct He as [x [<- Hx]]. apply (E x Hx).
          -- constructor. rewrite map_map. apply Forall2_map_r. intros x Hx. apply (E x Hx).
        * intros _ He. destruct l; [reflexivity|discriminate].
    - (* enum *)
      simpl in Hs. apply andb_true_iff in Hs. destruct Hs as [_ Hs].
      unfold dec_simple, rts_simple, sok_simple in *.
      destruct (enum_base vs) as [| | | | | | |a0 k value cs| | |] eqn:B; try discriminate.
      assert (Hk : kind_ok k = true) by (destruct k; try discriminate; reflexivity).
      destruct (scalar_simple _ k j Hk Hj W Hr Hok) as [v [D [Nn [En _]]]].
      exists v. split; auto. split; auto. split; [|discriminate].
      intros t' _. unfold sok_simple. rewrite B. apply En.
    - (* map *)
      destruct j; try discriminate. simpl in Hs, Hr, Hok, HK.
      apply andb_true_iff in Hs. destruct Hs as [_ Hs].
      apply andb_true_iff in Hr. destruct Hr as [Hr _].
      destruct (wf_obj _ W) as [Nd Wf].
      rewrite forallb_forall in Hr, Hok. rewrite Forall_forall in HK.
      assert (E : forall k x, In (k, x) ms -> decode ctx x pt2 = DSet (F pt2 x) /\ good x pt2 (F pt2 x)).
      { intros k x Hx.
        assert (Hin : In x (map snd ms)) by (apply in_map_iff; exists (k, x); auto).
        destruct (elem_ok RVal pt2 x (HK _ Hin) Hs (Hok _ Hx) (Hr _ Hx) (Wf _ _ Hx)) as [A [B _]];
          [discriminate|auto]. }
      exists (GMap (build (F pt2) ms [])). split.
      + unfold dec_simple. rewrite first_bad_all.
        * rewrite fold_left_map. unfold build. f_equal. f_equal. apply fold_left_ext.
          intros acc kv. rewrite gmap_set_ins. reflexivity.
        * intros r Hr'. rewrite map_map in Hr'. apply in_map_iff in Hr'. destruct Hr' as [[k x] [<- Hx]].
          exists (F pt2 x). simpl. apply (E k x Hx).
      + split; [reflexivity|]. split.
        * intros t' Ht'. simpl. destruct (payload_or_self ctx t'); simpl in Ht'; try discriminate.
          inversion Ht'; subst. split.
          -- simpl. apply forallb_forall. intros [k e] He.
             apply in_map_iff in He. destruct He as [[k' y] [Heq Hy]]. simpl in Heq. inversion Heq; subst.
             apply build_in in Hy. destruct Hy as [[x [Hx ->]]|[]]. simpl. apply (E k x Hx).
          -- constructor.
             ++ rewrite map_map. simpl. apply sorted_nodup. apply build_sorted. exact I.
             ++ intros k x Hx. left. exists (encode ctx pt2 (F pt2 x)). split; [|apply (E k x Hx)].
                apply in_map_iff. exists (k, F pt2 x). split; [reflexivity|].
                apply afind_in. rewrite build_afind by assumption. rewrite (in_afind _ _ _ Nd Hx). reflexivity.
             ++ intros k Hk. rewrite map_map in Hk. simpl in Hk. apply build_keys in Hk.
                destruct Hk as [Hk|[]]. exact Hk.
        * intros _ He. simpl in He. destruct (build (F pt2) ms []) eqn:B; try discriminate.
          apply build_empty in B. subst ms. reflexivity.
    - (* scalar *)
      simpl in Hs. apply andb_true_iff in Hs. destruct Hs as [Hs _].
      assert (Hk : kind_ok k = true) by (destruct k; try discriminate; reflexivity).
      unfold dec_simple, rts_simple, sok_simple in *.
      destruct (scalar_simple _ k j Hk Hj W Hr Hok) as [v [D [Nn [En Ee]]]].
      exists v. split; auto. split; auto. split.
      + intros t' _. apply En.
      + intros Sh He. destruct k; try discriminate. rewrite Ee in He; [discriminate|reflexivity].
  Qed.

  Definition coll_match (pt : ty) (j : json) : bool :=
    match pt, j with TArray _ _, JArr _ | TMap _ _ _, JObj _ => true | _, _ => false end.

  Lemma simple_err j t src pt : j <> JNull -> json_wf j = true ->
    ty_supported ctx pt = true -> simple_ty pt = true ->
    rts_simple ctx t j src pt = true -> sok_simple ctx j pt = false -> coll_match pt j = false ->
    dec_simple ctx j pt = DErr.
  Proof.
    intros Hj W Hs Hst Hr Hok Hcm. destruct pt; try discriminate.
    - destruct j; try discriminate; reflexivity.
    - simpl in Hs. apply andb_true_iff in Hs. destruct Hs as [_ Hs].
      unfold dec_simple, rts_simple, sok_simple in *.
      destruct (enum_base vs) as [| | | | | | |a0 k value cs| | |] eqn:B; try discriminate.
      assert (Hk : kind_ok k = true) by (destruct k; try discriminate; reflexivity).
      destruct (scalar_dec _ k j Hk Hj W Hr) as [[_ X]|[X _]]; [exact X|congruence].
    - destruct j; try discriminate; reflexivity.
    - simpl in Hs. apply andb_true_iff in Hs. destruct Hs as [Hs _].
      assert (Hk : kind_ok k = true) by (destruct k; try discriminate; reflexivity).
      unfold dec_simple, rts_simple, sok_simple in *.
      destruct (scalar_dec _ k j Hk Hj W Hr) as [[_ X]|[X _]]; [exact X|congruence].
  Qed.

  Lemma dec_body_simple j pt : simple_ty pt = true -> dec_body ctx j pt = dec_simple ctx j pt.
  Proof. destruct pt; try discriminate; reflexivity. Qed.
  Lemma sok_body_simple j pt : simple_ty pt = true -> sok_body ctx j pt = sok_simple ctx j pt.
  Proof. destruct pt; try discriminate; reflexivity. Qed.
  Lemma rts_body_simple t j src pt : simple_ty pt = true -> rts_body ctx t j src pt = rts_simple ctx t j src pt.
  Proof. destruct pt; try discriminate; reflexivity. Qed.

  Lemma simple_strict j t src pt v : j <> JNull -> json_wf j = true -> Forall P (kids j) ->
    ty_supported ctx pt = true -> simple_ty pt = true -> payload_type ctx t = PTy pt ->
    decode ctx j t = DSet v -> rts_simple ctx t j src pt = true -> sok_simple ctx j pt = true ->
    exists v', strict_val ctx src j t = SOk v'.
  Proof.
    intros Hj W HK Hs Hst Hp D Hr Hok. rewrite strict_val_unfold, Hp.
    assert (Std : exists v', sv_std ctx j t = SOk v') by (unfold sv_std; rewrite D; eauto).
    destruct pt; try discriminate; auto.
    - (* array *)
      destruct (array_of_scalars ctx 8 (TArray a pt)) eqn:A; auto.
      destruct j; try discriminate. simpl in Hs, Hok, W, HK. cbn [rts_simple] in Hr. rewrite A in Hr.
      apply andb_true_iff in Hs. destruct Hs as [_ Hs].
      apply andb_true_iff in Hr. destruct Hr as [Hr Hr2]. simpl in Hr2.
      apply andb_true_iff in Hr2. destruct Hr2 as [Hsrc Hr2].
      rewrite forallb_forall in Hr, Hok, W. rewrite Forall_forall in HK.
      assert (E : forall r, In r (map (fun x => strict_val ctx RElem x pt) l) -> exists v', r = SOk v').
      { intros r Hr'. apply in_map_iff in Hr'. destruct Hr' as [x [<- Hx]].
        destruct (elem_ok RElem pt x (HK _ Hx) Hs (Hok _ Hx) (Hr _ Hx) (W _ Hx)) as [_ [_ B]];
          [discriminate|auto]. }
      unfold sv_arr. destruct src; try discriminate.
      + destruct (is_ref t && t_nullable t)%bool.
        * simpl in Hr2. destruct l; try discriminate. simpl. eauto.
        * destruct (seq_all_ok _ E [] false) as [vals ->]. eauto.
      + destruct (is_ref t && t_nullable t)%bool.
        * simpl in Hr2. destruct l; try discriminate. simpl. eauto.
        * destruct (seq_all_ok _ E [] false) as [vals ->]. eauto.
    - (* map *)
      destruct (map_of_scalars ctx 8 (TMap a pt1 pt2)) eqn:A; auto.
      destruct j; try discriminate. simpl in Hs, Hok, HK. cbn [rts_simple] in Hr. rewrite A in Hr.
      apply andb_true_iff in Hs. destruct Hs as [_ Hs].
      apply andb_true_iff in Hr. destruct Hr as [Hr Hsrc]. simpl in Hsrc.
      destruct (wf_obj _ W) as [Nd Wf].
      rewrite forallb_forall in Hr, Hok. rewrite Forall_forall in HK.
      assert (E : forall r, In r (map (fun kv => strict_val ctx RVal (snd kv) pt2) ms) -> exists v', r = SOk v').
      { intros r Hr'. apply in_map_iff in Hr'. destruct Hr' as [[k x] [<- Hx]]. simpl.
        assert (Hin : In x (map snd ms)) by (apply in_map_iff; exists (k, x); auto).
        destruct (elem_ok RVal pt2 x (HK _ Hin) Hs (Hok _ Hx) (Hr _ Hx) (Wf _ _ Hx)) as [_ [_ B]];
          [discriminate|auto]. }
      unfold sv_map. destruct src; try discriminate.
      + destruct (seq_all_ok _ E [] false) as [vals ->]. eauto.
      + destruct (seq_all_ok _ E [] false) as [vals ->]. eauto.
  Qed.

  Lemma rel_nonnull x y : rel x y -> x <> JNull -> y <> JNull.
  Proof. intros R H. inversion R; subst; congruence. Qed.

  Lemma P_simple j : j <> JNull -> Forall P (kids j) ->
    forall src t pt, ty_supported ctx t = true -> payload_type ctx t = PTy pt -> simple_ty pt = true ->
      strict_ok ctx j t = true -> rtsF ctx src j t = true -> json_wf j = true ->
      exists v, decode ctx j t = DSet v /\ good j t v /\ exists v', strict_val ctx src j t = SOk v'.
  Proof.
    intros Hj HK src t pt Hs Hp Hst Hok Hr W.
    pose proof (payload_supported _ _ _ Hc Hs Hp) as Hspt.
    rewrite strict_ok_unfold, Hp, sok_body_simple in Hok by assumption.
    rewrite rtsF_unfold, Hp, rts_body_simple in Hr by assumption.
    destruct (simple_dec j Hj W HK t src pt Hspt Hst Hr Hok) as [v0 [D0 [Nn [En Ee]]]].
    assert (D : decode ctx j t = DSet (if is_ptr t then GPtr v0 else v0)).
    { rewrite decode_unfold, Hp, dec_body_simple, D0 by assumption. unfold wrapd. destruct (is_ptr t); reflexivity. }
    exists (if is_ptr t then GPtr v0 else v0). split; [exact D|]. split.
    - assert (X : exists t', encode ctx t (if is_ptr t then GPtr v0 else v0) = encode ctx t' v0 /\
                             non_null (payload_or_self ctx t') = non_null pt).
      { destruct (is_ptr t).
        - exists (non_null t). split; [reflexivity|]. apply payload_non_null; auto.
        - exists t. split; [reflexivity|]. rewrite (payload_or_self_eq' _ _ _ Hp). reflexivity. }
      destruct X as [t' [Eq Ht']]. unfold good. rewrite Eq. destruct (En t' Ht') as [E1 E2]. split; [|split; auto].
      + rewrite strict_ok_unfold, Hp, sok_body_simple; auto. eapply rel_nonnull; eauto.
      + intros _ Hn He. rewrite nilable_eq, Hp in Hn. destruct (is_ptr t); [discriminate|].
        simpl in Hn. auto.
    - eapply simple_strict; eauto.
  Qed.

  (* ====================================================================== *)
  (* plain structs                                                          *)
  (* ====================================================================== *)
  Lemma find_name (fs : list field) k f : find (fun f => seqb (f_name f) k) fs = Some f -> In f fs /\ f_name f = k.
  Proof. intros H. apply find_some in H. destruct H as [H1 H2]. split; auto. apply seqb_eq; auto. Qed.

  Lemma find_nodup (fs : list field) f : NoDup (map (fun f => f_name f) fs) -> In f fs ->
    find (fun g => seqb (f_name g) (f_name f)) fs = Some f.
  Proof.
    induction fs as [|g r IH]; simpl; intros N H; [tauto|]. inversion N; subst.
    destruct H as [->|H]; [rewrite seqb_refl; reflexivity|].
    destruct (seqb (f_name g) (f_name f)) eqn:E; auto.
    apply seqb_eq in E. exfalso. apply H2. rewrite E. apply (in_map (fun f => f_name f)). exact H.
  Qed.

  Definition efl (V : field -> gval) (fs : list field) : list (string * json) :=
    fold_right (fun f acc => if (negb (f_required f) && is_empty_value (V f))%bool then acc
                             else (f_name f, encode ctx (f_type f) (V f)) :: acc) [] fs.

  Lemma enc_fields_efl V fs : enc_fields ctx fs (map (fun f => (f_name f, V f)) fs) = efl V fs.
  Proof. induction fs as [|f r IH]; simpl; auto. rewrite IH. reflexivity. Qed.

  Lemma in_efl V fs k y : In (k, y) (efl V fs) <->
    exists f, In f fs /\ (negb (f_required f) && is_empty_value (V f))%bool = false /\
              k = f_name f /\ y = encode ctx (f_type f) (V f).
  Proof.
    induction fs as [|f r IH]; simpl.
    - split; [tauto|]. intros [f [[] _]].
    - destruct (negb (f_required f) && is_empty_value (V f))%bool eqn:E.
      + rewrite IH. split.
        * intros [g [H1 H2]]. exists g. tauto.
        * intros [g [[<-|H1] [H2 H3]]]; [congruence|]. exists g. tauto.
      + simpl. rewrite IH. split.
        * intros [H|[g [H1 H2]]].
          -- inversion H; subst. exists f. auto.
          -- exists g. tauto.
        * intros [g [[<-|H1] [H2 [-> ->]]]]; [left; reflexivity|]. right. exists g. auto.
  Qed.

  Lemma keys_efl V fs k : In k (map fst (efl V fs)) -> In k (map (fun f => f_name f) fs).
  Proof.
    induction fs as [|f r IH]; simpl; auto.
    destruct (negb (f_required f) && is_empty_value (V f))%bool; simpl; intuition.
  Qed.

  Lemma nodup_efl V fs : NoDup (map (fun f => f_name f) fs) -> NoDup (map fst (efl V fs)).
  Proof.
    induction fs as [|f r IH]; simpl; intros N; [constructor|]. inversion N; subst.
    destruct (negb (f_required f) && is_empty_value (V f))%bool; simpl; auto.
    constructor; auto. intros H. apply keys_efl in H. contradiction.
  Qed.

  Lemma fold_last {V} (n : string) (g : string * V -> gval) (l : list (string * V)) :
    NoDup (map fst l) -> forall cur,
    fold_left (fun cur (r : option (string * dres)) =>
                 match r with Some (n', DSet v) => if seqb n' n then v else cur | _ => cur end)
              (map (fun kv => Some (fst kv, DSet (g kv))) l) cur
    = match afind n l with Some x => g (n, x) | None => cur end.
  Proof.
    induction l as [|[k x] r IH]; simpl; intros N cur; auto. inversion N; subst.
    rewrite IH by assumption. unfold seqb. destruct (String.eqb k n) eqn:E.
    - apply String.eqb_eq in E. subst k. apply afind_none in H1. rewrite H1. reflexivity.
    - reflexivity.
  Qed.

  Section Plain.
    Variable fs : list field.
    Variable ms : list (string * json).
    Hypothesis Hsok : sok_struct ctx fs ms = true.
    Hypothesis Hrts : rts_struct ctx fs ms = true.
    Hypothesis Hwf : json_wf (JObj ms) = true.
    Hypothesis HK : Forall P (map snd ms).
    Hypothesis Hsf : forallb (fun f => ty_supported ctx (f_type f)) fs = true.

    Lemma pl_nd : NoDup (map fst ms).
    Proof. apply (wf_obj _ Hwf). Qed.
    Lemma pl_nf : NoDup (map (fun f => f_name f) fs).
    Proof.
      unfold rts_struct in Hrts. apply andb_true_iff in Hrts. destruct Hrts as [H _].
      apply andb_true_iff in H. destruct H as [_ H]. apply str_nodup_NoDup. exact H.
    Qed.
    Lemma pl_sup f : In f fs -> ty_supported ctx (f_type f) = true.
    Proof. intros H. rewrite forallb_forall in Hsf. exact (Hsf _ H). Qed.
    Lemma pl_opt f : In f fs -> f_required f = false -> nilable ctx (f_type f) = true.
    Proof.
      intros H R. unfold rts_struct in Hrts. apply andb_true_iff in Hrts. destruct Hrts as [_ X].
      rewrite forallb_forall in X. specialize (X _ H). rewrite R in X. exact X.
    Qed.
    Lemma pl_req f : In f fs -> f_required f = true -> In (f_name f) (map fst ms).
    Proof.
      intros H R. unfold rts_struct in Hrts. apply andb_true_iff in Hrts. destruct Hrts as [X _].
      apply andb_true_iff in X. destruct X as [X _]. apply andb_true_iff in X. destruct X as [_ X].
      rewrite forallb_forall in X. specialize (X _ H). rewrite R in X. simpl in X. apply str_in_iff. exact X.
    Qed.

    Lemma pl_key k x : In (k, x) ms ->
      exists f, In f fs /\ f_name f = k /\ find (fun f => seqb (f_name f) k) fs = Some f.
    Proof.
      intros Hin.
      assert (S1 : sok_member ctx fs (k, x) = true).
      { unfold sok_struct in Hsok. apply andb_true_iff in Hsok. destruct Hsok as [X _].
        apply andb_true_iff in X. destruct X as [_ X]. rewrite forallb_forall in X. exact (X _ Hin). }
      unfold sok_member in S1. simpl in S1.
      destruct (find (fun f => seqb (f_name f) k) fs) as [f|] eqn:Ff; try discriminate.
      destruct (find_name _ _ _ Ff) as [Hf Hn]. exists f. auto.
    Qed.

    Lemma pl_mem f x : In f fs -> In (f_name f, x) ms ->
      match x with
      | JNull => negb (f_required f && negb (t_nullable (f_type f)))
      | _ => strict_ok ctx x (f_type f)
      end = true /\
      rtsF ctx RField x (f_type f) = true /\ (f_required f || negb (is_empty_collection x))%bool = true.
    Proof.
      intros Hf Hin.
      assert (S1 : sok_member ctx fs (f_name f, x) = true).
      { unfold sok_struct in Hsok. apply andb_true_iff in Hsok. destruct Hsok as [X _].
        apply andb_true_iff in X. destruct X as [_ X]. rewrite forallb_forall in X. exact (X _ Hin). }
      assert (R1 : rts_member ctx fs (f_name f, x) = true).
      { unfold rts_struct in Hrts. apply andb_true_iff in Hrts. destruct Hrts as [X _].
        apply andb_true_iff in X. destruct X as [X _]. apply andb_true_iff in X. destruct X as [X _].
        rewrite forallb_forall in X. exact (X _ Hin). }
      unfold sok_member in S1. unfold rts_member in R1. simpl in S1, R1.
      rewrite (find_nodup _ _ pl_nf Hf) in S1, R1. apply andb_true_iff in R1. tauto.
    Qed.

    Lemma pl_null f : In f fs -> In (f_name f, JNull) ms ->
      nilable ctx (f_type f) = true /\ (f_required f && negb (t_nullable (f_type f)))%bool = false.
    Proof.
      intros Hf Hin. destruct (pl_mem f JNull Hf Hin) as [S1 _]. apply negb_true_iff in S1. split; auto.
      destruct (f_required f) eqn:R; [|apply pl_opt; auto].
      simpl in S1. apply negb_false_iff in S1.
      destruct (supported_payload _ _ (pl_sup _ Hf)) as [pt Hp].
      eapply nullable_nilable; eauto. apply pl_sup; auto.
    Qed.

    Lemma pl_val f x : In f fs -> In (f_name f, x) ms -> x <> JNull ->
      decode ctx x (f_type f) = DSet (F (f_type f) x) /\ good x (f_type f) (F (f_type f) x) /\
      (f_required f || negb (is_empty_collection x))%bool = true /\
      exists v', strict_val ctx RField x (f_type f) = SOk v'.
    Proof.
      intros Hf Hin Hx. destruct (pl_mem f x Hf Hin) as [S1 [R1 R2]].
      assert (S2 : strict_ok ctx x (f_type f) = true) by (destruct x; auto; congruence).
      assert (HP : P x).
      { rewrite Forall_forall in HK. apply HK. apply in_map_iff. exists (f_name f, x). auto. }
      assert (W : json_wf x = true) by (eapply (wf_obj _ Hwf); eauto).
      destruct (HP RField (f_type f) (pl_sup _ Hf) S2 R1 W) as [v [D [G S]]]; [intros; congruence|].
      unfold F. rewrite D. simpl. auto.
    Qed.

    Definition FV (f : field) : gval :=
      match afind (f_name f) ms with Some x => F (f_type f) x | None => zero ctx (f_type f) end.

    Lemma pl_fv_null f : In f fs -> afind (f_name f) ms = Some JNull -> FV f = GNil.
    Proof.
      intros Hf A. unfold FV. rewrite A. apply afind_in in A. destruct (pl_null f Hf A) as [Nl _].
      unfold F. rewrite (decode_null_nilable _ _ Nl). reflexivity.
    Qed.
    Lemma pl_fv_abs f : In f fs -> afind (f_name f) ms = None -> f_required f = false /\ FV f = GNil.
    Proof.
      intros Hf A. assert (R : f_required f = false).
      { destruct (f_required f) eqn:R; auto. apply afind_none in A. exfalso. apply A. apply pl_req; auto. }
      split; auto. unfold FV. rewrite A. apply zero_nilable. apply pl_opt; auto.
    Qed.

    Lemma pl_dec f x : In f fs -> In (f_name f, x) ms -> decode ctx x (f_type f) = DSet (F (f_type f) x).
    Proof.
      intros Hf Hin. destruct x; try (apply pl_val; auto; discriminate).
      destruct (pl_null f Hf Hin) as [Nl _]. unfold F. rewrite (decode_null_nilable _ _ Nl). reflexivity.
    Qed.

    Definition ftype_for (k : string) : ty :=
      match find (fun f => seqb (f_name f) k) fs with Some f => f_type f | None => ty_zero end.

    Lemma pl_decode :
      decode_members (decode ctx) (zero ctx) fs ms = DSet (GStruct (map (fun f => (f_name f, FV f)) fs)).
    Proof.
      unfold decode_members.
      assert (Hmap : map (fun kv : string * json =>
                            match field_for_key fs (fst kv) with
                            | Some f => Some (f_name f, decode ctx (snd kv) (f_type f))
                            | None => None
                            end) ms
                     = map (fun kv => Some (fst kv, DSet (F (ftype_for (fst kv)) (snd kv)))) ms).
      { apply map_ext_in. intros [k x] Hin. simpl. destruct (pl_key k x Hin) as [f [Hf [Hn Ff]]].
        unfold field_for_key, ftype_for. rewrite Ff. subst k. rewrite (pl_dec f x Hf Hin). reflexivity. }
      rewrite Hmap. rewrite first_bad_all.
      - f_equal. f_equal. apply map_ext_in. intros f Hf. f_equal.
        rewrite (fold_last (f_name f) (fun kv => F (ftype_for (fst kv)) (snd kv)) ms pl_nd).
        unfold FV. destruct (afind (f_name f) ms); auto. simpl. unfold ftype_for.
        rewrite (find_nodup _ _ pl_nf Hf). reflexivity.
      - intros r Hr. rewrite map_map in Hr. apply in_map_iff in Hr. destruct Hr as [kv [<- _]]. eauto.
    Qed.

    Lemma pl_kept f x : In f fs -> afind (f_name f) ms = Some x -> x <> JNull ->
      (negb (f_required f) && is_empty_value (FV f))%bool = false.
    Proof.
      intros Hf A Hx. pose proof (afind_in _ _ _ A) as Hin.
      destruct (pl_val f x Hf Hin Hx) as [_ [[_ [_ G3]] [R2 _]]].
      destruct (f_required f) eqn:R; auto. simpl in *.
      destruct (is_empty_value (FV f)) eqn:E; auto. unfold FV in E. rewrite A in E.
      rewrite (G3 Hx (pl_opt _ Hf R) E) in R2. discriminate.
    Qed.

    Lemma pl_rel : rel (JObj ms) (JObj (efl FV fs)).
    Proof.
      constructor.
      - apply nodup_efl. apply pl_nf.
      - intros k x Hin. destruct (pl_key k x Hin) as [f [Hf [Hn _]]]. subst k.
        pose proof (in_afind _ _ _ pl_nd Hin) as A.
        assert (Dx : {x = JNull} + {x <> JNull}) by (destruct x; auto; right; discriminate).
        destruct Dx as [->|Hx].
        + pose proof (pl_fv_null f Hf A) as Z. destruct (f_required f) eqn:R.
          * left. exists JNull. split; [|constructor]. apply in_efl. exists f. rewrite R, Z. auto.
          * right. split; auto. intros Hk. apply in_map_iff in Hk. destruct Hk as [[k y] [Hk Hy]]. simpl in Hk. subst k.
            apply in_efl in Hy. destruct Hy as [g [Hg [Kg [Ng _]]]].
            assert (g = f).
            { pose proof (find_nodup _ _ pl_nf Hg) as X. rewrite <- Ng in X.
              rewrite (find_nodup _ _ pl_nf Hf) in X. congruence. }
            subst g. rewrite R, Z in Kg. discriminate.
        + left. exists (encode ctx (f_type f) (FV f)). split.
          * apply in_efl. exists f. split; auto. split; [eapply pl_kept; eauto|auto].
          * destruct (pl_val f x Hf Hin Hx) as [_ [[_ [G2 _]] _]]. unfold FV. rewrite A. exact G2.
      - intros k Hk. apply in_map_iff in Hk. destruct Hk as [[k' y] [Hk Hy]]. simpl in Hk. subst k'.
        apply in_efl in Hy. destruct Hy as [f [Hf [Kf [-> _]]]].
        destruct (afind (f_name f) ms) as [x|] eqn:A.
        + apply afind_in in A. apply (in_map fst) in A. exact A.
        + destruct (pl_fv_abs f Hf A) as [R Z]. rewrite R, Z in Kf. discriminate.
    Qed.

    Lemma pl_sok : sok_struct ctx fs (efl FV fs) = true.
    Proof.
      unfold sok_struct. apply andb_true_iff. split; [apply andb_true_iff; split|].
      - unfold members_nodup. apply str_nodup_NoDup. apply nodup_efl. apply pl_nf.
      - apply forallb_forall. intros [k y] Hy. apply in_efl in Hy. destruct Hy as [f [Hf [Kf [-> ->]]]].
        unfold sok_member. simpl. rewrite (find_nodup _ _ pl_nf Hf).
        destruct (afind (f_name f) ms) as [x|] eqn:A.
        + pose proof (afind_in _ _ _ A) as Hin.
          assert (Dx : {x = JNull} + {x <> JNull}) by (destruct x; auto; right; discriminate).
          destruct Dx as [->|Hx].
          * rewrite (pl_fv_null f Hf A). simpl. destruct (pl_null f Hf Hin) as [_ X]. rewrite X. reflexivity.
          * destruct (pl_val f x Hf Hin Hx) as [_ [[G1 [G2 _]] _]]. unfold FV. rewrite A.
            pose proof (rel_nonnull _ _ G2 Hx) as Ny.
            destruct (encode ctx (f_type f) (F (f_type f) x)); auto; congruence.
        + destruct (pl_fv_abs f Hf A) as [R Z]. rewrite R, Z in Kf. discriminate.
      - apply forallb_forall. intros f Hf. destruct (f_required f) eqn:R; auto. simpl.
        rewrite orb_true_iff. right. apply str_in_iff. apply in_map_iff.
        exists (f_name f, encode ctx (f_type f) (FV f)). split; auto. apply in_efl. exists f. rewrite R. auto.
    Qed.

    Lemma existsb_false {A} (p : A -> bool) l : (forall x, In x l -> p x = false) -> existsb p l = false.
    Proof. induction l; simpl; intros H; auto. rewrite H, IHl; auto. Qed.

    Lemma last_spec {A} (n : string) (rs : list (string * A)) : forall acc,
      let res := fold_left (fun acc r => if seqb (fst r) n then Some (snd r) else acc) rs acc in
      (res = acc /\ forall r, In r rs -> seqb (fst r) n = false) \/
      (exists r, In r rs /\ fst r = n /\ res = Some (snd r)).
    Proof.
      induction rs as [|r0 rs IH]; simpl; intros acc.
      - left. split; auto. intros r [].
      - destruct (IH (if seqb (fst r0) n then Some (snd r0) else acc)) as [[E N]|[r [Hr [Hn E]]]].
        + destruct (seqb (fst r0) n) eqn:S0.
          * right. exists r0. split; auto. split; auto. apply seqb_eq; auto.
          * left. split; auto. intros r [<-|Hr]; auto.
        + right. exists r. auto.
    Qed.

    Lemma pl_strict : exists v', strict_members (strict_val ctx RField) (zero ctx) fs ms = SOk v'.
    Proof.
      unfold strict_members.
      set (entry := fun kv : string * json =>
                      (fst kv,
                       match find (fun f => seqb (f_name f) (fst kv)) fs with
                       | Some f => Some match snd kv with
                                        | JNull => None
                                        | _ => Some (strict_val ctx RField (snd kv) (f_type f))
                                        end
                       | None => None
                       end)).
      rewrite existsb_false.
      2:{ intros r Hr. apply in_map_iff in Hr. destruct Hr as [[k x] [<- Hin]]. simpl.
          destruct (pl_key k x Hin) as [f [_ [_ Ff]]]. rewrite Ff. reflexivity. }
      match goal with |- context [seq_results ?pf [] false] => destruct (seq_all_ok pf) with (acc := @nil gval) (err := false) as [vals E] end.
      2:{ rewrite E. simpl. eauto. }
      intros r Hr. apply in_map_iff in Hr. destruct Hr as [f [<- Hf]].
      destruct (last_spec (f_name f) (map entry ms) None) as [[E N]|[r [Hr [Hn E]]]]; simpl in E; rewrite E.
      - assert (A : afind (f_name f) ms = None).
        { apply afind_none. intros Hk. apply in_map_iff in Hk. destruct Hk as [[k x] [Hk Hin]]. simpl in Hk. subst k.
          specialize (N (entry (f_name f, x)) (in_map entry _ _ Hin)). simpl in N. rewrite seqb_refl in N. discriminate. }
        destruct (pl_fv_abs f Hf A) as [R _]. rewrite R. simpl. eauto.
      - apply in_map_iff in Hr. destruct Hr as [[k x] [<- Hin]]. simpl in Hn. subst k. simpl.
        rewrite (find_nodup _ _ pl_nf Hf).
        assert (Dx : {x = JNull} + {x <> JNull}) by (destruct x; auto; right; discriminate).
        destruct Dx as [->|Hx].
        + destruct (pl_null f Hf Hin) as [_ X]. rewrite X. eauto.
        + destruct (pl_val f x Hf Hin Hx) as [_ [_ [_ [v' S]]]]. destruct x; try congruence; rewrite S; eauto.
    Qed.
  End Plain.
End Main.
