(* C04 over the language-chain pass models, continued.
   WHAT IS HERE
   - InlineObjectsWithTypes: iowt_exact / iowt_ok_or_fuel; RemoveIntersections: remove_intersections_no_panic;
   - EXACT success conditions (an equation between "the pass returns schemas" and a decidable predicate of the
     input): dwnto_exact / dwnto_panics_exactly, prefix_enum_values_exact, sanitize_exact (generic tools:
     visit_disj_exact, mapM_exact, visit_schema_exact);
   - DisjunctionInferMapping: dim_no_crash under dim_safe_schemas, and its three panics (dim_panics);
   - DisjunctionOfConstantsToEnum: docte_ok_or_fuel (never an error; a panic only through a non-scalar enum
     member; otherwise Ok or unbounded recursion), with docte_panics_or_diverges. *)
From Coq Require Import List String Bool Ascii Lia.
From Cog Require Import Model.IR Model.Names Model.Passes Model.PassesChain Model.Process Model.NF
     Proofs.TyInd Proofs.ChainLemmas Proofs.PassLemmas Proofs.ChainNFProofs Proofs.ChainTotalProofs Proofs.ChainPhpJavaProofs.
Import ListNotations.
Local Open Scope list_scope.

Lemma is_ok_bind_eq {A B} (r : res A) (k : A -> res B) :
  is_ok' (bind r k) = match r with Ok x => is_ok' (k x) | _ => false end.
Proof. destruct r; reflexivity. Qed.

(* ---------- InlineObjectsWithTypes succeeds exactly when its first phase (following the
   references of every object) does; it never panics nor returns an error ---------- *)
Theorem iowt_exact kinds ss : is_ok' (inline_objects_with_types kinds ss) = is_ok' (iowt_collect kinds ss).
Proof. unfold inline_objects_with_types. destruct (iowt_collect kinds ss); reflexivity. Qed.

Lemma resolve_origin_no_err : forall fuel ss og t, match resolve_origin fuel ss og t with Ok _ | OutOfFuel => True | _ => False end.
Proof.
  induction fuel as [|f IH]; intros ss og t; destruct t; simpl; try exact I.
  destruct (locate_idx ss pkg 0) as [[i s]|]; [|exact I]. destruct (objs_get (s_objects s) name); [apply IH|exact I].
Qed.
Theorem iowt_ok_or_fuel kinds ss :
  match inline_objects_with_types kinds ss with Ok _ | OutOfFuel => True | _ => False end.
Proof.
  unfold inline_objects_with_types.
  assert (match iowt_collect kinds ss with Ok _ | OutOfFuel => True | _ => False end) as H.
  { unfold iowt_collect.
    match goal with |- match ?g 0 ss [] with _ => _ end =>
      assert (forall l i acc, match g i l acc with Ok _ | OutOfFuel => True | _ => False end) as G; [|apply G] end.
    induction l as [|s r IH]; intros i acc; [exact I|]. cbn beta iota.
    match goal with |- match (do _ <- ?g (s_objects s) acc ; _) with _ => _ end =>
      assert (forall objs acc0, match g objs acc0 with Ok _ | OutOfFuel => True | _ => False end) as Hx end.
    { induction objs as [|[k o] r0 IHo]; intros acc0; [exact I|]. cbn beta iota.
      pose proof (resolve_origin_no_err (S (count_objects ss)) ss (i, k) (o_type o)) as Hr.
      destruct (resolve_origin (S (count_objects ss)) ss (i, k) (o_type o)) as [x| | |]; simpl; try contradiction; [|exact I].
      destruct (_ && _); apply IHo. }
    match goal with |- match (do _ <- ?g (s_objects s) acc ; _) with _ => _ end =>
      specialize (Hx (s_objects s) acc); destruct (g (s_objects s) acc) as [acc'| | |] end; simpl; try contradiction; [apply IH|exact I]. }
  destruct (iowt_collect kinds ss); simpl; try contradiction; exact I.
Qed.

Local Open Scope string_scope.
Example iowt_overflows_on_alias_cycle :
  inline_objects_with_types ["scalar"]
    [mkSchema "p" tm0 "" ty_zero [("A", mkObject "A" [] (TRef A0 "p" "A") "p" "A")]] = OutOfFuel.
Proof. vm_compute. reflexivity. Qed.
Local Close Scope string_scope.

(* ---------- RemoveIntersections: the only failure is the type assertion on a non-string
   `implements_variant` hint of an alias ---------- *)
Definition ri_hint_ok (o : object) : bool :=
  match o_type o with
  | TRef ra _ _ => match alist_find (hints ra) "implements_variant" with None | Some (DStr _) => true | _ => false end
  | _ => true
  end.
Definition ri_hints_ok (ss : schemas) : bool := forallb ri_hint_ok (objects_of ss).

Lemma ri_loop1_ok s : (forall o, In o (ri_origs s) -> ri_hint_ok o = true) ->
  forall keys objs st, (forall k o id, In (k, (o, id)) objs -> ri_good s o) -> is_ok' (ri_loop1 keys objs st) = true.
Proof.
  intros Hh. induction keys as [|k rest IH]; intros objs st Hg; [reflexivity|]. simpl.
  destruct (ri_get objs k) as [[o oid]|] eqn:Eg; [|apply IH; assumption].
  destruct (o_type o) as [a d|a v|a vs|a i v|a dh fs|ra pk n|a pk n v|a kk v cs|a bs|a v|a kk] eqn:Et; try (apply IH; assumption).
  destruct (ri_get objs n) as [[lo lid]|] eqn:El; [|apply IH; assumption].
  destruct (ri_get_in _ _ _ Eg) as [k1 Hino]. destruct (ri_get_in _ _ _ El) as [k2 Hinl].
  pose proof (Hg _ _ _ Hino) as Go. pose proof (Hg _ _ _ Hinl) as Gl.
  destruct (o_type lo) as [a d|a v|a vs|a i v|la ldh lfs|a pk0 n0|a pk0 n0 v|a kk v cs|a bs|a v|a kk] eqn:Elt; try (apply IH; assumption).
  assert (In o (ri_origs s)) as Horig.
  { destruct Go as [Hx|[o0 [a0 [dh0 [fs0 [_ [E0 _]]]]]]]; [assumption|]. subst o. simpl in Et. discriminate. }
  pose proof (Hh o Horig) as Hok. unfold ri_hint_ok in Hok. rewrite Et in Hok.
  destruct (alist_find (hints ra) "implements_variant") as [[]|]; try discriminate; simpl; apply IH;
    intros k3 o3 id3 Hin3; apply ri_set_in_inv in Hin3; (destruct Hin3 as [Hin3|Heq]; [eapply Hg; eassumption|]);
    inversion Heq; subst; right; exists o; eexists; eexists; eexists; (split; [assumption|split; [reflexivity|eapply ri_good_struct; eassumption]]).
Qed.

Theorem remove_intersections_no_panic ss : ri_hints_ok ss = true -> is_ok' (remove_intersections ss) = true.
Proof.
  intros H. rewrite remove_intersections_eq. apply is_ok_bind; [|reflexivity].
  assert (forall l st, (forall s, In s l -> In s ss) -> is_ok' (ri_go l st) = true) as G.
  { induction l as [|s r IH]; intros st Hl; [reflexivity|]. simpl. rewrite ri_schema_eq.
    assert (is_ok' (ri_loop1 (map fst (s_objects s)) (ri_number (s_objects s) 0) st) = true) as H1.
    { apply (ri_loop1_ok s); [|apply ri_number_good]. intros o Ho. unfold ri_hints_ok in H. rewrite forallb_forall in H. apply H.
      unfold ri_origs in Ho. apply in_map_iff in Ho. destruct Ho as [[k0 o0] [E Hin]]. simpl in E. subst o0.
      apply in_objects_of. exists s, k0. split; [apply Hl; left; reflexivity|assumption]. }
    destruct (ri_loop1 _ _ st) as [[objs1 st1]| | |]; try discriminate. simpl.
    apply is_ok_bind; [apply IH; intros s0 Hs0; apply Hl; right; assumption|reflexivity]. }
  apply G. auto.
Qed.

Local Open Scope string_scope.
Example remove_intersections_panics :
  remove_intersections
    [mkSchema "p" tm0 "" ty_zero
       [("S", mkObject "S" [] (TStruct A0 [] []) "p" "S");
        ("A", mkObject "A" [] (TRef {| nullable := false ; dflt := DNil ; hints := [("implements_variant", DInt "int64" 1%Z)] |} "p" "S") "p" "A")]]
  = Panic "interface conversion: interface {} is not string".
Proof. vm_compute. reflexivity. Qed.
Local Close Scope string_scope.

(* ---------- exact success conditions ---------- *)
Section Exact.
  Variable S : Type.
  Variable on_disj : S -> ty -> res (ty * S).
  Variable safe : ty -> bool.
  Hypothesis on_disj_exact : forall st a d, is_ok' (on_disj st (TDisj a d)) = safe (TDisj a d).

  Lemma visit_disj_exact : forall t st, is_ok' (visit_disj on_disj st t) = vis_all safe t.
  Proof.
    induction t as [a d IH|a v IH|a vs IH|a i v IHi IHv|a dh fs IHd IHf|a pk n|a pk n v|a k v cs|a bs IH|a v|a k]
      using ty_ind'; intros st; try reflexivity.
    - simpl. apply on_disj_exact.
    - simpl. rewrite is_ok_bind_eq. specialize (IH st). destruct (visit_disj on_disj st v); simpl in *; rewrite <- IH; reflexivity.
    - simpl. rewrite is_ok_bind_eq. specialize (IHi st). destruct (visit_disj on_disj st i) as [[i1 s1]| | |]; simpl in *; rewrite <- IHi; try reflexivity.
      rewrite is_ok_bind_eq. specialize (IHv s1). destruct (visit_disj on_disj s1 v); simpl in *; rewrite <- IHv; reflexivity.
    - rewrite visit_struct_eq, is_ok_bind_eq. simpl.
      assert (forall st0, is_ok' (vfields S on_disj fs st0) = forallb (fun f => vis_all safe (f_type f)) fs) as G.
      { induction fs as [|f r IHr]; intros st0; [reflexivity|]. inversion IHf as [|? ? Hf Hr]; subst. simpl.
        rewrite is_ok_bind_eq. specialize (Hf st0). destruct (visit_disj on_disj st0 (f_type f)) as [[t1 s1]| | |]; simpl in *; rewrite <- Hf; try reflexivity.
        rewrite is_ok_bind_eq. specialize (IHr Hr s1). destruct (vfields S on_disj r s1); simpl in *; rewrite <- IHr; reflexivity. }
      specialize (G st). destruct (vfields S on_disj fs st); simpl in *; rewrite <- G; reflexivity.
    - rewrite visit_inter_eq, is_ok_bind_eq. simpl.
      assert (forall st0, is_ok' (vlist S on_disj bs st0) = forallb (vis_all safe) bs) as G.
      { induction bs as [|b r IHr]; intros st0; [reflexivity|]. inversion IH as [|? ? Hb Hr]; subst. simpl.
        rewrite is_ok_bind_eq. specialize (Hb st0). destruct (visit_disj on_disj st0 b) as [[t1 s1]| | |]; simpl in *; rewrite <- Hb; try reflexivity.
        rewrite is_ok_bind_eq. specialize (IHr Hr s1). destruct (vlist S on_disj r s1); simpl in *; rewrite <- IHr; reflexivity. }
      specialize (G st). destruct (vlist S on_disj bs st); simpl in *; rewrite <- G; reflexivity.
  Qed.
End Exact.

Lemma forallb_ext_in {A} (f g : A -> bool) l : (forall x, In x l -> f x = g x) -> forallb f l = forallb g l.
Proof.
  induction l as [|x r IH]; intros H; [reflexivity|]. simpl. rewrite (H x (or_introl eq_refl)). f_equal.
  apply IH. intros y Hy. apply H. right; assumption.
Qed.

Lemma mapM_exact {A B} (f : A -> res B) l : is_ok' (mapM f l) = forallb (fun x => is_ok' (f x)) l.
Proof.
  induction l as [|x r IH]; [reflexivity|]. simpl. rewrite is_ok_bind_eq. destruct (f x); simpl; try reflexivity.
  rewrite is_ok_bind_eq. destruct (mapM f r); simpl in *; rewrite <- IH; reflexivity.
Qed.

Lemma visit_schema_exact (ft : ty -> res ty) s :
  is_ok' (visit_schema ft (fun o => do t <- ft (o_type o) ; Ok (set_otype o t)) s)
  = forallb (fun t => is_ok' (ft t)) (schema_types s).
Proof.
  rewrite visit_schema_eq, is_ok_bind_eq. unfold schema_types. simpl.
  destruct (ft (s_entrytype s)) as [et| | |]; simpl; try reflexivity. rewrite is_ok_bind_eq.
  assert (forall l acc, is_ok' (vs_loop (fun o => do t <- ft (o_type o) ; Ok (set_otype o t)) l acc)
                        = forallb (fun t => is_ok' (ft t)) (map (fun ko : string * object => o_type (snd ko)) l)) as G.
  { induction l as [|[k o] r IH]; intros acc; [reflexivity|]. simpl. rewrite is_ok_bind_eq.
    destruct (ft (o_type o)); simpl; try reflexivity. apply IH. }
  specialize (G (s_objects s) []). destruct (vs_loop _ (s_objects s) []); simpl in *; rewrite <- G; reflexivity.
Qed.

Theorem dwnto_exact ss : is_ok' (disjunction_with_null_to_optional ss) = no_null_null ss.
Proof.
  unfold disjunction_with_null_to_optional, visit_schemas_disj0, no_null_null.
  change (@is_ok' schemas) with (@is_ok' (list schema)). rewrite mapM_exact.
  apply forallb_ext_in. intros s _. rewrite visit_schema_exact. apply forallb_ext_in. intros t _.
  unfold visit_disj0. rewrite is_ok_bind_eq.
  assert (forall st a d, is_ok' ((fun (_ : unit) d0 => do d' <- dwnto_disj d0 ; Ok (d', tt)) st (TDisj a d)) = not_null_null (TDisj a d)) as Hd.
  { intros st a d. rewrite is_ok_bind_eq. unfold dwnto_disj, not_null_null.
    destruct (d_branches d) as [|x [|y [|z r]]]; try reflexivity. simpl.
    destruct (is_null x), (is_null y); reflexivity. }
  rewrite <- (visit_disj_exact unit _ not_null_null Hd t tt).
  destruct (visit_disj _ tt t); reflexivity.
Qed.

Theorem dwnto_panics_exactly ss : no_null_null ss = false ->
  exists why, disjunction_with_null_to_optional ss = Panic why.
Proof.
  intros H. rewrite <- dwnto_exact in H.
  set (Wp := fun (A : Type) (r : res A) => match r with Err _ | OutOfFuel => false | _ => true end).
  assert (Wp _ (disjunction_with_null_to_optional ss) = true) as Hne.
  { unfold disjunction_with_null_to_optional.
    apply (W_visit_schemas_disj0 Wp (fun _ _ => eq_refl)) with (safe := fun _ _ => true).
    - intros A B r k Hr Hk. destruct r; try discriminate; [apply Hk; reflexivity|reflexivity].
    - intros s a d _. unfold dwnto_disj. destruct (d_branches d) as [|x [|y [|z r]]]; try reflexivity.
      destruct (has_null_type [x; y]); [|reflexivity]. destruct (filter _ [x; y]); reflexivity.
    - intros s t _ _. clear. induction t as [a d IH|a v IH|a vs IH|a i v IHi IHv|a dh fs IHd IHf|a pk n|a pk n v|a k v cs|a bs IH|a v|a k]
        using ty_ind'; simpl; try reflexivity; try assumption.
      + rewrite IHi, IHv. reflexivity.
      + apply forallb_forall. rewrite Forall_forall in IHf. assumption.
      + apply forallb_forall. rewrite Forall_forall in IH. assumption. }
  unfold Wp in Hne.
  destruct (disjunction_with_null_to_optional ss); try discriminate. eexists. reflexivity.
Qed.

Theorem prefix_enum_values_exact ss : is_ok' (prefix_enum_values ss) = pev_safe_schemas ss.
Proof.
  unfold prefix_enum_values, pev_safe_schemas, objects_of.
  change (@is_ok' schemas) with (@is_ok' (list schema)). rewrite mapM_exact.
  induction ss as [|s r IH]; [reflexivity|]. simpl. rewrite forallb_app, <- IH. f_equal.
  rewrite map_objects_res_eq, is_ok_bind_eq.
  assert (forall l acc, is_ok' (mor_loop pev_object l acc) = forallb (fun o => forallb pev_safe (enum_members o)) (map snd l)) as G.
  { induction l as [|[k o] r0 IHl]; intros acc; [reflexivity|]. simpl. rewrite is_ok_bind_eq.
    assert (is_ok' (pev_object o) = forallb pev_safe (enum_members o)) as Eo.
    { unfold pev_object, enum_members. destruct (o_type o); try reflexivity. rewrite is_ok_bind_eq.
      match goal with |- match ?X with _ => _ end = _ => assert (is_ok' X = forallb pev_safe vs) as Em end.
      { rewrite mapM_exact. apply forallb_ext_in. intros v _. rewrite is_ok_bind_eq. rewrite <- pev_member_exact.
        destruct (pev_member_name v); reflexivity. }
      match goal with |- match ?X with _ => _ end = _ => destruct X end; simpl in *; rewrite <- Em; reflexivity. }
    destruct (pev_object o); simpl in *; rewrite <- Eo; try reflexivity. apply IHl. }
  specialize (G (s_objects s) []). destruct (mor_loop pev_object (s_objects s) []); simpl in *; rewrite <- G; reflexivity.
Qed.

(* =====================================================================================
   DisjunctionInferMapping: a sufficient condition for "returns schemas", and the inputs on which it panics
   ===================================================================================== *)
Definition dim_field_ok (f : field) : bool :=
  match f_type f with
  | TScalar _ _ v _ => match v with DNil | DStr _ => true | _ => false end
  | TConstRef _ _ _ v => is_dstr v
  | _ => true
  end.
(* a branch that does not resolve stops the pass quietly; one that resolves must be a struct whose constant
   fields hold strings *)
Definition dim_branch_ok (s : schema) (b : ty) : bool :=
  match resolve s b with
  | Ok None => true
  | Ok (Some (TStruct _ _ fs)) => forallb dim_field_ok fs
  | _ => false
  end.
Definition dim_safe (s : schema) (t : ty) : bool :=
  match t with
  | TDisj _ d =>
      negb (has_only_refs (d_branches d)) ||
      (negb (seqb (d_disc d) "") && negb (match d_mapping d with [] => true | _ => false end)) ||
      (negb (match d_branches d with [] => true | _ => false end) && forallb (dim_branch_ok s) (d_branches d))
  | _ => true
  end.
Definition dim_safe_schemas (ss : schemas) : bool :=
  forallb (fun s => forallb (vis_all (dim_safe s)) (schema_types s)) ss.

Lemma dim_branch_resolves s b : dim_branch_ok s b = true -> is_ok' (resolve s b) = true.
Proof. unfold dim_branch_ok. destruct (resolve s b); try discriminate. reflexivity. Qed.

Theorem dim_no_crash ss : dim_safe_schemas ss = true -> is_ok' (disjunction_infer_mapping ss) = true.
Proof.
  intros H. unfold disjunction_infer_mapping.
  apply (W_visit_schemas_disj0 Wok Wok_ok is_ok_bind _ dim_safe).
  2:{ intros s t Hs Ht. unfold dim_safe_schemas in H. rewrite forallb_forall in H. specialize (H s Hs).
      rewrite forallb_forall in H. apply H. exact Ht. }
  intros s a d Hs. unfold dim_disj. cbn zeta.
  destruct (negb (has_only_refs (d_branches d))) eqn:E1; [reflexivity|].
  destruct (negb (seqb (d_disc d) "") && negb (match d_mapping d with [] => true | _ => false end)) eqn:E2; [reflexivity|].
  simpl in Hs. rewrite E1, E2 in Hs. simpl in Hs. apply andb_true_iff in Hs. destruct Hs as [Hne Hall].
  apply negb_false_iff in E1. unfold has_only_refs in E1.
  apply is_ok_bind.
  - destruct (seqb (d_disc d) ""); [|reflexivity]. unfold dim_infer. apply is_ok_bind; [|intros l _; reflexivity].
    unfold dim_infer_candidates. apply is_ok_bind.
    + generalize (@nil (string * list string)) as acc. revert Hall. generalize (d_branches d) as l.
      induction l as [|b r IH]; intros Hall acc; [reflexivity|]. simpl in Hall. apply andb_true_iff in Hall. destruct Hall as [Hb Hr].
      apply is_ok_bind; [apply dim_branch_resolves; exact Hb|]. intros r1 _.
      destruct r1 as [[a1 d1|a1 v1|a1 vs1|a1 i1 v1|a1 dh1 fs1|a1 pk1 n1|a1 pk1 n1 v1|a1 k1 v1 cs1|a1 bs1|a1 v1|a1 k1]|]; try (apply IH; exact Hr).
      destruct b; apply IH; exact Hr.
    + intros cands _. destruct (d_branches d) as [|b0 r]; [discriminate|]. simpl in E1. apply andb_true_iff in E1. destruct E1 as [E0 _].
      destruct b0; try discriminate. destruct (alist_find cands name); reflexivity.
  - intros disc _. destruct (match d_mapping d with [] => true | _ => false end); [|reflexivity].
    apply is_ok_bind; [|intros [m|] _; reflexivity]. unfold dim_build. destruct (seqb disc ""); [reflexivity|].
    generalize (@nil (string * string)) as acc. revert Hall E1. generalize (d_branches d) as l.
    induction l as [|b r IH]; intros Hall E1 acc; [reflexivity|]. simpl in Hall, E1.
    apply andb_true_iff in Hall. destruct Hall as [Hb Hr]. apply andb_true_iff in E1. destruct E1 as [Eb Er].
    unfold dim_branch_ok in Hb. destruct (resolve s b) as [[r1|]| | |]; try discriminate; simpl; [|reflexivity].
    destruct r1 as [a1 d1|a1 v1|a1 vs1|a1 i1 v1|a1 dh1 fs1|a1 pk1 n1|a1 pk1 n1 v1|a1 k1 v1 cs1|a1 bs1|a1 v1|a1 k1]; try discriminate.
    destruct b; try discriminate.
    destruct (find (fun f => seqb (f_name f) disc) fs1) as [f|] eqn:Ef; [|reflexivity].
    apply find_some in Ef. destruct Ef as [Hin _]. rewrite forallb_forall in Hb. specialize (Hb f Hin). unfold dim_field_ok in Hb.
    destruct (f_type f) as [a2 d2|a2 v2|a2 vs2|a2 i2 v2|a2 dh2 fs2|a2 pk2 n2|a2 pk2 n2 v2|a2 k2 v2 cs2|a2 bs2|a2 v2|a2 k2]; try reflexivity.
    + destruct v2; try discriminate. apply IH; assumption.
    + destruct v2; try discriminate; [reflexivity|apply IH; assumption].
Qed.

(* the three ways it panics, each excluded by [dim_safe_schemas] *)
Local Open Scope string_scope.
Definition w_dim_empty : schemas :=
  [mkSchema "p" tm0 "" ty_zero [("U", mkObject "U" [] (TDisj A0 (mkDisj [] "" [])) "p" "U")]].
Definition w_dim_scalar_branch : schemas :=
  [mkSchema "p" tm0 "" ty_zero
    [("A", mkObject "A" [] (TScalar A0 KString DNil []) "p" "A");
     ("U", mkObject "U" [] (TDisj A0 (mkDisj [TRef A0 "p" "A"] "kind" [])) "p" "U")]].
Definition w_dim_bool_constant : schemas :=
  [mkSchema "p" tm0 "" ty_zero
    [("A", mkObject "A" [] (TStruct A0 [] [mkField "kind" [] (TScalar A0 KBool (DBool true) []) true]) "p" "A");
     ("U", mkObject "U" [] (TDisj A0 (mkDisj [TRef A0 "p" "A"] "kind" [])) "p" "U")]].
Example dim_panics :
  (dim_safe_schemas w_dim_empty = false /\
   disjunction_infer_mapping w_dim_empty = Panic "index out of range [0] with length 0") /\
  (dim_safe_schemas w_dim_scalar_branch = false /\
   disjunction_infer_mapping w_dim_scalar_branch = Panic "invalid memory address or nil pointer dereference") /\
  (dim_safe_schemas w_dim_bool_constant = false /\
   disjunction_infer_mapping w_dim_bool_constant = Panic "interface conversion: interface {} is not string").
Proof. repeat split; vm_compute; reflexivity. Qed.
Local Close Scope string_scope.

(* =====================================================================================
   DisjunctionOfConstantsToEnum: never an error; a panic only through an enum member whose type is not a scalar;
   otherwise it returns schemas or recurses forever (reference cycles, mutually recursive disjunctions)
   ===================================================================================== *)
Definition ok_or_fuel' {A} (r : res A) : bool := match r with Ok _ | OutOfFuel => true | _ => false end.
Definition Wof : forall A, res A -> bool := @ok_or_fuel'.
Lemma Wof_ok A (x : A) : Wof A (Ok x) = true. Proof. reflexivity. Qed.
Lemma ok_or_fuel_bind : forall A B (r : res A) (k : A -> res B),
  Wof A r = true -> (forall x, r = Ok x -> Wof B (k x) = true) -> Wof B (bind r k) = true.
Proof. intros A B r k Hr Hk. destruct r; try discriminate; [apply Hk; reflexivity|reflexivity]. Qed.

Definition p_badenum (_ : bool) (t : ty) : bool :=
  match t with TEnum _ vs => negb (forallb (fun v => is_scalar (ev_type v)) vs) | _ => false end.
Definition enums_scalar_ty (t : ty) : bool := negb (any_sub p_badenum false t).
Definition enums_scalar (ss : schemas) : bool := forallb (fun s => forallb enums_scalar_ty (schema_types s)) ss.

Lemma badenum_irrel t i j : any_sub p_badenum i t = any_sub p_badenum j t.
Proof. apply any_sub_inter_irrel. reflexivity. Qed.

Lemma objs_get_In : forall l k o, objs_get l k = Some o -> exists k', In (k', o) l.
Proof.
  induction l as [|[k' o'] r IH]; simpl; intros k o H; [discriminate|].
  destruct (seqb k' k); [inversion H; subst; exists k'; left; reflexivity|].
  destruct (IH _ _ H) as [k2 Hin]. exists k2. right. exact Hin.
Qed.

Section Docte.
  Variable ss : schemas.
  Hypothesis Hobjs : forall o, In o (objects_of ss) -> enums_scalar_ty (o_type o) = true.

  Lemma rtt_W fuel : forall t, Wof _ (resolve_to_type_in fuel ss t) = true.
  Proof.
    induction fuel as [|f IH]; intros t; destruct t; try reflexivity. simpl.
    destruct (locate_object ss pkg name); [apply IH|reflexivity].
  Qed.
  Lemma rtt_clean fuel : forall t r, enums_scalar_ty t = true -> resolve_to_type_in fuel ss t = Ok r -> enums_scalar_ty r = true.
  Proof.
    induction fuel as [|f IH]; intros t r Ht H; destruct t; simpl in H; try (inversion H; subst; exact Ht); try discriminate.
    destruct (locate_object ss pkg name) as [o|] eqn:El; [|inversion H; subst; exact Ht].
    assert (In o (objects_of ss)) as Ho.
    { unfold locate_object in El. destruct (locate ss pkg) as [s|] eqn:Es; [|discriminate].
      unfold locate in Es. apply find_some in Es. destruct Es as [Hs _]. destruct (objs_get_In _ _ _ El) as [k Hin].
      apply in_objects_of. exists s, k. split; assumption. }
    apply (IH _ _ (Hobjs o Ho) H).
  Qed.

  Lemma docte_resolves_W : forall fuel t st, enums_scalar_ty t = true -> Wof _ (docte_resolves fuel ss t st) = true.
  Proof.
    induction fuel as [|f IH]; intros t st Ht; [reflexivity|]. cbn [docte_resolves].
    apply ok_or_fuel_bind; [apply rtt_W|]. intros r Hr. pose proof (rtt_clean _ _ _ Ht Hr) as Pr.
    destruct r as [a d|a v|a vs|a i v|a dh fs|a pk n|a pk n v|a k v cs|a bs|a v|a k]; try reflexivity.
    - (* a disjunction: its branches *)
      assert (forall b, In b (d_branches d) -> enums_scalar_ty b = true) as Hb.
      { intros b Hin. unfold enums_scalar_ty in *. apply negb_true_iff in Pr. apply negb_true_iff. simpl in Pr.
        apply (proj1 (existsb_false_iff _ _) Pr b Hin). }
      revert st Hb. generalize (d_branches d) as l. induction l as [|b r IHl]; intros st Hb; [reflexivity|].
      apply ok_or_fuel_bind; [apply IH; apply Hb; left; reflexivity|]. intros x _.
      destruct (fst x); [apply IHl; intros b1 H1; apply Hb; right; exact H1|reflexivity].
    - (* an enum: its members *)
      assert (forallb (fun v => is_scalar (ev_type v)) vs = true) as Hm.
      { unfold enums_scalar_ty in Pr. apply negb_true_iff in Pr. simpl in Pr. rewrite orb_false_r in Pr. apply negb_false_iff in Pr. exact Pr. }
      clear Hr Pr. revert st Hm. induction vs as [|m r IHl]; intros st Hm; [reflexivity|]. simpl in Hm. apply andb_true_iff in Hm. destruct Hm as [H1 H2].
      unfold member_kind at 1. destruct (ev_type m) as [a1 d1|a1 v1|a1 vs1|a1 i1 v1|a1 dh1 fs1|a1 pk1 n1|a1 pk1 n1 v1|a1 k1 v1 cs1|a1 bs1|a1 v1|a1 k1]; try discriminate. cbn [bind].
      destruct (docte_valid k1 (fst st)) as [ok cand]. destruct ok; [apply IHl; exact H2|reflexivity].
    - (* a scalar *)
      destruct (dyn_is_nil v); [reflexivity|]. destruct (docte_valid k (fst st)) as [ok cand]. destruct ok; reflexivity.
  Qed.
End Docte.

Lemma vis_all_enums_scalar : forall t i, any_sub p_badenum i t = false -> vis_all enums_scalar_ty t = true.
Proof.
  induction t as [a d IH|a v IH|a vs IH|a i v IHi IHv|a dh fs IHd IHf|a pk n|a pk n v|a k v cs|a bs IH|a v|a k]
    using ty_ind'; intros x H; try reflexivity.
  - simpl. unfold enums_scalar_ty. rewrite (badenum_irrel _ false x), H. reflexivity.
  - simpl in *. eapply IH; exact H.
  - simpl in *. apply orb_false_iff in H. destruct H as [H1 H2]. rewrite (IHi _ H1), (IHv _ H2). reflexivity.
  - simpl in *. apply forallb_forall. intros f Hf. rewrite Forall_forall in IHf. eapply IHf; [exact Hf|].
    apply (proj1 (existsb_false_iff _ _) H f Hf).
  - simpl in *. apply forallb_forall. intros b Hb. rewrite Forall_forall in IH. eapply IH; [exact Hb|].
    apply (proj1 (existsb_false_iff _ _) H b Hb).
Qed.

Theorem docte_ok_or_fuel ss : enums_scalar ss = true -> ok_or_fuel' (disjunction_of_constants_to_enum ss) = true.
Proof.
  intros H. unfold disjunction_of_constants_to_enum. unfold enums_scalar in H. rewrite forallb_forall in H.
  assert (forall o, In o (objects_of ss) -> enums_scalar_ty (o_type o) = true) as Hobjs.
  { intros o Ho. apply in_objects_of in Ho. destruct Ho as [s [k [Hs Hko]]]. specialize (H s Hs). rewrite forallb_forall in H.
    apply H. right. apply in_map_iff. exists (k, o). split; [reflexivity|assumption]. }
  apply (W_visit_schemas_disj0 Wof Wof_ok ok_or_fuel_bind _ (fun _ => enums_scalar_ty)).
  - intros s a d Hs. unfold docte_disj. destruct (d_branches d) as [|b0 [|b1 r]] eqn:Eb; try reflexivity.
    apply ok_or_fuel_bind; [apply docte_resolves_W; assumption|]. intros x _. destruct (fst x); reflexivity.
  - intros s t Hs Ht. specialize (H s Hs). rewrite forallb_forall in H. specialize (H t Ht).
    unfold enums_scalar_ty in H. apply negb_true_iff in H. eapply vis_all_enums_scalar. exact H.
Qed.

Local Open Scope string_scope.
Definition w_docte_member : schemas :=
  [mkSchema "p" tm0 "" ty_zero
    [("E", mkObject "E" [] (TEnum A0 [mkEnumVal (TArray A0 (TScalar A0 KString DNil [])) "a" (DStr "a")]) "p" "E");
     ("U", mkObject "U" [] (TDisj A0 (mkDisj [TRef A0 "p" "E"; TScalar A0 KString (DStr "b") []] "" [])) "p" "U")]].
Definition w_docte_recursive : schemas :=
  [mkSchema "p" tm0 "" ty_zero
    [("U", mkObject "U" [] (TDisj A0 (mkDisj [TScalar A0 KString (DStr "b") []; TRef A0 "p" "U"] "" [])) "p" "U")]].
Example docte_panics_or_diverges :
  (enums_scalar w_docte_member = false /\
   disjunction_of_constants_to_enum w_docte_member = Panic "invalid memory address or nil pointer dereference") /\
  (enums_scalar w_docte_recursive = true /\ disjunction_of_constants_to_enum w_docte_recursive = OutOfFuel).
Proof. repeat split; vm_compute; reflexivity. Qed.
Local Close Scope string_scope.

(* =====================================================================================
   SanitizeEnumMemberNames: the EXACT success condition
   ===================================================================================== *)
Lemma senm_ty_exact : forall t inter, is_ok' (senm_ty t) = negb (any_sub p_senm_unsafe inter t).
Proof.
  assert (forall l inter, Forall (fun b => forall inter, is_ok' (senm_ty b) = negb (any_sub p_senm_unsafe inter b)) l ->
            is_ok' (senm_list l) = negb (existsb (any_sub p_senm_unsafe inter) l)) as GL.
  { induction l as [|b r IHr]; intros inter HF; [reflexivity|]. inversion HF as [|? ? Hb Hr]; subst. simpl.
    rewrite is_ok_bind_eq, negb_orb, <- (Hb inter), <- (IHr inter Hr). destruct (senm_ty b) as [b'| | |]; simpl; try reflexivity.
    rewrite is_ok_bind_eq. destruct (senm_list r); reflexivity. }
  induction t as [a d IH|a v IH|a vs IH|a i v IHi IHv|a dh fs IHd IHf|a pk n|a pk n v|a k v cs|a bs IH|a v|a k]
    using ty_ind'; intros inter; try reflexivity.
  - rewrite senm_disj_eq, is_ok_bind_eq. simpl. specialize (GL _ inter IH). destruct (senm_list (d_branches d)); simpl in *; rewrite <- GL; reflexivity.
  - simpl. rewrite is_ok_bind_eq. specialize (IH inter). destruct (senm_ty v); simpl in *; rewrite <- IH; reflexivity.
  - simpl. rewrite is_ok_bind_eq, orb_false_r, negb_involutive.
    assert (is_ok' (mapM senm_member vs) = forallb senm_safe vs) as E.
    { rewrite mapM_exact. apply forallb_ext_in. intros m _. apply senm_member_exact. }
    destruct (mapM senm_member vs); simpl in *; rewrite <- E; reflexivity.
  - simpl. rewrite is_ok_bind_eq, negb_orb, <- (IHi inter), <- (IHv inter).
    destruct (senm_ty i) as [i'| | |]; simpl; try reflexivity. rewrite is_ok_bind_eq. destruct (senm_ty v); reflexivity.
  - rewrite senm_struct_eq, is_ok_bind_eq. simpl.
    assert (is_ok' (senm_fields fs) = negb (existsb (fun f => any_sub p_senm_unsafe inter (f_type f)) fs)) as E.
    { clear IHd. induction IHf as [|f r Hf _ IHr]; [reflexivity|]. simpl.
      rewrite is_ok_bind_eq, negb_orb, <- (Hf inter), <- IHr. destruct (senm_ty (f_type f)) as [t'| | |]; simpl; try reflexivity.
      rewrite is_ok_bind_eq. destruct (senm_fields r); reflexivity. }
    destruct (senm_fields fs); simpl in *; rewrite <- E; reflexivity.
  - rewrite senm_inter_eq, is_ok_bind_eq. simpl. specialize (GL _ true IH). destruct (senm_list bs); simpl in *; rewrite <- GL; reflexivity.
Qed.

Theorem sanitize_exact ss : is_ok' (sanitize_enum_member_names ss) = senm_safe_schemas ss.
Proof.
  unfold sanitize_enum_member_names, senm_safe_schemas.
  change (@is_ok' schemas) with (@is_ok' (list schema)). rewrite mapM_exact. apply forallb_ext_in. intros s _.
  rewrite visit_schema_exact. apply forallb_ext_in. intros t _. apply senm_ty_exact.
Qed.
