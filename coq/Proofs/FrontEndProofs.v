(* C01 front-end theorems over Model/FrontEnd.v / Model/FrontEndSpec.v: headline lemmas.
   Proofs/FrontEndWitness.v : parse_jsonschema_keeps_constraints_refuted, parse_preserves_acceptance_refuted, frontend_nonvacuous
   Proofs/FrontEndFields.v  : parse_jsonschema_keeps_constraints_partial_refuted (one-branch union with a constrained branch),
                              parse_jsonschema_keeps_constraints_partial_weak (extra hypothesis field_union_plain f = true)
   Proofs/FrontEndAccept.v  : parse_preserves_acceptance_partial_strong (the required statement, no extra hypothesis);
                              parse_preserves_acceptance_partial_weak (first form, with schema_bounds_small s = true and
                              schema_aliases_resolve s = true: now a corollary)
   Proofs/FrontEndLemmas.v  : Module FEDec: decimal print/parse round trip (dec_roundtrip, dec_roundtrip_nonpos, parse_z_string,
                              parse_dec_string_neg), dec_compare_shift, num_norm_value *)
From Cog Require Import Model.IR Model.Json Model.Src Model.FrontEnd Model.FrontEndSpec.
From Cog Require Export Proofs.FrontEndLemmas Proofs.FrontEndWitness Proofs.FrontEndFields Proofs.FrontEndAccept.

(* the extra hypotheses of the weak theorems hold on the non-vacuity witness, and the theorem's conclusion is computed there *)
Example frontend_weak_nonvacuous :
  schema_bounds_small sNV = true /\ schema_aliases_resolve sNV = true /\
  forallb (fun d => match snd d with SStruct fs => forallb field_union_plain fs | _ => true end) (src_defs sNV) = true /\
  acceptance_agrees sNV "Root"%string dNV = true.
Proof. vm_compute. repeat split; reflexivity. Qed.

Print Assumptions parse_jsonschema_keeps_constraints_refuted.
Print Assumptions parse_preserves_acceptance_refuted.
Print Assumptions frontend_nonvacuous.
Print Assumptions parse_jsonschema_keeps_constraints_partial_refuted.
Print Assumptions parse_jsonschema_keeps_constraints_partial_weak.
Print Assumptions parse_preserves_acceptance_partial_weak.
Print Assumptions parse_preserves_acceptance_partial_strong.
Print Assumptions frontend_weak_nonvacuous.
Check parse_preserves_acceptance_partial_strong.
