(* C11: Go and Python print the same JSON -- UNCONDITIONAL on the decidable fragment wire_safeF
   (Model/PySemSpec.v).  Both round-trip results are related to the document by the structural relation
   `rel` of Proofs/GoSemC01Json.v (Go: the induction of Proofs/GoSemC01Sem2.v over Model/GoSemDecode.v's
   decode / encode; Python: py_roundtrip_wf); on a document without null members `rel d e` forces
   canon e = canon d, hence json_eq. *)
From Coq Require Import List String ZArith Bool Ascii Lia.
From Cog Require Import Model.GoSem Model.GoSemSpec08 Model.GoSemSpec01 Model.GoSemSpec01F Model.Ctor Model.PySem
  Model.PySemChecks Model.PySemSpec.
From Cog Require Proofs.GoSemC01Json Proofs.GoSemC01Sem Proofs.GoSemC01Sem2 Proofs.PySemProofs.
Import ListNotations.
Local Open Scope list_scope.
Local Open Scope string_scope.

Module J := GoSemC01Json.
Module PP := PySemProofs.

(* ---------- le_null_u gives rel ---------- *)
Lemma le_members_elim : forall le x y k a, PP.le_members le x y = true -> In (k, a) x ->
  match find_member k y with Some b => le a b = true | None => is_jnull a = true end.
Proof.
  induction x as [|[k0 a0] r IH]; simpl; intros y k a H Hin; [contradiction|].
  apply andb_true_iff in H. destruct H as [H1 H2]. destruct Hin as [E|Hin].
  - inversion E; subst. destruct (find_member k y); exact H1.
  - apply IH; assumption.
Qed.

Lemma num_eqb_norm : forall m e m' e', num_eqb m e m' e' = true -> num_norm m e = num_norm m' e'.
Proof.
  intros m e m' e' H. unfold num_eqb in H. destruct (num_norm m e) as [a b]. destruct (num_norm m' e') as [c d].
  apply andb_true_iff in H. destruct H as [H1 H2]. apply Z.eqb_eq in H1. apply Z.eqb_eq in H2. subst. reflexivity.
Qed.

Lemma le_null_u_rel : forall d e, json_wf e = true -> le_null_u d e = true -> J.rel d e.
Proof.
  induction d using PP.json_ind'; intros e0 W L.
  - destruct e0; simpl in L; try discriminate. constructor.
  - destruct e0; simpl in L; try discriminate. apply Bool.eqb_prop in L. subst. constructor.
  - destruct e0; simpl in L; try discriminate. constructor. apply num_eqb_norm. exact L.
  - destruct e0; simpl in L; try discriminate. apply String.eqb_eq in L. subst. constructor.
  - destruct e0 as [| | | |l0|]; try (simpl in L; destruct l; discriminate).
    rewrite PP.le_null_u_arr in L. constructor. simpl in W.
    revert l0 W L. induction H as [|x r Hx Hr IH]; intros l0 W L; destruct l0 as [|y s]; simpl in L; try discriminate; constructor.
    + simpl in W. apply andb_true_iff in W. apply andb_true_iff in L. apply Hx; tauto.
    + simpl in W. apply andb_true_iff in W. apply andb_true_iff in L. apply IH; tauto.
  - destruct e0 as [| | | | |ms0]; try (simpl in L; destruct ms as [|[? ?] ?]; discriminate).
    rewrite PP.le_null_u_obj in L. apply andb_true_iff in L. destruct L as [L1 L2].
    destruct (PP.json_wf_obj ms0 W) as [Nd Wv]. constructor.
    + exact Nd.
    + intros k x Hin. pose proof (le_members_elim _ _ _ _ _ L1 Hin) as M.
      destruct (find_member k ms0) as [b|] eqn:FM.
      * left. exists b. apply PP.find_member_In in FM. split; [exact FM|].
        rewrite Forall_forall in H. apply (H (k, x) Hin b (Wv k b FM) M).
      * right. split; [destruct x; simpl in M; try discriminate; reflexivity|]. apply PP.find_member_None. exact FM.
    + intros k Hk. apply in_map_iff in Hk. destruct Hk as [[k' v'] [E Hin]]. simpl in E. subst k'.
      rewrite forallb_forall in L2. specialize (L2 (k, v') Hin). simpl in L2. apply PP.str_in_In. exact L2.
Qed.

(* ---------- sorted association lists are determined by their lookups ---------- *)
Lemma sorted_ext : forall {V} (l1 l2 : list (string * V)), J.sorted l1 -> J.sorted l2 ->
  (forall k, J.afind k l1 = J.afind k l2) -> l1 = l2.
Proof.
  intros V. induction l1 as [|[k1 v1] r1 IH]; intros l2 S1 S2 E.
  - destruct l2 as [|[k2 v2] r2]; [reflexivity|]. specialize (E k2). simpl in E. rewrite String.eqb_refl in E. discriminate.
  - destruct l2 as [|[k2 v2] r2].
    + specialize (E k1). simpl in E. rewrite String.eqb_refl in E. discriminate.
    + simpl in S1, S2. destruct S1 as [A1 S1]. destruct S2 as [A2 S2].
      assert (N1 : ~ In k1 (map fst r1)).
      { intro H. specialize (A1 _ H). rewrite J.scmp_refl in A1. discriminate. }
      assert (N2 : ~ In k2 (map fst r2)).
      { intro H. specialize (A2 _ H). rewrite J.scmp_refl in A2. discriminate. }
      assert (K : k1 = k2).
      { destruct (String.eqb k2 k1) eqn:Q; [apply String.eqb_eq in Q; auto|].
        pose proof (E k1) as E1. simpl in E1. rewrite String.eqb_refl, Q in E1.
        symmetry in E1. apply J.afind_in in E1. apply (in_map fst) in E1. simpl in E1. specialize (A2 _ E1).
        pose proof (E k2) as E2. simpl in E2. rewrite String.eqb_refl in E2.
        rewrite String.eqb_sym in Q. rewrite Q in E2.
        apply J.afind_in in E2. apply (in_map fst) in E2. simpl in E2. specialize (A1 _ E2).
        pose proof (J.scmp_lt_trans _ _ _ A1 A2) as T. rewrite J.scmp_refl in T. discriminate. }
      subst k2.
      assert (Vv : v1 = v2).
      { specialize (E k1). simpl in E. rewrite String.eqb_refl in E. inversion E. reflexivity. }
      subst v2. f_equal. apply IH; try assumption.
      intro k. specialize (E k). simpl in E. destruct (String.eqb k1 k) eqn:Q; [|exact E].
      apply String.eqb_eq in Q. subst k.
      apply J.afind_none in N1. apply J.afind_none in N2. rewrite N1, N2. reflexivity.
Qed.

(* ---------- without null members, rel forces equal canonical forms ---------- *)
Lemma rel_canon_eq : forall d e, json_wf d = true -> no_null_members d = true -> J.rel d e -> canon e = canon d.
Proof.
  induction d using PP.json_ind'; intros e0 W NN R;
    inversion R as [ | | m1 e1 m2 e2 Hn | | l1 l2 HF2 | ms1 ms2 Hnd Hmem Hkeys]; subst; try reflexivity.
  - simpl. rewrite Hn. reflexivity.
  - simpl. f_equal. simpl in W, NN. clear R.
    revert H W NN. induction HF2 as [|x y r s Hxy Hrs IH]; intros HF W NN; [reflexivity|].
    inversion HF as [|? ? Hx Hr]; subst. simpl in W, NN. apply andb_true_iff in W. apply andb_true_iff in NN.
    simpl. rewrite (Hx y) by tauto. f_equal. apply IH; tauto.
  - destruct (PP.json_wf_obj ms W) as [Nd Wv]. rewrite !J.canon_obj. f_equal.
    simpl in NN. rewrite forallb_forall in NN.
    apply sorted_ext; try (apply J.build_sorted; exact I).
    intro k. rewrite !J.build_afind by assumption. simpl.
    destruct (J.afind k ms) as [x|] eqn:FX.
    + apply J.afind_in in FX. specialize (NN (k, x) FX). simpl in NN. apply andb_true_iff in NN. destruct NN as [NN1 NN2].
      destruct (Hmem k x FX) as [[y [Hy Rxy]]|[Hx _]]; [|subst x; discriminate].
      rewrite (J.in_afind _ _ _ Hnd Hy). f_equal.
      rewrite Forall_forall in H. apply (H (k, x) FX y (Wv k x FX) NN2 Rxy).
    + apply J.afind_none in FX.
      destruct (J.afind k ms2) as [y|] eqn:FY; [|reflexivity].
      apply J.afind_in in FY. exfalso. apply FX. apply Hkeys. apply (in_map fst) in FY. exact FY.
Qed.

(* ---------- Go: the round trip is related to the document ---------- *)
Lemma go_roundtrip_rel : forall ctx p n d,
  ctx_supported ctx = true -> json_wf d = true -> ir_valid_object ctx p n d = true -> roundtrip_safeF ctx p n d = true ->
  exists e, std_roundtrip ctx p n d = GOk e /\ J.rel d e.
Proof.
  intros ctx p n d Hc W Hv Hr. unfold ir_valid_object, strict_ok_object in Hv.
  assert (Hd : d <> JNull) by (destruct d; [discriminate|congruence..]).
  assert (Hok : strict_ok ctx d (TRef attrs0 p n) = true) by (destruct d; auto; congruence).
  assert (Hs : ty_supported ctx (TRef attrs0 p n) = true).
  { rewrite GoSemC01Unfold.strict_ok_unfold in Hok by assumption.
    change (match payload_type ctx (TRef attrs0 p n) with GoSemDecode.PTy _ => true | GoSemDecode.PUnm _ => false end = true).
    destruct (payload_type ctx (TRef attrs0 p n)); [reflexivity|discriminate]. }
  destruct (GoSemC01Sem2.P_all ctx Hc d RField (TRef attrs0 p n) Hs Hok Hr W) as [v [D [[G1 [G2 _]] _]]]; [congruence|].
  exists (encode ctx (TRef attrs0 p n) v). split; [|exact G2].
  unfold std_roundtrip, decode_object, encode_object. rewrite D. reflexivity.
Qed.

(* ---------- C11: the two SDKs print JSON-equal documents ---------- *)
Theorem py_go_same_wire_safe : forall ctx pctx p gn pn d,
  ctx_supported ctx = true -> json_wf d = true -> wire_safeF ctx pctx p gn pn d = true ->
  same_wire_holds ctx pctx p gn pn d = true.
Proof.
  intros ctx pctx p gn pn d Hc W S. unfold wire_safeF in S.
  apply andb_true_iff in S. destruct S as [S NN]. apply andb_true_iff in S. destruct S as [S GF].
  apply andb_true_iff in S. destruct S as [S GV]. apply andb_true_iff in S. destruct S as [PV PS].
  destruct (go_roundtrip_rel ctx p gn d Hc W GV GF) as [a [RA Ra]].
  pose proof (PP.py_roundtrip_partial pctx p pn d W PV PS) as PH. unfold py_roundtrip_holds in PH.
  destruct (py_roundtrip pctx p pn d) as [b| | |] eqn:RB; try discriminate.
  destruct (PP.py_roundtrip_wf pctx p pn d b W PV PS RB) as [Lb Wb].
  pose proof (le_null_u_rel d b Wb Lb) as Rb.
  unfold same_wire_holds. rewrite RA, RB. unfold json_eq.
  rewrite (rel_canon_eq d a W NN Ra), (rel_canon_eq d b W NN Rb). apply PP.json_eqb_refl.
Qed.

(* non-vacuity: nested struct, array, and a document of depth 2 in the fragment *)
Example py_go_same_wire_safe_nonvacuous :
  ctx_supported PP.wit_gctx = true /\
  wire_safeF PP.wit_gctx PP.wit_ctx "w" "Root" "Root"
    (JObj [("id", JStr "a"); ("opt", JObj [("x", JNum 1 0)]); ("tags", JArr [JStr "t"])]) = true.
Proof. split; vm_compute; reflexivity. Qed.

(* the null-member restriction is a limit of the PROOF, not a known disagreement: with an optional null member both
   SDKs omit it, with a required nullable one both print null (model outputs, by computation) *)
Example wire_with_null_members :
  same_wire_holds PP.wit_gctx PP.wit_ctx "w" "Root" "Root" (JObj [("id", JStr "a"); ("tags", JNull)]) = true.
Proof. vm_compute. reflexivity. Qed.
