(* C01 front-end: concrete witnesses (vm_compute). *)
From Coq Require Import List String ZArith Bool Ascii Arith Lia.
From Cog Require Import Model.IR Model.Json Model.GoSemBase Model.GoSemValidate Model.Src Model.FrontEnd Model.FrontEndSpec.
Import ListNotations.
Local Open Scope list_scope.
Local Open Scope string_scope.

Definition sW : src_schema :=
  mkSrc "p" "Root" [("Root", SStruct [mkSField "n" (SInt "int64" (Some 1%Z) None None None) true true true])].
Definition fW : sfield := mkSField "n" (SInt "int64" (Some 1%Z) None None None) true true true.
Definition dW : json := JObj [("n", JNum 0 0)].

Lemma parse_jsonschema_keeps_constraints_refuted :
  ~ (forall s obj fs f, src_wf s = true -> In (obj, SStruct fs) (src_defs s) -> In f fs -> field_kept s obj f = true).
Proof.
  intro H.
  assert (E : field_kept sW "Root" fW = true).
  { apply (H sW "Root" [fW] fW).
    - vm_compute. reflexivity.
    - simpl. left. reflexivity.
    - simpl. left. reflexivity. }
  vm_compute in E. discriminate E.
Qed.

Lemma parse_preserves_acceptance_refuted :
  ~ (forall s tname d, src_wf s = true -> json_wf d = true -> json_ints_int64 d = true ->
       str_in tname (map fst (src_defs s)) = true -> acceptance_agrees s tname d = true).
Proof.
  intro H.
  assert (E : acceptance_agrees sW "Root" dW = true).
  { apply H; vm_compute; reflexivity. }
  vm_compute in E. discriminate E.
Qed.

Example witness_src_rejects : src_valid_doc "jsonschema" sW "Root" dW = false.
Proof. vm_compute. reflexivity. Qed.
Example witness_ir_accepts : ir_accepts_doc (parse_ctx sW) (src_pkg sW) "Root" dW = true.
Proof. vm_compute. reflexivity. Qed.

Definition sNV : src_schema :=
  mkSrc "p" "Root"
    [("Root", SStruct [mkSField "inner" (SRef "Inner") true false false;
                       mkSField "count" (SInt "int64" (Some 1%Z) None (Some 10%Z) None) true false false;
                       mkSField "label" (SString (Some 1%Z) (Some 5%Z)) false true false;
                       mkSField "items" (SArray (SString None None)) false false false;
                       mkSField "tags" (SMap SBool) false false false;
                       mkSField "ratio" (SFloat "float64" (Some (5, -1)%Z) None None (Some (25, -1)%Z)) false true false;
                       mkSField "opt" (SInt "int64" None None None None) false true true]);
     ("Inner", SStruct [mkSField "x" SBool true false false])].
Definition dNV : json :=
  JObj [("inner", JObj [("x", JBool true)]); ("count", JNum 3 0); ("label", JNull);
        ("items", JArr [JStr "a"; JStr "b"]); ("tags", JObj [("k", JBool false)]); ("ratio", JNum 15 (-1)); ("opt", JNull)].

Lemma frontend_nonvacuous : exists s tname d, src_wf s = true /\ schema_no_constrained_typearray s = true /\ json_wf d = true /\
  json_ints_int64 d = true /\ str_in tname (map fst (src_defs s)) = true /\ src_valid_doc "jsonschema" s tname d = true /\
  schema_fields_kept s = true.
Proof.
  exists sNV, "Root", dNV. vm_compute. repeat split; reflexivity.
Qed.
