(* Reflexivity of the decidable equalities on the IR. *)
From Coq Require Import List String Bool ZArith.
From Cog Require Import Model.IR Model.IREq Proofs.TyInd.
Import ListNotations.

Lemma seqb_refl' s : seqb s s = true.
Proof. apply String.eqb_refl. Qed.

Section DynInd.
  Variable P : dyn -> Prop.
  Hypothesis HNil : P DNil.
  Hypothesis HBool : forall b, P (DBool b).
  Hypothesis HInt : forall t z, P (DInt t z).
  Hypothesis HFloat : forall t r, P (DFloat t r).
  Hypothesis HStr : forall s, P (DStr s).
  Hypothesis HList : forall l, Forall P l -> P (DList l).
  Hypothesis HMap : forall l, Forall (fun kv => P (snd kv)) l -> P (DMap l).
  Hypothesis HOther : forall t r, P (DOther t r).
  Fixpoint dyn_ind' (d : dyn) : P d :=
    match d with
    | DNil => HNil | DBool b => HBool b | DInt t z => HInt t z | DFloat t r => HFloat t r | DStr s => HStr s
    | DList l => HList l ((fix go (l : list dyn) : Forall P l :=
                             match l with [] => Forall_nil _ | x :: r => Forall_cons x (dyn_ind' x) (go r) end) l)
    | DMap l => HMap l ((fix go (l : list (string * dyn)) : Forall (fun kv => P (snd kv)) l :=
                           match l with [] => Forall_nil _ | x :: r => Forall_cons x (dyn_ind' (snd x)) (go r) end) l)
    | DOther t r => HOther t r
    end.
End DynInd.

Lemma dyn_eqb_refl : forall d, dyn_eqb d d = true.
Proof.
  induction d as [| b | t z | t r | s | l IH | l IH | t r] using dyn_ind'; simpl;
    rewrite ?seqb_refl', ?Z.eqb_refl, ?Bool.eqb_reflx; try reflexivity.
  - induction IH as [|x r Hx _ IHr]; [reflexivity|]. rewrite Hx. exact IHr.
  - induction IH as [|[k x] r Hx _ IHr]; [reflexivity|]. simpl in Hx. rewrite seqb_refl', Hx. exact IHr.
Qed.

Lemma leqb_refl {A} (e : A -> A -> bool) l : Forall (fun x => e x x = true) l -> leqb e l l = true.
Proof. intros H. induction H as [|x r Hx _ IH]; [reflexivity|]. simpl. rewrite Hx. exact IH. Qed.

Lemma leqb_refl_all {A} (e : A -> A -> bool) l : (forall x, e x x = true) -> leqb e l l = true.
Proof. intros H. apply leqb_refl. apply Forall_forall. intros x _. apply H. Qed.

Lemma attrs_eqb_refl a : attrs_eqb a a = true.
Proof.
  unfold attrs_eqb, hints_eqb. rewrite Bool.eqb_reflx, dyn_eqb_refl. simpl.
  apply leqb_refl_all. intros [k d]. simpl. rewrite seqb_refl', dyn_eqb_refl. reflexivity.
Qed.

Lemma str_pairs_refl l : leqb str_pair_eqb l l = true.
Proof. apply leqb_refl_all. intros [a b]. unfold str_pair_eqb. simpl. rewrite !seqb_refl'. reflexivity. Qed.

Lemma skind_eqb_refl k : skind_eqb k k = true.
Proof. unfold skind_eqb. apply seqb_refl'. Qed.

Lemma ty_eqb_refl : forall t, ty_eqb t t = true.
Proof.
  induction t as [a d IH|a v IH|a vs IH|a i v IHi IHv|a dh fs IHd IHf|a p n|a p n v|a k v cs|a bs IH|a v|a k]
    using ty_ind'; simpl; rewrite attrs_eqb_refl; simpl.
  - rewrite (leqb_refl ty_eqb _ IH), seqb_refl', str_pairs_refl. reflexivity.
  - exact IH.
  - apply leqb_refl. rewrite Forall_forall in *. intros ev Hev.
    rewrite (IH ev Hev), seqb_refl', dyn_eqb_refl. reflexivity.
  - rewrite IHi, IHv. reflexivity.
  - apply andb_true_iff. split.
    + apply leqb_refl. rewrite Forall_forall in *. intros kd Hkd.
      rewrite seqb_refl', (leqb_refl ty_eqb _ (IHd kd Hkd)), seqb_refl', str_pairs_refl. reflexivity.
    + apply leqb_refl. rewrite Forall_forall in *. intros f Hf.
      rewrite seqb_refl', (leqb_refl_all seqb _ seqb_refl'), (IHf f Hf), Bool.eqb_reflx. reflexivity.
  - rewrite !seqb_refl'. reflexivity.
  - rewrite !seqb_refl', dyn_eqb_refl. reflexivity.
  - rewrite skind_eqb_refl, dyn_eqb_refl. simpl. apply leqb_refl_all. intros c. unfold constraint_eqb.
    rewrite seqb_refl'. simpl. apply leqb_refl_all. apply dyn_eqb_refl.
  - apply leqb_refl. exact IH.
  - apply seqb_refl'.
  - apply seqb_refl'.
Qed.

Lemma object_eqb_refl o : object_eqb o o = true.
Proof.
  unfold object_eqb. rewrite !seqb_refl', (leqb_refl_all seqb _ seqb_refl'), ty_eqb_refl. reflexivity.
Qed.
