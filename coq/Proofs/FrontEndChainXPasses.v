(* chain_go on the leafy fragment of the IR when the entry type may be the zero type TBad (what parse_openapi and
   parse_cue produce; Model/FrontEndChainSpecX.v ctx_leafy_x): every pass of chain_go visits the entry type with the
   visitor it applies to field types, and every such visitor is the identity on TBad.  Adapted from
   Proofs/FrontEndChainPasses.v (whose per-type and per-object lemmas are reused as they are). *)
From Coq Require Import List String ZArith Bool Ascii.
From Cog Require Import Model.IR Model.Json Model.Passes Model.PassesChain Model.Process Gen.Chains_gen
  Model.FrontEndChainSpec Model.FrontEndChainSpecX.
From Cog Require Import Proofs.FrontEndChainPasses.
Import ListNotations.
Local Open Scope string_scope.
Local Open Scope list_scope.
Local Notation "a +++ b" := (String.append a b) (at level 60, right associativity).

(* ---------- the entry type is fixed by every traversal ---------- *)
Lemma fx_ety_cases t : ety_leafy_x t = true -> ty_leafy t = true \/ exists a k, t = TBad a k.
Proof.
  unfold ety_leafy_x. intro H. apply orb_true_iff in H. destruct H as [H|H]; [left; exact H|right].
  destruct t; try discriminate. eexists; eexists; reflexivity.
Qed.

Lemma fx_nrfn_ty_ety t : ety_leafy_x t = true -> nrfn_ty t = t.
Proof. intro H. destruct (fx_ety_cases t H) as [L|[a [k ->]]]; [apply fc_nrfn_ty_leafy; exact L|reflexivity]. Qed.
Lemma fx_visit_disj_ety {S} (f : S -> ty -> res (ty * S)) t st : ety_leafy_x t = true -> visit_disj f st t = Ok (t, st).
Proof. intro H. destruct (fx_ety_cases t H) as [L|[a [k ->]]]; [apply fc_visit_disj_leafy; exact L|reflexivity]. Qed.
Lemma fx_visit_disj0_ety f t : ety_leafy_x t = true -> visit_disj0 f t = Ok t.
Proof. intro H. unfold visit_disj0. rewrite (fx_visit_disj_ety _ t tt H). reflexivity. Qed.
Lemma fx_doaste_ty_ety pkg t st : ety_leafy_x t = true -> doaste_ty pkg st t = (t, st).
Proof. intro H. destruct (fx_ety_cases t H) as [L|[a [k ->]]]; [apply fc_doaste_ty_leafy; exact L|reflexivity]. Qed.

(* ---------- schema level ---------- *)
Lemma fx_schema_leafy_inv s : schema_leafy_x s = true ->
  str_nodup (map fst (s_objects s)) = true /\ (forall ko, In ko (s_objects s) -> obj_leafy ko = true) /\
  ety_leafy_x (s_entrytype s) = true.
Proof.
  unfold schema_leafy_x. intro H. apply andb_true_iff in H. destruct H as [H H3].
  apply andb_true_iff in H. destruct H as [H1 H2]. repeat split; try assumption.
  apply forallb_forall. exact H2.
Qed.

(* the passes that do not look at the entry type: reduce to the schema with a leafy entry type *)
Definition fx_reentry (s : schema) : schema := mkSchema (s_pkg s) (s_meta s) (s_entry s) (TRef attrs0 "" "") (s_objects s).
Lemma fx_reentry_leafy s : schema_leafy_x s = true -> schema_leafy (fx_reentry s) = true.
Proof.
  intro H. destruct (fx_schema_leafy_inv s H) as [N [O _]]. unfold schema_leafy, fx_reentry. cbn [s_objects s_entrytype ty_leafy].
  rewrite N, andb_true_r. cbn [andb]. apply forallb_forall. exact O.
Qed.

(* 1. AnonymousStructsToNamed *)
Lemma fx_astn_schema s : schema_leafy_x s = true -> astn_schema s = s.
Proof.
  intro H. pose proof (fc_astn_schema _ (fx_reentry_leafy s H)) as E.
  unfold astn_schema in *. cbn [fx_reentry s_objects] in E.
  destruct (fold_left _ (s_objects s) ([], [])) as [objs news].
  unfold set_objects in *. cbn [fx_reentry s_pkg s_meta s_entry s_entrytype] in E.
  inversion E as [E1]. rewrite E1. apply fc_schema_eta.
Qed.

(* 5. AnonymousEnumToExplicitType *)
Lemma fx_aete_schema s : schema_leafy_x s = true -> aete_schema s = s.
Proof.
  intro H. pose proof (fc_aete_schema _ (fx_reentry_leafy s H)) as E.
  unfold aete_schema in *. cbn [fx_reentry s_objects s_pkg] in E.
  destruct (fold_left _ (s_objects s) ([], [])) as [objs news].
  unfold set_objects in *. cbn [fx_reentry s_pkg s_meta s_entry s_entrytype] in E.
  inversion E as [E1]. rewrite E1. apply fc_schema_eta.
Qed.

(* 6. PrefixEnumValues *)
Lemma fx_pev_schema s : schema_leafy_x s = true -> map_objects_res pev_object s = Ok s.
Proof.
  intro H. pose proof (fc_pev_schema _ (fx_reentry_leafy s H)) as E.
  rewrite fc_map_objects_res_eq in *. cbn [fx_reentry s_objects] in E.
  destruct (fc_mor_loop pev_object (s_objects s) []) as [objs| | |]; cbn [bind] in *; try discriminate.
  unfold set_objects in *. cbn [fx_reentry s_pkg s_meta s_entry s_entrytype] in E.
  inversion E as [E1]. rewrite fc_schema_eta. reflexivity.
Qed.

(* 3,4,7,9,10. the stateless disjunction visitors *)
Lemma fx_visit_schema_disj0 f s : schema_leafy_x s = true ->
  visit_schema (visit_disj0 f) (fun o => do t <- visit_disj0 f (o_type o) ; Ok (set_otype o t)) s = Ok s.
Proof.
  intro H. destruct (fx_schema_leafy_inv s H) as [N [O E]]. rewrite fc_visit_schema_eq.
  rewrite (fx_visit_disj0_ety f _ E). cbn [bind].
  set (go := fc_vs_loop (fun o => do t <- visit_disj0 f (o_type o) ; Ok (set_otype o t))).
  assert (forall l acc, (forall ko, In ko l -> obj_leafy ko = true) ->
            go l acc = Ok (fold_left (fun acc ko => objs_set acc (fst ko) (snd ko)) l acc)) as G.
  { induction l as [|[k o] r IH]; intros acc Hl; simpl; [reflexivity|].
    rewrite (fc_obj_visit_disj0 f k o (Hl _ (or_introl eq_refl))). simpl. rewrite fc_set_otype_eta.
    rewrite IH by (intros; apply Hl; right; assumption).
    unfold add_object. destruct (fc_obj_leafy_inv _ (Hl _ (or_introl eq_refl))) as [Ek _]. simpl in Ek.
    rewrite <- Ek. reflexivity. }
  rewrite (G _ _ O). simpl. rewrite (fc_rebuild_id _ N). rewrite fc_schema_eta. reflexivity.
Qed.

(* 8, 11. the stateful visitors: state untouched *)
Lemma fx_visit_schema_st {S} (init : S) (on_type : S -> ty -> res (ty * S)) (news : S -> list object) s :
  schema_leafy_x s = true ->
  (forall st t, ety_leafy_x t = true -> on_type st t = Ok (t, st)) ->
  (forall st k o, obj_leafy (k, o) = true -> on_type st (o_type o) = Ok (o_type o, st)) ->
  news init = [] ->
  visit_schema_st init on_type news s = Ok s.
Proof.
  intros H HT HO HN. destruct (fx_schema_leafy_inv s H) as [N [O E]]. rewrite fc_visit_schema_st_eq.
  rewrite (HT init _ E). cbn [bind fst snd].
  set (go := fc_vst_loop on_type).
  assert (forall l acc, (forall ko, In ko l -> obj_leafy ko = true) ->
            go l acc init = Ok (fold_left (fun acc ko => objs_set acc (fst ko) (snd ko)) l acc, init)) as G.
  { induction l as [|[k o] r IH]; intros acc Hl; simpl; [reflexivity|].
    rewrite (HO init k o (Hl _ (or_introl eq_refl))). simpl. rewrite fc_set_otype_eta.
    rewrite IH by (intros; apply Hl; right; assumption).
    unfold add_object. destruct (fc_obj_leafy_inv _ (Hl _ (or_introl eq_refl))) as [Ek _]. simpl in Ek.
    rewrite <- Ek. reflexivity. }
  rewrite (G _ _ O). simpl. rewrite HN. simpl. rewrite (fc_rebuild_id _ N). rewrite fc_schema_eta. reflexivity.
Qed.

(* ---------- lists of schemas ---------- *)
Lemma fx_ctx_leafy_in ctx s : ctx_leafy_x ctx = true -> In s ctx -> schema_leafy_x s = true.
Proof. unfold ctx_leafy_x. intros H. apply forallb_forall. exact H. Qed.

Lemma fx_disj0_pass (f : schema -> ty -> res ty) ctx : ctx_leafy_x ctx = true -> visit_schemas_disj0 f ctx = Ok ctx.
Proof.
  intro H. unfold visit_schemas_disj0. apply fc_mapM_id. intros s Hs.
  apply fx_visit_schema_disj0. exact (fx_ctx_leafy_in _ _ H Hs).
Qed.

Lemma fx_run_identity p ctx : ctx_leafy_x ctx = true ->
  In p [PAnonymousStructsToNamed; PDisjunctionWithNullToOptional; PDisjunctionOfConstantsToEnum;
        PAnonymousEnumToExplicitType; PPrefixEnumValues; PFlattenDisjunctions;
        PDisjunctionOfAnonymousStructsToExplicit; PDisjunctionInferMapping; PUndiscriminatedDisjunctionToAny;
        PDisjunctionToType] ->
  run_pass p ctx = Ok ctx.
Proof.
  intros H Hp. simpl in Hp.
  repeat (destruct Hp as [<-|Hp]); try contradiction; simpl.
  - f_equal. unfold anonymous_structs_to_named. apply fc_map_id. intros s Hs. apply fx_astn_schema. exact (fx_ctx_leafy_in _ _ H Hs).
  - apply fx_disj0_pass; assumption.
  - apply fx_disj0_pass; assumption.
  - f_equal. unfold anonymous_enum_to_explicit_type. apply fc_map_id. intros s Hs. apply fx_aete_schema. exact (fx_ctx_leafy_in _ _ H Hs).
  - unfold prefix_enum_values. apply fc_mapM_id. intros s Hs. apply fx_pev_schema. exact (fx_ctx_leafy_in _ _ H Hs).
  - apply fx_disj0_pass; assumption.
  - unfold disjunction_of_anonymous_structs_to_explicit. apply fc_mapM_id. intros s Hs.
    apply fx_visit_schema_st; [exact (fx_ctx_leafy_in _ _ H Hs)| | |reflexivity].
    + intros st t Ht. rewrite (fx_doaste_ty_ety _ t st Ht). reflexivity.
    + intros st k o Ho. rewrite (fc_obj_doaste _ st k o Ho). reflexivity.
  - apply fx_disj0_pass; assumption.
  - apply fx_disj0_pass; assumption.
  - unfold disjunction_to_type. apply fc_mapM_id. intros s Hs.
    apply fx_visit_schema_st; [exact (fx_ctx_leafy_in _ _ H Hs)| | |reflexivity].
    + intros st t Ht. apply fx_visit_disj_ety. exact Ht.
    + intros st k o Ho. apply (fc_obj_visit_disj _ st k o Ho).
Qed.

(* ---------- 2. NotRequiredFieldAsNullableType ---------- *)
Lemma fx_nrfn_schema s : schema_leafy_x s = true ->
  visit_schema_t nrfn_ty (fun o => set_otype o (nrfn_ty (o_type o))) s =
  set_objects s (map (fun ko => (fst ko, nrfn_only_obj (snd ko))) (s_objects s)).
Proof.
  intro H. destruct (fx_schema_leafy_inv s H) as [N [O E]]. unfold visit_schema_t, set_objects.
  rewrite (fx_nrfn_ty_ety _ E). f_equal.
  rewrite (fc_fold_ext _ (fun acc ko => objs_set acc (fst ko) (nrfn_only_obj (snd ko)))).
  - rewrite (fc_rebuild (fun ko => nrfn_only_obj (snd ko)) _ [] N). reflexivity.
  - intros a [k o] Hin. simpl. rewrite (fc_nrfn_obj k o (O _ Hin)). unfold add_object.
    rewrite fc_nrfn_obj_name. destruct (fc_obj_leafy_inv _ (O _ Hin)) as [Ek _]. simpl in Ek. rewrite <- Ek. reflexivity.
Qed.

Lemma fx_nrfn_pass ctx : ctx_leafy_x ctx = true -> not_required_field_as_nullable_type ctx = nrfn_only ctx.
Proof.
  intro H. unfold not_required_field_as_nullable_type, nrfn_only. apply map_ext_in. intros s Hs.
  apply fx_nrfn_schema. exact (fx_ctx_leafy_in _ _ H Hs).
Qed.

(* the output is still in the fragment *)
Lemma fx_nrfn_only_leafy ctx : ctx_leafy_x ctx = true -> ctx_leafy_x (nrfn_only ctx) = true.
Proof.
  unfold ctx_leafy_x, nrfn_only. intro H. rewrite fc_forallb_map. apply forallb_forall. intros s Hs.
  assert (schema_leafy_x s = true) as Hl by (exact (proj1 (forallb_forall _ _) H s Hs)).
  destruct (fx_schema_leafy_inv s Hl) as [N [O E]]. unfold schema_leafy_x. simpl.
  rewrite fc_map_fst_map, N, E. simpl. rewrite andb_true_r.
  rewrite fc_forallb_map. apply forallb_forall. intros ko Hko. apply fc_nrfn_obj_leafy. apply O. exact Hko.
Qed.

(* ---------- T1 on the IR ---------- *)
Theorem chain_go_leafy_x ctx : ctx_leafy_x ctx = true -> process chain_go ctx = Ok (nrfn_only ctx).
Proof.
  intro H. pose proof (fx_nrfn_only_leafy ctx H) as H'.
  unfold chain_go. cbn [process].
  rewrite (fx_run_identity PAnonymousStructsToNamed ctx H) by (simpl; tauto). cbn [bind].
  change (run_pass PNotRequiredFieldAsNullableType ctx) with (Ok (not_required_field_as_nullable_type ctx)).
  rewrite (fx_nrfn_pass ctx H). cbn [bind].
  repeat (rewrite (fx_run_identity _ (nrfn_only ctx) H') by (simpl; tauto); cbn [bind]).
  reflexivity.
Qed.
