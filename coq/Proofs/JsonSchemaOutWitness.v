(* C12: the refuted statements, by their witnesses; the packaged "carried over" facts. *)
From Coq Require Import List String ZArith Bool Ascii Lia.
From Cog Require Import Model.IR Model.Json Model.GoSemBase Model.GoSemDecode Model.GoSemSpec
  Model.JsonSchemaOut Model.JsonSchemaOutSpec Proofs.JsonSchemaOutProofs Proofs.JsonSchemaOutEncode.
Import ListNotations.
Local Open Scope list_scope.
Local Open Scope string_scope.

(* ---------- the foreign-object loop on a recursive foreign type: converted once ---------- *)
Lemma w_rec_terminates :
  exists jd, emit_schema w_rec_ctx (emit_fuel w_rec_ctx) w_rec_schema = Ok jd /\
             def_names jd = ["Root"; "Node"] /\ refs_resolve_b jd = true /\
             om_get (jd_defs jd) "Node" =
             Some (JSStruct [] [("next", (JSRef "beta" "Node", "", None))], "").
Proof. eexists. split; [vm_compute; reflexivity|]. repeat split; vm_compute; reflexivity. Qed.

(* ---------- a foreign object replaces the local one of the same bare name ---------- *)
Lemma objects_present_refuted :
  ~ (forall ctx s fuel jd, In s ctx -> NoDup (map o_name (objects_of s)) -> emit_schema ctx fuel s = Ok jd ->
                           forall o, In o (objects_of s) -> om_get (jd_defs jd) (o_name o) = Some (object_to_definition o)).
Proof.
  intros H.
  assert (E : exists jd, emit_schema w_clash_ctx (emit_fuel w_clash_ctx) w_clash_schema = Ok jd /\
                         om_get (jd_defs jd) "Item" <> Some (object_to_definition w_clash_object)).
  { eexists. split; [vm_compute; reflexivity|]. vm_compute. discriminate. }
  destruct E as [jd [E1 E2]].
  apply E2.
  change "Item" with (o_name w_clash_object).
  apply (H w_clash_ctx w_clash_schema (emit_fuel w_clash_ctx) jd).
  - left; reflexivity.
  - vm_compute. repeat constructor; simpl; intuition discriminate.
  - exact E1.
  - left; reflexivity.
Qed.

Lemma objects_and_fields_present : forall ctx s fuel jd,
    ctx_wf ctx -> In s ctx -> NoDup (map o_name (objects_of s)) ->
    (forall p n o, p <> s_pkg s -> locate_object ctx p n = Some o -> ~ In (o_name o) (map o_name (objects_of s))) ->
    emit_schema ctx fuel s = Ok jd ->
    forall o, In o (objects_of s) ->
              om_get (jd_defs jd) (o_name o) = Some (object_to_definition o) /\
              (forall a dh fs f, o_type o = TStruct a dh fs -> NoDup (map (@f_name ty) fs) -> In f fs ->
                 exists req props, emit_type (o_type o) = JSStruct req props /\
                                   exists de df, om_get props (f_name f) = Some (emit_type (f_type f), de, df)).
Proof.
  intros ctx s fuel jd W Hs Hnd Hc He o Ho. split.
  - eapply emit_schema_objects_present; eauto.
  - intros a dh fs f Ht Hfd Hf. rewrite Ht.
    destruct (struct_fields_present a dh fs f Hfd Hf) as [req [props [E G]]].
    exists req, props. split; auto. eauto.
Qed.

(* ---------- encodings the emitted schema rejects ---------- *)
Lemma w_any_faithful : faithful w_any_ctx (w_defs w_any_ctx).
Proof.
  apply (single_package_faithful _ (emit_fuel w_any_ctx)).
  - intros k o [H|[]]; inversion H; reflexivity.
  - vm_compute. repeat constructor; simpl; intuition.
  - vm_compute. reflexivity.
Qed.

Lemma encoded_refuted_any :
  ~ (forall ctx defs t v, faithful ctx defs -> wt ctx t v = true -> jv defs (emit_type t) (encode ctx t v)).
Proof.
  intros H.
  specialize (H w_any_ctx (w_defs w_any_ctx) (TRef attrs0 "p" "Root") w_any_val w_any_faithful).
  assert (Hwt : wt w_any_ctx (TRef attrs0 "p" "Root") w_any_val = true) by (vm_compute; reflexivity).
  specialize (H Hwt).
  revert H. apply (js_valid_complete _ 10). vm_compute. reflexivity.
Qed.

Lemma w_null_faithful : faithful w_null_ctx (w_defs w_null_ctx).
Proof.
  apply (single_package_faithful _ (emit_fuel w_null_ctx)).
  - intros k o [H|[]]; inversion H; reflexivity.
  - vm_compute. repeat constructor; simpl; intuition.
  - vm_compute. reflexivity.
Qed.

Lemma encoded_refuted_nullable :
  exists ctx defs t v, faithful ctx defs /\ wt ctx t v = true /\ is_any t = false /\
                       ~ jv defs (emit_type t) (encode ctx t v).
Proof.
  exists w_null_ctx, (w_defs w_null_ctx), (TRef attrs0 "p" "Root"), w_null_val.
  split; [exact w_null_faithful|]. split; [vm_compute; reflexivity|]. split; [reflexivity|].
  apply (js_valid_complete _ 10). vm_compute. reflexivity.
Qed.

(* ---------- carried over / not carried over ---------- *)
Lemma carried_over :
  (forall a dh fs req props n, emit_type (TStruct a dh fs) = JSStruct req props ->
      (In n req <-> exists f, In f fs /\ f_name f = n /\ f_required f = true)) /\
  (forall a dh fs f req props ps de df, NoDup (map (@f_name ty) fs) -> In f fs ->
      emit_type (TStruct a dh fs) = JSStruct req props -> om_get props (f_name f) = Some (ps, de, df) ->
      df = (if dyn_is_nil (dflt (ty_attrs (f_type f))) then None else Some (dyn_to_json (dflt (ty_attrs (f_type f)))))) /\
  (forall a vs, emit_type (TEnum a vs) = JSEnum (map (fun ev => dyn_to_json (ev_value ev)) vs)) /\
  (forall a k cs c kw, is_int_kind k = true \/ is_float_kind k = true ->
      NoDup (map (fun c => number_kw (c_op c)) cs) -> In c cs -> number_kw (c_op c) = Some kw ->
      exists ms, emit_type (TScalar a k DNil cs) = JSScalar ms /\ om_get ms kw = Some (first_arg c)) /\
  (forall a cs c kw, NoDup (map (fun c => string_kw (c_op c)) cs) -> In c cs -> string_kw (c_op c) = Some kw ->
      has_hint (TScalar a KString DNil cs) "string_format_datetime" = false ->
      exists ms, emit_type (TScalar a KString DNil cs) = JSScalar ms /\ om_get ms kw = Some (first_arg c)) /\
  (forall a k v cs, dyn_is_nil v = false -> k <> KAny ->
      exists ms, emit_type (TScalar a k v cs) = JSScalar ms /\ om_get ms "const" = Some (dyn_to_json v)).
Proof.
  split; [intros; eapply required_iff; eauto|].
  split; [intros; eapply default_carried; eauto|].
  split; [apply enum_carried|].
  split; [apply number_constraints_carried|].
  split; [apply string_constraints_carried | apply const_carried].
Qed.

Lemma not_carried_over :
  (forall t b, emit_type (set_nullable t b) = emit_type t) /\
  (forall a p n v, emit_type (TConstRef a p n v) = JSEmpty) /\
  (forall a bs, emit_type (TInter a bs) = JSEmpty).
Proof. split; [apply emit_type_set_nullable | split; reflexivity]. Qed.
