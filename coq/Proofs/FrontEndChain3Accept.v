(* G3 (a): acceptance across chain_go with nullable members: ir_accepts on a ctx_plain3 context (pre-chain) implies
   strict_ok on chain3_out ctx (post-chain).  Replays Proofs/FrontEndChain2Const.v (generic lemmas fk_ reused). *)
From Coq Require Import List String ZArith Bool Ascii Lia.
From Cog Require Import Model.IR Model.Json Model.GoSemBase Model.GoSemDecode Model.GoSemValidate Model.GoSemStrict
  Model.GoSemSpec08 Model.GoSemSpec01 Model.Src Model.FrontEnd Model.FrontEndSpec Model.Passes Model.FrontEndChainSpec
  Model.FrontEndChainSpec2 Model.FrontEndChainSpec3.
From Cog Require Import Proofs.FrontEndChain2Const Proofs.FrontEndChain3Passes.
Import ListNotations.
Local Open Scope string_scope.
Local Open Scope list_scope.

Definition fields_plain3 (fs : list field) : bool := forallb (fun f => fty_plain3 (f_type f)) fs.
Definition chain3_field (f : field) : field := dw3_field (nrfn_field f).
Definition chain3_obj (o : object) : object := dw3_obj (nrfn_only_obj o).

Lemma f3a_plain_object ctx p n o : ctx_plain3 ctx = true -> locate_object ctx p n = Some o ->
  exists a fs, o_type o = TStruct a [] fs /\ attrs_plain a = true /\ fields_plain3 fs = true.
Proof.
  intros H L. destruct (fk_locate_in _ _ _ _ L) as [s [Hs Ho]].
  unfold ctx_plain3 in H. rewrite forallb_forall in H. specialize (H s Hs).
  unfold schema_plain3 in H. apply andb_true_iff in H. destruct H as [H _].
  apply andb_true_iff in H. destruct H as [_ H]. rewrite forallb_forall in H. specialize (H _ Ho).
  unfold obj_plain3 in H. simpl in H. apply andb_true_iff in H. destruct H as [_ H].
  destruct (o_type o); try discriminate.
  apply andb_true_iff in H. destruct H as [H H3]. apply andb_true_iff in H. destruct H as [H1 H2].
  destruct dh; [|discriminate]. exists a, fs. repeat split; assumption.
Qed.

Lemma f3a_locate_dw3 ctx p n : locate_object (dw3_only ctx) p n = option_map dw3_obj (locate_object ctx p n).
Proof.
  unfold locate_object, locate, dw3_only.
  induction ctx as [|s r IH]; simpl; [reflexivity|].
  destruct (seqb (s_pkg s) p); [|exact IH]. simpl. apply fk_objs_get_map.
Qed.
Lemma f3a_locate_out ctx p n : locate_object (chain3_out ctx) p n = option_map chain3_obj (locate_object ctx p n).
Proof.
  unfold chain3_out. rewrite f3a_locate_dw3, fk_locate_nrfn. destruct (locate_object ctx p n); reflexivity.
Qed.

Lemma f3a_chain3_obj_struct o a dh fs : o_type o = TStruct a dh fs ->
  o_type (chain3_obj o) = TStruct a dh (map chain3_field fs).
Proof.
  intro E. unfold chain3_obj, nrfn_only_obj. rewrite E. unfold dw3_obj. cbn [set_otype o_type].
  rewrite map_map. reflexivity.
Qed.

(* alternatives of a plain type, any fuel >= 2 *)
Lemma f3a_alts_ge ctx t f : ctx_plain3 ctx = true -> ty_plainc t = true ->
  alternatives ctx (S (S f)) t =
  match t with
  | TRef _ p n => match locate_object ctx p n with Some o => [o_type o] | None => [] end
  | _ => [t]
  end.
Proof.
  intros H Ht. destruct t; try discriminate; try reflexivity.
  cbn [alternatives]. destruct (locate_object ctx pkg name) as [o|] eqn:L; [|reflexivity].
  destruct (f3a_plain_object _ _ _ _ H L) as [a' [fs [E _]]]. rewrite E. reflexivity.
Qed.
Lemma f3a_alts_plain ctx t : ctx_plain3 ctx = true -> ty_plainc t = true ->
  alternatives ctx (alt_fuel ctx) t =
  match t with
  | TRef _ p n => match locate_object ctx p n with Some o => [o_type o] | None => [] end
  | _ => [t]
  end.
Proof. intros H Ht. destruct (fk_alt_fuel ctx) as [f ->]. apply f3a_alts_ge; assumption. Qed.

Lemma f3a_null_rejected ctx t : ctx_plain3 ctx = true -> ty_plainc t = true -> ir_accepts ctx JNull t = false.
Proof.
  intros H Ht. rewrite fk_ir_accepts_unfold, (f3a_alts_plain _ _ H Ht).
  destruct t; try discriminate; try reflexivity.
  - destruct (locate_object ctx pkg name) as [o|] eqn:L; [|reflexivity].
    destruct (f3a_plain_object _ _ _ _ H L) as [a' [fs [E _]]]. rewrite E. reflexivity.
  - simpl in Ht. apply andb_true_iff in Ht. destruct Ht as [_ Hk]. unfold kindv_plain in Hk.
    destruct k; destruct value; try discriminate; reflexivity.
Qed.

Lemma f3a_payload_ref ctx a p n o sa fs : ctx_plain3 ctx = true ->
  locate_object ctx p n = Some o -> o_type o = TStruct sa [] fs -> attrs_plain sa = true ->
  payload_type (chain3_out ctx) (TRef a p n) = PTy (TStruct sa [] (map chain3_field fs)).
Proof.
  intros H L E A. unfold payload_type, GoSemBase.resolve. cbn [resolve_fuel].
  rewrite f3a_locate_out, L. cbn [option_map]. rewrite (f3a_chain3_obj_struct o sa [] fs E).
  unfold attrs_plain in A. apply andb_true_iff in A. destruct A as [A1 _]. apply negb_true_iff in A1.
  destruct (GoSemBase.count_objects (chain3_out ctx)); cbn [resolve_fuel]; unfold t_nullable; cbn [ty_attrs]; rewrite A1; reflexivity.
Qed.

(* ---------- fields ---------- *)
Lemma f3a_field_name f : f_name (chain3_field f) = f_name f.
Proof. unfold chain3_field, dw3_field. destruct (disj_opt (f_type (nrfn_field f))); reflexivity. Qed.
Lemma f3a_field_req f : f_required (chain3_field f) = f_required f.
Proof. unfold chain3_field, dw3_field. destruct (disj_opt (f_type (nrfn_field f))); reflexivity. Qed.
Lemma f3a_find fs k :
  find (fun f => seqb (f_name f) k) (map chain3_field fs) = option_map chain3_field (find (fun f => seqb (f_name f) k) fs).
Proof.
  induction fs as [|f r IH]; simpl; [reflexivity|]. rewrite f3a_field_name. destruct (seqb (f_name f) k); [reflexivity|exact IH].
Qed.

Lemma f3a_plainc_no_disj t : ty_plainc t = true -> disj_opt t = None.
Proof. destruct t; try discriminate; reflexivity. Qed.
Lemma f3a_nrfn_disj_opt f : disj_opt (f_type (nrfn_field f)) = disj_opt (f_type f).
Proof.
  unfold nrfn_field. cbn [f_type]. destruct (negb (f_required f) && negb (nullable (ty_attrs (f_type f))))%bool;
    [apply f3_disj_opt_set_nullable|reflexivity].
Qed.
(* a field of plain type: chain3_field is nrfn_field *)
Lemma f3a_field_plain f : ty_plainc (f_type f) = true -> chain3_field f = nrfn_field f.
Proof. intro H. unfold chain3_field, dw3_field. rewrite f3a_nrfn_disj_opt, (f3a_plainc_no_disj _ H). reflexivity. Qed.
(* a field of type T | null *)
Lemma f3a_field_disj f b : disj_opt (f_type f) = Some b -> f_type (chain3_field f) = set_nullable b true.
Proof. intro H. unfold chain3_field, dw3_field. rewrite f3a_nrfn_disj_opt, H. reflexivity. Qed.

Lemma f3a_fty_cases t : fty_plain3 t = true ->
  ty_plainc t = true \/ exists b, disj_opt t = Some b /\ ty_plainc b = true.
Proof.
  unfold fty_plain3. intro H. apply orb_true_iff in H. destruct H as [H|H]; [left; exact H|right].
  apply andb_true_iff in H. destruct H as [_ H]. destruct (disj_opt t) as [b|]; [|discriminate]. exists b. split; [reflexivity|exact H].
Qed.

Lemma f3a_has_default f : fty_plain3 (f_type f) = true -> has_default (f_type (chain3_field f)) = false.
Proof.
  intro H. destruct (f3a_fty_cases _ H) as [P|[b [E P]]].
  - rewrite (f3a_field_plain f P). apply fk_has_default_nrfn. exact P.
  - rewrite (f3a_field_disj f b E), fk_has_default_set_nullable. apply fk_ty_plain_dflt. exact P.
Qed.

(* ---------- forward ---------- *)
Section Fwd3.
  Variable ctx : schemas.
  Hypothesis Hctx : ctx_plain3 ctx = true.
  Let out := chain3_out ctx.

  Lemma f3a_accepts_scalar j a k v cs : ty_plainc (TScalar a k v cs) = true ->
    ir_accepts ctx j (TScalar a k v cs) = scalar_accepts (TScalar a k v cs) a k v cs j.
  Proof. intro Ht. rewrite fk_ir_accepts_unfold, (f3a_alts_plain _ _ Hctx Ht). cbn [existsb fk_alt_check]. apply orb_false_r. Qed.
  Lemma f3a_accepts_array j a et : ty_plainc (TArray a et) = true ->
    ir_accepts ctx j (TArray a et) = match j with JArr l => forallb (fun x => ir_accepts ctx x et) l | _ => false end.
  Proof. intro Ht. rewrite fk_ir_accepts_unfold, (f3a_alts_plain _ _ Hctx Ht). cbn [existsb fk_alt_check]. apply orb_false_r. Qed.
  Lemma f3a_accepts_map j a i vt : ty_plainc (TMap a i vt) = true ->
    ir_accepts ctx j (TMap a i vt) = match j with JObj ms => forallb (fun kv => ir_accepts ctx (snd kv) vt) ms | _ => false end.
  Proof. intro Ht. rewrite fk_ir_accepts_unfold, (f3a_alts_plain _ _ Hctx Ht). cbn [existsb fk_alt_check]. apply orb_false_r. Qed.
  Lemma f3a_accepts_ref j a p n : ty_plainc (TRef a p n) = true ->
    ir_accepts ctx j (TRef a p n) =
    match locate_object ctx p n with Some o => fk_alt_check ctx j (o_type o) | None => false end.
  Proof.
    intro Ht. rewrite fk_ir_accepts_unfold, (f3a_alts_plain _ _ Hctx Ht).
    destruct (locate_object ctx p n); [|reflexivity]. cbn [existsb]. apply orb_false_r.
  Qed.

  (* a non-null document accepted by T | null is accepted by T *)
  Lemma f3a_disj_nonnull t b v : disj_opt t = Some b -> ty_plainc b = true -> fk_nonnull v = true ->
    ir_accepts ctx v t = true -> ir_accepts ctx v b = true.
  Proof.
    intros E P N H. destruct (f3_disj_opt_inv t b E) as [a [n [disc [mp [-> [Hn _]]]]]].
    rewrite fk_ir_accepts_unfold in *.
    assert (alt_fuel ctx = S (S (S (2 * GoSemBase.count_objects ctx + 5)))) as Ef by (unfold alt_fuel; lia).
    rewrite Ef in *. set (g := (2 * GoSemBase.count_objects ctx + 5)%nat) in *.
    change (alternatives ctx (S (S (S g))) (TDisj a (mkDisj [b; n] disc mp)))
      with (alternatives ctx (S (S g)) b ++ alternatives ctx (S (S g)) n ++ []) in H.
    rewrite app_nil_r, existsb_app in H.
    rewrite (f3a_alts_ge ctx b g Hctx P) in H. rewrite (f3a_alts_ge ctx b (S g) Hctx P).
    apply orb_true_iff in H. destruct H as [H|H]; [exact H|].
    destruct n; try discriminate. destruct k; try discriminate.
    cbn [alternatives existsb fk_alt_check scalar_accepts] in H. destruct v; discriminate.
  Qed.

  Lemma f3a_struct_fwd fs ms :
    fields_plain3 fs = true ->
    Forall (fun kv => forall t, ty_plainc t = true -> ir_accepts ctx (snd kv) t = true -> strict_ok out (snd kv) t = true) ms ->
    fk_alt_check ctx (JObj ms) (TStruct attrs0 [] fs) = true ->
    fk_struct_ok out (map chain3_field fs) ms = true.
  Proof.
    intros F IH H. cbn [fk_alt_check] in H. apply andb_true_iff in H. destruct H as [H H3].
    apply andb_true_iff in H. destruct H as [H1 H2].
    unfold fk_struct_ok, members_nodup. rewrite H1. cbn [andb]. apply andb_true_iff. split.
    - rewrite Forall_forall in IH. apply forallb_forall. intros kv Hkv.
      rewrite forallb_forall in H2. specialize (H2 kv Hkv). rewrite f3a_find.
      destruct (find (fun f => seqb (f_name f) (fst kv)) fs) as [f|] eqn:Ef; [|discriminate]. cbn [option_map].
      apply find_some in Ef. destruct Ef as [Ef _].
      destruct (f3a_fty_cases _ (proj1 (forallb_forall _ _) F f Ef)) as [Pf|[b [Eb Pb]]].
      + rewrite (f3a_field_plain f Pf). destruct (fk_nonnull (snd kv)) eqn:Nn.
        * pose proof (IH kv Hkv _ Pf H2) as S1. rewrite <- (fk_strict_nrfn_field out _ f Nn) in S1.
          destruct (snd kv); try discriminate; exact S1.
        * destruct (snd kv); try discriminate. rewrite (f3a_null_rejected _ _ Hctx Pf) in H2. discriminate.
      + rewrite (f3a_field_disj f b Eb). destruct (fk_nonnull (snd kv)) eqn:Nn.
        * pose proof (IH kv Hkv b Pb (f3a_disj_nonnull _ b _ Eb Pb Nn H2)) as S1.
          rewrite <- (fk_strict_set_nullable out _ b true Nn) in S1.
          destruct (snd kv); try discriminate; exact S1.
        * destruct (snd kv); try discriminate. unfold t_nullable. destruct b; try discriminate; cbn; rewrite andb_false_r; reflexivity.
    - rewrite fk_forallb_map. revert H3. apply fk_forallb_impl. intros f Hf Hr. rewrite f3a_field_req, f3a_field_name.
      apply orb_true_iff in Hr. destruct Hr as [Hr|Hr]; rewrite Hr; [reflexivity|]. rewrite !orb_true_r. reflexivity.
  Qed.

  Lemma f3a_accepts_fwd : forall j t, ty_plainc t = true -> ir_accepts ctx j t = true -> strict_ok out j t = true.
  Proof.
    induction j using fk_json_ind; intros t Ht Ha;
      try (rewrite (f3a_null_rejected _ _ Hctx Ht) in Ha; discriminate).
    all: destruct t; try discriminate.
    all: try (rewrite (f3a_accepts_array _ _ _ Ht) in Ha; rewrite fk_strict_array by reflexivity; try discriminate).
    all: try (rewrite (f3a_accepts_map _ _ _ _ Ht) in Ha; rewrite fk_strict_map by reflexivity; try discriminate).
    all: try (rewrite (f3a_accepts_scalar _ _ _ _ _ Ht) in Ha; rewrite fk_strict_scalar by reflexivity;
              assert (kindv_plain k value = true) as Hk by (simpl in Ht; apply andb_true_iff in Ht; exact (proj2 Ht));
              apply (fk_scalar_fwd a k value cs _ Hk); [reflexivity|exact Ha]).
    all: try (rewrite (f3a_accepts_ref _ _ _ _ Ht) in Ha;
              destruct (locate_object ctx pkg name) as [o|] eqn:L; [|discriminate];
              destruct (f3a_plain_object _ _ _ _ Hctx L) as [sa [fs [E [A F]]]];
              (erewrite fk_strict_ref_struct; [ | reflexivity | exact (f3a_payload_ref _ a _ _ _ _ _ Hctx L E A)]);
              rewrite E in Ha; try discriminate).
    - simpl in Ht. apply andb_true_iff in Ht. destruct Ht as [_ Ht].
      apply forallb_forall. intros x Hx. rewrite Forall_forall in H. apply (H x Hx _ Ht).
      exact (proj1 (forallb_forall _ _) Ha x Hx).
    - simpl in Ht. apply andb_true_iff in Ht. destruct Ht as [_ Ht].
      apply forallb_forall. intros x Hx. rewrite Forall_forall in H. apply (H x Hx _ Ht).
      exact (proj1 (forallb_forall _ _) Ha x Hx).
    - apply (f3a_struct_fwd fs l F H). exact Ha.
  Qed.

  Theorem f3a_accepts_doc_fwd p n d :
    ir_accepts_doc ctx p n d = true -> ir_valid_object out p n d = true.
  Proof.
    unfold ir_accepts_doc, ir_valid_object, strict_ok_object. intro H.
    destruct d; try discriminate; apply f3a_accepts_fwd; try reflexivity; exact H.
  Qed.

  Lemma f3a_struct_object_out p n d : ir_accepts_doc ctx p n d = true -> struct_object out p n = true.
  Proof.
    intro H. assert (ir_accepts ctx d (TRef attrs0 p n) = true) as Ha by (destruct d; try discriminate; exact H).
    rewrite fk_ir_accepts_unfold, (f3a_alts_plain _ (TRef attrs0 p n) Hctx eq_refl) in Ha.
    unfold struct_object. unfold out. rewrite f3a_locate_out.
    destruct (locate_object ctx p n) as [o|] eqn:L; [|discriminate].
    destruct (f3a_plain_object _ _ _ _ Hctx L) as [sa [fs [E _]]]. cbn [option_map].
    rewrite (f3a_chain3_obj_struct o sa [] fs E). reflexivity.
  Qed.
End Fwd3.
