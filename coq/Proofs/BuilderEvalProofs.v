(* C09 — lemmas about coq/Model/BuilderEval.v and PyBuilderEval.v. *)
From Coq Require Import List String ZArith Bool Ascii Lia.
From Cog Require Import Model.IR Model.Json Model.Builders Model.BuildersEq Model.Spec16 Model.GoSem
  Model.BuilderEval Model.PyBuilderEval Model.BuilderSpec Proofs.C16Proofs.
Import ListNotations.
Local Open Scope list_scope.
Local Open Scope string_scope.

(* ---------- the outcome monad ---------- *)
Lemma obind_ok {A B} (r : outcome A) (f : A -> outcome B) y :
  obind r f = GOk y -> exists a, r = GOk a /\ f a = GOk y.
Proof. destruct r; simpl; intros H; try discriminate. eauto. Qed.

Lemma seqb_eq a b : seqb a b = true <-> a = b.
Proof. unfold seqb. apply String.eqb_eq. Qed.
Lemma seqb_neq a b : seqb a b = false <-> a <> b.
Proof. unfold seqb. apply String.eqb_neq. Qed.

(* ---------- updating one field changes no other field ---------- *)
Lemma fields_upd_other fs n f fs' :
  fields_upd fs n f = GOk fs' -> forall g, g <> n -> gmap_find fs' g = gmap_find fs g.
Proof.
  revert fs'. induction fs as [|[k v] r IH]; simpl; intros fs' H g Hg; try discriminate.
  destruct (seqb k n) eqn:E.
  - apply obind_ok in H. destruct H as [v' [_ H]]. inversion H; subst. simpl.
    apply seqb_eq in E. subst. destruct (seqb n g) eqn:E2; auto. apply seqb_eq in E2. congruence.
  - apply obind_ok in H. destruct H as [r' [H1 H]]. inversion H; subst. simpl.
    destruct (seqb k g); auto.
Qed.

Lemma fields_upd_same fs n f fs' :
  fields_upd fs n f = GOk fs' ->
  exists old new, gmap_find fs n = Some old /\ f old = GOk new /\ gmap_find fs' n = Some new.
Proof.
  revert fs'. induction fs as [|[k v] r IH]; simpl; intros fs' H; try discriminate.
  destruct (seqb k n) eqn:E.
  - apply obind_ok in H. destruct H as [v' [H1 H]]. inversion H; subst. simpl. rewrite E. eauto.
  - apply obind_ok in H. destruct H as [r' [H1 H]]. inversion H; subst. simpl. rewrite E. eauto.
Qed.

Lemma fields_upd_keys fs n f fs' : fields_upd fs n f = GOk fs' -> map fst fs' = map fst fs.
Proof.
  revert fs'. induction fs as [|[k v] r IH]; simpl; intros fs' H; try discriminate.
  destruct (seqb k n).
  - apply obind_ok in H. destruct H as [v' [_ H]]. inversion H; subst. reflexivity.
  - apply obind_ok in H. destruct H as [r' [H1 H]]. inversion H; subst. simpl. f_equal. eauto.
Qed.

Lemma item_upd_frame env it v f v' :
  item_upd env it v f = GOk v' -> pi_id it <> "" ->
  forall g, g <> pi_id it -> obj_field v' g = obj_field v g.
Proof.
  unfold item_upd. intros H Hne g Hg.
  destruct (pi_root it || match pi_typehint it with Some _ => true | None => false end)%bool; try discriminate.
  destruct (seqb (pi_id it) "") eqn:E. { apply seqb_eq in E. contradiction. }
  destruct v; try discriminate.
  - destruct v; try discriminate. apply obind_ok in H. destruct H as [fs' [_ H]]. inversion H. reflexivity.
  - apply obind_ok in H. destruct H as [fs' [H1 H]]. inversion H; subst. simpl.
    eapply fields_upd_other; eauto.
Qed.

Lemma path_upd_frame env p v f v' :
  path_upd env p v f = GOk v' -> wf_path p = true ->
  forall g, ~ In g (path_head p) -> obj_field v' g = obj_field v g.
Proof.
  destruct p as [|it rest]; simpl; intros H W g Hg; try discriminate.
  assert (N : pi_id it <> "") by (intro E; rewrite E in W; discriminate).
  assert (G : g <> pi_id it) by (intro E; apply Hg; left; auto).
  eapply item_upd_frame; eauto.
Qed.

(* ---------- Go: one option call changes only the fields it names ---------- *)
Lemma go_nil_check_frame e env obj nc obj' :
  go_nil_check e env obj nc = GOk obj' -> wf_path (nc_path nc) = true ->
  forall g, ~ In g (path_head (nc_path nc)) -> obj_field obj' g = obj_field obj g.
Proof.
  unfold go_nil_check. intros H W g Hg.
  destruct (path_get env (nc_path nc) obj) as [x|]; try discriminate.
  destruct x; try (inversion H; subst; reflexivity).
  apply obind_ok in H. destruct H as [ev [_ H]]. eapply path_upd_frame; eauto.
Qed.

Lemma go_nil_checks_frame e env ncs : forall obj obj',
  (fix go (ncs : list nilcheck) (obj : gval) : outcome gval :=
     match ncs with [] => GOk obj | nc :: r => dob o' <- go_nil_check e env obj nc ; go r o' end) ncs obj = GOk obj' ->
  forallb (fun nc => wf_path (nc_path nc)) ncs = true ->
  forall g, ~ In g (flat_map (fun nc => path_head (nc_path nc)) ncs) -> obj_field obj' g = obj_field obj g.
Proof.
  induction ncs as [|nc r IH]; intros obj obj' H W g Hg.
  - inversion H. reflexivity.
  - apply obind_ok in H. destruct H as [o1 [H1 H2]]. simpl in W. apply andb_true_iff in W. destruct W as [W1 W2].
    simpl in Hg. rewrite (IH _ _ H2 W2 g). + eapply go_nil_check_frame; eauto. intro; apply Hg; apply in_or_app; auto.
    + intro; apply Hg; apply in_or_app; auto.
Qed.

Lemma go_assignment_frame e env st a st' fl :
  go_assignment e env st a = GOk (st', fl) -> wf_assignment a = true ->
  forall g, ~ In g (assignment_heads a) -> obj_field (bs_obj st') g = obj_field (bs_obj st) g.
Proof.
  unfold go_assignment. intros H W g Hg. unfold wf_assignment in W. apply andb_true_iff in W. destruct W as [W1 W2].
  apply obind_ok in H. destruct H as [obj [H1 H]].
  apply obind_ok in H. destruct H as [ov [H2 H]].
  assert (F1 : obj_field obj g = obj_field (bs_obj st) g).
  { eapply go_nil_checks_frame; eauto. intro; apply Hg; unfold assignment_heads; apply in_or_app; auto. }
  destruct ov as [v|].
  - apply obind_ok in H. destruct H as [obj' [H3 H]]. inversion H; subst. simpl. rewrite <- F1.
    eapply path_upd_frame; eauto. intro; apply Hg; unfold assignment_heads; apply in_or_app; auto.
  - inversion H; subst. simpl. exact F1.
Qed.

Lemma go_assignments_frame e env l : forall st st',
  go_assignments e env st l = GOk st' -> forallb wf_assignment l = true ->
  forall g, ~ In g (flat_map assignment_heads l) -> obj_field (bs_obj st') g = obj_field (bs_obj st) g.
Proof.
  induction l as [|a r IH]; simpl; intros st st' H W g Hg.
  - inversion H. reflexivity.
  - apply andb_true_iff in W. destruct W as [W1 W2].
    apply obind_ok in H. destruct H as [[s1 fl] [H1 H2]]. simpl in H2.
    assert (F : obj_field (bs_obj s1) g = obj_field (bs_obj st) g).
    { eapply go_assignment_frame; eauto. intro; apply Hg; apply in_or_app; auto. }
    destruct fl.
    + rewrite <- F. eapply IH; eauto. intro; apply Hg; apply in_or_app; auto.
    + inversion H2; subst. exact F.
Qed.

Theorem go_option_frame_proof e o st args st' :
  go_option e o st args = GOk st' -> wf_option o = true ->
  forall g, ~ In g (option_heads o) -> obj_field (bs_obj st') g = obj_field (bs_obj st) g.
Proof.
  unfold go_option. intros H W g Hg. apply obind_ok in H. destruct H as [env [_ H]].
  eapply go_assignments_frame; eauto.
Qed.

(* ---------- Python: the same frame ---------- *)
Lemma py_nil_check_frame e env obj nc obj' :
  py_nil_check e env obj nc = GOk obj' -> wf_path (nc_path nc) = true ->
  forall g, ~ In g (path_head (nc_path nc)) -> obj_field obj' g = obj_field obj g.
Proof.
  unfold py_nil_check. intros H W g Hg.
  destruct (path_get env (nc_path nc) obj) as [x|]; try discriminate.
  destruct x; try (inversion H; subst; reflexivity).
  apply obind_ok in H. destruct H as [ev [_ H]]. eapply path_upd_frame; eauto.
Qed.

Lemma py_nil_checks_frame e env ncs : forall obj obj',
  (fix go (ncs : list nilcheck) (obj : gval) : outcome gval :=
     match ncs with [] => GOk obj | nc :: r => dob o' <- py_nil_check e env obj nc ; go r o' end) ncs obj = GOk obj' ->
  forallb (fun nc => wf_path (nc_path nc)) ncs = true ->
  forall g, ~ In g (flat_map (fun nc => path_head (nc_path nc)) ncs) -> obj_field obj' g = obj_field obj g.
Proof.
  induction ncs as [|nc r IH]; intros obj obj' H W g Hg.
  - inversion H. reflexivity.
  - apply obind_ok in H. destruct H as [o1 [H1 H2]]. simpl in W. apply andb_true_iff in W. destruct W as [W1 W2].
    simpl in Hg. rewrite (IH _ _ H2 W2 g). + eapply py_nil_check_frame; eauto. intro; apply Hg; apply in_or_app; auto.
    + intro; apply Hg; apply in_or_app; auto.
Qed.

Lemma py_assignment_frame e env obj a obj' :
  py_assignment e env obj a = GOk obj' -> wf_assignment a = true ->
  forall g, ~ In g (assignment_heads a) -> obj_field obj' g = obj_field obj g.
Proof.
  unfold py_assignment. intros H W g Hg. unfold wf_assignment in W. apply andb_true_iff in W. destruct W as [W1 W2].
  apply obind_ok in H. destruct H as [oks [_ H]].
  destruct (negb (forallb (fun b : bool => b) oks)); try discriminate.
  apply obind_ok in H. destruct H as [obj1 [H1 H]].
  apply obind_ok in H. destruct H as [v [_ H]].
  assert (F1 : obj_field obj1 g = obj_field obj g).
  { eapply py_nil_checks_frame; eauto. intro; apply Hg; unfold assignment_heads; apply in_or_app; auto. }
  rewrite <- F1. eapply path_upd_frame; eauto. intro; apply Hg; unfold assignment_heads; apply in_or_app; auto.
Qed.

Lemma py_assignments_frame e env l : forall obj obj',
  py_assignments e env obj l = GOk obj' -> forallb wf_assignment l = true ->
  forall g, ~ In g (flat_map assignment_heads l) -> obj_field obj' g = obj_field obj g.
Proof.
  induction l as [|a r IH]; simpl; intros obj obj' H W g Hg.
  - inversion H. reflexivity.
  - apply andb_true_iff in W. destruct W as [W1 W2].
    apply obind_ok in H. destruct H as [o1 [H1 H2]].
    rewrite (IH _ _ H2 W2 g). + eapply py_assignment_frame; eauto. intro; apply Hg; apply in_or_app; auto.
    + intro; apply Hg; apply in_or_app; auto.
Qed.

Theorem py_option_frame_proof e o obj args obj' :
  py_option e o obj args = GOk obj' -> wf_option o = true ->
  forall g, ~ In g (option_heads o) -> obj_field obj' g = obj_field obj g.
Proof.
  unfold py_option. intros H W g Hg. apply obind_ok in H. destruct H as [env [_ H]].
  eapply py_assignments_frame; eauto.
Qed.

(* ---------- nil checks never alter what exists ---------- *)
Theorem go_nil_check_only_missing_proof e env obj nc x :
  path_get env (nc_path nc) obj = Some x -> x <> GNil -> go_nil_check e env obj nc = GOk obj.
Proof. unfold go_nil_check. intros H N. rewrite H. destruct x; congruence. Qed.

Theorem py_nil_check_only_missing_proof e env obj nc x :
  path_get env (nc_path nc) obj = Some x -> x <> GNil -> py_nil_check e env obj nc = GOk obj.
Proof. unfold py_nil_check. intros H N. rewrite H. destruct x; congruence. Qed.

(* ---------- the option FromAST derives for a field ---------- *)
Lemma fields_upd_set fs n (f : gval -> outcome gval) old new :
  gmap_find fs n = Some old -> f old = GOk new ->
  exists fs', fields_upd fs n f = GOk fs' /\ gmap_find fs' n = Some new /\
              (forall g, g <> n -> gmap_find fs' g = gmap_find fs g) /\ map fst fs' = map fst fs.
Proof.
  induction fs as [|[k v] r IH]; simpl; intros H Hf; try discriminate.
  destruct (seqb k n) eqn:E.
  - inversion H; subst. rewrite Hf. simpl. eexists. split; [reflexivity|]. simpl. rewrite E. repeat split.
    intros g Hg. apply seqb_eq in E. subst. destruct (seqb n g) eqn:E2; auto. apply seqb_eq in E2. congruence.
  - destruct (IH H Hf) as [fs' [A [B [C D]]]]. rewrite A. simpl. eexists. split; [reflexivity|]. simpl. rewrite E.
    repeat split; auto. + intros g Hg. destruct (seqb k g); auto. + f_equal. exact D.
Qed.

Lemma derived_option_shape f o :
  struct_field_to_option f = Ok o ->
  exists cs, o = mkOption (f_name f) (f_comments f) [mkArg (f_name f) (f_type f)]
                   [mkAssignment [mkPathItem (f_name f) None (f_type f) None false]
                                 (AValue (Some (mkArg (f_name f) (f_type f))) DNil None) "direct" cs []]
                   (match dflt (ty_attrs (f_type f)) with DNil => None | d => Some [d] end).
Proof.
  unfold struct_field_to_option, field_assignment. intros H.
  destruct (mapM _ (scalar_constraints (f_type f))) as [cs| | |] eqn:E; simpl in H; try discriminate.
  inversion H. eauto.
Qed.

Theorem go_derived_option_sets_proof e f o st fs old av v :
  struct_field_to_option f = Ok o -> f_name f <> "" ->
  bs_obj st = GStruct fs -> gmap_find fs (f_name f) = Some old ->
  arg_value e [(f_name f, av)] (mkArg (f_name f) (f_type f)) = GOk (Some v) ->
  exists fs', go_option e o st [av] = GOk (mkBState (GStruct fs') (bs_errors st)) /\
              gmap_find fs' (f_name f) = Some (maybe_ptr (f_type f) v) /\
              (forall g, g <> f_name f -> gmap_find fs' g = gmap_find fs g) /\
              map fst fs' = map fst fs.
Proof.
  intros D N S F A. destruct (derived_option_shape _ _ D) as [cs ->].
  destruct (fields_upd_set fs (f_name f) (fun _ => GOk (maybe_ptr (f_type f) v)) old _ F eq_refl) as [fs' [U [G1 [G2 G3]]]].
  exists fs'. split; [|auto].
  unfold go_option, bind_args. simpl. unfold go_assignment. simpl. rewrite S.
  unfold go_value. simpl. unfold path_last_type. simpl.
  unfold go_simple_value. rewrite A. simpl.
  unfold item_upd. simpl.
  destruct (seqb (f_name f) "") eqn:E. { apply seqb_eq in E. contradiction. }
  unfold assign_method. simpl. rewrite U. simpl. reflexivity.
Qed.

(* a nested builder that fails: the error is stored in builder.errors, the object is left as it was *)
Theorem go_nested_failure_dropped_proof e f o st av :
  struct_field_to_option f = Ok o ->
  arg_value e [(f_name f, av)] (mkArg (f_name f) (f_type f)) = GOk None ->
  go_option e o st [av] = GOk (mkBState (bs_obj st) (bs_errors st ++ [f_name f])).
Proof.
  intros D A. destruct (derived_option_shape _ _ D) as [cs ->].
  unfold go_option, bind_args. simpl. unfold go_assignment. simpl.
  unfold go_value. simpl. unfold go_simple_value. rewrite A. simpl. reflexivity.
Qed.

Theorem go_nested_failure_not_reported_proof e b f o st av :
  struct_field_to_option f = Ok o ->
  arg_value e [(f_name f, av)] (mkArg (f_name f) (f_type f)) = GOk None ->
  exists st', go_option e o st [av] = GOk st' /\ go_build e b st' = go_build e b st.
Proof.
  intros D A. eexists. split. - eapply go_nested_failure_dropped_proof; eauto. - reflexivity.
Qed.

(* ---------- Python: the derived option checks the field's constraints, then sets the field ---------- *)
Fixpoint holds_all (cs : list constraint) (v : gval) : option (list bool) :=
  match cs with
  | [] => Some []
  | c :: r => match constraint_holds c v, holds_all r v with
              | Some b, Some bs => Some (b :: bs)
              | _, _ => None
              end
  end.

Lemma constraint_holds_head c x rest v :
  c_args c = x :: rest -> constraint_holds {| c_op := c_op c ; c_args := [x] |} v = constraint_holds c v.
Proof. intros H. unfold constraint_holds. simpl. rewrite H. reflexivity. Qed.

Lemma derived_constraints_eval n t cs0 : forall cs v bs,
  mapM (fun c => match c_args c with
                 | [] => Panic "index out of range [0] with length 0"
                 | x :: _ => Ok (mkAConstraint (mkArg n t) (c_op c) x)
                 end) cs0 = Ok cs ->
  holds_all cs0 v = Some bs ->
  omapM (py_constraint [(n, AVal v)]) cs = GOk bs.
Proof.
  induction cs0 as [|c r IH]; simpl; intros cs v bs M H.
  - inversion M; inversion H. reflexivity.
  - destruct (c_args c) as [|x rest] eqn:EA; simpl in M; try discriminate.
    destruct (mapM _ r) as [cs'| | |] eqn:EM; simpl in M; try discriminate. inversion M; subst. clear M.
    destruct (constraint_holds c v) as [b|] eqn:EH; try discriminate.
    destruct (holds_all r v) as [bs'|] eqn:EB; try discriminate. inversion H; subst. clear H.
    simpl. unfold py_constraint at 1. simpl. rewrite (proj2 (seqb_eq n n) eq_refl).
    rewrite (constraint_holds_head c x rest v EA). rewrite EH. simpl.
    rewrite (IH cs' v bs' eq_refl EB). reflexivity.
Qed.

Lemma derived_option_constraints f o :
  struct_field_to_option f = Ok o ->
  exists cs, mapM (fun c => match c_args c with
                            | [] => Panic "index out of range [0] with length 0"
                            | x :: _ => Ok (mkAConstraint (mkArg (f_name f) (f_type f)) (c_op c) x)
                            end) (scalar_constraints (f_type f)) = Ok cs /\
             o = mkOption (f_name f) (f_comments f) [mkArg (f_name f) (f_type f)]
                   [mkAssignment [mkPathItem (f_name f) None (f_type f) None false]
                                 (AValue (Some (mkArg (f_name f) (f_type f))) DNil None) "direct" cs []]
                   (match dflt (ty_attrs (f_type f)) with DNil => None | d => Some [d] end).
Proof.
  unfold struct_field_to_option, field_assignment. intros H.
  destruct (mapM _ (scalar_constraints (f_type f))) as [cs| | |] eqn:E; simpl in H; try discriminate.
  inversion H. eauto.
Qed.

Theorem py_derived_option_sets_proof e f o fs old v bs :
  struct_field_to_option f = Ok o -> f_name f <> "" ->
  gmap_find fs (f_name f) = Some old ->
  holds_all (scalar_constraints (f_type f)) v = Some bs -> forallb (fun b => b) bs = true ->
  exists fs', py_option e o (GStruct fs) [AVal v] = GOk (GStruct fs') /\
              gmap_find fs' (f_name f) = Some v /\
              (forall g, g <> f_name f -> gmap_find fs' g = gmap_find fs g) /\
              map fst fs' = map fst fs.
Proof.
  intros D N F H A. destruct (derived_option_constraints _ _ D) as [cs [M ->]].
  destruct (fields_upd_set fs (f_name f) (fun _ => GOk v) old _ F eq_refl) as [fs' [U [G1 [G2 G3]]]].
  exists fs'. split; [|auto].
  unfold py_option, bind_args. simpl. unfold py_assignment. simpl.
  rewrite (derived_constraints_eval _ _ _ _ _ _ M H). simpl. rewrite A. simpl.
  unfold py_value. simpl. unfold py_simple_value, py_arg_value. simpl.
  rewrite (proj2 (seqb_eq (f_name f) (f_name f)) eq_refl). simpl.
  unfold item_upd. simpl.
  destruct (seqb (f_name f) "") eqn:E. { apply seqb_eq in E. contradiction. }
  unfold py_assign_method. simpl. rewrite U. reflexivity.
Qed.

Theorem py_derived_option_raises_proof e f o obj v bs :
  struct_field_to_option f = Ok o ->
  holds_all (scalar_constraints (f_type f)) v = Some bs -> forallb (fun b => b) bs = false ->
  py_option e o obj [AVal v] = GPanic.
Proof.
  intros D H A. destruct (derived_option_constraints _ _ D) as [cs [M ->]].
  unfold py_option, bind_args. simpl. unfold py_assignment. simpl.
  rewrite (derived_constraints_eval _ _ _ _ _ _ M H). simpl. rewrite A. reflexivity.
Qed.

(* a violated constraint makes forallb false *)
Lemma holds_all_violation cs v bs c :
  holds_all cs v = Some bs -> In c cs -> constraint_holds c v = Some false -> forallb (fun b => b) bs = false.
Proof.
  revert bs. induction cs as [|c0 r IH]; simpl; intros bs H I V; [contradiction|].
  destruct (constraint_holds c0 v) as [b|] eqn:E; try discriminate.
  destruct (holds_all r v) as [bs'|] eqn:E2; try discriminate. inversion H; subst. simpl.
  destruct I as [->|I].
  - rewrite V in E. inversion E. reflexivity.
  - rewrite (IH bs' eq_refl I V). apply andb_false_r.
Qed.

(* ---------- constructor constants ---------- *)
Lemma const_assignment_shape a h c :
  const_assignment a = Some (h, c) ->
  exists t ix cs, a = mkAssignment [mkPathItem h None t None false] (AValue None c None) "direct" cs []
                  /\ c <> DNil /\ h <> "" /\ ix = tt.
Proof.
  unfold const_assignment. destruct a as [p v m cs ncs]; simpl.
  destruct p as [|it [|]]; try discriminate. destruct v as [[a|] c0 [env|]]; try discriminate.
  destruct ncs; try discriminate.
  destruct it as [id ix t th rt]; simpl.
  destruct (dyn_is_nil c0) eqn:E1; simpl; try discriminate.
  destruct (seqb id "") eqn:E2; simpl; try discriminate.
  destruct (seqb m "direct") eqn:E3; simpl; try discriminate.
  destruct ix; simpl; try discriminate. destruct th; simpl; try discriminate. destruct rt; simpl; try discriminate.
  intros H. inversion H; subst. apply seqb_eq in E3. subst. exists t, tt, cs. repeat split.
  - intro X. subst. discriminate.
  - intro X. subst. discriminate.
Qed.

Lemma go_simple_value_const e env into c :
  c <> DNil ->
  go_simple_value e env into None c =
  (dob v <- const_gval c ; GOk (Some (if (t_nullable into && negb (is_array into))%bool then GPtr v else v))).
Proof. intros N. destruct c; try congruence; reflexivity. Qed.

Definition is_struct_val (v : gval) : bool := match v with GStruct _ => true | _ => false end.

Lemma go_direct_single_field (env : arg_env) st h t (val : option gval) st' fl :
  h <> "" -> is_struct_val (bs_obj st) = true ->
  (dob ov <- GOk val ;
   match ov with
   | None => GOk (mkBState (bs_obj st) (bs_errors st ++ [h]), false)
   | Some v => dob obj' <- path_upd env [mkPathItem h None t None false] (bs_obj st) (assign_method "direct" v) ;
               GOk (mkBState obj' (bs_errors st), true)
   end) = GOk (st', fl) ->
  forall v, val = Some v ->
  fl = true /\ bs_errors st' = bs_errors st /\ obj_field (bs_obj st') h = Some v.
Proof.
  intros Nh S H v ->. simpl in H.
  apply obind_ok in H. destruct H as [obj' [H1 H]]. inversion H; subst. simpl.
  unfold item_upd in H1. simpl in H1.
  destruct (seqb h "") eqn:E. { apply seqb_eq in E. contradiction. }
  destruct (bs_obj st) as [| | | | | |x| | |fs|] eqn:EO; try discriminate.
  apply obind_ok in H1. destruct H1 as [fs' [U H1]]. inversion H1; subst.
  destruct (fields_upd_same _ _ _ _ U) as [old [new [_ [Hn Hf]]]].
  unfold assign_method in Hn. simpl in Hn. inversion Hn; subst. auto.
Qed.

Lemma go_const_assignment e env st a h c st' fl :
  const_assignment a = Some (h, c) -> is_struct_val (bs_obj st) = true ->
  go_assignment e env st a = GOk (st', fl) ->
  fl = true /\ bs_errors st' = bs_errors st /\
  exists v, go_const_value (path_last_type (as_path a)) c = GOk v /\ obj_field (bs_obj st') h = Some v.
Proof.
  intros C S H. destruct (const_assignment_shape _ _ _ C) as [t [_ [cs [-> [Nc [Nh _]]]]]].
  unfold go_assignment in H. cbn [as_nilchecks as_path as_method obind] in H.
  unfold go_value in H. cbn [as_value as_path] in H.
  unfold path_last_type in *. cbn [List.last pi_type as_path] in *.
  unfold go_const_value.
  destruct c; try congruence; unfold go_simple_value in H;
    match type of H with
    | context [const_gval ?d] => destruct (const_gval d) as [v| | |] eqn:EV; try discriminate
    end;
    cbn [obind] in H |- *;
    (destruct (go_direct_single_field env st h t (Some (if (t_nullable t && negb (is_array t))%bool then GPtr v else v)) st' fl Nh S H _ eq_refl) as [A [B D]];
     repeat split; auto; eexists; split; [reflexivity|exact D]).
Qed.

(* the object under construction stays a struct *)
Lemma item_upd_struct env it v f v' : item_upd env it v f = GOk v' -> pi_id it <> "" -> is_struct_val v = true -> is_struct_val v' = true.
Proof.
  unfold item_upd. intros H N S.
  destruct (pi_root it || match pi_typehint it with Some _ => true | None => false end)%bool; try discriminate.
  destruct (seqb (pi_id it) "") eqn:E. { apply seqb_eq in E. contradiction. }
  destruct v; try discriminate. apply obind_ok in H. destruct H as [fs' [_ H]]. inversion H. reflexivity.
Qed.

Lemma path_upd_struct env p v f v' : path_upd env p v f = GOk v' -> wf_path p = true -> is_struct_val v = true -> is_struct_val v' = true.
Proof.
  destruct p as [|it rest]; simpl; intros H W S; try discriminate.
  eapply item_upd_struct; eauto. intro E. rewrite E in W. discriminate.
Qed.

Lemma go_nil_checks_struct e env ncs : forall obj obj',
  (fix go (ncs : list nilcheck) (obj : gval) : outcome gval :=
     match ncs with [] => GOk obj | nc :: r => dob o' <- go_nil_check e env obj nc ; go r o' end) ncs obj = GOk obj' ->
  forallb (fun nc => wf_path (nc_path nc)) ncs = true -> is_struct_val obj = true -> is_struct_val obj' = true.
Proof.
  induction ncs as [|nc r IH]; intros obj obj' H W S.
  - inversion H; subst. exact S.
  - apply obind_ok in H. destruct H as [o1 [H1 H2]]. simpl in W. apply andb_true_iff in W. destruct W as [W1 W2].
    eapply IH; eauto. unfold go_nil_check in H1.
    destruct (path_get env (nc_path nc) obj) as [x|]; try discriminate.
    destruct x; try (inversion H1; subst; exact S).
    apply obind_ok in H1. destruct H1 as [ev [_ H1]]. eapply path_upd_struct; eauto.
Qed.

Lemma go_assignment_struct e env st a st' fl :
  go_assignment e env st a = GOk (st', fl) -> wf_assignment a = true ->
  is_struct_val (bs_obj st) = true -> is_struct_val (bs_obj st') = true.
Proof.
  unfold go_assignment. intros H W S. unfold wf_assignment in W. apply andb_true_iff in W. destruct W as [W1 W2].
  apply obind_ok in H. destruct H as [obj [H1 H]]. apply obind_ok in H. destruct H as [ov [H2 H]].
  assert (S1 : is_struct_val obj = true) by (eapply go_nil_checks_struct; eauto).
  destruct ov as [v|].
  - apply obind_ok in H. destruct H as [obj' [H3 H]]. inversion H; subst. simpl. eapply path_upd_struct; eauto.
  - inversion H; subst. exact S1.
Qed.

Lemma go_assignments_struct e env l : forall st st',
  go_assignments e env st l = GOk st' -> forallb wf_assignment l = true ->
  is_struct_val (bs_obj st) = true -> is_struct_val (bs_obj st') = true.
Proof.
  induction l as [|a r IH]; simpl; intros st st' H W S.
  - inversion H; subst. exact S.
  - apply andb_true_iff in W. destruct W as [W1 W2].
    apply obind_ok in H. destruct H as [[s1 fl] [H1 H2]]. simpl in H2.
    assert (S1 := go_assignment_struct _ _ _ _ _ _ H1 W1 S).
    destruct fl; [eapply IH; eauto | inversion H2; subst; exact S1].
Qed.

Lemma go_option_struct e o st args st' :
  go_option e o st args = GOk st' -> wf_option o = true ->
  is_struct_val (bs_obj st) = true -> is_struct_val (bs_obj st') = true.
Proof.
  unfold go_option. intros H W S. apply obind_ok in H. destruct H as [env [_ H]]. eapply go_assignments_struct; eauto.
Qed.

Lemma str_in_In x l : str_in x l = true <-> In x l.
Proof.
  induction l as [|y r IH]; simpl. - split; [discriminate|contradiction].
  - rewrite orb_true_iff, IH, String.eqb_eq. tauto.
Qed.

Lemma str_mem_In x l : str_mem x l = true <-> In x l.
Proof.
  unfold str_mem. rewrite existsb_exists. split.
  - intros [y [I E]]. apply seqb_eq in E. subst. exact I.
  - intros I. exists x. split; auto. apply seqb_eq. reflexivity.
Qed.

Lemma const_assignment_heads a h c : const_assignment a = Some (h, c) -> assignment_heads a = [h] /\ wf_assignment a = true.
Proof.
  intros C. destruct (const_assignment_shape _ _ _ C) as [t [_ [cs [-> [_ [Nh _]]]]]].
  unfold assignment_heads, wf_assignment. simpl. split; auto.
  destruct (seqb h "") eqn:E; auto. apply seqb_eq in E. contradiction.
Qed.

Lemma ctor_consts e env l : forall st st',
  go_assignments e env st l = GOk st' ->
  forallb (fun a => match const_assignment a with Some _ => true | None => false end) l = true ->
  str_nodup (flat_map assignment_heads l) = true -> is_struct_val (bs_obj st) = true ->
  is_struct_val (bs_obj st') = true /\
  forall a h c, In a l -> const_assignment a = Some (h, c) ->
    exists v, go_const_value (path_last_type (as_path a)) c = GOk v /\ obj_field (bs_obj st') h = Some v.
Proof.
  induction l as [|a0 r IH]; simpl; intros st st' H C N S.
  - inversion H; subst. split; auto. intros a h c [].
  - apply andb_true_iff in C. destruct C as [C0 C].
    destruct (const_assignment a0) as [[h0 c0]|] eqn:E0; try discriminate.
    destruct (const_assignment_heads _ _ _ E0) as [Hh W0]. rewrite Hh in N. simpl in N.
    apply andb_true_iff in N. destruct N as [N0 N].
    apply obind_ok in H. destruct H as [[s1 fl] [H1 H2]]. simpl in H2.
    destruct (go_const_assignment _ _ _ _ _ _ _ _ E0 S H1) as [-> [_ [v0 [V0 F0]]]].
    assert (S1 := go_assignment_struct _ _ _ _ _ _ H1 W0 S).
    destruct (IH _ _ H2 C N S1) as [S' R]. split; auto.
    intros a h c [<-|I] E.
    + rewrite E0 in E. inversion E; subst. exists v0. split; auto. rewrite <- F0.
      eapply go_assignments_frame; eauto.
      * clear -C. induction r as [|x r IH]; simpl in *; auto. apply andb_true_iff in C. destruct C as [C1 C2].
        destruct (const_assignment x) as [[hx cx]|] eqn:Ex; try discriminate.
        destruct (const_assignment_heads _ _ _ Ex) as [_ Wx]. rewrite Wx. simpl. auto.
      * intro I. apply str_in_In in I. rewrite I in N0. discriminate.
    + eapply R; eauto.
Qed.

Lemma option_by_name_in b n o : option_by_name b n = Some o -> In o (b_options b).
Proof. unfold option_by_name. intros H. apply find_some in H. tauto. Qed.

Lemma go_calls_frame e b : forall calls st st',
  go_calls e b st calls = GOk st' -> forallb wf_option (b_options b) = true ->
  forall g, (forall o, In o (b_options b) -> ~ In g (option_heads o)) ->
  obj_field (bs_obj st') g = obj_field (bs_obj st) g.
Proof.
  induction calls as [|[n args] r IH]; simpl; intros st st' H W g Hg.
  - inversion H. reflexivity.
  - destruct (option_by_name b n) as [o|] eqn:EO; try discriminate.
    apply obind_ok in H. destruct H as [s1 [H1 H2]].
    assert (I := option_by_name_in _ _ _ EO).
    rewrite (IH _ _ H2 W g Hg). eapply go_option_frame_proof; eauto.
    rewrite forallb_forall in W. auto.
Qed.

Theorem go_constants_present_proof e b st0 calls stn :
  const_safe b = true ->
  (forall d, default_of e (builder_for_pkg b) (builder_for_name b) = Some d -> is_struct_val d = true) ->
  go_new_builder e b [] = GOk st0 -> go_calls e b st0 calls = GOk stn ->
  forall a h c, In a (ct_assignments (b_ctor b)) -> const_assignment a = Some (h, c) ->
  exists v, go_const_value (path_last_type (as_path a)) c = GOk v /\ obj_field (bs_obj stn) h = Some v.
Proof.
  unfold const_safe. intros CS D N R a h c I E.
  apply andb_true_iff in CS. destruct CS as [CS W]. apply andb_true_iff in CS. destruct CS as [CS O].
  apply andb_true_iff in CS. destruct CS as [C ND].
  unfold wf_builder in W. apply andb_true_iff in W. destruct W as [WO WC].
  unfold go_new_builder in N.
  destruct (b_props b); [|destruct (b_factories b); discriminate].
  destruct (default_of e (builder_for_pkg b) (builder_for_name b)) as [d|] eqn:ED; [|destruct (b_factories b); discriminate].
  assert (N' : (dob env <- bind_args (ct_args (b_ctor b)) [] ; go_assignments e env (mkBState d []) (ct_assignments (b_ctor b))) = GOk st0)
    by (destruct (b_factories b); exact N).
  apply obind_ok in N'. destruct N' as [env [_ N']].
  destruct (ctor_consts _ _ _ _ _ N' C ND (D d eq_refl)) as [S0 R0].
  destruct (R0 a h c I E) as [v [V F]]. exists v. split; auto. rewrite <- F.
  eapply go_calls_frame; eauto.
  intros o Io Ih. rewrite forallb_forall in O. specialize (O o Io). rewrite forallb_forall in O.
  specialize (O h Ih). apply negb_true_iff in O.
  assert (X : In h (ctor_heads b)).
  { unfold ctor_heads. apply in_flat_map. exists a. split; auto.
    destruct (const_assignment_heads _ _ _ E) as [-> _]. left; auto. }
  apply str_mem_In in X. congruence.
Qed.

(* ---------- call sequences on a builder as FromAST derives it ---------- *)
Definition derived_builder (b : builder) : Prop :=
  (forall o, In o (b_options b) -> exists f, struct_field_to_option f = Ok o /\ f_name f <> "") /\
  NoDup (map op_name (b_options b)).

Lemma derived_option_heads f o : struct_field_to_option f = Ok o -> f_name f <> "" ->
  option_heads o = [f_name f] /\ wf_option o = true /\ op_name o = f_name f.
Proof.
  intros D N. destruct (derived_option_shape _ _ D) as [cs ->]. unfold option_heads, wf_option, wf_assignment. simpl.
  repeat split; auto. destruct (seqb (f_name f) "") eqn:E; auto. apply seqb_eq in E. contradiction.
Qed.

Lemma derived_builder_wf b : derived_builder b -> forallb wf_option (b_options b) = true.
Proof.
  intros [D _]. apply forallb_forall. intros o I. destruct (D o I) as [f [A B]].
  destruct (derived_option_heads _ _ A B) as [_ [W _]]. exact W.
Qed.

Lemma go_derived_option_result e f o st av st1 :
  struct_field_to_option f = Ok o -> f_name f <> "" -> is_struct_val (bs_obj st) = true ->
  go_option e o st [av] = GOk st1 ->
  forall v, arg_value e [(f_name f, av)] (mkArg (f_name f) (f_type f)) = GOk (Some v) ->
  obj_field (bs_obj st1) (f_name f) = Some (maybe_ptr (f_type f) v).
Proof.
  intros D N S H v A. destruct (derived_option_shape _ _ D) as [cs ->].
  unfold go_option, bind_args in H. simpl in H. apply obind_ok in H. destruct H as [[s1 fl] [H1 H2]].
  unfold go_assignment in H1. cbn [as_nilchecks as_path as_method obind] in H1.
  unfold go_value in H1. cbn [as_value as_path] in H1. unfold path_last_type in H1. cbn [List.last pi_type] in H1.
  unfold go_simple_value in H1. rewrite A in H1. cbn [obind] in H1.
  destruct (go_direct_single_field _ st (f_name f) (f_type f) (Some (maybe_ptr (f_type f) v)) s1 fl N S H1 _ eq_refl) as [-> [_ F]].
  simpl in H2. inversion H2; subst. exact F.
Qed.

Lemma nodup_names_unique (l : list boption) o1 o2 :
  NoDup (map op_name l) -> In o1 l -> In o2 l -> op_name o1 = op_name o2 -> o1 = o2.
Proof.
  induction l as [|x r IH]; simpl; intros N I1 I2 E; [contradiction|].
  inversion N; subst. destruct I1 as [<-|I1], I2 as [<-|I2]; auto.
  - exfalso. apply H1. rewrite E. apply in_map. exact I2.
  - exfalso. apply H1. rewrite <- E. apply in_map. exact I1.
Qed.

Lemma option_by_name_name b n o : option_by_name b n = Some o -> op_name o = n.
Proof. unfold option_by_name. intros H. apply find_some in H. destruct H as [_ H]. apply seqb_eq in H. exact H. Qed.

Theorem go_sequence_last_write_proof e b : forall calls st stn,
  derived_builder b -> is_struct_val (bs_obj st) = true ->
  go_calls e b st calls = GOk stn ->
  forall f o, In o (b_options b) -> struct_field_to_option f = Ok o -> f_name f <> "" ->
    match last_call (f_name f) calls with
    | None => obj_field (bs_obj stn) (f_name f) = obj_field (bs_obj st) (f_name f)
    | Some [av] =>
        match arg_value e [(f_name f, av)] (mkArg (f_name f) (f_type f)) with
        | GOk (Some v) => obj_field (bs_obj stn) (f_name f) = Some (maybe_ptr (f_type f) v)
        | _ => True
        end
    | Some _ => True
    end.
Proof.
  induction calls as [|[n args] r IH]; simpl; intros st stn DB S H f o I D N.
  - inversion H. reflexivity.
  - destruct (option_by_name b n) as [o1|] eqn:EO; try discriminate.
    apply obind_ok in H. destruct H as [s1 [H1 H2]].
    assert (I1 := option_by_name_in _ _ _ EO). assert (N1 := option_by_name_name _ _ _ EO).
    destruct DB as [DO ND]. destruct (DO o1 I1) as [f1 [D1 Nf1]].
    destruct (derived_option_heads _ _ D1 Nf1) as [Hh [W1 Nm1]].
    assert (S1 := go_option_struct _ _ _ _ _ H1 W1 S).
    specialize (IH s1 stn (conj DO ND) S1 H2 f o I D N).
    destruct (last_call (f_name f) r) as [x|] eqn:EL; [exact IH|].
    destruct (seqb n (f_name f)) eqn:En.
    + apply seqb_eq in En. subst n.
      destruct (derived_option_heads _ _ D N) as [_ [_ Nm]].
      assert (o1 = o) by (eapply nodup_names_unique; eauto; congruence). subst o1.
      destruct args as [|av [|]]; auto.
      destruct (arg_value e [(f_name f, av)] (mkArg (f_name f) (f_type f))) as [[v|]| | |] eqn:EA; auto.
      rewrite IH. eapply (go_derived_option_result e f o st av s1); eauto.
    + apply seqb_neq in En. rewrite IH. eapply go_option_frame_proof; eauto.
      rewrite Hh. simpl. intros [X|[]]. apply En. congruence.
Qed.

(* ---------- the builders FromAST derives have this shape ---------- *)
Definition role_ok (f : field) (r : field_role) : Prop :=
  match r with
  | RoleOption o => struct_field_to_option f = Ok o
  | RoleConstant a => exists v, v <> DNil /\ a = constant_assignment f v
  | RoleNothing => True
  end.

Lemma role_spec fuel ss f r : field_role_of fuel ss f = Ok r -> role_ok f r.
Proof.
  unfold field_role_of.
  assert (O : forall r, (do o <- struct_field_to_option f ; Ok (RoleOption o)) = Ok r -> role_ok f r).
  { intros r0 H. destruct (struct_field_to_option f) as [o| | |] eqn:E; simpl in H; try discriminate.
    inversion H; subst. exact E. }
  destruct (f_type f) eqn:ET; try (apply O).
  - (* TRef *)
    destruct (f_required f && negb (nullable a))%bool; [|apply O].
    destruct (resolve_to_type fuel ss (TRef a pkg name)) as [rt| | |]; simpl; try discriminate.
    destruct rt; try (apply O).
    destruct value; try (apply O); intros H; inversion H; subst; simpl; eexists; split; eauto; discriminate.
  - intros H. inversion H. exact I.
  - destruct value; try (apply O); intros H; inversion H; subst; simpl; eexists; split; eauto; discriminate.
Qed.

Lemma const_assignment_constant f v :
  v <> DNil -> f_name f <> "" -> const_assignment (constant_assignment f v) = Some (f_name f, v).
Proof.
  intros Nv Nf. unfold const_assignment, constant_assignment. simpl.
  destruct (seqb (f_name f) "") eqn:E. { apply seqb_eq in E. contradiction. }
  destruct v; try congruence; reflexivity.
Qed.

Definition role_opts (roles : list field_role) : list boption :=
  flat_map (fun r => match r with RoleOption op => [op] | _ => [] end) roles.
Definition role_consts (roles : list field_role) : list assignment :=
  flat_map (fun r => match r with RoleConstant a => [a] | _ => [] end) roles.

Lemma role_opts_in fs roles : Forall2 role_ok fs roles ->
  forall o, In o (role_opts roles) -> exists f, In f fs /\ struct_field_to_option f = Ok o.
Proof.
  induction 1 as [|f r fs rs Hr _ IH]; simpl; intros o I; [contradiction|].
  unfold role_opts in I. simpl in I. apply in_app_or in I. destruct I as [I|I].
  - destruct r; simpl in I; try contradiction. destruct I as [<-|[]]. exists f. split; auto.
  - destruct (IH o I) as [g [A B]]. exists g. split; auto.
Qed.

Lemma role_consts_in fs roles : Forall2 role_ok fs roles ->
  forall a, In a (role_consts roles) -> exists f v, In f fs /\ v <> DNil /\ a = constant_assignment f v.
Proof.
  induction 1 as [|f r fs rs Hr _ IH]; simpl; intros a I; [contradiction|].
  unfold role_consts in I. simpl in I. apply in_app_or in I. destruct I as [I|I].
  - destruct r; simpl in I; try contradiction. destruct I as [<-|[]]. destruct Hr as [v [A B]].
    exists f, v. repeat split; auto.
  - destruct (IH a I) as [g [v [A B]]]. exists g, v. split; auto.
Qed.

Lemma derived_name f o : struct_field_to_option f = Ok o -> op_name o = f_name f.
Proof. intros D. destruct (derived_option_shape _ _ D) as [cs ->]. reflexivity. Qed.

Lemma role_opts_nodup fs roles : Forall2 role_ok fs roles -> NoDup (map f_name fs) ->
  NoDup (map op_name (role_opts roles)).
Proof.
  induction 1 as [|f r fs rs Hr HF IH]; simpl; intros ND; [constructor|].
  inversion ND; subst. unfold role_opts. simpl. rewrite map_app. fold (role_opts rs).
  destruct r; simpl; auto. constructor; auto.
  intros I. apply in_map_iff in I. destruct I as [o' [E I]].
  destruct (role_opts_in _ _ HF o' I) as [g [A B]]. apply H1. rewrite <- (derived_name _ _ Hr), <- E, (derived_name _ _ B).
  apply in_map. exact A.
Qed.

Definition const_head (a : assignment) : list string := path_head (as_path a).

Lemma role_consts_heads fs roles : Forall2 role_ok fs roles ->
  forall h, In h (flat_map assignment_heads (role_consts roles)) -> In h (map f_name fs).
Proof.
  intros F h I. apply in_flat_map in I. destruct I as [a [Ia Ih]].
  destruct (role_consts_in _ _ F a Ia) as [f [v [A [B ->]]]]. simpl in Ih. destruct Ih as [<-|[]].
  apply in_map. exact A.
Qed.

Lemma role_consts_nodup fs roles : Forall2 role_ok fs roles -> NoDup (map f_name fs) ->
  NoDup (flat_map assignment_heads (role_consts roles)).
Proof.
  induction 1 as [|f r fs rs Hr HF IH]; simpl; intros ND; [constructor|].
  inversion ND; subst. unfold role_consts. simpl. rewrite flat_map_app. fold (role_consts rs).
  destruct r; simpl; auto. destruct Hr as [v [A ->]]. simpl. constructor; auto.
  intros I. apply H1. eapply role_consts_heads; eauto.
Qed.

Lemma nodup_str_nodup l : NoDup l -> str_nodup l = true.
Proof.
  induction 1 as [|x l N _ IH]; simpl; auto. rewrite IH, andb_true_r. apply negb_true_iff.
  destruct (str_in x l) eqn:E; auto. apply str_in_In in E. contradiction.
Qed.

Lemma role_disjoint fs roles : Forall2 role_ok fs roles -> NoDup (map f_name fs) ->
  forall o h, In o (role_opts roles) -> In h (option_heads o) -> (forall f, In f fs -> f_name f <> "") ->
  ~ In h (flat_map assignment_heads (role_consts roles)).
Proof.
  induction 1 as [|f r fs rs Hr HF IH]; simpl; intros ND o h Io Ih NE; [contradiction|].
  inversion ND; subst. unfold role_opts in Io. simpl in Io. unfold role_consts. simpl. rewrite flat_map_app.
  fold (role_consts rs). fold (role_opts rs) in Io.
  assert (NEr : forall g, In g fs -> f_name g <> "") by (intros; apply NE; right; auto).
  intros J. apply in_app_or in J. apply in_app_or in Io. destruct Io as [Io|Io].
  - (* the option of this field: its head is f_name f, which no later constant uses *)
    destruct r; simpl in Io; try contradiction. destruct Io as [<-|[]].
    destruct (derived_option_heads _ _ Hr (NE f (or_introl eq_refl))) as [Hh _]. rewrite Hh in Ih.
    destruct Ih as [<-|[]]. destruct J as [J|J]; [simpl in J; contradiction|].
    apply H1. eapply role_consts_heads; eauto.
  - destruct J as [J|J].
    + destruct r; simpl in J; try contradiction. destruct Hr as [v [A ->]]. simpl in J. destruct J as [<-|[]].
      destruct (role_opts_in _ _ HF o Io) as [g [A1 B1]].
      destruct (derived_option_heads _ _ B1 (NEr g A1)) as [Hh _]. rewrite Hh in Ih. destruct Ih as [E|[]].
      apply H1. rewrite <- E. apply in_map. exact A1.
    + eapply IH; eauto.
Qed.

Lemma roles_ok fuel ss fs roles : mapM (field_role_of fuel ss) fs = Ok roles -> Forall2 role_ok fs roles.
Proof. intros EM. apply C16Proofs.mapM_ok_inv in EM. induction EM; constructor; auto. eapply role_spec; eauto. Qed.

Theorem derived_builder_shape_proof fuel ss s o b a dh fs :
  struct_object_to_builder fuel ss s o = Ok b ->
  resolve_to_type fuel ss (o_type o) = Ok (TStruct a dh fs) ->
  NoDup (map f_name fs) -> (forall f, In f fs -> f_name f <> "") ->
  derived_builder b /\ const_safe b = true.
Proof.
  unfold struct_object_to_builder. intros H R ND NE. rewrite R in H. simpl in H.
  destruct (mapM (field_role_of fuel ss) fs) as [roles| | |] eqn:EM; simpl in H; try discriminate.
  inversion H; subst. clear H.
  assert (F : Forall2 role_ok fs roles) by (eapply roles_ok; eauto).
  fold (role_opts roles). fold (role_consts roles).
  split.
  - split; simpl.
    + intros o0 I. destruct (role_opts_in _ _ F o0 I) as [f [A B]]. exists f. split; auto.
    + apply role_opts_nodup with (fs := fs); auto.
  - unfold const_safe, ctor_heads, wf_builder. simpl. repeat (apply andb_true_iff; split).
    + apply forallb_forall. intros x I. destruct (role_consts_in _ _ F x I) as [f [v [A [B ->]]]].
      rewrite (const_assignment_constant f v B (NE f A)). reflexivity.
    + apply nodup_str_nodup. eapply role_consts_nodup; eauto.
    + apply forallb_forall. intros o0 I. apply forallb_forall. intros h Ih. apply negb_true_iff.
      destruct (str_mem h (flat_map assignment_heads (role_consts roles))) eqn:E; auto.
      apply str_mem_In in E. exfalso. eapply role_disjoint; eauto.
    + apply forallb_forall. intros o0 I. destruct (role_opts_in _ _ F o0 I) as [f [A B]].
      destruct (derived_option_heads _ _ B (NE f A)) as [_ [W _]]. exact W.
    + apply forallb_forall. intros x I. destruct (role_consts_in _ _ F x I) as [f [v [A [B ->]]]].
      destruct (const_assignment_heads _ _ _ (const_assignment_constant f v B (NE f A))) as [_ W]. exact W.
Qed.

Lemma mapM_concat_in {A B} (f : A -> res (list B)) l r : mapM f l = Ok r ->
  forall y, In y (List.concat r) -> exists x ys, In x l /\ f x = Ok ys /\ In y ys.
Proof.
  intros M. apply C16Proofs.mapM_ok_inv in M. induction M as [|x ys l r Hx _ IH]; simpl; intros y I; [contradiction|].
  apply in_app_or in I. destruct I as [I|I].
  - exists x, ys. repeat split; auto.
  - destruct (IH y I) as [x' [ys' [P [Q R]]]]. exists x', ys'. repeat split; auto.
Qed.

Lemma from_ast_in ss bs b : from_ast ss = Ok bs -> In b bs ->
  exists s ko, In s ss /\ In ko (s_objects s) /\ struct_object_to_builder (res_fuel ss) ss s (snd ko) = Ok b.
Proof.
  unfold from_ast. intros H I.
  destruct (mapM _ ss) as [bss| | |] eqn:E; simpl in H; try discriminate. inversion H; subst. clear H.
  destruct (mapM_concat_in _ _ _ E b I) as [s [bl [Is [Hs Ib]]]].
  destruct (mapM _ (s_objects s)) as [bll| | |] eqn:E2; simpl in Hs; try discriminate. inversion Hs; subst. clear Hs.
  destruct (mapM_concat_in _ _ _ E2 b Ib) as [ko [l [Iko [Hko Il]]]].
  destruct (resolve_to_type (res_fuel ss) ss (o_type (snd ko))) as [rt| | |]; simpl in Hko; try discriminate.
  destruct (wants_builder rt).
  - destruct (struct_object_to_builder (res_fuel ss) ss s (snd ko)) as [b'| | |] eqn:E3; simpl in Hko; try discriminate.
    inversion Hko; subst. destruct Il as [<-|[]]. exists s, ko. auto.
  - inversion Hko; subst. contradiction.
Qed.

(* every builder FromAST derives for a struct with distinct, non-empty field names *)
Theorem from_ast_builder_shape_proof ss bs b :
  from_ast ss = Ok bs -> In b bs ->
  (forall a dh fs, resolve_to_type (res_fuel ss) ss (o_type (b_for b)) = Ok (TStruct a dh fs) ->
                   NoDup (map f_name fs) /\ forall f, In f fs -> f_name f <> "") ->
  derived_builder b /\ const_safe b = true.
Proof.
  intros H I HS. destruct (from_ast_in _ _ _ H I) as [s [ko [_ [_ D]]]].
  assert (D' := D). unfold struct_object_to_builder in D'.
  destruct (resolve_to_type (res_fuel ss) ss (o_type (snd ko))) as [rt| | |] eqn:R; simpl in D'; try discriminate.
  destruct rt; try discriminate.
  destruct (mapM (field_role_of (res_fuel ss) ss) fs) as [roles| | |] eqn:EM; simpl in D'; try discriminate.
  assert (B : b_for b = snd ko) by (inversion D'; reflexivity).
  rewrite B in HS. destruct (HS _ _ _ R) as [ND NE].
  eapply derived_builder_shape_proof; eauto.
Qed.

(* ---------- Build(): what Validate() reports about the fields of a struct object ---------- *)
Fixpoint fields_check (ctx : schemas) (fs : list field) (fvs : list (string * gval)) : list string :=
  match fs, fvs with
  | f :: fr, (_, fv) :: vr =>
      (if rtc ctx (f_type f) then vcheck ctx (f_name f) (f_type f) (t_nullable (f_type f)) fv else [])
      ++ fields_check ctx fr vr
  | _, _ => []
  end.

Lemma vcheck_struct_object ctx a dh fs fvs :
  nullable a = false ->
  vcheck ctx "" (TStruct a dh fs) false (GStruct fvs) = fields_check ctx fs fvs.
Proof.
  intros N. cbn [vcheck is_any payload_type]. cbn [is_ref andb].
  revert fvs. induction fs as [|f fr IH]; intros [|[k fv] vr]; try reflexivity.
  cbn [fields_check]. rewrite <- IH. reflexivity.
Qed.

Definition scalar_errors (path : string) (cs : list constraint) (v : gval) : list string :=
  flat_map (fun c => match constraint_holds c v with Some false => [path] | _ => [] end) cs.

Lemma vcheck_scalar ctx path a k val cs v :
  is_any (TScalar a k val cs) = false ->
  vcheck ctx path (TScalar a k val cs) false v = scalar_errors path cs v.
Proof.
  intros A. destruct v; cbn [vcheck]; rewrite A; reflexivity.
Qed.

Lemma vcheck_scalar_ptr ctx path a k val cs v :
  is_any (TScalar a k val cs) = false ->
  vcheck ctx path (TScalar a k val cs) true (GPtr v) = scalar_errors path cs v.
Proof.
  intros A. cbn [vcheck]. rewrite A. cbn [payload_type]. apply vcheck_scalar. exact A.
Qed.

(* the value the derived option stores for a scalar field is checked against the field's constraints *)
Lemma vcheck_stored_scalar ctx path a k val cs v :
  is_any (TScalar a k val cs) = false -> is_ptr (TScalar a k val cs) = as_pointer (TScalar a k val cs) ->
  vcheck ctx path (TScalar a k val cs) (t_nullable (TScalar a k val cs)) (maybe_ptr (TScalar a k val cs) v)
  = scalar_errors path cs v \/ t_nullable (TScalar a k val cs) = true.
Proof.
  intros A _. unfold maybe_ptr, as_pointer. simpl. destruct (t_nullable (TScalar a k val cs)) eqn:N; [right; reflexivity|left].
  simpl. apply vcheck_scalar. exact A.
Qed.

Lemma vcheck_stored_scalar' ctx path a k val cs v :
  is_any (TScalar a k val cs) = false ->
  vcheck ctx path (TScalar a k val cs) (t_nullable (TScalar a k val cs)) (maybe_ptr (TScalar a k val cs) v)
  = scalar_errors path cs v.
Proof.
  intros A. unfold maybe_ptr, as_pointer. cbn [is_array is_map negb andb].
  destruct (t_nullable (TScalar a k val cs)) eqn:N; cbn [andb].
  - apply vcheck_scalar_ptr. exact A.
  - apply vcheck_scalar. exact A.
Qed.

Lemma fields_check_in ctx fs : forall fvs f fv,
  map fst fvs = map f_name fs -> NoDup (map f_name fs) -> In f fs -> rtc ctx (f_type f) = true ->
  gmap_find fvs (f_name f) = Some fv ->
  incl (vcheck ctx (f_name f) (f_type f) (t_nullable (f_type f)) fv) (fields_check ctx fs fvs).
Proof.
  induction fs as [|g fr IH]; intros fvs f fv AL ND I R F; [contradiction|].
  destruct fvs as [|[k x] vr]; [discriminate|]. simpl in AL. inversion AL; subst. clear AL.
  inversion ND; subst. cbn [fields_check]. simpl in F.
  destruct I as [<-|I].
  - rewrite (proj2 (seqb_eq (f_name g) (f_name g)) eq_refl) in F. inversion F; subst. rewrite R.
    apply incl_appl. apply incl_refl.
  - destruct (seqb (f_name g) (f_name f)) eqn:E.
    + apply seqb_eq in E. exfalso. apply H2. rewrite E. apply in_map. exact I.
    + apply incl_appr. eapply IH; eauto.
Qed.

(* replacing the value of one field changes only that field's contribution *)
Lemma gmap_find_notin (l : list (string * gval)) h : ~ In h (map fst l) -> gmap_find l h = None.
Proof.
  induction l as [|[k v] r IHl]; simpl; intros N; auto.
  destruct (seqb k h) eqn:E; [apply seqb_eq in E; subst; exfalso; apply N; left; reflexivity|].
  apply IHl. intro X. apply N. right. exact X.
Qed.

Lemma fields_check_same ctx fr : forall vr vr',
  map fst vr = map f_name fr -> map fst vr' = map fst vr ->
  (forall h, In h (map f_name fr) -> gmap_find vr' h = gmap_find vr h) -> NoDup (map f_name fr) ->
  fields_check ctx fr vr' = fields_check ctx fr vr.
Proof.
  induction fr as [|q qr IHq]; intros vr vr' A1 A2 E N; [reflexivity|].
  destruct vr as [|[k v] r]; [discriminate|]. destruct vr' as [|[k' v'] r']; [discriminate|].
  simpl in A1, A2. injection A1 as K1 T1. injection A2 as K2 T2. subst k k'.
  apply NoDup_cons_iff in N. destruct N as [Nh Nt].
  cbn [fields_check].
  assert (v' = v).
  { specialize (E (f_name q) (or_introl eq_refl)). simpl in E.
    rewrite (proj2 (seqb_eq (f_name q) (f_name q)) eq_refl) in E. inversion E. reflexivity. }
  subst. f_equal. eapply IHq; eauto. intros h Ih. specialize (E h (or_intror Ih)). simpl in E.
  destruct (seqb (f_name q) h) eqn:Eq; auto. apply seqb_eq in Eq. subst. contradiction.
Qed.

Lemma fields_check_update ctx fs : forall fvs fvs' f nv,
  map fst fvs = map f_name fs -> map fst fvs' = map fst fvs -> NoDup (map f_name fs) -> In f fs ->
  gmap_find fvs' (f_name f) = Some nv ->
  (forall g, g <> f_name f -> gmap_find fvs' g = gmap_find fvs g) ->
  forall p, In p (fields_check ctx fs fvs') ->
            In p (fields_check ctx fs fvs) \/ In p (vcheck ctx (f_name f) (f_type f) (t_nullable (f_type f)) nv).
Proof.
  induction fs as [|g fr IH]; intros fvs fvs' f nv AL AL' ND I F O p Ip; [contradiction|].
  destruct fvs as [|[k x] vr]; [discriminate|]. destruct fvs' as [|[k' x'] vr']; [discriminate|].
  simpl in AL, AL'. injection AL as K1 T1. injection AL' as K2 T2. subst k k'.
  apply NoDup_cons_iff in ND. destruct ND as [NDh NDt].
  cbn [fields_check] in *. apply in_app_or in Ip.
  assert (TL : forall h, In h (map f_name fr) -> gmap_find ((f_name g, x') :: vr') h = gmap_find vr' h).
  { intros h Ih. simpl. destruct (seqb (f_name g) h) eqn:E; auto. apply seqb_eq in E. subst. contradiction. }
  assert (TL0 : forall h, In h (map f_name fr) -> gmap_find ((f_name g, x) :: vr) h = gmap_find vr h).
  { intros h Ih. simpl. destruct (seqb (f_name g) h) eqn:E; auto. apply seqb_eq in E. subst. contradiction. }
  destruct I as [<-|I].
  - (* the updated field is the first one: the tail is untouched *)
    simpl in F. rewrite (proj2 (seqb_eq (f_name g) (f_name g)) eq_refl) in F. inversion F; subst.
    destruct Ip as [Ip|Ip].
    + destruct (rtc ctx (f_type g)); [right; exact Ip|contradiction].
    + left. apply in_or_app. right.
      rewrite <- (fields_check_same ctx fr vr vr'); auto.
      intros h Ih. rewrite <- TL, <- TL0; auto. apply O. intro X. subst. contradiction.
  - (* the updated field is in the tail: the head value is the same *)
    assert (NE : f_name g <> f_name f) by (intro X; apply NDh; rewrite X; apply in_map; exact I).
    assert (x' = x).
    { specialize (O (f_name g) NE). simpl in O. rewrite (proj2 (seqb_eq (f_name g) (f_name g)) eq_refl) in O.
      inversion O. reflexivity. }
    subst. destruct Ip as [Ip|Ip]; [left; apply in_or_app; left; exact Ip|].
    destruct (IH vr vr' f nv T1 T2 NDt I) with (p := p) as [A|B]; auto.
    + rewrite <- TL; auto. apply in_map. exact I.
    + intros h Nh. destruct (in_dec string_dec h (map f_name fr)) as [Ih|Nih].
      * rewrite <- TL, <- TL0; auto.
      * rewrite !gmap_find_notin; auto; congruence.
    + left. apply in_or_app. right. exact A.
Qed.

Lemma aligned_find (fs : list field) : forall (fvs : list (string * gval)) f,
  map fst fvs = map f_name fs -> In f fs -> exists old, gmap_find fvs (f_name f) = Some old.
Proof.
  induction fs as [|g fr IH]; intros fvs f AL I; [contradiction|].
  destruct fvs as [|[k x] vr]; [discriminate|]. simpl in AL. injection AL as K T. subst k. simpl.
  destruct (seqb (f_name g) (f_name f)) eqn:E; [eauto|].
  destruct I as [<-|I]; [rewrite (proj2 (seqb_eq _ _) eq_refl) in E; discriminate|]. eapply IH; eauto.
Qed.

Lemma plain_arg_value e n t v :
  type_has_builder e t = false -> arg_value e [(n, AVal v)] (mkArg n t) = GOk (Some v).
Proof.
  intros H. unfold arg_value. simpl. rewrite (proj2 (seqb_eq n n) eq_refl). rewrite H. reflexivity.
Qed.

Lemma validate_struct_object ctx p n ob a dh fs fvs :
  locate_object ctx p n = Some ob -> o_type ob = TStruct a dh fs -> nullable a = false ->
  validate_object ctx p n (GStruct fvs) = if rtc ctx (TStruct a dh fs) then fields_check ctx fs fvs else [].
Proof.
  intros L T N. unfold validate_object. rewrite L, T.
  destruct (rtc ctx (TStruct a dh fs)); auto.
  unfold t_nullable. cbn [ty_attrs]. rewrite N. apply (vcheck_struct_object ctx a dh fs fvs N).
Qed.

Lemma scalar_errors_in path cs v c : In c cs -> constraint_holds c v = Some false -> In path (scalar_errors path cs v).
Proof. intros I H. unfold scalar_errors. apply in_flat_map. exists c. split; auto. rewrite H. left. reflexivity. Qed.

(* Go: a violated constraint of a scalar field is reported by Build(), at the field's path *)
Theorem go_violation_reported_proof e b ob a dh fs f o st fvs at_ k cs c v :
  locate_object (be_ctx e) (builder_for_pkg b) (builder_for_name b) = Some ob ->
  o_type ob = TStruct a dh fs -> nullable a = false ->
  In f fs -> NoDup (map f_name fs) -> f_name f <> "" ->
  f_type f = TScalar at_ k DNil cs -> is_any (f_type f) = false ->
  struct_field_to_option f = Ok o ->
  bs_obj st = GStruct fvs -> map fst fvs = map f_name fs ->
  In c cs -> constraint_holds c v = Some false ->
  exists st', go_option e o st [AVal v] = GOk st' /\
              exists ps, go_build e b st' = BRErr ps /\ In (f_name f) ps.
Proof.
  intros L T N I ND NE FT NA D S AL Ic V.
  destruct (aligned_find fs fvs f AL I) as [old F].
  assert (AV : arg_value e [(f_name f, AVal v)] (mkArg (f_name f) (f_type f)) = GOk (Some v)).
  { apply plain_arg_value. rewrite FT. reflexivity. }
  destruct (go_derived_option_sets_proof e f o st fvs old (AVal v) v D NE S F AV) as [fs' [G [G1 [G2 G3]]]].
  eexists. split; [exact G|].
  unfold go_build. simpl.
  rewrite (validate_struct_object _ _ _ ob a dh fs fs' L T N).
  assert (RF : rtc (be_ctx e) (f_type f) = true).
  { rewrite FT. rewrite FT in NA. destruct k; try discriminate; destruct cs; simpl; auto; contradiction. }
  assert (R : rtc (be_ctx e) (TStruct a dh fs) = true).
  { simpl. apply existsb_exists. exists f. split; auto. }
  rewrite R.
  assert (IN : In (f_name f) (fields_check (be_ctx e) fs fs')).
  { eapply fields_check_in; eauto; try congruence.
    rewrite FT. rewrite vcheck_stored_scalar'; [|rewrite <- FT; exact NA]. eapply scalar_errors_in; eauto. }
  destruct (fields_check (be_ctx e) fs fs') as [|p ps] eqn:E; [contradiction|].
  exists (p :: ps). split; auto.
Qed.

(* Go: an argument that satisfies the field's constraints never adds an error to Build() *)
Theorem go_valid_adds_no_error_proof e b ob a dh fs f o st fvs at_ k cs v :
  locate_object (be_ctx e) (builder_for_pkg b) (builder_for_name b) = Some ob ->
  o_type ob = TStruct a dh fs -> nullable a = false ->
  In f fs -> NoDup (map f_name fs) -> f_name f <> "" ->
  f_type f = TScalar at_ k DNil cs -> is_any (f_type f) = false ->
  struct_field_to_option f = Ok o ->
  bs_obj st = GStruct fvs -> map fst fvs = map f_name fs ->
  (forall c, In c cs -> constraint_holds c v <> Some false) ->
  exists st', go_option e o st [AVal v] = GOk st' /\ bs_errors st' = bs_errors st /\
    forall p, In p (validate_object (be_ctx e) (builder_for_pkg b) (builder_for_name b) (bs_obj st')) ->
              In p (validate_object (be_ctx e) (builder_for_pkg b) (builder_for_name b) (bs_obj st)).
Proof.
  intros L T N I ND NE FT NA D S AL V.
  destruct (aligned_find fs fvs f AL I) as [old F].
  assert (AV : arg_value e [(f_name f, AVal v)] (mkArg (f_name f) (f_type f)) = GOk (Some v)).
  { apply plain_arg_value. rewrite FT. reflexivity. }
  destruct (go_derived_option_sets_proof e f o st fvs old (AVal v) v D NE S F AV) as [fs' [G [G1 [G2 G3]]]].
  eexists. split; [exact G|]. split; [reflexivity|]. simpl. rewrite S.
  rewrite (validate_struct_object _ _ _ ob a dh fs fs' L T N), (validate_struct_object _ _ _ ob a dh fs fvs L T N).
  destruct (rtc (be_ctx e) (TStruct a dh fs)); [|intros p []].
  intros p Ip. destruct (fields_check_update (be_ctx e) fs fvs fs' f _ AL G3 ND I G1 G2 p Ip) as [A|B]; auto.
  exfalso. rewrite FT in B. rewrite vcheck_stored_scalar' in B; [|rewrite <- FT; exact NA].
  unfold scalar_errors in B. apply in_flat_map in B. destruct B as [c [Ic B]].
  destruct (constraint_holds c v) as [[|]|] eqn:E; try contradiction. apply (V c Ic). exact E.
Qed.
