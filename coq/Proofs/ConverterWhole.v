(* C14 — the end-to-end theorem for builders as FromAST derives them: converting a value that satisfies
   conv_safe and executing the emitted expression gives back the value, field by field. *)
From Coq Require Import List String ZArith Bool Ascii Lia.
From Cog Require Import Model.IR Model.Json Model.Builders Model.BuildersEq Model.Spec16 Model.GoSem
  Model.BuilderEval Model.BuilderSpec Model.Converter Model.ConverterSpec
  Proofs.BuilderEvalProofs Proofs.ConverterProofs.
Import ListNotations.
Local Open Scope string_scope.
Local Open Scope list_scope.

Lemma gval_same_sound : forall a b, gval_same a b = true -> a = b.
Proof.
  induction a as [|x|x|m e|x|x l|x IH|l|l|l|j]; intros b; destruct b; simpl; try discriminate; intros Heq; auto.
  - apply Bool.eqb_prop in Heq. congruence.
  - apply Z.eqb_eq in Heq. congruence.
  - apply andb_true_iff in Heq. destruct Heq as [A B]. apply Z.eqb_eq in A. apply Z.eqb_eq in B. congruence.
  - apply String.eqb_eq in Heq. congruence.
  - apply andb_true_iff in Heq. destruct Heq as [A B]. apply String.eqb_eq in A. apply Bool.eqb_prop in B. congruence.
  - f_equal. auto.
Qed.

(* ---------- the converter side ---------- *)
Definition calls_b (l : list (string * gval)) : bcalls := map (fun ny => (fst ny, [BVal (snd ny)])) l.
Definition calls_a (l : list (string * gval)) : list (string * list aval) := map (fun ny => (fst ny, [AVal (snd ny)])) l.

Lemma conv_mapping_derived conv e b v f o r :
  field_emitted e b v f o = Some r ->
  conv_mapping conv [("input", v)] (derived_mapping e b f o) =
  GOk (match r with Some y => [(op_name o, [BVal y])] | None => [] end).
Proof.
  unfold field_emitted, derived_mapping, conv_mapping. cbn [cm_options om_guards cm_repeat_for].
  fold (field_item f). fold (field_argmap e b f). fold (field_guards b o).
  destruct (field_argmap e b f) eqn:EA; try discriminate.
  destruct (eval_guards [("input", v)] (field_guards b o)) as [[|]| | |] eqn:EG; try discriminate.
  - cbn [obind negb]. unfold conv_option. cbn [om_args flat_map am_guards app eval_guards obind negb omapM am_arg conv_arg].
    destruct (if is_any t then read_path [("input", v)] p else read_deref [("input", v)] p t) eqn:ER; try discriminate.
    intros H. inversion H; subst. cbn [obind om_option List.concat app]. reflexivity.
  - intros H. inversion H; subst. reflexivity.
Qed.

Lemma conv_mappings_derived conv e b v d fs opts :
  Forall2 (fun f o => struct_field_to_option f = Ok o) fs opts ->
  conv_safe e b fs opts v d = true ->
  exists css, omapM (conv_mapping conv [("input", v)]) (derived_mappings e b fs opts) = GOk css /\
              List.concat css = calls_b (emitted_calls e b v fs opts).
Proof.
  induction 1 as [|f o fs opts D _ IH]; simpl; intros S.
  - exists []. split; reflexivity.
  - apply andb_true_iff in S. destruct S as [S1 S2]. destruct (IH S2) as [css [A B]].
    unfold field_safe in S1. apply andb_true_iff in S1. destruct S1 as [_ S1].
    destruct (field_emitted e b v f o) as [r|] eqn:EF; [|discriminate].
    rewrite (conv_mapping_derived conv e b v f o r EF). cbn [obind]. rewrite A. cbn [obind].
    eexists. split; [reflexivity|]. simpl. rewrite B. destruct r; reflexivity.
Qed.

(* ---------- the builder side ---------- *)
Lemma find_in_keys (l : list (string * gval)) k : In k (map fst l) -> gmap_find l k <> None.
Proof.
  induction l as [|[k' v] r IH]; simpl; intros I; [contradiction|].
  destruct (seqb k' k) eqn:E; [discriminate|]. destruct I as [->|I]; [rewrite (proj2 (seqb_eq k k) eq_refl) in E; discriminate|auto].
Qed.

Lemma option_by_name_unique b o : NoDup (map op_name (b_options b)) -> In o (b_options b) ->
  option_by_name b (op_name o) = Some o.
Proof.
  unfold option_by_name. intros ND I. induction (b_options b) as [|x r IH]; [contradiction|].
  simpl in *. apply NoDup_cons_iff in ND. destruct ND as [Nh Nt].
  destruct (seqb (op_name x) (op_name o)) eqn:E.
  - destruct I as [->|I]; auto. apply seqb_eq in E. exfalso. apply Nh. rewrite E. apply in_map. exact I.
  - destruct I as [->|I]; [rewrite (proj2 (seqb_eq _ _) eq_refl) in E; discriminate|auto].
Qed.

Definition good_call (e : benv) (b : builder) (keys : list string) (ny : string * gval) : Prop :=
  exists f o, In o (b_options b) /\ struct_field_to_option f = Ok o /\ op_name o = fst ny /\ f_name f <> "" /\
              type_has_builder e (f_type f) = false /\ In (f_name f) keys.

Lemma go_calls_good e b : NoDup (map op_name (b_options b)) ->
  forall l st sfs, bs_obj st = GStruct sfs -> Forall (good_call e b (map fst sfs)) l ->
  exists stn, go_calls e b st (calls_a l) = GOk stn /\ is_struct_val (bs_obj stn) = true.
Proof.
  intros ND. induction l as [|[n y] r IH]; intros st sfs S G.
  - exists st. split; [reflexivity|rewrite S; reflexivity].
  - inversion G as [|x l' G1 G2]; subst. destruct G1 as [f [o [Io [D [Nm [Nf [B K]]]]]]]. simpl in Nm. subst n.
    simpl. rewrite (option_by_name_unique b o ND Io).
    destruct (gmap_find sfs (f_name f)) as [old|] eqn:EF; [|exfalso; eapply find_in_keys; eauto].
    destruct (go_derived_option_sets_proof e f o st sfs old (AVal y) y D Nf S EF (plain_arg_value e _ _ y B))
      as [fs' [GO [_ [_ KEYS]]]].
    rewrite GO. cbn [obind].
    apply (IH (mkBState (GStruct fs') (bs_errors st)) fs' eq_refl). rewrite KEYS. exact G2.
Qed.

Lemma go_run_bvals k e b : forall l st stn,
  Forall (fun ny => exists o, option_by_name b (fst ny) = Some o /\ List.length (op_args o) = 1%nat) l ->
  go_calls e b st (calls_a l) = GOk stn ->
  exists trace, go_run (S k) e b st (calls_b l) = GOk trace /\ last_state (st :: trace) = stn.
Proof.
  induction l as [|[n y] r IH]; intros st stn G H.
  - simpl in *. inversion H; subst. exists []. split; reflexivity.
  - inversion G as [|x l' G1 G2]; subst. destruct G1 as [o [O L]]. simpl in O.
    simpl in H. rewrite O in H. apply obind_ok in H. destruct H as [st' [H1 H2]].
    destruct (IH st' stn G2 H2) as [trace [R LS]].
    cbn [calls_b map fst snd go_run]. rewrite O. unfold go_args. cbn [List.length]. rewrite L. cbn [Nat.eqb negb].
    destruct (op_args o) as [|a [|]]; try discriminate. cbn [combine omapM fst snd go_arg obind].
    rewrite H1. cbn [obind]. fold (calls_b r). rewrite R. cbn [obind].
    eexists. split; [reflexivity|]. unfold last_state in *. destruct trace; simpl in *; auto.
Qed.

(* ---------- which call reaches which field ---------- *)
Lemma emitted_names_in e b v fs opts : Forall2 (fun f o => struct_field_to_option f = Ok o) fs opts ->
  forall n, In n (map fst (emitted_calls e b v fs opts)) -> In n (map f_name fs).
Proof.
  induction 1 as [|f o fs opts D _ IH]; simpl; intros n I; [contradiction|].
  destruct (field_emitted e b v f o) as [[y|]|]; simpl in I; auto.
  destruct I as [<-|I]; auto. left. symmetry. eapply derived_name; eauto.
Qed.

Lemma last_call_absent n l : ~ In n (map fst l) -> last_call n (calls_a l) = None.
Proof.
  induction l as [|[m y] r IH]; simpl; intros N; auto.
  rewrite IH by (intro X; apply N; right; exact X).
  destruct (seqb m n) eqn:E; auto. apply seqb_eq in E. subst. exfalso. apply N. left. reflexivity.
Qed.

Lemma last_call_emitted e b v fs opts : Forall2 (fun f o => struct_field_to_option f = Ok o) fs opts ->
  NoDup (map f_name fs) ->
  forall f o, In (f, o) (combine fs opts) ->
  last_call (f_name f) (calls_a (emitted_calls e b v fs opts)) =
  match field_emitted e b v f o with Some (Some y) => Some [AVal y] | _ => None end.
Proof.
  induction 1 as [|f0 o0 fs opts D F IH]; simpl; intros ND f o I; [contradiction|].
  apply NoDup_cons_iff in ND. destruct ND as [Nh Nt].
  destruct I as [E|I].
  - inversion E; subst f0 o0. clear E.
    assert (T : last_call (f_name f) (calls_a (emitted_calls e b v fs opts)) = None).
    { apply last_call_absent. intro X. apply Nh. eapply emitted_names_in; eauto. }
    destruct (field_emitted e b v f o) as [[y|]|]; auto.
    simpl. rewrite T. rewrite (derived_name _ _ D). rewrite (proj2 (seqb_eq _ _) eq_refl). reflexivity.
  - assert (NE : f_name f0 <> f_name f).
    { intro X. apply Nh. rewrite X. apply in_map. eapply in_combine_l; eauto. }
    rewrite <- (IH Nt f o I).
    destruct (field_emitted e b v f0 o0) as [[y|]|]; auto.
    simpl. destruct (last_call (f_name f) (calls_a (emitted_calls e b v fs opts))); auto.
    rewrite (derived_name _ _ D). destruct (seqb (f_name f0) (f_name f)) eqn:E; auto. apply seqb_eq in E. contradiction.
Qed.

Lemma conv_safe_pair e b v d fs opts : conv_safe e b fs opts v d = true ->
  forall f o, In (f, o) (combine fs opts) -> field_safe e b v d f o = true.
Proof.
  revert opts. induction fs as [|f0 fr IH]; intros [|o0 r]; simpl; intros S f o I; try contradiction; try discriminate.
  apply andb_true_iff in S. destruct S as [S1 S2]. destruct I as [E|I]; [inversion E; subst; auto|eauto].
Qed.

Lemma forall2_combine_in {A B} (R : A -> B -> Prop) l1 l2 : Forall2 R l1 l2 ->
  forall x, In x l1 -> exists y, In (x, y) (combine l1 l2) /\ R x y /\ In y l2.
Proof.
  induction 1 as [|a b0 l1 l2 H _ IH]; simpl; intros x I; [contradiction|].
  destruct I as [<-|I]. - exists b0. auto. - destruct (IH x I) as [y [P [Q C]]]. exists y. auto.
Qed.

Lemma convert_S e k p n v :
  convert e (S k) p n v =
  match locate_builder (be_builders e) p n with
  | None => GUnmodelled "unknown builder"
  | Some b =>
      dob ctor <- omapM (fun pt => match (if is_any (snd pt) then read_path [("input", v)] (fst pt)
                                          else read_deref [("input", v)] (fst pt) (snd pt)) with
                                   | PRVal x => GOk (BVal (formatted (snd pt) x)) | PRPanic => GPanic | PRUnm w => GUnmodelled w end)
                        (cv_ctor_args (from_builder e b)) ;
      dob calls <- omapM (conv_mapping (convert e k) [("input", v)]) (cv_mappings (from_builder e b)) ;
      GOk (BBuild (builder_for_pkg b) (b_name b) ctor (List.concat calls))
  end.
Proof. reflexivity. Qed.

(* ---------- the theorem ---------- *)
Theorem convert_then_build_partial_whole_proof e b fs v st0 :
  locate_builder (be_builders e) (builder_for_pkg b) (b_name b) = Some b ->
  Forall2 (fun f o => struct_field_to_option f = Ok o) fs (b_options b) ->
  NoDup (map f_name fs) -> (forall f, In f fs -> f_name f <> "") ->
  ct_args (b_ctor b) = [] -> cv_ctor_args (from_builder e b) = [] ->
  go_new_builder e b [] = GOk st0 -> is_struct_val (bs_obj st0) = true ->
  conv_safe e b fs (b_options b) v (bs_obj st0) = true ->
  exists calls stn,
    converter_output e (builder_for_pkg b) (b_name b) v = GOk (BBuild (builder_for_pkg b) (b_name b) [] calls) /\
    builder_eval e (builder_for_pkg b) (b_name b) [] calls = GOk (stn, go_build e b stn) /\
    forall f, In f fs -> obj_field (bs_obj stn) (f_name f) = obj_field v (f_name f).
Proof.
  intros L F ND NE CA CC N0 S0 SAFE.
  set (l := emitted_calls e b v fs (b_options b)).
  assert (NDO : NoDup (map op_name (b_options b))).
  { assert (X : map op_name (b_options b) = map f_name fs).
    { clear -F. induction F as [|f o fs opts D _ IH]; simpl; auto. rewrite IH, (derived_name _ _ D). reflexivity. }
    rewrite X. exact ND. }
  assert (DB : derived_builder b).
  { split; auto. intros o Io.
    assert (Y : exists f, In f fs /\ struct_field_to_option f = Ok o).
    { clear -F Io. induction F as [|f o' fs opts D _ IH]; simpl in *; [contradiction|].
      destruct Io as [<-|Io]. - exists f. auto. - destruct (IH Io) as [g [A B]]. exists g. auto. }
    destruct Y as [f [A B]]. exists f. auto. }
  destruct (bs_obj st0) as [| | | | | | | | |dfs|] eqn:ED; try discriminate.
  (* every emitted call is a good call *)
  assert (GOOD : Forall (good_call e b (map fst dfs)) l).
  { apply Forall_forall. intros [n y] I. unfold l in I.
    assert (Z : forall fs1 opts1, Forall2 (fun f o => struct_field_to_option f = Ok o) fs1 opts1 ->
              (forall f o, In (f, o) (combine fs1 opts1) -> In (f, o) (combine fs (b_options b)) /\ In o (b_options b) /\ In f fs) ->
              In (n, y) (emitted_calls e b v fs1 opts1) -> good_call e b (map fst dfs) (n, y)).
    { clear I. intros fs' opts' F'. induction F' as [|f o fs' opts' D _ IH]; simpl; intros SUB I; [contradiction|].
      assert (REST : forall f1 o1, In (f1, o1) (combine fs' opts') ->
                     In (f1, o1) (combine fs (b_options b)) /\ In o1 (b_options b) /\ In f1 fs)
        by (intros; apply SUB; right; auto).
      destruct (SUB f o (or_introl eq_refl)) as [PAIR [Io If]].
      destruct (field_emitted e b v f o) as [[y'|]|] eqn:EF; auto.
      destruct I as [E|I]; auto. inversion E; subst n y'. clear E.
      assert (FS := conv_safe_pair _ _ _ _ _ _ SAFE f o PAIR). unfold field_safe in FS.
      apply andb_true_iff in FS. destruct FS as [NB FS]. apply negb_true_iff in NB. rewrite EF in FS.
      exists f, o. repeat split; auto.
      destruct (obj_field v (f_name f)); try discriminate. simpl in FS.
      destruct (gmap_find dfs (f_name f)) eqn:EG; try discriminate.
      clear -EG. induction dfs as [|[k x] r IHd]; simpl in *; [discriminate|].
      destruct (seqb k (f_name f)) eqn:E; [apply seqb_eq in E; left; auto|right; auto]. }
    apply (Z fs (b_options b) F); auto.
    intros f o Ic. repeat split; auto; [eapply in_combine_r; eauto|eapply in_combine_l; eauto]. }
  destruct (go_calls_good e b NDO l st0 dfs ED GOOD) as [stn [GC SN]].
  assert (ONE : Forall (fun ny => exists o, option_by_name b (fst ny) = Some o /\ List.length (op_args o) = 1%nat) l).
  { eapply Forall_impl; [|exact GOOD]. intros [n y] [f [o [Io [D [Nm _]]]]]. simpl in *. subst n.
    exists o. split; [apply option_by_name_unique; auto|]. destruct (derived_option_shape _ _ D) as [cs ->]. reflexivity. }
  destruct (go_run_bvals 5 e b l st0 stn ONE GC) as [trace [RUN LS]].
  destruct (conv_mappings_derived (convert e 7) e b v (GStruct dfs) fs (b_options b) F SAFE) as [css [CM CONC]].
  exists (calls_b l), stn. split; [|split].
  - unfold converter_output, convert_fuel. rewrite convert_S. rewrite L, CC. cbn [omapM obind].
    rewrite (derived_converter_shape_proof e b fs F ND), CM. cbn [obind]. rewrite CONC. reflexivity.
  - unfold builder_eval. rewrite L. unfold go_trace. rewrite L. unfold go_args. rewrite CA. cbn [List.length Nat.eqb negb combine omapM obind].
    rewrite N0. cbn [obind]. unfold default_fuel. rewrite RUN. cbn [obind]. rewrite LS. reflexivity.
  - intros f If. destruct (forall2_combine_in _ _ _ F f If) as [o [PAIR [D Io]]].
    assert (FS := conv_safe_pair _ _ _ _ _ _ SAFE f o PAIR). unfold field_safe in FS.
    apply andb_true_iff in FS. destruct FS as [NB FS]. apply negb_true_iff in NB.
    assert (S0' : is_struct_val (bs_obj st0) = true) by (rewrite ED; reflexivity).
    assert (LW := go_sequence_last_write_proof e b (calls_a l) st0 stn DB S0' GC f o Io D (NE f If)).
    unfold l in LW. rewrite (last_call_emitted e b v fs (b_options b) F ND f o PAIR) in LW.
    destruct (field_emitted e b v f o) as [[y|]|] eqn:EF; try discriminate.
    + rewrite (plain_arg_value e _ _ y NB) in LW. rewrite LW.
      destruct (obj_field v (f_name f)) as [x|]; try discriminate.
      destruct (obj_field (GStruct dfs) (f_name f)); try discriminate.
      apply gval_same_sound in FS. congruence.
    + rewrite LW, ED.
      destruct (obj_field v (f_name f)) as [x|]; try discriminate.
      destruct (obj_field (GStruct dfs) (f_name f)) as [x'|]; try discriminate.
      apply gval_same_sound in FS. congruence.
Qed.
