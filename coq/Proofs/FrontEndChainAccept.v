(* Acceptance before and after chain_go on the plain fragment of the IR (Model/FrontEndChainSpec.v ctx_plain):
   ir_accepts on ctx (pre-chain meaning, Model/FrontEndSpec.v) against strict_ok on nrfn_only ctx
   (post-chain meaning, Model/GoSemSpec08.v). *)
From Coq Require Import List String ZArith Bool Ascii Lia.
From Cog Require Import Model.IR Model.Json Model.GoSemBase Model.GoSemDecode Model.GoSemValidate Model.GoSemStrict
  Model.GoSemSpec08 Model.GoSemSpec01 Model.Src Model.FrontEnd Model.FrontEndSpec Model.Passes Model.FrontEndChainSpec.
Import ListNotations.
Local Open Scope string_scope.
Local Open Scope list_scope.

(* ---------- JSON induction ---------- *)
Section FcJsonInd.
  Variable P : json -> Prop.
  Hypothesis HNull : P JNull.
  Hypothesis HBool : forall b, P (JBool b).
  Hypothesis HNum : forall m e, P (JNum m e).
  Hypothesis HStr : forall s, P (JStr s).
  Hypothesis HArr : forall l, Forall P l -> P (JArr l).
  Hypothesis HObj : forall l, Forall (fun kv => P (snd kv)) l -> P (JObj l).
  Fixpoint fc_json_ind (j : json) : P j :=
    match j with
    | JNull => HNull | JBool b => HBool b | JNum m e => HNum m e | JStr s => HStr s
    | JArr l =>
        HArr l ((fix go (l : list json) : Forall P l :=
                   match l with [] => Forall_nil _ | x :: r => Forall_cons x (fc_json_ind x) (go r) end) l)
    | JObj l =>
        HObj l ((fix go (l : list (string * json)) : Forall (fun kv => P (snd kv)) l :=
                   match l with [] => Forall_nil _ | x :: r => Forall_cons x (fc_json_ind (snd x)) (go r) end) l)
    end.
End FcJsonInd.

(* ---------- unfolding ir_accepts ---------- *)
Definition fc_alt_check (ctx : schemas) (j : json) (alt : ty) : bool :=
  match alt with
  | TScalar a k v cs => scalar_accepts alt a k v cs j
  | TEnum _ vs => existsb (fun ev => const_matches (ev_value ev) j) vs
  | TArray _ et => match j with JArr l => forallb (fun x => ir_accepts ctx x et) l | _ => false end
  | TMap _ _ vt => match j with JObj ms => forallb (fun kv => ir_accepts ctx (snd kv) vt) ms | _ => false end
  | TStruct _ _ fs =>
      match j with
      | JObj ms =>
          (str_nodup (map fst ms) &&
           forallb (fun kv => match find (fun f => seqb (f_name f) (fst kv)) fs with
                              | Some f => ir_accepts ctx (snd kv) (f_type f)
                              | None => false
                              end) ms &&
           forallb (fun f => (negb (f_required f) || str_in (f_name f) (map fst ms))%bool) fs)%bool
      | _ => false
      end
  | _ => false
  end.
Lemma fc_ir_accepts_unfold ctx j t : ir_accepts ctx j t = existsb (fc_alt_check ctx j) (alternatives ctx (alt_fuel ctx) t).
Proof. destruct j; reflexivity. Qed.

(* ---------- the context ---------- *)
Lemma fc_objs_get_in l k o : objs_get l k = Some o -> In (k, o) l.
Proof.
  induction l as [|[k' o'] r IH]; simpl; intro H; [discriminate|].
  destruct (seqb k' k) eqn:E.
  - inversion H; subst. apply String.eqb_eq in E. subst. left; reflexivity.
  - right; apply IH; exact H.
Qed.

Lemma fc_locate_in ctx p n o : locate_object ctx p n = Some o ->
  exists s, In s ctx /\ In (n, o) (s_objects s).
Proof.
  unfold locate_object, locate. destruct (find (fun s => seqb (s_pkg s) p) ctx) as [s|] eqn:E; [|discriminate].
  intro H. apply find_some in E. exists s. split; [exact (proj1 E)|]. apply fc_objs_get_in. exact H.
Qed.

Definition fields_plain (fs : list field) : bool := forallb (fun f => ty_plain (f_type f)) fs.

Lemma fc_plain_object ctx p n o : ctx_plain ctx = true -> locate_object ctx p n = Some o ->
  exists a fs, o_type o = TStruct a [] fs /\ attrs_plain a = true /\ fields_plain fs = true.
Proof.
  intros H L. destruct (fc_locate_in _ _ _ _ L) as [s [Hs Ho]].
  unfold ctx_plain in H. rewrite forallb_forall in H. specialize (H s Hs).
  unfold schema_plain in H. apply andb_true_iff in H. destruct H as [H _].
  apply andb_true_iff in H. destruct H as [_ H]. rewrite forallb_forall in H. specialize (H _ Ho).
  unfold obj_plain in H. simpl in H. apply andb_true_iff in H. destruct H as [_ H].
  destruct (o_type o); try discriminate.
  apply andb_true_iff in H. destruct H as [H H3]. apply andb_true_iff in H. destruct H as [H1 H2].
  destruct dh; [|discriminate]. exists a, fs. repeat split; assumption.
Qed.

Lemma fc_objs_get_map (g : object -> object) l k :
  objs_get (map (fun ko => (fst ko, g (snd ko))) l) k = option_map g (objs_get l k).
Proof.
  induction l as [|[k' o'] r IH]; simpl; [reflexivity|]. destruct (seqb k' k); [reflexivity|exact IH].
Qed.

Lemma fc_locate_nrfn ctx p n :
  locate_object (nrfn_only ctx) p n = option_map nrfn_only_obj (locate_object ctx p n).
Proof.
  unfold locate_object, locate, nrfn_only.
  induction ctx as [|s r IH]; simpl; [reflexivity|].
  destruct (seqb (s_pkg s) p); [|exact IH]. simpl. apply fc_objs_get_map.
Qed.

(* ---------- alternatives on the fragment ---------- *)
Lemma fc_alt_fuel ctx : exists f, alt_fuel ctx = S (S f).
Proof. unfold alt_fuel. exists (2 * count_objects ctx + 6)%nat. lia. Qed.

Lemma fc_alts_plain ctx t : ctx_plain ctx = true -> ty_plain t = true ->
  alternatives ctx (alt_fuel ctx) t =
  match t with
  | TRef _ p n => match locate_object ctx p n with Some o => [o_type o] | None => [] end
  | _ => [t]
  end.
Proof.
  intros H Ht. destruct (fc_alt_fuel ctx) as [f ->].
  destruct t; try discriminate; try reflexivity.
  cbn [alternatives]. destruct (locate_object ctx pkg name) as [o|] eqn:L; [|reflexivity].
  destruct (fc_plain_object _ _ _ _ H L) as [a' [fs [E _]]]. rewrite E. reflexivity.
Qed.

(* ---------- null is rejected before the chain ---------- *)
Lemma fc_null_rejected ctx t : ctx_plain ctx = true -> ty_plain t = true -> ir_accepts ctx JNull t = false.
Proof.
  intros H Ht. rewrite fc_ir_accepts_unfold, (fc_alts_plain _ _ H Ht).
  destruct t; try discriminate; try reflexivity.
  - destruct (locate_object ctx pkg name) as [o|] eqn:L; [|reflexivity].
    destruct (fc_plain_object _ _ _ _ H L) as [a' [fs [E _]]]. rewrite E. reflexivity.
  - simpl in Ht. apply andb_true_iff in Ht. destruct Ht as [Ht Hv]. apply andb_true_iff in Ht. destruct Ht as [_ Hk].
    destruct value; try discriminate. destruct k; try discriminate; reflexivity.
Qed.

(* ---------- strict_ok on non-null documents ---------- *)
Definition fc_nonnull (j : json) : bool := match j with JNull => false | _ => true end.

Lemma fc_strict_set_nullable c j t b : fc_nonnull j = true -> strict_ok c j (set_nullable t b) = strict_ok c j t.
Proof. intro H. destruct j; try discriminate; destruct t; reflexivity. Qed.

Lemma fc_strict_scalar c j a k v cs : fc_nonnull j = true ->
  strict_ok c j (TScalar a k v cs) = json_fits_scalar (TScalar a k v cs) k j.
Proof. intro H. destruct j; try discriminate; reflexivity. Qed.
Lemma fc_strict_array c j a et : fc_nonnull j = true ->
  strict_ok c j (TArray a et) = match j with JArr l => forallb (fun x => strict_ok c x et) l | _ => false end.
Proof. intro H. destruct j; try discriminate; reflexivity. Qed.
Lemma fc_strict_map c j a i vt : fc_nonnull j = true ->
  strict_ok c j (TMap a i vt) = match j with JObj ms => forallb (fun kv => strict_ok c (snd kv) vt) ms | _ => false end.
Proof. intro H. destruct j; try discriminate; reflexivity. Qed.

Definition fc_struct_ok (c : schemas) (fs : list field) (ms : list (string * json)) : bool :=
  (members_nodup ms &&
   forallb (fun kv =>
              match find (fun f => seqb (f_name f) (fst kv)) fs with
              | None => false
              | Some f =>
                  match snd kv with
                  | JNull => negb (f_required f && negb (t_nullable (f_type f)))
                  | _ => strict_ok c (snd kv) (f_type f)
                  end
              end) ms &&
   forallb (fun f => (negb (f_required f) || has_default (f_type f) || str_in (f_name f) (map fst ms))%bool) fs)%bool.

Lemma fc_strict_ref_struct c j a p n sa fs : fc_nonnull j = true ->
  payload_type c (TRef a p n) = PTy (TStruct sa [] fs) ->
  strict_ok c j (TRef a p n) = match j with JObj ms => fc_struct_ok c fs ms | _ => false end.
Proof.
  intros H P. destruct j; try discriminate; cbn [strict_ok]; rewrite P; reflexivity.
Qed.
Lemma fc_strict_ref_unm c j a p n w : fc_nonnull j = true ->
  payload_type c (TRef a p n) = PUnm w -> strict_ok c j (TRef a p n) = false.
Proof.
  intros H P. destruct j; try discriminate; cbn [strict_ok]; rewrite P; reflexivity.
Qed.

Lemma fc_payload_ref ctx a p n o sa fs : ctx_plain ctx = true ->
  locate_object ctx p n = Some o -> o_type o = TStruct sa [] fs -> attrs_plain sa = true ->
  payload_type (nrfn_only ctx) (TRef a p n) = PTy (TStruct sa [] (map nrfn_field fs)).
Proof.
  intros H L E A. unfold payload_type, resolve. cbn [resolve_fuel].
  rewrite fc_locate_nrfn, L. cbn [option_map]. unfold nrfn_only_obj. rewrite E. cbn [set_otype o_type resolve_fuel].
  unfold attrs_plain in A. apply andb_true_iff in A. destruct A as [A1 _]. apply negb_true_iff in A1.
  destruct (count_objects (nrfn_only ctx)); cbn [resolve_fuel]; unfold t_nullable; cbn [ty_attrs]; rewrite A1; reflexivity.
Qed.
Lemma fc_payload_ref_none ctx a p n : locate_object ctx p n = None ->
  exists w, payload_type (nrfn_only ctx) (TRef a p n) = PUnm w.
Proof.
  intros L. unfold payload_type, resolve. cbn [resolve_fuel]. rewrite fc_locate_nrfn, L. cbn [option_map].
  eexists; reflexivity.
Qed.

(* ---------- fields ---------- *)
Lemma fc_find_nrfn fs k :
  find (fun f => seqb (f_name f) k) (map nrfn_field fs) = option_map nrfn_field (find (fun f => seqb (f_name f) k) fs).
Proof.
  induction fs as [|f r IH]; simpl; [reflexivity|]. destruct (seqb (f_name f) k); [reflexivity|exact IH].
Qed.
Lemma fc_forallb_map {A B} (f : A -> B) (p : B -> bool) l : forallb p (map f l) = forallb (fun x => p (f x)) l.
Proof. induction l as [|x r IH]; simpl; [reflexivity|]. rewrite IH. reflexivity. Qed.
Lemma fc_forallb_impl {A} (p q : A -> bool) l : (forall x, In x l -> p x = true -> q x = true) ->
  forallb p l = true -> forallb q l = true.
Proof.
  intros H Hp. apply forallb_forall. intros x Hx. apply H; [exact Hx|]. exact (proj1 (forallb_forall _ _) Hp x Hx).
Qed.
Lemma fc_forallb_ext_in {A} (p q : A -> bool) l : (forall x, In x l -> p x = q x) -> forallb p l = forallb q l.
Proof.
  induction l as [|x r IH]; intro H; simpl; [reflexivity|].
  rewrite (H x (or_introl eq_refl)), IH by (intros; apply H; right; assumption). reflexivity.
Qed.

Lemma fc_strict_nrfn_field c v f : fc_nonnull v = true ->
  strict_ok c v (f_type (nrfn_field f)) = strict_ok c v (f_type f).
Proof.
  intro H. unfold nrfn_field. cbn [f_type].
  destruct (negb (f_required f) && negb (nullable (ty_attrs (f_type f))))%bool; [apply fc_strict_set_nullable; exact H|reflexivity].
Qed.

Lemma fc_ty_plain_attrs t : ty_plain t = true -> attrs_plain (ty_attrs t) = true.
Proof.
  destruct t; simpl; intro H; try discriminate;
    repeat match goal with X : (_ && _)%bool = true |- _ => apply andb_true_iff in X; destruct X end; assumption.
Qed.
Lemma fc_ty_plain_dflt t : ty_plain t = true -> has_default t = false.
Proof.
  intro H. apply fc_ty_plain_attrs in H. unfold attrs_plain in H. apply andb_true_iff in H. destruct H as [_ H].
  unfold has_default. rewrite H. reflexivity.
Qed.
Lemma fc_has_default_set_nullable t b : has_default (set_nullable t b) = has_default t.
Proof. destruct t; reflexivity. Qed.
Lemma fc_has_default_nrfn f : ty_plain (f_type f) = true -> has_default (f_type (nrfn_field f)) = false.
Proof.
  intro H. unfold nrfn_field. cbn [f_type].
  destruct (negb (f_required f) && negb (nullable (ty_attrs (f_type f))))%bool;
    [rewrite fc_has_default_set_nullable|]; apply fc_ty_plain_dflt; exact H.
Qed.

(* ---------- scalars ---------- *)
Lemma fc_scalar_fwd a k v cs j : kind_plain k = true -> dyn_is_nil v = true -> fc_nonnull j = true ->
  scalar_accepts (TScalar a k v cs) a k v cs j = true -> json_fits_scalar (TScalar a k v cs) k j = true.
Proof.
  intros Hk Hv Hj. destruct v; try discriminate. unfold scalar_accepts, json_fits_scalar.
  destruct k; try discriminate; destruct j; try discriminate; cbn; intro H; try reflexivity; try discriminate.
  apply andb_true_iff in H. destruct H as [H _].
  unfold is_integral, int_value in H. destruct (num_norm m e) as [x y]. exact H.
Qed.

Lemma fc_scalar_iff a k v j : kind_plain k = true -> dyn_is_nil v = true -> fc_nonnull j = true ->
  hints a = [] ->
  scalar_accepts (TScalar a k v []) a k v [] j = json_fits_scalar (TScalar a k v []) k j.
Proof.
  intros Hk Hv Hj Hh. destruct v; try discriminate. unfold scalar_accepts, json_fits_scalar. rewrite Hh.
  destruct k; try discriminate; destruct j; try discriminate; cbn; try reflexivity.
  unfold is_integral, int_value. destruct (num_norm m e) as [x y]. rewrite andb_true_r. reflexivity.
Qed.

(* ---------- forward: what the pre-chain IR accepts, the post-chain IR accepts ---------- *)
Section Fwd.
  Variable ctx : schemas.
  Hypothesis Hctx : ctx_plain ctx = true.
  Let out := nrfn_only ctx.

  Lemma fc_struct_fwd fs ms :
    fields_plain fs = true ->
    Forall (fun kv => forall t, ty_plain t = true -> ir_accepts ctx (snd kv) t = true -> strict_ok out (snd kv) t = true) ms ->
    fc_alt_check ctx (JObj ms) (TStruct attrs0 [] fs) = true ->
    fc_struct_ok out (map nrfn_field fs) ms = true.
  Proof.
    intros F IH H. cbn [fc_alt_check] in H. apply andb_true_iff in H. destruct H as [H H3].
    apply andb_true_iff in H. destruct H as [H1 H2].
    unfold fc_struct_ok, members_nodup. rewrite H1. cbn [andb]. apply andb_true_iff. split.
    - rewrite Forall_forall in IH. apply forallb_forall. intros kv Hkv.
      rewrite forallb_forall in H2. specialize (H2 kv Hkv). rewrite fc_find_nrfn.
      destruct (find (fun f => seqb (f_name f) (fst kv)) fs) as [f|] eqn:Ef; [|discriminate]. cbn [option_map].
      assert (ty_plain (f_type f) = true) as Pf.
      { apply find_some in Ef. exact (proj1 (forallb_forall _ _) F f (proj1 Ef)). }
      destruct (fc_nonnull (snd kv)) eqn:Nn.
      + pose proof (IH kv Hkv _ Pf H2) as S1. rewrite <- (fc_strict_nrfn_field out _ f Nn) in S1.
        destruct (snd kv); try discriminate; exact S1.
      + destruct (snd kv); try discriminate. rewrite (fc_null_rejected _ _ Hctx Pf) in H2. discriminate.
    - rewrite fc_forallb_map. revert H3. apply fc_forallb_impl. intros f Hf Hr. unfold nrfn_field at 1 3. cbn [f_required f_name].
      apply orb_true_iff in Hr. destruct Hr as [Hr|Hr]; rewrite Hr; [reflexivity|]. rewrite !orb_true_r. reflexivity.
  Qed.

  Lemma fc_accepts_scalar j a k v cs : ty_plain (TScalar a k v cs) = true ->
    ir_accepts ctx j (TScalar a k v cs) = scalar_accepts (TScalar a k v cs) a k v cs j.
  Proof. intro Ht. rewrite fc_ir_accepts_unfold, (fc_alts_plain _ _ Hctx Ht). cbn [existsb fc_alt_check]. apply orb_false_r. Qed.
  Lemma fc_accepts_array j a et : ty_plain (TArray a et) = true ->
    ir_accepts ctx j (TArray a et) = match j with JArr l => forallb (fun x => ir_accepts ctx x et) l | _ => false end.
  Proof. intro Ht. rewrite fc_ir_accepts_unfold, (fc_alts_plain _ _ Hctx Ht). cbn [existsb fc_alt_check]. apply orb_false_r. Qed.
  Lemma fc_accepts_map j a i vt : ty_plain (TMap a i vt) = true ->
    ir_accepts ctx j (TMap a i vt) = match j with JObj ms => forallb (fun kv => ir_accepts ctx (snd kv) vt) ms | _ => false end.
  Proof. intro Ht. rewrite fc_ir_accepts_unfold, (fc_alts_plain _ _ Hctx Ht). cbn [existsb fc_alt_check]. apply orb_false_r. Qed.
  Lemma fc_accepts_ref j a p n : ty_plain (TRef a p n) = true ->
    ir_accepts ctx j (TRef a p n) =
    match locate_object ctx p n with Some o => fc_alt_check ctx j (o_type o) | None => false end.
  Proof.
    intro Ht. rewrite fc_ir_accepts_unfold, (fc_alts_plain _ _ Hctx Ht).
    destruct (locate_object ctx p n); [|reflexivity]. cbn [existsb]. apply orb_false_r.
  Qed.

  Lemma fc_plain_scalar_inv a k v cs : ty_plain (TScalar a k v cs) = true -> kind_plain k = true /\ dyn_is_nil v = true.
  Proof.
    simpl. intro H. apply andb_true_iff in H. destruct H as [H Hv]. apply andb_true_iff in H. destruct H as [_ Hk]. split; assumption.
  Qed.

  Lemma fc_accepts_fwd : forall j t, ty_plain t = true -> ir_accepts ctx j t = true -> strict_ok out j t = true.
  Proof.
    induction j using fc_json_ind; intros t Ht Ha;
      try (rewrite (fc_null_rejected _ _ Hctx Ht) in Ha; discriminate).
    all: destruct t; try discriminate.
    (* arrays *)
    all: try (rewrite (fc_accepts_array _ _ _ Ht) in Ha; rewrite fc_strict_array by reflexivity; try discriminate).
    (* maps *)
    all: try (rewrite (fc_accepts_map _ _ _ _ Ht) in Ha; rewrite fc_strict_map by reflexivity; try discriminate).
    (* scalars *)
    all: try (rewrite (fc_accepts_scalar _ _ _ _ _ Ht) in Ha; rewrite fc_strict_scalar by reflexivity;
              destruct (fc_plain_scalar_inv _ _ _ _ Ht) as [Hk Hv];
              apply (fc_scalar_fwd a k value cs _ Hk Hv); [reflexivity|exact Ha]).
    (* references *)
    all: try (rewrite (fc_accepts_ref _ _ _ _ Ht) in Ha;
              destruct (locate_object ctx pkg name) as [o|] eqn:L; [|discriminate];
              destruct (fc_plain_object _ _ _ _ Hctx L) as [sa [fs [E [A F]]]];
              (erewrite fc_strict_ref_struct; [ | reflexivity | exact (fc_payload_ref _ a _ _ _ _ _ Hctx L E A)]);
              rewrite E in Ha; try discriminate).
    - (* array *)
      simpl in Ht. apply andb_true_iff in Ht. destruct Ht as [_ Ht].
      apply forallb_forall. intros x Hx. rewrite Forall_forall in H. apply (H x Hx _ Ht).
      exact (proj1 (forallb_forall _ _) Ha x Hx).
    - (* map *)
      simpl in Ht. apply andb_true_iff in Ht. destruct Ht as [_ Ht].
      apply forallb_forall. intros x Hx. rewrite Forall_forall in H. apply (H x Hx _ Ht).
      exact (proj1 (forallb_forall _ _) Ha x Hx).
    - (* struct behind a reference *)
      apply (fc_struct_fwd fs l F H). exact Ha.
  Qed.

  Theorem fc_accepts_doc_fwd p n d :
    ir_accepts_doc ctx p n d = true -> ir_valid_object out p n d = true.
  Proof.
    unfold ir_accepts_doc, ir_valid_object, strict_ok_object. intro H.
    destruct d; try discriminate; apply fc_accepts_fwd; try reflexivity; exact H.
  Qed.

  Lemma fc_struct_object_out p n d : ir_accepts_doc ctx p n d = true -> struct_object out p n = true.
  Proof.
    intro H. assert (ir_accepts ctx d (TRef attrs0 p n) = true) as Ha by (destruct d; try discriminate; exact H).
    rewrite fc_ir_accepts_unfold, (fc_alts_plain _ (TRef attrs0 p n) Hctx eq_refl) in Ha.
    unfold struct_object. unfold out. rewrite fc_locate_nrfn.
    destruct (locate_object ctx p n) as [o|] eqn:L; [|discriminate].
    destruct (fc_plain_object _ _ _ _ Hctx L) as [sa [fs [E _]]]. cbn [option_map]. unfold nrfn_only_obj. rewrite E. reflexivity.
  Qed.
End Fwd.

(* ---------- both ways: no constraint, no format, null-free documents ---------- *)
Lemma fc_null_free_nonnull j : json_null_free j = true -> fc_nonnull j = true.
Proof. destruct j; simpl; auto. Qed.

Lemma fc_bare_object ctx p n o : ctx_bare ctx = true -> locate_object ctx p n = Some o -> ty_bare (o_type o) = true.
Proof.
  intros H L. destruct (fc_locate_in _ _ _ _ L) as [s [Hs Ho]].
  unfold ctx_bare in H. rewrite forallb_forall in H. specialize (H s Hs).
  rewrite forallb_forall in H. exact (H _ Ho).
Qed.

Section Iff.
  Variable ctx : schemas.
  Hypothesis Hctx : ctx_plain ctx = true.
  Hypothesis Hbare : ctx_bare ctx = true.
  Let out := nrfn_only ctx.

  Definition fc_iff_at (j : json) : Prop :=
    forall t, ty_plain t = true -> ty_bare t = true -> ir_accepts ctx j t = strict_ok out j t.

  Lemma fc_struct_iff sa fs ms :
    fields_plain fs = true -> forallb (fun f => ty_bare (f_type f)) fs = true ->
    Forall (fun kv => fc_iff_at (snd kv)) ms -> forallb (fun kv => json_null_free (snd kv)) ms = true ->
    fc_alt_check ctx (JObj ms) (TStruct sa [] fs) = fc_struct_ok out (map nrfn_field fs) ms.
  Proof.
    intros F B IH NF. cbn [fc_alt_check]. unfold fc_struct_ok, members_nodup. f_equal; [f_equal|].
    - apply fc_forallb_ext_in. intros kv Hkv. rewrite fc_find_nrfn.
      destruct (find (fun f => seqb (f_name f) (fst kv)) fs) as [f|] eqn:Ef; [|reflexivity]. cbn [option_map].
      apply find_some in Ef. destruct Ef as [Ef _].
      assert (fc_nonnull (snd kv) = true) as Nn.
      { apply fc_null_free_nonnull. exact (proj1 (forallb_forall _ _) NF kv Hkv). }
      rewrite Forall_forall in IH.
      rewrite (IH kv Hkv (f_type f) (proj1 (forallb_forall _ _) F f Ef) (proj1 (forallb_forall _ _) B f Ef)).
      rewrite <- (fc_strict_nrfn_field out _ f Nn). destruct (snd kv); try discriminate; reflexivity.
    - rewrite fc_forallb_map. apply fc_forallb_ext_in. intros f Hf.
      rewrite (fc_has_default_nrfn f (proj1 (forallb_forall _ _) F f Hf)). unfold nrfn_field. cbn [f_required f_name].
      rewrite orb_false_r. reflexivity.
  Qed.

  Lemma fc_ref_iff j a p n : fc_nonnull j = true -> ty_plain (TRef a p n) = true ->
    (forall ms, j = JObj ms -> Forall (fun kv => fc_iff_at (snd kv)) ms /\ forallb (fun kv => json_null_free (snd kv)) ms = true) ->
    ir_accepts ctx j (TRef a p n) = strict_ok out j (TRef a p n).
  Proof.
    intros Nn Ht Hm. rewrite (fc_accepts_ref _ Hctx _ _ _ _ Ht).
    destruct (locate_object ctx p n) as [o|] eqn:L.
    - destruct (fc_plain_object _ _ _ _ Hctx L) as [sa [fs [E [A F]]]].
      pose proof (fc_bare_object _ _ _ _ Hbare L) as B. rewrite E in B. cbn [ty_bare] in B.
      erewrite fc_strict_ref_struct; [ | exact Nn | exact (fc_payload_ref _ a _ _ _ _ _ Hctx L E A)].
      rewrite E. destruct j; try reflexivity.
      destruct (Hm ms eq_refl) as [IH NF]. apply fc_struct_iff; assumption.
    - destruct (fc_payload_ref_none ctx a p n L) as [w Pw]. symmetry. apply (fc_strict_ref_unm out j a p n w Nn Pw).
  Qed.

  Lemma fc_scalar_case j a k v cs : fc_nonnull j = true -> ty_plain (TScalar a k v cs) = true -> ty_bare (TScalar a k v cs) = true ->
    ir_accepts ctx j (TScalar a k v cs) = strict_ok out j (TScalar a k v cs).
  Proof.
    intros Nn Ht Hb. rewrite (fc_accepts_scalar _ Hctx _ _ _ _ _ Ht), (fc_strict_scalar _ _ _ _ _ _ Nn).
    destruct (fc_plain_scalar_inv _ _ _ _ Ht) as [Hk Hv].
    cbn [ty_bare] in Hb. apply andb_true_iff in Hb. destruct Hb as [Hc Hh].
    destruct cs; [|discriminate]. destruct (hints a) eqn:Eh; [|discriminate].
    apply fc_scalar_iff; assumption.
  Qed.

  Lemma fc_accepts_iff : forall j, json_null_free j = true -> fc_iff_at j.
  Proof.
    induction j using fc_json_ind; intros NF t Ht Hb; try discriminate.
    all: destruct t; try discriminate.
    all: try (apply fc_scalar_case; [reflexivity|exact Ht|exact Hb]).
    all: try (apply fc_ref_iff; [reflexivity|exact Ht|]; intros ms Em; try discriminate).
    all: try (rewrite (fc_accepts_array _ Hctx _ _ _ Ht), fc_strict_array by reflexivity; try reflexivity).
    all: try (rewrite (fc_accepts_map _ Hctx _ _ _ _ Ht), fc_strict_map by reflexivity; try reflexivity).
    - (* array *)
      simpl in Ht. apply andb_true_iff in Ht. destruct Ht as [_ Ht]. cbn [ty_bare] in Hb. cbn [json_null_free] in NF.
      apply fc_forallb_ext_in. intros x Hx. rewrite Forall_forall in H.
      apply (H x Hx (proj1 (forallb_forall _ _) NF x Hx) _ Ht Hb).
    - (* map *)
      simpl in Ht. apply andb_true_iff in Ht. destruct Ht as [_ Ht]. cbn [ty_bare] in Hb.
      apply andb_true_iff in Hb. destruct Hb as [_ Hb]. cbn [json_null_free] in NF.
      apply fc_forallb_ext_in. intros x Hx. rewrite Forall_forall in H.
      apply (H x Hx (proj1 (forallb_forall _ _) NF x Hx) _ Ht Hb).
    - (* struct behind a reference *)
      inversion Em; subst ms. cbn [json_null_free] in NF. split; [|exact NF].
      rewrite Forall_forall in H. apply Forall_forall. intros kv Hkv.
      apply (H kv Hkv). exact (proj1 (forallb_forall _ _) NF kv Hkv).
  Qed.

  Theorem fc_accepts_doc_iff p n d : json_null_free d = true ->
    ir_accepts_doc ctx p n d = ir_valid_object out p n d.
  Proof.
    intro NF. unfold ir_accepts_doc, ir_valid_object, strict_ok_object.
    destruct d; try reflexivity; apply fc_accepts_iff; try reflexivity; exact NF.
  Qed.
End Iff.
