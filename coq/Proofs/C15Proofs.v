From Coq Require Import List String Bool Lia.
From Cog Require Import Model.IR Model.Passes Model.Process Model.Spec15 Proofs.PassLemmas.
Import ListNotations.
Local Open Scope list_scope.

(* ---------- object-local transformations ---------- *)
Definition local_fn (p : pass) : option (object -> object) :=
  match p with
  | POmitFields refs => Some (omit_fields_obj refs)
  | PRetypeObject pkg obj as_ c => Some (retype_object_obj pkg obj as_ c)
  | PRetypeField pkg obj fld as_ c => Some (retype_field_obj (pkg, obj, fld) as_ c)
  | PFieldsSetRequired refs => Some (fields_set_req_obj true refs)
  | PFieldsSetNotRequired refs => Some (fields_set_req_obj false refs)
  | PFieldsSetDefault defs => Some (fields_set_default_obj defs)
  | PHintObject pkg obj hs => Some (hint_object_obj pkg obj hs)
  | PAppendCommentObjects c => Some (fun o => set_ocomments o (o_comments o ++ [c]))
  | _ => None
  end.

(* does the selector of the transformation name this object (by package and name)? *)
Definition fieldref_names_object (r : fieldref) (o : object) : bool :=
  let '(pkg, obj, _) := r in seqb (o_selfpkg o) pkg && equal_fold (o_name o) obj.
Definition targets_object (p : pass) (o : object) : bool :=
  match p with
  | POmitFields refs | PFieldsSetRequired refs | PFieldsSetNotRequired refs =>
      existsb (fun r => fieldref_names_object r o) refs
  | PFieldsSetDefault defs => existsb (fun d => fieldref_names_object (fst d) o) defs
  | PRetypeObject pkg obj _ _ | PHintObject pkg obj _ => objref_matches (pkg, obj) o
  | PRetypeField pkg obj fld _ _ => fieldref_names_object (pkg, obj, fld) o
  | PAppendCommentObjects _ => true
  | _ => true
  end.

Lemma set_otype_same o : set_otype o (o_type o) = o.
Proof. destruct o; reflexivity. Qed.

Lemma fieldref_not_named r o f : fieldref_names_object r o = false -> fieldref_matches r o f = false.
Proof.
  destruct r as [[pkg obj] fld]. unfold fieldref_names_object, fieldref_matches. intros H.
  rewrite H. reflexivity.
Qed.

Lemma existsb_false {A} (p : A -> bool) l : existsb p l = false -> forall x, In x l -> p x = false.
Proof.
  intros H x Hin. destruct (p x) eqn:E; [|reflexivity].
  assert (existsb p l = true) by (apply existsb_exists; exists x; split; assumption). congruence.
Qed.

Lemma filter_all {A} (p : A -> bool) l : (forall x, In x l -> p x = true) -> filter p l = l.
Proof.
  intros H. induction l as [|x r IH]; [reflexivity|]. simpl. rewrite H by (left; reflexivity).
  f_equal. apply IH. intros y Hy. apply H. right. assumption.
Qed.

Lemma retype_first_none o r as_ c fs :
  (forall f, In f fs -> fieldref_matches r o f = false) -> retype_first o r as_ c fs = fs.
Proof.
  induction fs as [|f rest IH]; intros H; [reflexivity|]. simpl.
  rewrite (H f) by (left; reflexivity). f_equal. apply IH. intros g Hg. apply H. right. assumption.
Qed.

Lemma fold_defaults_none o (defs : list (string * string * string * dyn)) f :
  (forall d, In d defs -> fieldref_matches (fst d) o f = false) ->
  fold_left (fun f' d => let '(r, v) := d in
               if fieldref_matches r o f'
               then mkField (f_name f') (f_comments f') (set_default (f_type f') v) (f_required f')
               else f') defs f = f.
Proof.
  induction defs as [|d rest IH]; intros H; [reflexivity|]. simpl.
  destruct d as [r v]. pose proof (H (r, v) (or_introl eq_refl)) as H1. simpl in H1. rewrite H1.
  apply IH. intros d' Hd'. apply H. right. assumption.
Qed.

(* an object the selector does not name is returned unchanged *)
Lemma local_untargeted_unchanged_proof p g o :
  local_fn p = Some g -> targets_object p o = false -> g o = o.
Proof.
  destruct p; simpl; intros Hg Ht; inversion Hg; subst; clear Hg; try discriminate.
  - (* omit_fields *) unfold omit_fields_obj. destruct (o_type o) eqn:E; try reflexivity.
    rewrite filter_all; [rewrite <- E; apply set_otype_same|].
    intros f _. apply negb_true_iff. apply not_true_is_false. intros H.
    apply existsb_exists in H. destruct H as [r [Hr Hm]].
    rewrite (fieldref_not_named r o f) in Hm; [discriminate|].
    apply (existsb_false _ _ Ht). assumption.
  - (* retype_object *) unfold retype_object_obj. rewrite Ht. reflexivity.
  - (* retype_field *) unfold retype_field_obj. destruct (o_type o) eqn:E; try reflexivity.
    rewrite retype_first_none; [rewrite <- E; apply set_otype_same|].
    intros f _. apply fieldref_not_named. assumption.
  - (* fields_set_required *) unfold fields_set_req_obj. destruct (o_type o) eqn:E; try reflexivity.
    rewrite map_id_in; [rewrite <- E; apply set_otype_same|].
    intros f _. destruct (existsb (fun r => fieldref_matches r o f) refs) eqn:Ex; [|reflexivity].
    apply existsb_exists in Ex. destruct Ex as [r [Hr Hm]].
    rewrite (fieldref_not_named r o f) in Hm; [discriminate|]. apply (existsb_false _ _ Ht). assumption.
  - (* fields_set_not_required *) unfold fields_set_req_obj. destruct (o_type o) eqn:E; try reflexivity.
    rewrite map_id_in; [rewrite <- E; apply set_otype_same|].
    intros f _. destruct (existsb (fun r => fieldref_matches r o f) refs) eqn:Ex; [|reflexivity].
    apply existsb_exists in Ex. destruct Ex as [r [Hr Hm]].
    rewrite (fieldref_not_named r o f) in Hm; [discriminate|]. apply (existsb_false _ _ Ht). assumption.
  - (* fields_set_default *) unfold fields_set_default_obj. destruct (o_type o) eqn:E; try reflexivity.
    rewrite map_id_in; [rewrite <- E; apply set_otype_same|].
    intros f _. apply fold_defaults_none. intros d Hd. apply fieldref_not_named.
    apply (existsb_false _ _ Ht d Hd).
  - (* hint_object *) unfold hint_object_obj. rewrite Ht. reflexivity.
Qed.

(* local transformations never rename an object *)
Lemma local_preserves_identity_proof p g o :
  local_fn p = Some g ->
  o_name (g o) = o_name o /\ o_selfpkg (g o) = o_selfpkg o /\ o_selfname (g o) = o_selfname o.
Proof.
  destruct p; simpl; intros Hg; inversion Hg; subst; clear Hg.
  - unfold omit_fields_obj. destruct (o_type o); repeat split; reflexivity.
  - unfold retype_object_obj. destruct (objref_matches (pkg, obj) o); [|repeat split; reflexivity].
    destruct comments; repeat split; reflexivity.
  - unfold retype_field_obj. destruct (o_type o); repeat split; reflexivity.
  - unfold fields_set_req_obj. destruct (o_type o); repeat split; reflexivity.
  - unfold fields_set_req_obj. destruct (o_type o); repeat split; reflexivity.
  - unfold fields_set_default_obj. destruct (o_type o); repeat split; reflexivity.
  - unfold hint_object_obj. destruct (objref_matches (pkg, obj) o); repeat split; reflexivity.
  - repeat split; reflexivity.
Qed.

Definition map_objects (g : object -> object) (ss : schemas) : schemas :=
  map (fun s => set_objects s (map (fun ko => (fst ko, g (snd ko))) (s_objects s))) ss.

Lemma local_pass_is_map_proof p g ss :
  local_fn p = Some g -> Forall wf_schema ss -> run_pass p ss = Ok (map_objects g ss).
Proof.
  intros Hg Hwf.
  assert (forall o, o_name (g o) = o_name o) as Hname
    by (intros o; apply (local_preserves_identity_proof p g o Hg)).
  assert (map (visit_schema_t (fun t => t) g) ss = map_objects g ss) as Hmap.
  { unfold map_objects. apply map_ext_in. intros s Hs. apply visit_schema_t_local; [|assumption].
    rewrite Forall_forall in Hwf. apply Hwf. assumption. }
  destruct p; simpl in Hg; inversion Hg; subst; simpl;
    unfold omit_fields, retype_object, retype_field, fields_set_required, fields_set_not_required,
           fields_set_default, hint_object, append_comment_objects; rewrite Hmap; reflexivity.
Qed.

Lemma map_objects_wf g ss :
  (forall o, o_name (g o) = o_name o) -> Forall wf_schema ss -> Forall wf_schema (map_objects g ss).
Proof.
  intros Hname Hwf. unfold map_objects. rewrite Forall_forall in *. intros s' Hin.
  apply in_map_iff in Hin. destruct Hin as [s [<- Hs]]. unfold wf_schema. simpl.
  apply wf_objects_map; [apply Hwf; assumption|assumption].
Qed.

(* frame: same packages, metadata, entry points, keys in the same order; an object the selector
   does not name is identical *)
Definition objects_frame (p : pass) (l l' : list (string * object)) : Prop :=
  Forall2 (fun ko ko' => fst ko' = fst ko /\ (targets_object p (snd ko) = false -> snd ko' = snd ko)) l l'.
Definition schema_frame (p : pass) (s s' : schema) : Prop :=
  s_pkg s' = s_pkg s /\ s_meta s' = s_meta s /\ s_entry s' = s_entry s /\
  s_entrytype s' = s_entrytype s /\ objects_frame p (s_objects s) (s_objects s').

Theorem local_frame_proof p g ss ss' :
  local_fn p = Some g -> Forall wf_schema ss -> run_pass p ss = Ok ss' ->
  Forall2 (schema_frame p) ss ss' /\ Forall wf_schema ss'.
Proof.
  intros Hg Hwf Hrun. rewrite (local_pass_is_map_proof p g ss Hg Hwf) in Hrun. inversion Hrun; subst.
  split.
  - unfold map_objects. clear Hrun Hwf. induction ss as [|s r IH]; constructor; [|exact IH].
    unfold schema_frame. simpl. repeat split.
    induction (s_objects s) as [|ko l IHl]; constructor; [|exact IHl].
    simpl. split; [reflexivity|]. intros Ht. apply (local_untargeted_unchanged_proof p g); assumption.
  - apply map_objects_wf; [|assumption]. intros o. apply (local_preserves_identity_proof p g o Hg).
Qed.

Theorem local_absent_identity_proof p g ss :
  local_fn p = Some g -> Forall wf_schema ss ->
  (forall s ko, In s ss -> In ko (s_objects s) -> targets_object p (snd ko) = false) ->
  run_pass p ss = Ok ss.
Proof.
  intros Hg Hwf Hnone. rewrite (local_pass_is_map_proof p g ss Hg Hwf). f_equal.
  unfold map_objects. apply map_id_in. intros s Hs.
  rewrite map_id_in; [apply set_objects_same|].
  intros [k o] Hko. simpl. f_equal. apply (local_untargeted_unchanged_proof p g); [assumption|].
  apply (Hnone s (k, o)); assumption.
Qed.

(* ---------- field-level frame of the field transformations ---------- *)
Lemma map_Forall2 {A B} (f : A -> B) (P : A -> B -> Prop) l :
  (forall x, P x (f x)) -> Forall2 P l (map f l).
Proof. intros H. induction l; constructor; auto. Qed.

Theorem fields_set_required_fields_proof req refs o a dh fs :
  o_type o = TStruct a dh fs ->
  exists fs', o_type (fields_set_req_obj req refs o) = TStruct a dh fs' /\
    Forall2 (fun f f' =>
       f_name f' = f_name f /\ f_comments f' = f_comments f /\
       if existsb (fun r => fieldref_matches r o f) refs
       then f_required f' = req /\ f_type f' = set_nullable (f_type f) (negb req)
       else f' = f) fs fs'.
Proof.
  intros E. unfold fields_set_req_obj. rewrite E. eexists. split; [reflexivity|].
  apply map_Forall2. intros f.
  destruct (existsb (fun r0 => fieldref_matches r0 o f) refs); simpl; repeat split; reflexivity.
Qed.

Theorem omit_fields_fields_proof refs o a dh fs :
  o_type o = TStruct a dh fs ->
  o_type (omit_fields_obj refs o)
  = TStruct a dh (filter (fun f => negb (existsb (fun r => fieldref_matches r o f) refs)) fs).
Proof. intros E. unfold omit_fields_obj. rewrite E. reflexivity. Qed.

(* retype_field: the first matching field gets the new type (and comments), everything
   before and after it is untouched *)
Theorem retype_field_fields_proof r as_ c o fs :
  (forall f, In f fs -> fieldref_matches r o f = false) /\ retype_first o r as_ c fs = fs
  \/ exists pre f post, fs = pre ++ f :: post /\
       (forall g, In g pre -> fieldref_matches r o g = false) /\ fieldref_matches r o f = true /\
       retype_first o r as_ c fs
       = pre ++ mkField (f_name f) (match c with Some x => x | None => f_comments f end) as_ (f_required f) :: post.
Proof.
  induction fs as [|f rest IH].
  - left. split; [intros f []|reflexivity].
  - simpl. destruct (fieldref_matches r o f) eqn:E.
    + right. exists [], f, rest. repeat split; [intros g []|assumption].
    + destruct IH as [[Hn Heq]|[pre [g [post [Hfs [Hpre [Hg Hres]]]]]]].
      * left. split; [intros g [<-|Hg]; [assumption|apply Hn; assumption]|rewrite Heq; reflexivity].
      * right. exists (f :: pre), g, post. repeat split.
        -- rewrite Hfs. reflexivity.
        -- intros h [<-|Hh]; [assumption|apply Hpre; assumption].
        -- assumption.
        -- rewrite Hres. reflexivity.
Qed.

(* ---------- omit ---------- *)
Theorem omit_exact_proof refs ss :
  omit refs ss = map (fun s => set_objects s (filter (fun ko => negb (objrefs_match refs (snd ko))) (s_objects s))) ss.
Proof. reflexivity. Qed.

Theorem omit_absent_identity_proof refs ss :
  (forall s ko, In s ss -> In ko (s_objects s) -> objrefs_match refs (snd ko) = false) ->
  run_pass (POmit refs) ss = Ok ss.
Proof.
  intros H. simpl. f_equal. unfold omit. apply map_id_in. intros s Hs.
  rewrite filter_all; [apply set_objects_same|].
  intros ko Hko. rewrite (H s ko Hs Hko). reflexivity.
Qed.

Theorem omit_keeps_others_in_order_proof refs s :
  s_objects (set_objects s (filter (fun ko => negb (objrefs_match refs (snd ko))) (s_objects s)))
  = filter (fun ko => negb (objrefs_match refs (snd ko))) (s_objects s).
Proof. destruct s; reflexivity. Qed.

(* ---------- add_object / duplicate_object onto a fresh name ---------- *)
Lemma register_fresh s o :
  ~ In (o_name o) (map fst (s_objects s)) ->
  s_objects (register_objects s [o]) = s_objects s ++ [(o_name o, o)].
Proof. intros H. unfold register_objects, set_objects. simpl. unfold add_object. apply objs_set_fresh. assumption. Qed.

Theorem add_object_effect_proof pkg obj as_ c ss :
  run_pass (PAddObject pkg obj as_ c) ss
  = Ok (map (fun s => if seqb (s_pkg s) pkg then register_objects s [mkObject obj c as_ pkg obj] else s) ss).
Proof. reflexivity. Qed.

Theorem add_object_fresh_proof pkg obj as_ c s :
  s_pkg s = pkg -> ~ In obj (map fst (s_objects s)) ->
  s_objects (register_objects s [mkObject obj c as_ pkg obj]) = s_objects s ++ [(obj, mkObject obj c as_ pkg obj)].
Proof. intros _ H. apply (register_fresh s (mkObject obj c as_ pkg obj)). exact H. Qed.

Theorem add_object_absent_identity_proof pkg obj as_ c ss :
  (forall s, In s ss -> s_pkg s <> pkg) -> run_pass (PAddObject pkg obj as_ c) ss = Ok ss.
Proof.
  intros H. simpl. f_equal. unfold add_object_pass. apply map_id_in. intros s Hs.
  destruct (seqb (s_pkg s) pkg) eqn:E; [|reflexivity]. apply seqb_eq in E. exfalso. apply (H s Hs E).
Qed.

Theorem duplicate_absent_identity_proof pkg obj ap ao om ss :
  locate_object ss pkg obj = None -> run_pass (PDuplicateObject pkg obj ap ao om) ss = Ok ss.
Proof. intros H. simpl. unfold duplicate_object. rewrite H. reflexivity. Qed.

Theorem duplicate_is_copy_proof pkg obj ap ao ss src :
  locate_object ss pkg obj = Some src ->
  run_pass (PDuplicateObject pkg obj ap ao []) ss
  = Ok (map (fun s => if seqb (s_pkg s) ap
                      then register_objects s [mkObject ao (o_comments src) (o_type src) ap ao] else s) ss).
Proof.
  intros H. simpl. unfold duplicate_object. rewrite H. destruct (o_type src); reflexivity.
Qed.

(* ---------- schema_set_identifier / schema_set_entry_point ---------- *)
Theorem schema_set_identifier_frame_proof pkg id ss :
  Forall2 (fun s s' => s_pkg s' = s_pkg s /\ s_objects s' = s_objects s /\ s_entry s' = s_entry s /\
                       s_entrytype s' = s_entrytype s /\
                       (s_pkg s <> pkg -> s' = s) /\ (s_pkg s = pkg -> m_identifier (s_meta s') = id))
          ss (schema_set_identifier pkg id ss).
Proof.
  unfold schema_set_identifier. apply map_Forall2. intros s.
  destruct (seqb (s_pkg s) pkg) eqn:E; simpl.
  - apply seqb_eq in E. split; [reflexivity|]. split; [reflexivity|]. split; [reflexivity|].
    split; [reflexivity|]. split; [intros Hn; contradiction|]. intros _. reflexivity.
  - apply seqb_neq in E. split; [reflexivity|]. split; [reflexivity|]. split; [reflexivity|].
    split; [reflexivity|]. split; [reflexivity|]. intros Hn; contradiction.
Qed.

Theorem schema_set_entrypoint_frame_proof pkg ep ss :
  Forall2 (fun s s' => s_pkg s' = s_pkg s /\ s_objects s' = s_objects s /\ s_meta s' = s_meta s /\
                       (s_pkg s <> pkg -> s' = s) /\
                       (s_pkg s = pkg -> s_entry s' = ep /\ s_entrytype s' = TRef A0 pkg ep))
          ss (schema_set_entrypoint pkg ep ss).
Proof.
  unfold schema_set_entrypoint. apply map_Forall2. intros s.
  destruct (seqb (s_pkg s) pkg) eqn:E; simpl.
  - apply seqb_eq in E. split; [reflexivity|]. split; [reflexivity|]. split; [reflexivity|].
    split; [intros Hn; contradiction|]. intros _. subst. split; reflexivity.
  - apply seqb_neq in E. split; [reflexivity|]. split; [reflexivity|]. split; [reflexivity|].
    split; [reflexivity|]. intros Hn; contradiction.
Qed.

(* ---------- the model does what the documented behaviour says ---------- *)
Theorem model_refines_spec_proof p ss : run_pass p ss = spec_run_pass p ss.
Proof. destruct p; reflexivity. Qed.

Theorem process_refines_spec_proof ps : forall ss, process ps ss = spec_process ps ss.
Proof.
  induction ps as [|p r IH]; intros ss; [reflexivity|]. simpl.
  rewrite model_refines_spec_proof. destruct (spec_run_pass p ss); simpl; auto.
Qed.

(* ---------- sequences ---------- *)
Theorem process_app_proof ps qs ss :
  process (ps ++ qs) ss = bind (process ps ss) (process qs).
Proof.
  revert ss. induction ps as [|p r IH]; intros ss; simpl.
  - destruct (process qs ss); reflexivity.
  - destruct (run_pass p ss); simpl; auto.
Qed.

(* a sequence of object-local transformations leaves an object none of them names identical,
   at the same position, whatever happens to the other objects *)
Definition names_object (p : pass) (pkg name : string) : bool :=
  targets_object p (mkObject name [] ty_zero pkg name).

Lemma targets_object_by_name p o :
  o_selfname o = o_name o ->
  targets_object p o = names_object p (o_selfpkg o) (o_name o).
Proof.
  intros Hs. unfold names_object. destruct p; simpl; try reflexivity;
    unfold objref_matches, fieldref_names_object; simpl; rewrite ?Hs; reflexivity.
Qed.

Definition all_local (ps : list pass) : Prop := Forall (fun p => exists g, local_fn p = Some g) ps.

Lemma Forall2_compose {A} (P Q R : A -> A -> Prop) :
  (forall a b c, P a b -> Q b c -> R a c) ->
  forall l1 l2 l3, Forall2 P l1 l2 -> Forall2 Q l2 l3 -> Forall2 R l1 l3.
Proof.
  intros H l1 l2 l3 H12. revert l3. induction H12 as [|a b r1 r2 Hab _ IH]; intros l3 H23;
    inversion H23; subst; constructor; [eapply H; eassumption|apply IH; assumption].
Qed.

Lemma Forall2_refl {A} (P : A -> A -> Prop) : (forall a, P a a) -> forall l, Forall2 P l l.
Proof. intros H l. induction l; constructor; auto. Qed.

Definition obj_seq_frame (ps : list pass) (ko ko' : string * object) : Prop :=
  fst ko' = fst ko /\
  (o_selfname (snd ko) = o_name (snd ko) ->
   forallb (fun p => negb (names_object p (o_selfpkg (snd ko)) (o_name (snd ko)))) ps = true ->
   snd ko' = snd ko).
Definition schema_seq_frame (ps : list pass) (s s' : schema) : Prop :=
  s_pkg s' = s_pkg s /\ Forall2 (obj_seq_frame ps) (s_objects s) (s_objects s').

Theorem sequence_frame_proof ps : forall ss ss',
  all_local ps -> Forall wf_schema ss -> process ps ss = Ok ss' ->
  Forall2 (schema_seq_frame ps) ss ss'.
Proof.
  induction ps as [|p r IH]; intros ss ss' Hloc Hwf Hrun.
  - simpl in Hrun. inversion Hrun; subst. apply Forall2_refl. intros s. split; [reflexivity|].
    apply Forall2_refl. intros ko. split; auto.
  - simpl in Hrun. inversion Hloc as [|? ? [g Hg] Hrest]; subst.
    destruct (run_pass p ss) as [ss1| | |] eqn:E1; simpl in Hrun; try discriminate.
    destruct (local_frame_proof p g ss ss1 Hg Hwf E1) as [Hf1 Hwf1].
    specialize (IH ss1 ss' Hrest Hwf1 Hrun).
    apply (Forall2_compose (schema_frame p) (schema_seq_frame r) (schema_seq_frame (p :: r))) with (l2 := ss1);
      [|assumption|assumption].
    intros s s1 s2 [Hp [_ [_ [_ Hobjs]]]] [Hp' Hobjs']. split; [congruence|].
    apply (Forall2_compose (fun ko ko' => fst ko' = fst ko /\ (targets_object p (snd ko) = false -> snd ko' = snd ko))
                           (obj_seq_frame r) (obj_seq_frame (p :: r))) with (l2 := s_objects s1);
      [|assumption|assumption].
    intros ko ko1 ko2 [Hk Hsame] [Hk' Hsame']. split; [congruence|].
    intros Hself Hall. simpl in Hall. apply andb_true_iff in Hall. destruct Hall as [Hp1 Hr1].
    apply negb_true_iff in Hp1.
    assert (snd ko1 = snd ko) as E by (apply Hsame; rewrite targets_object_by_name; assumption).
    rewrite <- E. apply Hsame'; rewrite E; assumption.
Qed.
