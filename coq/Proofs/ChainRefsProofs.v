(* C05 over the language-chain pass models: which passes keep every reference, entry point and
   discriminator-mapping target resolving (Model/Refs.v).
   WHAT IS HERE
   - resolves_iff: resolves = refs_ok /\ entries_ok /\ mappings_ok; the side invariants wfk, pkgs_unique,
     shape_kept; the generic step lemmas refs_kept, entries_kept, step_keeps, vrel_refs, visit_schema_st_step;
   - `<pass>_keeps` (references and entry points) for every pass of the Go / Java-core / PHP-core / Python chains,
     including the ones that register objects (ASTN, AETE, DTT, DOASTE - doaste_keeps_general);
   - mappings: no_mappings through the passes before DisjunctionInferMapping (nm_aete, nm_pev, ...), dim_keeps_mappings (the
     mapping built only targets branch names), udta_keeps_mappings, dtt_keeps_mappings, rnev_keeps_mappings;
   - chain theorems: python_chain_keeps_references / _keeps_resolving, go_chain_keeps_references_general,
     go_chain_keeps_resolving, java_core_chain_keeps_*, php_core_chain_keeps_*;
   - witnesses of the three passes that break resolution (chain_passes_that_break_resolution). *)
From Coq Require Import List String Bool Ascii Lia.
From Cog Require Import Model.IR Model.Names Model.Passes Model.PassesChain Model.Process Model.NF Model.Refs
     Proofs.TyInd Proofs.PassLemmas Proofs.ChainLemmas Proofs.ChainNFProofs Proofs.ChainPresProofs.
Import ListNotations.
Local Open Scope list_scope.

(* ---------- the three components of `resolves` ---------- *)
Definition refs_ok (ss : schemas) : Prop :=
  forall s r, In s ss -> In r (schema_refs s) -> loaded ss (fst r) = true -> object_exists ss (fst r) (snd r) = true.
Definition entries_ok (ss : schemas) : Prop :=
  forall s, In s ss -> s_entry s <> EmptyString -> objs_has (s_objects s) (s_entry s) = true.
Definition mappings_ok (ss : schemas) : Prop := forall s, In s ss -> schema_bad_mappings s = [].

Lemma filter_nil_iff {A} (p : A -> bool) l : filter p l = [] <-> forall x, In x l -> p x = false.
Proof.
  induction l as [|x r IH]; simpl; [split; [intros _ y []|reflexivity]|].
  destruct (p x) eqn:E.
  - split; [discriminate|]. intros H. rewrite (H x (or_introl eq_refl)) in E. discriminate.
  - rewrite IH. split; [intros H y [<-|Hy]; [assumption|apply H; assumption]|intros H y Hy; apply H; right; assumption].
Qed.
Lemma flat_map_nil_iff {A B} (f : A -> list B) l : flat_map f l = [] <-> forall x, In x l -> f x = [].
Proof.
  induction l as [|x r IH]; simpl; [split; [intros _ y []|reflexivity]|].
  split.
  - intros H. apply app_eq_nil in H. destruct H as [H1 H2]. intros y [<-|Hy]; [assumption|apply IH; assumption].
  - intros H. rewrite (H x (or_introl eq_refl)). simpl. apply IH. intros y Hy. apply H. right; assumption.
Qed.

Theorem resolves_iff ss : resolves ss = true <-> refs_ok ss /\ entries_ok ss /\ mappings_ok ss.
Proof.
  unfold resolves, dangling. split.
  - intros H. destruct (dangling_refs ss (flat_map schema_refs ss) ++ flat_map schema_bad_entry ss ++
                        map (fun n => ("<mapping>"%string, n)) (flat_map schema_bad_mappings ss)) eqn:E; [|discriminate].
    apply app_eq_nil in E. destruct E as [E1 E2]. apply app_eq_nil in E2. destruct E2 as [E2 E3].
    split; [|split].
    + intros s r Hs Hr Hl. unfold dangling_refs in E1. pose proof (proj1 (filter_nil_iff _ _) E1 r) as Hx.
      assert (In r (flat_map schema_refs ss)) as Hin by (apply in_flat_map; exists s; split; assumption).
      specialize (Hx Hin). cbv beta in Hx. rewrite Hl in Hx. simpl in Hx. apply negb_false_iff in Hx. exact Hx.
    + intros s Hs Hne. pose proof (proj1 (flat_map_nil_iff _ _) E2 s Hs) as Hx. unfold schema_bad_entry in Hx.
      destruct (s_entry s) eqn:Ee; [contradiction|]. destruct (objs_has (s_objects s) (String a s0)); [reflexivity|discriminate].
    + intros s Hs. apply map_eq_nil in E3. exact (proj1 (flat_map_nil_iff _ _) E3 s Hs).
  - intros [HR [HE HM]].
    assert (dangling_refs ss (flat_map schema_refs ss) = []) as E1.
    { apply filter_nil_iff. intros r Hr. apply in_flat_map in Hr. destruct Hr as [s [Hs Hr]].
      destruct (loaded ss (fst r)) eqn:El; [|reflexivity]. rewrite (HR s r Hs Hr El). reflexivity. }
    assert (flat_map schema_bad_entry ss = []) as E2.
    { apply flat_map_nil_iff. intros s Hs. unfold schema_bad_entry. destruct (s_entry s) eqn:Ee; [reflexivity|].
      rewrite <- Ee. rewrite (HE s Hs); [reflexivity|]. rewrite Ee. discriminate. }
    assert (flat_map schema_bad_mappings ss = []) as E3 by (apply flat_map_nil_iff; exact HM).
    rewrite E1, E2, E3. reflexivity.
Qed.

(* ---------- side invariants ---------- *)
(* keys are names, objects carry the package of their schema, packages are distinct *)
Definition wfk (ss : schemas) : Prop :=
  forall s ko, In s ss -> In ko (s_objects s) -> fst ko = o_name (snd ko) /\ o_selfpkg (snd ko) = s_pkg s.
Definition pkgs_unique (ss : schemas) : Prop := NoDup (map s_pkg ss).

(* same packages and entry points in the same order, no key lost *)
Definition shape_kept (ss out : schemas) : Prop :=
  Forall2 (fun s s' => s_pkg s' = s_pkg s /\ s_entry s' = s_entry s /\
                       forall k, objs_has (s_objects s) k = true -> objs_has (s_objects s') k = true) ss out.

Lemma shape_locate ss out p : shape_kept ss out ->
  match locate ss p, locate out p with
  | Some s, Some s' => s_pkg s' = s_pkg s /\ s_entry s' = s_entry s /\ (forall k, objs_has (s_objects s) k = true -> objs_has (s_objects s') k = true)
  | None, None => True
  | _, _ => False
  end.
Proof.
  unfold locate. induction 1 as [|s s' r r' [Hp [He Hk]] _ IH]; simpl; [exact I|].
  rewrite Hp. destruct (seqb (s_pkg s) p); [repeat split; assumption|exact IH].
Qed.
Lemma shape_loaded ss out p : shape_kept ss out -> loaded out p = loaded ss p.
Proof. intros H. pose proof (shape_locate ss out p H) as X. unfold loaded. destruct (locate ss p), (locate out p); try contradiction; reflexivity. Qed.
Lemma shape_exists ss out p n : shape_kept ss out -> object_exists ss p n = true -> object_exists out p n = true.
Proof.
  intros H. pose proof (shape_locate ss out p H) as X. unfold object_exists, locate_object.
  destruct (locate ss p) as [s|], (locate out p) as [s'|]; try contradiction; try discriminate.
  destruct X as [_ [_ Hk]]. specialize (Hk n). unfold objs_has in Hk.
  destruct (objs_get (s_objects s) n); [|discriminate]. intros _. destruct (objs_get (s_objects s') n); [reflexivity|]. specialize (Hk eq_refl). discriminate.
Qed.
Lemma shape_pkgs ss out : shape_kept ss out -> map s_pkg out = map s_pkg ss.
Proof. induction 1 as [|s s' r r' [Hp _] _ IH]; [reflexivity|]. simpl. rewrite Hp, IH. reflexivity. Qed.
Lemma shape_in_r ss out s' : shape_kept ss out -> In s' out ->
  exists s, In s ss /\ s_pkg s' = s_pkg s /\ s_entry s' = s_entry s /\ (forall k, objs_has (s_objects s) k = true -> objs_has (s_objects s') k = true).
Proof. intros H Hin. destruct (Forall2_in_r _ _ _ H s' Hin) as [s [Hs X]]. exists s. split; assumption. Qed.

Theorem entries_kept ss out : entries_ok ss -> shape_kept ss out -> entries_ok out.
Proof.
  intros HE Hsh s' Hs' Hne. destruct (shape_in_r _ _ _ Hsh Hs') as [s [Hs [_ [He Hk]]]]. rewrite He in *. apply Hk. apply HE; assumption.
Qed.

(* references: each one of the result was already there, or designates an object of the result *)
Theorem refs_kept ss out : refs_ok ss -> shape_kept ss out ->
  (forall s' r, In s' out -> In r (schema_refs s') ->
                In r (flat_map schema_refs ss) \/ object_exists out (fst r) (snd r) = true) ->
  refs_ok out.
Proof.
  intros HR Hsh Hrefs s' r Hs' Hr Hl. destruct (Hrefs s' r Hs' Hr) as [Hold|Hnew]; [|exact Hnew].
  apply in_flat_map in Hold. destruct Hold as [s [Hs Hrs]]. apply (shape_exists ss out _ _ Hsh).
  apply (HR s r Hs Hrs). rewrite <- (shape_loaded ss out _ Hsh). exact Hl.
Qed.

Definition all_refs_in (G : list (string * string)) (t : ty) : Prop := forall r, In r (all_refs t) -> In r G.

(* ---------- the visitor: references of the result ---------- *)
Lemma vrel_refs {S} (f : S -> ty -> res (ty * S)) (G : list (string * string)) :
  (forall st a d t1 st1, f st (TDisj a d) = Ok (t1, st1) -> all_refs_in G (TDisj a d) -> all_refs_in G t1) ->
  forall st t t' st', vrel f st t t' st' -> all_refs_in G t -> all_refs_in G t'.
Proof.
  intros Hf.
  assert ((forall st t t' st', vrel f st t t' st' -> all_refs_in G t -> all_refs_in G t') /\
          (forall st fs fs' st', vrel_fields f st fs fs' st' ->
             (forall r, In r (flat_map (fun x => all_refs (f_type x)) fs) -> In r G) ->
             (forall r, In r (flat_map (fun x => all_refs (f_type x)) fs') -> In r G)) /\
          (forall st bs bs' st', vrel_list f st bs bs' st' ->
             (forall r, In r (flat_map all_refs bs) -> In r G) -> (forall r, In r (flat_map all_refs bs') -> In r G))) as X.
  { apply vrel_mutind; unfold all_refs_in; simpl.
    - intros st a v v' st' _ IH H. exact (IH H).
    - intros st a i v i' v' st1 st2 _ IHi _ IHv H r Hr. apply in_app_or in Hr. destruct Hr as [Hr|Hr].
      + apply IHi; [intros x Hx; apply H; apply in_or_app; left; exact Hx|exact Hr].
      + apply IHv; [intros x Hx; apply H; apply in_or_app; right; exact Hx|exact Hr].
    - intros st a dh fs fs' st' _ IH H r Hr. apply in_app_or in Hr. destruct Hr as [Hr|Hr].
      + apply H. apply in_or_app. left. exact Hr.
      + apply IH; [intros x Hx; apply H; apply in_or_app; right; exact Hx|exact Hr].
    - intros st a bs bs' st' _ IH H. exact (IH H).
    - intros st a d t' st' Hd H. exact (Hf _ _ _ _ _ Hd H).
    - intros st t _ H. exact H.
    - intros st H. exact H.
    - intros st f0 t' st1 r0 r' st2 _ IHt _ IHr H r Hr. apply in_app_or in Hr. destruct Hr as [Hr|Hr].
      + apply IHt; [intros x Hx; apply H; apply in_or_app; left; exact Hx|exact Hr].
      + apply IHr; [intros x Hx; apply H; apply in_or_app; right; exact Hx|exact Hr].
    - intros st H. exact H.
    - intros st b b' st1 r0 r' st2 _ IHb _ IHr H r Hr. apply in_app_or in Hr. destruct Hr as [Hr|Hr].
      + apply IHb; [intros x Hx; apply H; apply in_or_app; left; exact Hx|exact Hr].
      + apply IHr; [intros x Hx; apply H; apply in_or_app; right; exact Hx|exact Hr]. }
  exact (proj1 X).
Qed.

(* ---------- the rebuilt object list of visit_schema ---------- *)
Lemma objs_set_has l k o k1 : objs_has (objs_set l k o) k1 = true <-> objs_has l k1 = true \/ k1 = k.
Proof.
  unfold objs_has. induction l as [|[k' o'] r IH]; simpl.
  - destruct (seqb k k1) eqn:E; [apply seqb_eq in E; subst; split; [intros _; right; reflexivity|reflexivity]|].
    apply seqb_neq in E. split; [discriminate|]. intros [H|H]; [discriminate|subst; contradiction].
  - destruct (seqb k' k) eqn:Ek; simpl.
    + apply seqb_eq in Ek. subst k'. destruct (seqb k k1) eqn:E1; [split; [intros _; left; reflexivity|reflexivity]|].
      apply seqb_neq in E1. split; [intros H; left; exact H|]. intros [H|H]; [exact H|subst; contradiction].
    + destruct (seqb k' k1); [split; [intros _; left; reflexivity|reflexivity]|]. exact IH.
Qed.

Lemma vs_loop_spec (fo : object -> res object) : forall l acc objs,
  vs_loop fo l acc = Ok objs ->
  (forall k, objs_has acc k = true -> objs_has objs k = true) /\
  (forall ko, In ko l -> exists o', fo (snd ko) = Ok o' /\ objs_has objs (o_name o') = true) /\
  (forall k o', In (k, o') objs -> In (k, o') acc \/ (k = o_name o' /\ exists ko, In ko l /\ fo (snd ko) = Ok o')).
Proof.
  induction l as [|[k0 o0] r IH]; intros acc objs H; simpl in H.
  - inversion H; subst. split; [auto|split; [intros ko []|intros k o' Hin; left; exact Hin]].
  - destruct (fo o0) as [o1| | |] eqn:E; simpl in H; try discriminate.
    destruct (IH _ _ H) as [A [B C]]. split; [|split].
    + intros k Hk. apply A. unfold add_object. apply objs_set_has. left. exact Hk.
    + intros ko [<-|Hko]; [|apply B; exact Hko]. exists o1. split; [exact E|]. apply A. unfold add_object. apply objs_set_has. right. reflexivity.
    + intros k o' Hin. destruct (C k o' Hin) as [Hx|[Hk [ko [Hko Hf]]]].
      * unfold add_object in Hx.
        assert (forall (lst : list (string * object)) k2 o2, In (k, o') (objs_set lst k2 o2) -> In (k, o') lst \/ (k = k2 /\ o' = o2)) as S.
        { induction lst as [|[k3 o3] r3 IH3]; intros k2 o2 H0; simpl in H0.
          - destruct H0 as [H0|[]]. inversion H0. right; split; reflexivity.
          - destruct (seqb k3 k2) eqn:E3; simpl in H0.
            + destruct H0 as [H0|H0]; [inversion H0; subst; apply seqb_eq in E3; subst; right; split; reflexivity|left; right; exact H0].
            + destruct H0 as [H0|H0]; [left; left; exact H0|]. destruct (IH3 _ _ H0) as [Y|Y]; [left; right; exact Y|right; exact Y]. }
        destruct (S _ _ _ Hx) as [Y|[Y1 Y2]]; [left; exact Y|]. right. subst. split; [reflexivity|]. exists (k0, o0). split; [left; reflexivity|exact E].
      * right. split; [exact Hk|]. exists ko. split; [right; exact Hko|exact Hf].
Qed.

Lemma objs_has_in' l k : objs_has l k = true -> exists o, In (k, o) l.
Proof. unfold objs_has. destruct (objs_get l k) as [o|] eqn:E; [|discriminate]. intros _. exists o. apply objs_get_in. exact E. Qed.

(* ---------- the stateless union passes ---------- *)
Lemma v0_shape f ss out : wfk ss -> visit_schemas_disj0 f ss = Ok out -> shape_kept ss out /\ wfk out.
Proof.
  intros Hw H. unfold visit_schemas_disj0 in H. pose proof (mapM_Forall2 _ _ _ H) as HF. clear H.
  assert (forall s s', In s ss -> visit_schema (visit_disj0 (f s)) (fun o => do t <- visit_disj0 (f s) (o_type o) ; Ok (set_otype o t)) s = Ok s' ->
            (s_pkg s' = s_pkg s /\ s_entry s' = s_entry s /\ (forall k, objs_has (s_objects s) k = true -> objs_has (s_objects s') k = true)) /\
            (forall ko, In ko (s_objects s') -> fst ko = o_name (snd ko) /\ o_selfpkg (snd ko) = s_pkg s')) as Hone.
  { intros s s' Hs Hv. rewrite visit_schema_eq in Hv.
    destruct (visit_disj0 (f s) (s_entrytype s)) as [et| | |]; simpl in Hv; try discriminate.
    destruct (vs_loop _ (s_objects s) []) as [objs| | |] eqn:El; simpl in Hv; try discriminate. inversion Hv; subst. simpl.
    destruct (vs_loop_spec _ _ _ _ El) as [_ [B C]]. split; [split; [reflexivity|split; [reflexivity|]]|].
    - intros k Hk. apply objs_has_in' in Hk. destruct Hk as [o Hin]. destruct (B (k, o) Hin) as [o' [Hf Hh]]. simpl in Hf.
      destruct (visit_disj0 (f s) (o_type o)); simpl in Hf; try discriminate. inversion Hf; subst. simpl in Hh.
      destruct (Hw s (k, o) Hs Hin) as [Hk _]. simpl in Hk. rewrite Hk. exact Hh.
    - intros [k o'] Hin. destruct (C k o' Hin) as [[]|[Hk [[k0 o0] [Hko Hf]]]]. simpl in Hf.
      destruct (visit_disj0 (f s) (o_type o0)); simpl in Hf; try discriminate. inversion Hf; subst. simpl. split; [reflexivity|].
      exact (proj2 (Hw s (k0, o0) Hs Hko)). }
  split.
  - clear Hw. revert Hone. induction HF as [|s s' r r' Hv _ IH]; intros Hone; [constructor|]. constructor.
    + exact (proj1 (Hone s s' (or_introl eq_refl) Hv)).
    + apply IH. intros s0 s0' Hs0. apply Hone. right. exact Hs0.
  - intros s' ko Hs' Hko. destruct (Forall2_in_r _ _ _ HF s' Hs') as [s [Hs Hv]]. exact (proj2 (Hone s s' Hs Hv) ko Hko).
Qed.

Lemma v0_refs f ss out :
  (forall s a d t1, In s ss -> f s (TDisj a d) = Ok t1 ->
                    all_refs_in (flat_map schema_refs ss) (TDisj a d) -> all_refs_in (flat_map schema_refs ss) t1) ->
  visit_schemas_disj0 f ss = Ok out ->
  forall s' r, In s' out -> In r (schema_refs s') -> In r (flat_map schema_refs ss).
Proof.
  intros Hf H s' r Hs' Hr. unfold visit_schemas_disj0 in H.
  destruct (Forall2_in_r _ _ _ (mapM_Forall2 _ _ _ H) s' Hs') as [s [Hs Hv]]. rewrite visit_schema_eq in Hv.
  set (G := flat_map schema_refs ss).
  assert (forall t t', In t (s_entrytype s :: map (fun ko => o_type (snd ko)) (s_objects s)) ->
                       visit_disj0 (f s) t = Ok t' -> all_refs_in G t') as Hty.
  { intros t t' Ht Hvt. apply visit_disj0_vrel in Hvt.
    eapply (vrel_refs (lift0 (f s)) G); [|exact Hvt|].
    - intros st a d t1 st1 Hd. apply lift0_inv in Hd. eapply Hf; eassumption.
    - intros x Hx. unfold G. apply in_flat_map. exists s. split; [exact Hs|]. unfold schema_refs.
      destruct Ht as [<-|Ht]; [apply in_or_app; left; exact Hx|]. apply in_or_app. right.
      apply in_map_iff in Ht. destruct Ht as [ko [<- Hko]]. apply in_flat_map. exists ko. split; assumption. }
  destruct (visit_disj0 (f s) (s_entrytype s)) as [et| | |] eqn:Ee; simpl in Hv; try discriminate.
  destruct (vs_loop _ (s_objects s) []) as [objs| | |] eqn:El; simpl in Hv; try discriminate. inversion Hv; subst. clear Hv.
  unfold schema_refs in Hr. simpl in Hr. apply in_app_or in Hr. destruct Hr as [Hr|Hr].
  - exact (Hty _ _ (or_introl eq_refl) Ee r Hr).
  - apply in_flat_map in Hr. destruct Hr as [[k o'] [Hin Hr]]. simpl in Hr.
    destruct (vs_loop_spec _ _ _ _ El) as [_ [_ C]]. destruct (C k o' Hin) as [[]|[_ [[k0 o0] [Hko Hfo]]]]. simpl in Hfo.
    destruct (visit_disj0 (f s) (o_type o0)) as [t'| | |] eqn:Et; simpl in Hfo; try discriminate. inversion Hfo; subst. simpl in Hr.
    refine (Hty (o_type o0) t' _ Et r Hr). right. apply in_map_iff. exists (k0, o0). split; [reflexivity|exact Hko].
Qed.

Lemma all_refs_set_nullable t b : all_refs (set_nullable t b) = all_refs t.
Proof. destruct t; reflexivity. Qed.

(* references carried by the members DisjunctionOfConstantsToEnum collects *)
Lemma locate_object_in ss p n o : locate_object ss p n = Some o -> In o (objects_of ss).
Proof.
  unfold locate_object, locate. destruct (find _ ss) as [s|] eqn:E; [|discriminate]. intros H.
  apply find_some in E. destruct E as [Hs _]. apply objs_get_in in H. apply in_objects_of. exists s, n. split; assumption.
Qed.
Lemma resolve_to_type_source ss : forall fuel t r, resolve_to_type_in fuel ss t = Ok r ->
  r = t \/ exists o, In o (objects_of ss) /\ r = o_type o.
Proof.
  induction fuel as [|f IH]; intros t r H; destruct t; simpl in H; try (inversion H; subst; left; reflexivity); try discriminate.
  destruct (locate_object ss pkg name) as [o|] eqn:El; [|inversion H; subst; left; reflexivity].
  destruct (IH _ _ H) as [->|X]; [right; exists o; split; [eapply locate_object_in; exact El|reflexivity]|right; exact X].
Qed.

Definition members_in (G : list (string * string)) (ms : list enumval) : Prop :=
  forall m r, In m ms -> In r (all_refs (ev_type m)) -> In r G.

Lemma docte_members G ss :
  (forall o, In o (objects_of ss) -> all_refs_in G (o_type o)) ->
  forall fuel t st b st', docte_resolves fuel ss t st = Ok (b, st') -> all_refs_in G t -> members_in G (snd st) -> members_in G (snd st').
Proof.
  intros Hobj. induction fuel as [|f IH]; intros t st b st' H Ht Hm; [discriminate|]. simpl in H.
  destruct (resolve_to_type ss t) as [r| | |] eqn:Er; simpl in H; try discriminate.
  assert (all_refs_in G r) as Hr.
  { destruct (resolve_to_type_source _ _ _ _ Er) as [->|[o [Ho ->]]]; [exact Ht|apply Hobj; exact Ho]. }
  destruct r as [a d|a v|a vs|a i v|a dh fs|a pk n|a pk n v|a k v cs|a bs|a v|a k]; try (inversion H; subst; exact Hm).
  - (* union *)
    match type of H with ?g (d_branches d) st = _ =>
      assert (forall l st0 b0 st1, g l st0 = Ok (b0, st1) -> (forall x, In x l -> all_refs_in G x) -> members_in G (snd st0) -> members_in G (snd st1)) as Gl end.
    { induction l as [|x rest IHl]; intros st0 b0 st1 Hg Hl Hm0; simpl in Hg; [inversion Hg; subst; exact Hm0|].
      destruct (docte_resolves f ss x st0) as [[bx sx]| | |] eqn:Ex; simpl in Hg; try discriminate.
      pose proof (IH _ _ _ _ Ex (Hl x (or_introl eq_refl)) Hm0) as Hmx.
      destruct bx; [eapply IHl; [exact Hg|intros y Hy; apply Hl; right; exact Hy|exact Hmx]|inversion Hg; subst; exact Hmx]. }
    eapply Gl; [exact H| |exact Hm]. intros x Hx y Hy. apply Hr. simpl. apply in_flat_map. exists x. split; assumption.
  - (* enum *)
    match type of H with ?g vs st = _ =>
      assert (forall l st0 b0 st1, g l st0 = Ok (b0, st1) -> members_in G l -> members_in G (snd st0) -> members_in G (snd st1)) as Gl end.
    { induction l as [|m rest IHl]; intros st0 b0 st1 Hg Hl Hm0; simpl in Hg; [inversion Hg; subst; exact Hm0|].
      destruct (member_kind m) as [km| | |]; simpl in Hg; try discriminate.
      destruct (docte_valid km (fst st0)) as [ok cand]. destruct ok; [|inversion Hg; subst; exact Hm0].
      eapply IHl; [exact Hg|intros m0 r0 Hm1; apply Hl; right; exact Hm1|].
      simpl. intros m0 r0 Hin Hr0. apply in_app_or in Hin. destruct Hin as [Hin|[<-|[]]]; [eapply Hm0; eassumption|eapply Hl; [left; reflexivity|exact Hr0]]. }
    eapply Gl; [exact H| |exact Hm]. intros m r0 Hin Hr0. apply Hr. simpl. apply in_flat_map. exists m. split; assumption.
  - (* scalar *)
    destruct (dyn_is_nil v); [inversion H; subst; exact Hm|]. destruct (docte_valid k (fst st)) as [ok cand].
    destruct ok; inversion H; subst; [|exact Hm]. simpl. intros m0 r0 Hin Hr0. apply in_app_or in Hin.
    destruct Hin as [Hin|[<-|[]]]; [eapply Hm; eassumption|simpl in Hr0; contradiction].
Qed.

(* ---------- the callbacks: their result only mentions references that were there ---------- *)
Section CallbackRefs.
  Variable ss : schemas.
  Let G := flat_map schema_refs ss.
  Lemma objects_refs_in_G o : In o (objects_of ss) -> all_refs_in G (o_type o).
  Proof.
    intros Ho r Hr. apply in_objects_of in Ho. destruct Ho as [s [k [Hs Hko]]]. unfold G. apply in_flat_map. exists s. split; [exact Hs|].
    unfold schema_refs. apply in_or_app. right. apply in_flat_map. exists (k, o). split; assumption.
  Qed.
  Lemma dwnto_refs a d t1 : dwnto_disj (TDisj a d) = Ok t1 -> all_refs_in G (TDisj a d) -> all_refs_in G t1.
  Proof.
    intros Hd Hin. destruct (dwnto_disj_shape _ _ _ Hd) as [->|[b [Hb [_ ->]]]]; [exact Hin|].
    intros r Hr. rewrite all_refs_set_nullable in Hr. apply Hin. simpl. apply in_flat_map. exists b. split; assumption.
  Qed.
  Lemma docte_refs a d t1 : docte_disj ss (TDisj a d) = Ok t1 -> all_refs_in G (TDisj a d) -> all_refs_in G t1.
  Proof.
    intros Hd Hin. unfold docte_disj in Hd. destruct (d_branches d) as [|x [|y r]] eqn:Eb; try (inversion Hd; subst; exact Hin).
    match type of Hd with (do _ <- ?X ; _) = _ => destruct X as [[b0 st0]| | |] eqn:Ed end; simpl in Hd; try discriminate.
    destruct b0; inversion Hd; subst; [|exact Hin].
    pose proof (docte_members G ss objects_refs_in_G _ _ _ _ _ Ed Hin (fun m r0 Hm => match Hm with end)) as Hm.
    intros r0 Hr0. simpl in Hr0. apply in_flat_map in Hr0. destruct Hr0 as [m [Hm1 Hm2]]. eapply Hm; eassumption.
  Qed.
  Lemma fd_refs s a d t1 : In s ss -> fd_disj s (TDisj a d) = Ok t1 -> all_refs_in G (TDisj a d) -> all_refs_in G t1.
  Proof.
    intros Hs Hd Hin.
    destruct (fd_disj_branches (fun b => all_refs_in G b) s a d t1) as [bs' [-> Hbs']]; try assumption.
    - intros b Hb r Hr. apply Hin. simpl. apply in_flat_map. exists b. split; assumption.
    - intros k o a' d' Hko E rb Hrb r Hr.
      assert (In o (objects_of ss)) as Ho by (apply in_objects_of; exists s, k; split; assumption).
      apply (objects_refs_in_G o Ho). rewrite E. simpl. apply in_flat_map. exists rb. split; assumption.
    - intros r Hr. simpl in Hr. apply in_flat_map in Hr. destruct Hr as [b [Hb Hr]]. exact (Hbs' b Hb r Hr).
  Qed.
  Lemma dim_refs s a d t1 : dim_disj s (TDisj a d) = Ok t1 -> all_refs_in G (TDisj a d) -> all_refs_in G t1.
  Proof. intros Hd Hin. destruct (dim_disj_shape _ _ _ _ Hd) as [disc [m ->]]. exact Hin. Qed.
  Lemma udta_refs s a d t1 : udta_disj s (TDisj a d) = Ok t1 -> all_refs_in G (TDisj a d) -> all_refs_in G t1.
  Proof. intros Hd Hin. destruct (udta_disj_shape _ _ _ _ Hd) as [->|[-> _]]; [exact Hin|intros r []]. Qed.
End CallbackRefs.

(* references and entry points through the five stateless union passes *)
Section V0Refs.
  Variables ss out : schemas.
  Hypothesis Hw : wfk ss.
  Hypothesis HR : refs_ok ss.
  Hypothesis HE : entries_ok ss.
  Lemma v0_keeps f :
    (forall s a d t1, In s ss -> f s (TDisj a d) = Ok t1 ->
                      all_refs_in (flat_map schema_refs ss) (TDisj a d) -> all_refs_in (flat_map schema_refs ss) t1) ->
    visit_schemas_disj0 f ss = Ok out -> wfk out /\ shape_kept ss out /\ refs_ok out /\ entries_ok out.
  Proof.
    intros Hf H. destruct (v0_shape _ _ _ Hw H) as [Hsh Hw']. split; [exact Hw'|split; [exact Hsh|split; [|eapply entries_kept; eassumption]]].
    apply (refs_kept ss out HR Hsh). intros s' r Hs' Hr. left. eapply v0_refs; eassumption.
  Qed.
  Theorem dwnto_keeps : disjunction_with_null_to_optional ss = Ok out -> wfk out /\ shape_kept ss out /\ refs_ok out /\ entries_ok out.
  Proof. apply v0_keeps. intros s a d t1 _. apply dwnto_refs. Qed.
  Theorem docte_keeps : disjunction_of_constants_to_enum ss = Ok out -> wfk out /\ shape_kept ss out /\ refs_ok out /\ entries_ok out.
  Proof. apply v0_keeps. intros s a d t1 _. apply docte_refs. Qed.
  Theorem fd_keeps : flatten_disjunctions ss = Ok out -> wfk out /\ shape_kept ss out /\ refs_ok out /\ entries_ok out.
  Proof. apply v0_keeps. intros s a d t1 Hs. apply fd_refs. exact Hs. Qed.
  Theorem dim_keeps : disjunction_infer_mapping ss = Ok out -> wfk out /\ shape_kept ss out /\ refs_ok out /\ entries_ok out.
  Proof. apply v0_keeps. intros s a d t1 _. apply dim_refs. Qed.
  Theorem udta_keeps : undiscriminated_disjunction_to_any ss = Ok out -> wfk out /\ shape_kept ss out /\ refs_ok out /\ entries_ok out.
  Proof. apply v0_keeps. intros s a d t1 _. apply udta_refs. Qed.
End V0Refs.

Lemma flat_map_ext_in' {A B} (f g : A -> list B) l : (forall x, In x l -> f x = g x) -> flat_map f l = flat_map g l.
Proof. induction l as [|x r IH]; intros H; [reflexivity|]. simpl. rewrite (H x (or_introl eq_refl)), IH; [reflexivity|]. intros y Hy. apply H. right; exact Hy. Qed.

(* ---------- NotRequiredFieldAsNullableType and PrefixEnumValues do not touch references ---------- *)
Lemma all_refs_nrfn : forall t, all_refs (nrfn_ty t) = all_refs t.
Proof.
  induction t as [a d IH|a v IH|a vs IH|a i v IHi IHv|a dh fs IHd IHf|a pk n|a pk n v|a k v cs|a bs IH|a v|a k]
    using ty_ind'; simpl; try reflexivity.
  - rewrite flat_map_concat_map, map_map, <- flat_map_concat_map. apply flat_map_ext_in'. rewrite Forall_forall in IH. exact IH.
  - exact IH.
  - rewrite IHi, IHv. reflexivity.
  - f_equal. rewrite flat_map_concat_map, map_map, <- flat_map_concat_map. apply flat_map_ext_in'. intros f Hf. simpl.
    rewrite Forall_forall in IHf. destruct (negb (f_required f) && negb (nullable (ty_attrs (nrfn_ty (f_type f)))));
      [rewrite all_refs_set_nullable|]; apply IHf; exact Hf.
  - rewrite flat_map_concat_map, map_map, <- flat_map_concat_map. apply flat_map_ext_in'. rewrite Forall_forall in IH. exact IH.
Qed.

(* ---------- a generic step: schema-wise, names kept, new references point into the same schema ---------- *)
Definition step_ok (s s' : schema) : Prop :=
  s_pkg s' = s_pkg s /\ s_entry s' = s_entry s /\
  (forall k, objs_has (s_objects s) k = true -> objs_has (s_objects s') k = true) /\
  (forall ko, In ko (s_objects s') -> fst ko = o_name (snd ko) /\ o_selfpkg (snd ko) = s_pkg s') /\
  (forall r, In r (schema_refs s') -> In r (schema_refs s) \/ (fst r = s_pkg s /\ objs_has (s_objects s') (snd r) = true)).

Lemma locate_unique ss s : NoDup (map s_pkg ss) -> In s ss -> locate ss (s_pkg s) = Some s.
Proof.
  unfold locate. induction ss as [|x r IH]; intros Hnd Hin; [contradiction|]. simpl in *. inversion Hnd as [|? ? Hnot Hnd']; subst.
  destruct Hin as [->|Hin]; [rewrite seqb_refl; reflexivity|].
  destruct (seqb (s_pkg x) (s_pkg s)) eqn:E; [|apply IH; assumption].
  apply seqb_eq in E. exfalso. apply Hnot. rewrite E. apply in_map. exact Hin.
Qed.

Theorem step_keeps ss out :
  pkgs_unique ss -> refs_ok ss -> entries_ok ss -> Forall2 step_ok ss out ->
  pkgs_unique out /\ wfk out /\ shape_kept ss out /\ refs_ok out /\ entries_ok out.
Proof.
  intros Hu HR HE HF.
  assert (shape_kept ss out) as Hsh.
  { clear - HF. induction HF as [|s s' r r' [A [B [C _]]] _ IH]; constructor; [repeat split; assumption|exact IH]. }
  assert (pkgs_unique out) as Hu' by (unfold pkgs_unique; rewrite (shape_pkgs _ _ Hsh); exact Hu).
  split; [exact Hu'|split; [|split; [exact Hsh|split; [|eapply entries_kept; eassumption]]]].
  - intros s' ko Hs' Hko. destruct (Forall2_in_r _ _ _ HF s' Hs') as [s [_ [_ [_ [_ [W _]]]]]]. exact (W ko Hko).
  - apply (refs_kept ss out HR Hsh). intros s' r Hs' Hr. destruct (Forall2_in_r _ _ _ HF s' Hs') as [s [Hs [A [_ [_ [_ Hrefs]]]]]].
    destruct (Hrefs r Hr) as [Hold|[Hp Hh]]; [left; apply in_flat_map; exists s; split; assumption|right].
    unfold object_exists, locate_object. rewrite Hp, <- A. rewrite (locate_unique out s' Hu' Hs').
    unfold objs_has in Hh. destruct (objs_get (s_objects s') (snd r)); [reflexivity|discriminate].
Qed.

Lemma Forall2_map_r {A} (Rel : A -> A -> Prop) (F : A -> A) l : (forall x, In x l -> Rel x (F x)) -> Forall2 Rel l (map F l).
Proof. induction l as [|x r IH]; intros H; [constructor|]. simpl. constructor; [apply H; left; reflexivity|apply IH; intros y Hy; apply H; right; exact Hy]. Qed.
Lemma Forall2_mapM {A} (Rel : A -> A -> Prop) (F : A -> res A) l l' :
  mapM F l = Ok l' -> (forall x y, In x l -> F x = Ok y -> Rel x y) -> Forall2 Rel l l'.
Proof.
  intros H Hr. pose proof (mapM_Forall2 _ _ _ H) as HF. clear H. induction HF as [|x y r r' Hxy _ IH]; [constructor|].
  constructor; [apply Hr; [left; reflexivity|exact Hxy]|apply IH; intros a b Ha; apply Hr; right; exact Ha].
Qed.

Lemma fold_add_has news : forall objs k, objs_has (fold_left add_object news objs) k = true <-> objs_has objs k = true \/ exists o, In o news /\ o_name o = k.
Proof.
  induction news as [|n r IH]; intros objs k; simpl; [split; [intros H; left; exact H|intros [H|[o [[] _]]]; exact H]|].
  rewrite IH. unfold add_object. rewrite objs_set_has. split.
  - intros [[H|H]|[o [Ho E]]]; [left; exact H|right; exists n; split; [left; reflexivity|symmetry; exact H]|right; exists o; split; [right; exact Ho|exact E]].
  - intros [H|[o [[<-|Ho] E]]]; [left; left; exact H|left; right; symmetry; exact E|right; exists o; split; assumption].
Qed.

(* NotRequiredFieldAsNullableType *)
Lemma nrfn_step s : (forall ko, In ko (s_objects s) -> fst ko = o_name (snd ko) /\ o_selfpkg (snd ko) = s_pkg s) ->
  step_ok s (visit_schema_t nrfn_ty (fun o => set_otype o (nrfn_ty (o_type o))) s).
Proof.
  intros Hw. unfold visit_schema_t. split; [reflexivity|split; [reflexivity|]]. simpl.
  set (g := fun o : object => set_otype o (nrfn_ty (o_type o))).
  assert (forall (l : list (string * object)) acc k o', In (k, o') (fold_left (fun acc (ko : string * object) => add_object acc (g (snd ko))) l acc) ->
            In (k, o') acc \/ (k = o_name o' /\ exists ko, In ko l /\ o' = g (snd ko))) as G1.
  { induction l as [|x r IH]; intros acc k o' H; [left; exact H|]. simpl in H. destruct (IH _ _ _ H) as [Hx|[Hk [ko [Hko E]]]].
    - unfold add_object in Hx.
      assert (forall (lst : list (string * object)) k2 o2, In (k, o') (objs_set lst k2 o2) -> In (k, o') lst \/ (k = k2 /\ o' = o2)) as S.
      { induction lst as [|[k3 o3] r3 IH3]; intros k2 o2 H0; simpl in H0.
        - destruct H0 as [H0|[]]. inversion H0. right; split; reflexivity.
        - destruct (seqb k3 k2) eqn:E3; simpl in H0.
          + destruct H0 as [H0|H0]; [inversion H0; subst; apply seqb_eq in E3; subst; right; split; reflexivity|left; right; exact H0].
          + destruct H0 as [H0|H0]; [left; left; exact H0|]. destruct (IH3 _ _ H0) as [Y|Y]; [left; right; exact Y|right; exact Y]. }
      destruct (S _ _ _ Hx) as [Y|[Y1 Y2]]; [left; exact Y|]. right. subst. split; [reflexivity|]. exists x. split; [left; reflexivity|reflexivity].
    - right. split; [exact Hk|]. exists ko. split; [right; exact Hko|exact E]. }
  assert (forall (l : list (string * object)) acc ko, In ko l -> objs_has (fold_left (fun acc (ko : string * object) => add_object acc (g (snd ko))) l acc) (o_name (snd ko)) = true) as G2.
  { assert (forall (l : list (string * object)) acc k, objs_has acc k = true -> objs_has (fold_left (fun acc (ko : string * object) => add_object acc (g (snd ko))) l acc) k = true) as G0.
    { induction l as [|x r IH]; intros acc k H; [exact H|]. simpl. apply IH. unfold add_object. apply objs_set_has. left. exact H. }
    induction l as [|x r IH]; intros acc ko Hin; [contradiction|]. simpl. destruct Hin as [<-|Hin]; [|apply IH; exact Hin].
    apply G0. unfold add_object. apply objs_set_has. right. reflexivity. }
  split; [|split].
  - intros k Hk. apply objs_has_in' in Hk. destruct Hk as [o Hin]. destruct (Hw (k, o) Hin) as [E _]. simpl in E. rewrite E. exact (G2 _ [] (k, o) Hin).
  - intros [k o'] Hin. destruct (G1 _ _ _ _ Hin) as [[]|[Hk [ko [Hko E]]]]. subst o'. simpl. split; [exact Hk|exact (proj2 (Hw ko Hko))].
  - intros r Hr. left. unfold schema_refs in *. simpl in Hr. apply in_app_or in Hr. apply in_or_app. destruct Hr as [Hr|Hr].
    + left. rewrite all_refs_nrfn in Hr. exact Hr.
    + right. apply in_flat_map in Hr. destruct Hr as [[k o'] [Hin Hr]]. destruct (G1 _ _ _ _ Hin) as [[]|[_ [ko [Hko E]]]]. subst o'. simpl in Hr.
      rewrite all_refs_nrfn in Hr. apply in_flat_map. exists ko. split; assumption.
Qed.

Theorem nrfn_keeps ss : wfk ss -> pkgs_unique ss -> refs_ok ss -> entries_ok ss ->
  let out := not_required_field_as_nullable_type ss in
  pkgs_unique out /\ wfk out /\ shape_kept ss out /\ refs_ok out /\ entries_ok out.
Proof.
  intros Hw Hu HR HE. apply step_keeps; try assumption. unfold not_required_field_as_nullable_type.
  apply Forall2_map_r. intros s Hs. apply nrfn_step. intros ko Hko. exact (Hw s ko Hs Hko).
Qed.

Lemma objs_set_in_kv (lst : list (string * object)) k2 o2 k o' : In (k, o') (objs_set lst k2 o2) -> In (k, o') lst \/ (k = k2 /\ o' = o2).
Proof.
  induction lst as [|[k3 o3] r3 IH3]; intros H0; simpl in H0.
  - destruct H0 as [H0|[]]. inversion H0. right; split; reflexivity.
  - destruct (seqb k3 k2) eqn:E3; simpl in H0.
    + destruct H0 as [H0|H0]; [inversion H0; subst; apply seqb_eq in E3; subst; right; split; reflexivity|left; right; exact H0].
    + destruct H0 as [H0|H0]; [left; left; exact H0|]. destruct (IH3 H0) as [Y|Y]; [left; right; exact Y|right; exact Y].
Qed.

(* PrefixEnumValues *)
Lemma mor_loop_spec f : forall l acc objs, mor_loop f l acc = Ok objs ->
  (forall k, objs_has acc k = true -> objs_has objs k = true) /\
  (forall ko, In ko l -> objs_has objs (fst ko) = true) /\
  (forall k o', In (k, o') objs -> In (k, o') acc \/ exists o, In (k, o) l /\ f o = Ok o').
Proof.
  induction l as [|[k0 o0] r IH]; intros acc objs H; simpl in H.
  - inversion H; subst. split; [auto|split; [intros ko []|intros k o' Hin; left; exact Hin]].
  - destruct (f o0) as [o1| | |] eqn:E; simpl in H; try discriminate. destruct (IH _ _ H) as [A [B C]]. split; [|split].
    + intros k Hk. apply A. apply objs_set_has. left. exact Hk.
    + intros ko [<-|Hko]; [apply A; apply objs_set_has; right; reflexivity|apply B; exact Hko].
    + intros k o' Hin. destruct (C k o' Hin) as [Hx|[o [Hko Hf]]]; [|right; exists o; split; [right; exact Hko|exact Hf]].
      destruct (objs_set_in_kv _ _ _ _ _ Hx) as [Y|[Y1 Y2]]; [left; exact Y|]. subst. right. exists o0. split; [left; reflexivity|exact E].
Qed.

Lemma pev_object_same o o' : pev_object o = Ok o' -> o_name o' = o_name o /\ o_selfpkg o' = o_selfpkg o /\ all_refs (o_type o') = all_refs (o_type o).
Proof.
  unfold pev_object. destruct (o_type o) eqn:Et; try (intros H; inversion H; subst; rewrite Et; repeat split; reflexivity).
  match goal with |- (do _ <- ?X ; _) = _ -> _ => destruct X as [vs'| | |] eqn:Em end; simpl; try discriminate.
  intros H. inversion H; subst. simpl. split; [reflexivity|split; [reflexivity|]].
  pose proof (mapM_Forall2 _ _ _ Em) as HF. clear Em H Et. induction HF as [|v v' r r' Hv _ IH]; [reflexivity|]. simpl. rewrite IH. f_equal.
  destruct (pev_member_name v); simpl in Hv; try discriminate. inversion Hv; subst. reflexivity.
Qed.

Theorem pev_keeps ss out : wfk ss -> pkgs_unique ss -> refs_ok ss -> entries_ok ss -> prefix_enum_values ss = Ok out ->
  pkgs_unique out /\ wfk out /\ shape_kept ss out /\ refs_ok out /\ entries_ok out.
Proof.
  intros Hw Hu HR HE H. apply step_keeps; try assumption. unfold prefix_enum_values in H.
  apply (Forall2_mapM _ _ _ _ H). intros s s' Hs HF. rewrite map_objects_res_eq in HF.
  destruct (mor_loop pev_object (s_objects s) []) as [objs| | |] eqn:El; simpl in HF; try discriminate. inversion HF; subst. clear HF.
  destruct (mor_loop_spec _ _ _ _ El) as [_ [B C]]. split; [reflexivity|split; [reflexivity|]]. simpl. split; [|split].
  - intros k Hk. apply objs_has_in' in Hk. destruct Hk as [o Hin]. exact (B (k, o) Hin).
  - intros [k o'] Hin. destruct (C k o' Hin) as [[]|[o [Hko Hf]]]. destruct (pev_object_same _ _ Hf) as [E1 [E2 _]]. simpl.
    destruct (Hw s (k, o) Hs Hko) as [W1 W2]. simpl in *. rewrite E1, E2. split; assumption.
  - intros r Hr. left. unfold schema_refs in *. simpl in Hr. apply in_app_or in Hr. apply in_or_app. destruct Hr as [Hr|Hr]; [left; exact Hr|right].
    apply in_flat_map in Hr. destruct Hr as [[k o'] [Hin Hr]]. destruct (C k o' Hin) as [[]|[o [Hko Hf]]].
    destruct (pev_object_same _ _ Hf) as [_ [_ E3]]. simpl in Hr. rewrite E3 in Hr. apply in_flat_map. exists (k, o). split; assumption.
Qed.

(* ---------- AnonymousStructsToNamed: the new references designate the objects it registers ---------- *)
Definition news_named (news : list object) (pkg : string) (r : string * string) : Prop :=
  fst r = pkg /\ exists o, In o news /\ o_name o = snd r.

Lemma astn_refs pkg : forall t parent r,
  (In r (all_refs (fst (astn_type pkg parent t))) \/ exists o, In o (snd (astn_type pkg parent t)) /\ In r (all_refs (o_type o))) ->
  In r (all_refs t) \/ news_named (snd (astn_type pkg parent t)) pkg r.
Proof.
  induction t as [a d IH|a v IH|a vs IH|a i v IHi IHv|a dh fs IHd IHf|a pk n|a pk n v|a k v cs|a bs IH|a v|a k]
    using ty_ind'; intros parent r H;
    try (destruct H as [H|[o [[] _]]]; left; exact H).
  - rewrite astn_disj in *. simpl in *. rewrite (proj1 (astn_list_spec pkg parent _)), (proj2 (astn_list_spec pkg parent _)) in *.
    rewrite Forall_forall in IH.
    assert (exists b, In b (d_branches d) /\ (In r (all_refs (fst (astn_type pkg parent b))) \/ exists o, In o (snd (astn_type pkg parent b)) /\ In r (all_refs (o_type o)))) as [b [Hb Hc]].
    { destruct H as [H|[o [Ho Hr]]].
      - rewrite flat_map_concat_map, map_map, <- flat_map_concat_map in H. apply in_flat_map in H. destruct H as [b [Hb H]]. exists b. split; [exact Hb|left; exact H].
      - apply in_flat_map in Ho. destruct Ho as [b [Hb Ho]]. exists b. split; [exact Hb|right; exists o; split; assumption]. }
    destruct (IH b Hb parent r Hc) as [Hx|[Hp [o [Ho Hn]]]]; [left; apply in_flat_map; exists b; split; assumption|].
    right. split; [exact Hp|]. exists o. split; [apply in_flat_map; exists b; split; assumption|exact Hn].
  - rewrite astn_array in *. simpl in *. exact (IH parent r H).
  - rewrite astn_map in *. simpl in *.
    assert ((In r (all_refs (fst (astn_type pkg parent i))) \/ exists o, In o (snd (astn_type pkg parent i)) /\ In r (all_refs (o_type o))) \/
            (In r (all_refs (fst (astn_type pkg parent v))) \/ exists o, In o (snd (astn_type pkg parent v)) /\ In r (all_refs (o_type o)))) as Hc.
    { destruct H as [H|[o [Ho Hr]]].
      - apply in_app_or in H. destruct H as [H|H]; [left; left; exact H|right; left; exact H].
      - apply in_app_or in Ho. destruct Ho as [Ho|Ho]; [left|right]; right; exists o; split; assumption. }
    destruct Hc as [Hc|Hc].
    + destruct (IHi parent r Hc) as [Hx|[Hp [o [Ho Hn]]]]; [left; apply in_or_app; left; exact Hx|].
      right. split; [exact Hp|]. exists o. split; [apply in_or_app; left; exact Ho|exact Hn].
    + destruct (IHv parent r Hc) as [Hx|[Hp [o [Ho Hn]]]]; [left; apply in_or_app; right; exact Hx|].
      right. split; [exact Hp|]. exists o. split; [apply in_or_app; right; exact Ho|exact Hn].
  - destruct (astn_struct pkg parent a dh fs) as [ra [sa [_ E]]]. rewrite E in *. simpl in *.
    rewrite (proj1 (astn_fields_spec pkg parent _)), (proj2 (astn_fields_spec pkg parent _)) in *. rewrite Forall_forall in IHf.
    set (par := fun f : field => String.append parent (upper_camel_case (f_name f))) in *.
    assert (forall f, In f fs -> (In r (all_refs (fst (astn_type pkg (par f) (f_type f)))) \/ exists o, In o (snd (astn_type pkg (par f) (f_type f))) /\ In r (all_refs (o_type o))) ->
                      In r (flat_map (fun kd => flat_map all_refs (d_branches (snd kd))) dh ++ flat_map (fun f => all_refs (f_type f)) fs) \/
                      (fst r = pkg /\ exists o, In o (flat_map (fun f => snd (astn_type pkg (par f) (f_type f))) fs ++
                                                  [new_object pkg parent (TStruct sa dh (map (fun f => mkField (f_name f) (f_comments f) (fst (astn_type pkg (par f) (f_type f))) (f_required f)) fs))]) /\ o_name o = snd r)) as Hfield.
    { intros f Hf Hc. destruct (IHf f Hf (par f) r Hc) as [Hx|[Hp [o [Ho Hn]]]].
      - left. apply in_or_app. right. apply in_flat_map. exists f. split; assumption.
      - right. split; [exact Hp|]. exists o. split; [apply in_or_app; left; apply in_flat_map; exists f; split; assumption|exact Hn]. }
    destruct H as [[H|[]]|[o [Ho Hr]]].
    + right. subst r. split; [reflexivity|]. eexists. split; [apply in_or_app; right; left; reflexivity|reflexivity].
    + apply in_app_or in Ho. destruct Ho as [Ho|[<-|[]]].
      * apply in_flat_map in Ho. destruct Ho as [f [Hf Ho]]. apply (Hfield f Hf). right. exists o. split; assumption.
      * simpl in Hr. apply in_app_or in Hr. destruct Hr as [Hr|Hr]; [left; apply in_or_app; left; exact Hr|].
        rewrite flat_map_concat_map, map_map, <- flat_map_concat_map in Hr. apply in_flat_map in Hr. destruct Hr as [f [Hf Hr]]. simpl in Hr.
        apply (Hfield f Hf). left. exact Hr.
Qed.

Lemma astn_news_pkg pkg : forall t parent n, In n (snd (astn_type pkg parent t)) -> o_selfpkg n = pkg.
Proof.
  induction t as [a d IH|a v IH|a vs IH|a i v IHi IHv|a dh fs IHd IHf|a pk n0|a pk n0 v|a k v cs|a bs IH|a v|a k]
    using ty_ind'; intros parent n Hn; try (simpl in Hn; contradiction).
  - rewrite astn_disj in Hn. simpl in Hn. rewrite (proj2 (astn_list_spec pkg parent _)) in Hn. apply in_flat_map in Hn.
    destruct Hn as [b [Hb Hn]]. rewrite Forall_forall in IH. exact (IH b Hb parent n Hn).
  - rewrite astn_array in Hn. exact (IH parent n Hn).
  - rewrite astn_map in Hn. simpl in Hn. apply in_app_or in Hn. destruct Hn as [Hn|Hn]; [exact (IHi parent n Hn)|exact (IHv parent n Hn)].
  - destruct (astn_struct pkg parent a dh fs) as [ra [sa [_ E]]]. rewrite E in Hn. simpl in Hn. apply in_app_or in Hn.
    destruct Hn as [Hn|[<-|[]]]; [|reflexivity]. rewrite (proj2 (astn_fields_spec pkg parent _)) in Hn. apply in_flat_map in Hn.
    destruct Hn as [f [Hf Hn]]. rewrite Forall_forall in IHf. exact (IHf f Hf _ n Hn).
Qed.

Lemma astn_object_refs o r :
  (In r (all_refs (o_type (fst (astn_object o)))) \/ exists n, In n (snd (astn_object o)) /\ In r (all_refs (o_type n))) ->
  In r (all_refs (o_type o)) \/ news_named (snd (astn_object o)) (o_selfpkg o) r.
Proof.
  unfold astn_object.
  destruct (o_type o) as [a d|a v|a vs|a i v|a dh fs|a pk n|a pk n v|a k v cs|a bs|a v|a k] eqn:E;
    try (simpl; rewrite E; intros [H|[n0 [[] _]]]; left; exact H).
  - intros H. pose proof (astn_refs (o_selfpkg o) (TDisj a d) (String.append (upper_camel_case (o_selfpkg o)) (upper_camel_case (o_name o))) r) as X.
    destruct (astn_type _ _ (TDisj a d)) as [t' n]. simpl in *. exact (X H).
  - intros H. pose proof (astn_refs (o_selfpkg o) (TArray a v) (String.append (upper_camel_case (o_selfpkg o)) (upper_camel_case (o_name o))) r) as X.
    destruct (astn_type _ _ (TArray a v)) as [t' n]. simpl in *. exact (X H).
  - intros H. pose proof (astn_refs (o_selfpkg o) (TMap a i v) (String.append (upper_camel_case (o_selfpkg o)) (upper_camel_case (o_name o))) r) as X.
    destruct (astn_type _ _ (TMap a i v)) as [t' n]. simpl in *. exact (X H).
  - rewrite astn_object_fields. simpl.
    set (parent := String.append (upper_camel_case (o_selfpkg o)) (upper_camel_case (o_name o))).
    rewrite (proj1 (astn_fields_spec _ parent _)), (proj2 (astn_fields_spec _ parent _)).
    set (par := fun f : field => String.append parent (upper_camel_case (f_name f))).
    assert (forall f, In f fs -> (In r (all_refs (fst (astn_type (o_selfpkg o) (par f) (f_type f)))) \/
                                  exists n, In n (snd (astn_type (o_selfpkg o) (par f) (f_type f))) /\ In r (all_refs (o_type n))) ->
              In r (flat_map (fun kd => flat_map all_refs (d_branches (snd kd))) dh ++ flat_map (fun f => all_refs (f_type f)) fs) \/
              news_named (flat_map (fun f => snd (astn_type (o_selfpkg o) (par f) (f_type f))) fs) (o_selfpkg o) r) as Hfield.
    { intros f Hf Hc. destruct (astn_refs _ _ _ r Hc) as [Hx|[Hp [n [Hn En]]]].
      - left. apply in_or_app. right. apply in_flat_map. exists f. split; assumption.
      - right. split; [exact Hp|]. exists n. split; [apply in_flat_map; exists f; split; assumption|exact En]. }
    intros [H|[n [Hn Hr]]].
    + apply in_app_or in H. destruct H as [H|H]; [left; apply in_or_app; left; exact H|].
      rewrite flat_map_concat_map, map_map, <- flat_map_concat_map in H. apply in_flat_map in H. destruct H as [f [Hf H]]. simpl in H.
      apply (Hfield f Hf). left. exact H.
    + apply in_flat_map in Hn. destruct Hn as [f [Hf Hn]]. apply (Hfield f Hf). right. exists n. split; assumption.
Qed.

Lemma astn_object_meta o : o_name (fst (astn_object o)) = o_name o /\ o_selfpkg (fst (astn_object o)) = o_selfpkg o /\
  forall n, In n (snd (astn_object o)) -> o_selfpkg n = o_selfpkg o.
Proof.
  unfold astn_object.
  destruct (o_type o) as [a d|a v|a vs|a i v|a dh fs|a pk n|a pk n v|a k v cs|a bs|a v|a k] eqn:E;
    try (simpl; split; [reflexivity|split; [reflexivity|intros n0 []]]).
  - pose proof (astn_news_pkg (o_selfpkg o) (TDisj a d) (String.append (upper_camel_case (o_selfpkg o)) (upper_camel_case (o_name o)))) as X.
    destruct (astn_type _ _ (TDisj a d)) as [t' n]. simpl in *. split; [reflexivity|split; [reflexivity|exact X]].
  - pose proof (astn_news_pkg (o_selfpkg o) (TArray a v) (String.append (upper_camel_case (o_selfpkg o)) (upper_camel_case (o_name o)))) as X.
    destruct (astn_type _ _ (TArray a v)) as [t' n]. simpl in *. split; [reflexivity|split; [reflexivity|exact X]].
  - pose proof (astn_news_pkg (o_selfpkg o) (TMap a i v) (String.append (upper_camel_case (o_selfpkg o)) (upper_camel_case (o_name o)))) as X.
    destruct (astn_type _ _ (TMap a i v)) as [t' n]. simpl in *. split; [reflexivity|split; [reflexivity|exact X]].
  - rewrite astn_object_fields. simpl. split; [reflexivity|split; [reflexivity|]]. intros n Hn.
    rewrite (proj2 (astn_fields_spec _ _ _)) in Hn. apply in_flat_map in Hn. destruct Hn as [f [Hf Hn]]. eapply astn_news_pkg. exact Hn.
Qed.

Lemma fold_add_object_in_kv news : forall acc k o,
  In (k, o) (fold_left add_object news acc) -> In (k, o) acc \/ (In o news /\ k = o_name o).
Proof.
  induction news as [|n r IH]; intros acc k o H; [left; exact H|]. simpl in H. destruct (IH _ _ _ H) as [Hx|[Hx Hk]]; [|right; split; [right; exact Hx|exact Hk]].
  unfold add_object in Hx. destruct (objs_set_in_kv _ _ _ _ _ Hx) as [Y|[Y1 Y2]]; [left; exact Y|]. subst. right. split; [left; reflexivity|reflexivity].
Qed.

Lemma astn_step s : (forall ko, In ko (s_objects s) -> fst ko = o_name (snd ko) /\ o_selfpkg (snd ko) = s_pkg s) -> step_ok s (astn_schema s).
Proof.
  intros Hw. unfold astn_schema.
  match goal with |- context [fold_left ?F0 (s_objects s) ([], [])] => set (F := F0) end.
  assert ((fun acc : list (string * object) * list object =>
             (forall k o', In (k, o') (fst acc) -> exists o, In (k, o) (s_objects s) /\ o' = fst (astn_object o)) /\
             (forall n, In n (snd acc) -> exists ko, In ko (s_objects s) /\ In n (snd (astn_object (snd ko)))))
            (fold_left F (s_objects s) ([], []))) as Hinv.
  { apply fold_left_inv; [|split; [intros k o' []|intros n []]].
    intros [objs news] [k0 o0] Hin0 [H1 H2]. unfold F. simpl. destruct (astn_object o0) as [o1 n] eqn:Eo. simpl. split.
    - intros k o' Hin. destruct (objs_set_in_kv _ _ _ _ _ Hin) as [Hx|[-> ->]]; [apply H1; exact Hx|]. exists o0. split; [exact Hin0|rewrite Eo; reflexivity].
    - intros n0 Hn. apply in_app_or in Hn. destruct Hn as [Hn|Hn]; [apply H2; exact Hn|]. exists (k0, o0). split; [exact Hin0|simpl; rewrite Eo; exact Hn]. }
  assert (forall l acc ko, In ko l -> objs_has (fst (fold_left F l acc)) (fst ko) = true /\
                            forall n, In n (snd (astn_object (snd ko))) -> In n (snd (fold_left F l acc))) as Hkeys.
  { assert (forall l acc k, objs_has (fst acc) k = true -> objs_has (fst (fold_left F l acc)) k = true) as G0.
    { induction l as [|[k1 o1] r IH]; intros acc k H; [exact H|]. simpl. apply IH. unfold F. simpl. destruct (astn_object o1). simpl. apply objs_set_has. left. exact H. }
    assert (forall l acc n, In n (snd acc) -> In n (snd (fold_left F l acc))) as G1.
    { induction l as [|[k1 o1] r IH]; intros acc n H; [exact H|]. simpl. apply IH. unfold F. simpl. destruct (astn_object o1). simpl. apply in_or_app. left. exact H. }
    induction l as [|[k1 o1] r IH]; intros acc ko Hin; [contradiction|]. simpl. destruct Hin as [<-|Hin]; [|apply IH; exact Hin].
    simpl. split.
    - apply G0. unfold F. simpl. destruct (astn_object o1). simpl. apply objs_set_has. right. reflexivity.
    - intros n Hn. apply G1. unfold F. simpl. destruct (astn_object o1). simpl in *. apply in_or_app. right. exact Hn. }
  destruct (fold_left F (s_objects s) ([], [])) as [objs news] eqn:Ef. simpl in Hinv. destruct Hinv as [H1 H2].
  assert (forall ko, In ko (s_objects s) -> objs_has objs (fst ko) = true /\ forall n, In n (snd (astn_object (snd ko))) -> In n news) as Hk.
  { intros ko Hko. pose proof (Hkeys (s_objects s) ([], []) ko Hko) as X. rewrite Ef in X. exact X. }
  assert (forall k o', In (k, o') (fold_left add_object news objs) ->
            (exists o, In (k, o) (s_objects s) /\ o' = fst (astn_object o)) \/
            (k = o_name o' /\ exists ko, In ko (s_objects s) /\ In o' (snd (astn_object (snd ko))))) as Hfinal.
  { intros k o' Hin. apply fold_add_object_in_kv in Hin. destruct Hin as [Hin|[Hin Hk0]]; [left; apply H1; exact Hin|right; split; [exact Hk0|apply H2; exact Hin]]. }
  assert (forall o r, (exists k, In (k, o) (s_objects s)) -> news_named (snd (astn_object o)) (o_selfpkg o) r ->
            fst r = s_pkg s /\ objs_has (fold_left add_object news objs) (snd r) = true) as Hnew.
  { intros o r [k Hko] [Hp [n [Hn En]]]. split; [rewrite Hp; exact (proj2 (Hw (k, o) Hko))|].
    apply fold_add_has. right. exists n. split; [exact (proj2 (Hk (k, o) Hko) n Hn)|exact En]. }
  split; [reflexivity|split; [reflexivity|]]. simpl. split; [|split].
  - intros k Hk0. apply objs_has_in' in Hk0. destruct Hk0 as [o Hin]. apply fold_add_has. left. exact (proj1 (Hk (k, o) Hin)).
  - intros [k o'] Hin. simpl. destruct (Hfinal k o' Hin) as [[o [Hko ->]]|[Hk0 [[k1 o1] [Hko Hn]]]].
    + destruct (astn_object_meta o) as [M1 [M2 _]]. destruct (Hw (k, o) Hko) as [W1 W2]. simpl in *. rewrite M1, M2. split; assumption.
    + split; [exact Hk0|]. simpl in Hn. rewrite (proj2 (proj2 (astn_object_meta o1)) o' Hn). exact (proj2 (Hw (k1, o1) Hko)).
  - intros r Hr. unfold schema_refs in *. simpl in Hr. apply in_app_or in Hr. destruct Hr as [Hr|Hr]; [left; apply in_or_app; left; exact Hr|].
    apply in_flat_map in Hr. destruct Hr as [[k o'] [Hin Hr]]. simpl in Hr.
    destruct (Hfinal k o' Hin) as [[o [Hko ->]]|[_ [[k1 o1] [Hko Hn]]]].
    + destruct (astn_object_refs o r (or_introl Hr)) as [Hx|Hx].
      * left. apply in_or_app. right. apply in_flat_map. exists (k, o). split; assumption.
      * right. apply (Hnew o r (ex_intro _ k Hko) Hx).
    + simpl in Hn. destruct (astn_object_refs o1 r (or_intror (ex_intro _ o' (conj Hn Hr)))) as [Hx|Hx].
      * left. apply in_or_app. right. apply in_flat_map. exists (k1, o1). split; assumption.
      * right. apply (Hnew o1 r (ex_intro _ k1 Hko) Hx).
Qed.

Theorem astn_keeps ss : wfk ss -> pkgs_unique ss -> refs_ok ss -> entries_ok ss ->
  let out := anonymous_structs_to_named ss in
  pkgs_unique out /\ wfk out /\ shape_kept ss out /\ refs_ok out /\ entries_ok out.
Proof.
  intros Hw Hu HR HE. apply step_keeps; try assumption. unfold anonymous_structs_to_named.
  apply Forall2_map_r. intros s Hs. apply astn_step. intros ko Hko. exact (Hw s ko Hs Hko).
Qed.

(* RenameNumericEnumValues *)
Lemma rnev_object_same o : o_name (rnev_object o) = o_name o /\ o_selfpkg (rnev_object o) = o_selfpkg o /\
  all_refs (o_type (rnev_object o)) = all_refs (o_type o).
Proof.
  unfold rnev_object. destruct (o_type o) eqn:Et; try (rewrite Et; repeat split; reflexivity). simpl. split; [reflexivity|split; [reflexivity|]].
  rewrite flat_map_concat_map, map_map, <- flat_map_concat_map. apply flat_map_ext_in'. intros v _.
  destruct (atoi_ok (ev_name v)); reflexivity.
Qed.

Lemma rnev_step s : (forall ko, In ko (s_objects s) -> fst ko = o_name (snd ko) /\ o_selfpkg (snd ko) = s_pkg s) ->
  step_ok s (set_objects s (fold_left (fun acc ko => objs_set acc (fst ko) (rnev_object (snd ko))) (s_objects s) [])).
Proof.
  intros Hw. set (F := fun (acc : list (string * object)) (ko : string * object) => objs_set acc (fst ko) (rnev_object (snd ko))).
  assert (forall l acc k o', In (k, o') (fold_left F l acc) -> In (k, o') acc \/ exists o, In (k, o) l /\ o' = rnev_object o) as G1.
  { induction l as [|[k1 o1] r IH]; intros acc k o' H; [left; exact H|]. simpl in H. destruct (IH _ _ _ H) as [Hx|[o [Hko E]]].
    - unfold F in Hx. simpl in Hx. destruct (objs_set_in_kv _ _ _ _ _ Hx) as [Y|[-> ->]]; [left; exact Y|right; exists o1; split; [left; reflexivity|reflexivity]].
    - right. exists o. split; [right; exact Hko|exact E]. }
  assert (forall l acc ko, In ko l -> objs_has (fold_left F l acc) (fst ko) = true) as G2.
  { assert (forall l acc k, objs_has acc k = true -> objs_has (fold_left F l acc) k = true) as G0.
    { induction l as [|x r IH]; intros acc k H; [exact H|]. simpl. apply IH. unfold F. apply objs_set_has. left. exact H. }
    induction l as [|x r IH]; intros acc ko Hin; [contradiction|]. simpl. destruct Hin as [<-|Hin]; [|apply IH; exact Hin].
    apply G0. unfold F. apply objs_set_has. right. reflexivity. }
  split; [reflexivity|split; [reflexivity|]]. simpl. split; [|split].
  - intros k Hk. apply objs_has_in' in Hk. destruct Hk as [o Hin]. exact (G2 _ [] (k, o) Hin).
  - intros [k o'] Hin. destruct (G1 _ _ _ _ Hin) as [[]|[o [Hko ->]]]. destruct (rnev_object_same o) as [E1 [E2 _]]. simpl. rewrite E1, E2. exact (Hw (k, o) Hko).
  - intros r Hr. left. unfold schema_refs in *. simpl in Hr. apply in_app_or in Hr. apply in_or_app. destruct Hr as [Hr|Hr]; [left; exact Hr|right].
    apply in_flat_map in Hr. destruct Hr as [[k o'] [Hin Hr]]. destruct (G1 _ _ _ _ Hin) as [[]|[o [Hko ->]]]. simpl in Hr.
    rewrite (proj2 (proj2 (rnev_object_same o))) in Hr. apply in_flat_map. exists (k, o). split; assumption.
Qed.

Theorem rnev_keeps ss : wfk ss -> pkgs_unique ss -> refs_ok ss -> entries_ok ss ->
  let out := rename_numeric_enum_values ss in
  pkgs_unique out /\ wfk out /\ shape_kept ss out /\ refs_ok out /\ entries_ok out.
Proof.
  intros Hw Hu HR HE. apply step_keeps; try assumption. unfold rename_numeric_enum_values.
  apply Forall2_map_r. intros s Hs. apply rnev_step. intros ko Hko. exact (Hw s ko Hs Hko).
Qed.

(* =====================================================================================
   THE PYTHON CHAIN keeps references and entry points resolving
   ===================================================================================== *)
From Cog Require Import Gen.Chains_gen.

Lemma shape_unique ss out : shape_kept ss out -> pkgs_unique ss -> pkgs_unique out.
Proof. intros Hsh Hu. unfold pkgs_unique. rewrite (shape_pkgs _ _ Hsh). exact Hu. Qed.

(* well-formed input: keys are the object names, objects carry their schema's package, one schema per package *)
Definition wf_refs_input (ss : schemas) : Prop := wfk ss /\ pkgs_unique ss.

Theorem python_chain_keeps_references ss out :
  wf_refs_input ss -> refs_ok ss -> entries_ok ss -> process chain_python ss = Ok out ->
  refs_ok out /\ entries_ok out.
Proof.
  intros [W0 U0] R0 E0 H. unfold chain_python in H.
  step_total H. destruct (astn_keeps _ W0 U0 R0 E0) as [U1 [W1 [_ [R1 E1]]]].
  step_total H. destruct (nrfn_keeps _ W1 U1 R1 E1) as [U2 [W2 [_ [R2 E2]]]].
  step_res H s3 P3. destruct (dwnto_keeps _ _ W2 R2 E2 P3) as [W3 [S3 [R3 E3]]]. pose proof (shape_unique _ _ S3 U2) as U3.
  step_res H s4 P4. destruct (docte_keeps _ _ W3 R3 E3 P4) as [W4 [S4 [R4 E4]]]. pose proof (shape_unique _ _ S4 U3) as U4.
  step_res H s5 P5. destruct (fd_keeps _ _ W4 R4 E4 P5) as [W5 [S5 [R5 E5]]]. pose proof (shape_unique _ _ S5 U4) as U5.
  step_res H s6 P6. destruct (dim_keeps _ _ W5 R5 E5 P6) as [W6 [S6 [R6 E6]]]. pose proof (shape_unique _ _ S6 U5) as U6.
  step_total H. simpl in H. inversion H; subst. destruct (rnev_keeps _ W6 U6 R6 E6) as [_ [_ [_ [R7 E7]]]]. split; assumption.
Qed.

Corollary python_chain_resolves_modulo_mappings ss out :
  wf_refs_input ss -> resolves ss = true -> process chain_python ss = Ok out -> mappings_ok out -> resolves out = true.
Proof.
  intros Hwf Hr H Hm. apply resolves_iff in Hr. destruct Hr as [R0 [E0 _]].
  destruct (python_chain_keeps_references _ _ Hwf R0 E0 H) as [R E]. apply resolves_iff. repeat split; assumption.
Qed.

Local Open Scope string_scope.
Example python_chain_references_nonvacuous :
  wf_refs_input w_tame /\ resolves w_tame = true /\
  exists out, process chain_python w_tame = Ok out /\ resolves out = true /\ List.length (objects_of out) = 5.
Proof.
  split; [split|split].
  - intros s ko [<-|[]] Hko. simpl in Hko. destruct Hko as [<-|[<-|[<-|[]]]]; split; reflexivity.
  - unfold pkgs_unique. simpl. constructor; [intros []|constructor].
  - vm_compute. reflexivity.
  - eexists. split; [vm_compute; reflexivity|split; vm_compute; reflexivity].
Qed.

(* =====================================================================================
   passes that register objects while visiting (visit_schema_st)
   ===================================================================================== *)
Definition st_keys_le (st st' : list (string * object)) : Prop := forall k, objs_has st k = true -> objs_has st' k = true.
Definition ref_good (G : list (string * string)) (pkg : string) (st : list (string * object)) (r : string * string) : Prop :=
  In r G \/ (fst r = pkg /\ objs_has st (snd r) = true).

Lemma ref_good_mono G pkg st st' r : st_keys_le st st' -> ref_good G pkg st r -> ref_good G pkg st' r.
Proof. intros Hle [H|[H1 H2]]; [left; exact H|right; split; [exact H1|apply Hle; exact H2]]. Qed.

Lemma vrel_refs_st (f : list (string * object) -> ty -> res (ty * list (string * object))) G pkg (Q : list (string * object) -> Prop) :
  (forall st a d t1 st1, f st (TDisj a d) = Ok (t1, st1) -> all_refs_in G (TDisj a d) -> Q st ->
       st_keys_le st st1 /\ Q st1 /\ forall r, In r (all_refs t1) -> ref_good G pkg st1 r) ->
  forall st t t' st', vrel f st t t' st' -> all_refs_in G t -> Q st ->
       st_keys_le st st' /\ Q st' /\ forall r, In r (all_refs t') -> ref_good G pkg st' r.
Proof.
  intros Hf.
  assert ((forall st t t' st', vrel f st t t' st' -> all_refs_in G t -> Q st ->
             st_keys_le st st' /\ Q st' /\ forall r, In r (all_refs t') -> ref_good G pkg st' r) /\
          (forall st fs fs' st', vrel_fields f st fs fs' st' ->
             (forall r, In r (flat_map (fun x => all_refs (f_type x)) fs) -> In r G) -> Q st ->
             st_keys_le st st' /\ Q st' /\ forall r, In r (flat_map (fun x => all_refs (f_type x)) fs') -> ref_good G pkg st' r) /\
          (forall st bs bs' st', vrel_list f st bs bs' st' ->
             (forall r, In r (flat_map all_refs bs) -> In r G) -> Q st ->
             st_keys_le st st' /\ Q st' /\ forall r, In r (flat_map all_refs bs') -> ref_good G pkg st' r)) as X.
  { apply vrel_mutind; unfold all_refs_in; simpl.
    - intros st a v v' st' _ IH H HQ. exact (IH H HQ).
    - intros st a i v i' v' st1 st2 _ IHi _ IHv H HQ.
      destruct (IHi (fun x Hx => H x (in_or_app _ _ _ (or_introl Hx))) HQ) as [L1 [Q1 R1]].
      destruct (IHv (fun x Hx => H x (in_or_app _ _ _ (or_intror Hx))) Q1) as [L2 [Q2 R2]].
      split; [intros k Hk; apply L2; apply L1; exact Hk|split; [exact Q2|]].
      intros r Hr. apply in_app_or in Hr. destruct Hr as [Hr|Hr]; [eapply ref_good_mono; [exact L2|apply R1; exact Hr]|apply R2; exact Hr].
    - intros st a dh fs fs' st' _ IH H HQ.
      destruct (IH (fun x Hx => H x (in_or_app _ _ _ (or_intror Hx))) HQ) as [L1 [Q1 R1]]. split; [exact L1|split; [exact Q1|]].
      intros r Hr. apply in_app_or in Hr. destruct Hr as [Hr|Hr]; [left; apply H; apply in_or_app; left; exact Hr|apply R1; exact Hr].
    - intros st a bs bs' st' _ IH H HQ. exact (IH H HQ).
    - intros st a d t' st' Hd H HQ. exact (Hf _ _ _ _ _ Hd H HQ).
    - intros st t _ H HQ. split; [intros k Hk; exact Hk|split; [exact HQ|intros r Hr; left; apply H; exact Hr]].
    - intros st _ HQ. split; [intros k Hk; exact Hk|split; [exact HQ|intros r []]].
    - intros st f0 t' st1 r0 r' st2 _ IHt _ IHr H HQ.
      destruct (IHt (fun x Hx => H x (in_or_app _ _ _ (or_introl Hx))) HQ) as [L1 [Q1 R1]].
      destruct (IHr (fun x Hx => H x (in_or_app _ _ _ (or_intror Hx))) Q1) as [L2 [Q2 R2]].
      split; [intros k Hk; apply L2; apply L1; exact Hk|split; [exact Q2|]].
      intros r Hr. apply in_app_or in Hr. destruct Hr as [Hr|Hr]; [eapply ref_good_mono; [exact L2|apply R1; exact Hr]|apply R2; exact Hr].
    - intros st _ HQ. split; [intros k Hk; exact Hk|split; [exact HQ|intros r []]].
    - intros st b b' st1 r0 r' st2 _ IHb _ IHr H HQ.
      destruct (IHb (fun x Hx => H x (in_or_app _ _ _ (or_introl Hx))) HQ) as [L1 [Q1 R1]].
      destruct (IHr (fun x Hx => H x (in_or_app _ _ _ (or_intror Hx))) Q1) as [L2 [Q2 R2]].
      split; [intros k Hk; apply L2; apply L1; exact Hk|split; [exact Q2|]].
      intros r Hr. apply in_app_or in Hr. destruct Hr as [Hr|Hr]; [eapply ref_good_mono; [exact L2|apply R1; exact Hr]|apply R2; exact Hr]. }
  exact (proj1 X).
Qed.

(* the schema-level step for visit_schema_st, for any on_type with that specification *)
Definition state_ok (G : list (string * string)) (pkg : string) (st : list (string * object)) : Prop :=
  forall k o, In (k, o) st -> k = o_name o /\ o_selfpkg o = pkg /\ forall r, In r (all_refs (o_type o)) -> ref_good G pkg st r.

Lemma state_ok_set G pkg st name n :
  state_ok G pkg st -> name = o_name n -> o_selfpkg n = pkg ->
  (forall r, In r (all_refs (o_type n)) -> ref_good G pkg (objs_set st name n) r) ->
  state_ok G pkg (objs_set st name n).
Proof.
  intros HQ Hn Hp Hr k o Hin. destruct (objs_set_in_kv _ _ _ _ _ Hin) as [Y|[-> ->]].
  - destruct (HQ _ _ Y) as [A [B C]]. split; [exact A|split; [exact B|]]. intros r Hx. eapply ref_good_mono; [|apply C; exact Hx].
    intros k0 Hk0. apply objs_set_has. left. exact Hk0.
  - split; [exact Hn|split; [exact Hp|exact Hr]].
Qed.

Lemma visit_schema_st_step (on_type : list (string * object) -> ty -> res (ty * list (string * object))) (CT : ty -> Prop) s s' :
  (forall ko, In ko (s_objects s) -> fst ko = o_name (snd ko) /\ o_selfpkg (snd ko) = s_pkg s) ->
  CT (s_entrytype s) -> (forall ko, In ko (s_objects s) -> CT (o_type (snd ko))) ->
  (forall st t t' st', CT t -> on_type st t = Ok (t', st') -> all_refs_in (schema_refs s) t -> state_ok (schema_refs s) (s_pkg s) st ->
       st_keys_le st st' /\ state_ok (schema_refs s) (s_pkg s) st' /\
       forall r, In r (all_refs t') -> ref_good (schema_refs s) (s_pkg s) st' r) ->
  visit_schema_st [] on_type (map snd) s = Ok s' -> step_ok s s'.
Proof.
  intros Hw HCe HCo Hon H. rewrite visit_schema_st_eq in H. set (G := schema_refs s) in *. set (pkg := s_pkg s) in *.
  destruct (on_type [] (s_entrytype s)) as [[et st0]| | |] eqn:E0; simpl in H; try discriminate.
  assert (all_refs_in G (s_entrytype s)) as Hge by (intros r Hr; unfold G, schema_refs; apply in_or_app; left; exact Hr).
  assert (forall ko, In ko (s_objects s) -> all_refs_in G (o_type (snd ko))) as Hgo.
  { intros ko Hko r Hr. unfold G, schema_refs. apply in_or_app. right. apply in_flat_map. exists ko. split; assumption. }
  destruct (Hon _ _ _ _ HCe E0 Hge (fun k o (Hin : In (k, o) []) => match Hin with end)) as [_ [Q0 R0]].
  assert (forall l acc st objs st1, vst_loop on_type l acc st = Ok (objs, st1) -> (forall ko, In ko l -> In ko (s_objects s)) -> state_ok G pkg st ->
            st_keys_le st st1 /\ state_ok G pkg st1 /\
            (forall k, objs_has acc k = true -> objs_has objs k = true) /\
            (forall ko, In ko l -> objs_has objs (o_name (snd ko)) = true) /\
            (forall k o', In (k, o') objs -> In (k, o') acc \/
               (k = o_name o' /\ o_selfpkg o' = pkg /\ forall r, In r (all_refs (o_type o')) -> ref_good G pkg st1 r))) as GL.
  { induction l as [|[k0 o0] r IH]; intros acc st objs st1 Hl Hsub HQ; simpl in Hl.
    - inversion Hl; subst. split; [intros k Hk; exact Hk|split; [exact HQ|split; [auto|split; [intros ko []|intros k o' Hin; left; exact Hin]]]].
    - destruct (on_type st (o_type o0)) as [[t1 sa]| | |] eqn:E; simpl in Hl; try discriminate.
      destruct (Hon _ _ _ _ (HCo (k0, o0) (Hsub _ (or_introl eq_refl))) E (Hgo (k0, o0) (Hsub _ (or_introl eq_refl))) HQ) as [L1 [Q1 R1]].
      destruct (IH _ _ _ _ Hl (fun ko Hko => Hsub ko (or_intror Hko)) Q1) as [L2 [Q2 [A [B C]]]].
      split; [intros k Hk; apply L2; apply L1; exact Hk|split; [exact Q2|split; [|split]]].
      + intros k Hk. apply A. unfold add_object. apply objs_set_has. left. exact Hk.
      + intros ko [<-|Hko]; [apply A; unfold add_object; apply objs_set_has; right; reflexivity|apply B; exact Hko].
      + intros k o' Hin. destruct (C k o' Hin) as [Hx|Hx]; [|right; exact Hx].
        unfold add_object in Hx. destruct (objs_set_in_kv _ _ _ _ _ Hx) as [Y|[Y1 Y2]]; [left; exact Y|]. right. subst. simpl.
        split; [reflexivity|split; [exact (proj2 (Hw (k0, o0) (Hsub _ (or_introl eq_refl))))|]].
        intros r0 Hr0. eapply ref_good_mono; [exact L2|apply R1; exact Hr0]. }
  destruct (vst_loop on_type (s_objects s) [] st0) as [[objs st1]| | |] eqn:El; simpl in H; try discriminate. inversion H; subst. clear H.
  destruct (GL _ _ _ _ _ El (fun ko Hko => Hko) Q0) as [L [Q1 [_ [B C]]]].
  split; [reflexivity|split; [reflexivity|]]. simpl. split; [|split].
  - intros k Hk. apply objs_has_in' in Hk. destruct Hk as [o Hin]. apply fold_add_has. left.
    destruct (Hw (k, o) Hin) as [E _]. simpl in E. rewrite E. exact (B (k, o) Hin).
  - intros [k o'] Hin. simpl. apply fold_add_object_in_kv in Hin. destruct Hin as [Hin|[Hin Hk]].
    + destruct (C k o' Hin) as [[]|[Hk [Hp _]]]. split; assumption.
    + apply in_map_iff in Hin. destruct Hin as [[k1 o1] [E Hin]]. simpl in E. subst o1. split; [exact Hk|exact (proj1 (proj2 (Q1 k1 o' Hin)))].
  - assert (forall r, ref_good G pkg st1 r -> In r (schema_refs s) \/ (fst r = s_pkg s /\ objs_has (fold_left add_object (map snd st1) objs) (snd r) = true)) as Hfin.
    { intros r [Hr|[Hp Hh]]; [left; exact Hr|right; split; [exact Hp|]]. apply fold_add_has. right.
      apply objs_has_in' in Hh. destruct Hh as [o Hin]. exists o. split; [apply in_map_iff; exists (snd r, o); split; [reflexivity|exact Hin]|].
      symmetry. exact (proj1 (Q1 _ _ Hin)). }
    intros r Hr. unfold schema_refs in Hr. simpl in Hr. apply in_app_or in Hr. destruct Hr as [Hr|Hr].
    + apply Hfin. eapply ref_good_mono; [exact L|apply R0; exact Hr].
    + apply in_flat_map in Hr. destruct Hr as [[k o'] [Hin Hr]]. simpl in Hr. apply fold_add_object_in_kv in Hin. destruct Hin as [Hin|[Hin _]].
      * destruct (C k o' Hin) as [[]|[_ [_ Hg]]]. apply Hfin. apply Hg. exact Hr.
      * apply in_map_iff in Hin. destruct Hin as [[k1 o1] [E Hin]]. simpl in E. subst o1. apply Hfin. exact (proj2 (proj2 (Q1 k1 o' Hin)) r Hr).
Qed.

(* ---------- DisjunctionToType ---------- *)
Lemma dtt_disj_refs s st a d t1 st1 :
  dtt_disj s st (TDisj a d) = Ok (t1, st1) -> all_refs_in (schema_refs s) (TDisj a d) -> state_ok (schema_refs s) (s_pkg s) st ->
  st_keys_le st st1 /\ state_ok (schema_refs s) (s_pkg s) st1 /\ forall r, In r (all_refs t1) -> ref_good (schema_refs s) (s_pkg s) st1 r.
Proof.
  intros H Hin HQ. unfold dtt_disj in H.
  destruct (single_type_scalars s (d_branches d)) as [[k|]| | |]; simpl in H; try discriminate.
  - inversion H; subst. split; [intros k0 Hk; exact Hk|split; [exact HQ|intros r []]].
  - match type of H with context [objs_has st ?n] => set (name := n) in *; destruct (objs_has st name) eqn:Eh end.
    + inversion H; subst. split; [intros k0 Hk; exact Hk|split; [exact HQ|]]. intros r [<-|[]]. right. split; [reflexivity|exact Eh].
    + match type of H with (do _ <- ?X ; _) = _ => destruct X as [dh| | |] eqn:Edh end; simpl in H; try discriminate.
      inversion H; subst. clear H. split; [intros k0 Hk; apply objs_set_has; left; exact Hk|split].
      * apply state_ok_set; [exact HQ|reflexivity|reflexivity|]. intros r Hr. left. simpl in Hr. apply Hin. simpl. apply in_app_or in Hr. destruct Hr as [Hr|Hr].
        -- (* the hints keep the disjunction itself *)
           apply in_flat_map in Hr. destruct Hr as [[hk hd] [Hkd Hr]]. simpl in Hr.
           assert (hd = d) as ->.
           { apply in_app_or in Hkd. destruct Hkd as [Hkd|Hkd].
             - destruct (has_only_refs (d_branches d)); [|inversion Edh; subst; contradiction].
               destruct (seqb (d_disc d) ""); [discriminate|]. destruct (d_mapping d); [discriminate|]. inversion Edh; subst.
               destruct Hkd as [Hkd|[]]. inversion Hkd. reflexivity.
             - destruct (has_only_scalar_or_array_or_map (d_branches d)); [|contradiction]. destruct Hkd as [Hkd|[]]. inversion Hkd. reflexivity. }
           exact Hr.
        -- rewrite flat_map_concat_map, map_map, <- flat_map_concat_map in Hr. apply in_flat_map in Hr. destruct Hr as [b [Hb Hr]]. simpl in Hr.
           rewrite all_refs_set_nullable in Hr. apply filter_In in Hb. destruct Hb as [Hb _]. apply in_flat_map. exists b. split; assumption.
      * intros r [<-|[]]. right. split; [reflexivity|]. simpl. apply objs_set_has. right. reflexivity.
Qed.

Lemma dtt_step s s' : (forall ko, In ko (s_objects s) -> fst ko = o_name (snd ko) /\ o_selfpkg (snd ko) = s_pkg s) ->
  visit_schema_st [] (visit_disj (dtt_disj s)) (map snd) s = Ok s' -> step_ok s s'.
Proof.
  intros Hw H. apply (visit_schema_st_step (visit_disj (dtt_disj s)) (fun _ => True) s s' Hw I (fun _ _ => I)); [|exact H].
  intros st t t' st' _ Hv Hin HQ. apply visit_disj_vrel in Hv.
  eapply (vrel_refs_st (dtt_disj s) (schema_refs s) (s_pkg s) (state_ok (schema_refs s) (s_pkg s))); [|exact Hv|exact Hin|exact HQ].
  intros st0 a d t1 st1. apply dtt_disj_refs.
Qed.

Theorem dtt_keeps ss out : wfk ss -> pkgs_unique ss -> refs_ok ss -> entries_ok ss -> disjunction_to_type ss = Ok out ->
  pkgs_unique out /\ wfk out /\ shape_kept ss out /\ refs_ok out /\ entries_ok out.
Proof.
  intros Hw Hu HR HE H. apply step_keeps; try assumption. unfold disjunction_to_type in H.
  apply (Forall2_mapM _ _ _ _ H). intros s s' Hs HF. apply dtt_step; [|exact HF]. intros ko Hko. exact (Hw s ko Hs Hko).
Qed.

(* ---------- DisjunctionOfAnonymousStructsToExplicit, when no union has a struct branch ---------- *)
Theorem doaste_keeps ss out : wfk ss -> pkgs_unique ss -> refs_ok ss -> entries_ok ss ->
  all_clean_below p_struct ss -> all_clean p_nui ss -> entry_leaf ss ->
  disjunction_of_anonymous_structs_to_explicit ss = Ok out ->
  pkgs_unique out /\ wfk out /\ shape_kept ss out /\ refs_ok out /\ entries_ok out.
Proof.
  intros Hw Hu HR HE Hs Hn Hl H. apply step_keeps; try assumption. unfold disjunction_of_anonymous_structs_to_explicit in H.
  apply (Forall2_mapM _ _ _ _ H). intros s s' Hin HF.
  apply (visit_schema_st_step (fun st t => Ok (doaste_ty (s_pkg s) st t)) (fun t => is_leaf t \/ any_sub q_sb false t = false) s s'); [| | | |exact HF].
  - intros ko Hko. exact (Hw s ko Hin Hko).
  - left. apply Hl. exact Hin.
  - intros [k o] Hko. right. assert (In o (objects_of ss)) as Hx by (apply in_objects_of; exists s, k; split; assumption).
    apply sb_from_struct_nui_root; [apply Hs|apply Hn]; exact Hx.
  - intros st t t' st' HC Hv Hrefs HQ. inversion Hv as [Hv'].
    assert (doaste_ty (s_pkg s) st t = (t, st)) as E by (destruct HC as [X|X]; [apply doaste_leaf|apply doaste_id2]; exact X).
    rewrite E in Hv'. inversion Hv'; subst. split; [intros k Hk; exact Hk|split; [exact HQ|intros r Hr; left; apply Hrefs; exact Hr]].
Qed.

Local Close Scope string_scope.
(* ---------- a generic step for the passes that fold (object', registered objects) over the objects ---------- *)
Lemma fold_objs_step s (F : list (string * object) * list object -> string * object -> list (string * object) * list object)
      (g : object -> object * list object) :
  (forall acc ko, fst (F acc ko) = objs_set (fst acc) (fst ko) (fst (g (snd ko))) /\ snd (F acc ko) = (snd acc ++ snd (g (snd ko)))%list) ->
  (forall ko, In ko (s_objects s) -> fst ko = o_name (snd ko) /\ o_selfpkg (snd ko) = s_pkg s) ->
  (forall o, o_name (fst (g o)) = o_name o /\ o_selfpkg (fst (g o)) = o_selfpkg o /\ forall n, In n (snd (g o)) -> o_selfpkg n = o_selfpkg o) ->
  (forall k o r, In (k, o) (s_objects s) -> (In r (all_refs (o_type (fst (g o)))) \/ exists n, In n (snd (g o)) /\ In r (all_refs (o_type n))) ->
               In r (all_refs (o_type o)) \/ news_named (snd (g o)) (o_selfpkg o) r) ->
  step_ok s (set_objects s (fold_left add_object (snd (fold_left F (s_objects s) ([], []))) (fst (fold_left F (s_objects s) ([], []))))).
Proof.
  intros HF Hw Hmeta Hrefs.
  assert ((fun acc : list (string * object) * list object =>
             (forall k o', In (k, o') (fst acc) -> exists o, In (k, o) (s_objects s) /\ o' = fst (g o)) /\
             (forall n, In n (snd acc) -> exists ko, In ko (s_objects s) /\ In n (snd (g (snd ko)))))
            (fold_left F (s_objects s) ([], []))) as Hinv.
  { apply fold_left_inv; [|split; [intros k o' []|intros n []]].
    intros acc [k0 o0] Hin0 [H1 H2]. destruct (HF acc (k0, o0)) as [E1 E2]. rewrite E1, E2. simpl. split.
    - intros k o' Hin. destruct (objs_set_in_kv _ _ _ _ _ Hin) as [Hx|[-> ->]]; [apply H1; exact Hx|]. exists o0. split; [exact Hin0|reflexivity].
    - intros n0 Hn. apply in_app_or in Hn. destruct Hn as [Hn|Hn]; [apply H2; exact Hn|]. exists (k0, o0). split; [exact Hin0|exact Hn]. }
  assert (forall l acc ko, In ko l -> objs_has (fst (fold_left F l acc)) (fst ko) = true /\
                            forall n, In n (snd (g (snd ko))) -> In n (snd (fold_left F l acc))) as Hkeys.
  { assert (forall l acc k, objs_has (fst acc) k = true -> objs_has (fst (fold_left F l acc)) k = true) as G0.
    { induction l as [|x r IH]; intros acc k H; [exact H|]. simpl. apply IH. rewrite (proj1 (HF acc x)). apply objs_set_has. left. exact H. }
    assert (forall l acc n, In n (snd acc) -> In n (snd (fold_left F l acc))) as G1.
    { induction l as [|x r IH]; intros acc n H; [exact H|]. simpl. apply IH. rewrite (proj2 (HF acc x)). apply in_or_app. left. exact H. }
    induction l as [|x r IH]; intros acc ko Hin; [contradiction|]. simpl. destruct Hin as [<-|Hin]; [|apply IH; exact Hin]. split.
    - apply G0. rewrite (proj1 (HF acc x)). apply objs_set_has. right. reflexivity.
    - intros n Hn. apply G1. rewrite (proj2 (HF acc x)). apply in_or_app. right. exact Hn. }
  destruct (fold_left F (s_objects s) ([], [])) as [objs news] eqn:Ef. simpl in *. destruct Hinv as [H1 H2].
  assert (forall ko, In ko (s_objects s) -> objs_has objs (fst ko) = true /\ forall n, In n (snd (g (snd ko))) -> In n news) as Hk.
  { intros ko Hko. pose proof (Hkeys (s_objects s) ([], []) ko Hko) as X. rewrite Ef in X. exact X. }
  assert (forall k o', In (k, o') (fold_left add_object news objs) ->
            (exists o, In (k, o) (s_objects s) /\ o' = fst (g o)) \/
            (k = o_name o' /\ exists ko, In ko (s_objects s) /\ In o' (snd (g (snd ko))))) as Hfinal.
  { intros k o' Hin. apply fold_add_object_in_kv in Hin. destruct Hin as [Hin|[Hin Hk0]]; [left; apply H1; exact Hin|right; split; [exact Hk0|apply H2; exact Hin]]. }
  assert (forall o r, (exists k, In (k, o) (s_objects s)) -> news_named (snd (g o)) (o_selfpkg o) r ->
            fst r = s_pkg s /\ objs_has (fold_left add_object news objs) (snd r) = true) as Hnew.
  { intros o r [k Hko] [Hp [n [Hn En]]]. split; [rewrite Hp; exact (proj2 (Hw (k, o) Hko))|].
    apply fold_add_has. right. exists n. split; [exact (proj2 (Hk (k, o) Hko) n Hn)|exact En]. }
  split; [reflexivity|split; [reflexivity|]]. simpl. split; [|split].
  - intros k Hk0. apply objs_has_in' in Hk0. destruct Hk0 as [o Hin]. apply fold_add_has. left. exact (proj1 (Hk (k, o) Hin)).
  - intros [k o'] Hin. simpl. destruct (Hfinal k o' Hin) as [[o [Hko ->]]|[Hk0 [[k1 o1] [Hko Hn]]]].
    + destruct (Hmeta o) as [M1 [M2 _]]. destruct (Hw (k, o) Hko) as [W1 W2]. simpl in *. rewrite M1, M2. split; assumption.
    + split; [exact Hk0|]. simpl in Hn. rewrite (proj2 (proj2 (Hmeta o1)) o' Hn). exact (proj2 (Hw (k1, o1) Hko)).
  - intros r Hr. unfold schema_refs in *. simpl in Hr. apply in_app_or in Hr. destruct Hr as [Hr|Hr]; [left; apply in_or_app; left; exact Hr|].
    apply in_flat_map in Hr. destruct Hr as [[k o'] [Hin Hr]]. simpl in Hr.
    destruct (Hfinal k o' Hin) as [[o [Hko ->]]|[_ [[k1 o1] [Hko Hn]]]].
    + destruct (Hrefs k o r Hko (or_introl Hr)) as [Hx|Hx].
      * left. apply in_or_app. right. apply in_flat_map. exists (k, o). split; assumption.
      * right. apply (Hnew o r (ex_intro _ k Hko) Hx).
    + simpl in Hn. destruct (Hrefs k1 o1 r Hko (or_intror (ex_intro _ o' (conj Hn Hr)))) as [Hx|Hx].
      * left. apply in_or_app. right. apply in_flat_map. exists (k1, o1). split; assumption.
      * right. apply (Hnew o1 r (ex_intro _ k1 Hko) Hx).
Qed.

(* ---------- AnonymousEnumToExplicitType ---------- *)
Lemma aete_refs spkg pkg cur : forall t sug r,
  (In r (all_refs (fst (aete_type spkg pkg cur sug t))) \/ exists o, In o (snd (aete_type spkg pkg cur sug t)) /\ In r (all_refs (o_type o))) ->
  In r (all_refs t) \/ news_named (snd (aete_type spkg pkg cur sug t)) spkg r.
Proof.
  induction t as [a d IH|a v IH|a vs IH|a i v IHi IHv|a dh fs IHd IHf|a pk n|a pk n v|a k v cs|a bs IH|a v|a k]
    using ty_ind'; intros sug r H;
    try (destruct H as [H|[o [[] _]]]; left; exact H).
  - rewrite aete_disj in *. simpl in *. rewrite (proj1 (aete_list_spec spkg pkg cur sug _)), (proj2 (aete_list_spec spkg pkg cur sug _)) in *.
    rewrite Forall_forall in IH.
    assert (exists b, In b (d_branches d) /\ (In r (all_refs (fst (aete_type spkg pkg cur sug b))) \/ exists o, In o (snd (aete_type spkg pkg cur sug b)) /\ In r (all_refs (o_type o)))) as [b [Hb Hc]].
    { destruct H as [H|[o [Ho Hr]]].
      - rewrite flat_map_concat_map, map_map, <- flat_map_concat_map in H. apply in_flat_map in H. destruct H as [b [Hb H]]. exists b. split; [exact Hb|left; exact H].
      - apply in_flat_map in Ho. destruct Ho as [b [Hb Ho]]. exists b. split; [exact Hb|right; exists o; split; assumption]. }
    destruct (IH b Hb sug r Hc) as [Hx|[Hp [o [Ho Hn]]]]; [left; apply in_flat_map; exists b; split; assumption|].
    right. split; [exact Hp|]. exists o. split; [apply in_flat_map; exists b; split; assumption|exact Hn].
  - rewrite aete_array in *. simpl in *. exact (IH sug r H).
  - (* an enum: replaced by a reference to the enum object registered under that name *)
    simpl in *. destruct H as [[<-|[]]|[o [[<-|[]] Hr]]].
    + right. split; [reflexivity|]. eexists. split; [left; reflexivity|reflexivity].
    + left. simpl in Hr. rewrite flat_map_concat_map, map_map, <- flat_map_concat_map in Hr. exact Hr.
  - rewrite aete_map in *. simpl in *.
    assert ((In r (all_refs (fst (aete_type spkg pkg cur sug i))) \/ exists o, In o (snd (aete_type spkg pkg cur sug i)) /\ In r (all_refs (o_type o))) \/
            (In r (all_refs (fst (aete_type spkg pkg cur sug v))) \/ exists o, In o (snd (aete_type spkg pkg cur sug v)) /\ In r (all_refs (o_type o)))) as Hc.
    { destruct H as [H|[o [Ho Hr]]].
      - apply in_app_or in H. destruct H as [H|H]; [left; left; exact H|right; left; exact H].
      - apply in_app_or in Ho. destruct Ho as [Ho|Ho]; [left|right]; right; exists o; split; assumption. }
    destruct Hc as [Hc|Hc].
    + destruct (IHi sug r Hc) as [Hx|[Hp [o [Ho Hn]]]]; [left; apply in_or_app; left; exact Hx|].
      right. split; [exact Hp|]. exists o. split; [apply in_or_app; left; exact Ho|exact Hn].
    + destruct (IHv sug r Hc) as [Hx|[Hp [o [Ho Hn]]]]; [left; apply in_or_app; right; exact Hx|].
      right. split; [exact Hp|]. exists o. split; [apply in_or_app; right; exact Ho|exact Hn].
  - rewrite aete_struct in *. simpl in *.
    rewrite (proj1 (aete_fields_spec spkg pkg cur _)), (proj2 (aete_fields_spec spkg pkg cur _)) in *. rewrite Forall_forall in IHf.
    set (sg := fun f : field => String.append (upper_camel_case cur) (upper_camel_case (f_name f))) in *.
    assert ((exists f, In f fs /\ (In r (all_refs (fst (aete_type spkg pkg cur (sg f) (f_type f)))) \/
                                  exists o, In o (snd (aete_type spkg pkg cur (sg f) (f_type f))) /\ In r (all_refs (o_type o)))) \/
            In r (flat_map (fun kd => flat_map all_refs (d_branches (snd kd))) dh)) as Hc.
    { destruct H as [H|[o [Ho Hr]]].
      - apply in_app_or in H. destruct H as [H|H]; [right; exact H|]. left.
        rewrite flat_map_concat_map, map_map, <- flat_map_concat_map in H. apply in_flat_map in H. destruct H as [f [Hf H]]. exists f. split; [exact Hf|left; exact H].
      - left. apply in_flat_map in Ho. destruct Ho as [f [Hf Ho]]. exists f. split; [exact Hf|right; exists o; split; assumption]. }
    destruct Hc as [[f [Hf Hc]]|Hc]; [|left; apply in_or_app; left; exact Hc].
    destruct (IHf f Hf (sg f) r Hc) as [Hx|[Hp [o [Ho Hn]]]].
    + left. apply in_or_app. right. apply in_flat_map. exists f. split; assumption.
    + right. split; [exact Hp|]. exists o. split; [apply in_flat_map; exists f; split; assumption|exact Hn].
  - rewrite aete_inter in *. simpl in *. rewrite (proj1 (aete_list_spec spkg pkg cur sug _)), (proj2 (aete_list_spec spkg pkg cur sug _)) in *.
    rewrite Forall_forall in IH.
    assert (exists b, In b bs /\ (In r (all_refs (fst (aete_type spkg pkg cur sug b))) \/ exists o, In o (snd (aete_type spkg pkg cur sug b)) /\ In r (all_refs (o_type o)))) as [b [Hb Hc]].
    { destruct H as [H|[o [Ho Hr]]].
      - rewrite flat_map_concat_map, map_map, <- flat_map_concat_map in H. apply in_flat_map in H. destruct H as [b [Hb H]]. exists b. split; [exact Hb|left; exact H].
      - apply in_flat_map in Ho. destruct Ho as [b [Hb Ho]]. exists b. split; [exact Hb|right; exists o; split; assumption]. }
    destruct (IH b Hb sug r Hc) as [Hx|[Hp [o [Ho Hn]]]]; [left; apply in_flat_map; exists b; split; assumption|].
    right. split; [exact Hp|]. exists o. split; [apply in_flat_map; exists b; split; assumption|exact Hn].
Qed.

Lemma aete_news_pkg spkg pkg cur : forall t sug n, In n (snd (aete_type spkg pkg cur sug t)) -> o_selfpkg n = pkg.
Proof.
  induction t as [a d IH|a v IH|a vs IH|a i v IHi IHv|a dh fs IHd IHf|a pk n0|a pk n0 v|a k v cs|a bs IH|a v|a k]
    using ty_ind'; intros sug n Hn; try (simpl in Hn; contradiction).
  - rewrite aete_disj in Hn. simpl in Hn. rewrite (proj2 (aete_list_spec spkg pkg cur sug _)) in Hn. apply in_flat_map in Hn.
    destruct Hn as [b [Hb Hn]]. rewrite Forall_forall in IH. exact (IH b Hb sug n Hn).
  - rewrite aete_array in Hn. exact (IH sug n Hn).
  - simpl in Hn. destruct Hn as [<-|[]]. reflexivity.
  - rewrite aete_map in Hn. simpl in Hn. apply in_app_or in Hn. destruct Hn as [Hn|Hn]; [exact (IHi sug n Hn)|exact (IHv sug n Hn)].
  - rewrite aete_struct in Hn. simpl in Hn. rewrite (proj2 (aete_fields_spec spkg pkg cur _)) in Hn. apply in_flat_map in Hn.
    destruct Hn as [f [Hf Hn]]. rewrite Forall_forall in IHf. exact (IHf f Hf _ n Hn).
  - rewrite aete_inter in Hn. simpl in Hn. rewrite (proj2 (aete_list_spec spkg pkg cur sug _)) in Hn. apply in_flat_map in Hn.
    destruct Hn as [b [Hb Hn]]. rewrite Forall_forall in IH. exact (IH b Hb sug n Hn).
Qed.

Definition aete_object (spkg : string) (o : object) : object * list object :=
  if is_enum (o_type o) then (o, [])
  else (set_otype o (fst (aete_type spkg (o_selfpkg o) (o_name o) (String.append (upper_camel_case (o_name o)) "Enum") (o_type o))),
        snd (aete_type spkg (o_selfpkg o) (o_name o) (String.append (upper_camel_case (o_name o)) "Enum") (o_type o))).

Lemma aete_step s : (forall ko, In ko (s_objects s) -> fst ko = o_name (snd ko) /\ o_selfpkg (snd ko) = s_pkg s) -> step_ok s (aete_schema s).
Proof.
  intros Hw. unfold aete_schema.
  match goal with |- context [fold_left ?F0 (s_objects s) ([], [])] => set (F := F0) end.
  assert (step_ok s (set_objects s (fold_left add_object (snd (fold_left F (s_objects s) ([], []))) (fst (fold_left F (s_objects s) ([], [])))))) as X.
  { apply (fold_objs_step s F (aete_object (s_pkg s))).
    - intros acc [k o]. unfold F, aete_object. simpl. destruct (is_enum (o_type o)); simpl; [split; [reflexivity|symmetry; apply app_nil_r]|].
      destruct (aete_type _ _ _ _ (o_type o)). split; reflexivity.
    - exact Hw.
    - intros o. unfold aete_object. destruct (is_enum (o_type o)); simpl; [split; [reflexivity|split; [reflexivity|intros n []]]|].
      split; [reflexivity|split; [reflexivity|]]. intros n Hn. eapply aete_news_pkg. exact Hn.
    - intros k o r Hko. unfold aete_object. destruct (is_enum (o_type o)); simpl; [intros [H|[n [[] _]]]; left; exact H|].
      intros H. destruct (aete_refs _ _ _ _ _ r H) as [Hx|[Hp Hn]]; [left; exact Hx|right]. split; [|exact Hn].
      rewrite Hp. symmetry. exact (proj2 (Hw (k, o) Hko)). }
  destruct (fold_left F (s_objects s) ([], [])) as [objs news]. exact X.
Qed.

Theorem aete_keeps ss : wfk ss -> pkgs_unique ss -> refs_ok ss -> entries_ok ss ->
  let out := anonymous_enum_to_explicit_type ss in
  pkgs_unique out /\ wfk out /\ shape_kept ss out /\ refs_ok out /\ entries_ok out.
Proof.
  intros Hw Hu HR HE. apply step_keeps; try assumption. unfold anonymous_enum_to_explicit_type.
  apply Forall2_map_r. intros s Hs. apply aete_step. intros ko Hko. exact (Hw s ko Hs Hko).
Qed.

(* ---------- any pass of the form mapM (visit_schema ft (type-wise ft)) ---------- *)
Lemma vs_keeps (ft : schema -> ty -> res ty) ss out :
  wfk ss -> refs_ok ss -> entries_ok ss ->
  (forall s t t', In s ss -> ft s t = Ok t' -> all_refs_in (flat_map schema_refs ss) t -> all_refs_in (flat_map schema_refs ss) t') ->
  mapM (fun s => visit_schema (ft s) (fun o => do t <- ft s (o_type o) ; Ok (set_otype o t)) s) ss = Ok out ->
  wfk out /\ shape_kept ss out /\ refs_ok out /\ entries_ok out.
Proof.
  intros Hw HR HE Href H. pose proof (mapM_Forall2 _ _ _ H) as HF. set (G := flat_map schema_refs ss) in *.
  assert (forall s s', In s ss -> visit_schema (ft s) (fun o => do t <- ft s (o_type o) ; Ok (set_otype o t)) s = Ok s' ->
            (s_pkg s' = s_pkg s /\ s_entry s' = s_entry s /\ (forall k, objs_has (s_objects s) k = true -> objs_has (s_objects s') k = true)) /\
            (forall ko, In ko (s_objects s') -> fst ko = o_name (snd ko) /\ o_selfpkg (snd ko) = s_pkg s') /\
            (forall r, In r (schema_refs s') -> In r G)) as Hone.
  { intros s s' Hs Hv. rewrite visit_schema_eq in Hv.
    assert (forall t, In t (s_entrytype s :: map (fun ko => o_type (snd ko)) (s_objects s)) -> all_refs_in G t) as Hin.
    { intros t Ht x Hx. unfold G. apply in_flat_map. exists s. split; [exact Hs|]. unfold schema_refs.
      destruct Ht as [<-|Ht]; [apply in_or_app; left; exact Hx|]. apply in_or_app. right.
      apply in_map_iff in Ht. destruct Ht as [ko [<- Hko]]. apply in_flat_map. exists ko. split; assumption. }
    destruct (ft s (s_entrytype s)) as [et| | |] eqn:Ee; simpl in Hv; try discriminate.
    destruct (vs_loop _ (s_objects s) []) as [objs| | |] eqn:El; simpl in Hv; try discriminate. inversion Hv; subst. simpl.
    destruct (vs_loop_spec _ _ _ _ El) as [_ [B C]]. split; [split; [reflexivity|split; [reflexivity|]]|split].
    - intros k Hk. apply objs_has_in' in Hk. destruct Hk as [o Hko]. destruct (B (k, o) Hko) as [o' [Hf Hh]]. simpl in Hf.
      destruct (ft s (o_type o)); simpl in Hf; try discriminate. inversion Hf; subst. simpl in Hh.
      destruct (Hw s (k, o) Hs Hko) as [Hk _]. simpl in Hk. rewrite Hk. exact Hh.
    - intros [k o'] Hko. destruct (C k o' Hko) as [[]|[Hk [[k0 o0] [Hko0 Hf]]]]. simpl in Hf.
      destruct (ft s (o_type o0)); simpl in Hf; try discriminate. inversion Hf; subst. simpl. split; [reflexivity|].
      exact (proj2 (Hw s (k0, o0) Hs Hko0)).
    - intros r Hr. unfold schema_refs in Hr. simpl in Hr. apply in_app_or in Hr. destruct Hr as [Hr|Hr].
      + exact (Href s _ _ Hs Ee (Hin _ (or_introl eq_refl)) r Hr).
      + apply in_flat_map in Hr. destruct Hr as [[k o'] [Hko Hr]]. simpl in Hr.
        destruct (C k o' Hko) as [[]|[_ [[k0 o0] [Hko0 Hf]]]]. simpl in Hf.
        destruct (ft s (o_type o0)) as [t'| | |] eqn:Et; simpl in Hf; try discriminate. inversion Hf; subst. simpl in Hr.
        refine (Href s _ _ Hs Et (Hin _ _) r Hr). right. apply in_map_iff. exists (k0, o0). split; [reflexivity|exact Hko0]. }
  assert (forall s s', In s ss -> visit_schema (ft s) (fun o => do t <- ft s (o_type o) ; Ok (set_otype o t)) s = Ok s' ->
            s_pkg s' = s_pkg s /\ s_entry s' = s_entry s /\ (forall k, objs_has (s_objects s) k = true -> objs_has (s_objects s') k = true)) as Hshape1.
  { intros s s' Hs Hv. exact (proj1 (Hone s s' Hs Hv)). }
  assert (shape_kept ss out) as Hsh.
  { clear - HF Hshape1. revert Hshape1. induction HF as [|s s' r r' Hv _ IH]; intros Hshape1; [constructor|]. constructor.
    - exact (Hshape1 s s' (or_introl eq_refl) Hv).
    - apply IH. intros s0 s0' Hs0. apply Hshape1. right. exact Hs0. }
  split; [|split; [exact Hsh|split; [|eapply entries_kept; eassumption]]].
  - intros s' ko Hs' Hko. destruct (Forall2_in_r _ _ _ HF s' Hs') as [s [Hs Hv]]. exact (proj1 (proj2 (Hone s s' Hs Hv)) ko Hko).
  - apply (refs_kept ss out HR Hsh). intros s' r Hs' Hr. left. destruct (Forall2_in_r _ _ _ HF s' Hs') as [s [Hs Hv]].
    exact (proj2 (proj2 (Hone s s' Hs Hv)) r Hr).
Qed.

(* SanitizeEnumMemberNames keeps the references of every type *)
Lemma senm_member_type v v' : senm_member v = Ok v' -> ev_type v' = ev_type v.
Proof.
  unfold senm_member. destruct (member_kind v); cbn [bind]; try discriminate.
  match goal with |- (do _ <- ?X ; _) = _ -> _ => destruct X as [n1| | |] end; cbn [bind]; try discriminate.
  destruct (first_char n1); [|discriminate]. destruct (first_char _); [|discriminate]. intros H. inversion H; subst. reflexivity.
Qed.
Lemma senm_refs : forall t t', senm_ty t = Ok t' -> all_refs t' = all_refs t.
Proof.
  induction t as [a d IH|a v IH|a vs IH|a i v IHi IHv|a dh fs IHd IHf|a pk n|a pk n v|a k v cs|a bs IH|a v|a k]
    using ty_ind'; intros t' H;
    [rewrite senm_disj_eq in H|simpl in H|simpl in H|simpl in H|rewrite senm_struct_eq in H
     |simpl in H|simpl in H|simpl in H|rewrite senm_inter_eq in H|simpl in H|simpl in H];
    try (inversion H; subst; reflexivity).
  - assert (forall l l', Forall (fun b => forall t', senm_ty b = Ok t' -> all_refs t' = all_refs b) l ->
              senm_list l = Ok l' -> flat_map all_refs l' = flat_map all_refs l) as G.
    { induction l as [|b r IHl]; intros l' HF Hl; simpl in Hl; [inversion Hl; subst; reflexivity|].
      inversion HF as [|? ? Hb Hr]; subst.
      destruct (senm_ty b) as [b1| | |] eqn:E1; simpl in Hl; try discriminate.
      destruct (senm_list r) as [r1| | |] eqn:E2; simpl in Hl; try discriminate.
      inversion Hl; subst. simpl. rewrite (Hb b1 eq_refl), (IHl r1 Hr eq_refl). reflexivity. }
    destruct (senm_list (d_branches d)) as [bs1| | |] eqn:E; simpl in H; try discriminate. inversion H; subst. simpl. exact (G _ _ IH E).
  - destruct (senm_ty v) as [v1| | |] eqn:E; simpl in H; try discriminate. inversion H; subst. simpl. exact (IH v1 eq_refl).
  - destruct (mapM senm_member vs) as [vs1| | |] eqn:E; simpl in H; try discriminate. inversion H; subst. simpl.
    pose proof (mapM_Forall2 _ _ _ E) as HF. clear E H IH. induction HF as [|v v' r r' Hv _ IHr]; [reflexivity|]. simpl.
    rewrite (senm_member_type _ _ Hv), IHr. reflexivity.
  - destruct (senm_ty i) as [i1| | |] eqn:Ei; simpl in H; try discriminate.
    destruct (senm_ty v) as [v1| | |] eqn:Ev; simpl in H; try discriminate. inversion H; subst. simpl.
    rewrite (IHi i1 eq_refl), (IHv v1 eq_refl). reflexivity.
  - assert (forall l l', Forall (fun f => forall t', senm_ty (f_type f) = Ok t' -> all_refs t' = all_refs (f_type f)) l ->
              senm_fields l = Ok l' -> flat_map (fun f => all_refs (f_type f)) l' = flat_map (fun f => all_refs (f_type f)) l) as G.
    { induction l as [|f r IHl]; intros l' HF Hl; simpl in Hl; [inversion Hl; subst; reflexivity|].
      inversion HF as [|? ? Hf Hr]; subst.
      destruct (senm_ty (f_type f)) as [t1| | |] eqn:E1; simpl in Hl; try discriminate.
      destruct (senm_fields r) as [r1| | |] eqn:E2; simpl in Hl; try discriminate.
      inversion Hl; subst. simpl. rewrite (Hf t1 eq_refl), (IHl r1 Hr eq_refl). reflexivity. }
    destruct (senm_fields fs) as [fs1| | |] eqn:E; simpl in H; try discriminate. inversion H; subst. simpl. rewrite (G _ _ IHf E). reflexivity.
  - assert (forall l l', Forall (fun b => forall t', senm_ty b = Ok t' -> all_refs t' = all_refs b) l ->
              senm_list l = Ok l' -> flat_map all_refs l' = flat_map all_refs l) as G.
    { induction l as [|b r IHl]; intros l' HF Hl; simpl in Hl; [inversion Hl; subst; reflexivity|].
      inversion HF as [|? ? Hb Hr]; subst.
      destruct (senm_ty b) as [b1| | |] eqn:E1; simpl in Hl; try discriminate.
      destruct (senm_list r) as [r1| | |] eqn:E2; simpl in Hl; try discriminate.
      inversion Hl; subst. simpl. rewrite (Hb b1 eq_refl), (IHl r1 Hr eq_refl). reflexivity. }
    destruct (senm_list bs) as [bs1| | |] eqn:E; simpl in H; try discriminate. inversion H; subst. simpl. exact (G _ _ IH E).
Qed.

Theorem senm_keeps ss out : wfk ss -> refs_ok ss -> entries_ok ss -> sanitize_enum_member_names ss = Ok out ->
  wfk out /\ shape_kept ss out /\ refs_ok out /\ entries_ok out.
Proof.
  intros Hw HR HE H. unfold sanitize_enum_member_names in H.
  apply (vs_keeps (fun _ => senm_ty) ss out Hw HR HE); [|exact H].
  intros s t t' _ Ht Hin r Hr. rewrite (senm_refs _ _ Ht) in Hr. apply Hin. exact Hr.
Qed.

(* =====================================================================================
   THE CHAINS keep references and entry points resolving
   ===================================================================================== *)
Theorem java_core_chain_keeps_references ss out :
  wf_refs_input ss -> refs_ok ss -> entries_ok ss -> process (removelast chain_java) ss = Ok out ->
  wf_refs_input out /\ refs_ok out /\ entries_ok out.
Proof.
  intros [W0 U0] R0 E0 H. unfold chain_java in H. cbn [removelast] in H.
  step_total H. destruct (astn_keeps _ W0 U0 R0 E0) as [U1 [W1 [_ [R1 E1]]]].
  step_total H. destruct (nrfn_keeps _ W1 U1 R1 E1) as [U2 [W2 [_ [R2 E2]]]].
  step_res H s3 P3. destruct (dwnto_keeps _ _ W2 R2 E2 P3) as [W3 [S3 [R3 E3]]]. pose proof (shape_unique _ _ S3 U2) as U3.
  step_res H s4 P4. destruct (docte_keeps _ _ W3 R3 E3 P4) as [W4 [S4 [R4 E4]]]. pose proof (shape_unique _ _ S4 U3) as U4.
  step_total H. destruct (aete_keeps _ W4 U4 R4 E4) as [U5 [W5 [_ [R5 E5]]]].
  step_res H s6 P6. destruct (fd_keeps _ _ W5 R5 E5 P6) as [W6 [S6 [R6 E6]]]. pose proof (shape_unique _ _ S6 U5) as U6.
  step_res H s7 P7. destruct (dim_keeps _ _ W6 R6 E6 P7) as [W7 [S7 [R7 E7]]]. pose proof (shape_unique _ _ S7 U6) as U7.
  step_res H s8 P8. destruct (udta_keeps _ _ W7 R7 E7 P8) as [W8 [S8 [R8 E8]]]. pose proof (shape_unique _ _ S8 U7) as U8.
  step_res H s9 P9. simpl in H. inversion H; subst. destruct (dtt_keeps _ _ W8 U8 R8 E8 P9) as [U9 [W9 [_ [R9 E9]]]].
  split; [split; assumption|split; assumption].
Qed.

Theorem php_core_chain_keeps_references ss out :
  wf_refs_input ss -> refs_ok ss -> entries_ok ss -> process (removelast chain_php) ss = Ok out ->
  wf_refs_input out /\ refs_ok out /\ entries_ok out.
Proof.
  intros [W0 U0] R0 E0 H. unfold chain_php in H. cbn [removelast] in H.
  step_total H. destruct (astn_keeps _ W0 U0 R0 E0) as [U1 [W1 [_ [R1 E1]]]].
  step_total H. destruct (nrfn_keeps _ W1 U1 R1 E1) as [U2 [W2 [_ [R2 E2]]]].
  step_res H s3 P3. destruct (dwnto_keeps _ _ W2 R2 E2 P3) as [W3 [S3 [R3 E3]]]. pose proof (shape_unique _ _ S3 U2) as U3.
  step_res H s4 P4. destruct (docte_keeps _ _ W3 R3 E3 P4) as [W4 [S4 [R4 E4]]]. pose proof (shape_unique _ _ S4 U3) as U4.
  step_total H. destruct (aete_keeps _ W4 U4 R4 E4) as [U5 [W5 [_ [R5 E5]]]].
  step_res H s6 P6. destruct (senm_keeps _ _ W5 R5 E5 P6) as [W6 [S6 [R6 E6]]]. pose proof (shape_unique _ _ S6 U5) as U6.
  step_res H s7 P7. destruct (fd_keeps _ _ W6 R6 E6 P7) as [W7 [S7 [R7 E7]]]. pose proof (shape_unique _ _ S7 U6) as U7.
  step_res H s8 P8. destruct (dim_keeps _ _ W7 R7 E7 P8) as [W8 [S8 [R8 E8]]]. pose proof (shape_unique _ _ S8 U7) as U8.
  step_res H s9 P9. simpl in H. inversion H; subst. destruct (udta_keeps _ _ W8 R8 E8 P9) as [W9 [S9 [R9 E9]]]. pose proof (shape_unique _ _ S9 U8) as U9.
  split; [split; assumption|split; assumption].
Qed.

(* Go: DisjunctionOfAnonymousStructsToExplicit is handled through the fact that, after AnonymousStructsToNamed, it
   has nothing to do when no union sits inside an allOf composition *)
Theorem go_chain_keeps_references ss out :
  wf_refs_input ss -> union_in_inter ss = false -> entry_simple ss = true ->
  refs_ok ss -> entries_ok ss -> process chain_go ss = Ok out ->
  refs_ok out /\ entries_ok out.
Proof.
  intros [W0 U0] Hu He R0 E0 H. pose proof (proj1 (all_clean_iff _ _) Hu) as N0. pose proof (entry_simple_leaf _ He) as L0.
  unfold chain_go in H.
  step_total H. destruct (astn_keeps _ W0 U0 R0 E0) as [U1 [W1 [_ [R1 E1]]]].
  pose proof (nui_astn _ N0) as N1. pose proof (entry_leaf_astn _ L0) as L1.
  pose proof (proj1 (all_clean_below_iff _ _) (astn_establishes_no_anonymous_struct ss)) as S1.
  step_total H. destruct (nrfn_keeps _ W1 U1 R1 E1) as [U2 [W2 [_ [R2 E2]]]].
  pose proof (nui_nrfn _ N1) as N2. pose proof (entry_leaf_nrfn _ L1) as L2. pose proof (nrfn_pres_below p_struct _ srel_struct_below' S1) as S2.
  step_res H s3 P3. destruct (dwnto_keeps _ _ W2 R2 E2 P3) as [W3 [Sh3 [R3 E3]]]. pose proof (shape_unique _ _ Sh3 U2) as U3.
  pose proof (nui_dwnto _ _ N2 P3) as N3. pose proof (entry_leaf_v0 _ _ _ L2 P3) as L3. pose proof (i1_dwnto _ _ N2 S2 P3) as S3.
  step_res H s4 P4. destruct (docte_keeps _ _ W3 R3 E3 P4) as [W4 [Sh4 [R4 E4]]]. pose proof (shape_unique _ _ Sh4 U3) as U4.
  pose proof (nui_docte _ _ N3 P4) as N4. pose proof (entry_leaf_v0 _ _ _ L3 P4) as L4. pose proof (i1_docte _ _ N3 S3 P4) as S4.
  step_total H. destruct (aete_keeps _ W4 U4 R4 E4) as [U5 [W5 [_ [R5 E5]]]].
  pose proof (nui_aete _ N4) as N5. pose proof (entry_leaf_aete _ L4) as L5. pose proof (aete_pres_below p_struct _ srel_struct_below' S4) as S5.
  step_res H s6 P6. destruct (pev_keeps _ _ W5 U5 R5 E5 P6) as [U6 [W6 [_ [R6 E6]]]].
  pose proof (nui_pev _ _ N5 P6) as N6. pose proof (entry_leaf_pev _ _ L5 P6) as L6. pose proof (pev_pres_below p_struct _ _ S5 P6) as S6.
  step_res H s7 P7. destruct (fd_keeps _ _ W6 R6 E6 P7) as [W7 [Sh7 [R7 E7]]]. pose proof (shape_unique _ _ Sh7 U6) as U7.
  pose proof (nui_fd _ _ N6 P7) as N7. pose proof (entry_leaf_v0 _ _ _ L6 P7) as L7. pose proof (i1_fd _ _ N6 S6 P7) as S7.
  step_res H s8 P8. destruct (doaste_keeps _ _ W7 U7 R7 E7 S7 N7 L7 P8) as [U8 [W8 [_ [R8 E8]]]].
  step_res H s9 P9. destruct (dim_keeps _ _ W8 R8 E8 P9) as [W9 [Sh9 [R9 E9]]]. pose proof (shape_unique _ _ Sh9 U8) as U9.
  step_res H s10 P10. destruct (udta_keeps _ _ W9 R9 E9 P10) as [W10 [Sh10 [R10 E10]]]. pose proof (shape_unique _ _ Sh10 U9) as U10.
  step_res H s11 P11. simpl in H. inversion H; subst. destruct (dtt_keeps _ _ W10 U10 R10 E10 P11) as [_ [_ [_ [R11 E11]]]].
  split; assumption.
Qed.

(* ---------- witnesses of the open C05 findings, on the models ---------- *)
Local Open Scope string_scope.
(* C05-java-remove-intersections: the collapsed struct is still referred to below an array *)
Definition w_ri_dangling : schemas :=
  [mkSchema "p" wm0 "" ty_zero
    [("S", mkObject "S" [] (TStruct A0 [] [mkField "x" [] (xSc KString) true]) "p" "S");
     ("Alias", mkObject "Alias" [] (TRef A0 "p" "S") "p" "Alias");
     ("Obj", mkObject "Obj" [] (TStruct A0 [] [mkField "f" [] (TArray A0 (TRef A0 "p" "S")) true]) "p" "Obj")]].
(* C05-php-inline-objects: a reference inlined BEFORE the inlined object was itself rewritten keeps a reference
   to an object the pass then removes *)
Definition w_inline_dangling : schemas :=
  [mkSchema "p" wm0 "" ty_zero
    [("S", mkObject "S" [] (TStruct A0 [] [mkField "x" [] (TRef A0 "p" "X") true]) "p" "S");
     ("X", mkObject "X" [] (TArray A0 (TRef A0 "p" "Y")) "p" "X");
     ("Y", mkObject "Y" [] (xSc KString) "p" "Y")]].
(* C05-flatten-case-colliding-branches: `foo | Foo` share a type name, the second branch is dropped, its mapping entry stays *)
Definition w_flatten_orphan : schemas :=
  [mkSchema "p" wm0 "" ty_zero
    [("foo", mkObject "foo" [] (TStruct A0 [] []) "p" "foo");
     ("Foo", mkObject "Foo" [] (TStruct A0 [] []) "p" "Foo");
     ("U", mkObject "U" [] (TDisj A0 (mkDisj [TRef A0 "p" "foo"; TRef A0 "p" "Foo"] "kind" [("a", "foo"); ("b", "Foo")])) "p" "U")]].
Example chain_passes_that_break_resolution :
  (resolves w_ri_dangling = true /\ exists out, remove_intersections w_ri_dangling = Ok out /\ dangling out = [("p", "S")]) /\
  (resolves w_inline_dangling = true /\ exists out, inline_objects_with_types ["scalar"; "array"] w_inline_dangling = Ok out /\ dangling out = [("p", "Y")]) /\
  (resolves w_flatten_orphan = true /\ exists out, flatten_disjunctions w_flatten_orphan = Ok out /\ dangling out = [("<mapping>", "Foo")]).
Proof. repeat split; try (vm_compute; reflexivity); eexists; split; vm_compute; reflexivity. Qed.
Local Close Scope string_scope.

(* =====================================================================================
   discriminator mappings: none before DisjunctionInferMapping, and that pass only targets
   the names of the branches
   ===================================================================================== *)
Definition no_map (d : disj_ ty) : bool := match d_mapping d with [] => true | _ => false end.
Fixpoint nm_ty (t : ty) : bool :=
  match t with
  | TDisj _ d => no_map d && forallb nm_ty (d_branches d)
  | TArray _ v => nm_ty v
  | TMap _ i v => nm_ty i && nm_ty v
  | TStruct _ dh fs => forallb (fun kd => no_map (snd kd) && forallb nm_ty (d_branches (snd kd))) dh && forallb (fun f => nm_ty (f_type f)) fs
  | TInter _ bs => forallb nm_ty bs
  | _ => true
  end.
Definition no_mappings (ss : schemas) : bool :=
  forallb (fun s => nm_ty (s_entrytype s) && forallb (fun ko => nm_ty (o_type (snd ko))) (s_objects s)) ss.

Lemma no_map_dangling d : no_map d = true -> mapping_dangling d = [].
Proof. unfold no_map, mapping_dangling. destruct (d_mapping d); [reflexivity|discriminate]. Qed.

Lemma nm_bad : forall t, nm_ty t = true -> bad_mappings t = [].
Proof.
  induction t as [a d IH|a v IH|a vs IH|a i v IHi IHv|a dh fs IHd IHf|a pk n|a pk n v|a k v cs|a bs IH|a v|a k]
    using ty_ind'; simpl; intros H; try reflexivity.
  - apply andb_true_iff in H. destruct H as [H1 H2]. rewrite (no_map_dangling _ H1). simpl.
    apply flat_map_nil_iff. intros b Hb. rewrite Forall_forall in IH. apply IH; [exact Hb|]. rewrite forallb_forall in H2. apply H2. exact Hb.
  - apply IH. exact H.
  - apply andb_true_iff in H. destruct H as [H1 H2]. rewrite (IHi H1), (IHv H2). reflexivity.
  - apply andb_true_iff in H. destruct H as [H1 H2].
    assert (flat_map (fun kd => mapping_dangling (snd kd) ++ flat_map bad_mappings (d_branches (snd kd))) dh = []) as E1.
    { apply flat_map_nil_iff. intros kd Hkd. rewrite forallb_forall in H1. specialize (H1 kd Hkd). apply andb_true_iff in H1. destruct H1 as [A B].
      rewrite (no_map_dangling _ A). simpl. apply flat_map_nil_iff. intros b Hb. rewrite Forall_forall in IHd. specialize (IHd kd Hkd).
      rewrite Forall_forall in IHd. apply IHd; [exact Hb|]. rewrite forallb_forall in B. apply B. exact Hb. }
    rewrite E1. simpl. apply flat_map_nil_iff. intros f Hf. rewrite Forall_forall in IHf. apply IHf; [exact Hf|]. rewrite forallb_forall in H2. apply H2. exact Hf.
  - apply flat_map_nil_iff. intros b Hb. rewrite Forall_forall in IH. apply IH; [exact Hb|]. rewrite forallb_forall in H. apply H. exact Hb.
Qed.

Lemma nm_set_nullable t b : nm_ty (set_nullable t b) = nm_ty t.
Proof. destruct t; reflexivity. Qed.

(* through the visitor *)
Lemma vrel_pred {S} (f : S -> ty -> res (ty * S)) (P : ty -> bool)
  (P_array : forall a v, P (TArray a v) = P v) (P_map : forall a i v, P (TMap a i v) = P i && P v)
  (P_inter : forall a bs, P (TInter a bs) = forallb P bs)
  (P_struct : forall a dh fs fs', forallb (fun x => P (f_type x)) fs' = true -> P (TStruct a dh fs) = true -> P (TStruct a dh fs') = true)
  (P_struct_fields : forall a dh fs, P (TStruct a dh fs) = true -> forallb (fun x => P (f_type x)) fs = true) :
  (forall st a d t1 st1, f st (TDisj a d) = Ok (t1, st1) -> P (TDisj a d) = true -> P t1 = true) ->
  forall st t t' st', vrel f st t t' st' -> P t = true -> P t' = true.
Proof.
  intros Hf.
  assert ((forall st t t' st', vrel f st t t' st' -> P t = true -> P t' = true) /\
          (forall st fs fs' st', vrel_fields f st fs fs' st' -> forallb (fun x => P (f_type x)) fs = true -> forallb (fun x => P (f_type x)) fs' = true) /\
          (forall st bs bs' st', vrel_list f st bs bs' st' -> forallb P bs = true -> forallb P bs' = true)) as X.
  { apply vrel_mutind.
    - intros st a v v' st' _ IH H. rewrite P_array in *. exact (IH H).
    - intros st a i v i' v' st1 st2 _ IHi _ IHv H. rewrite P_map in *. apply andb_true_iff in H. destruct H as [H1 H2]. rewrite (IHi H1), (IHv H2). reflexivity.
    - intros st a dh fs fs' st' _ IH H. apply (P_struct a dh fs fs'); [apply IH; eapply P_struct_fields; exact H|exact H].
    - intros st a bs bs' st' _ IH H. rewrite P_inter in *. exact (IH H).
    - intros st a d t' st' Hd H. exact (Hf _ _ _ _ _ Hd H).
    - intros st t _ H. exact H.
    - intros st _. reflexivity.
    - intros st f0 t' st1 r r' st2 _ IHt _ IHr H. simpl in *. apply andb_true_iff in H. destruct H as [H1 H2]. rewrite (IHt H1), (IHr H2). reflexivity.
    - intros st _. reflexivity.
    - intros st b b' st1 r r' st2 _ IHb _ IHr H. simpl in *. apply andb_true_iff in H. destruct H as [H1 H2]. rewrite (IHb H1), (IHr H2). reflexivity. }
  exact (proj1 X).
Qed.

Lemma vrel_nm {S} (f : S -> ty -> res (ty * S)) :
  (forall st a d t1 st1, f st (TDisj a d) = Ok (t1, st1) -> nm_ty (TDisj a d) = true -> nm_ty t1 = true) ->
  forall st t t' st', vrel f st t t' st' -> nm_ty t = true -> nm_ty t' = true.
Proof.
  apply (vrel_pred f nm_ty); try reflexivity.
  - intros a dh fs fs' H1 H2. simpl in *. apply andb_true_iff in H2. destruct H2 as [A _]. rewrite A, H1. reflexivity.
  - intros a dh fs H. simpl in H. apply andb_true_iff in H. destruct H as [_ B]. exact B.
Qed.

(* the schema-level wrapper for a boolean type predicate through mapM (visit_schema ...) *)
Definition types_all (P : ty -> bool) (ss : schemas) : bool :=
  forallb (fun s => P (s_entrytype s) && forallb (fun ko => P (o_type (snd ko))) (s_objects s)) ss.

Lemma vs_types_all (P : ty -> bool) (ft : schema -> ty -> res ty) ss out :
  (forall s t t', In s ss -> types_all P [s] = true -> ft s t = Ok t' -> P t = true -> P t' = true) ->
  types_all P ss = true ->
  mapM (fun s => visit_schema (ft s) (fun o => do t <- ft s (o_type o) ; Ok (set_otype o t)) s) ss = Ok out ->
  types_all P out = true.
Proof.
  intros Hft Hall H. unfold types_all in *. rewrite forallb_forall in *. intros s' Hs'.
  destruct (Forall2_in_r _ _ _ (mapM_Forall2 _ _ _ H) s' Hs') as [s [Hs Hv]]. specialize (Hall s Hs).
  apply andb_true_iff in Hall. destruct Hall as [He Ho]. rewrite visit_schema_eq in Hv.
  assert (types_all P [s] = true) as Hone by (unfold types_all; simpl; rewrite He, Ho; reflexivity).
  destruct (ft s (s_entrytype s)) as [et| | |] eqn:Ee; simpl in Hv; try discriminate.
  destruct (vs_loop _ (s_objects s) []) as [objs| | |] eqn:El; simpl in Hv; try discriminate. inversion Hv; subst. simpl.
  rewrite (Hft s _ _ Hs Hone Ee He). simpl. apply forallb_forall. intros [k o'] Hko. simpl.
  destruct (vs_loop_spec _ _ _ _ El) as [_ [_ C]]. destruct (C k o' Hko) as [[]|[_ [[k0 o0] [Hko0 Hf]]]]. simpl in Hf.
  destruct (ft s (o_type o0)) as [t'| | |] eqn:Et; simpl in Hf; try discriminate. inversion Hf; subst. simpl.
  apply (Hft s _ _ Hs Hone Et). rewrite forallb_forall in Ho. exact (Ho (k0, o0) Hko0).
Qed.

Lemma v0_types_all (P : ty -> bool) f ss out :
  (forall s t t', In s ss -> types_all P [s] = true -> visit_disj0 (f s) t = Ok t' -> P t = true -> P t' = true) ->
  types_all P ss = true -> visit_schemas_disj0 f ss = Ok out -> types_all P out = true.
Proof. intros Hf Hall H. unfold visit_schemas_disj0 in H. eapply (vs_types_all P (fun s => visit_disj0 (f s))); eassumption. Qed.

Lemma no_mappings_eq ss : no_mappings ss = types_all nm_ty ss.
Proof. reflexivity. Qed.

(* nm through the passes of the Python chain that precede DisjunctionInferMapping *)
Lemma nm_v0 f ss out :
  (forall s a d t1, In s ss -> types_all nm_ty [s] = true -> f s (TDisj a d) = Ok t1 -> nm_ty (TDisj a d) = true -> nm_ty t1 = true) ->
  no_mappings ss = true -> visit_schemas_disj0 f ss = Ok out -> no_mappings out = true.
Proof.
  intros Hf. apply v0_types_all. intros s t t' Hs Hone Hv Ht. apply visit_disj0_vrel in Hv.
  eapply (vrel_nm (lift0 (f s))); [|exact Hv|exact Ht]. intros st a d t1 st1 Hd. apply lift0_inv in Hd. eapply Hf; eassumption.
Qed.

Theorem nm_dwnto ss out : no_mappings ss = true -> disjunction_with_null_to_optional ss = Ok out -> no_mappings out = true.
Proof.
  apply nm_v0. intros s a d t1 _ _ Hd Hn. destruct (dwnto_disj_shape _ _ _ Hd) as [->|[b [Hb [_ ->]]]]; [exact Hn|].
  rewrite nm_set_nullable. simpl in Hn. apply andb_true_iff in Hn. destruct Hn as [_ Hn]. rewrite forallb_forall in Hn. apply Hn. exact Hb.
Qed.
Theorem nm_docte ss out : no_mappings ss = true -> disjunction_of_constants_to_enum ss = Ok out -> no_mappings out = true.
Proof. apply nm_v0. intros s a d t1 _ _ Hd Hn. destruct (docte_disj_shape _ _ _ _ Hd) as [->|[vs ->]]; [exact Hn|reflexivity]. Qed.
Theorem nm_fd ss out : no_mappings ss = true -> flatten_disjunctions ss = Ok out -> no_mappings out = true.
Proof.
  apply nm_v0. intros s a d t1 _ Hone Hd Hn. simpl in Hn. apply andb_true_iff in Hn. destruct Hn as [Hm Hb]. rewrite forallb_forall in Hb.
  destruct (fd_disj_branches (fun b => nm_ty b = true) s a d t1 Hb) as [bs' [-> Hbs']]; [|exact Hd|].
  - intros k o a' d' Hko E rb Hrb. unfold types_all in Hone. simpl in Hone. rewrite andb_true_r in Hone. apply andb_true_iff in Hone.
    destruct Hone as [_ Ho]. rewrite forallb_forall in Ho. specialize (Ho (k, o) Hko). simpl in Ho. rewrite E in Ho. simpl in Ho.
    apply andb_true_iff in Ho. destruct Ho as [_ Ho]. rewrite forallb_forall in Ho. apply Ho. exact Hrb.
  - simpl. unfold no_map in *. simpl. rewrite Hm. simpl. apply forallb_forall. exact Hbs'.
Qed.

Lemma forallb_map {A B} (g : A -> B) (P : B -> bool) l : forallb P (map g l) = forallb (fun x => P (g x)) l.
Proof. induction l as [|x r IH]; [reflexivity|]. simpl. rewrite IH. reflexivity. Qed.
Lemma forallb_ext_in2 {A} (f g : A -> bool) l : (forall x, In x l -> f x = g x) -> forallb f l = forallb g l.
Proof. induction l as [|x r IH]; intros H; [reflexivity|]. simpl. rewrite (H x (or_introl eq_refl)), IH; [reflexivity|]. intros y Hy. apply H. right; exact Hy. Qed.

Lemma nm_nrfn_ty : forall t, nm_ty (nrfn_ty t) = nm_ty t.
Proof.
  induction t as [a d IH|a v IH|a vs IH|a i v IHi IHv|a dh fs IHd IHf|a pk n|a pk n v|a k v cs|a bs IH|a v|a k]
    using ty_ind'; simpl; try reflexivity.
  - unfold no_map. simpl. f_equal. rewrite forallb_map. apply forallb_ext_in2. rewrite Forall_forall in IH. exact IH.
  - exact IH.
  - rewrite IHi, IHv. reflexivity.
  - f_equal. rewrite forallb_map. apply forallb_ext_in2. intros f Hf. simpl. rewrite Forall_forall in IHf.
    destruct (negb (f_required f) && negb (nullable (ty_attrs (nrfn_ty (f_type f))))); [rewrite nm_set_nullable|]; apply IHf; exact Hf.
  - rewrite forallb_map. apply forallb_ext_in2. rewrite Forall_forall in IH. exact IH.
Qed.

Theorem nm_nrfn ss : no_mappings ss = true -> no_mappings (not_required_field_as_nullable_type ss) = true.
Proof.
  unfold no_mappings, not_required_field_as_nullable_type. rewrite !forallb_forall. intros H s' Hs'.
  apply in_map_iff in Hs'. destruct Hs' as [s [<- Hs]]. specialize (H s Hs). apply andb_true_iff in H. destruct H as [He Ho].
  apply andb_true_iff. split; [simpl; rewrite nm_nrfn_ty; exact He|].
  apply forallb_forall. intros [k o'] Hko.
  apply visit_schema_t_objects in Hko. destruct Hko as [[k0 o] [Hin ->]]. simpl. rewrite nm_nrfn_ty.
  rewrite forallb_forall in Ho. exact (Ho (k0, o) Hin).
Qed.

Lemma astn_nm pkg : forall t parent, nm_ty t = true ->
  nm_ty (fst (astn_type pkg parent t)) = true /\ forall o, In o (snd (astn_type pkg parent t)) -> nm_ty (o_type o) = true.
Proof.
  induction t as [a d IH|a v IH|a vs IH|a i v IHi IHv|a dh fs IHd IHf|a pk n|a pk n v|a k v cs|a bs IH|a v|a k]
    using ty_ind'; intros parent H; try (split; [exact H|intros o []]).
  - rewrite astn_disj. simpl in *. apply andb_true_iff in H. destruct H as [Hm Hb]. rewrite forallb_forall in Hb. rewrite Forall_forall in IH.
    rewrite (proj1 (astn_list_spec pkg parent _)), (proj2 (astn_list_spec pkg parent _)). split.
    + unfold no_map in *. simpl. rewrite Hm. simpl. rewrite forallb_map. apply forallb_forall. intros b Hbin. exact (proj1 (IH b Hbin parent (Hb b Hbin))).
    + intros o Ho. apply in_flat_map in Ho. destruct Ho as [b [Hbin Ho]]. exact (proj2 (IH b Hbin parent (Hb b Hbin)) o Ho).
  - rewrite astn_array. simpl in *. exact (IH parent H).
  - rewrite astn_map. simpl in *. apply andb_true_iff in H. destruct H as [H1 H2]. destruct (IHi parent H1) as [A1 A2]. destruct (IHv parent H2) as [B1 B2].
    split; [rewrite A1, B1; reflexivity|]. intros o Ho. apply in_app_or in Ho. destruct Ho as [Ho|Ho]; [apply A2|apply B2]; exact Ho.
  - destruct (astn_struct pkg parent a dh fs) as [ra [sa [_ E]]]. rewrite E. simpl in *. apply andb_true_iff in H. destruct H as [Hd Hf].
    rewrite forallb_forall in Hf. rewrite Forall_forall in IHf. split; [reflexivity|].
    rewrite (proj1 (astn_fields_spec pkg parent _)), (proj2 (astn_fields_spec pkg parent _)).
    intros o Ho. apply in_app_or in Ho. destruct Ho as [Ho|[<-|[]]].
    + apply in_flat_map in Ho. destruct Ho as [f [Hfin Ho]]. exact (proj2 (IHf f Hfin _ (Hf f Hfin)) o Ho).
    + simpl. rewrite Hd. simpl. rewrite forallb_map. apply forallb_forall. intros f Hfin. simpl. exact (proj1 (IHf f Hfin _ (Hf f Hfin))).
Qed.

Lemma astn_object_nm o : nm_ty (o_type o) = true ->
  nm_ty (o_type (fst (astn_object o))) = true /\ forall n, In n (snd (astn_object o)) -> nm_ty (o_type n) = true.
Proof.
  unfold astn_object. intros H.
  destruct (o_type o) as [a d|a v|a vs|a i v|a dh fs|a pk n|a pk n v|a k v cs|a bs|a v|a k] eqn:E;
    try (simpl; rewrite E; split; [exact H|intros n0 []]).
  - pose proof (astn_nm (o_selfpkg o) (TDisj a d) (String.append (upper_camel_case (o_selfpkg o)) (upper_camel_case (o_name o))) H) as X.
    destruct (astn_type _ _ (TDisj a d)). exact X.
  - pose proof (astn_nm (o_selfpkg o) (TArray a v) (String.append (upper_camel_case (o_selfpkg o)) (upper_camel_case (o_name o))) H) as X.
    destruct (astn_type _ _ (TArray a v)). exact X.
  - pose proof (astn_nm (o_selfpkg o) (TMap a i v) (String.append (upper_camel_case (o_selfpkg o)) (upper_camel_case (o_name o))) H) as X.
    destruct (astn_type _ _ (TMap a i v)). exact X.
  - rewrite astn_object_fields. simpl in *. apply andb_true_iff in H. destruct H as [Hd Hf]. rewrite forallb_forall in Hf.
    rewrite (proj1 (astn_fields_spec _ _ _)), (proj2 (astn_fields_spec _ _ _)). split.
    + rewrite Hd. simpl. rewrite forallb_map. apply forallb_forall. intros f Hfin. simpl. exact (proj1 (astn_nm _ _ _ (Hf f Hfin))).
    + intros n Hn. apply in_flat_map in Hn. destruct Hn as [f [Hfin Hn]]. exact (proj2 (astn_nm _ _ _ (Hf f Hfin)) n Hn).
Qed.

Theorem nm_astn ss : no_mappings ss = true -> no_mappings (anonymous_structs_to_named ss) = true.
Proof.
  unfold no_mappings, anonymous_structs_to_named. rewrite !forallb_forall. intros H s' Hs'.
  apply in_map_iff in Hs'. destruct Hs' as [s [<- Hs]]. specialize (H s Hs). apply andb_true_iff in H. destruct H as [He Ho].
  rewrite forallb_forall in Ho. apply andb_true_iff. split.
  - unfold astn_schema. destruct (fold_left _ (s_objects s) ([], [])). simpl. exact He.
  - apply forallb_forall. intros [k o'] Hko. destruct (astn_schema_objects _ _ _ Hko) as [[k0 o] [Hin Hcase]]. simpl in *.
    destruct (astn_object_nm o (Ho (k0, o) Hin)) as [A B]. destruct Hcase as [->|Hn]; [exact A|exact (B o' Hn)].
Qed.

(* ---------- DisjunctionInferMapping only targets the names of the branches ---------- *)
Lemma alist_set_in {V} (l : list (string * V)) k v kv : In kv (alist_set l k v) -> In kv l \/ kv = (k, v).
Proof.
  induction l as [|[k' v'] r IH]; simpl; intros H; [destruct H as [H|[]]; right; symmetry; exact H|].
  destruct (String.compare k k'); simpl in H.
  - destruct H as [H|H]; [right; symmetry; exact H|left; right; exact H].
  - destruct H as [H|H]; [right; symmetry; exact H|left; exact H].
  - destruct H as [H|H]; [left; left; exact H|]. destruct (IH H) as [Y|Y]; [left; right; exact Y|right; exact Y].
Qed.

Lemma dim_build_targets s disc bs m : dim_build s disc bs = Ok (Some m) -> forall kv, In kv m -> In (snd kv) (branch_names bs).
Proof.
  unfold dim_build. destruct (seqb disc ""); [discriminate|].
  match goal with |- ?g bs [] = _ -> _ =>
    assert (forall l acc m0, (forall b, In b l -> In b bs) -> (forall kv, In kv acc -> In (snd kv) (branch_names bs)) ->
                             g l acc = Ok (Some m0) -> forall kv, In kv m0 -> In (snd kv) (branch_names bs)) as G end.
  { induction l as [|b rest IH]; intros acc m0 Hl Hacc Hg; simpl in Hg; [inversion Hg; subst; exact Hacc|].
    destruct (resolve s b) as [r| | |]; simpl in Hg; try discriminate.
    assert (forall n x, b = TRef (ty_attrs b) (match b with TRef _ p _ => p | _ => EmptyString end) n -> forall kv, In kv (alist_set acc x n) -> In (snd kv) (branch_names bs)) as Hadd.
    { intros n x Eb kv Hkv. destruct (alist_set_in _ _ _ _ Hkv) as [Y|Y]; [apply Hacc; exact Y|]. subst kv. simpl.
      unfold branch_names. apply in_flat_map. exists b. split; [apply Hl; left; reflexivity|]. rewrite Eb. left. reflexivity. }
    destruct r as [r|]; [|discriminate].
    destruct r as [a1 d1|a1 v1|a1 vs1|a1 i1 v1|a1 dh1 fs1|a1 pk1 n1|a1 pk1 n1 v1|a1 k1 v1 cs1|a1 bs1|a1 v1|a1 k1]; try discriminate.
    destruct b as [a2 d2|a2 v2|a2 vs2|a2 i2 v2|a2 dh2 fs2|a2 pk2 n2|a2 pk2 n2 v2|a2 k2 v2 cs2|a2 bs2|a2 v2|a2 k2]; try discriminate.
    destruct (find _ fs1) as [f|]; [|discriminate].
    destruct (f_type f) as [a3 d3|a3 v3|a3 vs3|a3 i3 v3|a3 dh3 fs3|a3 pk3 n3|a3 pk3 n3 v3|a3 k3 v3 cs3|a3 bs3|a3 v3|a3 k3]; try discriminate.
    - destruct v3; try discriminate. eapply IH; [intros b0 Hb0; apply Hl; right; exact Hb0| |exact Hg].
      apply (Hadd n2 s0). reflexivity.
    - destruct v3; try discriminate. eapply IH; [intros b0 Hb0; apply Hl; right; exact Hb0| |exact Hg].
      apply (Hadd n2 s0). reflexivity. }
  intros Hg. refine (G bs [] m (fun b Hb => Hb) (fun kv (Hkv : In kv []) => match Hkv with end) Hg).
Qed.

Definition bm_ok (t : ty) : bool := match bad_mappings t with [] => true | _ => false end.
Lemma is_nil_app {A} (x y : list A) : (match x ++ y with [] => true | _ => false end) = (match x with [] => true | _ => false end) && (match y with [] => true | _ => false end).
Proof. destruct x; reflexivity. Qed.
Lemma is_nil_flat_map {A B} (g : A -> list B) l : (match flat_map g l with [] => true | _ => false end) = forallb (fun x => match g x with [] => true | _ => false end) l.
Proof. induction l as [|x r IH]; [reflexivity|]. simpl. rewrite is_nil_app, IH. reflexivity. Qed.

Lemma dim_disj_bm s a d t1 : dim_disj s (TDisj a d) = Ok t1 -> bm_ok (TDisj a d) = true -> bm_ok t1 = true.
Proof.
  intros Hd Hb. unfold bm_ok in *. simpl in Hb. rewrite is_nil_app in Hb. apply andb_true_iff in Hb. destruct Hb as [Hm Hbr].
  unfold dim_disj in Hd. destruct (negb (has_only_refs (d_branches d))); [inversion Hd; subst; simpl; rewrite is_nil_app, Hm, Hbr; reflexivity|].
  destruct (negb (seqb (d_disc d) "") && negb match d_mapping d with [] => true | _ => false end);
    [inversion Hd; subst; simpl; rewrite is_nil_app, Hm, Hbr; reflexivity|].
  match type of Hd with (do _ <- ?X ; _) = _ => destruct X as [disc| | |] end; simpl in Hd; try discriminate.
  destruct (d_mapping d) as [|kv0 rest] eqn:Emap.
  - destruct (dim_build s disc (d_branches d)) as [[m|]| | |] eqn:Eb; simpl in Hd; try discriminate; inversion Hd; subst.
    + cbn [bad_mappings d_branches]. rewrite is_nil_app, Hbr, andb_true_r. unfold mapping_dangling. cbn [d_mapping d_branches].
      assert (filter (fun n => negb (existsb (seqb n) (branch_names (d_branches d)))) (map snd m) = []) as E.
      { apply filter_nil_iff. intros n Hn. apply in_map_iff in Hn. destruct Hn as [kv [<- Hkv]]. apply negb_false_iff.
        apply existsb_exists. exists (snd kv). split; [exact (dim_build_targets _ _ _ _ Eb kv Hkv)|apply String.eqb_refl]. }
      rewrite E. reflexivity.
    + cbn [bad_mappings d_branches]. rewrite is_nil_app, Hbr, andb_true_r. reflexivity.
  - inversion Hd; subst. cbn [bad_mappings d_branches]. rewrite is_nil_app, Hbr, andb_true_r. unfold mapping_dangling in *. cbn [d_mapping d_branches] in *.
    rewrite Emap in Hm. exact Hm.
Qed.

Lemma vrel_bm {S} (f : S -> ty -> res (ty * S)) :
  (forall st a d t1 st1, f st (TDisj a d) = Ok (t1, st1) -> bm_ok (TDisj a d) = true -> bm_ok t1 = true) ->
  forall st t t' st', vrel f st t t' st' -> bm_ok t = true -> bm_ok t' = true.
Proof.
  apply (vrel_pred f bm_ok); unfold bm_ok; simpl.
  - reflexivity.
  - intros a i v. apply is_nil_app.
  - intros a bs. apply is_nil_flat_map.
  - intros a dh fs fs' H1 H2. rewrite is_nil_app in *. apply andb_true_iff in H2. destruct H2 as [A _]. rewrite A. simpl.
    rewrite is_nil_flat_map. exact H1.
  - intros a dh fs H. rewrite is_nil_app in H. apply andb_true_iff in H. destruct H as [_ B]. rewrite is_nil_flat_map in B. exact B.
Qed.

Lemma mappings_ok_types ss : mappings_ok ss <-> types_all bm_ok ss = true.
Proof.
  unfold mappings_ok, types_all, schema_bad_mappings, bm_ok. rewrite forallb_forall. split.
  - intros H s Hs. specialize (H s Hs). apply app_eq_nil in H. destruct H as [H1 H2]. rewrite H1. simpl.
    apply forallb_forall. intros ko Hko. rewrite (proj1 (flat_map_nil_iff _ _) H2 ko Hko). reflexivity.
  - intros H s Hs. specialize (H s Hs). apply andb_true_iff in H. destruct H as [H1 H2].
    destruct (bad_mappings (s_entrytype s)); [|discriminate]. simpl. apply flat_map_nil_iff. intros ko Hko.
    rewrite forallb_forall in H2. specialize (H2 ko Hko). destruct (bad_mappings (o_type (snd ko))); [reflexivity|discriminate].
Qed.

Theorem dim_keeps_mappings ss out : mappings_ok ss -> disjunction_infer_mapping ss = Ok out -> mappings_ok out.
Proof.
  intros H Hd. apply mappings_ok_types. apply mappings_ok_types in H. unfold disjunction_infer_mapping in Hd.
  eapply (v0_types_all bm_ok dim_disj); [|exact H|exact Hd].
  intros s t t' _ _ Hv Ht. apply visit_disj0_vrel in Hv. eapply (vrel_bm (lift0 (dim_disj s))); [|exact Hv|exact Ht].
  intros st a d t1 st1 Hx. apply lift0_inv in Hx. eapply dim_disj_bm; exact Hx.
Qed.

Lemma no_mappings_ok ss : no_mappings ss = true -> mappings_ok ss.
Proof.
  intros H. apply mappings_ok_types. unfold no_mappings, types_all in *. rewrite forallb_forall in *. intros s Hs. specialize (H s Hs).
  apply andb_true_iff in H. destruct H as [H1 H2]. unfold bm_ok. rewrite (nm_bad _ H1). simpl. apply forallb_forall. intros ko Hko.
  rewrite forallb_forall in H2. rewrite (nm_bad _ (H2 ko Hko)). reflexivity.
Qed.

Theorem rnev_keeps_mappings ss : mappings_ok ss -> mappings_ok (rename_numeric_enum_values ss).
Proof.
  intros H. apply mappings_ok_types. apply mappings_ok_types in H. unfold types_all, rename_numeric_enum_values in *. rewrite forallb_forall in *.
  intros s' Hs'. apply in_map_iff in Hs'. destruct Hs' as [s [<- Hs]]. specialize (H s Hs). apply andb_true_iff in H. destruct H as [H1 H2]. simpl.
  rewrite H1. simpl. apply forallb_forall. intros [k o'] Hko.
  assert (In o' (objects_of (rename_numeric_enum_values [s]))) as Hx.
  { apply in_objects_of. eexists. exists k. split; [left; reflexivity|exact Hko]. }
  destruct (rnev_objects _ _ Hx) as [o [Ho [E|[a [vs [vs' [_ E2]]]]]]]; simpl.
  - rewrite E. apply in_objects_of in Ho. destruct Ho as [s0 [k0 [[<-|[]] Hk0]]]. rewrite forallb_forall in H2. exact (H2 (k0, o) Hk0).
  - rewrite E2. reflexivity.
Qed.

(* =====================================================================================
   THE PYTHON CHAIN keeps everything resolving when the input carries no discriminator mapping
   ===================================================================================== *)
Theorem python_chain_keeps_resolving ss out :
  wf_refs_input ss -> no_mappings ss = true -> resolves ss = true -> process chain_python ss = Ok out -> resolves out = true.
Proof.
  intros Hwf Hnm Hr H. eapply python_chain_resolves_modulo_mappings; try eassumption.
  unfold chain_python in H.
  step_total H. pose proof (nm_astn _ Hnm) as M1.
  step_total H. pose proof (nm_nrfn _ M1) as M2.
  step_res H s3 P3. pose proof (nm_dwnto _ _ M2 P3) as M3.
  step_res H s4 P4. pose proof (nm_docte _ _ M3 P4) as M4.
  step_res H s5 P5. pose proof (nm_fd _ _ M4 P5) as M5.
  step_res H s6 P6. pose proof (dim_keeps_mappings _ _ (no_mappings_ok _ M5) P6) as M6.
  step_total H. simpl in H. inversion H; subst. apply rnev_keeps_mappings. exact M6.
Qed.

(* =====================================================================================
   DisjunctionOfAnonymousStructsToExplicit, in general
   ===================================================================================== *)
Section DoasteRefs.
  Variable G : list (string * string).
  Variable pkg : string.
  Let ST := list (string * object).
  Definition doaste_post (st : ST) (X : ty * ST) : Prop :=
    st_keys_le st (snd X) /\ state_ok G pkg (snd X) /\ forall r, In r (all_refs (fst X)) -> ref_good G pkg (snd X) r.

  Lemma keys_le_refl (st : ST) : st_keys_le st st. Proof. intros k H; exact H. Qed.
  Lemma keys_le_trans (a b c : ST) : st_keys_le a b -> st_keys_le b c -> st_keys_le a c.
  Proof. intros H1 H2 k H. apply H2. apply H1. exact H. Qed.

  Lemma doaste_refs : forall t st, all_refs_in G t -> state_ok G pkg st -> doaste_post st (doaste_ty pkg st t).
  Proof.
    induction t as [a d IH|a v IH|a vs IH|a i v IHi IHv|a dh fs IHd IHf|a pk n|a pk n v|a k v cs|a bs IH|a v|a k]
      using ty_ind'; intros st Hin HQ;
      try (split; [apply keys_le_refl|split; [exact HQ|intros r Hr; left; apply Hin; exact Hr]]).
    - (* union *)
      rewrite doaste_disj. destruct (_ && _); [split; [apply keys_le_refl|split; [exact HQ|intros r Hr; left; apply Hin; exact Hr]]|].
      assert (forall l i st0, (forall b, In b l -> In b (d_branches d)) -> state_ok G pkg st0 ->
                st_keys_le st0 (snd (doaste_branches pkg i l st0)) /\ state_ok G pkg (snd (doaste_branches pkg i l st0)) /\
                forall r, In r (flat_map all_refs (fst (doaste_branches pkg i l st0))) -> ref_good G pkg (snd (doaste_branches pkg i l st0)) r) as GB.
      { induction l as [|b rest IHl]; intros i st0 Hsub HQ0; [split; [apply keys_le_refl|split; [exact HQ0|intros r []]]|].
        assert (all_refs_in G b) as Hb.
        { intros r Hr. apply Hin. simpl. apply in_flat_map. exists b. split; [apply Hsub; left; reflexivity|exact Hr]. }
        assert (forall st1, state_ok G pkg st1 -> st_keys_le st0 st1 ->
                  st_keys_le st0 (snd (let '(r', st2) := doaste_branches pkg (S i) rest st1 in (b :: r', st2))) /\
                  state_ok G pkg (snd (let '(r', st2) := doaste_branches pkg (S i) rest st1 in (b :: r', st2))) /\
                  forall r, In r (flat_map all_refs (fst (let '(r', st2) := doaste_branches pkg (S i) rest st1 in (b :: r', st2)))) ->
                            ref_good G pkg (snd (let '(r', st2) := doaste_branches pkg (S i) rest st1 in (b :: r', st2))) r) as Hkeep.
        { intros st1 HQ1 Hle. destruct (IHl (S i) st1 (fun x Hx => Hsub x (or_intror Hx)) HQ1) as [L [Q R]].
          destruct (doaste_branches pkg (S i) rest st1) as [r' st2]. simpl in *.
          split; [eapply keys_le_trans; eassumption|split; [exact Q|]]. intros r Hr. apply in_app_or in Hr.
          destruct Hr as [Hr|Hr]; [left; apply Hb; exact Hr|apply R; exact Hr]. }
        simpl. destruct b as [a1 d1|a1 v1|a1 vs1|a1 i1 v1|a1 dh1 fs1|a1 pk1 n1|a1 pk1 n1 v1|a1 k1 v1 cs1|a1 bs1|a1 v1|a1 k1];
          try (apply Hkeep; [exact HQ0|apply keys_le_refl]).
        (* a struct branch: visited, registered, replaced by a reference *)
        rewrite Forall_forall in IH. destruct (IH _ (Hsub _ (or_introl eq_refl)) st0 Hb HQ0) as [L1 [Q1 R1]].
        destruct (doaste_ty pkg st0 (TStruct a1 dh1 fs1)) as [b' st1]. simpl in L1, Q1, R1.
        set (name := doaste_name (TStruct a1 dh1 fs1) i).
        assert (state_ok G pkg (objs_set st1 name (new_object pkg name b'))) as Q2.
        { apply state_ok_set; [exact Q1|reflexivity|reflexivity|]. intros r Hr. eapply ref_good_mono; [|apply R1; exact Hr].
          intros k0 Hk0. apply objs_set_has. left. exact Hk0. }
        destruct (IHl (S i) _ (fun x Hx => Hsub x (or_intror Hx)) Q2) as [L3 [Q3 R3]].
        destruct (doaste_branches pkg (S i) rest (objs_set st1 name (new_object pkg name b'))) as [r' st3]. simpl in *.
        split; [|split; [exact Q3|]].
        + intros k0 Hk0. apply L3. apply objs_set_has. left. apply L1. exact Hk0.
        + intros r [Hr|Hr]; [|apply R3; exact Hr]. subst r. right. split; [reflexivity|]. simpl. apply L3. apply objs_set_has. right. reflexivity. }
      destruct (GB (d_branches d) 0 st (fun b Hb => Hb) HQ) as [L [Q R]]. simpl. split; [exact L|split; [exact Q|exact R]].
    - rewrite doaste_array. simpl. exact (IH st Hin HQ).
    - rewrite doaste_map. simpl.
      destruct (IHi st (fun r Hr => Hin r (in_or_app _ _ _ (or_introl Hr))) HQ) as [L1 [Q1 R1]].
      destruct (IHv (snd (doaste_ty pkg st i)) (fun r Hr => Hin r (in_or_app _ _ _ (or_intror Hr))) Q1) as [L2 [Q2 R2]].
      split; [eapply keys_le_trans; eassumption|split; [exact Q2|]]. intros r Hr. simpl in Hr. apply in_app_or in Hr.
      destruct Hr as [Hr|Hr]; [eapply ref_good_mono; [exact L2|apply R1; exact Hr]|apply R2; exact Hr].
    - rewrite doaste_struct. simpl.
      assert (forall l st0, Forall (fun f => forall st, all_refs_in G (f_type f) -> state_ok G pkg st -> doaste_post st (doaste_ty pkg st (f_type f))) l ->
                (forall r, In r (flat_map (fun f => all_refs (f_type f)) l) -> In r G) -> state_ok G pkg st0 ->
                st_keys_le st0 (snd (doaste_fields pkg l st0)) /\ state_ok G pkg (snd (doaste_fields pkg l st0)) /\
                forall r, In r (flat_map (fun f => all_refs (f_type f)) (fst (doaste_fields pkg l st0))) -> ref_good G pkg (snd (doaste_fields pkg l st0)) r) as GF.
      { induction l as [|f rest IHl]; intros st0 HF Hl HQ0; [split; [apply keys_le_refl|split; [exact HQ0|intros r []]]|].
        inversion HF as [|? ? Hf Hrest]; subst. simpl.
        destruct (Hf st0 (fun r Hr => Hl r (in_or_app _ _ _ (or_introl Hr))) HQ0) as [L1 [Q1 R1]].
        destruct (doaste_ty pkg st0 (f_type f)) as [t' st1]. simpl in L1, Q1, R1.
        destruct (IHl st1 Hrest (fun r Hr => Hl r (in_or_app _ _ _ (or_intror Hr))) Q1) as [L2 [Q2 R2]].
        destruct (doaste_fields pkg rest st1) as [r' st2]. simpl in *.
        split; [eapply keys_le_trans; eassumption|split; [exact Q2|]]. intros r Hr. apply in_app_or in Hr.
        destruct Hr as [Hr|Hr]; [eapply ref_good_mono; [exact L2|apply R1; exact Hr]|apply R2; exact Hr]. }
      destruct (GF fs st IHf (fun r Hr => Hin r (in_or_app _ _ _ (or_intror Hr))) HQ) as [L [Q R]].
      split; [exact L|split; [exact Q|]]. intros r Hr. simpl in Hr. apply in_app_or in Hr.
      destruct Hr as [Hr|Hr]; [left; apply Hin; simpl; apply in_or_app; left; exact Hr|apply R; exact Hr].
    - rewrite doaste_inter. simpl.
      assert (forall l st0, Forall (fun b => forall st, all_refs_in G b -> state_ok G pkg st -> doaste_post st (doaste_ty pkg st b)) l ->
                (forall r, In r (flat_map all_refs l) -> In r G) -> state_ok G pkg st0 ->
                st_keys_le st0 (snd (doaste_list pkg l st0)) /\ state_ok G pkg (snd (doaste_list pkg l st0)) /\
                forall r, In r (flat_map all_refs (fst (doaste_list pkg l st0))) -> ref_good G pkg (snd (doaste_list pkg l st0)) r) as GL.
      { induction l as [|b rest IHl]; intros st0 HF Hl HQ0; [split; [apply keys_le_refl|split; [exact HQ0|intros r []]]|].
        inversion HF as [|? ? Hb Hrest]; subst. simpl.
        destruct (Hb st0 (fun r Hr => Hl r (in_or_app _ _ _ (or_introl Hr))) HQ0) as [L1 [Q1 R1]].
        destruct (doaste_ty pkg st0 b) as [b' st1]. simpl in L1, Q1, R1.
        destruct (IHl st1 Hrest (fun r Hr => Hl r (in_or_app _ _ _ (or_intror Hr))) Q1) as [L2 [Q2 R2]].
        destruct (doaste_list pkg rest st1) as [r' st2]. simpl in *.
        split; [eapply keys_le_trans; eassumption|split; [exact Q2|]]. intros r Hr. apply in_app_or in Hr.
        destruct Hr as [Hr|Hr]; [eapply ref_good_mono; [exact L2|apply R1; exact Hr]|apply R2; exact Hr]. }
      destruct (GL bs st IH Hin HQ) as [L [Q R]]. split; [exact L|split; [exact Q|exact R]].
  Qed.
End DoasteRefs.

Theorem doaste_keeps_general ss out : wfk ss -> pkgs_unique ss -> refs_ok ss -> entries_ok ss ->
  disjunction_of_anonymous_structs_to_explicit ss = Ok out ->
  pkgs_unique out /\ wfk out /\ shape_kept ss out /\ refs_ok out /\ entries_ok out.
Proof.
  intros Hw Hu HR HE H. apply step_keeps; try assumption. unfold disjunction_of_anonymous_structs_to_explicit in H.
  apply (Forall2_mapM _ _ _ _ H). intros s s' Hin HF.
  apply (visit_schema_st_step (fun st t => Ok (doaste_ty (s_pkg s) st t)) (fun _ => True) s s'); [|exact I|intros; exact I| |exact HF].
  - intros ko Hko. exact (Hw s ko Hin Hko).
  - intros st t t' st' _ Hv Hrefs HQ. inversion Hv as [Hv']. pose proof (doaste_refs (schema_refs s) (s_pkg s) t st Hrefs HQ) as X.
    rewrite Hv' in X. exact X.
Qed.

Theorem go_chain_keeps_references_general ss out :
  wf_refs_input ss -> refs_ok ss -> entries_ok ss -> process chain_go ss = Ok out -> wf_refs_input out /\ refs_ok out /\ entries_ok out.
Proof.
  intros [W0 U0] R0 E0 H. unfold chain_go in H.
  step_total H. destruct (astn_keeps _ W0 U0 R0 E0) as [U1 [W1 [_ [R1 E1]]]].
  step_total H. destruct (nrfn_keeps _ W1 U1 R1 E1) as [U2 [W2 [_ [R2 E2]]]].
  step_res H s3 P3. destruct (dwnto_keeps _ _ W2 R2 E2 P3) as [W3 [S3 [R3 E3]]]. pose proof (shape_unique _ _ S3 U2) as U3.
  step_res H s4 P4. destruct (docte_keeps _ _ W3 R3 E3 P4) as [W4 [S4 [R4 E4]]]. pose proof (shape_unique _ _ S4 U3) as U4.
  step_total H. destruct (aete_keeps _ W4 U4 R4 E4) as [U5 [W5 [_ [R5 E5]]]].
  step_res H s6 P6. destruct (pev_keeps _ _ W5 U5 R5 E5 P6) as [U6 [W6 [_ [R6 E6]]]].
  step_res H s7 P7. destruct (fd_keeps _ _ W6 R6 E6 P7) as [W7 [S7 [R7 E7]]]. pose proof (shape_unique _ _ S7 U6) as U7.
  step_res H s8 P8. destruct (doaste_keeps_general _ _ W7 U7 R7 E7 P8) as [U8 [W8 [_ [R8 E8]]]].
  step_res H s9 P9. destruct (dim_keeps _ _ W8 R8 E8 P9) as [W9 [S9 [R9 E9]]]. pose proof (shape_unique _ _ S9 U8) as U9.
  step_res H s10 P10. destruct (udta_keeps _ _ W9 R9 E9 P10) as [W10 [S10 [R10 E10]]]. pose proof (shape_unique _ _ S10 U9) as U10.
  step_res H s11 P11. simpl in H. inversion H; subst. destruct (dtt_keeps _ _ W10 U10 R10 E10 P11) as [U11 [W11 [_ [R11 E11]]]].
  split; [split; assumption|split; assumption].
Qed.

(* =====================================================================================
   mappings through the other chains
   ===================================================================================== *)
Lemma aete_nm spkg pkg cur : forall t sug, nm_ty t = true ->
  nm_ty (fst (aete_type spkg pkg cur sug t)) = true /\ forall o, In o (snd (aete_type spkg pkg cur sug t)) -> nm_ty (o_type o) = true.
Proof.
  induction t as [a d IH|a v IH|a vs IH|a i v IHi IHv|a dh fs IHd IHf|a pk n|a pk n v|a k v cs|a bs IH|a v|a k]
    using ty_ind'; intros sug H; try solve [split; [exact H|intros o []]].
  - rewrite aete_disj. simpl in *. apply andb_true_iff in H. destruct H as [Hm Hb]. rewrite forallb_forall in Hb. rewrite Forall_forall in IH.
    rewrite (proj1 (aete_list_spec spkg pkg cur sug _)), (proj2 (aete_list_spec spkg pkg cur sug _)). split.
    + unfold no_map in *. simpl. rewrite Hm. simpl. rewrite forallb_map. apply forallb_forall. intros b Hbin. exact (proj1 (IH b Hbin sug (Hb b Hbin))).
    + intros o Ho. apply in_flat_map in Ho. destruct Ho as [b [Hbin Ho]]. exact (proj2 (IH b Hbin sug (Hb b Hbin)) o Ho).
  - rewrite aete_array. simpl in *. exact (IH sug H).
  - simpl. split; [reflexivity|]. intros o [E|[]]. subst o. reflexivity.
  - rewrite aete_map. simpl in *. apply andb_true_iff in H. destruct H as [H1 H2]. destruct (IHi sug H1) as [A1 A2]. destruct (IHv sug H2) as [B1 B2].
    split; [rewrite A1, B1; reflexivity|]. intros o Ho. apply in_app_or in Ho. destruct Ho as [Ho|Ho]; [apply A2|apply B2]; exact Ho.
  - rewrite aete_struct. simpl in *. apply andb_true_iff in H. destruct H as [Hd Hf]. rewrite forallb_forall in Hf. rewrite Forall_forall in IHf.
    rewrite (proj1 (aete_fields_spec spkg pkg cur _)), (proj2 (aete_fields_spec spkg pkg cur _)). split.
    + rewrite Hd. simpl. rewrite forallb_map. apply forallb_forall. intros f Hfin. simpl. exact (proj1 (IHf f Hfin _ (Hf f Hfin))).
    + intros o Ho. apply in_flat_map in Ho. destruct Ho as [f [Hfin Ho]]. exact (proj2 (IHf f Hfin _ (Hf f Hfin)) o Ho).
  - rewrite aete_inter. simpl in *. rewrite forallb_forall in H. rewrite Forall_forall in IH.
    rewrite (proj1 (aete_list_spec spkg pkg cur sug _)), (proj2 (aete_list_spec spkg pkg cur sug _)). split.
    + rewrite forallb_map. apply forallb_forall. intros b Hbin. exact (proj1 (IH b Hbin sug (H b Hbin))).
    + intros o Ho. apply in_flat_map in Ho. destruct Ho as [b [Hbin Ho]]. exact (proj2 (IH b Hbin sug (H b Hbin)) o Ho).
Qed.

Theorem nm_aete ss : no_mappings ss = true -> no_mappings (anonymous_enum_to_explicit_type ss) = true.
Proof.
  unfold no_mappings, anonymous_enum_to_explicit_type. rewrite !forallb_forall. intros H s' Hs'.
  apply in_map_iff in Hs'. destruct Hs' as [s [<- Hs]]. specialize (H s Hs). apply andb_true_iff in H. destruct H as [He Ho].
  rewrite forallb_forall in Ho. unfold aete_schema.
  match goal with |- context [fold_left ?F0 (s_objects s) ([], [])] => set (F := F0) end.
  assert ((fun acc : list (string * object) * list object =>
             (forall k o, In (k, o) (fst acc) -> nm_ty (o_type o) = true) /\ (forall o, In o (snd acc) -> nm_ty (o_type o) = true))
            (fold_left F (s_objects s) ([], []))) as Hinv.
  { apply fold_left_inv; [|split; [intros k o []|intros o []]].
    intros [objs news] [k0 o0] Hin0 [H1 H2]. unfold F. simpl. destruct (is_enum (o_type o0)); simpl.
    - split; [|exact H2]. intros k o Hx. destruct (objs_set_in_kv _ _ _ _ _ Hx) as [Y|[_ ->]]; [eapply H1; exact Y|exact (Ho (k0, o0) Hin0)].
    - pose proof (aete_nm (s_pkg s) (o_selfpkg o0) (o_name o0) (o_type o0) (String.append (upper_camel_case (o_name o0)) "Enum") (Ho (k0, o0) Hin0)) as [A B].
      destruct (aete_type _ _ _ _ (o_type o0)) as [t' n]. simpl in *. split.
      + intros k o Hx. destruct (objs_set_in_kv _ _ _ _ _ Hx) as [Y|[_ ->]]; [eapply H1; exact Y|exact A].
      + intros o Hx. apply in_app_or in Hx. destruct Hx as [Hx|Hx]; [apply H2; exact Hx|apply B; exact Hx]. }
  destruct (fold_left F (s_objects s) ([], [])) as [objs news]. simpl in *. destruct Hinv as [H1 H2].
  rewrite He. simpl. apply forallb_forall. intros [k o] Hko. simpl. apply fold_add_object_in in Hko.
  destruct Hko as [Hko|Hko]; [eapply H1; exact Hko|apply H2; exact Hko].
Qed.

Lemma pev_entry ss out s' : prefix_enum_values ss = Ok out -> In s' out -> exists s, In s ss /\ s_entrytype s' = s_entrytype s.
Proof.
  intros H Hs'. unfold prefix_enum_values in H. destruct (Forall2_in_r _ _ _ (mapM_Forall2 _ _ _ H) s' Hs') as [s [Hs HF]].
  rewrite map_objects_res_eq in HF. destruct (mor_loop pev_object (s_objects s) []); simpl in HF; try discriminate. inversion HF; subst.
  exists s. split; [exact Hs|reflexivity].
Qed.

Theorem nm_pev ss out : no_mappings ss = true -> prefix_enum_values ss = Ok out -> no_mappings out = true.
Proof.
  intros Hn H. unfold no_mappings in *. rewrite forallb_forall in *. intros s' Hs'.
  destruct (pev_entry _ _ _ H Hs') as [s [Hs Ee]]. rewrite Ee. pose proof (Hn s Hs) as Hx. apply andb_true_iff in Hx. destruct Hx as [He _].
  rewrite He. simpl. apply forallb_forall. intros [k o'] Hko. simpl.
  assert (In o' (objects_of out)) as Ho' by (apply in_objects_of; exists s', k; split; assumption).
  destruct (pev_objects _ _ _ H Ho') as [o [Ho [_ [E|[a [vs [vs' [_ E2]]]]]]]]; [|rewrite E2; reflexivity].
  rewrite E. apply in_objects_of in Ho. destruct Ho as [s0 [k0 [Hs0 Hk0]]]. specialize (Hn s0 Hs0). apply andb_true_iff in Hn.
  destruct Hn as [_ Hn]. rewrite forallb_forall in Hn. exact (Hn (k0, o) Hk0).
Qed.

Lemma senm_nm : forall t t', senm_ty t = Ok t' -> nm_ty t' = nm_ty t.
Proof.
  induction t as [a d IH|a v IH|a vs IH|a i v IHi IHv|a dh fs IHd IHf|a pk n|a pk n v|a k v cs|a bs IH|a v|a k]
    using ty_ind'; intros t' H;
    [rewrite senm_disj_eq in H|simpl in H|simpl in H|simpl in H|rewrite senm_struct_eq in H
     |simpl in H|simpl in H|simpl in H|rewrite senm_inter_eq in H|simpl in H|simpl in H];
    try (inversion H; subst; reflexivity).
  - assert (forall l l', Forall (fun b => forall t', senm_ty b = Ok t' -> nm_ty t' = nm_ty b) l ->
              senm_list l = Ok l' -> forallb nm_ty l' = forallb nm_ty l) as G.
    { induction l as [|b r IHl]; intros l' HF Hl; simpl in Hl; [inversion Hl; subst; reflexivity|].
      inversion HF as [|? ? Hb Hr]; subst.
      destruct (senm_ty b) as [b1| | |] eqn:E1; simpl in Hl; try discriminate.
      destruct (senm_list r) as [r1| | |] eqn:E2; simpl in Hl; try discriminate.
      inversion Hl; subst. simpl. rewrite (Hb b1 eq_refl), (IHl r1 Hr eq_refl). reflexivity. }
    destruct (senm_list (d_branches d)) as [bs1| | |] eqn:E; simpl in H; try discriminate. inversion H; subst. simpl.
    unfold no_map. simpl. rewrite (G _ _ IH E). reflexivity.
  - destruct (senm_ty v) as [v1| | |] eqn:E; simpl in H; try discriminate. inversion H; subst. simpl. exact (IH v1 eq_refl).
  - destruct (mapM senm_member vs) as [vs1| | |]; simpl in H; try discriminate. inversion H; subst. reflexivity.
  - destruct (senm_ty i) as [i1| | |] eqn:Ei; simpl in H; try discriminate.
    destruct (senm_ty v) as [v1| | |] eqn:Ev; simpl in H; try discriminate. inversion H; subst. simpl.
    rewrite (IHi i1 eq_refl), (IHv v1 eq_refl). reflexivity.
  - assert (forall l l', Forall (fun f => forall t', senm_ty (f_type f) = Ok t' -> nm_ty t' = nm_ty (f_type f)) l ->
              senm_fields l = Ok l' -> forallb (fun f => nm_ty (f_type f)) l' = forallb (fun f => nm_ty (f_type f)) l) as G.
    { induction l as [|f r IHl]; intros l' HF Hl; simpl in Hl; [inversion Hl; subst; reflexivity|].
      inversion HF as [|? ? Hf Hr]; subst.
      destruct (senm_ty (f_type f)) as [t1| | |] eqn:E1; simpl in Hl; try discriminate.
      destruct (senm_fields r) as [r1| | |] eqn:E2; simpl in Hl; try discriminate.
      inversion Hl; subst. simpl. rewrite (Hf t1 eq_refl), (IHl r1 Hr eq_refl). reflexivity. }
    destruct (senm_fields fs) as [fs1| | |] eqn:E; simpl in H; try discriminate. inversion H; subst. simpl. rewrite (G _ _ IHf E). reflexivity.
  - assert (forall l l', Forall (fun b => forall t', senm_ty b = Ok t' -> nm_ty t' = nm_ty b) l ->
              senm_list l = Ok l' -> forallb nm_ty l' = forallb nm_ty l) as G.
    { induction l as [|b r IHl]; intros l' HF Hl; simpl in Hl; [inversion Hl; subst; reflexivity|].
      inversion HF as [|? ? Hb Hr]; subst.
      destruct (senm_ty b) as [b1| | |] eqn:E1; simpl in Hl; try discriminate.
      destruct (senm_list r) as [r1| | |] eqn:E2; simpl in Hl; try discriminate.
      inversion Hl; subst. simpl. rewrite (Hb b1 eq_refl), (IHl r1 Hr eq_refl). reflexivity. }
    destruct (senm_list bs) as [bs1| | |] eqn:E; simpl in H; try discriminate. inversion H; subst. simpl. exact (G _ _ IH E).
Qed.

Theorem nm_senm ss out : no_mappings ss = true -> sanitize_enum_member_names ss = Ok out -> no_mappings out = true.
Proof.
  intros Hn H. unfold sanitize_enum_member_names in H. rewrite no_mappings_eq in *.
  eapply (vs_types_all nm_ty (fun _ => senm_ty)); [|exact Hn|exact H].
  intros s t t' _ _ Ht Hx. rewrite (senm_nm _ _ Ht). exact Hx.
Qed.

(* DOASTE *)
Definition nm_state (st : list (string * object)) : Prop := forall k o, In (k, o) st -> nm_ty (o_type o) = true.
Lemma doaste_nm pkg : forall t st, nm_ty t = true -> nm_state st ->
  nm_ty (fst (doaste_ty pkg st t)) = true /\ nm_state (snd (doaste_ty pkg st t)).
Proof.
  induction t as [a d IH|a v IH|a vs IH|a i v IHi IHv|a dh fs IHd IHf|a pk n|a pk n v|a k v cs|a bs IH|a v|a k]
    using ty_ind'; intros st H HQ; try (split; [exact H|exact HQ]).
  - rewrite doaste_disj. destruct (_ && _); [split; [exact H|exact HQ]|]. simpl in H. apply andb_true_iff in H. destruct H as [Hm Hb].
    rewrite forallb_forall in Hb. rewrite Forall_forall in IH.
    assert (forall l i st0, (forall b, In b l -> In b (d_branches d)) -> nm_state st0 ->
              forallb nm_ty (fst (doaste_branches pkg i l st0)) = true /\ nm_state (snd (doaste_branches pkg i l st0))) as GB.
    { induction l as [|b rest IHl]; intros i st0 Hsub HQ0; [split; [reflexivity|exact HQ0]|].
      assert (nm_ty b = true) as Hnb by (apply Hb; apply Hsub; left; reflexivity).
      assert (forall st1, nm_state st1 ->
                forallb nm_ty (fst (let '(r', st2) := doaste_branches pkg (S i) rest st1 in (b :: r', st2))) = true /\
                nm_state (snd (let '(r', st2) := doaste_branches pkg (S i) rest st1 in (b :: r', st2)))) as Hkeep.
      { intros st1 HQ1. destruct (IHl (S i) st1 (fun x Hx => Hsub x (or_intror Hx)) HQ1) as [A B].
        destruct (doaste_branches pkg (S i) rest st1) as [r' st2]. simpl in *. rewrite Hnb, A. split; [reflexivity|exact B]. }
      simpl. destruct b as [a1 d1|a1 v1|a1 vs1|a1 i1 v1|a1 dh1 fs1|a1 pk1 n1|a1 pk1 n1 v1|a1 k1 v1 cs1|a1 bs1|a1 v1|a1 k1];
        try (apply Hkeep; exact HQ0).
      destruct (IH _ (Hsub _ (or_introl eq_refl)) st0 Hnb HQ0) as [A1 Q1].
      destruct (doaste_ty pkg st0 (TStruct a1 dh1 fs1)) as [b' st1]. simpl in A1, Q1.
      set (name := doaste_name (TStruct a1 dh1 fs1) i).
      assert (nm_state (objs_set st1 name (new_object pkg name b'))) as Q2.
      { intros k0 o0 Hx. destruct (objs_set_in_kv _ _ _ _ _ Hx) as [Y|[_ ->]]; [eapply Q1; exact Y|exact A1]. }
      destruct (IHl (S i) _ (fun x Hx => Hsub x (or_intror Hx)) Q2) as [A3 Q3].
      destruct (doaste_branches pkg (S i) rest _) as [r' st3]. simpl in *. split; [exact A3|exact Q3]. }
    destruct (GB (d_branches d) 0 st (fun b Hx => Hx) HQ) as [A B]. simpl. unfold no_map in *. simpl. rewrite Hm, A. split; [reflexivity|exact B].
  - rewrite doaste_array. simpl in *. exact (IH st H HQ).
  - rewrite doaste_map. simpl in *. apply andb_true_iff in H. destruct H as [H1 H2].
    destruct (IHi st H1 HQ) as [A1 Q1]. destruct (IHv (snd (doaste_ty pkg st i)) H2 Q1) as [A2 Q2]. rewrite A1, A2. split; [reflexivity|exact Q2].
  - rewrite doaste_struct. simpl in *. apply andb_true_iff in H. destruct H as [Hd Hf].
    assert (forall l st0, Forall (fun f => forall st, nm_ty (f_type f) = true -> nm_state st ->
                                    nm_ty (fst (doaste_ty pkg st (f_type f))) = true /\ nm_state (snd (doaste_ty pkg st (f_type f)))) l ->
              forallb (fun f => nm_ty (f_type f)) l = true -> nm_state st0 ->
              forallb (fun f => nm_ty (f_type f)) (fst (doaste_fields pkg l st0)) = true /\ nm_state (snd (doaste_fields pkg l st0))) as GF.
    { induction l as [|f rest IHl]; intros st0 HF Hl HQ0; [split; [reflexivity|exact HQ0]|].
      inversion HF as [|? ? Hf1 Hrest]; subst. simpl in Hl. apply andb_true_iff in Hl. destruct Hl as [Hl1 Hl2]. simpl.
      destruct (Hf1 st0 Hl1 HQ0) as [A1 Q1]. destruct (doaste_ty pkg st0 (f_type f)) as [t' st1]. simpl in A1, Q1.
      destruct (IHl st1 Hrest Hl2 Q1) as [A2 Q2]. destruct (doaste_fields pkg rest st1) as [r' st2]. simpl in *. rewrite A1, A2. split; [reflexivity|exact Q2]. }
    destruct (GF fs st IHf Hf HQ) as [A B]. rewrite Hd, A. split; [reflexivity|exact B].
  - rewrite doaste_inter. simpl in *.
    assert (forall l st0, Forall (fun b => forall st, nm_ty b = true -> nm_state st ->
                                    nm_ty (fst (doaste_ty pkg st b)) = true /\ nm_state (snd (doaste_ty pkg st b))) l ->
              forallb nm_ty l = true -> nm_state st0 ->
              forallb nm_ty (fst (doaste_list pkg l st0)) = true /\ nm_state (snd (doaste_list pkg l st0))) as GL.
    { induction l as [|b rest IHl]; intros st0 HF Hl HQ0; [split; [reflexivity|exact HQ0]|].
      inversion HF as [|? ? Hb1 Hrest]; subst. simpl in Hl. apply andb_true_iff in Hl. destruct Hl as [Hl1 Hl2]. simpl.
      destruct (Hb1 st0 Hl1 HQ0) as [A1 Q1]. destruct (doaste_ty pkg st0 b) as [b' st1]. simpl in A1, Q1.
      destruct (IHl st1 Hrest Hl2 Q1) as [A2 Q2]. destruct (doaste_list pkg rest st1) as [r' st2]. simpl in *. rewrite A1, A2. split; [reflexivity|exact Q2]. }
    exact (GL bs st IH H HQ).
Qed.

Lemma visit_schema_st_entry {S} (init : S) on_type news s s' :
  visit_schema_st init on_type news s = Ok s' -> exists t st, on_type init (s_entrytype s) = Ok (t, st) /\ s_entrytype s' = t.
Proof.
  rewrite visit_schema_st_eq. destruct (on_type init (s_entrytype s)) as [[t st]| | |]; simpl; try discriminate.
  destruct (vst_loop on_type (s_objects s) [] st) as [[objs st1]| | |]; simpl; try discriminate. intros H. inversion H; subst. exists t, st. split; reflexivity.
Qed.

Theorem nm_doaste ss out : no_mappings ss = true -> disjunction_of_anonymous_structs_to_explicit ss = Ok out -> no_mappings out = true.
Proof.
  intros Hn H. unfold no_mappings in *. rewrite forallb_forall in *. intros s' Hs'. unfold disjunction_of_anonymous_structs_to_explicit in H.
  destruct (Forall2_in_r _ _ _ (mapM_Forall2 _ _ _ H) s' Hs') as [s [Hs HF]]. specialize (Hn s Hs). apply andb_true_iff in Hn. destruct Hn as [He Ho].
  rewrite forallb_forall in Ho. apply andb_true_iff. split.
  - destruct (visit_schema_st_entry _ _ _ _ _ HF) as [t [st [E1 E2]]]. inversion E1 as [E3]. rewrite E2.
    pose proof (proj1 (doaste_nm (s_pkg s) (s_entrytype s) [] He (fun k o (Hx : In (k, o) []) => match Hx with end))) as X. rewrite E3 in X. exact X.
  - assert (forall st t t' st', nm_ty t = true -> (fun st t => Ok (doaste_ty (s_pkg s) st t)) st t = Ok (t', st') -> nm_state st -> nm_state st') as Hq.
    { intros st t t' st' HC Hv HQ. inversion Hv as [Hv']. pose proof (proj2 (doaste_nm (s_pkg s) t st HC HQ)) as X. rewrite Hv' in X. exact X. }
    destruct (visit_schema_st_objects [] (fun st t => Ok (doaste_ty (s_pkg s) st t)) (map snd) (fun t => nm_ty t = true) nm_state s s'
                Hq (fun k o (Hx : In (k, o) []) => match Hx with end) He Ho HF) as [final [HQf Hobjs]].
    apply forallb_forall. intros [k o'] Hko. simpl. destruct (Hobjs k o' Hko) as [[[k0 o0] [st [t' [st' [Hin [HQ [Hv Heq]]]]]]]|Hnew].
    + subst o'. simpl in *. inversion Hv as [Hv']. pose proof (proj1 (doaste_nm (s_pkg s) (o_type o0) st (Ho (k0, o0) Hin) HQ)) as X. rewrite Hv' in X. exact X.
    + apply in_map_iff in Hnew. destruct Hnew as [[k1 o1] [E Hin]]. simpl in E. subst o1. exact (HQf k1 o' Hin).
Qed.

(* mappings_ok through UndiscriminatedDisjunctionToAny and DisjunctionToType *)
Theorem udta_keeps_mappings ss out : mappings_ok ss -> undiscriminated_disjunction_to_any ss = Ok out -> mappings_ok out.
Proof.
  intros H Hd. apply mappings_ok_types. apply mappings_ok_types in H. unfold undiscriminated_disjunction_to_any in Hd.
  eapply (v0_types_all bm_ok udta_disj); [|exact H|exact Hd].
  intros s t t' _ _ Hv Ht. apply visit_disj0_vrel in Hv. eapply (vrel_bm (lift0 (udta_disj s))); [|exact Hv|exact Ht].
  intros st a d t1 st1 Hx Hb. apply lift0_inv in Hx. destruct (udta_disj_shape _ _ _ _ Hx) as [->|[-> _]]; [exact Hb|reflexivity].
Qed.

Lemma vrel_pred_st {S} (f : S -> ty -> res (ty * S)) (P : ty -> bool) (Q : S -> Prop)
  (P_array : forall a v, P (TArray a v) = P v) (P_map : forall a i v, P (TMap a i v) = P i && P v)
  (P_inter : forall a bs, P (TInter a bs) = forallb P bs)
  (P_struct : forall a dh fs fs', forallb (fun x => P (f_type x)) fs' = true -> P (TStruct a dh fs) = true -> P (TStruct a dh fs') = true)
  (P_struct_fields : forall a dh fs, P (TStruct a dh fs) = true -> forallb (fun x => P (f_type x)) fs = true) :
  (forall st a d t1 st1, f st (TDisj a d) = Ok (t1, st1) -> P (TDisj a d) = true -> Q st -> P t1 = true /\ Q st1) ->
  forall st t t' st', vrel f st t t' st' -> P t = true -> Q st -> P t' = true /\ Q st'.
Proof.
  intros Hf.
  assert ((forall st t t' st', vrel f st t t' st' -> P t = true -> Q st -> P t' = true /\ Q st') /\
          (forall st fs fs' st', vrel_fields f st fs fs' st' -> forallb (fun x => P (f_type x)) fs = true -> Q st ->
                                 forallb (fun x => P (f_type x)) fs' = true /\ Q st') /\
          (forall st bs bs' st', vrel_list f st bs bs' st' -> forallb P bs = true -> Q st -> forallb P bs' = true /\ Q st')) as X.
  { apply vrel_mutind.
    - intros st a v v' st' _ IH H HQ. rewrite P_array in *. exact (IH H HQ).
    - intros st a i v i' v' st1 st2 _ IHi _ IHv H HQ. rewrite P_map in *. apply andb_true_iff in H. destruct H as [H1 H2].
      destruct (IHi H1 HQ) as [A1 Q1]. destruct (IHv H2 Q1) as [A2 Q2]. rewrite A1, A2. split; [reflexivity|exact Q2].
    - intros st a dh fs fs' st' _ IH H HQ. destruct (IH (P_struct_fields _ _ _ H) HQ) as [A Q1]. split; [apply (P_struct a dh fs fs'); assumption|exact Q1].
    - intros st a bs bs' st' _ IH H HQ. rewrite P_inter in *. exact (IH H HQ).
    - intros st a d t' st' Hd H HQ. exact (Hf _ _ _ _ _ Hd H HQ).
    - intros st t _ H HQ. split; assumption.
    - intros st _ HQ. split; [reflexivity|exact HQ].
    - intros st f0 t' st1 r r' st2 _ IHt _ IHr H HQ. simpl in *. apply andb_true_iff in H. destruct H as [H1 H2].
      destruct (IHt H1 HQ) as [A1 Q1]. destruct (IHr H2 Q1) as [A2 Q2]. rewrite A1, A2. split; [reflexivity|exact Q2].
    - intros st _ HQ. split; [reflexivity|exact HQ].
    - intros st b b' st1 r r' st2 _ IHb _ IHr H HQ. simpl in *. apply andb_true_iff in H. destruct H as [H1 H2].
      destruct (IHb H1 HQ) as [A1 Q1]. destruct (IHr H2 Q1) as [A2 Q2]. rewrite A1, A2. split; [reflexivity|exact Q2]. }
  exact (proj1 X).
Qed.

Definition bm_state (st : list (string * object)) : Prop := forall k o, In (k, o) st -> bm_ok (o_type o) = true.

Lemma bad_mappings_set_nullable t b : bad_mappings (set_nullable t b) = bad_mappings t.
Proof. destruct t; reflexivity. Qed.

Lemma bad_struct_nil a dh fs :
  (forall kd, In kd dh -> mapping_dangling (snd kd) = [] /\ flat_map bad_mappings (d_branches (snd kd)) = []) ->
  (forall f, In f fs -> bad_mappings (f_type f) = []) -> bad_mappings (TStruct a dh fs) = [].
Proof.
  intros H1 H2. simpl.
  assert (flat_map (fun kd : string * disj_ ty => mapping_dangling (snd kd) ++ flat_map bad_mappings (d_branches (snd kd))) dh = []) as E1.
  { apply flat_map_nil_iff. intros kd Hkd. destruct (H1 kd Hkd) as [A B]. rewrite A, B. reflexivity. }
  rewrite E1. simpl. apply flat_map_nil_iff. exact H2.
Qed.

Lemma dtt_disj_bm s st a d t1 st1 : dtt_disj s st (TDisj a d) = Ok (t1, st1) -> bm_ok (TDisj a d) = true -> bm_state st -> bm_ok t1 = true /\ bm_state st1.
Proof.
  intros H Hb HQ. unfold bm_ok in Hb. simpl in Hb. rewrite is_nil_app in Hb. apply andb_true_iff in Hb. destruct Hb as [Hm Hbr].
  assert (mapping_dangling d = []) as Em by (destruct (mapping_dangling d); [reflexivity|discriminate]).
  assert (flat_map bad_mappings (d_branches d) = []) as Eb by (destruct (flat_map bad_mappings (d_branches d)); [reflexivity|discriminate]).
  unfold dtt_disj in H. destruct (single_type_scalars s (d_branches d)) as [[k|]| | |]; simpl in H; try discriminate.
  - inversion H; subst. split; [reflexivity|exact HQ].
  - match type of H with context [objs_has st ?n] => destruct (objs_has st n) end.
    + inversion H; subst. split; [reflexivity|exact HQ].
    + match type of H with (do _ <- ?X ; _) = _ => destruct X as [dh| | |] eqn:Edh end; simpl in H; try discriminate.
      inversion H; subst. clear H. split; [reflexivity|]. intros k o Hx. destruct (objs_set_in_kv _ _ _ _ _ Hx) as [Y|[_ ->]]; [exact (HQ _ _ Y)|].
      match goal with |- bm_ok (o_type (new_object _ _ ?T)) = true => assert (bad_mappings T = []) as E end.
      { apply bad_struct_nil.
        - intros [hk hd] Hkd. simpl.
          assert (hd = d) as ->.
          { apply in_app_or in Hkd. destruct Hkd as [Hkd|Hkd].
            - destruct (has_only_refs (d_branches d)); [|inversion Edh; subst; contradiction].
              destruct (seqb (d_disc d) ""); [discriminate|]. destruct (d_mapping d); [discriminate|]. inversion Edh; subst.
              destruct Hkd as [Hkd|[]]. inversion Hkd. reflexivity.
            - destruct (has_only_scalar_or_array_or_map (d_branches d)); [|contradiction]. destruct Hkd as [Hkd|[]]. inversion Hkd. reflexivity. }
          split; assumption.
        - intros f Hf. apply in_map_iff in Hf. destruct Hf as [b [<- Hbin]]. simpl. rewrite bad_mappings_set_nullable.
          apply filter_In in Hbin. destruct Hbin as [Hbin _]. exact (proj1 (flat_map_nil_iff _ _) Eb b Hbin). }
      unfold bm_ok, new_object. cbn [o_type]. rewrite E. reflexivity.
Qed.

Theorem dtt_keeps_mappings ss out : mappings_ok ss -> disjunction_to_type ss = Ok out -> mappings_ok out.
Proof.
  intros H Hd. apply mappings_ok_types. apply mappings_ok_types in H. unfold types_all in *. rewrite forallb_forall in *. intros s' Hs'.
  unfold disjunction_to_type in Hd. destruct (Forall2_in_r _ _ _ (mapM_Forall2 _ _ _ Hd) s' Hs') as [s [Hs HF]].
  specialize (H s Hs). apply andb_true_iff in H. destruct H as [He Ho]. rewrite forallb_forall in Ho.
  assert (forall st t t' st', visit_disj (dtt_disj s) st t = Ok (t', st') -> bm_ok t = true -> bm_state st -> bm_ok t' = true /\ bm_state st') as Hstep.
  { intros st t t' st' Hv Ht HQ. apply visit_disj_vrel in Hv. eapply (vrel_pred_st (dtt_disj s) bm_ok bm_state); try eassumption; unfold bm_ok; simpl.
    - reflexivity.
    - intros a i v. apply is_nil_app.
    - intros a bs. apply is_nil_flat_map.
    - intros a dh fs fs' H1 H2. rewrite is_nil_app in *. apply andb_true_iff in H2. destruct H2 as [A _]. rewrite A. simpl. rewrite is_nil_flat_map. exact H1.
    - intros a dh fs H0. rewrite is_nil_app in H0. apply andb_true_iff in H0. destruct H0 as [_ B]. rewrite is_nil_flat_map in B. exact B.
    - intros st0 a d t1 st1. apply dtt_disj_bm. }
  apply andb_true_iff. split.
  - destruct (visit_schema_st_entry _ _ _ _ _ HF) as [t [st [E1 E2]]]. rewrite E2.
    exact (proj1 (Hstep _ _ _ _ E1 He (fun k o (Hx : In (k, o) []) => match Hx with end))).
  - destruct (visit_schema_st_objects [] (visit_disj (dtt_disj s)) (map snd) (fun t => bm_ok t = true) bm_state s s'
                (fun st t t' st' HC Hv HQ => proj2 (Hstep st t t' st' Hv HC HQ)) (fun k o (Hx : In (k, o) []) => match Hx with end) He Ho HF) as [final [HQf Hobjs]].
    apply forallb_forall. intros [k o'] Hko. simpl. destruct (Hobjs k o' Hko) as [[[k0 o0] [st [t' [st' [Hin [HQ [Hv Heq]]]]]]]|Hnew].
    + subst o'. simpl in *. exact (proj1 (Hstep _ _ _ _ Hv (Ho (k0, o0) Hin) HQ)).
    + apply in_map_iff in Hnew. destruct Hnew as [[k1 o1] [E Hin]]. simpl in E. subst o1. exact (HQf k1 o' Hin).
Qed.

(* =====================================================================================
   THE GO, JAVA-CORE AND PHP-CORE CHAINS keep everything resolving when the input has no mapping
   ===================================================================================== *)
Theorem go_chain_keeps_resolving ss out :
  wf_refs_input ss -> no_mappings ss = true -> resolves ss = true -> process chain_go ss = Ok out -> resolves out = true.
Proof.
  intros Hwf Hnm Hr H. apply resolves_iff in Hr. destruct Hr as [R0 [E0 _]].
  destruct (go_chain_keeps_references_general _ _ Hwf R0 E0 H) as [_ [R E]]. apply resolves_iff. split; [exact R|split; [exact E|]].
  unfold chain_go in H.
  step_total H. pose proof (nm_astn _ Hnm) as M1.
  step_total H. pose proof (nm_nrfn _ M1) as M2.
  step_res H s3 P3. pose proof (nm_dwnto _ _ M2 P3) as M3.
  step_res H s4 P4. pose proof (nm_docte _ _ M3 P4) as M4.
  step_total H. pose proof (nm_aete _ M4) as M5.
  step_res H s6 P6. pose proof (nm_pev _ _ M5 P6) as M6.
  step_res H s7 P7. pose proof (nm_fd _ _ M6 P7) as M7.
  step_res H s8 P8. pose proof (nm_doaste _ _ M7 P8) as M8.
  step_res H s9 P9. pose proof (dim_keeps_mappings _ _ (no_mappings_ok _ M8) P9) as M9.
  step_res H s10 P10. pose proof (udta_keeps_mappings _ _ M9 P10) as M10.
  step_res H s11 P11. simpl in H. inversion H; subst. exact (dtt_keeps_mappings _ _ M10 P11).
Qed.

Theorem java_core_chain_keeps_resolving ss out :
  wf_refs_input ss -> no_mappings ss = true -> resolves ss = true -> process (removelast chain_java) ss = Ok out -> resolves out = true.
Proof.
  intros Hwf Hnm Hr H. apply resolves_iff in Hr. destruct Hr as [R0 [E0 _]].
  destruct (java_core_chain_keeps_references _ _ Hwf R0 E0 H) as [_ [R E]]. apply resolves_iff. split; [exact R|split; [exact E|]].
  unfold chain_java in H. cbn [removelast] in H.
  step_total H. pose proof (nm_astn _ Hnm) as M1.
  step_total H. pose proof (nm_nrfn _ M1) as M2.
  step_res H s3 P3. pose proof (nm_dwnto _ _ M2 P3) as M3.
  step_res H s4 P4. pose proof (nm_docte _ _ M3 P4) as M4.
  step_total H. pose proof (nm_aete _ M4) as M5.
  step_res H s6 P6. pose proof (nm_fd _ _ M5 P6) as M6.
  step_res H s7 P7. pose proof (dim_keeps_mappings _ _ (no_mappings_ok _ M6) P7) as M7.
  step_res H s8 P8. pose proof (udta_keeps_mappings _ _ M7 P8) as M8.
  step_res H s9 P9. simpl in H. inversion H; subst. exact (dtt_keeps_mappings _ _ M8 P9).
Qed.

Theorem php_core_chain_keeps_resolving ss out :
  wf_refs_input ss -> no_mappings ss = true -> resolves ss = true -> process (removelast chain_php) ss = Ok out -> resolves out = true.
Proof.
  intros Hwf Hnm Hr H. apply resolves_iff in Hr. destruct Hr as [R0 [E0 _]].
  destruct (php_core_chain_keeps_references _ _ Hwf R0 E0 H) as [_ [R E]]. apply resolves_iff. split; [exact R|split; [exact E|]].
  unfold chain_php in H. cbn [removelast] in H.
  step_total H. pose proof (nm_astn _ Hnm) as M1.
  step_total H. pose proof (nm_nrfn _ M1) as M2.
  step_res H s3 P3. pose proof (nm_dwnto _ _ M2 P3) as M3.
  step_res H s4 P4. pose proof (nm_docte _ _ M3 P4) as M4.
  step_total H. pose proof (nm_aete _ M4) as M5.
  step_res H s6 P6. pose proof (nm_senm _ _ M5 P6) as M6.
  step_res H s7 P7. pose proof (nm_fd _ _ M6 P7) as M7.
  step_res H s8 P8. pose proof (dim_keeps_mappings _ _ (no_mappings_ok _ M7) P8) as M8.
  step_res H s9 P9. simpl in H. inversion H; subst. exact (udta_keeps_mappings _ _ M8 P9).
Qed.
