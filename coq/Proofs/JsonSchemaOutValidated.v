(* C12: what the generated Validate() accepts, the emitted schema accepts. *)
From Coq Require Import List String ZArith Bool Ascii Lia.
From Cog Require Import Model.IR Model.Json Model.GoSemBase Model.GoSemDecode Model.GoSemEquals Model.GoSemValidate
  Model.GoSemSpec Model.GoSemSpec08 Model.GoSem
  Model.JsonSchemaOut Model.JsonSchemaOutSpec Model.JsonSchemaOutValidated
  Proofs.JsonSchemaOutProofs Proofs.JsonSchemaOutEncode Proofs.GoSemC08Proofs.
Import ListNotations.
Local Open Scope string_scope.
Local Open Scope list_scope.

(* ---------- the two decimal readers are one function ---------- *)
Lemma jo_digits_eq : forall l acc, jo_digits l acc = digits_val l acc.
Proof. induction l as [|c r IH]; intros acc; simpl; auto. Qed.

Lemma jo_split_eq : forall c l, jo_split c l = split_at c l.
Proof. induction l as [|x r IH]; simpl; [reflexivity | rewrite IH; reflexivity]. Qed.

Lemma jo_parse_dec_eq : forall s, jo_parse_dec s = parse_dec s.
Proof.
  intros s. unfold jo_parse_dec, parse_dec.
  change (jo_signed (str_list s)) with (signed (str_list s)).
  destruct (signed (str_list s)) as [neg body].
  rewrite jo_split_eq. destruct (split_at "e" body) as [mant ex].
  rewrite jo_split_eq. destruct (split_at "." mant) as [ip fp].
  rewrite jo_digits_eq.
  destruct (digits_val (ip ++ match fp with Some f => f | None => [] end) 0) as [m|]; [|reflexivity].
  destruct (ip ++ match fp with Some f => f | None => [] end) as [|c0 r0]; [reflexivity|].
  destruct ex as [x|]; [|reflexivity].
  change (jo_signed x) with (signed x). destruct (signed x) as [eneg eb].
  rewrite jo_digits_eq. reflexivity.
Qed.

Lemma dyn_num_json : forall d m e, dyn_num d = Some (m, e) -> dyn_to_json d = JNum m e.
Proof.
  intros d m e H. destruct d; simpl in H; try discriminate.
  - inversion H; reflexivity.
  - simpl. rewrite jo_parse_dec_eq, H. reflexivity.
Qed.

Lemma jcmp_dec_compare : forall a b, jcmp a b = dec_compare a b.
Proof. intros [m1 e1] [m2 e2]. reflexivity. Qed.

(* ---------- a constraint Validate() finds satisfied is a keyword the validator finds satisfied ---------- *)
Lemma string_kw_cases : forall op k, string_kw op = Some k ->
    (op = "minLength" /\ k = "minLength") \/ (op = "maxLength" /\ k = "maxLength").
Proof.
  intros op k H. unfold string_kw in H.
  destruct (seqb op "minLength") eqn:E1; [apply seqb_eq in E1; inversion H; auto|].
  destruct (seqb op "maxLength") eqn:E2; [apply seqb_eq in E2; inversion H; auto | discriminate].
Qed.

Lemma number_kw_cases : forall op k, number_kw op = Some k ->
    (op = "<" /\ k = "exclusiveMaximum") \/ (op = "<=" /\ k = "maximum") \/
    (op = ">" /\ k = "exclusiveMinimum") \/ (op = ">=" /\ k = "minimum") \/ (op = "%" /\ k = "multipleOf").
Proof.
  intros op k H. unfold number_kw in H.
  destruct (seqb op "<") eqn:E1; [apply seqb_eq in E1; inversion H; auto|].
  destruct (seqb op "<=") eqn:E2; [apply seqb_eq in E2; inversion H; auto|].
  destruct (seqb op ">") eqn:E3; [apply seqb_eq in E3; inversion H; auto|].
  destruct (seqb op ">=") eqn:E4; [apply seqb_eq in E4; inversion H; tauto|].
  destruct (seqb op "%") eqn:E5; [apply seqb_eq in E5; inversion H; tauto | discriminate].
Qed.

(* constraint_holds and kw_valid at each operator / keyword, with the comparison left folded *)
Lemma ch_unfold : forall c v arg rest b, c_args c = arg :: rest -> dyn_num arg = Some b ->
    constraint_holds c v =
    (let cmp := fun a : Z * Z => dec_compare a b in
     let op := c_op c in
     if seqb op "minLength" then
       match v with GStr s => Some (negb (match cmp (rune_count s, 0%Z) with Lt => true | _ => false end)) | _ => None end
     else if seqb op "maxLength" then
       match v with GStr s => Some (negb (match cmp (rune_count s, 0%Z) with Gt => true | _ => false end)) | _ => None end
     else
       match num_of_gval v with
       | None => None
       | Some a =>
           if seqb op ">=" then Some (match cmp a with Lt => false | _ => true end)
           else if seqb op ">" then Some (match cmp a with Gt => true | _ => false end)
           else if seqb op "<=" then Some (match cmp a with Gt => false | _ => true end)
           else if seqb op "<" then Some (match cmp a with Lt => true | _ => false end)
           else if seqb op "==" then Some (match cmp a with Eq => true | _ => false end)
           else if seqb op "!=" then Some (match cmp a with Eq => false | _ => true end)
           else None
       end).
Proof. intros c v arg rest b Ha Hn. unfold constraint_holds. rewrite Ha, Hn. reflexivity. Qed.

Lemma kwv_minLength : forall m e s, kw_valid "minLength" (JNum m e) (JStr s) =
    Some (match jcmp (rune_count s, 0%Z) (m, e) with Lt => false | _ => true end).
Proof. reflexivity. Qed.
Lemma kwv_maxLength : forall m e s, kw_valid "maxLength" (JNum m e) (JStr s) =
    Some (match jcmp (rune_count s, 0%Z) (m, e) with Gt => false | _ => true end).
Proof. reflexivity. Qed.
Lemma kwv_minimum : forall m e a b, kw_valid "minimum" (JNum m e) (JNum a b) =
    Some (match jcmp (a, b) (m, e) with Lt => false | _ => true end).
Proof. reflexivity. Qed.
Lemma kwv_maximum : forall m e a b, kw_valid "maximum" (JNum m e) (JNum a b) =
    Some (match jcmp (a, b) (m, e) with Gt => false | _ => true end).
Proof. reflexivity. Qed.
Lemma kwv_exclusiveMinimum : forall m e a b, kw_valid "exclusiveMinimum" (JNum m e) (JNum a b) =
    Some (match jcmp (a, b) (m, e) with Gt => true | _ => false end).
Proof. reflexivity. Qed.
Lemma kwv_exclusiveMaximum : forall m e a b, kw_valid "exclusiveMaximum" (JNum m e) (JNum a b) =
    Some (match jcmp (a, b) (m, e) with Lt => true | _ => false end).
Proof. reflexivity. Qed.

Ltac ev_seqb H :=
  repeat match type of H with
         | context [seqb ?a ?b] => let r := eval vm_compute in (seqb a b) in change (seqb a b) with r in H
         end;
  cbv iota in H.

Lemma constraint_kw_valid : forall pt k c v kw,
    wt_scalar pt k v = true -> scalar_kw k (c_op c) = Some kw -> constraint_holds c v = Some true ->
    kw_valid kw (first_arg c) (leaf_json v) = Some true.
Proof.
  intros pt k c v kw Hwt Hkw Hc.
  unfold first_arg.
  destruct (c_args c) as [|arg rest] eqn:Ha; [unfold constraint_holds in Hc; rewrite Ha in Hc; discriminate|].
  destruct (dyn_num arg) as [[bm be]|] eqn:Hn; [|unfold constraint_holds in Hc; rewrite Ha, Hn in Hc; discriminate].
  rewrite (ch_unfold c v arg rest (bm, be) Ha Hn) in Hc. cbv zeta in Hc.
  rewrite (dyn_num_json _ _ _ Hn).
  assert (Hstr : forall s, string_kw (c_op c) = Some kw -> v = GStr s ->
                           kw_valid kw (JNum bm be) (JStr s) = Some true).
  { intros s Hs ->. destruct (string_kw_cases _ _ Hs) as [[Ho ->]|[Ho ->]]; rewrite Ho in Hc; ev_seqb Hc;
      [rewrite kwv_minLength | rewrite kwv_maxLength]; rewrite jcmp_dec_compare;
      inversion Hc as [Hb]; f_equal;
      destruct (dec_compare (rune_count s, 0%Z) (bm, be)); simpl in *; auto; discriminate. }
  assert (Hnum : forall am ae, number_kw (c_op c) = Some kw -> num_of_gval v = Some (am, ae) -> leaf_json v = JNum am ae ->
                           kw_valid kw (JNum bm be) (leaf_json v) = Some true).
  { intros am ae Hs Hv Hj. rewrite Hj. rewrite Hv in Hc.
    destruct (number_kw_cases _ _ Hs) as [[Ho ->]|[[Ho ->]|[[Ho ->]|[[Ho ->]|[Ho ->]]]]]; rewrite Ho in Hc;
      ev_seqb Hc; try discriminate;
      [rewrite kwv_exclusiveMaximum | rewrite kwv_maximum | rewrite kwv_exclusiveMinimum | rewrite kwv_minimum];
      rewrite jcmp_dec_compare; inversion Hc as [Hb]; f_equal;
      destruct (dec_compare (am, ae) (bm, be)); simpl in *; auto; discriminate. }
  destruct k; simpl in Hkw; try discriminate; destruct v; simpl in Hwt; try discriminate;
    try (eapply Hstr; eauto; fail);
    try (apply (Hnum z 0%Z); auto; fail);
    try (apply (Hnum m e); auto; fail).
  (* a time.Time under a length constraint: Validate() does not evaluate it *)
  destruct (string_kw_cases _ _ Hkw) as [[Ho _]|[Ho _]]; rewrite Ho in Hc; ev_seqb Hc; discriminate.
Qed.

(* ---------- members of a scalar definition that are constraint keywords come from constraints ---------- *)
Definition from_constraints (k : skind) (cs : list constraint) (ms : list (string * json)) : Prop :=
  forall kw v, In (kw, v) ms -> is_constraint_kw kw = true ->
               exists c, In c cs /\ scalar_kw k (c_op c) = Some kw /\ v = first_arg c.

Lemma from_constraints_set : forall k cs ms key v,
    from_constraints k cs ms -> is_constraint_kw key = false -> from_constraints k cs (om_set ms key v).
Proof.
  intros k cs ms key v H Hk kw v' Hin Hc. apply om_set_in in Hin. destruct Hin as [[-> _]|Hin]; [congruence | eauto].
Qed.

Lemma from_constraints_add : forall k cs ms kwf,
    (forall op, kwf op = scalar_kw k op) ->
    (forall kw v, In (kw, v) ms -> is_constraint_kw kw = false) ->
    from_constraints k cs (add_constraints kwf cs ms).
Proof.
  intros k cs ms kwf Hf Hb kw v Hin Hc. apply add_constraints_in in Hin. destruct Hin as [Hin|[c [Hc1 [Hc2 Hc3]]]].
  - rewrite (Hb _ _ Hin) in Hc. discriminate.
  - exists c. rewrite <- Hf. auto.
Qed.

Lemma format_scalar_from_constraints : forall t k value cs ms,
    format_scalar t k value cs = JSScalar ms -> from_constraints k cs ms.
Proof.
  intros t k value cs ms H. unfold format_scalar in H.
  assert (Hbase : forall (T : json) kw (v : json), In (kw, v) [("type", T)] -> is_constraint_kw kw = false).
  { intros T kw v [Hx|[]]. inversion Hx; reflexivity. }
  destruct k; simpl in H; destruct (dyn_is_nil value); try discriminate;
    try (destruct (has_hint t "string_format_datetime"));
    inversion H; subst; clear H;
      repeat first [ apply from_constraints_set; [|reflexivity]
                   | apply from_constraints_add; [intros op; reflexivity | apply Hbase] ].
  all: intros kw v Hin Hc; simpl in Hin;
    repeat (destruct Hin as [Hin|Hin]; [inversion Hin; subst; discriminate|]); contradiction.
Qed.

(* ---------- leaves ---------- *)
Lemma no_violation_holds : forall cs v (path : string) c,
    flat_map (fun c => match constraint_holds c v with Some false => [path] | _ => [] end) cs = [] ->
    In c cs -> constraint_holds c v <> Some false.
Proof.
  induction cs as [|c0 r IH]; intros v path c H Hin; [contradiction|].
  simpl in H. apply app_eq_nil in H. destruct H as [H0 Hr].
  destruct Hin as [->|Hin]; [|eapply IH; eauto].
  intro E. rewrite E in H0. discriminate.
Qed.

Lemma structural_leaf_sat : forall pt k a value cs v (path : string),
    pt = TScalar a k value cs -> wt_scalar pt k v = true ->
    flat_map (fun c => match constraint_holds c v with Some false => [path] | _ => [] end) cs = [] ->
    structural_leaf pt v = true -> sat_leaf pt v = true.
Proof.
  intros pt k a value cs v path -> Hwt Hviol Hs.
  unfold structural_leaf in Hs. unfold sat_leaf.
  apply andb_true_iff in Hs. destruct Hs as [Hms Hchk].
  destruct (format_scalar (TScalar a k value cs) k value cs) as [| |ms| | | | | |] eqn:F; try discriminate.
  apply forallb_forall. intros [kw v'] Hin.
  rewrite forallb_forall in Hms. specialize (Hms _ Hin). unfold kw_holds_other in Hms. simpl in Hms.
  destruct (is_constraint_kw kw) eqn:Hck; [|exact Hms].
  destruct (format_scalar_from_constraints _ _ _ _ _ F kw v' Hin Hck) as [c [Hc [Hkw ->]]].
  simpl in Hchk. rewrite forallb_forall in Hchk. specialize (Hchk c Hc). rewrite Hkw in Hchk.
  assert (Hh : constraint_holds c v = Some true).
  { destruct (constraint_holds c v) as [[|]|] eqn:E; auto; [|discriminate].
    exfalso. exact (no_violation_holds _ _ _ _ Hviol Hc E). }
  unfold kw_holds. simpl.
  destruct (seqb kw "type"); auto.
  rewrite (constraint_kw_valid _ _ _ _ _ Hwt Hkw Hh). reflexivity.
Qed.

(* ---------- the induction over Go values ---------- *)
Section Validated.
  Variable ctx : schemas.

  Definition is_leafv (v : gval) : bool :=
    match v with GBool _ | GInt _ | GFloat _ _ | GStr _ | GTime _ _ => true | _ => false end.

  Lemma wt_leaf : forall t v, is_leafv v = true ->
      wt ctx t v =
      (if is_any t then false else
       match payload_type ctx t with
       | PUnm _ => false
       | PTy pt =>
           (negb (is_ptr t) &&
            match pt with
            | TScalar _ k _ _ => wt_scalar pt k v
            | TEnum _ vs => match enum_base vs with TScalar _ k _ _ as b => wt_scalar b k v | _ => false end
            | _ => false
            end)%bool
       end).
  Proof. intros t v H. destruct v; try discriminate; reflexivity. Qed.

  Lemma violations_leaf : forall t v path, is_leafv v = true ->
      violations ctx path t v =
      (if is_any t then [] else
       match payload_type ctx t with
       | PUnm _ => []
       | PTy pt =>
           match pt with
           | TScalar _ _ _ cs => flat_map (fun c => match constraint_holds c v with Some false => [path] | _ => [] end) cs
           | TEnum _ _ => match t with
                          | TConstRef _ _ _ value => if const_ref_matches value v then [] else [path]
                          | _ => []
                          end
           | _ => []
           end
       end).
  Proof. intros t v path H. destruct v; try discriminate; reflexivity. Qed.

  Lemma structural_leafv : forall t v, is_leafv v = true ->
      structural ctx t v = match t with TConstRef _ _ _ _ => true | _ => structural_leaf (payload_or_self ctx t) v end.
  Proof. intros t v H. destruct v; try discriminate; reflexivity. Qed.

  Lemma sat_leafv : forall t v, is_leafv v = true ->
      sat ctx t v = match t with TConstRef _ _ _ _ => true | _ => sat_leaf (payload_or_self ctx t) v end.
  Proof. intros t v H. destruct v; try discriminate; reflexivity. Qed.

  Lemma leaf_validated : forall t v (path : string), is_leafv v = true ->
      wt ctx t v = true -> violations ctx path t v = [] -> structural ctx t v = true -> sat ctx t v = true.
  Proof.
    intros t v path L Hwt Hviol Hs.
    rewrite (wt_leaf t v L) in Hwt. rewrite (violations_leaf t v path L) in Hviol.
    rewrite (structural_leafv t v L) in Hs. rewrite (sat_leafv t v L).
    destruct (is_any t); [discriminate|].
    destruct (payload_type ctx t) as [pt|] eqn:P; [|discriminate].
    rewrite (payload_or_self_eq ctx _ _ P) in *.
    apply andb_true_iff in Hwt. destruct Hwt as [_ Hwt].
    destruct (is_constref t) eqn:CR.
    - destruct t; try discriminate. reflexivity.
    - assert (Hs' : structural_leaf pt v = true) by (destruct t; try discriminate; exact Hs).
      assert (G : sat_leaf pt v = true).
      { destruct pt as [| |a vs| | | | |a k value cs| | |]; try discriminate.
        - exact Hs'.
        - eapply structural_leaf_sat; eauto. }
      destruct t; try discriminate; exact G.
  Qed.

  Theorem validated_sat : forall v t path,
      wt ctx t v = true -> violations ctx path t v = [] -> structural ctx t v = true -> sat ctx t v = true.
  Proof.
    induction v using gval_ind'; intros t path Hwt Hviol Hs.
    - simpl in Hs. discriminate.
    - eapply (leaf_validated t (GBool b)); eauto.
    - eapply (leaf_validated t (GInt z)); eauto.
    - eapply (leaf_validated t (GFloat m e)); eauto.
    - eapply (leaf_validated t (GStr s)); eauto.
    - eapply (leaf_validated t (GTime s l)); eauto.
    - (* GPtr *)
      simpl in Hwt, Hviol, Hs |- *.
      destruct (is_any t); [discriminate|].
      destruct (payload_type ctx t) as [pt|] eqn:P; [|discriminate].
      apply andb_true_iff in Hwt. destruct Hwt as [_ Hwt].
      eapply IHv; eauto. destruct v; try discriminate; auto.
    - (* GSlice *)
      simpl in Hwt, Hviol, Hs |- *.
      destruct (is_any t); [discriminate|].
      destruct (payload_type ctx t) as [pt|] eqn:P; [|discriminate].
      rewrite (payload_or_self_eq ctx _ _ P) in *.
      apply andb_true_iff in Hwt. destruct Hwt as [_ Hwt].
      destruct pt; try discriminate.
      (* element by element, whatever the index in the path *)
      revert Hwt Hs Hviol. generalize 0%nat.
      induction l as [|x r IHl]; intros i Hwt Hs Hviol; simpl; auto.
      inversion H as [|? ? Hx Hr]; subst.
      simpl in Hwt, Hs, Hviol.
      apply andb_true_iff in Hwt. destruct Hwt as [Hw1 Hw2].
      apply andb_true_iff in Hs. destruct Hs as [Hs1 Hs2].
      apply app_eq_nil in Hviol. destruct Hviol as [Hv1 Hv2].
      apply andb_true_iff. split; [eapply Hx; eauto | eapply (IHl Hr (S i)); eauto].
    - (* GMap *)
      simpl in Hwt, Hviol, Hs |- *.
      destruct (is_any t); [discriminate|].
      destruct (payload_type ctx t) as [pt|] eqn:P; [|discriminate].
      rewrite (payload_or_self_eq ctx _ _ P) in *.
      apply andb_true_iff in Hwt. destruct Hwt as [_ Hwt].
      destruct pt; try discriminate.
      apply andb_true_iff in Hwt. destruct Hwt as [_ Hwt].
      revert Hwt Hs Hviol.
      induction l as [|x r IHl]; intros Hwt Hs Hviol; simpl; auto.
      inversion H as [|? ? Hx Hr]; subst.
      simpl in Hwt, Hs, Hviol.
      apply andb_true_iff in Hwt. destruct Hwt as [Hw1 Hw2].
      apply andb_true_iff in Hs. destruct Hs as [Hs1 Hs2].
      apply app_eq_nil in Hviol. destruct Hviol as [Hv1 Hv2].
      apply andb_true_iff. split; [eapply Hx; eauto | eapply (IHl Hr); eauto].
    - (* GStruct *)
      simpl in Hwt, Hviol, Hs |- *.
      destruct (is_any t); [discriminate|].
      destruct (payload_type ctx t) as [pt|] eqn:P; [|discriminate].
      rewrite (payload_or_self_eq ctx _ _ P) in *.
      apply andb_true_iff in Hwt. destruct Hwt as [_ Hwt].
      destruct pt as [| | | |a dh fs| | | | | |]; try discriminate.
      destruct (union_scalars (TStruct a dh fs)); [discriminate|].
      destruct (union_refs (TStruct a dh fs)); [discriminate|].
      apply andb_true_iff in Hwt. destruct Hwt as [_ Hwt].
      apply andb_true_iff in Hs. destruct Hs as [Hnd Hs].
      apply andb_true_iff. split; [exact Hnd|].
      clear Hnd P. revert l H Hwt Hs Hviol.
      induction fs as [|f fr IHf]; intros fvs HF Hwt Hs Hviol.
      + destruct fvs; auto.
      + destruct fvs as [|[n fv] vr]; [discriminate|].
        inversion HF as [|? ? HF1 HF2]; subst.
        apply andb_true_iff in Hwt. destruct Hwt as [Hw Hw2].
        apply andb_true_iff in Hw. destruct Hw as [_ Hw1].
        apply andb_true_iff in Hs. destruct Hs as [Hs1 Hs2].
        apply app_eq_nil in Hviol. destruct Hviol as [Hv1 Hv2].
        apply andb_true_iff. split; [|eapply IHf; eauto].
        revert Hs1. destruct (negb (f_required f) && is_empty_value fv)%bool; intros Hs1; [reflexivity|].
        eapply HF1; eauto.
    - (* GAny *) simpl in Hs |- *. exact Hs.
  Qed.
End Validated.

(* ---------- the statement ---------- *)
Theorem validated_values_validate_core : forall ctx defs, faithful ctx defs ->
    forall v t path, wt ctx t v = true -> violations ctx path t v = [] -> structural ctx t v = true ->
                     jv defs (emit_type t) (encode ctx t v).
Proof.
  intros ctx defs Hf v t path Hwt Hviol Hs.
  apply encode_validates; auto. eapply validated_sat; eauto.
Qed.

(* in terms of the generated Validate() itself (GoSemC08: Validate = violations on supported contexts in which
   nothing constrained sits behind a non-struct object) *)
Theorem validated_values_validate_obj : forall ctx defs p n v,
    faithful ctx defs ->
    ctx_supported ctx = true -> struct_object ctx p n = true -> wt ctx (TRef attrs0 p n) v = true ->
    ctx_alias_free ctx = true -> GoSemSpec08F.ctx_named ctx = true -> GoSemSpec08F.ctx_cdirect ctx = true ->
    validate_object ctx p n v = [] ->
    structural ctx (TRef attrs0 p n) v = true ->
    jv defs (JSRef p n) (encode_object ctx p n v).
Proof.
  intros ctx defs p n v Hf Hsup Hso Hwt Haf Hn Hcd Hval Hs.
  rewrite (validate_iff_partial_weak ctx p n v (conj Hsup (conj Hso Hwt)) Haf Hn Hcd) in Hval.
  exact (validated_values_validate_core ctx defs Hf v (TRef attrs0 p n) "" Hwt Hval Hs).
Qed.

(* the executable validator says so too: every fuel that lets it answer answers `true` *)
Corollary validated_values_js_valid : forall ctx defs p n v fuel b,
    faithful ctx defs ->
    ctx_supported ctx = true -> struct_object ctx p n = true -> wt ctx (TRef attrs0 p n) v = true ->
    ctx_alias_free ctx = true -> GoSemSpec08F.ctx_named ctx = true -> GoSemSpec08F.ctx_cdirect ctx = true ->
    validate_object ctx p n v = [] -> structural ctx (TRef attrs0 p n) v = true ->
    js_valid defs fuel (JSRef p n) (encode_object ctx p n v) = Some b -> b = true.
Proof.
  intros ctx defs p n v fuel b Hf Hsup Hso Hwt Haf Hn Hcd Hval Hs Hj.
  destruct b; auto. exfalso.
  exact (js_valid_complete _ _ _ _ Hj (validated_values_validate_obj ctx defs p n v Hf Hsup Hso Hwt Haf Hn Hcd Hval Hs)).
Qed.

(* ---------- OpenAPI: the same definitions under components.schemas, another reference prefix ---------- *)
Lemma openapi_same_definitions : forall s d,
    find_member "components" (match render_openapi s d with JObj ms => ms | _ => [] end) =
    Some (JObj [("schemas", render_defs openapi_prefix (jd_defs d))]) /\
    find_member "definitions" (match render_jsonschema d with JObj ms => ms | _ => [] end) =
    Some (render_defs jsonschema_prefix (jd_defs d)).
Proof.
  intros s d. split; [reflexivity|].
  unfold render_jsonschema. destruct (jd_entry d) as [[p n]|]; reflexivity.
Qed.

(* ---------- non-vacuity: the hypotheses hold of a concrete value; `structural` says nothing about bounds ---------- *)
Lemma validated_nonvacuous :
  ctx_supported v_ex_ctx = true /\ struct_object v_ex_ctx "p" "Root" = true /\
  ctx_alias_free v_ex_ctx = true /\ GoSemSpec08F.ctx_named v_ex_ctx = true /\ GoSemSpec08F.ctx_cdirect v_ex_ctx = true /\
  wt v_ex_ctx (TRef attrs0 "p" "Root") v_ex_val = true /\
  validate_object v_ex_ctx "p" "Root" v_ex_val = [] /\ structural v_ex_ctx (TRef attrs0 "p" "Root") v_ex_val = true /\
  js_valid (w_defs v_ex_ctx) 20 (JSRef "p" "Root") (encode_object v_ex_ctx "p" "Root" v_ex_val) = Some true /\
  (* the same structural facts, two violated bounds: Validate() reports them and the schema rejects *)
  structural v_ex_ctx (TRef attrs0 "p" "Root") v_bad_val = true /\
  validate_object v_ex_ctx "p" "Root" v_bad_val = ["id"; "in.n"] /\
  js_valid (w_defs v_ex_ctx) 20 (JSRef "p" "Root") (encode_object v_ex_ctx "p" "Root" v_bad_val) = Some false.
Proof. repeat split; vm_compute; reflexivity. Qed.
