(* C03: the general lemmas that discharge whole classes of `range`-over-map sites.
   An iteration sequence is any Permutation of the map's entries; every lemma below says that
   the loop's result is the same for all of them. *)
From Coq Require Import List String Bool Arith Lia Permutation Sorted NArith.
From Cog Require Import Model.Perm.
Import ListNotations.
Local Open Scope list_scope.

(* ------------------------------------------------------------------ Commutative *)
Section FoldComm.
  Variables (A X : Type) (f : A -> X -> A).

  (* a fold whose step commutes on the elements that actually occur is order-free *)
  Lemma fold_left_comm_perm_in : forall l l', Permutation l l' ->
    (forall a x y, In x l -> In y l -> f (f a x) y = f (f a y) x) ->
    forall a, fold_left f l a = fold_left f l' a.
  Proof.
    induction 1; intros Hc a; simpl; auto.
    - apply IHPermutation. intros; apply Hc; simpl; auto.
    - rewrite (Hc a y x); simpl; auto.
    - rewrite IHPermutation1 by assumption. apply IHPermutation2.
      intros b u v Hu Hv. apply Hc; (eapply Permutation_in; [apply Permutation_sym; exact H|assumption]).
  Qed.

  Lemma fold_left_comm_perm :
    (forall a x y, f (f a x) y = f (f a y) x) ->
    forall l l', Permutation l l' -> forall a, fold_left f l a = fold_left f l' a.
  Proof. intros Hc l l' Hp a. apply fold_left_comm_perm_in; auto. Qed.
End FoldComm.

(* boolean any / all accumulation *)
Lemma existsb_perm : forall A (p : A -> bool) l l', Permutation l l' -> existsb p l = existsb p l'.
Proof.
  induction 1; simpl; auto.
  - now rewrite IHPermutation.
  - destruct (p x), (p y); reflexivity.
  - congruence.
Qed.
Lemma forallb_perm : forall A (p : A -> bool) l l', Permutation l l' -> forallb p l = forallb p l'.
Proof.
  induction 1; simpl; auto.
  - now rewrite IHPermutation.
  - destruct (p x), (p y); reflexivity.
  - congruence.
Qed.
(* `acc = acc || p(x)` written as a fold *)
Lemma bool_or_fold_perm : forall A (p : A -> bool) l l' b, Permutation l l' ->
  fold_left (fun acc x => acc || p x) l b = fold_left (fun acc x => acc || p x) l' b.
Proof.
  intros. apply fold_left_comm_perm; auto. intros a x y. destruct a, (p x), (p y); reflexivity.
Qed.
Lemma bool_and_fold_perm : forall A (p : A -> bool) l l' b, Permutation l l' ->
  fold_left (fun acc x => acc && p x) l b = fold_left (fun acc x => acc && p x) l' b.
Proof.
  intros. apply fold_left_comm_perm; auto. intros a x y. destruct a, (p x), (p y); reflexivity.
Qed.
(* counting *)
Lemma count_fold_perm : forall A (w : A -> nat) l l' n, Permutation l l' ->
  fold_left (fun acc x => acc + w x) l n = fold_left (fun acc x => acc + w x) l' n.
Proof. intros. apply fold_left_comm_perm; auto. intros; lia. Qed.
(* set insertion: membership in the collected set *)
Lemma set_insert_perm : forall A (l l' : list A), Permutation l l' -> forall x, In x l <-> In x l'.
Proof. intros; split; apply Permutation_in; auto using Permutation_sym. Qed.

(* ------------------------------------------------------------------ Combined *)
Lemma fold_pair_split : forall A B X (f : A -> X -> A) (g : B -> X -> B) seq a b,
  fold_pair f g seq a b = (fold_left f seq a, fold_left g seq b).
Proof. unfold fold_pair. induction seq; simpl; intros; auto. Qed.

Lemma fold_pair_perm : forall A B X (f : A -> X -> A) (g : B -> X -> B),
  (forall l l', Permutation l l' -> forall a, fold_left f l a = fold_left f l' a) ->
  (forall l l', Permutation l l' -> forall b, fold_left g l b = fold_left g l' b) ->
  forall l l' a b, Permutation l l' -> fold_pair f g l a b = fold_pair f g l' a b.
Proof. intros. rewrite !fold_pair_split. f_equal; auto. Qed.

(* ------------------------------------------------------------------ CollectThenSort *)
Section Sort.
  Variables (A : Type) (leb : A -> A -> bool).
  Hypothesis leb_total : forall a b, leb a b = true \/ leb b a = true.
  Hypothesis leb_trans : forall a b c, leb a b = true -> leb b c = true -> leb a c = true.
  Let le a b := leb a b = true.

  Lemma insert_perm : forall x l, Permutation (insert leb x l) (x :: l).
  Proof.
    induction l; simpl; auto. destruct (leb x a); auto.
    eapply perm_trans; [apply perm_skip; apply IHl|apply perm_swap].
  Qed.
  Lemma isort_perm : forall l, Permutation (isort leb l) l.
  Proof. induction l; simpl; auto. eapply perm_trans; [apply insert_perm|auto]. Qed.

  Lemma insert_sorted : forall x l, StronglySorted le l -> StronglySorted le (insert leb x l).
  Proof.
    induction l; simpl; intros Hs.
    - constructor; auto.
    - inversion Hs; subst. destruct (leb x a) eqn:E.
      + constructor; auto. constructor; auto.
        eapply Forall_impl; [|exact H2]. intros b Hb. unfold le in *. eauto.
      + constructor; auto.
        assert (Hax : le a x). { destruct (leb_total x a); [congruence|assumption]. }
        eapply Permutation_Forall; [apply Permutation_sym; apply insert_perm|]. constructor; auto.
  Qed.
  Lemma isort_sorted : forall l, StronglySorted le (isort leb l).
  Proof. induction l; simpl; [constructor|apply insert_sorted; auto]. Qed.

  (* two sorted arrangements of the same elements are equal, provided the order is
     antisymmetric ON THOSE ELEMENTS (e.g. sort by a key that is distinct per element) *)
  Lemma sorted_perm_eq : forall l l', StronglySorted le l -> StronglySorted le l' -> Permutation l l' ->
    (forall a b, In a l -> In b l -> le a b -> le b a -> a = b) -> l = l'.
  Proof.
    induction l as [|a l IH]; intros l' Hs Hs' Hp Hanti.
    - apply Permutation_nil in Hp. auto.
    - destruct l' as [|b l2]; [apply Permutation_sym, Permutation_nil in Hp; discriminate|].
      inversion Hs; subst. inversion Hs'; subst.
      assert (a = b).
      { assert (Ha : In a (b :: l2)) by (eapply Permutation_in; [exact Hp|simpl; auto]).
        assert (Hb : In b (a :: l)) by (eapply Permutation_in; [apply Permutation_sym; exact Hp|simpl; auto]).
        destruct Ha as [Ha|Ha]; [auto|]. destruct Hb as [Hb|Hb]; [auto|].
        rewrite Forall_forall in H2, H4.
        apply Hanti; simpl; auto. }
      subst b. f_equal. apply IH; auto.
      + eapply Permutation_cons_inv; eauto.
      + intros; apply Hanti; simpl; auto.
  Qed.

  Theorem isort_perm_invariant_in : forall l l', Permutation l l' ->
    (forall a b, In a l -> In b l -> le a b -> le b a -> a = b) -> isort leb l = isort leb l'.
  Proof.
    intros l l' Hp Hanti. apply sorted_perm_eq; try apply isort_sorted.
    - eapply perm_trans; [apply isort_perm|]. eapply perm_trans; [exact Hp|]. apply Permutation_sym, isort_perm.
    - intros a b Ha Hb. apply Hanti; eapply Permutation_in; try apply isort_perm; auto.
  Qed.

  (* total order: sorting erases the permutation *)
  Theorem isort_perm_invariant :
    (forall a b, le a b -> le b a -> a = b) ->
    forall l l', Permutation l l' -> isort leb l = isort leb l'.
  Proof. intros Hanti l l' Hp. apply isort_perm_invariant_in; auto. Qed.
End Sort.

(* the order on strings used by sort.Strings is total, transitive, antisymmetric *)
Lemma ascii_compare_lt_trans : forall a b c, Ascii.compare a b = Lt -> Ascii.compare b c = Lt -> Ascii.compare a c = Lt.
Proof. unfold Ascii.compare. intros a b c. rewrite !N.compare_lt_iff. apply N.lt_trans. Qed.
Lemma string_compare_lt_trans : forall a b c, String.compare a b = Lt -> String.compare b c = Lt -> String.compare a c = Lt.
Proof.
  induction a as [|x a IH]; destruct b as [|y b]; destruct c as [|z c]; simpl; try congruence.
  destruct (Ascii.compare x y) eqn:E1; try congruence; destruct (Ascii.compare y z) eqn:E2; try congruence; intros H1 H2.
  - apply Ascii.compare_eq_iff in E1, E2. subst. rewrite (proj2 (N.compare_eq_iff _ _) eq_refl) || idtac.
    assert (Ascii.compare z z = Eq) as -> by (unfold Ascii.compare; apply N.compare_refl). eauto.
  - apply Ascii.compare_eq_iff in E1. subst. rewrite E2. reflexivity.
  - apply Ascii.compare_eq_iff in E2. subst. rewrite E1. reflexivity.
  - rewrite (ascii_compare_lt_trans _ _ _ E1 E2). reflexivity.
Qed.
Lemma string_compare_refl : forall a, String.compare a a = Eq.
Proof. induction a; simpl; auto. assert (Ascii.compare a a = Eq) as -> by (unfold Ascii.compare; apply N.compare_refl). auto. Qed.
Lemma sleb_total : forall a b, sleb a b = true \/ sleb b a = true.
Proof. exact String.leb_total. Qed.
Lemma sleb_antisym : forall a b, sleb a b = true -> sleb b a = true -> a = b.
Proof. exact String.leb_antisym. Qed.
Lemma sleb_trans : forall a b c, sleb a b = true -> sleb b c = true -> sleb a c = true.
Proof.
  unfold sleb, String.leb. intros a b c.
  destruct (String.compare a b) eqn:E1; try discriminate; destruct (String.compare b c) eqn:E2; try discriminate; intros _ _.
  - apply String.compare_eq_iff in E1, E2. subst. now rewrite string_compare_refl.
  - apply String.compare_eq_iff in E1. subst. now rewrite E2.
  - apply String.compare_eq_iff in E2. subst. now rewrite E1.
  - now rewrite (string_compare_lt_trans _ _ _ E1 E2).
Qed.

(* sort.Strings(keys) after collecting the keys of a map *)
Theorem sort_strings_perm_invariant : forall l l', Permutation l l' -> isort sleb l = isort sleb l'.
Proof. apply isort_perm_invariant; [exact sleb_total|exact sleb_trans|exact sleb_antisym]. Qed.

(* sort.Slice(xs, by key) where the key is distinct per collected element (the map key) *)
Theorem sort_by_key_perm_invariant : forall A (key : A -> string) l l',
  NoDup (map key l) -> Permutation l l' -> isort (leb_by key) l = isort (leb_by key) l'.
Proof.
  intros A key l l' Hnd Hp. apply isort_perm_invariant_in; auto.
  - intros a b. apply sleb_total.
  - intros a b c. apply sleb_trans.
  - intros a b Ha Hb H1 H2. unfold leb_by in *. pose proof (sleb_antisym _ _ H1 H2) as Hk.
    clear - Hnd Ha Hb Hk. induction l as [|x l IH]; simpl in *; [contradiction|].
    inversion Hnd; subst. destruct Ha as [->|Ha], Hb as [->|Hb]; auto.
    + exfalso. apply H1. rewrite Hk. now apply in_map.
    + exfalso. apply H1. rewrite <- Hk. now apply in_map.
Qed.

(* ------------------------------------------------------------------ KeyedWrite *)
Lemma find_none_notin : forall A (key : A -> string) x l, ~ In x (map key l) ->
  find (fun a => String.eqb (key a) x) l = None.
Proof.
  induction l; simpl; intros; auto. destruct (String.eqb (key a) x) eqn:E.
  - apply String.eqb_eq in E. exfalso. auto.
  - apply IHl. tauto.
Qed.

Lemma write_all_spec : forall A V (key : A -> string) (val : A -> option V) l dst x,
  NoDup (map key l) ->
  write_all key val l dst x =
  match find (fun a => String.eqb (key a) x) l with Some a => val a | None => dst x end.
Proof.
  unfold write_all. induction l as [|a l IH]; simpl; intros dst x Hnd; auto.
  inversion Hnd; subst. rewrite IH by assumption.
  destruct (String.eqb (key a) x) eqn:E.
  - apply String.eqb_eq in E. subst. rewrite find_none_notin by assumption.
    unfold upd. now rewrite String.eqb_refl.
  - destruct (find _ l); auto. unfold upd.
    rewrite String.eqb_sym, E. reflexivity.
Qed.

Lemma find_key_perm : forall A (key : A -> string) x l l', NoDup (map key l) -> Permutation l l' ->
  find (fun a => String.eqb (key a) x) l = find (fun a => String.eqb (key a) x) l'.
Proof.
  intros A key x l l' Hnd Hp. induction Hp; simpl; auto.
  - inversion Hnd; subst. rewrite IHHp; auto.
  - destruct (String.eqb (key y) x) eqn:E1, (String.eqb (key x0) x) eqn:E2; auto.
    apply String.eqb_eq in E1, E2. inversion Hnd; subst. exfalso. apply H1. simpl. left. congruence.
  - rewrite IHHp1 by assumption. apply IHHp2.
    eapply Permutation_NoDup; [apply Permutation_map; exact Hp1|assumption].
Qed.

(* writes (and deletes) keyed by distinct keys commute: the resulting map is the same function *)
Theorem keyed_writes_perm : forall A V (key : A -> string) (val : A -> option V) l l' dst,
  NoDup (map key l) -> Permutation l l' ->
  forall x, write_all key val l dst x = write_all key val l' dst x.
Proof.
  intros. rewrite !write_all_spec; auto.
  - now rewrite (find_key_perm _ key x l l').
  - eapply Permutation_NoDup; [apply Permutation_map; eassumption|assumption].
Qed.

(* removals from an ordered map commute and keep the relative order of what stays *)
Lemma oremove_comm : forall V (l : list (string * V)) a b, oremove a (oremove b l) = oremove b (oremove a l).
Proof.
  unfold oremove. induction l as [|[k v] l IH]; simpl; intros; auto.
  destruct (String.eqb k a) eqn:Ea, (String.eqb k b) eqn:Eb; simpl; rewrite ?Ea, ?Eb; simpl;
    try (f_equal; apply IH); apply IH.
Qed.
Theorem oremove_all_perm : forall V ks ks' (l : list (string * V)), Permutation ks ks' ->
  oremove_all ks l = oremove_all ks' l.
Proof. intros. unfold oremove_all. apply fold_left_comm_perm; auto. intros; apply oremove_comm. Qed.

(* ------------------------------------------------------------------ first match *)
Theorem first_match_perm_unique : forall A (p : A -> bool) l l', Permutation l l' ->
  (forall a b, In a l -> In b l -> p a = true -> p b = true -> a = b) ->
  first_match p l = first_match p l'.
Proof.
  unfold first_match. intros A p l l' Hp. induction Hp; simpl; intros Hu; auto.
  - destruct (p x); auto; try (apply IHHp; intros; apply Hu; simpl; auto).
  - destruct (p y) eqn:E1, (p x) eqn:E2; auto; try (f_equal; apply Hu; simpl; auto).
  - rewrite IHHp1 by assumption. apply IHHp2.
    intros a b Ha Hb. apply Hu; (eapply Permutation_in; [apply Permutation_sym; exact Hp1|assumption]).
Qed.

(* ------------------------------------------------------------------ append per entry *)
Lemma append_each_perm : forall A B (g : A -> list B) l l', Permutation l l' ->
  Permutation (append_each g l) (append_each g l').
Proof.
  unfold append_each. induction 1; simpl; auto.
  - now apply Permutation_app_head.
  - rewrite !app_assoc. apply Permutation_app_tail. apply Permutation_app_comm.
  - eapply perm_trans; eauto.
Qed.

(* files emitted per entry, merged into a path-sorted set with distinct paths *)
Theorem emit_files_perm_invariant : forall A (g : A -> list file) l l',
  NoDup (map fst (append_each g l)) -> Permutation l l' -> emit_files g l = emit_files g l'.
Proof.
  intros. unfold emit_files, path_sort. apply sort_by_key_perm_invariant; auto. now apply append_each_perm.
Qed.

(* ------------------------------------------------------------------ sorting by a structured key *)
Lemma nodup_key_inj : forall A K (key : A -> K) l a b, NoDup (map key l) -> In a l -> In b l -> key a = key b -> a = b.
Proof.
  induction l as [|x l IH]; simpl; intros a b Hnd Ha Hb Hk; [contradiction|].
  inversion Hnd; subst. destruct Ha as [->|Ha], Hb as [->|Hb]; auto.
  - exfalso. apply H1. rewrite Hk. now apply in_map.
  - exfalso. apply H1. rewrite <- Hk. now apply in_map.
Qed.

Theorem sort_by_generic_key_perm_invariant : forall A K (key : A -> K) (kleb : K -> K -> bool),
  (forall a b, kleb a b = true \/ kleb b a = true) ->
  (forall a b c, kleb a b = true -> kleb b c = true -> kleb a c = true) ->
  (forall a b, kleb a b = true -> kleb b a = true -> a = b) ->
  forall l l', NoDup (map key l) -> Permutation l l' ->
  isort (fun a b => kleb (key a) (key b)) l = isort (fun a b => kleb (key a) (key b)) l'.
Proof.
  intros A K key kleb Ht Htr Ha l l' Hnd Hp. apply isort_perm_invariant_in; auto.
  - intros a b c. apply Htr.
  - intros a b Hia Hib H1 H2. eapply nodup_key_inj; eauto.
Qed.

(* the lexicographic order on (package, object, field) *)
Lemma cmp3_antisym : forall a b, cmp3 b a = CompOpp (cmp3 a b).
Proof.
  intros [[p1 o1] f1] [[p2 o2] f2]. simpl.
  rewrite (String.compare_antisym p2 p1), (String.compare_antisym o2 o1), (String.compare_antisym f2 f1).
  destruct (String.compare p1 p2); simpl; auto. destruct (String.compare o1 o2); simpl; auto.
Qed.
Lemma cmp3_eq : forall a b, cmp3 a b = Eq -> a = b.
Proof.
  intros [[p1 o1] f1] [[p2 o2] f2]. simpl.
  destruct (String.compare p1 p2) eqn:E1; try discriminate.
  destruct (String.compare o1 o2) eqn:E2; try discriminate. intros E3.
  apply String.compare_eq_iff in E1, E2, E3. congruence.
Qed.
Lemma cmp3_refl : forall a, cmp3 a a = Eq.
Proof. intros [[p o] f]. simpl. now rewrite !string_compare_refl. Qed.
Lemma cmp3_lt_trans : forall a b c, cmp3 a b = Lt -> cmp3 b c = Lt -> cmp3 a c = Lt.
Proof.
  intros [[p1 o1] f1] [[p2 o2] f2] [[p3 o3] f3]. simpl.
  destruct (String.compare p1 p2) eqn:A1; try discriminate; destruct (String.compare p2 p3) eqn:A2; try discriminate;
    try (apply String.compare_eq_iff in A1; subst p2); try (apply String.compare_eq_iff in A2; subst p3);
    rewrite ?A1, ?A2, ?string_compare_refl, ?(string_compare_lt_trans _ _ _ A1 A2); auto.
  destruct (String.compare o1 o2) eqn:B1; try discriminate; destruct (String.compare o2 o3) eqn:B2; try discriminate;
    try (apply String.compare_eq_iff in B1; subst o2); try (apply String.compare_eq_iff in B2; subst o3);
    rewrite ?B1, ?B2, ?string_compare_refl, ?(string_compare_lt_trans _ _ _ B1 B2); auto.
  apply string_compare_lt_trans.
Qed.
Lemma leb3_total : forall a b, leb3 a b = true \/ leb3 b a = true.
Proof. intros a b. unfold leb3. rewrite (cmp3_antisym a b). destruct (cmp3 a b); simpl; auto. Qed.
Lemma leb3_antisym : forall a b, leb3 a b = true -> leb3 b a = true -> a = b.
Proof.
  intros a b. unfold leb3. rewrite (cmp3_antisym a b). destruct (cmp3 a b) eqn:E; simpl; try discriminate.
  intros _ _. now apply cmp3_eq.
Qed.
Lemma leb3_trans : forall a b c, leb3 a b = true -> leb3 b c = true -> leb3 a c = true.
Proof.
  intros a b c. unfold leb3.
  destruct (cmp3 a b) eqn:E1; try discriminate; destruct (cmp3 b c) eqn:E2; try discriminate; intros _ _.
  - apply cmp3_eq in E1, E2. subst. now rewrite cmp3_refl.
  - apply cmp3_eq in E1. subst. now rewrite E2.
  - apply cmp3_eq in E2. subst. now rewrite E1.
  - now rewrite (cmp3_lt_trans _ _ _ E1 E2).
Qed.
