(* C13 — proofs about the model of the generated Equals (coq/Model/GoSemEquals.v). *)
From Coq Require Import List String ZArith Bool Ascii Arith Lia.
From Cog Require Import Model.GoSem.
Import ListNotations.
Local Open Scope list_scope.
Local Open Scope string_scope.

(* ====================================================================== *)
(* Part 1: concrete witnesses                                             *)
(* ====================================================================== *)
Module W.
  Definition meta0 : smeta := {| m_kind := "" ; m_variant := "" ; m_identifier := "" |}.
  Definition tstr : ty := TScalar attrs0 KString DNil [].
  Definition ctx1 : schemas :=
    [mkSchema "p" meta0 "" ty_zero
       [("Meta", mkObject "Meta" [] (TMap attrs0 tstr tstr) "p" "Meta");
        ("Root", mkObject "Root" [] (TStruct attrs0 [] [mkField "meta" [] (TRef attrs0 "p" "Meta") true]) "p" "Root")]].
  Definition troot : ty := TRef attrs0 "p" "Root".
  Definition mk (l : list (string * gval)) : gval := GStruct [("meta", GMap l)].

  Definition tdt : ty :=
    TScalar {| nullable := false; dflt := DNil; hints := [("string_format_datetime", DBool true)] |} KString DNil [].
  Definition ctx2 : schemas :=
    [mkSchema "p" meta0 "" ty_zero
       [("Root", mkObject "Root" [] (TStruct attrs0 [] [mkField "when" [] tdt true]) "p" "Root")]].

  (* non-vacuity: struct with a map, a slice and a pointer *)
  Definition ctx3 : schemas :=
    [mkSchema "p" meta0 "" ty_zero
       [("Meta", mkObject "Meta" [] (TMap attrs0 tstr tstr) "p" "Meta");
        ("Root", mkObject "Root" []
           (TStruct attrs0 []
              [mkField "meta" [] (TRef attrs0 "p" "Meta") true;
               mkField "tags" [] (TArray attrs0 tstr) true;
               mkField "opt" [] (TScalar {| nullable := true; dflt := DNil; hints := [] |} KInt64 DNil []) false])
           "p" "Root")]].
  Definition v3 : gval :=
    GStruct [("meta", GMap [("a", GStr "x"); ("b", GStr "")]);
             ("tags", GSlice [GStr "t"; GStr "u"]);
             ("opt", GPtr (GInt 7))].
End W.

Lemma equals_sym_refuted :
  ~ (forall ctx t a b,
        (ctx_supported ctx = true /\ ty_supported ctx t = true /\ wt ctx t a = true) ->
        (ctx_supported ctx = true /\ ty_supported ctx t = true /\ wt ctx t b = true) ->
        eqc ctx t (t_nullable t) a b = eqc ctx t (t_nullable t) b a).
Proof.
  intro H.
  specialize (H W.ctx1 W.troot (W.mk [("a", GStr "x")]) (W.mk [("b", GStr "")])).
  assert (A : forall v, v = W.mk [("a", GStr "x")] \/ v = W.mk [("b", GStr "")] ->
              ctx_supported W.ctx1 = true /\ ty_supported W.ctx1 W.troot = true /\ wt W.ctx1 W.troot v = true).
  { intros v [-> | ->]; repeat split; vm_compute; reflexivity. }
  specialize (H (A _ (or_introl eq_refl)) (A _ (or_intror eq_refl))).
  vm_compute in H. discriminate.
Qed.

Lemma equals_trans_refuted :
  ~ (forall ctx t a b c,
        (ctx_supported ctx = true /\ ty_supported ctx t = true /\ wt ctx t a = true) ->
        (ctx_supported ctx = true /\ ty_supported ctx t = true /\ wt ctx t b = true) ->
        (ctx_supported ctx = true /\ ty_supported ctx t = true /\ wt ctx t c = true) ->
        eqc ctx t (t_nullable t) a b = true -> eqc ctx t (t_nullable t) b c = true ->
        eqc ctx t (t_nullable t) a c = true).
Proof.
  intro H.
  specialize (H W.ctx1 W.troot (W.mk [("a", GStr "")]) (W.mk [("b", GStr "")]) (W.mk [("a", GStr "x")])).
  assert (X : eqc W.ctx1 W.troot (t_nullable W.troot) (W.mk [("a", GStr "")]) (W.mk [("a", GStr "x")]) = true).
  { apply H; try (repeat split; vm_compute; reflexivity). }
  vm_compute in X. discriminate.
Qed.

Lemma equals_implies_encode_eq_mod_empty_refuted :
  ~ (forall ctx t a b,
        (ctx_supported ctx = true /\ ty_supported ctx t = true /\ wt ctx t a = true) ->
        (ctx_supported ctx = true /\ ty_supported ctx t = true /\ wt ctx t b = true) ->
        eqc ctx t (t_nullable t) a b = true ->
        json_eq_mod_empty (encode ctx t a) (encode ctx t b) = true).
Proof.
  intro H.
  specialize (H W.ctx1 W.troot (W.mk [("a", GStr "")]) (W.mk [("b", GStr "")])).
  assert (X : json_eq_mod_empty (encode W.ctx1 W.troot (W.mk [("a", GStr "")]))
                                (encode W.ctx1 W.troot (W.mk [("b", GStr "")])) = true).
  { apply H; try (repeat split; vm_compute; reflexivity). }
  vm_compute in X. discriminate.
Qed.

Lemma single_leaf_difference_detected_refuted :
  ~ (forall ctx t a b,
        (ctx_supported ctx = true /\ ty_supported ctx t = true /\ wt ctx t a = true) ->
        (ctx_supported ctx = true /\ ty_supported ctx t = true /\ wt ctx t b = true) ->
        json_eq_mod_empty (encode ctx t a) (encode ctx t b) = false ->
        eqc ctx t (t_nullable t) a b = false).
Proof.
  intro H.
  specialize (H W.ctx1 W.troot (W.mk [("a", GStr "")]) (W.mk [("b", GStr "")])).
  assert (X : eqc W.ctx1 W.troot (t_nullable W.troot) (W.mk [("a", GStr "")]) (W.mk [("b", GStr "")]) = false).
  { apply H; try (repeat split; vm_compute; reflexivity). }
  vm_compute in X. discriminate.
Qed.

Lemma encode_eq_implies_equals_refuted :
  ~ (forall ctx t a b,
        (ctx_supported ctx = true /\ ty_supported ctx t = true /\ wt ctx t a = true) ->
        (ctx_supported ctx = true /\ ty_supported ctx t = true /\ wt ctx t b = true) ->
        json_eq (encode ctx t a) (encode ctx t b) = true ->
        eqc ctx t (t_nullable t) a b = true).
Proof.
  intro H.
  specialize (H W.ctx2 (TRef attrs0 "p" "Root")
                (GStruct [("when", GTime "2020-01-01T00:00:00Z" false)])
                (GStruct [("when", GTime "2020-01-01T00:00:00Z" true)])).
  assert (X : eqc W.ctx2 (TRef attrs0 "p" "Root") (t_nullable (TRef attrs0 "p" "Root"))
                (GStruct [("when", GTime "2020-01-01T00:00:00Z" false)])
                (GStruct [("when", GTime "2020-01-01T00:00:00Z" true)]) = true).
  { apply H; try (repeat split; vm_compute; reflexivity). }
  vm_compute in X. discriminate.
Qed.

Lemma c13_nonvacuous :
  exists ctx t a,
    (ctx_supported ctx = true /\ ty_supported ctx t = true /\ wt ctx t a = true) /\
    eqc ctx t (t_nullable t) a a = true.
Proof.
  exists W.ctx3, W.troot, W.v3. repeat split; vm_compute; reflexivity.
Qed.
