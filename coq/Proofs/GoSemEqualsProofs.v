(* C13 — proofs about the model of the generated Equals (coq/Model/GoSemEquals.v). *)
From Coq Require Import List String ZArith Bool Ascii Arith Lia.
From Cog Require Import Model.GoSem.
Import ListNotations.
Local Open Scope list_scope.
Local Open Scope string_scope.

(* ====================================================================== *)
(* Part 1: concrete witnesses                                             *)
(* ====================================================================== *)
Module W.
  Definition meta0 : smeta := {| m_kind := "" ; m_variant := "" ; m_identifier := "" |}.
  Definition tstr : ty := TScalar attrs0 KString DNil [].
  Definition ctx1 : schemas :=
    [mkSchema "p" meta0 "" ty_zero
       [("Meta", mkObject "Meta" [] (TMap attrs0 tstr tstr) "p" "Meta");
        ("Root", mkObject "Root" [] (TStruct attrs0 [] [mkField "meta" [] (TRef attrs0 "p" "Meta") true]) "p" "Root")]].
  Definition troot : ty := TRef attrs0 "p" "Root".
  Definition mk (l : list (string * gval)) : gval := GStruct [("meta", GMap l)].

  Definition tdt : ty :=
    TScalar {| nullable := false; dflt := DNil; hints := [("string_format_datetime", DBool true)] |} KString DNil [].
  Definition ctx2 : schemas :=
    [mkSchema "p" meta0 "" ty_zero
       [("Root", mkObject "Root" [] (TStruct attrs0 [] [mkField "when" [] tdt true]) "p" "Root")]].

  (* non-vacuity: struct with a map, a slice and a pointer *)
  Definition ctx3 : schemas :=
    [mkSchema "p" meta0 "" ty_zero
       [("Meta", mkObject "Meta" [] (TMap attrs0 tstr tstr) "p" "Meta");
        ("Root", mkObject "Root" []
           (TStruct attrs0 []
              [mkField "meta" [] (TRef attrs0 "p" "Meta") true;
               mkField "tags" [] (TArray attrs0 tstr) true;
               mkField "opt" [] (TScalar {| nullable := true; dflt := DNil; hints := [] |} KInt64 DNil []) false])
           "p" "Root")]].
  Definition v3 : gval :=
    GStruct [("meta", GMap [("a", GStr "x"); ("b", GStr "")]);
             ("tags", GSlice [GStr "t"; GStr "u"]);
             ("opt", GPtr (GInt 7))].
End W.

Lemma equals_sym_refuted :
  ~ (forall ctx t a b,
        (ctx_supported ctx = true /\ ty_supported ctx t = true /\ wt ctx t a = true) ->
        (ctx_supported ctx = true /\ ty_supported ctx t = true /\ wt ctx t b = true) ->
        eqc ctx t (t_nullable t) a b = eqc ctx t (t_nullable t) b a).
Proof.
  intro H.
  specialize (H W.ctx1 W.troot (W.mk [("a", GStr "x")]) (W.mk [("b", GStr "")])).
  assert (A : forall v, v = W.mk [("a", GStr "x")] \/ v = W.mk [("b", GStr "")] ->
              ctx_supported W.ctx1 = true /\ ty_supported W.ctx1 W.troot = true /\ wt W.ctx1 W.troot v = true).
  { intros v [-> | ->]; repeat split; vm_compute; reflexivity. }
  specialize (H (A _ (or_introl eq_refl)) (A _ (or_intror eq_refl))).
  vm_compute in H. discriminate.
Qed.

Lemma equals_trans_refuted :
  ~ (forall ctx t a b c,
        (ctx_supported ctx = true /\ ty_supported ctx t = true /\ wt ctx t a = true) ->
        (ctx_supported ctx = true /\ ty_supported ctx t = true /\ wt ctx t b = true) ->
        (ctx_supported ctx = true /\ ty_supported ctx t = true /\ wt ctx t c = true) ->
        eqc ctx t (t_nullable t) a b = true -> eqc ctx t (t_nullable t) b c = true ->
        eqc ctx t (t_nullable t) a c = true).
Proof.
  intro H.
  specialize (H W.ctx1 W.troot (W.mk [("a", GStr "")]) (W.mk [("b", GStr "")]) (W.mk [("a", GStr "x")])).
  assert (X : eqc W.ctx1 W.troot (t_nullable W.troot) (W.mk [("a", GStr "")]) (W.mk [("a", GStr "x")]) = true).
  { apply H; try (repeat split; vm_compute; reflexivity). }
  vm_compute in X. discriminate.
Qed.

Lemma equals_implies_encode_eq_mod_empty_refuted :
  ~ (forall ctx t a b,
        (ctx_supported ctx = true /\ ty_supported ctx t = true /\ wt ctx t a = true) ->
        (ctx_supported ctx = true /\ ty_supported ctx t = true /\ wt ctx t b = true) ->
        eqc ctx t (t_nullable t) a b = true ->
        json_eq_mod_empty (encode ctx t a) (encode ctx t b) = true).
Proof.
  intro H.
  specialize (H W.ctx1 W.troot (W.mk [("a", GStr "")]) (W.mk [("b", GStr "")])).
  assert (X : json_eq_mod_empty (encode W.ctx1 W.troot (W.mk [("a", GStr "")]))
                                (encode W.ctx1 W.troot (W.mk [("b", GStr "")])) = true).
  { apply H; try (repeat split; vm_compute; reflexivity). }
  vm_compute in X. discriminate.
Qed.

Lemma single_leaf_difference_detected_refuted :
  ~ (forall ctx t a b,
        (ctx_supported ctx = true /\ ty_supported ctx t = true /\ wt ctx t a = true) ->
        (ctx_supported ctx = true /\ ty_supported ctx t = true /\ wt ctx t b = true) ->
        json_eq_mod_empty (encode ctx t a) (encode ctx t b) = false ->
        eqc ctx t (t_nullable t) a b = false).
Proof.
  intro H.
  specialize (H W.ctx1 W.troot (W.mk [("a", GStr "")]) (W.mk [("b", GStr "")])).
  assert (X : eqc W.ctx1 W.troot (t_nullable W.troot) (W.mk [("a", GStr "")]) (W.mk [("b", GStr "")]) = false).
  { apply H; try (repeat split; vm_compute; reflexivity). }
  vm_compute in X. discriminate.
Qed.

Lemma encode_eq_implies_equals_refuted :
  ~ (forall ctx t a b,
        (ctx_supported ctx = true /\ ty_supported ctx t = true /\ wt ctx t a = true) ->
        (ctx_supported ctx = true /\ ty_supported ctx t = true /\ wt ctx t b = true) ->
        json_eq (encode ctx t a) (encode ctx t b) = true ->
        eqc ctx t (t_nullable t) a b = true).
Proof.
  intro H.
  specialize (H W.ctx2 (TRef attrs0 "p" "Root")
                (GStruct [("when", GTime "2020-01-01T00:00:00Z" false)])
                (GStruct [("when", GTime "2020-01-01T00:00:00Z" true)])).
  assert (X : eqc W.ctx2 (TRef attrs0 "p" "Root") (t_nullable (TRef attrs0 "p" "Root"))
                (GStruct [("when", GTime "2020-01-01T00:00:00Z" false)])
                (GStruct [("when", GTime "2020-01-01T00:00:00Z" true)]) = true).
  { apply H; try (repeat split; vm_compute; reflexivity). }
  vm_compute in X. discriminate.
Qed.

Lemma c13_nonvacuous :
  exists ctx t a,
    (ctx_supported ctx = true /\ ty_supported ctx t = true /\ wt ctx t a = true) /\
    eqc ctx t (t_nullable t) a a = true.
Proof.
  exists W.ctx3, W.troot, W.v3. repeat split; vm_compute; reflexivity.
Qed.

(* ====================================================================== *)
(* Part 2: induction principles and list combinators                      *)
(* ====================================================================== *)
Section GvalInd.
  Variable P : gval -> Prop.
  Hypothesis HNil : P GNil.
  Hypothesis HBool : forall b, P (GBool b).
  Hypothesis HInt : forall z, P (GInt z).
  Hypothesis HFloat : forall m e, P (GFloat m e).
  Hypothesis HStr : forall s, P (GStr s).
  Hypothesis HTime : forall s l, P (GTime s l).
  Hypothesis HPtr : forall v, P v -> P (GPtr v).
  Hypothesis HSlice : forall l, Forall P l -> P (GSlice l).
  Hypothesis HMap : forall l, Forall (fun kv => P (snd kv)) l -> P (GMap l).
  Hypothesis HStruct : forall l, Forall (fun kv => P (snd kv)) l -> P (GStruct l).
  Hypothesis HAny : forall j, P (GAny j).

  Fixpoint gval_ind' (v : gval) : P v :=
    match v with
    | GNil => HNil | GBool b => HBool b | GInt z => HInt z | GFloat m e => HFloat m e
    | GStr s => HStr s | GTime s l => HTime s l
    | GPtr x => HPtr x (gval_ind' x)
    | GSlice l =>
        HSlice l ((fix go (l : list gval) : Forall P l :=
                     match l with [] => Forall_nil _ | x :: r => Forall_cons x (gval_ind' x) (go r) end) l)
    | GMap l =>
        HMap l ((fix go (l : list (string * gval)) : Forall (fun kv => P (snd kv)) l :=
                   match l with [] => Forall_nil _ | x :: r => Forall_cons x (gval_ind' (snd x)) (go r) end) l)
    | GStruct l =>
        HStruct l ((fix go (l : list (string * gval)) : Forall (fun kv => P (snd kv)) l :=
                      match l with [] => Forall_nil _ | x :: r => Forall_cons x (gval_ind' (snd x)) (go r) end) l)
    | GAny j => HAny j
    end.
End GvalInd.

Section JsonInd.
  Variable P : json -> Prop.
  Hypothesis HNull : P JNull.
  Hypothesis HBool : forall b, P (JBool b).
  Hypothesis HNum : forall m e, P (JNum m e).
  Hypothesis HStr : forall s, P (JStr s).
  Hypothesis HArr : forall l, Forall P l -> P (JArr l).
  Hypothesis HObj : forall l, Forall (fun kv => P (snd kv)) l -> P (JObj l).
  Fixpoint json_ind' (j : json) : P j :=
    match j with
    | JNull => HNull | JBool b => HBool b | JNum m e => HNum m e | JStr s => HStr s
    | JArr l =>
        HArr l ((fix go (l : list json) : Forall P l :=
                   match l with [] => Forall_nil _ | x :: r => Forall_cons x (json_ind' x) (go r) end) l)
    | JObj l =>
        HObj l ((fix go (l : list (string * json)) : Forall (fun kv => P (snd kv)) l :=
                   match l with [] => Forall_nil _ | x :: r => Forall_cons x (json_ind' (snd x)) (go r) end) l)
    end.
End JsonInd.

Fixpoint all2 {A B} (f : A -> B -> bool) (la : list A) (lb : list B) : bool :=
  match la, lb with
  | [], [] => true
  | x :: r, y :: s => (f x y && all2 f r s)%bool
  | _, _ => false
  end.
(* the prefix version (keys_aligned on slices and structs) *)
Fixpoint all2p {A B} (f : A -> B -> bool) (la : list A) (lb : list B) : bool :=
  match la, lb with
  | x :: r, y :: s => (f x y && all2p f r s)%bool
  | _, _ => true
  end.
Definition keq {V W} (f : V -> W -> bool) (p : string * V) (q : string * W) : bool :=
  (seqb (fst p) (fst q) && f (snd p) (snd q))%bool.

Lemma seqb_eq a b : seqb a b = true -> a = b.
Proof. apply String.eqb_eq. Qed.
Lemma seqb_refl a : seqb a a = true.
Proof. apply String.eqb_refl. Qed.
Lemma seqb_sym a b : seqb a b = seqb b a.
Proof. apply String.eqb_sym. Qed.

Lemma all2_length {A B} (f : A -> B -> bool) la lb : all2 f la lb = true -> List.length la = List.length lb.
Proof.
  revert lb; induction la as [|x r IH]; intros [|y s] H; simpl in *; try discriminate; auto.
  apply andb_true_iff in H. destruct H. f_equal; auto.
Qed.

(* ---------- json_eqb ---------- *)
Definition jarr_go := fix go (x y : list json) : bool :=
  match x, y with
  | [], [] => true
  | a :: r, b :: s => (json_eqb a b && go r s)%bool
  | _, _ => false
  end.
Definition jobj_go := fix go (x y : list (string * json)) : bool :=
  match x, y with
  | [], [] => true
  | (k, a) :: r, (k', b) :: s => (String.eqb k k' && json_eqb a b && go r s)%bool
  | _, _ => false
  end.

Lemma json_eqb_eq : forall x y, json_eqb x y = true -> x = y.
Proof.
  induction x using json_ind'; intros y E; destruct y; simpl in E; try discriminate.
  - reflexivity.
  - apply Bool.eqb_prop in E. congruence.
  - apply andb_true_iff in E. destruct E as [E1 E2]. apply Z.eqb_eq in E1, E2. congruence.
  - apply String.eqb_eq in E. congruence.
  - f_equal. change (jarr_go l l0 = true) in E. revert l0 E.
    induction H as [|x r Hx Hr IH]; intros [|y s] E; simpl in E; try discriminate; auto.
    apply andb_true_iff in E. destruct E. f_equal; auto.
  - f_equal. change (jobj_go l ms = true) in E. revert ms E.
    induction H as [|[k x] r Hx Hr IH]; intros [|[k' y] s] E; simpl in E; try discriminate; auto.
    apply andb_true_iff in E. destruct E as [E E3]. apply andb_true_iff in E. destruct E as [E1 E2].
    apply String.eqb_eq in E1. simpl in Hx. f_equal; auto. f_equal; auto.
Qed.

Lemma json_eqb_refl : forall x, json_eqb x x = true.
Proof.
  induction x using json_ind'; simpl.
  - reflexivity.
  - apply Bool.eqb_reflx.
  - rewrite !Z.eqb_refl. reflexivity.
  - apply String.eqb_refl.
  - induction H as [|x r Hx Hr IH]; auto. rewrite Hx. exact IH.
  - induction H as [|[k x] r Hx Hr IH]; auto. simpl in Hx. rewrite String.eqb_refl, Hx. exact IH.
Qed.

(* ====================================================================== *)
(* Part 3: vsim / keys_aligned — equations and type-free facts            *)
(* ====================================================================== *)
Definition vs_slice := fix go (la lb : list gval) {struct la} : bool :=
  match la, lb with
  | [], [] => true
  | x :: r, y :: s => (vsim x y && go r s)%bool
  | _, _ => false
  end.
Definition vs_kv := fix go (la lb : list (string * gval)) {struct la} : bool :=
  match la, lb with
  | [], [] => true
  | (k, x) :: r, (k', y) :: s => (seqb k k' && vsim x y && go r s)%bool
  | _, _ => false
  end.
Definition ka_slice := fix go (la lb : list gval) {struct la} : bool :=
  match la, lb with
  | x :: r, y :: s => (keys_aligned x y && go r s)%bool
  | _, _ => true
  end.
Definition ka_map := fix go (la lb : list (string * gval)) {struct la} : bool :=
  match la, lb with
  | [], [] => true
  | (k, x) :: r, (k', y) :: s => (seqb k k' && keys_aligned x y && go r s)%bool
  | _, _ => false
  end.
Definition ka_struct := fix go (fa fb : list (string * gval)) {struct fa} : bool :=
  match fa, fb with
  | (_, x) :: r, (_, y) :: s => (keys_aligned x y && go r s)%bool
  | _, _ => true
  end.
Definition snd2 {V W} (f : V -> W -> bool) (p : string * V) (q : string * W) : bool := f (snd p) (snd q).

Lemma vs_slice_all2 la lb : vs_slice la lb = all2 vsim la lb.
Proof. revert lb; induction la as [|x r IH]; intros [|y s]; simpl; auto. rewrite <- IH; reflexivity. Qed.
Lemma vs_kv_all2 la lb : vs_kv la lb = all2 (keq vsim) la lb.
Proof.
  revert lb; induction la as [|[k x] r IH]; intros [|[k' y] s]; simpl; auto.
  rewrite <- IH; reflexivity.
Qed.
Lemma ka_slice_all2 la lb : ka_slice la lb = all2p keys_aligned la lb.
Proof. revert lb; induction la as [|x r IH]; intros [|y s]; simpl; auto. rewrite <- IH; reflexivity. Qed.
Lemma ka_map_all2 la lb : ka_map la lb = all2 (keq keys_aligned) la lb.
Proof.
  revert lb; induction la as [|[k x] r IH]; intros [|[k' y] s]; simpl; auto.
  rewrite <- IH; reflexivity.
Qed.
Lemma ka_struct_all2 la lb : ka_struct la lb = all2p (snd2 keys_aligned) la lb.
Proof.
  revert lb; induction la as [|[k x] r IH]; intros [|[k' y] s]; simpl; auto.
  rewrite <- IH; reflexivity.
Qed.

Lemma vsim_slice la lb : vsim (GSlice la) (GSlice lb) = all2 vsim la lb.
Proof. rewrite <- vs_slice_all2. destruct la, lb; reflexivity. Qed.
Lemma vsim_map la lb : vsim (GMap la) (GMap lb) = all2 (keq vsim) la lb.
Proof. rewrite <- vs_kv_all2. destruct la, lb; reflexivity. Qed.
Lemma vsim_struct la lb : vsim (GStruct la) (GStruct lb) = all2 (keq vsim) la lb.
Proof. rewrite <- vs_kv_all2. destruct la, lb; reflexivity. Qed.
Lemma ka_slice_eq la lb : keys_aligned (GSlice la) (GSlice lb) = all2p keys_aligned la lb.
Proof. rewrite <- ka_slice_all2. destruct la, lb; reflexivity. Qed.
Lemma ka_map_eq la lb : keys_aligned (GMap la) (GMap lb) = all2 (keq keys_aligned) la lb.
Proof. rewrite <- ka_map_all2. destruct la, lb; reflexivity. Qed.
Lemma ka_struct_eq la lb : keys_aligned (GStruct la) (GStruct lb) = all2p (snd2 keys_aligned) la lb.
Proof. rewrite <- ka_struct_all2. destruct la, lb; reflexivity. Qed.

Lemma json_eqb_sym x y : json_eqb x y = json_eqb y x.
Proof.
  destruct (json_eqb x y) eqn:E.
  - apply json_eqb_eq in E. subst. symmetry. apply json_eqb_refl.
  - destruct (json_eqb y x) eqn:E2; auto. apply json_eqb_eq in E2. subst.
    rewrite json_eqb_refl in E. discriminate.
Qed.

Lemma leaf_eq_sym a b : leaf_eq a b = leaf_eq b a.
Proof.
  destruct a, b; simpl; try reflexivity.
  - destruct b, b0; reflexivity.
  - apply Z.eqb_sym.
  - rewrite (Z.eqb_sym m m0), (Z.eqb_sym e e0). reflexivity.
  - apply String.eqb_sym.
  - rewrite (String.eqb_sym text text0). destruct local, local0; reflexivity.
Qed.

Lemma all2_refl {A} (f : A -> A -> bool) l : Forall (fun x => f x x = true) l -> all2 f l l = true.
Proof. induction 1; simpl; auto. rewrite H. exact IHForall. Qed.
Lemma all2p_refl {A} (f : A -> A -> bool) l : Forall (fun x => f x x = true) l -> all2p f l l = true.
Proof. induction 1; simpl; auto. rewrite H. exact IHForall. Qed.
Lemma all2_sym {A} (f : A -> A -> bool) la lb :
  Forall (fun x => forall y, f x y = f y x) la -> all2 f la lb = all2 f lb la.
Proof.
  intros H; revert lb; induction H as [|x r Hx Hr IH]; intros [|y s]; simpl; auto.
  rewrite Hx, IH. reflexivity.
Qed.
Lemma all2p_sym {A} (f : A -> A -> bool) la lb :
  Forall (fun x => forall y, f x y = f y x) la -> all2p f la lb = all2p f lb la.
Proof.
  intros H; revert lb; induction H as [|x r Hx Hr IH]; intros [|y s]; simpl; auto.
  rewrite Hx, IH. reflexivity.
Qed.
Lemma vsim_refl : forall a, vsim a a = true.
Proof.
  induction a using gval_ind'; simpl; auto.
  - destruct b; reflexivity.
  - apply Z.eqb_refl.
  - rewrite !Z.eqb_refl; reflexivity.
  - apply String.eqb_refl.
  - rewrite String.eqb_refl. destruct l; reflexivity.
  - change (vsim (GSlice l) (GSlice l) = true). rewrite vsim_slice. apply all2_refl, H.
  - change (vsim (GMap l) (GMap l) = true). rewrite vsim_map. apply all2_refl.
    eapply Forall_impl; [|exact H]. intros p Hp; simpl in Hp. unfold keq. rewrite seqb_refl. exact Hp.
  - change (vsim (GStruct l) (GStruct l) = true). rewrite vsim_struct. apply all2_refl.
    eapply Forall_impl; [|exact H]. intros p Hp; simpl in Hp. unfold keq. rewrite seqb_refl. exact Hp.
  - apply json_eqb_refl.
Qed.

Lemma ka_refl : forall a, keys_aligned a a = true.
Proof.
  induction a using gval_ind'; simpl; auto.
  - change (keys_aligned (GSlice l) (GSlice l) = true). rewrite ka_slice_eq. apply all2p_refl, H.
  - change (keys_aligned (GMap l) (GMap l) = true). rewrite ka_map_eq. apply all2_refl.
    eapply Forall_impl; [|exact H]. intros p Hp; simpl in Hp. unfold keq. rewrite seqb_refl. exact Hp.
  - change (keys_aligned (GStruct l) (GStruct l) = true). rewrite ka_struct_eq. apply all2p_refl.
    eapply Forall_impl; [|exact H]. intros p Hp; simpl in Hp. exact Hp.
Qed.

Lemma vsim_sym : forall a b, vsim a b = vsim b a.
Proof.
  induction a using gval_ind'; intros b'.
  1-6: destruct b' as [| | | | | | |l'|l'| |]; try reflexivity; try (destruct l'; reflexivity);
       apply (leaf_eq_sym _ _).
  - destruct b' as [| | | | | | |l'|l'| |]; try reflexivity; try (destruct l'; reflexivity). simpl. apply IHa.
  - destruct b' as [| | | | | | |l'|l'| |]; try (destruct l; reflexivity).
    + rewrite !vsim_slice. apply all2_sym, H.
    + destruct l, l'; reflexivity.
  - destruct b' as [| | | | | | |l'|l'| |]; try (destruct l; reflexivity).
    + destruct l, l'; reflexivity.
    + rewrite !vsim_map. apply all2_sym.
      eapply Forall_impl; [|exact H]. intros p Hp q; simpl in Hp. unfold keq. rewrite seqb_sym, Hp. reflexivity.
  - destruct b' as [| | | | | | |l'|l'|l'|]; try reflexivity; try (destruct l'; reflexivity).
    rewrite !vsim_struct. apply all2_sym.
    eapply Forall_impl; [|exact H]. intros p Hp q; simpl in Hp. unfold keq. rewrite seqb_sym, Hp. reflexivity.
  - destruct b' as [| | | | | | |l'|l'| |]; try reflexivity; try (destruct l'; reflexivity). simpl. apply json_eqb_sym.
Qed.

Lemma ka_sym : forall a b, keys_aligned a b = keys_aligned b a.
Proof.
  induction a using gval_ind'; intros b'.
  1-6: destruct b' as [| | | | | | |l'|l'| |]; reflexivity.
  - destruct b'; try reflexivity. simpl. apply IHa.
  - destruct b' as [| | | | | | |l'|l'| |]; try reflexivity.
    rewrite !ka_slice_eq. apply all2p_sym, H.
  - destruct b' as [| | | | | | |l'|l'| |]; try reflexivity.
    rewrite !ka_map_eq. apply all2_sym.
    eapply Forall_impl; [|exact H]. intros p Hp q; simpl in Hp. unfold keq. rewrite seqb_sym, Hp. reflexivity.
  - destruct b' as [| | | | | | |l'|l'|l'|]; try reflexivity.
    rewrite !ka_struct_eq. apply all2p_sym.
    eapply Forall_impl; [|exact H]. intros p Hp q; simpl in Hp. unfold snd2. apply Hp.
  - destruct b'; reflexivity.
Qed.

Lemma all2_impl_all2p {A} (f g : A -> A -> bool) la lb :
  Forall (fun x => forall y, f x y = true -> g x y = true) la -> all2 f la lb = true -> all2p g la lb = true.
Proof.
  intros H; revert lb; induction H as [|x r Hx Hr IH]; intros [|y s] E; simpl in *; auto; try discriminate.
  apply andb_true_iff in E. destruct E as [E1 E2]. rewrite (Hx _ E1). simpl. auto.
Qed.
Lemma all2_impl {A} (f g : A -> A -> bool) la lb :
  Forall (fun x => forall y, f x y = true -> g x y = true) la -> all2 f la lb = true -> all2 g la lb = true.
Proof.
  intros H; revert lb; induction H as [|x r Hx Hr IH]; intros [|y s] E; simpl in *; auto; try discriminate.
  apply andb_true_iff in E. destruct E as [E1 E2]. rewrite (Hx _ E1). simpl. auto.
Qed.

(* vsim already forces the side condition *)
Lemma vsim_aligned : forall a b, vsim a b = true -> keys_aligned a b = true.
Proof.
  induction a using gval_ind'; intros b' E.
  1-6: destruct b' as [| | | | | | |l'|l'| |]; try reflexivity; destruct l'; try reflexivity; discriminate.
  - destruct b'; try reflexivity. simpl in *. auto.
  - destruct b' as [| | | | | | |l'|l'| |]; try reflexivity.
    rewrite vsim_slice in E. rewrite ka_slice_eq. eapply all2_impl_all2p; eauto.
  - destruct b' as [| | | | | | |l'|l'| |]; try reflexivity.
    + destruct l; [reflexivity|discriminate].
    + rewrite vsim_map in E. rewrite ka_map_eq. eapply all2_impl; [|exact E].
      eapply Forall_impl; [|exact H]. intros p Hp q; simpl in Hp. unfold keq. intros E'.
      apply andb_true_iff in E'. destruct E' as [E1 E2]. rewrite E1. simpl. auto.
  - destruct b' as [| | | | | | |l'|l'|l'|]; try reflexivity.
    rewrite vsim_struct in E. rewrite ka_struct_eq. eapply all2_impl_all2p; [|exact E].
    eapply Forall_impl; [|exact H]. intros p Hp q; simpl in Hp. unfold keq, snd2. intros E'.
    apply andb_true_iff in E'. destruct E' as [E1 E2]. auto.
  - destruct b'; reflexivity.
Qed.

Lemma vsim_empty : forall a b, vsim a b = true -> is_empty_value a = is_empty_value b.
Proof.
  intros a b E.
  destruct a as [| | | | | | |l|l| |], b as [| | | | | | |l'|l'| |]; simpl in E; try discriminate; try reflexivity;
    try (destruct l; try discriminate; try reflexivity; destruct l'; try discriminate; reflexivity);
    try (destruct l'; try discriminate; reflexivity).
  - apply Bool.eqb_prop in E. subst. reflexivity.
  - apply Z.eqb_eq in E. subst. reflexivity.
  - apply andb_true_iff in E. destruct E as [E _]. apply Z.eqb_eq in E. subst. reflexivity.
  - apply String.eqb_eq in E. subst. reflexivity.
  - destruct l as [|[k x] r], l' as [|[k' y] s]; simpl in E; try discriminate; reflexivity.
Qed.

(* ====================================================================== *)
(* Part 4: facts about types, references and the supported fragment       *)
(* ====================================================================== *)
Lemma non_null_nullable t : t_nullable (non_null t) = false.
Proof. destruct t; reflexivity. Qed.
Lemma non_null_id t : t_nullable t = false -> non_null t = t.
Proof. destruct t; destruct a; unfold t_nullable; simpl; intros ->; reflexivity. Qed.
Lemma is_any_non_null t : is_any (non_null t) = is_any t.
Proof. destruct t; reflexivity. Qed.
Lemma is_ptr_non_null t : is_ptr (non_null t) = false.
Proof. destruct t; reflexivity. Qed.
Lemma is_ptr_nullable t : is_ptr t = true -> t_nullable t = true.
Proof. unfold is_ptr. intros H. apply andb_true_iff in H. tauto. Qed.
Lemma is_ptr_not_any t : is_ptr t = true -> is_any t = false.
Proof. destruct t; try reflexivity. destruct k; try reflexivity. unfold is_ptr. rewrite andb_false_r. discriminate. Qed.
Lemma is_ref_is_ptr t : is_ref t = true -> is_ptr t = t_nullable t.
Proof. destruct t; try discriminate. intros _. unfold is_ptr. apply andb_true_r. Qed.

Definition is_reflike (t : ty) : bool := match t with TRef _ _ _ | TConstRef _ _ _ _ => true | _ => false end.
Lemma payload_non_null_ref ctx t : is_reflike t = true -> payload_type ctx (non_null t) = payload_type ctx t.
Proof. destruct t; try discriminate; reflexivity. Qed.
Lemma payload_self ctx t : is_reflike t = false -> payload_type ctx t = PTy t.
Proof. destruct t; try discriminate; reflexivity. Qed.

Definition obj_in (ctx : schemas) (o : object) : Prop :=
  exists s k, In s ctx /\ In (k, o) (s_objects s).

Lemma objs_get_in l k o : objs_get l k = Some o -> exists k', In (k', o) l.
Proof.
  induction l as [|[k' o'] r IH]; simpl; intros H; try discriminate.
  destruct (seqb k' k).
  - inversion H; subst. eexists; left; reflexivity.
  - destruct (IH H) as [k2 H2]. eexists; right; exact H2.
Qed.
Lemma locate_object_in ctx p n o : locate_object ctx p n = Some o -> obj_in ctx o.
Proof.
  unfold locate_object, locate. destruct (find _ ctx) as [s|] eqn:F; try discriminate.
  intros H. apply find_some in F. destruct F as [F _]. apply objs_get_in in H. destruct H as [k H].
  exists s, k. split; assumption.
Qed.
Lemma ctx_supported_obj ctx o : ctx_supported ctx = true -> obj_in ctx o -> object_supported ctx o = true.
Proof.
  intros H [s [k [Hs Ho]]]. unfold ctx_supported in H. rewrite forallb_forall in H.
  specialize (H s Hs). rewrite forallb_forall in H. exact (H _ Ho).
Qed.
Lemma resolve_fuel_obj ctx : forall fuel t rt,
  resolve_fuel ctx fuel t = Some rt -> is_ref rt = false -> rt = t \/ exists o, obj_in ctx o /\ rt = o_type o.
Proof.
  induction fuel as [|f IH]; intros t rt H Hr; destruct t; simpl in H; try (inversion H; subst; left; reflexivity).
  destruct (locate_object ctx pkg name) as [o|] eqn:L.
  - destruct (IH _ _ H Hr) as [->|X]; [|right; exact X]. right. exists o. split; [|reflexivity].
    eapply locate_object_in; eauto.
  - inversion H; subst. discriminate.
Qed.

(* what a reference denotes is a supported, non-nullable object type *)
Lemma via_supported ctx p n pt :
  ctx_supported ctx = true ->
  match resolve ctx (TRef attrs0 p n) with
  | None => PUnm "reference cycle"
  | Some (TRef _ _ _) => PUnm "dangling reference"
  | Some rt => if t_nullable rt then PUnm "nullable object type"
               else if is_concrete_scalar rt then PUnm "reference to a constant"
               else PTy rt
  end = PTy pt ->
  ty_supported ctx pt = true /\ t_nullable pt = false.
Proof.
  intros Hc H. destruct (resolve ctx (TRef attrs0 p n)) as [rt|] eqn:R; try discriminate.
  assert (Hr : is_ref rt = false) by (destruct rt; try reflexivity; discriminate).
  assert (Hpt : t_nullable rt = false /\ rt = pt).
  { destruct rt; try discriminate;
      (destruct (t_nullable _) eqn:N; [discriminate|]; destruct (is_concrete_scalar _); [discriminate|];
       inversion H; subst; split; reflexivity). }
  destruct Hpt as [N ->]. unfold resolve in R.
  destruct (resolve_fuel_obj _ _ _ _ R Hr) as [->|[o [Ho ->]]]; [discriminate|].
  pose proof (ctx_supported_obj _ _ Hc Ho) as S. unfold object_supported in S.
  apply andb_true_iff in S. destruct S as [S _]. apply andb_true_iff in S. destruct S as [_ S].
  split; auto.
Qed.

Lemma payload_supported ctx t pt :
  ctx_supported ctx = true -> ty_supported ctx t = true -> payload_type ctx t = PTy pt ->
  ty_supported ctx pt = true.
Proof.
  intros Hc Hs Hp. destruct t; simpl in Hp; try (inversion Hp; subst; exact Hs).
  - eapply via_supported; eauto.
  - eapply via_supported; eauto.
Qed.
Lemma payload_ref_nonnull ctx t pt :
  ctx_supported ctx = true -> is_reflike t = true -> payload_type ctx t = PTy pt -> t_nullable pt = false.
Proof.
  intros Hc Hr Hp. destruct t; try discriminate; simpl in Hp; eapply via_supported; eauto.
Qed.

Lemma supported_non_null ctx t : ty_supported ctx t = true -> ty_supported ctx (non_null t) = true.
Proof.
  destruct t; simpl; auto; intros H; apply andb_true_iff in H; destruct H as [_ H]; exact H.
Qed.

(* outside arrays, maps and `any`, a supported type is a pointer exactly when it is nullable *)
Lemma nullable_is_ptr ctx t pt :
  ty_supported ctx t = true -> is_any t = false -> payload_type ctx t = PTy pt ->
  is_array pt = false -> is_map pt = false -> t_nullable t = is_ptr t.
Proof.
  intros Hs Ha Hp H1 H2. destruct t; simpl in Hs; try discriminate.
  - inversion Hp; subst; discriminate.
  - apply andb_true_iff in Hs. destruct Hs as [Hs _]. apply negb_true_iff in Hs.
    unfold is_ptr. rewrite Hs. reflexivity.
  - inversion Hp; subst; discriminate.
  - unfold is_ptr. rewrite andb_true_r. reflexivity.
  - unfold is_ptr. rewrite andb_true_r. reflexivity.
  - apply andb_true_iff in Hs. destruct Hs as [Hs _]. apply negb_true_iff in Hs.
    unfold is_ptr. rewrite Hs. reflexivity.
  - unfold is_ptr. destruct k; simpl in *; try discriminate; rewrite andb_true_r; reflexivity.
Qed.

(* ====================================================================== *)
(* Part 5: unfolding wt and eqc                                           *)
(* ====================================================================== *)
Definition wt_fields (ctx : schemas) := fix go (fs : list field) (fvs : list (string * gval)) {struct fvs} : bool :=
  match fs, fvs with
  | [], [] => true
  | f :: fr, (n, fv) :: vr => (seqb n (f_name f) && wt ctx (f_type f) fv && go fr vr)%bool
  | _, _ => false
  end.
Definition union_wt (pt : ty) (fvs : list (string * gval)) : bool :=
  match union_scalars pt, union_refs pt with
  | None, None => true
  | _, _ => Nat.leb (List.length (filter (fun nv => negb (is_nil (snd nv))) fvs)) 1
  end.
Definition is_leaf (v : gval) : bool :=
  match v with GBool _ | GInt _ | GFloat _ _ | GStr _ | GTime _ _ => true | _ => false end.
Definition leaf_ty (v : gval) (pt : ty) : bool :=
  match pt with
  | TScalar _ k _ _ => wt_scalar pt k v
  | TEnum _ vs => match enum_base vs with TScalar _ k _ _ as b => wt_scalar b k v | _ => false end
  | _ => false
  end.
Definition no_nil_ptr (x : gval) : bool := match x with GNil | GPtr _ => false | _ => true end.

Lemma wt_unfold ctx t v : wt ctx t v =
  if is_any t then match v with GNil => true | GAny j => negb (json_eqb j JNull) | _ => false end else
  match payload_type ctx t with
  | PUnm _ => false
  | PTy pt =>
      match v with
      | GNil => (is_ptr t || match pt with TArray _ _ | TMap _ _ _ => true | _ => false end)%bool
      | GPtr x => (is_ptr t && (no_nil_ptr x && wt ctx (non_null t) x))%bool
      | GSlice l =>
          (negb (is_ptr t) && match pt with TArray _ et => forallb (wt ctx et) l | _ => false end)%bool
      | GMap kvs =>
          (negb (is_ptr t) &&
           match pt with
           | TMap _ _ vt => (str_nodup (map fst kvs) && forallb (fun kv => wt ctx vt (snd kv)) kvs)%bool
           | _ => false
           end)%bool
      | GStruct fvs =>
          (negb (is_ptr t) &&
           match pt with
           | TStruct _ _ fs => (union_wt pt fvs && wt_fields ctx fs fvs)%bool
           | _ => false
           end)%bool
      | GAny _ => false
      | _ => (negb (is_ptr t) && leaf_ty v pt)%bool
      end
  end.
Proof. destruct v; try reflexivity. destruct v; reflexivity. Qed.

(* ---- value-directed inversion ---- *)
Lemma wt_any_inv ctx t j : wt ctx t (GAny j) = true -> is_any t = true.
Proof.
  rewrite wt_unfold. destruct (is_any t); auto. destruct (payload_type ctx t); discriminate.
Qed.
Lemma wt_ptr_inv ctx t x : wt ctx t (GPtr x) = true ->
  is_any t = false /\ is_ptr t = true /\ (exists pt, payload_type ctx t = PTy pt) /\
  no_nil_ptr x = true /\ wt ctx (non_null t) x = true.
Proof.
  rewrite wt_unfold. destruct (is_any t); try discriminate.
  destruct (payload_type ctx t) as [pt|]; try discriminate. intros H.
  apply andb_true_iff in H. destruct H as [H1 H]. apply andb_true_iff in H. destruct H as [H2 H3].
  repeat split; eauto.
Qed.
Lemma wt_slice_inv ctx t l : wt ctx t (GSlice l) = true ->
  is_any t = false /\ is_ptr t = false /\
  exists a et, payload_type ctx t = PTy (TArray a et) /\ forallb (wt ctx et) l = true.
Proof.
  rewrite wt_unfold. destruct (is_any t); try discriminate.
  destruct (payload_type ctx t) as [pt|]; try discriminate. intros H.
  apply andb_true_iff in H. destruct H as [H1 H]. apply negb_true_iff in H1.
  destruct pt; try discriminate. repeat split; eauto.
Qed.
Lemma wt_map_inv ctx t l : wt ctx t (GMap l) = true ->
  is_any t = false /\ is_ptr t = false /\
  exists a it vt, payload_type ctx t = PTy (TMap a it vt) /\ str_nodup (map fst l) = true /\
                  forallb (fun kv => wt ctx vt (snd kv)) l = true.
Proof.
  rewrite wt_unfold. destruct (is_any t); try discriminate.
  destruct (payload_type ctx t) as [pt|]; try discriminate. intros H.
  apply andb_true_iff in H. destruct H as [H1 H]. apply negb_true_iff in H1.
  destruct pt; try discriminate. apply andb_true_iff in H. destruct H. repeat split; eauto 8.
Qed.
Lemma wt_struct_inv ctx t fvs : wt ctx t (GStruct fvs) = true ->
  is_any t = false /\ is_ptr t = false /\
  exists a dh fs, payload_type ctx t = PTy (TStruct a dh fs) /\ union_wt (TStruct a dh fs) fvs = true /\
                  wt_fields ctx fs fvs = true.
Proof.
  rewrite wt_unfold. destruct (is_any t); try discriminate.
  destruct (payload_type ctx t) as [pt|]; try discriminate. intros H.
  apply andb_true_iff in H. destruct H as [H1 H]. apply negb_true_iff in H1.
  destruct pt; try discriminate. apply andb_true_iff in H. destruct H. repeat split; eauto 8.
Qed.
Lemma wt_leaf_inv ctx t v : is_leaf v = true -> wt ctx t v = true ->
  is_any t = false /\ is_ptr t = false /\ exists pt, payload_type ctx t = PTy pt /\ leaf_ty v pt = true.
Proof.
  intros L. rewrite wt_unfold. destruct (is_any t); [destruct v; discriminate|].
  destruct (payload_type ctx t) as [pt|]; try discriminate. intros H.
  destruct v; try discriminate; apply andb_true_iff in H; destruct H as [H1 H]; apply negb_true_iff in H1;
    repeat split; eauto.
Qed.
Lemma leaf_ty_shape v pt : leaf_ty v pt = true -> is_array pt = false /\ is_map pt = false /\ is_struct pt = false.
Proof. destruct pt; try discriminate; auto. Qed.
Lemma wt_nil_inv ctx t : wt ctx t GNil = true ->
  is_any t = true \/
  (is_any t = false /\ exists pt, payload_type ctx t = PTy pt /\
     (is_ptr t = true \/ (is_ptr t = false /\ (is_array pt || is_map pt)%bool = true))).
Proof.
  rewrite wt_unfold. destruct (is_any t); auto. right. split; auto.
  destruct (payload_type ctx t) as [pt|]; try discriminate. exists pt. split; auto.
  destruct (is_ptr t); auto. right. split; auto. destruct pt; try discriminate; reflexivity.
Qed.

(* ---- type-directed canonical forms ---- *)
Lemma cf_any ctx t v : is_any t = true -> wt ctx t v = true -> v = GNil \/ exists j, v = GAny j.
Proof. intros Ha. rewrite wt_unfold, Ha. destruct v; try discriminate; eauto. Qed.
Lemma cf_ptr ctx t v : is_any t = false -> is_ptr t = true -> wt ctx t v = true ->
  v = GNil \/ exists x, v = GPtr x /\ no_nil_ptr x = true /\ wt ctx (non_null t) x = true.
Proof.
  intros Ha Hp. rewrite wt_unfold, Ha, Hp. destruct (payload_type ctx t); try discriminate.
  destruct v; simpl; try discriminate; eauto.
  intros H. apply andb_true_iff in H. right; eauto.
Qed.
Lemma cf_arr ctx t a et v : is_any t = false -> is_ptr t = false -> payload_type ctx t = PTy (TArray a et) ->
  wt ctx t v = true -> v = GNil \/ exists l, v = GSlice l /\ forallb (wt ctx et) l = true.
Proof.
  intros Ha Hp Hpt. rewrite wt_unfold, Ha, Hp, Hpt. destruct v; simpl; try discriminate; eauto.
Qed.
Lemma cf_map ctx t a it vt v : is_any t = false -> is_ptr t = false -> payload_type ctx t = PTy (TMap a it vt) ->
  wt ctx t v = true ->
  v = GNil \/ exists l, v = GMap l /\ str_nodup (map fst l) = true /\ forallb (fun kv => wt ctx vt (snd kv)) l = true.
Proof.
  intros Ha Hp Hpt. rewrite wt_unfold, Ha, Hp, Hpt. destruct v; simpl; try discriminate; eauto.
  intros H. apply andb_true_iff in H. right; eauto.
Qed.
Lemma cf_struct ctx t a dh fs v : is_any t = false -> is_ptr t = false -> payload_type ctx t = PTy (TStruct a dh fs) ->
  wt ctx t v = true ->
  exists fvs, v = GStruct fvs /\ union_wt (TStruct a dh fs) fvs = true /\ wt_fields ctx fs fvs = true.
Proof.
  intros Ha Hp Hpt. rewrite wt_unfold, Ha, Hp, Hpt. destruct v; simpl; try discriminate; eauto.
  intros H. apply andb_true_iff in H. eauto.
Qed.
Lemma cf_leaf ctx t pt v : is_any t = false -> is_ptr t = false -> payload_type ctx t = PTy pt ->
  is_array pt = false -> is_map pt = false -> is_struct pt = false ->
  wt ctx t v = true -> is_leaf v = true.
Proof.
  intros Ha Hp Hpt H1 H2 H3. rewrite wt_unfold, Ha, Hp, Hpt.
  destruct v; simpl; try discriminate; auto; destruct pt; discriminate.
Qed.

(* ---- eqc ---- *)
Definition eq_arr (ctx : schemas) (et : ty) := fix go (la lb : list gval) {struct la} : bool :=
  match la, lb with
  | [], [] => true
  | x :: r, y :: s => (eqc ctx et (t_nullable et) x y && go r s)%bool
  | _, _ => false
  end.
Definition eq_fields (ctx : schemas) := fix go (fs : list field) (fa fb : list (string * gval)) {struct fa} : bool :=
  match fs, fa, fb with
  | [], [], [] => true
  | f :: fr, (_, x) :: ar, (_, y) :: br =>
      (eqc ctx (f_type f) (t_nullable (f_type f)) x y && go fr ar br)%bool
  | _, _, _ => false
  end.
Definition eq_map (ctx : schemas) (vt : ty) (lb : list (string * gval)) (la : list (string * gval)) : bool :=
  (Nat.eqb (List.length la) (List.length lb) &&
   forallb (fun kv => eqc ctx vt (t_nullable vt) (snd kv)
                          (match gmap_find lb (fst kv) with Some y => y | None => zero ctx vt end)) la)%bool.
Definition eq_nl (ctx : schemas) (t : ty) (a b : gval) : bool :=
  match a, b with
  | GNil, GNil => true
  | GPtr x, GPtr y => eqc ctx t false x y
  | _, _ => false
  end.
Definition eq_struct (ctx : schemas) (fs : list field) (a b : gval) : bool :=
  match a, b with
  | GStruct fa, GStruct fb => eq_fields ctx fs fa fb
  | _, _ => false
  end.
Definition needs (t : ty) : bool := (is_ref t && t_nullable t)%bool.

Lemma eqc_unfold ctx t nl a b : eqc ctx t nl a b =
  if is_any t then deep_equal a b else
  match payload_type ctx t with
  | PUnm _ => false
  | PTy pt =>
      match pt with
      | TArray _ et =>
          if (needs t && xorb (is_nil a) (is_nil b))%bool then false else
          match a with
          | GSlice la => eq_arr ctx et la (elems b)
          | GPtr (GSlice la) => eq_arr ctx et la (elems b)
          | _ => match elems b with [] => true | _ => false end
          end
      | TMap _ _ vt =>
          if (needs t && xorb (is_nil a) (is_nil b))%bool then false else
          match a with
          | GMap la => eq_map ctx vt (entries b) la
          | GPtr (GMap la) => eq_map ctx vt (entries b) la
          | _ => match entries b with [] => true | _ => false end
          end
      | _ =>
          if nl then eq_nl ctx t a b
          else match pt with
               | TStruct _ _ fs => eq_struct ctx fs a b
               | _ => leaf_eq a b
               end
      end
  end.
Proof. destruct a; try reflexivity. Qed.

Lemma eq_arr_all2 ctx et la lb : eq_arr ctx et la lb = all2 (eqc ctx et (t_nullable et)) la lb.
Proof. revert lb; induction la as [|x r IH]; intros [|y s]; simpl; auto. rewrite <- IH; reflexivity. Qed.

Lemma eqc_any ctx t nl a b : is_any t = true -> eqc ctx t nl a b = deep_equal a b.
Proof. intros H. rewrite eqc_unfold, H. reflexivity. Qed.
Lemma eqc_arr ctx t nl a b a0 et : is_any t = false -> payload_type ctx t = PTy (TArray a0 et) ->
  eqc ctx t nl a b =
  if (needs t && xorb (is_nil a) (is_nil b))%bool then false else
  match a with
  | GSlice la => all2 (eqc ctx et (t_nullable et)) la (elems b)
  | GPtr (GSlice la) => all2 (eqc ctx et (t_nullable et)) la (elems b)
  | _ => match elems b with [] => true | _ => false end
  end.
Proof.
  intros H1 H2. rewrite eqc_unfold, H1, H2.
  destruct (needs t && xorb (is_nil a) (is_nil b))%bool; auto.
  destruct a; auto; try apply eq_arr_all2. destruct a; auto. apply eq_arr_all2.
Qed.
Lemma eqc_map ctx t nl a b a0 it vt : is_any t = false -> payload_type ctx t = PTy (TMap a0 it vt) ->
  eqc ctx t nl a b =
  if (needs t && xorb (is_nil a) (is_nil b))%bool then false else
  match a with
  | GMap la => eq_map ctx vt (entries b) la
  | GPtr (GMap la) => eq_map ctx vt (entries b) la
  | _ => match entries b with [] => true | _ => false end
  end.
Proof. intros H1 H2. rewrite eqc_unfold, H1, H2. reflexivity. Qed.
Lemma eqc_gen ctx t nl a b pt : is_any t = false -> payload_type ctx t = PTy pt ->
  is_array pt = false -> is_map pt = false ->
  eqc ctx t nl a b =
  if nl then eq_nl ctx t a b
  else match pt with
       | TStruct _ _ fs => eq_struct ctx fs a b
       | _ => leaf_eq a b
       end.
Proof. intros H1 H2 H3 H4. rewrite eqc_unfold, H1, H2. destruct pt; try discriminate; reflexivity. Qed.

Lemma needs_non_null t : needs (non_null t) = false.
Proof. unfold needs. rewrite non_null_nullable. apply andb_false_r. Qed.

(* the nullable case hands over to the same comparison on the pointees *)
Lemma eqc_ptr ctx t x y :
  is_ptr t = true -> no_nil_ptr x = true -> no_nil_ptr y = true ->
  eqc ctx t true (GPtr x) (GPtr y) = eqc ctx (non_null t) false x y.
Proof.
  intros Hp Hx Hy.
  pose proof (is_ptr_not_any _ Hp) as Ha.
  assert (Ha' : is_any (non_null t) = false) by (rewrite is_any_non_null; exact Ha).
  destruct (is_reflike t) eqn:R.
  - pose proof (payload_non_null_ref ctx t R) as E.
    destruct (payload_type ctx t) as [pt|w] eqn:P.
    + destruct (is_array pt) eqn:A; [|destruct (is_map pt) eqn:M].
      * destruct pt; try discriminate.
        rewrite (eqc_arr ctx t true _ _ _ _ Ha P), (eqc_arr ctx (non_null t) false _ _ _ _ Ha' E).
        rewrite needs_non_null. simpl. rewrite andb_false_r.
        destruct x; try discriminate; destruct y; try discriminate; reflexivity.
      * destruct pt; try discriminate.
        rewrite (eqc_map ctx t true _ _ _ _ _ Ha P), (eqc_map ctx (non_null t) false _ _ _ _ _ Ha' E).
        rewrite needs_non_null. simpl. rewrite andb_false_r.
        destruct x; try discriminate; destruct y; try discriminate; reflexivity.
      * rewrite (eqc_gen ctx t true _ _ _ Ha P A M). simpl.
        rewrite (eqc_gen ctx t false _ _ _ Ha P A M), (eqc_gen ctx (non_null t) false _ _ _ Ha' E A M).
        reflexivity.
    + rewrite (eqc_unfold ctx t), Ha, P. rewrite (eqc_unfold ctx (non_null t)), Ha', E. reflexivity.
  - pose proof (payload_self ctx t R) as P.
    assert (R' : is_reflike (non_null t) = false) by (destruct t; auto).
    pose proof (payload_self ctx (non_null t) R') as P'.
    destruct t; try discriminate; try (unfold is_ptr in Hp; rewrite andb_false_r in Hp; discriminate).
    + rewrite (eqc_gen ctx _ true _ _ _ Ha P eq_refl eq_refl). simpl.
      rewrite (eqc_gen ctx _ false _ _ _ Ha P eq_refl eq_refl), (eqc_gen ctx _ false _ _ _ Ha' P' eq_refl eq_refl).
      reflexivity.
    + rewrite (eqc_gen ctx _ true _ _ _ Ha P eq_refl eq_refl). simpl.
      rewrite (eqc_gen ctx _ false _ _ _ Ha P eq_refl eq_refl), (eqc_gen ctx _ false _ _ _ Ha' P' eq_refl eq_refl).
      reflexivity.
Qed.

(* ====================================================================== *)
(* Part 6: the generated Equals refines vsim on aligned, well-typed values *)
(* ====================================================================== *)
Lemma all2_ext_gen {A} (P : A -> bool) (R f g : A -> A -> bool) la lb :
  Forall (fun x => forall y, P x = true -> P y = true -> R x y = true -> f x y = g x y) la ->
  forallb P la = true -> forallb P lb = true -> all2p R la lb = true -> all2 f la lb = all2 g la lb.
Proof.
  intros H; revert lb; induction H as [|x r Hx Hr IH]; intros [|y s] Pa Pb HR; simpl in *; auto.
  apply andb_true_iff in Pa, Pb, HR. destruct Pa, Pb, HR. rewrite Hx, IH; auto.
Qed.
Lemma all2_all2p {A B} (f : A -> B -> bool) la lb : all2 f la lb = true -> all2p f la lb = true.
Proof.
  revert lb; induction la as [|x r IH]; intros [|y s] H; simpl in *; auto; try discriminate.
  apply andb_true_iff in H. destruct H as [H1 H2]. rewrite H1. simpl. auto.
Qed.
Lemma keq_drop {V} (h f : V -> V -> bool) (la lb : list (string * V)) :
  all2 (keq h) la lb = true -> all2 (keq f) la lb = all2 (snd2 f) la lb.
Proof.
  revert lb; induction la as [|p r IH]; intros [|q s] H; simpl in *; auto.
  apply andb_true_iff in H. destruct H as [H1 H2]. unfold keq in H1. apply andb_true_iff in H1. destruct H1 as [H1 _].
  unfold keq at 1. rewrite H1. simpl. unfold snd2 at 1. f_equal. auto.
Qed.

Lemma str_in_In (k : string) (y : gval) r : In (k, y) r -> str_in k (map fst r) = true.
Proof.
  induction r as [|[k' v] r IH]; simpl; intros H; [contradiction|].
  destruct H as [H|H].
  - inversion H; subst. rewrite String.eqb_refl. reflexivity.
  - rewrite (IH H). apply orb_true_r.
Qed.
Lemma nodup_find l k y : str_nodup (map fst l) = true -> In (k, y) l -> gmap_find l k = Some y.
Proof.
  induction l as [|[k' v] r IH]; simpl; intros N H; [contradiction|].
  apply andb_true_iff in N. destruct N as [N1 N2]. destruct H as [H|H].
  - inversion H; subst. rewrite seqb_refl. reflexivity.
  - destruct (seqb k' k) eqn:E.
    + apply seqb_eq in E. subst. rewrite (str_in_In _ _ _ H) in N1. discriminate.
    + auto.
Qed.
Lemma forallb_lookup {V} (h : V -> gval -> bool) (F : V -> gval -> bool) z (la : list (string * V)) lb L :
  all2 (keq h) la lb = true -> (forall k y, In (k, y) lb -> gmap_find L k = Some y) ->
  forallb (fun kv => F (snd kv) (match gmap_find L (fst kv) with Some y => y | None => z end)) la
  = all2 (snd2 F) la lb.
Proof.
  revert lb; induction la as [|p r IH]; intros [|[k' y] s] H HL; simpl in *; auto; try discriminate.
  apply andb_true_iff in H. destruct H as [H1 H2]. unfold keq in H1. apply andb_true_iff in H1. destruct H1 as [H1 _].
  apply seqb_eq in H1. simpl in H1. rewrite H1. rewrite (HL k' y (or_introl eq_refl)).
  unfold snd2 at 1. simpl. f_equal. apply IH; auto.
Qed.

Lemma needs_false t : is_ptr t = false -> needs t = false.
Proof.
  intros H. unfold needs. destruct (is_ref t) eqn:R; auto. rewrite <- (is_ref_is_ptr _ R). rewrite H. reflexivity.
Qed.
Lemma needs_true ctx t pt : is_ptr t = true -> payload_type ctx t = PTy pt ->
  (is_array pt || is_map pt)%bool = true -> needs t = true.
Proof.
  intros Hp P A. destruct t; try (unfold is_ptr in Hp; rewrite andb_false_r in Hp; discriminate).
  - simpl in P. inversion P; subst. discriminate.
  - unfold needs. simpl. apply is_ptr_nullable in Hp. exact Hp.
  - simpl in P. inversion P; subst. discriminate.
Qed.

Section Refine.
  Variable ctx : schemas.
  Hypothesis Hc : ctx_supported ctx = true.

  Definition refines (a : gval) : Prop :=
    forall t b, ty_supported ctx t = true -> wt ctx t a = true -> wt ctx t b = true ->
                keys_aligned a b = true -> eqc ctx t (t_nullable t) a b = vsim a b.

  Lemma leaf_case a : is_leaf a = true -> refines a.
  Proof.
    intros L t b Hs Ha Hb _.
    destruct (wt_leaf_inv _ _ _ L Ha) as [Hany [Hptr [pt [Hpt Hl]]]].
    destruct (leaf_ty_shape _ _ Hl) as [S1 [S2 S3]].
    rewrite (nullable_is_ptr _ _ _ Hs Hany Hpt S1 S2), Hptr.
    rewrite (eqc_gen _ _ _ _ _ _ Hany Hpt S1 S2).
    pose proof (cf_leaf _ _ _ _ Hany Hptr Hpt S1 S2 S3 Hb) as Lb.
    destruct pt; try discriminate; destruct a; try discriminate; destruct b; try discriminate; reflexivity.
  Qed.

  Lemma fields_case : forall fa fs fb,
    Forall (fun kv => refines (snd kv)) fa ->
    forallb (fun f => ty_supported ctx (f_type f)) fs = true ->
    wt_fields ctx fs fa = true -> wt_fields ctx fs fb = true ->
    all2p (snd2 keys_aligned) fa fb = true ->
    eq_fields ctx fs fa fb = all2 (keq vsim) fa fb.
  Proof.
    intros fa fs fb H; revert fs fb; induction H as [|[n x] ar Hx Hr IH]; intros fs fb Hs Wa Wb K.
    - destruct fs; simpl in Wa; try discriminate. destruct fb as [|[n' y] br]; simpl in Wb; try discriminate. reflexivity.
    - destruct fs as [|f fr]; simpl in Wa; try discriminate.
      destruct fb as [|[n' y] br]; simpl in Wb; try discriminate.
      simpl in Hs. apply andb_true_iff in Hs. destruct Hs as [Hs1 Hs2].
      apply andb_true_iff in Wa. destruct Wa as [Wa Wa3]. apply andb_true_iff in Wa. destruct Wa as [Wa1 Wa2].
      apply andb_true_iff in Wb. destruct Wb as [Wb Wb3]. apply andb_true_iff in Wb. destruct Wb as [Wb1 Wb2].
      simpl in K. apply andb_true_iff in K. destruct K as [K1 K2]. unfold snd2 in K1. simpl in K1, Hx.
      simpl. unfold keq at 1. simpl.
      apply seqb_eq in Wa1, Wb1. subst. rewrite seqb_refl. simpl.
      rewrite (Hx _ _ Hs1 Wa2 Wb2 K1). f_equal. apply IH; auto.
  Qed.

  Lemma eqc_vsim : forall a, refines a.
  Proof.
    induction a using gval_ind'.
    2-6: apply leaf_case; reflexivity.
    - (* GNil *)
      intros t b Hs Ha Hb Hk.
      destruct (wt_nil_inv _ _ Ha) as [Hany | [Hany [pt [Hpt Hcase]]]].
      + rewrite eqc_any by auto. destruct (cf_any _ _ _ Hany Hb) as [-> | [j ->]]; reflexivity.
      + destruct Hcase as [Hptr | [Hptr Ham]].
        * pose proof (is_ptr_nullable _ Hptr) as Hn.
          destruct (cf_ptr _ _ _ Hany Hptr Hb) as [-> | [y [-> [Hy Hwy]]]].
          -- rewrite eqc_unfold, Hany, Hpt, Hn. destruct pt; simpl; rewrite ?andb_false_r; reflexivity.
          -- destruct (is_array pt || is_map pt)%bool eqn:A.
             ++ pose proof (needs_true _ _ _ Hptr Hpt A) as Hnd.
                rewrite eqc_unfold, Hany, Hpt, Hnd. destruct pt; try discriminate; reflexivity.
             ++ apply orb_false_iff in A. destruct A as [A1 A2].
                rewrite (eqc_gen _ _ _ _ _ _ Hany Hpt A1 A2), Hn. reflexivity.
        * pose proof (needs_false _ Hptr) as Hnd. destruct pt; try discriminate.
          -- rewrite (eqc_arr _ _ _ _ _ _ _ Hany Hpt), Hnd.
             destruct (cf_arr _ _ _ _ _ Hany Hptr Hpt Hb) as [-> | [l [-> _]]]; [reflexivity|].
             destruct l; reflexivity.
          -- rewrite (eqc_map _ _ _ _ _ _ _ _ Hany Hpt), Hnd.
             destruct (cf_map _ _ _ _ _ _ Hany Hptr Hpt Hb) as [-> | [l [-> _]]]; [reflexivity|].
             destruct l; reflexivity.
    - (* GPtr *)
      intros t b Hs Ha Hb Hk.
      destruct (wt_ptr_inv _ _ _ Ha) as [Hany [Hptr [[pt Hpt] [Hx Hwx]]]].
      pose proof (is_ptr_nullable _ Hptr) as Hn.
      destruct (cf_ptr _ _ _ Hany Hptr Hb) as [-> | [y [-> [Hy Hwy]]]].
      + destruct (is_array pt || is_map pt)%bool eqn:A.
        * pose proof (needs_true _ _ _ Hptr Hpt A) as Hnd.
          rewrite eqc_unfold, Hany, Hpt, Hnd. destruct pt; try discriminate; reflexivity.
        * apply orb_false_iff in A. destruct A as [A1 A2].
          rewrite (eqc_gen _ _ _ _ _ _ Hany Hpt A1 A2), Hn. reflexivity.
      + rewrite Hn, (eqc_ptr _ _ _ _ Hptr Hx Hy).
        pose proof (IHa (non_null t) y (supported_non_null _ _ Hs) Hwx Hwy Hk) as E.
        rewrite non_null_nullable in E. exact E.
    - (* GSlice *)
      intros t b Hs Ha Hb Hk.
      destruct (wt_slice_inv _ _ _ Ha) as [Hany [Hptr [a0 [et [Hpt Hwl]]]]].
      pose proof (payload_supported _ _ _ Hc Hs Hpt) as Hse. simpl in Hse. apply andb_true_iff in Hse. destruct Hse as [_ Hse].
      rewrite (eqc_arr _ _ _ _ _ _ _ Hany Hpt), (needs_false _ Hptr). cbn [andb].
      destruct (cf_arr _ _ _ _ _ Hany Hptr Hpt Hb) as [-> | [l' [-> Hwl']]].
      + destruct l; reflexivity.
      + rewrite vsim_slice. rewrite ka_slice_eq in Hk. simpl.
        apply (all2_ext_gen (wt ctx et) keys_aligned); auto.
        eapply Forall_impl; [|exact H]. intros x Hx y W1 W2 K. apply Hx; auto.
    - (* GMap *)
      intros t b Hs Ha Hb Hk.
      destruct (wt_map_inv _ _ _ Ha) as [Hany [Hptr [a0 [it [vt [Hpt [Hnd Hwl]]]]]]].
      pose proof (payload_supported _ _ _ Hc Hs Hpt) as Hse. simpl in Hse.
      apply andb_true_iff in Hse. destruct Hse as [_ Hse].
      rewrite (eqc_map _ _ _ _ _ _ _ _ Hany Hpt), (needs_false _ Hptr). cbn [andb].
      destruct (cf_map _ _ _ _ _ _ Hany Hptr Hpt Hb) as [-> | [l' [-> [Hnd' Hwl']]]].
      + destruct l; reflexivity.
      + rewrite vsim_map. rewrite ka_map_eq in Hk. simpl. unfold eq_map.
        rewrite (all2_length _ _ _ Hk), Nat.eqb_refl. simpl.
        rewrite (forallb_lookup keys_aligned (eqc ctx vt (t_nullable vt)) _ _ _ _ Hk
                   (fun k y HI => nodup_find _ _ _ Hnd' HI)).
        rewrite (keq_drop _ vsim _ _ Hk).
        apply (all2_ext_gen (fun kv => wt ctx vt (snd kv)) (keq keys_aligned)); auto.
        * eapply Forall_impl; [|exact H]. intros x Hx y W1 W2 K. unfold snd2. apply Hx; auto.
          unfold keq in K. apply andb_true_iff in K. tauto.
        * apply all2_all2p. exact Hk.
    - (* GStruct *)
      intros t b Hs Ha Hb Hk.
      destruct (wt_struct_inv _ _ _ Ha) as [Hany [Hptr [a0 [dh [fs [Hpt [Hu Hwl]]]]]]].
      pose proof (payload_supported _ _ _ Hc Hs Hpt) as Hse. simpl in Hse.
      rewrite (nullable_is_ptr _ _ _ Hs Hany Hpt eq_refl eq_refl), Hptr.
      rewrite (eqc_gen _ _ _ _ _ _ Hany Hpt eq_refl eq_refl).
      destruct (cf_struct _ _ _ _ _ _ Hany Hptr Hpt Hb) as [l' [-> [Hu' Hwl']]].
      rewrite vsim_struct. rewrite ka_struct_eq in Hk. simpl.
      apply fields_case; auto.
    - (* GAny *)
      intros t b Hs Ha Hb Hk.
      pose proof (wt_any_inv _ _ _ Ha) as Hany. rewrite eqc_any by auto.
      destruct (cf_any _ _ _ Hany Hb) as [-> | [j' ->]]; reflexivity.
  Qed.
End Refine.

(* ====================================================================== *)
(* Part 7: vsim is transitive on values of one type                       *)
(* ====================================================================== *)
Lemma all2_trans_gen {A} (P : A -> bool) (f : A -> A -> bool) la lb lc :
  Forall (fun x => forall y z, P x = true -> P y = true -> P z = true ->
                               f x y = true -> f y z = true -> f x z = true) la ->
  forallb P la = true -> forallb P lb = true -> forallb P lc = true ->
  all2 f la lb = true -> all2 f lb lc = true -> all2 f la lc = true.
Proof.
  intros H; revert lb lc; induction H as [|x r Hx Hr IH]; intros [|y s] [|z u] Pa Pb Pc E1 E2;
    simpl in *; auto; try discriminate.
  apply andb_true_iff in Pa, Pb, Pc, E1, E2. destruct Pa, Pb, Pc, E1, E2.
  rewrite (Hx y z); auto. simpl. apply (IH s u); auto.
Qed.

Lemma leaf_eq_eq a b : is_leaf a = true -> leaf_eq a b = true -> a = b.
Proof.
  destruct a; try discriminate; destruct b; try discriminate; simpl; intros _ E.
  - apply Bool.eqb_prop in E. congruence.
  - apply Z.eqb_eq in E. congruence.
  - apply andb_true_iff in E. destruct E as [E1 E2]. apply Z.eqb_eq in E1, E2. congruence.
  - apply String.eqb_eq in E. congruence.
  - apply andb_true_iff in E. destruct E as [E1 E2]. apply String.eqb_eq in E1. apply Bool.eqb_prop in E2. congruence.
Qed.
Lemma vsim_leaf a b : is_leaf a = true -> vsim a b = leaf_eq a b.
Proof. destruct a; try discriminate; destruct b; reflexivity. Qed.

Section Trans.
  Variable ctx : schemas.
  Hypothesis Hc : ctx_supported ctx = true.

  Definition transitive_at (a : gval) : Prop :=
    forall t b c, ty_supported ctx t = true -> wt ctx t a = true -> wt ctx t b = true -> wt ctx t c = true ->
                  vsim a b = true -> vsim b c = true -> vsim a c = true.

  Lemma fields_trans : forall fa fs fb fc,
    Forall (fun kv => transitive_at (snd kv)) fa ->
    forallb (fun f => ty_supported ctx (f_type f)) fs = true ->
    wt_fields ctx fs fa = true -> wt_fields ctx fs fb = true -> wt_fields ctx fs fc = true ->
    all2 (keq vsim) fa fb = true -> all2 (keq vsim) fb fc = true -> all2 (keq vsim) fa fc = true.
  Proof.
    intros fa fs fb fc H; revert fs fb fc; induction H as [|[n x] ar Hx Hr IH]; intros fs fb fc Hs Wa Wb Wc E1 E2.
    - destruct fb; simpl in E1; try discriminate. exact E2.
    - destruct fs as [|f fr]; simpl in Wa; try discriminate.
      destruct fb as [|[n' y] br]; simpl in Wb; try discriminate.
      destruct fc as [|[n'' z] cr]; simpl in Wc; try discriminate.
      simpl in Hs. apply andb_true_iff in Hs. destruct Hs as [Hs1 Hs2].
      apply andb_true_iff in Wa. destruct Wa as [Wa Wa3]. apply andb_true_iff in Wa. destruct Wa as [Wa1 Wa2].
      apply andb_true_iff in Wb. destruct Wb as [Wb Wb3]. apply andb_true_iff in Wb. destruct Wb as [Wb1 Wb2].
      apply andb_true_iff in Wc. destruct Wc as [Wc Wc3]. apply andb_true_iff in Wc. destruct Wc as [Wc1 Wc2].
      simpl in E1, E2. apply andb_true_iff in E1, E2. destruct E1 as [E1 E1r], E2 as [E2 E2r].
      unfold keq in E1, E2. simpl in E1, E2. apply andb_true_iff in E1, E2. destruct E1 as [_ E1], E2 as [_ E2].
      apply seqb_eq in Wa1, Wc1. subst. simpl. unfold keq at 1. simpl. rewrite seqb_refl. simpl in Hx.
      rewrite (Hx _ _ _ Hs1 Wa2 Wb2 Wc2 E1 E2). simpl. apply (IH fr br cr); auto.
  Qed.

  Lemma vsim_trans : forall a, transitive_at a.
  Proof.
    induction a using gval_ind'.
    2-6: (intros t vb vc Hs Ha Hb Hc' E1 E2; rewrite vsim_leaf in E1 by reflexivity;
          apply leaf_eq_eq in E1; [subst vb; exact E2|reflexivity]).
    - (* GNil *)
      intros t b c Hs Ha Hb Hc' E1 E2.
      destruct (wt_nil_inv _ _ Ha) as [Hany | [Hany [pt [Hpt Hcase]]]].
      + destruct (cf_any _ _ _ Hany Hb) as [-> | [j ->]]; [exact E2|discriminate].
      + destruct Hcase as [Hptr | [Hptr Ham]].
        * destruct (cf_ptr _ _ _ Hany Hptr Hb) as [-> | [y [-> _]]]; [exact E2|discriminate].
        * destruct pt; try discriminate.
          -- destruct (cf_arr _ _ _ _ _ Hany Hptr Hpt Hb) as [-> | [l [-> _]]]; [exact E2|].
             destruct l; try discriminate.
             destruct (cf_arr _ _ _ _ _ Hany Hptr Hpt Hc') as [-> | [l' [-> _]]]; [reflexivity|].
             destruct l'; try discriminate. reflexivity.
          -- destruct (cf_map _ _ _ _ _ _ Hany Hptr Hpt Hb) as [-> | [l [-> _]]]; [exact E2|].
             destruct l; try discriminate.
             destruct (cf_map _ _ _ _ _ _ Hany Hptr Hpt Hc') as [-> | [l' [-> _]]]; [reflexivity|].
             destruct l'; try discriminate. reflexivity.
    - (* GPtr *)
      intros t b c Hs Ha Hb Hc' E1 E2.
      destruct (wt_ptr_inv _ _ _ Ha) as [Hany [Hptr [[pt Hpt] [Hx Hwx]]]].
      destruct (cf_ptr _ _ _ Hany Hptr Hb) as [-> | [y [-> [Hy Hwy]]]]; [discriminate|].
      destruct (cf_ptr _ _ _ Hany Hptr Hc') as [-> | [z [-> [Hz Hwz]]]]; [discriminate|].
      simpl in E1, E2 |- *. apply (IHa (non_null t) y z); auto using supported_non_null.
    - (* GSlice *)
      intros t b c Hs Ha Hb Hc' E1 E2.
      destruct (wt_slice_inv _ _ _ Ha) as [Hany [Hptr [a0 [et [Hpt Hwl]]]]].
      pose proof (payload_supported _ _ _ Hc Hs Hpt) as Hse. simpl in Hse. apply andb_true_iff in Hse. destruct Hse as [_ Hse].
      destruct (cf_arr _ _ _ _ _ Hany Hptr Hpt Hb) as [-> | [l' [-> Hwl']]];
        destruct (cf_arr _ _ _ _ _ Hany Hptr Hpt Hc') as [-> | [l'' [-> Hwl'']]].
      + exact E1.
      + destruct l; try discriminate. destruct l''; try discriminate. reflexivity.
      + destruct l'; try discriminate. rewrite vsim_slice in E1. destruct l; try discriminate. reflexivity.
      + rewrite vsim_slice in *. apply (all2_trans_gen (wt ctx et) vsim l l' l''); auto.
        eapply Forall_impl; [|exact H]. intros x Hx y z W1 W2 W3 F1 F2. apply (Hx et y z); auto.
    - (* GMap *)
      intros t b c Hs Ha Hb Hc' E1 E2.
      destruct (wt_map_inv _ _ _ Ha) as [Hany [Hptr [a0 [it [vt [Hpt [Hnd Hwl]]]]]]].
      pose proof (payload_supported _ _ _ Hc Hs Hpt) as Hse. simpl in Hse.
      apply andb_true_iff in Hse. destruct Hse as [_ Hse].
      destruct (cf_map _ _ _ _ _ _ Hany Hptr Hpt Hb) as [-> | [l' [-> [_ Hwl']]]];
        destruct (cf_map _ _ _ _ _ _ Hany Hptr Hpt Hc') as [-> | [l'' [-> [_ Hwl'']]]].
      + exact E1.
      + destruct l; try discriminate. destruct l''; try discriminate. reflexivity.
      + destruct l'; try discriminate. rewrite vsim_map in E1. destruct l; try discriminate. reflexivity.
      + rewrite vsim_map in *. apply (all2_trans_gen (fun kv => wt ctx vt (snd kv)) (keq vsim) l l' l''); auto.
        eapply Forall_impl; [|exact H]. intros x Hx y z W1 W2 W3 F1 F2. unfold keq in *.
        apply andb_true_iff in F1, F2. destruct F1 as [K1 F1], F2 as [K2 F2].
        apply seqb_eq in K1, K2. rewrite K1, K2, seqb_refl. simpl. apply (Hx vt (snd y) (snd z)); auto.
    - (* GStruct *)
      intros t b c Hs Ha Hb Hc' E1 E2.
      destruct (wt_struct_inv _ _ _ Ha) as [Hany [Hptr [a0 [dh [fs [Hpt [Hu Hwl]]]]]]].
      pose proof (payload_supported _ _ _ Hc Hs Hpt) as Hse. simpl in Hse.
      destruct (cf_struct _ _ _ _ _ _ Hany Hptr Hpt Hb) as [l' [-> [Hu' Hwl']]].
      destruct (cf_struct _ _ _ _ _ _ Hany Hptr Hpt Hc') as [l'' [-> [Hu'' Hwl'']]].
      rewrite vsim_struct in *. apply (fields_trans l fs l' l''); auto.
    - (* GAny *)
      intros t b c Hs Ha Hb Hc' E1 E2.
      pose proof (wt_any_inv _ _ _ Ha) as Hany.
      destruct (cf_any _ _ _ Hany Hb) as [-> | [j' ->]]; [discriminate|].
      simpl in E1. apply json_eqb_eq in E1. subst. exact E2.
  Qed.
End Trans.

(* ====================================================================== *)
(* Part 8: reflexivity, symmetry, transitivity of the generated Equals    *)
(* ====================================================================== *)
Lemma equals_refl : forall ctx t a,
  (ctx_supported ctx = true /\ ty_supported ctx t = true /\ wt ctx t a = true) ->
  eqc ctx t (t_nullable t) a a = true.
Proof.
  intros ctx t a [Hc [Hs Ha]]. rewrite (eqc_vsim ctx Hc a t a Hs Ha Ha (ka_refl a)). apply vsim_refl.
Qed.

Lemma equals_sym_partial : forall ctx t a b,
  (ctx_supported ctx = true /\ ty_supported ctx t = true /\ wt ctx t a = true) ->
  (ctx_supported ctx = true /\ ty_supported ctx t = true /\ wt ctx t b = true) ->
  keys_aligned a b = true ->
  eqc ctx t (t_nullable t) a b = eqc ctx t (t_nullable t) b a.
Proof.
  intros ctx t a b [Hc [Hs Ha]] [_ [_ Hb]] K.
  rewrite (eqc_vsim ctx Hc a t b Hs Ha Hb K).
  rewrite (eqc_vsim ctx Hc b t a Hs Hb Ha) by (rewrite ka_sym; exact K).
  apply vsim_sym.
Qed.

Lemma equals_trans_partial : forall ctx t a b c,
  (ctx_supported ctx = true /\ ty_supported ctx t = true /\ wt ctx t a = true) ->
  (ctx_supported ctx = true /\ ty_supported ctx t = true /\ wt ctx t b = true) ->
  (ctx_supported ctx = true /\ ty_supported ctx t = true /\ wt ctx t c = true) ->
  keys_aligned a b = true -> keys_aligned b c = true ->
  eqc ctx t (t_nullable t) a b = true -> eqc ctx t (t_nullable t) b c = true ->
  eqc ctx t (t_nullable t) a c = true.
Proof.
  intros ctx t a b c [Hc [Hs Ha]] [_ [_ Hb]] [_ [_ Hc']] K1 K2 E1 E2.
  rewrite (eqc_vsim ctx Hc a t b Hs Ha Hb K1) in E1.
  rewrite (eqc_vsim ctx Hc b t c Hs Hb Hc' K2) in E2.
  pose proof (vsim_trans ctx Hc a t b c Hs Ha Hb Hc' E1 E2) as E3.
  rewrite (eqc_vsim ctx Hc a t c Hs Ha Hc' (vsim_aligned _ _ E3)). exact E3.
Qed.

(* ====================================================================== *)
(* Part 9: vsim-related values have the same encoding up to empties       *)
(* ====================================================================== *)
Definition enc_fields (ctx : schemas) :=
  fix go (fs : list field) (fvs : list (string * gval)) {struct fvs} : list (string * json) :=
    match fs, fvs with
    | f :: fr, (_, fv) :: vr =>
        if (negb (f_required f) && is_empty_value fv)%bool then go fr vr
        else (f_name f, encode ctx (f_type f) fv) :: go fr vr
    | _, _ => []
    end.
Definition enc_union (ctx : schemas) :=
  fix go (fs : list field) (fvs : list (string * gval)) {struct fvs} : json :=
    match fs, fvs with
    | f :: fr, (_, fv) :: vr =>
        match fv with GNil => go fr vr | _ => encode ctx (f_type f) fv end
    | _, _ => JNull
    end.

Lemma encode_struct ctx t fvs a dh fs : payload_or_self ctx t = TStruct a dh fs ->
  encode ctx t (GStruct fvs) =
  match union_scalars (TStruct a dh fs), union_refs (TStruct a dh fs) with
  | None, None => JObj (enc_fields ctx fs fvs)
  | _, _ => enc_union ctx fs fvs
  end.
Proof. intros H. simpl. rewrite H. reflexivity. Qed.
Lemma enc_union_cons ctx f fr n x ar :
  enc_union ctx (f :: fr) ((n, x) :: ar) = if is_nil x then enc_union ctx fr ar else encode ctx (f_type f) x.
Proof. destruct x; reflexivity. Qed.

Definition N (j : json) : json := null_if_empty (erase_empty j).
Definition keepf (k : string) (v : json) (acc : list (string * json)) : list (string * json) :=
  if is_emptyish v then acc else (k, v) :: acc.
Definition K (kv : string * json) (acc : list (string * json)) := keepf (fst kv) (N (snd kv)) acc.

Lemma keep_nie k v acc : (if is_emptyish v then acc else (k, v) :: acc) = keepf k (null_if_empty v) acc.
Proof.
  unfold null_if_empty, keepf. destruct (is_emptyish v) eqn:E; simpl; [reflexivity|rewrite E; reflexivity].
Qed.
Lemma erase_obj ms : erase_empty (JObj ms) = JObj (fold_right K [] ms).
Proof.
  simpl. f_equal. induction ms as [|kv r IH]; simpl; auto. rewrite IH. unfold K at 1, N. apply keep_nie.
Qed.
Lemma erase_arr l : erase_empty (JArr l) = JArr (map N l).
Proof. reflexivity. Qed.

Lemma nilish_enc ctx t x : vsim GNil x = true -> N (encode ctx t x) = JNull.
Proof.
  destruct x as [| | | | | | |l|l| |]; try discriminate; intros E.
  - reflexivity.
  - destruct l; try discriminate. simpl. destruct (payload_or_self ctx t); reflexivity.
  - destruct l; try discriminate. simpl. destruct (payload_or_self ctx t); reflexivity.
Qed.
Lemma nilish_enc' ctx t x : vsim x GNil = true -> N (encode ctx t x) = JNull.
Proof. rewrite vsim_sym. apply nilish_enc. Qed.

Lemma map_sim {A B} (P : A -> bool) (f : A -> A -> bool) (g : A -> B) la lb :
  Forall (fun x => forall y, P x = true -> P y = true -> f x y = true -> g x = g y) la ->
  forallb P la = true -> forallb P lb = true -> all2 f la lb = true -> map g la = map g lb.
Proof.
  intros H; revert lb; induction H as [|x r Hx Hr IH]; intros [|y s] Pa Pb E; simpl in *; auto; try discriminate.
  apply andb_true_iff in Pa, Pb, E. destruct Pa, Pb, E. f_equal; auto.
Qed.
Lemma obj_sim (P : string * gval -> bool) (g : gval -> json) la lb :
  Forall (fun x => forall y, P x = true -> P y = true -> vsim (snd x) (snd y) = true -> N (g (snd x)) = N (g (snd y))) la ->
  forallb P la = true -> forallb P lb = true -> all2 (keq vsim) la lb = true ->
  fold_right K [] (map (fun kv => (fst kv, g (snd kv))) la) = fold_right K [] (map (fun kv => (fst kv, g (snd kv))) lb).
Proof.
  intros H; revert lb; induction H as [|x r Hx Hr IH]; intros [|y s] Pa Pb E; simpl in *; auto; try discriminate.
  apply andb_true_iff in Pa, Pb, E. destruct Pa, Pb, E as [E1 E2]. unfold keq in E1. apply andb_true_iff in E1.
  destruct E1 as [E0 E1]. apply seqb_eq in E0. unfold K at 1 3. simpl. rewrite E0, (Hx y), (IH s); auto.
Qed.

Definition nonnil (nv : string * gval) : bool := negb (is_nil (snd nv)).
Definition count1 (l : list (string * gval)) : bool := Nat.leb (List.length (filter nonnil l)) 1.
Lemma count0_allnil l : List.length (filter nonnil l) = 0%nat -> forallb (fun nv => is_nil (snd nv)) l = true.
Proof.
  induction l as [|[n x] r IH]; simpl; auto. unfold nonnil at 1. simpl.
  destruct (is_nil x); simpl; auto. discriminate.
Qed.
Lemma count1_cons n x r : count1 ((n, x) :: r) = true ->
  if is_nil x then count1 r = true else forallb (fun nv => is_nil (snd nv)) r = true.
Proof.
  unfold count1. simpl. unfold nonnil at 1. simpl. destruct (is_nil x); simpl; auto.
  intros H. apply count0_allnil. destruct (List.length (filter nonnil r)); auto. discriminate.
Qed.

Section Enc.
  Variable ctx : schemas.
  Hypothesis Hc : ctx_supported ctx = true.

  Definition enc_sim (a : gval) : Prop :=
    forall t b, ty_supported ctx t = true -> wt ctx t a = true -> wt ctx t b = true ->
                vsim a b = true -> N (encode ctx t a) = N (encode ctx t b).

  Lemma payload_or_self_eq t pt : payload_type ctx t = PTy pt -> payload_or_self ctx t = pt.
  Proof. unfold payload_or_self. intros ->. reflexivity. Qed.

  Lemma union_allnil_r : forall ar fr br,
    all2 (keq vsim) ar br = true -> forallb (fun nv => is_nil (snd nv)) br = true ->
    N (enc_union ctx fr ar) = JNull.
  Proof.
    induction ar as [|[n x] ar IH]; intros fr br E A.
    - destruct fr; reflexivity.
    - destruct fr as [|f fr]; [reflexivity|]. destruct br as [|[n' y] br]; simpl in E; try discriminate.
      apply andb_true_iff in E. destruct E as [E1 E2]. unfold keq in E1. simpl in E1.
      apply andb_true_iff in E1. destruct E1 as [_ E1].
      simpl in A. apply andb_true_iff in A. destruct A as [A1 A2]. destruct y; try discriminate.
      rewrite enc_union_cons. destruct (is_nil x).
      + eapply IH; eauto.
      + apply nilish_enc'. exact E1.
  Qed.
  Lemma union_allnil_l : forall ar fr br,
    all2 (keq vsim) ar br = true -> forallb (fun nv => is_nil (snd nv)) ar = true ->
    N (enc_union ctx fr br) = JNull.
  Proof.
    induction ar as [|[n x] ar IH]; intros fr br E A.
    - destruct br; simpl in E; try discriminate. destruct fr; reflexivity.
    - destruct br as [|[n' y] br]; simpl in E; try discriminate.
      destruct fr as [|f fr]; [reflexivity|].
      apply andb_true_iff in E. destruct E as [E1 E2]. unfold keq in E1. simpl in E1.
      apply andb_true_iff in E1. destruct E1 as [_ E1].
      simpl in A. apply andb_true_iff in A. destruct A as [A1 A2]. destruct x; try discriminate.
      rewrite enc_union_cons. destruct (is_nil y).
      + eapply IH; eauto.
      + apply nilish_enc. exact E1.
  Qed.

  Lemma union_sim : forall fa fs fb,
    Forall (fun kv => enc_sim (snd kv)) fa ->
    forallb (fun f => ty_supported ctx (f_type f)) fs = true ->
    wt_fields ctx fs fa = true -> wt_fields ctx fs fb = true ->
    count1 fa = true -> count1 fb = true ->
    all2 (keq vsim) fa fb = true ->
    N (enc_union ctx fs fa) = N (enc_union ctx fs fb).
  Proof.
    intros fa fs fb H; revert fs fb; induction H as [|[n x] ar Hx Hr IH]; intros fs fb Hs Wa Wb Ca Cb E.
    - destruct fb; simpl in E; try discriminate. reflexivity.
    - destruct fs as [|f fr]; simpl in Wa; try discriminate.
      destruct fb as [|[n' y] br]; simpl in Wb; try discriminate.
      simpl in Hs. apply andb_true_iff in Hs. destruct Hs as [Hs1 Hs2].
      apply andb_true_iff in Wa. destruct Wa as [Wa Wa3]. apply andb_true_iff in Wa. destruct Wa as [Wa1 Wa2].
      apply andb_true_iff in Wb. destruct Wb as [Wb Wb3]. apply andb_true_iff in Wb. destruct Wb as [Wb1 Wb2].
      simpl in E. apply andb_true_iff in E. destruct E as [E1 E2]. unfold keq in E1. simpl in E1.
      apply andb_true_iff in E1. destruct E1 as [_ E1].
      apply count1_cons in Ca, Cb. rewrite !enc_union_cons. simpl in Hx.
      destruct (is_nil x) eqn:Nx, (is_nil y) eqn:Ny.
      + apply IH; auto.
      + destruct x; try discriminate. rewrite (nilish_enc _ _ _ E1).
        eapply union_allnil_r; eauto.
      + destruct y; try discriminate. rewrite (nilish_enc' _ _ _ E1).
        symmetry. eapply union_allnil_l; eauto.
      + apply Hx; auto.
  Qed.

  Lemma fields_sim : forall fa fs fb,
    Forall (fun kv => enc_sim (snd kv)) fa ->
    forallb (fun f => ty_supported ctx (f_type f)) fs = true ->
    wt_fields ctx fs fa = true -> wt_fields ctx fs fb = true ->
    all2 (keq vsim) fa fb = true ->
    fold_right K [] (enc_fields ctx fs fa) = fold_right K [] (enc_fields ctx fs fb).
  Proof.
    intros fa fs fb H; revert fs fb; induction H as [|[n x] ar Hx Hr IH]; intros fs fb Hs Wa Wb E.
    - destruct fb; simpl in E; try discriminate. destruct fs; reflexivity.
    - destruct fs as [|f fr]; simpl in Wa; try discriminate.
      destruct fb as [|[n' y] br]; simpl in Wb; try discriminate.
      simpl in Hs. apply andb_true_iff in Hs. destruct Hs as [Hs1 Hs2].
      apply andb_true_iff in Wa. destruct Wa as [Wa Wa3]. apply andb_true_iff in Wa. destruct Wa as [Wa1 Wa2].
      apply andb_true_iff in Wb. destruct Wb as [Wb Wb3]. apply andb_true_iff in Wb. destruct Wb as [Wb1 Wb2].
      simpl in E. apply andb_true_iff in E. destruct E as [E1 E2]. unfold keq in E1. simpl in E1.
      apply andb_true_iff in E1. destruct E1 as [_ E1]. simpl in Hx.
      simpl. rewrite (vsim_empty _ _ E1).
      destruct (negb (f_required f) && is_empty_value y)%bool.
      + apply IH; auto.
      + simpl. unfold K at 1 3. simpl. rewrite (Hx _ _ Hs1 Wa2 Wb2 E1), (IH fr br); auto.
  Qed.

  Lemma encode_sim : forall a, enc_sim a.
  Proof.
    induction a using gval_ind'.
    2-6: (intros t vb Hs Ha Hb E; rewrite vsim_leaf in E by reflexivity;
          apply leaf_eq_eq in E; [subst vb; reflexivity|reflexivity]).
    - (* GNil *)
      intros t b Hs Ha Hb E. rewrite (nilish_enc _ _ _ E). reflexivity.
    - (* GPtr *)
      intros t b Hs Ha Hb E. destruct b; try discriminate.
      destruct (wt_ptr_inv _ _ _ Ha) as [_ [_ [_ [_ Hwx]]]].
      destruct (wt_ptr_inv _ _ _ Hb) as [_ [_ [_ [_ Hwy]]]].
      simpl in E |- *. apply IHa; auto using supported_non_null.
    - (* GSlice *)
      intros t b Hs Ha Hb E.
      destruct b as [| | | | | | |l'|l'| |]; try (destruct l; discriminate).
      + rewrite (nilish_enc' _ _ _ E). reflexivity.
      + destruct (wt_slice_inv _ _ _ Ha) as [Hany [Hptr [a0 [et [Hpt Hwl]]]]].
        pose proof (payload_supported _ _ _ Hc Hs Hpt) as Hse. simpl in Hse. apply andb_true_iff in Hse. destruct Hse as [_ Hse].
        destruct (cf_arr _ _ _ _ _ Hany Hptr Hpt Hb) as [X | [l2 [X Hwl']]]; inversion X; subst l2.
        rewrite vsim_slice in E. simpl. rewrite (payload_or_self_eq _ _ Hpt).
        unfold N at 1 2. rewrite !erase_arr, !map_map. f_equal. f_equal.
        apply (map_sim (wt ctx et) vsim); auto.
        eapply Forall_impl; [|exact H]. intros x Hx y W1 W2 F. apply Hx; auto.
    - (* GMap *)
      intros t b Hs Ha Hb E.
      destruct b as [| | | | | | |l'|l'| |]; try (destruct l; discriminate).
      + rewrite (nilish_enc' _ _ _ E). reflexivity.
      + destruct (wt_map_inv _ _ _ Ha) as [Hany [Hptr [a0 [it [vt [Hpt [Hnd Hwl]]]]]]].
        pose proof (payload_supported _ _ _ Hc Hs Hpt) as Hse. simpl in Hse.
        apply andb_true_iff in Hse. destruct Hse as [_ Hse].
        destruct (cf_map _ _ _ _ _ _ Hany Hptr Hpt Hb) as [X | [l2 [X [_ Hwl']]]]; inversion X; subst l2.
        rewrite vsim_map in E. simpl. rewrite (payload_or_self_eq _ _ Hpt).
        unfold N at 1 2. rewrite !erase_obj. f_equal. f_equal.
        apply (obj_sim (fun kv => wt ctx vt (snd kv)) (encode ctx vt)); auto.
        eapply Forall_impl; [|exact H]. intros x Hx y W1 W2 F. apply Hx; auto.
    - (* GStruct *)
      intros t b Hs Ha Hb E.
      destruct b as [| | | | | | |l'|l'|l'|]; try discriminate; try (destruct l'; discriminate).
      destruct (wt_struct_inv _ _ _ Ha) as [Hany [Hptr [a0 [dh [fs [Hpt [Hu Hwl]]]]]]].
      pose proof (payload_supported _ _ _ Hc Hs Hpt) as Hse. simpl in Hse.
      destruct (cf_struct _ _ _ _ _ _ Hany Hptr Hpt Hb) as [l2 [X [Hu' Hwl']]]; inversion X; subst l2.
      rewrite vsim_struct in E.
      rewrite !(encode_struct _ _ _ _ _ _ (payload_or_self_eq _ _ Hpt)).
      unfold union_wt in Hu, Hu'.
      destruct (union_scalars (TStruct a0 dh fs)), (union_refs (TStruct a0 dh fs)).
      1-3: apply union_sim; auto.
      unfold N. rewrite !erase_obj. f_equal. f_equal. apply fields_sim; auto.
    - (* GAny *)
      intros t b Hs Ha Hb E. destruct b as [| | | | | | |l'|l'| |]; try discriminate; try (destruct l'; discriminate).
      simpl in E. apply json_eqb_eq in E. subst. reflexivity.
  Qed.
End Enc.

Lemma json_eq_refl x : json_eq x x = true.
Proof. apply json_eqb_refl. Qed.

Lemma equals_implies_encode_eq_mod_empty_partial : forall ctx t a b,
  (ctx_supported ctx = true /\ ty_supported ctx t = true /\ wt ctx t a = true) ->
  (ctx_supported ctx = true /\ ty_supported ctx t = true /\ wt ctx t b = true) ->
  keys_aligned a b = true -> eqc ctx t (t_nullable t) a b = true ->
  json_eq_mod_empty (encode ctx t a) (encode ctx t b) = true.
Proof.
  intros ctx t a b [Hc [Hs Ha]] [_ [_ Hb]] K E.
  rewrite (eqc_vsim ctx Hc a t b Hs Ha Hb K) in E.
  pose proof (encode_sim ctx Hc a t b Hs Ha Hb E) as X. unfold N in X.
  unfold json_eq_mod_empty. rewrite X. apply json_eq_refl.
Qed.

Lemma single_leaf_difference_detected_partial : forall ctx t a b,
  (ctx_supported ctx = true /\ ty_supported ctx t = true /\ wt ctx t a = true) ->
  (ctx_supported ctx = true /\ ty_supported ctx t = true /\ wt ctx t b = true) ->
  keys_aligned a b = true ->
  json_eq_mod_empty (encode ctx t a) (encode ctx t b) = false ->
  eqc ctx t (t_nullable t) a b = false.
Proof.
  intros ctx t a b Ta Tb K D. destruct (eqc ctx t (t_nullable t) a b) eqn:E; auto.
  rewrite (equals_implies_encode_eq_mod_empty_partial ctx t a b Ta Tb K E) in D. discriminate.
Qed.

Print Assumptions equals_refl.
Print Assumptions equals_sym_refuted.
Print Assumptions equals_sym_partial.
Print Assumptions equals_trans_refuted.
Print Assumptions equals_trans_partial.
Print Assumptions equals_implies_encode_eq_mod_empty_refuted.
Print Assumptions equals_implies_encode_eq_mod_empty_partial.
Print Assumptions single_leaf_difference_detected_refuted.
Print Assumptions single_leaf_difference_detected_partial.
Print Assumptions encode_eq_implies_equals_refuted.
Print Assumptions c13_nonvacuous.
