(* C08 — proofs about the model of the generated Validate (coq/Model/GoSemValidate.v) against the
   specification `violations` (coq/Model/GoSemSpec08.v). *)
From Coq Require Import List String ZArith Bool Ascii Arith Lia.
From Cog Require Import Model.GoSem Model.GoSemSpec08 Model.GoSemSpec08F Model.GoSemSpec01 Proofs.GoSemEqualsProofs.
Import ListNotations.
Local Open Scope list_scope.
Local Open Scope string_scope.

(* ====================================================================== *)
(* Strings                                                                *)
(* ====================================================================== *)
Lemma app_assoc_s (a b c : string) : (a ++ b) ++ c = a ++ (b ++ c).
Proof. induction a as [|x a IH]; simpl; [reflexivity|]. rewrite IH. reflexivity. Qed.
Lemma app_ne_r (a b : string) : b <> "" -> a ++ b <> "".
Proof. destruct a; simpl; auto. discriminate. Qed.
Lemma app_cons_ne (a : string) c (b : string) : a ++ String c b <> "".
Proof. apply app_ne_r. discriminate. Qed.
Lemma eqb_empty_false (a : string) : a <> "" -> String.eqb a "" = false.
Proof. intros H. apply String.eqb_neq. exact H. Qed.

Lemma join_path_empty n : join_path "" n = n.
Proof. reflexivity. Qed.
Lemma join_path_ne b n : b <> "" -> join_path b n = b ++ "." ++ n.
Proof. intros H. unfold join_path. rewrite (eqb_empty_false _ H). reflexivity. Qed.
Lemma join_path_nonempty b n : n <> "" -> join_path b n <> "".
Proof.
  intros H. unfold join_path. destruct (String.eqb b ""); auto. apply app_cons_ne.
Qed.
Lemma join_path_app a b n : b <> "" -> join_path (a ++ b) n = a ++ join_path b n.
Proof.
  intros H. rewrite (join_path_ne b n H), (join_path_ne (a ++ b) n (app_ne_r a b H)).
  apply app_assoc_s.
Qed.

(* ====================================================================== *)
(* Unfolding vcheck and violations                                        *)
(* ====================================================================== *)
Definition vc_arr (ctx : schemas) (path : string) (et : ty) :=
  fix go (l : list gval) (i : nat) {struct l} : list string :=
    match l with
    | [] => []
    | x :: r => (vcheck ctx (path ++ "[" ++ itoa i ++ "]") et (t_nullable et) x ++ go r (S i))%list
    end.
Definition vc_map (ctx : schemas) (path : string) (vt : ty) (l : list (string * gval)) : list string :=
  flat_map (fun kv => vcheck ctx (path ++ "[" ++ fst kv ++ "]") vt (t_nullable vt) (snd kv)) l.
Definition vc_fields (ctx : schemas) (base : string) :=
  fix go (fs : list field) (fvs : list (string * gval)) {struct fvs} : list string :=
    match fs, fvs with
    | f :: fr, (_, fv) :: vr =>
        ((if rtc ctx (f_type f)
          then vcheck ctx (join_path base (f_name f)) (f_type f) (t_nullable (f_type f)) fv
          else []) ++ go fr vr)%list
    | _, _ => []
    end.
Definition cs_paths (path : string) (cs : list constraint) (v : gval) : list string :=
  flat_map (fun c => match constraint_holds c v with Some false => [path] | _ => [] end) cs.

Definition vc_plain (ctx : schemas) (path : string) (t pt : ty) (v : gval) : list string :=
  match pt with
  | TStruct _ _ fs =>
      if (is_ref t && negb (rtc ctx pt))%bool then [] else
      match v with
      | GStruct fvs =>
          if is_ref t then map (fun p => path ++ "." ++ p) (vc_fields ctx "" fs fvs)
          else vc_fields ctx path fs fvs
      | _ => []
      end
  | TScalar _ _ _ cs => match t with TScalar _ _ _ _ => cs_paths path cs v | _ => [] end
  | TEnum _ _ =>
      match t with
      | TConstRef _ _ _ value => if const_ref_matches value v then [] else [path]
      | _ => []
      end
  | _ => []
  end.

Lemma vcheck_unfold ctx path t nl v : vcheck ctx path t nl v =
  if is_any t then [] else
  match payload_type ctx t with
  | PUnm _ => []
  | PTy pt =>
      match pt with
      | TArray _ et =>
          match v with
          | GSlice l => vc_arr ctx path et l 0
          | GPtr (GSlice l) => vc_arr ctx path et l 0
          | _ => []
          end
      | TMap _ _ vt =>
          match v with
          | GMap l => vc_map ctx path vt l
          | GPtr (GMap l) => vc_map ctx path vt l
          | _ => []
          end
      | _ =>
          if nl then match v with GPtr x => vcheck ctx path t false x | _ => [] end
          else vc_plain ctx path t pt v
      end
  end.
Proof.
  destruct v; simpl; unfold vc_plain, join_path;
    destruct (is_any t); try reflexivity;
    destruct (payload_type ctx t) as [pt|]; try reflexivity;
    destruct pt; try reflexivity; destruct nl; try reflexivity;
    try (destruct (is_ref t); reflexivity).
Qed.

Definition vi_arr (ctx : schemas) (path : string) (et : ty) :=
  fix go (l : list gval) (i : nat) {struct l} : list string :=
    match l with
    | [] => []
    | x :: r => (violations ctx (path ++ "[" ++ itoa i ++ "]") et x ++ go r (S i))%list
    end.
Definition vi_map (ctx : schemas) (path : string) (vt : ty) (l : list (string * gval)) : list string :=
  flat_map (fun kv => violations ctx (path ++ "[" ++ fst kv ++ "]") vt (snd kv)) l.
Definition vi_fields (ctx : schemas) (path : string) :=
  fix go (fs : list field) (fvs : list (string * gval)) {struct fvs} : list string :=
    match fs, fvs with
    | f :: fr, (_, fv) :: vr => (violations ctx (join_path path (f_name f)) (f_type f) fv ++ go fr vr)%list
    | _, _ => []
    end.
Definition vi_leaf (path : string) (t pt : ty) (v : gval) : list string :=
  match pt with
  | TScalar _ _ _ cs => cs_paths path cs v
  | TEnum _ _ =>
      match t with
      | TConstRef _ _ _ value => if const_ref_matches value v then [] else [path]
      | _ => []
      end
  | _ => []
  end.

Lemma violations_unfold ctx path t v : violations ctx path t v =
  if is_any t then [] else
  match payload_type ctx t with
  | PUnm _ => []
  | PTy pt =>
      match v with
      | GNil => []
      | GPtr x => violations ctx path (non_null t) x
      | GSlice l => match pt with TArray _ et => vi_arr ctx path et l 0 | _ => [] end
      | GMap kvs => match pt with TMap _ _ vt => vi_map ctx path vt kvs | _ => [] end
      | GStruct fvs => match pt with TStruct _ _ fs => vi_fields ctx path fs fvs | _ => [] end
      | _ => vi_leaf path t pt v
      end
  end.
Proof. destruct v; reflexivity. Qed.

Lemma vi_fields_cons ctx path f fr k x r :
  vi_fields ctx path (f :: fr) ((k, x) :: r) =
  (violations ctx (join_path path (f_name f)) (f_type f) x ++ vi_fields ctx path fr r)%list.
Proof. reflexivity. Qed.
Lemma vc_fields_cons ctx base f fr k x r :
  vc_fields ctx base (f :: fr) ((k, x) :: r) =
  ((if rtc ctx (f_type f)
    then vcheck ctx (join_path base (f_name f)) (f_type f) (t_nullable (f_type f)) x
    else []) ++ vc_fields ctx base fr r)%list.
Proof. reflexivity. Qed.
Lemma vi_arr_cons ctx path et x r i :
  vi_arr ctx path et (x :: r) i =
  (violations ctx (path ++ "[" ++ itoa i ++ "]") et x ++ vi_arr ctx path et r (S i))%list.
Proof. reflexivity. Qed.
Lemma vc_arr_cons ctx path et x r i :
  vc_arr ctx path et (x :: r) i =
  (vcheck ctx (path ++ "[" ++ itoa i ++ "]") et (t_nullable et) x ++ vc_arr ctx path et r (S i))%list.
Proof. reflexivity. Qed.
Lemma vi_map_cons ctx path vt kv r :
  vi_map ctx path vt (kv :: r) =
  (violations ctx (path ++ "[" ++ fst kv ++ "]") vt (snd kv) ++ vi_map ctx path vt r)%list.
Proof. reflexivity. Qed.
Lemma vc_map_cons ctx path vt kv r :
  vc_map ctx path vt (kv :: r) =
  (vcheck ctx (path ++ "[" ++ fst kv ++ "]") vt (t_nullable vt) (snd kv) ++ vc_map ctx path vt r)%list.
Proof. reflexivity. Qed.

(* ====================================================================== *)
(* References and the side conditions along them                          *)
(* ====================================================================== *)
Lemma resolve_fuel_nonref ctx f t : is_ref t = false -> resolve_fuel ctx f t = Some t.
Proof. destruct t; try discriminate; destruct f; reflexivity. Qed.

Lemma payload_ref_obj ctx t pt : is_reflike t = true -> payload_type ctx t = PTy pt ->
  exists o, obj_in ctx o /\ pt = o_type o /\ is_ref pt = false /\ t_nullable pt = false.
Proof.
  intros R H.
  assert (V : exists p n,
    match resolve ctx (TRef attrs0 p n) with
    | None => PUnm "reference cycle"
    | Some (TRef _ _ _) => PUnm "dangling reference"
    | Some rt => if t_nullable rt then PUnm "nullable object type"
                 else if is_concrete_scalar rt then PUnm "reference to a constant"
                 else PTy rt
    end = PTy pt).
  { destruct t; try discriminate; simpl in H; eauto. }
  destruct V as [p [n V]].
  destruct (resolve ctx (TRef attrs0 p n)) as [rt|] eqn:E; try discriminate.
  assert (Hr : is_ref rt = false) by (destruct rt; try reflexivity; discriminate).
  assert (Hpt : t_nullable rt = false /\ rt = pt).
  { destruct rt; try discriminate;
      (destruct (t_nullable _) eqn:N; [discriminate|]; destruct (is_concrete_scalar _); [discriminate|];
       inversion V; subst; split; reflexivity). }
  destruct Hpt as [N ->]. unfold resolve in E.
  destruct (resolve_fuel_obj _ _ _ _ E Hr) as [->|[o [Ho ->]]]; [discriminate|].
  exists o. repeat split; auto.
Qed.

Lemma rtc_ref ctx a p n pt : payload_type ctx (TRef a p n) = PTy pt -> rtc ctx (TRef a p n) = is_struct pt.
Proof.
  unfold payload_type, rtc, resolves_to_struct, resolve.
  cbn [resolve_fuel]. destruct (locate_object ctx p n) as [o|]; [|discriminate].
  destruct (resolve_fuel ctx (count_objects ctx) (o_type o)) as [rt|]; [|discriminate].
  destruct rt; try discriminate;
    (destruct (t_nullable _); [discriminate|]; destruct (is_concrete_scalar _); [discriminate|];
     intros H; inversion H; subst; reflexivity).
Qed.

Lemma rtc_non_null ctx t : rtc ctx (non_null t) = rtc ctx t.
Proof.
  destruct t; try reflexivity.
  unfold non_null, set_nullable, set_attrs, rtc, resolves_to_struct, resolve. cbn [resolve_fuel].
  destruct (locate_object ctx pkg name); reflexivity.
Qed.
Lemma is_ref_non_null t : is_ref (non_null t) = is_ref t.
Proof. destruct t; reflexivity. Qed.
Lemma named_non_null t : ty_named (non_null t) = ty_named t.
Proof. destruct t; reflexivity. Qed.
Lemma cdirect_non_null ctx t : ty_cdirect ctx (non_null t) = ty_cdirect ctx t.
Proof. destruct t; reflexivity. Qed.

Lemma ctx_forall_obj (Q : ty -> bool) ctx o :
  forallb (fun s => forallb (fun ko => Q (o_type (snd ko))) (s_objects s)) ctx = true ->
  obj_in ctx o -> Q (o_type o) = true.
Proof.
  intros H [s [k [Hs Ho]]]. rewrite forallb_forall in H.
  specialize (H s Hs). rewrite forallb_forall in H. exact (H _ Ho).
Qed.

Lemma payload_inv (Q : ty -> bool) ctx t pt :
  (forall o, obj_in ctx o -> Q (o_type o) = true) ->
  Q t = true -> payload_type ctx t = PTy pt -> Q pt = true.
Proof.
  intros HQ Ht P. destruct (is_reflike t) eqn:R.
  - destruct (payload_ref_obj _ _ _ R P) as [o [Ho [-> _]]]. auto.
  - rewrite (payload_self _ _ R) in P. inversion P; subst; exact Ht.
Qed.

(* ====================================================================== *)
(* Paths: violations commutes with prefixing a non-empty path             *)
(* ====================================================================== *)
Lemma cs_paths_prefix a b cs v : cs_paths (a ++ b) cs v = map (fun s => a ++ s) (cs_paths b cs v).
Proof.
  unfold cs_paths. induction cs as [|c cs IH]; simpl; [reflexivity|].
  rewrite map_app, IH. destruct (constraint_holds c v) as [[|]|]; reflexivity.
Qed.

Lemma viol_prefix ctx a : forall v b t, b <> "" ->
  violations ctx (a ++ b) t v = map (fun s => a ++ s) (violations ctx b t v).
Proof.
  induction v using gval_ind'; intros q t Hb; rewrite (violations_unfold ctx (a ++ q)), (violations_unfold ctx q);
    destruct (is_any t); try reflexivity; destruct (payload_type ctx t) as [pt|]; try reflexivity.
  1-5: unfold vi_leaf; destruct pt; try reflexivity; try apply cs_paths_prefix;
       destruct t; try reflexivity; destruct (const_ref_matches _ _); reflexivity.
  - apply IHv. exact Hb.
  - destruct pt; try reflexivity. generalize 0%nat.
    induction H as [|x r Hx Hr IH]; intros i; simpl; [reflexivity|].
    rewrite map_app, <- IH. f_equal. rewrite app_assoc_s. apply Hx. apply app_cons_ne.
  - destruct pt; try reflexivity. unfold vi_map.
    induction H as [|x r Hx Hr IH]; cbn [flat_map map]; [reflexivity|].
    rewrite map_app, <- IH. f_equal. rewrite app_assoc_s. apply Hx. apply app_cons_ne.
  - destruct pt; try reflexivity. revert fs.
    induction H as [|[k x] r Hx Hr IH]; intros fs; destruct fs as [|f fr]; simpl; try reflexivity.
    rewrite map_app, <- IH. f_equal. rewrite (join_path_app _ _ _ Hb). simpl in Hx. apply Hx.
    rewrite (join_path_ne _ _ Hb). apply app_cons_ne.
  - unfold vi_leaf; destruct pt; try reflexivity; try apply cs_paths_prefix;
       destruct t; try reflexivity; destruct (const_ref_matches _ _); reflexivity.
Qed.

Definition fields_named (fs : list field) : bool :=
  forallb (fun f => (negb (String.eqb (f_name f) "") && ty_named (f_type f))%bool) fs.

Lemma fields_named_cons f fr : fields_named (f :: fr) = true ->
  f_name f <> "" /\ ty_named (f_type f) = true /\ fields_named fr = true.
Proof.
  unfold fields_named. simpl. intros H. apply andb_true_iff in H. destruct H as [H1 H2].
  apply andb_true_iff in H1. destruct H1 as [H0 H1]. apply negb_true_iff in H0.
  apply String.eqb_neq in H0. auto.
Qed.

(* a referenced struct: MakeBuildErrors' prefixing agrees with join_path below a non-empty path *)
Lemma vi_fields_prefix ctx path : path <> "" -> forall fvs fs, fields_named fs = true ->
  vi_fields ctx path fs fvs = map (fun p => path ++ "." ++ p) (vi_fields ctx "" fs fvs).
Proof.
  intros Hp. induction fvs as [|[k x] r IH]; intros [|f fr] N; try reflexivity.
  rewrite !vi_fields_cons. apply fields_named_cons in N. destruct N as [N0 [N1 N2]].
  rewrite map_app, <- (IH _ N2). f_equal.
  rewrite (join_path_ne _ _ Hp).
  change (path ++ "." ++ f_name f) with (path ++ ("." ++ f_name f)).
  rewrite <- (app_assoc_s path "." (f_name f)).
  rewrite (viol_prefix ctx (path ++ ".") _ _ _ N0).
  apply map_ext. intros s. apply app_assoc_s.
Qed.

(* ====================================================================== *)
(* vcheck: nil, pointers, nullability                                     *)
(* ====================================================================== *)
Lemma vcheck_nil ctx path t : wt ctx t GNil = true -> vcheck ctx path t (t_nullable t) GNil = [].
Proof.
  intros W. rewrite vcheck_unfold.
  destruct (wt_nil_inv _ _ W) as [A | [A [pt [P [Hp | [Hp Hc]]]]]].
  - rewrite A. reflexivity.
  - rewrite A, P, (is_ptr_nullable _ Hp). destruct pt; reflexivity.
  - rewrite A, P. destruct pt; try discriminate; reflexivity.
Qed.

Lemma vcheck_ptr ctx path t x : no_nil_ptr x = true ->
  vcheck ctx path t true (GPtr x) = vcheck ctx path t false x.
Proof.
  intros N. rewrite (vcheck_unfold ctx path t true).
  destruct (is_any t) eqn:A; [rewrite vcheck_unfold, A; reflexivity|].
  destruct (payload_type ctx t) as [pt|] eqn:P; [|rewrite vcheck_unfold, A, P; reflexivity].
  destruct pt; try reflexivity; rewrite vcheck_unfold, A, P; destruct x; try discriminate; reflexivity.
Qed.

Lemma vcheck_nn_false ctx path t v : vcheck ctx path t false v = vcheck ctx path (non_null t) false v.
Proof.
  rewrite (vcheck_unfold ctx path t), (vcheck_unfold ctx path (non_null t)).
  destruct t; reflexivity.
Qed.

Lemma violations_nil ctx path t : violations ctx path t GNil = [].
Proof. rewrite violations_unfold. destruct (is_any t); auto. destruct (payload_type ctx t); reflexivity. Qed.

(* the top of validate_object / violations_object: the object's own (inline) struct type *)
Lemma top_struct ctx p n o a dh fs v :
  locate_object ctx p n = Some o -> o_type o = TStruct a dh fs ->
  wt ctx (TRef attrs0 p n) v = true ->
  nullable a = false /\ payload_type ctx (TRef attrs0 p n) = PTy (TStruct a dh fs).
Proof.
  intros L T W.
  assert (E : payload_type ctx (TRef attrs0 p n) =
              if nullable a then PUnm "nullable object type" else PTy (TStruct a dh fs)).
  { unfold payload_type, resolve. cbn [resolve_fuel]. rewrite L, T.
    rewrite resolve_fuel_nonref by reflexivity. reflexivity. }
  rewrite wt_unfold in W. simpl is_any in W. cbv iota in W. rewrite E in W.
  destruct (nullable a); [discriminate|]. auto.
Qed.

Lemma top_wt ctx p n a dh fs v :
  nullable a = false -> payload_type ctx (TRef attrs0 p n) = PTy (TStruct a dh fs) ->
  wt ctx (TRef attrs0 p n) v = true ->
  wt ctx (TStruct a dh fs) v = true /\
  violations ctx "" (TRef attrs0 p n) v = violations ctx "" (TStruct a dh fs) v.
Proof.
  intros N P W.
  destruct (cf_struct ctx (TRef attrs0 p n) _ _ _ v eq_refl eq_refl P W) as [fvs [-> [U F]]].
  split.
  - rewrite wt_unfold. simpl. unfold is_ptr, t_nullable. simpl. rewrite N. simpl.
    change (union_wt (TStruct a dh fs) fvs && wt_fields ctx fs fvs = true)%bool. rewrite U, F. reflexivity.
  - rewrite !violations_unfold, P. reflexivity.
Qed.

(* ====================================================================== *)
(* Lemma 1: Validate reports only violations                              *)
(* ====================================================================== *)
Section Only.
  Variable ctx : schemas.
  Hypothesis Hn : ctx_named ctx = true.

  Lemma named_payload t pt : ty_named t = true -> payload_type ctx t = PTy pt -> ty_named pt = true.
  Proof. apply payload_inv. intros o Ho. exact (ctx_forall_obj ty_named ctx o Hn Ho). Qed.

  Definition sub1 (v : gval) : Prop :=
    forall path t, ty_named t = true -> wt ctx t v = true -> (path = "" -> is_ref t = false) ->
      incl (vcheck ctx path t (t_nullable t) v) (violations ctx path t v).

  Lemma sub1_leaf v : is_leaf v = true -> sub1 v.
  Proof.
    intros L path t N W Hp.
    destruct (wt_leaf_inv _ _ _ L W) as [A [P [pt [E LT]]]].
    rewrite vcheck_unfold, violations_unfold, A, E.
    destruct pt; try discriminate LT; destruct (t_nullable t);
      try (destruct v; try discriminate L; apply incl_nil_l);
      unfold vc_plain; destruct v; try discriminate L; unfold vi_leaf;
      destruct t; try apply incl_nil_l; apply incl_refl.
  Qed.

  Lemma sub1_fields base : forall fvs, Forall (fun kv => sub1 (snd kv)) fvs ->
    forall fs, fields_named fs = true -> wt_fields ctx fs fvs = true ->
    incl (vc_fields ctx base fs fvs) (vi_fields ctx base fs fvs).
  Proof.
    induction 1 as [|[k x] r Hx Hr IH]; intros [|f fr] N W; try apply incl_nil_l.
    rewrite vc_fields_cons, vi_fields_cons.
    apply fields_named_cons in N. destruct N as [N0 [N1 N2]].
    simpl in W. apply andb_true_iff in W. destruct W as [W W2]. apply andb_true_iff in W. destruct W as [_ W1].
    apply incl_app_app; [|apply IH; assumption].
    destruct (rtc ctx (f_type f)); [|apply incl_nil_l].
    apply Hx; auto. intros E. exfalso. exact (join_path_nonempty _ _ N0 E).
  Qed.

  Lemma sub1_all : forall v, sub1 v.
  Proof.
    induction v using gval_ind'; try (apply sub1_leaf; reflexivity).
    - intros path t N W Hp. rewrite vcheck_nil by exact W. apply incl_nil_l.
    - intros path t N W Hp.
      destruct (wt_ptr_inv _ _ _ W) as [A [P [[pt E] [NN W']]]].
      rewrite (is_ptr_nullable _ P), vcheck_ptr by exact NN. rewrite vcheck_nn_false.
      rewrite (violations_unfold ctx path t), A, E.
      pose proof (IHv path (non_null t)) as IH. rewrite non_null_nullable, named_non_null, is_ref_non_null in IH.
      apply IH; auto.
    - intros path t N W Hp.
      destruct (wt_slice_inv _ _ _ W) as [A [P [a [et [E F]]]]].
      rewrite vcheck_unfold, violations_unfold, A, E.
      pose proof (named_payload _ _ N E) as Ne. simpl in Ne.
      clear W. generalize 0%nat. induction H as [|x r Hx Hr IH]; intros i; [apply incl_nil_l|].
      rewrite vc_arr_cons, vi_arr_cons. simpl in F. apply andb_true_iff in F. destruct F as [F1 F2].
      apply incl_app_app; [|apply IH; exact F2].
      apply Hx; auto. intros Z. exfalso. exact (app_cons_ne _ _ _ Z).
    - intros path t N W Hp.
      destruct (wt_map_inv _ _ _ W) as [A [P [a [it [vt [E [_ F]]]]]]].
      rewrite vcheck_unfold, violations_unfold, A, E.
      pose proof (named_payload _ _ N E) as Ne. simpl in Ne.
      clear W. induction H as [|x r Hx Hr IH]; [apply incl_nil_l|].
      rewrite vc_map_cons, vi_map_cons. simpl in F. apply andb_true_iff in F. destruct F as [F1 F2].
      apply incl_app_app; [|apply IH; exact F2].
      apply Hx; auto. intros Z. exfalso. exact (app_cons_ne _ _ _ Z).
    - intros path t N W Hp.
      destruct (wt_struct_inv _ _ _ W) as [A [P [a [dh [fs [E [U F]]]]]]].
      rewrite vcheck_unfold, violations_unfold, A, E.
      pose proof (named_payload _ _ N E) as Ne. change (fields_named fs = true) in Ne.
      destruct (t_nullable t); [apply incl_nil_l|]. unfold vc_plain.
      destruct (is_ref t && negb (rtc ctx (TStruct a dh fs)))%bool; [apply incl_nil_l|].
      destruct (is_ref t) eqn:R.
      + assert (Hp' : path <> "") by (intros Z; specialize (Hp Z); discriminate).
        rewrite (vi_fields_prefix ctx path Hp' _ _ Ne). apply incl_map. apply sub1_fields; assumption.
      + apply sub1_fields; assumption.
    - intros path t N W Hp. rewrite vcheck_unfold, (wt_any_inv _ _ _ W). apply incl_nil_l.
  Qed.
End Only.

Lemma validate_reports_only_violations_weak : forall ctx p n v q,
  (ctx_supported ctx = true /\ struct_object ctx p n = true /\ wt ctx (TRef attrs0 p n) v = true) ->
  ctx_named ctx = true ->
  In q (validate_object ctx p n v) -> In q (violations_object ctx p n v).
Proof.
  intros ctx p n v q [Hc [Hs W]] Hn. unfold validate_object, violations_object, struct_object in *.
  destruct (locate_object ctx p n) as [o|] eqn:L; [|discriminate].
  destruct (o_type o) as [| | | |a dh fs| | | | | |] eqn:T; try discriminate.
  destruct (top_struct _ _ _ _ _ _ _ _ L T W) as [N P].
  destruct (top_wt _ _ _ _ _ _ _ N P W) as [W' ->].
  destruct (rtc ctx (TStruct a dh fs)); [|intros []].
  apply (sub1_all ctx Hn v "" (TStruct a dh fs)); auto.
  pose proof (ctx_forall_obj ty_named ctx o Hn (locate_object_in _ _ _ _ L)) as X. rewrite T in X. exact X.
Qed.

(* ====================================================================== *)
(* Lemma 3: without constraints behind aliases, Validate = violations     *)
(* ====================================================================== *)
Lemma supported_constref ctx a p n val : ty_supported ctx (TConstRef a p n val) =
  (negb (t_nullable (TConstRef a p n val)) &&
   match payload_type ctx (TConstRef a p n val) with PTy (TEnum _ _) => true | _ => false end)%bool.
Proof. reflexivity. Qed.

Lemma ty_cases ctx t pt : payload_type ctx t = PTy pt -> ty_supported ctx t = true ->
  (exists a p n, t = TRef a p n) \/
  (exists a p n val, t = TConstRef a p n val /\ is_enum pt = true) \/
  (is_reflike t = false /\ pt = t).
Proof.
  intros P S. destruct t; try (right; right; split; [reflexivity|simpl in P; inversion P; reflexivity]).
  - left; eauto.
  - right; left. exists a, pkg, name, value. split; auto.
    rewrite supported_constref in S. apply andb_true_iff in S. destruct S as [_ S]. rewrite P in S.
    destruct pt; try discriminate; reflexivity.
Qed.

Lemma existsb_false_cons {A} (f : A -> bool) x r : existsb f (x :: r) = false -> f x = false /\ existsb f r = false.
Proof. simpl. intros H. apply orb_false_iff in H. exact H. Qed.

Section Exact.
  Variable ctx : schemas.
  Hypothesis Hc : ctx_supported ctx = true.
  Hypothesis Hn : ctx_named ctx = true.
  Hypothesis Hd : ctx_cdirect ctx = true.
  Hypothesis Ha : ctx_alias_free ctx = true.

  Definition inv (t : ty) : Prop :=
    ty_supported ctx t = true /\ ty_named t = true /\ ty_cdirect ctx t = true.

  Lemma inv_non_null t : inv t -> inv (non_null t).
  Proof.
    intros [S [N D]]. repeat split.
    - apply supported_non_null; exact S.
    - rewrite named_non_null; exact N.
    - rewrite cdirect_non_null; exact D.
  Qed.
  Lemma inv_payload t pt : inv t -> payload_type ctx t = PTy pt -> inv pt.
  Proof.
    intros [S [N D]] P. repeat split.
    - eapply payload_supported; eauto.
    - eapply named_payload; eauto.
    - revert D P. apply payload_inv. intros o Ho. exact (ctx_forall_obj (ty_cdirect ctx) ctx o Hd Ho).
  Qed.
  Lemma inv_arr a et : inv (TArray a et) -> inv et.
  Proof.
    intros [S [N D]]. repeat split; try assumption.
    simpl in S. apply andb_true_iff in S. destruct S as [_ S]. exact S.
  Qed.
  Lemma inv_map a it vt : inv (TMap a it vt) -> inv vt.
  Proof.
    intros [S [N D]]. repeat split; try assumption.
    simpl in S. apply andb_true_iff in S. tauto.
  Qed.

  Definition fields_inv (fs : list field) : Prop := Forall (fun f => f_name f <> "" /\ inv (f_type f)) fs.
  Lemma inv_struct a dh fs : inv (TStruct a dh fs) -> fields_inv fs /\ fields_named fs = true.
  Proof.
    intros [S [N D]]. split; [|exact N]. simpl in S, D. change (fields_named fs = true) in N.
    induction fs as [|f fr IH]; constructor.
    - apply fields_named_cons in N. simpl in S, D. apply andb_true_iff in S, D.
      destruct N as [N0 [N1 _]]. destruct S as [S _]. destruct D as [D _]. repeat split; assumption.
    - apply fields_named_cons in N. simpl in S, D. apply andb_true_iff in S, D.
      apply IH; tauto.
  Qed.

  Lemma alias_free_obj o : obj_in ctx o -> is_struct (o_type o) = false -> rtc ctx (o_type o) = false.
  Proof.
    intros [s [k [Hs Ho]]] Z. unfold ctx_alias_free in Ha. rewrite forallb_forall in Ha.
    specialize (Ha s Hs). rewrite forallb_forall in Ha. specialize (Ha _ Ho). simpl in Ha.
    rewrite Z in Ha. simpl in Ha. apply negb_true_iff in Ha. exact Ha.
  Qed.

  (* behind a reference that does not lead to a struct there is nothing to validate *)
  Lemma rtc_ref_payload a p n pt : payload_type ctx (TRef a p n) = PTy pt -> is_struct pt = false ->
    rtc ctx (TRef a p n) = false /\ rtc ctx pt = false.
  Proof.
    intros P Z. split.
    - rewrite (rtc_ref _ _ _ _ _ P). exact Z.
    - destruct (payload_ref_obj ctx (TRef a p n) pt eq_refl P) as [o [Ho [-> _]]].
      apply alias_free_obj; assumption.
  Qed.

  Lemma rtc_coll t pt : inv t -> payload_type ctx t = PTy pt -> (is_array pt || is_map pt)%bool = true ->
    rtc ctx t = rtc ctx pt.
  Proof.
    intros [S _] P C.
    destruct (ty_cases _ _ _ P S) as [[a [p [n ->]]] | [[a [p [n [val [-> E]]]]] | [_ ->]]].
    - assert (Z : is_struct pt = false) by (destruct pt; try discriminate; reflexivity).
      destruct (rtc_ref_payload _ _ _ _ P Z) as [-> ->]. reflexivity.
    - destruct pt; discriminate.
    - reflexivity.
  Qed.

  Definition ex3 (v : gval) : Prop :=
    forall path t, inv t -> wt ctx t v = true -> (path = "" -> is_ref t = false) ->
      (rtc ctx t = true -> vcheck ctx path t (t_nullable t) v = violations ctx path t v) /\
      (rtc ctx t = false -> violations ctx path t v = []).

  Lemma ex3_leaf v : is_leaf v = true -> ex3 v.
  Proof.
    intros L path t I W Hp.
    destruct (wt_leaf_inv _ _ _ L W) as [A [P [pt [E LT]]]].
    destruct (leaf_ty_shape _ _ LT) as [Z1 [Z2 Z3]].
    assert (NL : t_nullable t = false).
    { destruct I as [S _]. rewrite (nullable_is_ptr ctx t pt S A E Z1 Z2). exact P. }
    rewrite vcheck_unfold, violations_unfold, A, E, NL.
    destruct I as [S [N D]].
    destruct (ty_cases _ _ _ E S) as [[a [p [n ->]]] | [[a [p [n [val [-> EN]]]]] | [R ->]]].
    - destruct (rtc_ref_payload _ _ _ _ E Z3) as [R1 R2]. rewrite R1. split; [discriminate|intros _].
      destruct pt; try discriminate LT.
      + destruct v; try discriminate L; reflexivity.
      + assert (C : cs = []).
        { destruct k; simpl in LT; try (destruct v; discriminate LT);
            simpl in R2; destruct cs; try reflexivity; discriminate R2. }
        subst cs. destruct v; try discriminate L; reflexivity.
    - destruct pt; try discriminate EN.
      change (rtc ctx (TConstRef a p n val)) with (ty_cdirect ctx (TConstRef a p n val)). rewrite D.
      split; [intros _|discriminate]. destruct v; try discriminate L; reflexivity.
    - destruct t; try discriminate LT.
      + split; [discriminate|intros _]. destruct v; try discriminate L; reflexivity.
      + destruct k; try discriminate A;
          (split; [intros _; destruct v; try discriminate L; reflexivity|]);
          simpl; intros C; destruct cs; try discriminate C; destruct v; try discriminate L; reflexivity.
  Qed.

  Lemma ex3_fields base : forall fvs, Forall (fun kv => ex3 (snd kv)) fvs ->
    forall fs, fields_inv fs -> wt_fields ctx fs fvs = true ->
    vc_fields ctx base fs fvs = vi_fields ctx base fs fvs /\
    (existsb (fun f => rtc ctx (f_type f)) fs = false -> vi_fields ctx base fs fvs = []).
  Proof.
    induction 1 as [|[k x] r Hx Hr IH]; intros [|f fr] I W; try (split; reflexivity); try discriminate W.
    rewrite vc_fields_cons, vi_fields_cons.
    inversion I as [|? ? [N0 I0] I1]; subst.
    simpl in W. apply andb_true_iff in W. destruct W as [W W2]. apply andb_true_iff in W. destruct W as [_ W1].
    destruct (IH _ I1 W2) as [IHa IHb].
    assert (Hp : join_path base (f_name f) = "" -> is_ref (f_type f) = false)
      by (intros E; exfalso; exact (join_path_nonempty _ _ N0 E)).
    destruct (Hx _ _ I0 W1 Hp) as [X1 X2]. simpl in X1, X2.
    split.
    - rewrite IHa. f_equal. destruct (rtc ctx (f_type f)); [apply X1; reflexivity|symmetry; apply X2; reflexivity].
    - intros Z. apply existsb_false_cons in Z. destruct Z as [Z1 Z2]. rewrite (X2 Z1), (IHb Z2). reflexivity.
  Qed.

  Lemma ex3_all : forall v, ex3 v.
  Proof.
    induction v using gval_ind'; try (apply ex3_leaf; reflexivity).
    - intros path t I W Hp. rewrite vcheck_nil by exact W. rewrite violations_nil. split; reflexivity.
    - intros path t I W Hp.
      destruct (wt_ptr_inv _ _ _ W) as [A [P [[pt E] [NN W']]]].
      rewrite (is_ptr_nullable _ P), vcheck_ptr by exact NN. rewrite vcheck_nn_false.
      rewrite (violations_unfold ctx path t), A, E.
      pose proof (IHv path (non_null t) (inv_non_null _ I) W') as IH.
      rewrite non_null_nullable, is_ref_non_null, rtc_non_null in IH. exact (IH Hp).
    - intros path t I W Hp.
      destruct (wt_slice_inv _ _ _ W) as [A [P [a [et [E F]]]]].
      rewrite vcheck_unfold, violations_unfold, A, E.
      rewrite (rtc_coll _ _ I E eq_refl). simpl rtc.
      pose proof (inv_arr _ _ (inv_payload _ _ I E)) as Ie.
      clear W. generalize 0%nat. induction H as [|x r Hx Hr IH]; intros i; [split; reflexivity|].
      rewrite vc_arr_cons, vi_arr_cons. simpl in F. apply andb_true_iff in F. destruct F as [F1 F2].
      assert (Hq : path ++ "[" ++ itoa i ++ "]" = "" -> is_ref et = false)
        by (intros Z; exfalso; exact (app_cons_ne _ _ _ Z)).
      destruct (Hx _ _ Ie F1 Hq) as [X1 X2]. destruct (IH F2 (S i)) as [Y1 Y2].
      split; intros R.
      + rewrite (X1 R), (Y1 R). reflexivity.
      + rewrite (X2 R), (Y2 R). reflexivity.
    - intros path t I W Hp.
      destruct (wt_map_inv _ _ _ W) as [A [P [a [it [vt [E [_ F]]]]]]].
      rewrite vcheck_unfold, violations_unfold, A, E.
      rewrite (rtc_coll _ _ I E eq_refl). simpl rtc.
      pose proof (inv_map _ _ _ (inv_payload _ _ I E)) as Ie.
      clear W. induction H as [|x r Hx Hr IH]; [split; reflexivity|].
      rewrite vc_map_cons, vi_map_cons. simpl in F. apply andb_true_iff in F. destruct F as [F1 F2].
      assert (Hq : path ++ "[" ++ fst x ++ "]" = "" -> is_ref vt = false)
        by (intros Z; exfalso; exact (app_cons_ne _ _ _ Z)).
      destruct (Hx _ _ Ie F1 Hq) as [X1 X2]. destruct (IH F2) as [Y1 Y2].
      split; intros R.
      + rewrite (X1 R), (Y1 R). reflexivity.
      + rewrite (X2 R), (Y2 R). reflexivity.
    - intros path t I W Hp.
      destruct (wt_struct_inv _ _ _ W) as [A [P [a [dh [fs [E [U F]]]]]]].
      assert (NL : t_nullable t = false).
      { destruct I as [S _]. rewrite (nullable_is_ptr ctx t _ S A E eq_refl eq_refl). exact P. }
      rewrite vcheck_unfold, violations_unfold, A, E, NL. unfold vc_plain.
      destruct (inv_struct _ _ _ (inv_payload _ _ I E)) as [If Nf].
      destruct I as [S [N D]].
      destruct (ty_cases _ _ _ E S) as [[a' [p [n ->]]] | [[a' [p [n [val [-> EN]]]]] | [R ET]]].
      + rewrite (rtc_ref _ _ _ _ _ E). simpl is_struct. simpl is_ref. cbv iota.
        assert (Hp' : path <> "") by (intros Z; specialize (Hp Z); discriminate).
        split; [intros _|discriminate].
        destruct (ex3_fields "" _ H _ If F) as [X1 _]. destruct (ex3_fields path _ H _ If F) as [_ X2].
        destruct (rtc ctx (TStruct a dh fs)) eqn:RP; simpl.
        * rewrite X1. symmetry. apply vi_fields_prefix; assumption.
        * symmetry. apply X2. exact RP.
      + discriminate EN.
      + subst t. simpl is_ref. cbv iota. simpl andb. cbv iota.
        destruct (ex3_fields path _ H _ If F) as [X1 X2]. split; intros RP; [exact X1|exact (X2 RP)].
    - intros path t I W Hp. rewrite vcheck_unfold, violations_unfold, (wt_any_inv _ _ _ W). split; reflexivity.
  Qed.
End Exact.

Lemma validate_iff_partial_weak : forall ctx p n v,
  (ctx_supported ctx = true /\ struct_object ctx p n = true /\ wt ctx (TRef attrs0 p n) v = true) ->
  ctx_alias_free ctx = true -> ctx_named ctx = true -> ctx_cdirect ctx = true ->
  validate_object ctx p n v = violations_object ctx p n v.
Proof.
  intros ctx p n v [Hc [Hs W]] Ha Hn Hd. unfold validate_object, violations_object, struct_object in *.
  destruct (locate_object ctx p n) as [o|] eqn:L; [|discriminate].
  destruct (o_type o) as [| | | |a dh fs| | | | | |] eqn:T; try discriminate.
  destruct (top_struct _ _ _ _ _ _ _ _ L T W) as [N P].
  destruct (top_wt _ _ _ _ _ _ _ N P W) as [W' ->].
  pose proof (locate_object_in _ _ _ _ L) as Ho.
  assert (I : inv ctx (TStruct a dh fs)).
  { rewrite <- T. repeat split.
    - pose proof (ctx_supported_obj _ _ Hc Ho) as S. unfold object_supported in S.
      apply andb_true_iff in S. destruct S as [S _]. apply andb_true_iff in S. tauto.
    - exact (ctx_forall_obj ty_named ctx o Hn Ho).
    - exact (ctx_forall_obj (ty_cdirect ctx) ctx o Hd Ho). }
  destruct (ex3_all ctx Hc Hn Hd Ha v "" (TStruct a dh fs) I W' (fun _ => eq_refl)) as [X1 X2].
  destruct (rtc ctx (TStruct a dh fs)); [apply X1|symmetry; apply X2]; reflexivity.
Qed.
