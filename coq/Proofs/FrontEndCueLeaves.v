(* C01 front-end, CUE: generic helpers and the leaf lemmas (numbers, bounds, lengths, constants, enums) of
   parse_cue_preserves_acceptance_partial (Proofs/FrontEndCueProofs.v).  The list / lookup helpers shared with the
   JSON Schema proof are copied under the prefix cue_; the general decimal lemmas are taken from Proofs/FrontEndAccept.v
   (bounds_agree_val, json_eq_num_val: no restriction on bounds / constants). *)
From Coq Require Import List String ZArith Bool Ascii Arith Lia.
From Cog Require Import Model.IR Model.Json Model.GoSemBase Model.GoSemValidate Model.Src Model.FrontEnd Model.FrontEndSpec
  Model.FrontEndCue Model.FrontEndSpecCue Model.FrontEndSpecCue2.
From Cog Require Import Proofs.FrontEndLemmas Proofs.FrontEndAccept.
Import ListNotations.
Local Open Scope list_scope.
Local Open Scope string_scope.

(* ---------- induction on documents ---------- *)
Section CueJsonInd.
  Variable P : json -> Prop.
  Hypothesis HNull : P JNull.
  Hypothesis HBool : forall b, P (JBool b).
  Hypothesis HNum : forall m e, P (JNum m e).
  Hypothesis HStr : forall s, P (JStr s).
  Hypothesis HArr : forall l, Forall P l -> P (JArr l).
  Hypothesis HObj : forall l, Forall (fun kv => P (snd kv)) l -> P (JObj l).
  Fixpoint cue_json_ind (j : json) : P j :=
    match j with
    | JNull => HNull | JBool b => HBool b | JNum m e => HNum m e | JStr s => HStr s
    | JArr l =>
        HArr l ((fix go (l : list json) : Forall P l :=
                   match l with [] => Forall_nil _ | x :: r => Forall_cons x (cue_json_ind x) (go r) end) l)
    | JObj l =>
        HObj l ((fix go (l : list (string * json)) : Forall (fun kv => P (snd kv)) l :=
                   match l with [] => Forall_nil _ | x :: r => Forall_cons x (cue_json_ind (snd x)) (go r) end) l)
    end.
End CueJsonInd.

(* ---------- strings, lists, lookups ---------- *)
Lemma cue_seqb_eq a b : seqb a b = true -> a = b.
Proof. apply String.eqb_eq. Qed.
Lemma cue_seqb_refl a : seqb a a = true.
Proof. apply String.eqb_refl. Qed.

Lemma cue_forallb_map {A B} (p : B -> bool) (F : A -> B) l : forallb p (map F l) = forallb (fun x => p (F x)) l.
Proof. induction l; simpl; auto. rewrite IHl. reflexivity. Qed.
Lemma cue_existsb_map {A B} (p : B -> bool) (F : A -> B) l : existsb p (map F l) = existsb (fun x => p (F x)) l.
Proof. induction l; simpl; auto. rewrite IHl. reflexivity. Qed.
Lemma cue_existsb_flat_map {A B} (p : B -> bool) (F : A -> list B) l :
  existsb p (flat_map F l) = existsb (fun x => existsb p (F x)) l.
Proof. induction l; simpl; auto. rewrite existsb_app, IHl. reflexivity. Qed.
Lemma cue_forallb_ext_in {A} (p q : A -> bool) l : (forall x, In x l -> p x = q x) -> forallb p l = forallb q l.
Proof. induction l; simpl; intro H; auto. rewrite H, IHl; auto. Qed.
Lemma cue_existsb_ext_in {A} (p q : A -> bool) l : (forall x, In x l -> p x = q x) -> existsb p l = existsb q l.
Proof. induction l; simpl; intro H; auto. rewrite H, IHl; auto. Qed.
Lemma cue_existsb_false {A} (p : A -> bool) l : (forall x, In x l -> p x = false) -> existsb p l = false.
Proof. induction l; simpl; intro H; auto. rewrite H, IHl; auto. Qed.

Lemma cue_str_in_In k l : str_in k l = true <-> In k l.
Proof.
  induction l as [|x r IH]; simpl.
  - split; [discriminate | tauto].
  - rewrite orb_true_iff, IH. split; intros [A|A]; auto; left.
    + apply String.eqb_eq in A. auto.
    + subst. apply String.eqb_refl.
Qed.

Lemma cue_str_nodup_NoDup l : str_nodup l = true -> NoDup l.
Proof.
  induction l as [|x r IH]; simpl; intro H; [constructor|].
  apply andb_true_iff in H. destruct H as [H1 H2]. constructor; auto.
  intro I. apply cue_str_in_In in I. rewrite I in H1. discriminate.
Qed.

Lemma cue_src_lookup_some_in defs k t : src_lookup defs k = Some t -> In (k, t) defs.
Proof.
  induction defs as [|[k' t'] r IH]; simpl; intro H; [discriminate|].
  destruct (seqb k' k) eqn:E.
  - apply cue_seqb_eq in E. inversion H. subst. auto.
  - auto.
Qed.

Lemma cue_find_map_field (F : sfield -> field) (fs : list sfield) n :
  (forall f, f_name (F f) = sf_name f) ->
  find (fun g => seqb (f_name g) n) (map F fs) = option_map F (find (fun f => seqb (sf_name f) n) fs).
Proof.
  intro HF. induction fs as [|g r IH]; simpl; auto.
  rewrite HF. destruct (seqb (sf_name g) n); simpl; auto.
Qed.

(* ---------- integer literals ---------- *)
Lemma cue_strip_zeros_spec : forall fuel m e a b,
  strip_zeros fuel m e = (a, b) -> (e <= b)%Z /\ (a * 10 ^ (b - e) = m)%Z.
Proof.
  induction fuel as [|f IH]; intros m e a b H; cbn [strip_zeros] in H.
  - inversion H; subst. split; [lia|]. rewrite Z.sub_diag. rewrite Z.pow_0_r. lia.
  - destruct ((m mod 10 =? 0)%Z && negb (m =? 0)%Z)%bool eqn:C.
    + apply andb_true_iff in C. destruct C as [C _]. apply Z.eqb_eq in C.
      destruct (IH _ _ _ _ H) as [L E]. split; [lia|].
      replace (b - e)%Z with (Z.succ (b - (e + 1)))%Z by lia.
      rewrite Z.pow_succ_r by lia.
      pose proof (Z.div_mod m 10 ltac:(lia)) as D. rewrite C in D.
      transitivity (10 * (a * 10 ^ (b - (e + 1))))%Z; [ring|]. rewrite E. lia.
    + inversion H; subst. split; [lia|]. rewrite Z.sub_diag. rewrite Z.pow_0_r. lia.
Qed.

Lemma cue_num_norm_spec m a b : num_norm m 0 = (a, b) -> (0 <= b)%Z /\ (a * 10 ^ b = m)%Z.
Proof.
  unfold num_norm. destruct (m =? 0)%Z eqn:Z0; intros H.
  - inversion H; subst. apply Z.eqb_eq in Z0. subst. split; [lia|reflexivity].
  - apply cue_strip_zeros_spec in H. rewrite Z.sub_0_r in H. exact H.
Qed.

Lemma cue_is_integral_lit m : is_integral m 0 = true.
Proof. unfold is_integral. destruct (num_norm m 0) as [a b] eqn:E. apply cue_num_norm_spec in E. apply Z.leb_le. lia. Qed.
Lemma cue_int_value_lit m : int_value m 0 = m.
Proof. unfold int_value. destruct (num_norm m 0) as [a b] eqn:E. apply cue_num_norm_spec in E. lia. Qed.

Lemma cue_dec_compare_int a b : dec_compare (a, 0%Z) (b, 0%Z) = Z.compare a b.
Proof. unfold dec_compare. simpl. rewrite !Z.mul_1_r. reflexivity. Qed.

Lemma cue_cmp_ge m z : match (m ?= z)%Z with Lt => false | _ => true end = (z <=? m)%Z.
Proof. unfold Z.leb. rewrite (Z.compare_antisym m z). destruct (m ?= z)%Z; reflexivity. Qed.
Lemma cue_cmp_gt m z : match (m ?= z)%Z with Gt => true | _ => false end = (z <? m)%Z.
Proof. unfold Z.ltb. rewrite (Z.compare_antisym m z). destruct (m ?= z)%Z; reflexivity. Qed.
Lemma cue_cmp_le m z : match (m ?= z)%Z with Gt => false | _ => true end = (m <=? z)%Z.
Proof. reflexivity. Qed.
Lemma cue_cmp_lt m z : match (m ?= z)%Z with Lt => true | _ => false end = (m <? z)%Z.
Proof. reflexivity. Qed.

Lemma cue_cstr_ge g z m : cstr_holds_json (cstr ">=" (DInt g z)) (JNum m 0) = (z <=? m)%Z.
Proof. unfold cstr_holds_json, cstr. cbn [c_args c_op dyn_num]. rewrite cue_dec_compare_int. apply cue_cmp_ge. Qed.
Lemma cue_cstr_gt g z m : cstr_holds_json (cstr ">" (DInt g z)) (JNum m 0) = (z <? m)%Z.
Proof. unfold cstr_holds_json, cstr. cbn [c_args c_op dyn_num]. rewrite cue_dec_compare_int. apply cue_cmp_gt. Qed.
Lemma cue_cstr_le g z m : cstr_holds_json (cstr "<=" (DInt g z)) (JNum m 0) = (m <=? z)%Z.
Proof. unfold cstr_holds_json, cstr. cbn [c_args c_op dyn_num]. rewrite cue_dec_compare_int. reflexivity. Qed.
Lemma cue_cstr_lt g z m : cstr_holds_json (cstr "<" (DInt g z)) (JNum m 0) = (m <? z)%Z.
Proof. unfold cstr_holds_json, cstr. cbn [c_args c_op dyn_num]. rewrite cue_dec_compare_int. reflexivity. Qed.

(* the bounds of an integer member on an integer literal *)
Definition cue_zb_ok (ge gt le lt : option Z) (m : Z) : bool :=
  (match ge with Some a => Z.leb a m | None => true end && match gt with Some a => Z.ltb a m | None => true end &&
   match le with Some b => Z.leb m b | None => true end && match lt with Some b => Z.ltb m b | None => true end)%bool.
Lemma cue_bounds_ok_z ge gt le lt m : bounds_ok (zopt ge) (zopt gt) (zopt le) (zopt lt) (m, 0%Z) = cue_zb_ok ge gt le lt m.
Proof.
  unfold bounds_ok, cue_zb_ok, opt_ok, zopt.
  destruct ge, gt, le, lt; rewrite ?cue_dec_compare_int, ?cue_cmp_ge, ?cue_cmp_gt; reflexivity.
Qed.

Lemma cue_width_range w : width_range "cue" w = int_range (cue_int_kind w).
Proof. reflexivity. Qed.

(* ---------- what ir_accepts_c checks on one alternative ---------- *)
Definition cue_alt_check (ctx : schemas) (j : json) (alt : ty) : bool :=
  match alt with
  | TScalar a k v cs => (scalar_accepts alt a k v cs j && (negb (dyn_is_nil v) || cue_number_form k j))%bool
  | TEnum _ vs => existsb (fun ev => const_matches (ev_value ev) j) vs
  | TArray _ et => match j with JArr l => forallb (fun x => ir_accepts_c ctx x et) l | _ => false end
  | TMap _ _ vt => match j with JObj ms => forallb (fun kv => ir_accepts_c ctx (snd kv) vt) ms | _ => false end
  | TStruct _ _ fs =>
      match j with
      | JObj ms =>
          (str_nodup (map fst ms) &&
           forallb (fun kv => match find (fun f => seqb (f_name f) (fst kv)) fs with
                              | Some f => ir_accepts_c ctx (snd kv) (f_type f)
                              | None => false
                              end) ms &&
           forallb (fun f => (negb (f_required f) || str_in (f_name f) (map fst ms))%bool) fs)%bool
      | _ => false
      end
  | _ => false
  end.
Lemma cue_ir_accepts_unfold ctx j t :
  ir_accepts_c ctx j t = existsb (cue_alt_check ctx j) (alternatives ctx (alt_fuel ctx) t).
Proof. destruct j; reflexivity. Qed.

(* ---------- integers: the kind table of cue_int ---------- *)
Lemma cue_scalar_int k lo hi cs m t0 : int_range k = Some (lo, hi) ->
  scalar_accepts t0 attrs0 k DNil cs (JNum m 0) =
  (Z.leb lo m && Z.leb m hi && forallb (fun c => cstr_holds_json c (JNum m 0)) cs)%bool.
Proof.
  intro H. destruct k; simpl in H; try discriminate; inversion H; subst;
    unfold scalar_accepts; cbn [dyn_is_nil negb int_range];
    rewrite cue_is_integral_lit, cue_int_value_lit; reflexivity.
Qed.

Lemma cue_w_cases w :
  w = "int8" \/ w = "int16" \/ w = "int32" \/ w = "int64" \/ w = "uint8" \/ w = "uint16" \/ w = "uint32" \/
  cue_int_kind w = KUint64.
Proof.
  unfold cue_int_kind.
  destruct (seqb w "int8") eqn:E1; [apply cue_seqb_eq in E1; auto|].
  destruct (seqb w "int16") eqn:E2; [apply cue_seqb_eq in E2; auto|].
  destruct (seqb w "int32") eqn:E3; [apply cue_seqb_eq in E3; auto|].
  destruct (seqb w "int64") eqn:E4; [apply cue_seqb_eq in E4; auto 6|].
  destruct (seqb w "uint8") eqn:E5; [apply cue_seqb_eq in E5; auto 7|].
  destruct (seqb w "uint16") eqn:E6; [apply cue_seqb_eq in E6; auto 8|].
  destruct (seqb w "uint32") eqn:E7; [apply cue_seqb_eq in E7; auto 9|].
  auto 10.
Qed.

Definition cue_int_k (w : string) (ge gt le lt : option Z) : skind :=
  let has_lower := (is_some ge || is_some gt)%bool in
  let has_upper := (is_some le || is_some lt)%bool in
  let lower_nonneg := match ge, gt with Some a, _ => Z.leb 0 a | None, Some a => Z.leb 0 a | None, None => false end in
  if is_unsigned w then (if has_upper then KUint64 else cue_int_kind w)
  else if (has_lower && has_upper)%bool then (if lower_nonneg then KUint64 else KInt64)
  else cue_int_kind w.
Definition cue_int_cs (w : string) (ge gt le lt : option Z) : list constraint :=
  let has_lower := (is_some ge || is_some gt)%bool in
  let has_upper := (is_some le || is_some lt)%bool in
  let lower_nonneg := match ge, gt with Some a, _ => Z.leb 0 a | None, Some a => Z.leb 0 a | None, None => false end in
  let says_uint := if is_unsigned w then true else (has_lower && has_upper && lower_nonneg)%bool in
  let c op := fun z : Z => cstr op (DInt "int64" z) in
  let lower := match ge with
               | Some a => if (says_uint && Z.eqb a 0)%bool then [] else [c ">=" a]
               | None => opt_list gt (c ">")
               end in
  lower ++ opt_list le (c "<=") ++ opt_list lt (c "<").
Lemma cue_int_shape w ge gt le lt :
  cue_int w ge gt le lt = TScalar attrs0 (cue_int_k w ge gt le lt) DNil (cue_int_cs w ge gt le lt).
Proof. reflexivity. Qed.

Lemma cue_int_k_range w ge gt le lt : exists lo hi, int_range (cue_int_k w ge gt le lt) = Some (lo, hi).
Proof.
  assert (K : exists lo hi, int_range (cue_int_kind w) = Some (lo, hi)).
  { destruct (cue_w_cases w) as [H|[H|[H|[H|[H|[H|[H|H]]]]]]]; try (subst w; eexists; eexists; reflexivity).
    rewrite H. eexists; eexists; reflexivity. }
  unfold cue_int_k.
  destruct (is_unsigned w); [destruct (is_some le || is_some lt)%bool|
    destruct ((is_some ge || is_some gt) && (is_some le || is_some lt))%bool;
      [destruct (match ge, gt with Some a, _ => Z.leb 0 a | None, Some a => Z.leb 0 a | None, None => false end)|]];
    try exact K; eexists; eexists; reflexivity.
Qed.

Ltac cue_to_prop :=
  repeat match goal with
         | H : (_ && _)%bool = true |- _ => apply andb_true_iff in H; destruct H
         | H : true = true |- _ => clear H
         | H : (_ <=? _)%Z = true |- _ => apply Z.leb_le in H
         | H : (_ <? _)%Z = true |- _ => apply Z.ltb_lt in H
         | H : (_ <=? _)%Z = false |- _ => apply Z.leb_gt in H
         end.

Ltac cue_int_case :=
  match goal with
  | |- context [Z.eqb ?a 0] => destruct (Z.eqb_spec a 0); [subst|]
  | _ => idtac
  end;
  cbn [andb orb negb app opt_list forallb];
  rewrite ?cue_cstr_ge, ?cue_cstr_gt, ?cue_cstr_le, ?cue_cstr_lt;
  apply eq_iff_eq_true; rewrite ?andb_true_iff, ?Z.leb_le, ?Z.ltb_lt; lia.

Lemma cue_int_agree ctx w ge gt le lt m :
  cue_int_range_ok ge gt le lt = true ->
  bound_in_width w ge = true -> bound_in_width w gt = true -> bound_in_width w le = true -> bound_in_width w lt = true ->
  (match width_range "cue" w with
   | Some (lo, hi) => (Z.leb lo m && Z.leb m hi)%bool
   | None => true end && cue_zb_ok ge gt le lt m)%bool =
  cue_alt_check ctx (JNum m 0) (cue_int w ge gt le lt).
Proof.
  intros R B1 B2 B3 B4. rewrite cue_width_range, cue_int_shape. cbn [cue_alt_check dyn_is_nil negb orb].
  destruct (cue_int_k_range w ge gt le lt) as [lo [hi KR]].
  rewrite (cue_scalar_int _ lo hi _ m _ KR).
  assert (NF : cue_number_form (cue_int_k w ge gt le lt) (JNum m 0) = true).
  { destruct (cue_int_k w ge gt le lt); simpl in KR; try discriminate; reflexivity. }
  rewrite NF, andb_true_r. clear NF.
  unfold bound_in_width in *. unfold cue_int_range_ok in R. unfold cue_zb_ok.
  revert KR. unfold cue_int_k, cue_int_cs.
  destruct (cue_w_cases w) as [H|[H|[H|[H|[H|[H|[H|H]]]]]]];
    [subst w; cbv [cue_int_kind seqb String.eqb Ascii.eqb Bool.eqb is_unsigned int_range] in * ..
    |rewrite H in *; cbv [int_range] in *; destruct (is_unsigned w)];
    destruct ge as [a1|], gt as [a2|], le as [b1|], lt as [b2|]; cbn [is_some andb orb negb] in *; try discriminate;
    cue_to_prop;
    repeat match goal with
           | |- context [Z.leb 0 ?a] => let E := fresh "E" in destruct (Z.leb 0 a) eqn:E; cue_to_prop
           end;
    cbn [andb int_range]; intro KR; inversion KR; subst lo hi; clear KR; cue_int_case.
Qed.

(* ---------- float bounds: Proofs/FrontEndAccept.v bounds_agree_val (no restriction on the bounds) ---------- *)
Lemma cue_bounds_agree ge gt le lt m e :
  forallb (fun c => cstr_holds_json c (JNum m e)) (js_bounds ge gt le lt) = bounds_ok ge gt le lt (m, e).
Proof. apply bounds_agree_val. Qed.

(* ---------- string lengths ---------- *)
Lemma cue_lengths_agree mn mx s :
  forallb (fun c => cstr_holds_json c (JStr s)) (cue_lengths mn mx) =
  (match mn with Some n => Z.leb n (rune_count s) | None => true end &&
   match mx with Some n => Z.leb (rune_count s) n | None => true end)%bool.
Proof.
  assert (A : forall n, cstr_holds_json (cstr "minLength" (DInt "int64" n)) (JStr s) = Z.leb n (rune_count s)).
  { intro n. unfold cstr_holds_json, cstr. cbn [c_args c_op dyn_num]. rewrite cue_dec_compare_int.
    cbn [seqb String.eqb Ascii.eqb Bool.eqb]. unfold Z.leb. rewrite (Z.compare_antisym (rune_count s) n).
    destruct (rune_count s ?= n)%Z; reflexivity. }
  assert (B : forall n, cstr_holds_json (cstr "maxLength" (DInt "int64" n)) (JStr s) = Z.leb (rune_count s) n).
  { intro n. unfold cstr_holds_json, cstr. cbn [c_args c_op dyn_num]. rewrite cue_dec_compare_int.
    cbn [seqb String.eqb Ascii.eqb Bool.eqb]. unfold Z.leb.
    destruct (rune_count s ?= n)%Z; reflexivity. }
  unfold cue_lengths, opt_list. destruct mn, mx; cbn [app forallb]; rewrite ?A, ?B, ?andb_true_r; reflexivity.
Qed.

(* ---------- constants and enums ---------- *)
Definition cue_is_jnull (j : json) : bool := match j with JNull => true | _ => false end.

Lemma cue_json_eq_str s j : json_eq (JStr s) j = const_matches (DStr s) j.
Proof. destruct j; unfold json_eq; simpl; try reflexivity. destruct (num_norm m e); reflexivity. Qed.
Lemma cue_json_eq_bool b j : json_eq (JBool b) j = const_matches (DBool b) j.
Proof. destruct j; unfold json_eq; simpl; try reflexivity. destruct (num_norm m e); reflexivity. Qed.
Lemma cue_json_eq_num m j g : json_eq (JNum m 0) j = const_matches (DInt g (m * 10 ^ 0)) j.
Proof.
  change (10 ^ 0)%Z with 1%Z. rewrite Z.mul_1_r.
  destruct j; unfold json_eq; simpl; try (destruct (num_norm m 0); reflexivity).
  unfold num_eqb. destruct (num_norm m 0), (num_norm m0 e). reflexivity.
Qed.

Lemma cue_const_agree ctx v j : json_scalar_const v = true ->
  json_eq v j = cue_alt_check ctx j (js_const v).
Proof.
  destruct v; simpl; intros H1; try discriminate; rewrite andb_true_r.
  - rewrite cue_json_eq_bool. reflexivity.
  - apply Z.leb_le in H1. rewrite (json_eq_num_val m e j "int64" H1). reflexivity.
  - rewrite cue_json_eq_str. reflexivity.
Qed.

Definition cue_enum_val_ok (v : json) : bool := match v with JStr _ => true | JNum _ e => Z.leb 0 e | _ => false end.
Lemma cue_enum_ok_all vals : enum_ok vals = true -> forall v, In v vals -> cue_enum_val_ok v = true.
Proof.
  unfold enum_ok. destruct vals as [|v0 r]; [discriminate|].
  intros H v I.
  assert (X : forallb json_is_string (v0 :: r) = true \/
              forallb (fun j => match j with JNum m e => Z.leb 0 e | _ => false end) (v0 :: r) = true).
  { destruct v0; auto. }
  destruct X as [X|X]; rewrite forallb_forall in X; specialize (X v I); destruct v; simpl in *; auto; discriminate.
Qed.

Lemma cue_enum_agree ctx vals j : enum_ok vals = true ->
  in_list j vals = cue_alt_check ctx j (cue_enum vals).
Proof.
  intros H1. unfold in_list.
  destruct vals as [|v0 r]; [discriminate|].
  destruct v0 as [|b0|m0 e0|s0|l0|ms0]; try discriminate.
  - (* integer enum *)
    unfold cue_enum. cbn [cue_alt_check]. rewrite cue_existsb_map. apply cue_existsb_ext_in. intros v I.
    unfold enum_ok in H1. rewrite forallb_forall in H1. specialize (H1 v I).
    destruct v; try discriminate. cbn [ev_value]. apply Z.leb_le in H1. apply json_eq_num_val. exact H1.
  - (* string enum *)
    unfold cue_enum. cbn [cue_alt_check]. rewrite cue_existsb_map. apply cue_existsb_ext_in. intros v I.
    unfold enum_ok in H1. rewrite forallb_forall in H1. specialize (H1 v I).
    destruct v; try discriminate. cbn [ev_value]. apply cue_json_eq_str.
Qed.
