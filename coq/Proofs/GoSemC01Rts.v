(* C01 — the corrected exclusion predicate rtsF (Model/GoSemSpec01F.v) implies Model/GoSemSpec01.v rts:
   go_roundtrip_nf_partial_weak is the statement of Props/C01.v under a STRONGER hypothesis.
   (Tied to the definition of rts; delete if rts is replaced by rtsF.) *)
From Coq Require Import List String ZArith Bool Ascii Arith Lia.
From Cog Require Import Model.GoSem Model.GoSemSpec08 Model.GoSemSpec01 Proofs.GoSemEqualsProofs
  Model.GoSemSpec01F Proofs.GoSemC01Json Proofs.GoSemC01Unfold Proofs.GoSemC01Sem.
Import ListNotations.
Local Open Scope list_scope.
Local Open Scope string_scope.

Definition rtso_simple (ctx : schemas) (t : ty) (j : json) (src : rawsrc) (pt : ty) : bool :=
  match pt with
  | TScalar _ k _ _ => scalar_safe pt k j
  | TEnum _ vs => match enum_base vs with TScalar _ k _ _ as b => scalar_safe b k j | _ => false end
  | TArray _ et =>
      match j with
      | JArr l =>
          (forallb (fun x => rts ctx RElem x et) l &&
           (array_of_scalars ctx 8 pt ||
            (match src with RElem => false | _ => true end &&
             (negb (is_ref t && t_nullable t) || match l with [] => true | _ => false end))))%bool
      | _ => true
      end
  | TMap _ _ vt =>
      match j with
      | JObj ms =>
          (forallb (fun kv => rts ctx RVal (snd kv) vt) ms &&
           (map_of_scalars ctx 8 pt || match src with RVal => false | _ => true end))%bool
      | _ => true
      end
  | _ => true
  end.

Definition rtso_member (ctx : schemas) (fs : list field) (kv : string * json) : bool :=
  match find (fun f => seqb (f_name f) (fst kv)) fs with
  | None => true
  | Some f =>
      (rts ctx RField (snd kv) (f_type f) &&
       (f_required f || negb (is_empty_collection (snd kv))))%bool
  end.

Definition rtso_struct (ctx : schemas) (fs : list field) (ms : list (string * json)) : bool :=
  (forallb (rtso_member ctx fs) ms &&
   forallb (fun f => (negb (f_required f) || str_in (f_name f) (map fst ms))%bool) fs)%bool.

Definition rtso_urefs (ctx : schemas) (j : json) (d : disj) (fs : list field) : bool :=
  match j with
  | JObj ms =>
      match select_branch d (last_member (d_disc d) ms) with
      | Some n =>
          match field_by_ref_name fs n with
          | Some f => match payload_type ctx (f_type f) with
                      | PTy (TStruct _ _ bfs) => rtso_struct ctx bfs ms
                      | _ => false end
          | None => false
          end
      | None => false
      end
  | _ => true
  end.

Definition rtso_body (ctx : schemas) (t : ty) (j : json) (src : rawsrc) (pt : ty) : bool :=
  match pt with
  | TStruct _ _ fs =>
      match union_scalars pt, union_refs pt with
      | Some _, _ => forallb (fun f => rtso_simple ctx t j RField (non_null (f_type f))) fs
      | None, Some d => rtso_urefs ctx j d fs
      | None, None => match j with JObj ms => rtso_struct ctx fs ms | _ => true end
      end
  | _ => rtso_simple ctx t j src pt
  end.

Lemma rts_unfold ctx src j t : j <> JNull ->
  rts ctx src j t = match payload_type ctx t with
                    | PUnm _ => false
                    | PTy pt => rtso_body ctx t j src pt
                    end.
Proof. intros H; destruct j; [congruence|unfold rtso_body, rtso_urefs, rtso_struct, rtso_member, rtso_simple; reflexivity..]. Qed.

Lemma forallb_impl {A} (p q : A -> bool) l : (forall x, In x l -> p x = true -> q x = true) ->
  forallb p l = true -> forallb q l = true.
Proof. rewrite !forallb_forall. intros H1 H2 x Hx. auto. Qed.

Section Impl.
  Variable ctx : schemas.
  Definition Q (x : json) : Prop := forall src t, rtsF ctx src x t = true -> rts ctx src x t = true.

  Lemma simple_impl j t src pt : Forall Q (kids j) ->
    rts_simple ctx t j src pt = true -> rtso_simple ctx t j src pt = true.
  Proof.
    intros HK. rewrite Forall_forall in HK. destruct pt; simpl; auto.
    - destruct j; auto. intros H. apply andb_true_iff in H. destruct H as [H1 H2].
      apply andb_true_iff. split; auto. eapply forallb_impl; [|exact H1]. intros x Hx. apply HK. exact Hx.
    - destruct j; auto. intros H. apply andb_true_iff in H. destruct H as [H1 H2].
      apply andb_true_iff. split; auto. eapply forallb_impl; [|exact H1]. intros [k x] Hx. apply HK.
      simpl. apply in_map_iff. exists (k, x). auto.
  Qed.

  Lemma struct_impl fs ms : Forall Q (map snd ms) -> rts_struct ctx fs ms = true -> rtso_struct ctx fs ms = true.
  Proof.
    intros HK. rewrite Forall_forall in HK. unfold rts_struct, rtso_struct. intros H.
    apply andb_true_iff in H. destruct H as [H _]. apply andb_true_iff in H. destruct H as [H _].
    apply andb_true_iff in H. destruct H as [H1 H2]. apply andb_true_iff. split; auto.
    eapply forallb_impl; [|exact H1]. intros [k x] Hx. unfold rts_member, rtso_member. simpl.
    destruct (find (fun f => seqb (f_name f) k) fs); auto. intros H. apply andb_true_iff in H. destruct H as [Ha Hb].
    apply andb_true_iff. split; auto. apply HK; auto. apply in_map_iff. exists (k, x). auto.
  Qed.

  Lemma body_impl j t src pt : Forall Q (kids j) ->
    rts_body ctx t j src pt = true -> rtso_body ctx t j src pt = true.
  Proof.
    intros HK. destruct pt; try (apply simple_impl; exact HK).
    unfold rts_body, rtso_body. intros H. apply andb_true_iff in H. destruct H as [_ H].
    destruct (union_scalars (TStruct a dh fs)).
    - eapply forallb_impl; [|exact H]. intros f _ Hf. apply andb_true_iff in Hf. destruct Hf as [Hf _].
      apply simple_impl; auto.
    - destruct (union_refs (TStruct a dh fs)).
      + unfold rts_urefs, rtso_urefs in *. destruct j; auto.
        destruct (select_branch d (last_member (d_disc d) ms)); auto.
        destruct (field_by_ref_name fs s); auto.
        destruct (payload_type ctx (f_type f)); auto. destruct t0; auto.
        apply andb_true_iff in H. destruct H as [H _]. apply struct_impl; auto.
      + destruct j; auto. apply struct_impl; auto.
  Qed.

  Theorem rtsF_rts : forall j, Q j.
  Proof.
    assert (Step : forall j, j <> JNull -> Forall Q (kids j) -> Q j).
    { intros j Hj HK src t H. rewrite rtsF_unfold in H by assumption. rewrite rts_unfold by assumption.
      destruct (payload_type ctx t); auto. apply body_impl; auto. }
    induction j using json_ind'.
    - intros src t _. reflexivity.
    - apply Step; [discriminate|constructor].
    - apply Step; [discriminate|constructor].
    - apply Step; [discriminate|constructor].
    - apply Step; [discriminate|exact H].
    - apply Step; [discriminate|]. simpl. apply Forall_map. exact H.
  Qed.
End Impl.

Theorem roundtrip_safeF_safe ctx p n d : roundtrip_safeF ctx p n d = true -> roundtrip_safe ctx p n d = true.
Proof. apply rtsF_rts. Qed.
Print Assumptions roundtrip_safeF_safe.
