(* C01 — counterexamples to go_roundtrip_nf_partial AS FIRST STATED (Props/C01.v with the exclusion predicate
   `rts` of Model/GoSemSpec01.v as it was when this file was written; kept here verbatim as `rts_old`, so that the
   file keeps documenting why each conjunct (a)-(e) of Model/GoSemSpec01F.v rtsF is needed).  Each is checked
   by vm_compute. *)
From Coq Require Import List String ZArith Bool Ascii Arith Lia.
From Cog Require Import Model.GoSem Model.GoSemSpec08 Model.GoSemSpec01 Model.GoSemSpec01F.
Import ListNotations.
Local Open Scope list_scope.
Local Open Scope string_scope.

(* verbatim copy of Model/GoSemSpec01.v `rts` (first version) *)
Fixpoint rts_old (ctx : schemas) (src : rawsrc) (j : json) (t : ty) {struct j} : bool :=
  match j with
  | JNull => true
  | _ =>
      match payload_type ctx t with
      | PUnm _ => false
      | PTy pt =>
          let simple := fun (src : rawsrc) (pt : ty) =>
            match pt with
            | TScalar _ k _ _ => scalar_safe pt k j
            | TEnum _ vs => match enum_base vs with TScalar _ k _ _ as b => scalar_safe b k j | _ => false end
            | TArray _ et =>
                match j with
                | JArr l =>
                    (forallb (fun x => rts_old ctx RElem x et) l &&
                     (array_of_scalars ctx 8 pt ||
                      (match src with RElem => false | _ => true end &&
                       (negb (is_ref t && t_nullable t) || match l with [] => true | _ => false end))))%bool
                | _ => true
                end
            | TMap _ _ vt =>
                match j with
                | JObj ms =>
                    (forallb (fun kv => rts_old ctx RVal (snd kv) vt) ms &&
                     (map_of_scalars ctx 8 pt || match src with RVal => false | _ => true end))%bool
                | _ => true
                end
            | _ => true
            end in
          let struct_safe := fun (fs : list field) (ms : list (string * json)) =>
            (forallb (fun kv =>
                        match find (fun f => seqb (f_name f) (fst kv)) fs with
                        | None => true
                        | Some f =>
                            (rts_old ctx RField (snd kv) (f_type f) &&
                             (f_required f || negb (is_empty_collection (snd kv))))%bool
                        end) ms &&
             forallb (fun f => (negb (f_required f) || str_in (f_name f) (map fst ms))%bool) fs)%bool in
          match pt with
          | TStruct _ _ fs =>
              match union_scalars pt, union_refs pt with
              | Some _, _ => forallb (fun f => simple RField (non_null (f_type f))) fs
              | None, Some d =>
                  match j with
                  | JObj ms =>
                      match select_branch d (last_member (d_disc d) ms) with
                      | Some n =>
                          match field_by_ref_name fs n with
                          | Some f => match payload_type ctx (f_type f) with
                                      | PTy (TStruct _ _ bfs) => struct_safe bfs ms
                                      | _ => false end
                          | None => false
                          end
                      | None => false
                      end
                  | _ => true
                  end
              | None, None => match j with JObj ms => struct_safe fs ms | _ => true end
              end
          | _ => simple src pt
          end
      end
  end.

Definition roundtrip_safe_old (ctx : schemas) (p n : string) (d : json) : bool := rts_old ctx RField d (TRef attrs0 p n).

Module X01.
  Definition meta0 : smeta := {| m_kind := "" ; m_variant := "" ; m_identifier := "" |}.
  Definition tstr : ty := TScalar attrs0 KString DNil [].
  Definition tint : ty := TScalar attrs0 KInt64 DNil [].
  Definition nullable0 : attrs := {| nullable := true; dflt := DNil; hints := [] |}.
  Definition tdt : ty :=
    TScalar {| nullable := false; dflt := DNil; hints := [("string_format_datetime", DBool true)] |} KString DNil [].
  Definition mk (objs : list (string * ty)) : schemas :=
    [mkSchema "p" meta0 "" ty_zero (map (fun nt => (fst nt, mkObject (fst nt) [] (snd nt) "p" (fst nt))) objs)].
  Definition all_hyps (ctx : schemas) (d : json) : bool :=
    (ctx_supported ctx && struct_object ctx "p" "Root" && json_wf d && ir_valid_object ctx "p" "Root" d &&
     roundtrip_safe_old ctx "p" "Root" d)%bool.

  (* (i.a) optional NON-nullable string holding "": omitted by omitempty *)
  Definition c1 := mk [("Root", TStruct attrs0 [] [mkField "s" [] tstr false])].
  Definition d1 := JObj [("s", JStr "")].
  (* (i.b) optional non-nullable date-time, absent: the zero time.Time is not "empty", printed *)
  Definition c2 := mk [("Root", TStruct attrs0 [] [mkField "w" [] tdt false])].
  Definition d2 := JObj [].
  (* (i.c) optional non-nullable struct reference, absent: printed as an object of zero values *)
  Definition c3 := mk [("S", TStruct attrs0 [] [mkField "x" [] tint true]);
                       ("Root", TStruct attrs0 [] [mkField "s" [] (TRef attrs0 "p" "S") false])].
  Definition d3 := JObj [].
  (* (ii) inline struct: the strict template has no case for it (model: GUnmodelled) *)
  Definition c4 := mk [("Root", TStruct attrs0 [] [mkField "a" [] (TStruct attrs0 [] []) true])].
  Definition d4 := JObj [("a", JObj [])].
  (* (iii) two fields with the same name: the re-encoding has a duplicate member, not ir_valid *)
  Definition c5 := mk [("Root", TStruct attrs0 [] [mkField "a" [] tstr true; mkField "a" [] tstr true])].
  Definition d5 := JObj [("a", JStr "x")].
  (* (iv) null ELEMENT of an array of nullable arrays of non-scalars: rts says true for null, strict_val panics *)
  Definition c6 := mk [("S", TStruct attrs0 [] [mkField "x" [] tint true]);
                       ("Root", TStruct attrs0 [] [mkField "a" [] (TArray attrs0 (TArray nullable0 (TRef attrs0 "p" "S"))) true])].
  Definition d6 := JObj [("a", JArr [JNull])].
  (* (v) null element of an array of nullable struct references: strict decoder reports the missing required field *)
  Definition c7 := mk [("S", TStruct attrs0 [] [mkField "x" [] tint true]);
                       ("Root", TStruct attrs0 [] [mkField "a" [] (TArray attrs0 (TRef nullable0 "p" "S")) true])].
  Definition d7 := JObj [("a", JArr [JNull])].
  (* (vi) union of refs, discriminator member null (catch-all mapping) and optional: dropped, e has no discriminator *)
  Definition c8 := mk [("A", TStruct attrs0 [] [mkField "type" [] (TScalar nullable0 KString DNil []) false]);
                       ("Root", TStruct attrs0 [("disjunction_of_refs",
                                                mkDisj [TRef attrs0 "p" "A"] "type" [(catch_all, "A")])]
                                  [mkField "A" [] (TRef nullable0 "p" "A") false])].
  Definition d8 := JObj [("type", JNull)].
End X01.

Example cex1 : (X01.all_hyps X01.c1 X01.d1, roundtrip_holds X01.c1 "p" "Root" X01.d1) = (true, false).
Proof. vm_compute. reflexivity. Qed.
Example cex2 : (X01.all_hyps X01.c2 X01.d2, roundtrip_holds X01.c2 "p" "Root" X01.d2) = (true, false).
Proof. vm_compute. reflexivity. Qed.
Example cex3 : (X01.all_hyps X01.c3 X01.d3, roundtrip_holds X01.c3 "p" "Root" X01.d3) = (true, false).
Proof. vm_compute. reflexivity. Qed.
Example cex4 : (X01.all_hyps X01.c4 X01.d4, roundtrip_holds X01.c4 "p" "Root" X01.d4) = (true, false).
Proof. vm_compute. reflexivity. Qed.
Example cex5 : (X01.all_hyps X01.c5 X01.d5, roundtrip_holds X01.c5 "p" "Root" X01.d5) = (true, false).
Proof. vm_compute. reflexivity. Qed.
Example cex6 : (X01.all_hyps X01.c6 X01.d6, roundtrip_holds X01.c6 "p" "Root" X01.d6) = (true, false).
Proof. vm_compute. reflexivity. Qed.
Example cex7 : (X01.all_hyps X01.c7 X01.d7, roundtrip_holds X01.c7 "p" "Root" X01.d7) = (true, false).
Proof. vm_compute. reflexivity. Qed.
Example cex8 : (X01.all_hyps X01.c8 X01.d8, roundtrip_holds X01.c8 "p" "Root" X01.d8) = (true, false).
Proof. vm_compute. reflexivity. Qed.

(* (vii) union of scalars with two collection branches: the FIRST branch that decodes wins; `null` elements decode
   into any element type (no-op), so [null] is taken by the []int64 branch and printed as [0] *)
Module X01b.
  Import X01.
  Definition c9 := mk [("U", TStruct attrs0 [("disjunction_of_scalars", mkDisj [] "" [])]
                              [mkField "ArrayOfInt64" [] (TArray attrs0 tint) false;
                               mkField "ArrayOfString" [] (TArray attrs0 (TScalar nullable0 KString DNil [])) false]);
                       ("Root", TStruct attrs0 [] [mkField "u" [] (TRef attrs0 "p" "U") true])].
  Definition d9 := JObj [("u", JArr [JNull])].
End X01b.
Example cex9 : (X01.all_hyps X01b.c9 X01b.d9, roundtrip_holds X01b.c9 "p" "Root" X01b.d9) = (true, false).
Proof. vm_compute. reflexivity. Qed.

(* the corrected predicate excludes every one of them *)
Example cex_excluded :
  map (fun cd => roundtrip_safeF (fst cd) "p" "Root" (snd cd))
      [(X01.c1, X01.d1); (X01.c2, X01.d2); (X01.c3, X01.d3); (X01.c4, X01.d4); (X01.c5, X01.d5);
       (X01.c6, X01.d6); (X01.c7, X01.d7); (X01.c8, X01.d8); (X01b.c9, X01b.d9)]
  = [false; false; false; false; false; false; false; false; false].
Proof. vm_compute. reflexivity. Qed.
