(* C01 — named pieces of decode / strict_ok / rtsF / strict_val and their unfolding equations. *)
From Coq Require Import List String ZArith Bool Ascii Arith Lia.
From Cog Require Import Model.GoSem Model.GoSemSpec08 Model.GoSemSpec01 Proofs.GoSemEqualsProofs
  Model.GoSemSpec01F Proofs.GoSemC01Json.
Import ListNotations.
Local Open Scope list_scope.
Local Open Scope string_scope.

(* ---------- decode ---------- *)
Definition dec_simple (ctx : schemas) (j : json) (pt : ty) : dres :=
  match pt with
  | TScalar _ k _ _ => decode_scalar pt k j
  | TEnum _ vs => match enum_base vs with TScalar _ k _ _ as b => decode_scalar b k j | _ => DUnm "enum base" end
  | TArray _ et =>
      match j with
      | JArr l =>
          let rs := map (fun x => decode ctx x et) l in
          match first_bad rs with
          | Some bad => bad
          | None => DSet (GSlice (map (dval (zero ctx et)) rs))
          end
      | _ => DErr
      end
  | TMap _ _ vt =>
      match j with
      | JObj ms =>
          let rs := map (fun kv => (fst kv, decode ctx (snd kv) vt)) ms in
          match first_bad (map snd rs) with
          | Some bad => bad
          | None => DSet (GMap (fold_left (fun acc kr => gmap_set acc (fst kr) (dval (zero ctx vt) (snd kr))) rs []))
          end
      | _ => DErr
      end
  | _ => DUnm "type kind"
  end.

Definition wrapd (t : ty) (r : dres) : dres :=
  if is_ptr t then match r with DSet v => DSet (GPtr v) | x => x end else r.

Definition branch_val (f : field) (v : gval) : gval :=
  match f_type f with TArray _ _ | TMap _ _ _ => v | _ => GPtr v end.

Definition dec_union (ctx : schemas) (j : json) (fs : list field) : list field -> dres :=
  fix try (bs : list field) : dres :=
    match bs with
    | [] => DErr
    | f :: r =>
        match dec_simple ctx j (non_null (f_type f)) with
        | DSet v => DSet (set_field fs (f_name f) (branch_val f v))
        | DKeep => DErr
        | DErr => try r
        | DUnm w => DUnm w
        end
    end.

Definition dec_urefs (ctx : schemas) (j : json) (d : disj) (fs : list field) : dres :=
  match j with
  | JObj ms =>
      match select_branch d (last_member (d_disc d) ms) with
      | None => DSet (all_nil fs)
      | Some n =>
          match field_by_ref_name fs n with
          | None => DUnm "mapping target is not a branch"
          | Some f =>
              match payload_type ctx (f_type f) with
              | PTy (TStruct _ [] bfs) =>
                  match decode_members (decode ctx) (zero ctx) bfs ms with
                  | DSet v => DSet (set_field fs (f_name f) (GPtr v))
                  | x => x
                  end
              | PTy _ => DUnm "union branch is not a plain struct"
              | PUnm w => DUnm w
              end
          end
      end
  | _ => DErr
  end.

Definition dec_body (ctx : schemas) (j : json) (pt : ty) : dres :=
  match pt with
  | TStruct _ _ fs =>
      match union_scalars pt, union_refs pt with
      | Some _, _ => dec_union ctx j fs fs
      | None, Some d => dec_urefs ctx j d fs
      | None, None =>
          match j with
          | JObj ms => decode_members (decode ctx) (zero ctx) fs ms
          | _ => DErr
          end
      end
  | _ => dec_simple ctx j pt
  end.

Lemma decode_unfold ctx j t : j <> JNull ->
  decode ctx j t = match payload_type ctx t with
                   | PUnm w => DUnm w
                   | PTy pt => wrapd t (dec_body ctx j pt)
                   end.
Proof. intros H; destruct j; [congruence|reflexivity..|cbn [decode]; reflexivity|cbn [decode]; reflexivity]. Qed.

(* ---------- strict_ok ---------- *)
Definition sok_simple (ctx : schemas) (j : json) (pt : ty) : bool :=
  match pt with
  | TScalar _ k _ _ => json_fits_scalar pt k j
  | TEnum _ vs => match enum_base vs with TScalar _ k _ _ as b => json_fits_scalar b k j | _ => false end
  | TArray _ et => match j with JArr l => forallb (fun x => strict_ok ctx x et) l | _ => false end
  | TMap _ _ vt => match j with JObj ms => forallb (fun kv => strict_ok ctx (snd kv) vt) ms | _ => false end
  | _ => false
  end.

Definition sok_member (ctx : schemas) (fs : list field) (kv : string * json) : bool :=
  match find (fun f => seqb (f_name f) (fst kv)) fs with
  | None => false
  | Some f =>
      match snd kv with
      | JNull => negb (f_required f && negb (t_nullable (f_type f)))
      | _ => strict_ok ctx (snd kv) (f_type f)
      end
  end.

Definition sok_struct (ctx : schemas) (fs : list field) (ms : list (string * json)) : bool :=
  (members_nodup ms && forallb (sok_member ctx fs) ms &&
   forallb (fun f => (negb (f_required f) || has_default (f_type f) || str_in (f_name f) (map fst ms))%bool) fs)%bool.

Definition sok_urefs (ctx : schemas) (j : json) (d : disj) (fs : list field) : bool :=
  match j with
  | JObj ms =>
      match select_branch d (last_member (d_disc d) ms) with
      | Some n =>
          match field_by_ref_name fs n with
          | Some f => match payload_type ctx (f_type f) with
                      | PTy (TStruct _ _ bfs) => sok_struct ctx bfs ms
                      | _ => false end
          | None => false
          end
      | None => false
      end
  | _ => false
  end.

Definition sok_body (ctx : schemas) (j : json) (pt : ty) : bool :=
  match pt with
  | TStruct _ _ fs =>
      match union_scalars pt, union_refs pt with
      | Some _, _ => existsb (fun f => sok_simple ctx j (non_null (f_type f))) fs
      | None, Some d => sok_urefs ctx j d fs
      | None, None => match j with JObj ms => sok_struct ctx fs ms | _ => false end
      end
  | _ => sok_simple ctx j pt
  end.

Lemma strict_ok_unfold ctx j t : j <> JNull ->
  strict_ok ctx j t = match payload_type ctx t with
                      | PUnm _ => false
                      | PTy pt => sok_body ctx j pt
                      end.
Proof. intros H; destruct j; [congruence|unfold sok_body, sok_urefs, sok_struct, sok_member, sok_simple; reflexivity..]. Qed.

(* ---------- rtsF ---------- *)
Definition rts_simple (ctx : schemas) (t : ty) (j : json) (src : rawsrc) (pt : ty) : bool :=
  match pt with
  | TScalar _ k _ _ => scalar_safe pt k j
  | TEnum _ vs => match enum_base vs with TScalar _ k _ _ as b => scalar_safe b k j | _ => false end
  | TArray _ et =>
      match j with
      | JArr l =>
          (forallb (fun x => rtsF ctx RElem x et) l &&
           (array_of_scalars ctx 8 pt ||
            (match src with RElem => false | _ => true end &&
             (negb (is_ref t && t_nullable t) || match l with [] => true | _ => false end))))%bool
      | _ => true
      end
  | TMap _ _ vt =>
      match j with
      | JObj ms =>
          (forallb (fun kv => rtsF ctx RVal (snd kv) vt) ms &&
           (map_of_scalars ctx 8 pt || match src with RVal => false | _ => true end))%bool
      | _ => true
      end
  | _ => true
  end.

Definition rts_member (ctx : schemas) (fs : list field) (kv : string * json) : bool :=
  match find (fun f => seqb (f_name f) (fst kv)) fs with
  | None => true
  | Some f =>
      (rtsF ctx RField (snd kv) (f_type f) &&
       (f_required f || negb (is_empty_collection (snd kv))))%bool
  end.

Definition rts_struct (ctx : schemas) (fs : list field) (ms : list (string * json)) : bool :=
  (forallb (rts_member ctx fs) ms &&
   forallb (fun f => (negb (f_required f) || str_in (f_name f) (map fst ms))%bool) fs &&
   str_nodup (map (fun f => f_name f) fs) &&
   forallb (fun f => (f_required f || nilable ctx (f_type f))%bool) fs)%bool.

Definition rts_urefs (ctx : schemas) (j : json) (d : disj) (fs : list field) : bool :=
  match j with
  | JObj ms =>
      match select_branch d (last_member (d_disc d) ms) with
      | Some n =>
          match field_by_ref_name fs n with
          | Some f => match payload_type ctx (f_type f) with
                      | PTy (TStruct _ _ bfs) =>
                          (rts_struct ctx bfs ms &&
                           match last_member (d_disc d) ms with
                           | Some JNull => false | _ => true end)%bool
                      | _ => false end
          | None => false
          end
      | None => false
      end
  | _ => true
  end.

Definition rts_body (ctx : schemas) (t : ty) (j : json) (src : rawsrc) (pt : ty) : bool :=
  match pt with
  | TStruct _ _ fs =>
      (is_ref t && str_nodup (map (fun f => f_name f) fs) &&
       match union_scalars pt, union_refs pt with
       | Some _, _ => forallb (fun f => (rts_simple ctx t j RField (non_null (f_type f)) &&
                                         coll_fits ctx j (non_null (f_type f)))%bool) fs
       | None, Some d => rts_urefs ctx j d fs
       | None, None => match j with JObj ms => rts_struct ctx fs ms | _ => true end
       end)%bool
  | _ => rts_simple ctx t j src pt
  end.

Lemma rtsF_unfold ctx src j t : j <> JNull ->
  rtsF ctx src j t = match payload_type ctx t with
                     | PUnm _ => false
                     | PTy pt => rts_body ctx t j src pt
                     end.
Proof. intros H; destruct j; [congruence|unfold rts_body, rts_urefs, rts_struct, rts_member, rts_simple; reflexivity..]. Qed.

(* ---------- strict_val ---------- *)
Definition sv_std (ctx : schemas) (j : json) (t : ty) : sres :=
  match decode ctx j t with
  | DSet v => SOk v
  | DKeep => SOk (zero ctx t)
  | DErr => SErrAcc (zero ctx t)
  | DUnm w => SUnm w
  end.

Definition sv_union (ctx : schemas) (j : json) (fs : list field) : list field -> sres :=
  fix try (bs : list field) : sres :=
    match bs with
    | [] => SAbort
    | f :: r =>
        let bt := non_null (f_type f) in
        let hold := fun v : gval =>
          set_field fs (f_name f) match f_type f with TArray _ _ | TMap _ _ _ => v | _ => GPtr v end in
        match decode ctx j bt with
        | DSet v => SOk (hold v)
        | DKeep => SOk (hold (zero ctx bt))
        | DErr => try r
        | DUnm w => SUnm w
        end
    end.

Definition sv_urefs (ctx : schemas) (j : json) (d : disj) (fs : list field) : sres :=
  match j with
  | JObj ms =>
      match select_branch d (last_member (d_disc d) ms) with
      | None => SAbort
      | Some n =>
          match field_by_ref_name fs n with
          | None => SUnm "mapping target is not a branch"
          | Some f =>
              match payload_type ctx (f_type f) with
              | PTy (TStruct _ [] bfs) =>
                  match strict_members (strict_val ctx RField) (zero ctx) bfs ms with
                  | SOk v => SOk (set_field fs (f_name f) (GPtr v))
                  | SErrAcc _ => SAbort
                  | x => x
                  end
              | PTy _ => SUnm "union branch is not a plain struct"
              | PUnm w => SUnm w
              end
          end
      end
  | _ => SAbort
  end.

Definition sv_struct_body (ctx : schemas) (j : json) (pt : ty) (fs : list field) : sres :=
  match union_scalars pt, union_refs pt with
  | Some _, _ => sv_union ctx j fs fs
  | None, Some d => sv_urefs ctx j d fs
  | None, None =>
      match j with
      | JObj ms => strict_members (strict_val ctx RField) (zero ctx) fs ms
      | JNull => strict_members (strict_val ctx RField) (zero ctx) fs []
      | _ => SAbort
      end
  end.

Definition sv_arr (ctx : schemas) (src : rawsrc) (j : json) (t et : ty) : sres :=
  match src with RElem => SPanic | _ =>
  match j with
  | JArr l =>
      let rs := map (fun x => strict_val ctx RElem x et) l in
      if (is_ref t && t_nullable t)%bool then
        match rs with
        | [] => SOk GNil
        | SAbort :: _ => SAbort
        | SUnm w :: _ => SUnm w
        | _ :: _ => SPanic
        end
      else
        match seq_results rs [] false with
        | inl stop => stop
        | inr (vals, err) =>
            let v := match vals with [] => GNil | _ => GSlice vals end in
            if err then SErrAcc v else SOk v
        end
  | JNull => SOk GNil
  | _ => SAbort
  end
  end.

Definition sv_map (ctx : schemas) (src : rawsrc) (j : json) (t vt : ty) : sres :=
  let wrap := fun m : gval => if is_ptr t then GPtr m else m in
  match src with RVal => SAbort | _ =>
  match j with
  | JObj ms =>
      let rs := map (fun kv => strict_val ctx RVal (snd kv) vt) ms in
      match seq_results rs [] false with
      | inl stop => stop
      | inr (vals, err) =>
          let v := wrap (GMap (fold_left (fun acc kv => gmap_set acc (fst kv) (snd kv))
                                         (combine (map fst ms) vals) [])) in
          if err then SErrAcc v else SOk v
      end
  | JNull => SOk (wrap (GMap []))
  | _ => SAbort
  end
  end.

Lemma strict_val_unfold ctx src j t :
  strict_val ctx src j t =
  match payload_type ctx t with
  | PUnm w => SUnm w
  | PTy pt =>
      match pt with
      | TScalar _ _ _ _ | TEnum _ _ => sv_std ctx j t
      | TArray _ et => if array_of_scalars ctx 8 pt then sv_std ctx j t else sv_arr ctx src j t et
      | TMap _ _ vt => if map_of_scalars ctx 8 pt then sv_std ctx j t else sv_map ctx src j t vt
      | TStruct _ _ fs =>
          if negb (is_ref t) then SUnm "inline struct: the template has no case for it" else
          let body := sv_struct_body ctx j pt fs in
          match body with
          | SOk v => SOk (if is_ptr t then GPtr v else v)
          | SErrAcc _ | SAbort => SErrAcc (if is_ptr t then GPtr (zero ctx (non_null t)) else zero ctx (non_null t))
          | x => x
          end
      | _ => SUnm "type kind"
      end
  end.
Proof. destruct j; unfold sv_std, sv_arr, sv_map, sv_struct_body, sv_union, sv_urefs; reflexivity. Qed.
