(* ctx_supported of the post-chain context derived from chain_plain_oa (and, on the IR, from ctx_plain_x + ctx_sup_pre +
   ctx_no_bytes); the OpenAPI end-to-end theorem without the hypothesis `ctx_supported out`.
   Adapted from Proofs/FrontEndChain2Sup.v. *)
From Coq Require Import List String ZArith Bool Ascii Lia.
From Cog Require Import Model.IR Model.Json Model.GoSemBase Model.GoSemDecode Model.GoSemValidate Model.GoSemStrict
  Model.GoSem Model.GoSemSpec08 Model.GoSemSpec01 Model.GoSemSpec01F Model.Src Model.FrontEnd Model.FrontEndSpec
  Model.FrontEndSpecOA Model.FrontEndCue Model.FrontEndSpecCue
  Model.Passes Model.PassesChain Model.Process Gen.Chains_gen Model.FrontEndChainSpec Model.FrontEndChainSpec2
  Model.FrontEndChainSpecX Model.FrontEndChainSpecX2.
From Cog Require Import Proofs.FrontEndLemmas Proofs.FrontEndChainPasses Proofs.FrontEndChainAccept Proofs.FrontEndChain
  Proofs.FrontEndChain2Sup Proofs.FrontEndChainXPasses Proofs.FrontEndChainXAccept Proofs.FrontEndChainX Proofs.FrontEndOA.
Import ListNotations.
Local Open Scope string_scope.
Local Open Scope list_scope.

(* ---------- IR level ---------- *)
Section SupX.
  Variable ctx : schemas.
  Hypothesis Hctx : ctx_plain_x ctx = true.
  Let out := nrfn_only ctx.

  Lemma fx2_byte_elem t : ty_plain_x t = true -> ty_sup_pre ctx t = true -> is_u8_scalar t = false -> byte_elem out t = false.
  Proof.
    intros P S U. unfold out, byte_elem. apply andb_false_iff. right. destruct t; try discriminate.
    - reflexivity.
    - reflexivity.
    - cbn [ty_sup_pre] in S. destruct (locate_object ctx pkg name) as [o|] eqn:L; [|discriminate].
      destruct (fx_plain_object _ _ _ _ Hctx L) as [sa [fs [E [A F]]]].
      rewrite (fx_payload_ref _ a _ _ _ _ _ Hctx L E A). reflexivity.
    - cbn [is_u8_scalar] in U. destruct k; try discriminate; reflexivity.
  Qed.

  Lemma fx2_ty_supported : forall t, ty_plain_x t = true -> ty_sup_pre ctx t = true -> ty_no_bytes t = true ->
    ty_supported out t = true.
  Proof.
    induction t; intros P S B; try discriminate.
    - (* array *)
      cbn [ty_plain_x] in P. apply andb_true_iff in P. destruct P as [_ P]. cbn [ty_sup_pre] in S.
      cbn [ty_no_bytes] in B. apply andb_true_iff in B. destruct B as [B1 B2]. apply negb_true_iff in B1.
      cbn [ty_supported]. rewrite (fx2_byte_elem t P S B1), (IHt P S B2). reflexivity.
    - (* map *)
      cbn [ty_plain_x] in P. apply andb_true_iff in P. destruct P as [_ P2]. cbn [ty_sup_pre] in S.
      apply andb_true_iff in S. destruct S as [S1 S2]. cbn [ty_no_bytes] in B.
      cbn [ty_supported]. rewrite S1, (IHt2 P2 S2 B). reflexivity.
    - (* ref *)
      cbn [ty_sup_pre] in S. destruct (locate_object ctx pkg name) as [o|] eqn:L; [|discriminate].
      destruct (fx_plain_object _ _ _ _ Hctx L) as [sa [fs [E [A F]]]].
      cbn [ty_supported]. unfold out. rewrite (fx_payload_ref _ a _ _ _ _ _ Hctx L E A). reflexivity.
    - (* scalar *)
      cbn [ty_sup_pre] in S. cbn [ty_supported]. rewrite S.
      simpl in P. apply andb_true_iff in P. destruct P as [P _]. apply andb_true_iff in P. destruct P as [_ K].
      destruct k; try discriminate; reflexivity.
  Qed.

  Lemma fx2_supported_set_nullable t b : ty_plain_x t = true -> ty_supported out (set_nullable t b) = ty_supported out t.
  Proof. destruct t; intro P; try discriminate; reflexivity. Qed.

  Lemma fx2_field_supported f : ty_plain_x (f_type f) = true -> ty_sup_pre ctx (f_type f) = true ->
    ty_no_bytes (f_type f) = true -> ty_supported out (f_type (nrfn_field f)) = true.
  Proof.
    intros P S B. unfold nrfn_field. cbn [f_type].
    destruct (negb (f_required f) && negb (nullable (ty_attrs (f_type f))))%bool;
      [rewrite (fx2_supported_set_nullable _ _ P)|]; apply fx2_ty_supported; assumption.
  Qed.

  Theorem fx2_ctx_supported : ctx_sup_pre ctx = true -> ctx_no_bytes ctx = true -> ctx_supported out = true.
  Proof.
    intros HS HB. unfold ctx_supported, out. unfold nrfn_only at 2. rewrite fc_forallb_map.
    apply forallb_forall. intros s Hs. cbn [set_objects s_objects]. rewrite fc_forallb_map.
    apply forallb_forall. intros [k o] Ho. cbn [snd].
    assert (obj_plain_x (k, o) = true) as OP.
    { unfold ctx_plain_x in Hctx. rewrite forallb_forall in Hctx. specialize (Hctx s Hs). unfold schema_plain_x in Hctx.
      apply andb_true_iff in Hctx. destruct Hctx as [X _]. apply andb_true_iff in X. destruct X as [_ X].
      exact (proj1 (forallb_forall _ _) X _ Ho). }
    assert (ty_sup_pre ctx (o_type o) = true) as OS.
    { unfold ctx_sup_pre in HS. rewrite forallb_forall in HS. specialize (HS s Hs).
      exact (proj1 (forallb_forall _ _) HS _ Ho). }
    assert (ty_no_bytes (o_type o) = true) as OB.
    { unfold ctx_no_bytes in HB. rewrite forallb_forall in HB. specialize (HB s Hs).
      exact (proj1 (forallb_forall _ _) HB _ Ho). }
    unfold obj_plain_x in OP. cbn [fst snd] in OP. apply andb_true_iff in OP. destruct OP as [_ OP].
    unfold nrfn_only_obj. destruct (o_type o) eqn:E; try discriminate.
    apply andb_true_iff in OP. destruct OP as [OP F]. apply andb_true_iff in OP. destruct OP as [A D].
    destruct dh; [|discriminate]. cbn [ty_sup_pre] in OS. cbn [ty_no_bytes] in OB.
    unfold object_supported. cbn [set_otype o_type]. unfold t_nullable. cbn [ty_attrs].
    unfold attrs_plain in A. apply andb_true_iff in A. destruct A as [A _]. rewrite A. cbn [andb].
    cbn [union_ok union_scalars union_refs struct_dh alist_find]. rewrite andb_true_r.
    cbn [ty_supported]. rewrite fc_forallb_map. apply forallb_forall. intros f Hf.
    apply fx2_field_supported; [exact (proj1 (forallb_forall _ _) F f Hf)|exact (proj1 (forallb_forall _ _) OS f Hf)
                               |exact (proj1 (forallb_forall _ _) OB f Hf)].
  Qed.
End SupX.

(* ---------- the constraints the OpenAPI front-end produces are supported ---------- *)
Lemma fx2_cmp_int k g op z : (exists r, int_range k = Some r) -> is_float_kind k = false -> fc2_is_cmp op ->
  constraint_supported k (cstr op (DInt g z)) = true.
Proof.
  intros [r R] F H. unfold constraint_supported, cstr. cbn [c_args c_op dyn_num]. rewrite F, R.
  pose proof (fc2_num_norm_exp z 0 ltac:(lia)) as X.
  destruct H as [ -> | [ -> | [ -> | -> ] ] ]; cbn; exact X.
Qed.
Lemma fx2_cmp_float k op m e : is_float_kind k = true -> fc2_is_cmp op -> constraint_supported k (cstr op (dflo m e)) = true.
Proof.
  intros F H. unfold constraint_supported, cstr, dflo. cbn [c_args c_op dyn_num].
  destruct (FEDec.dec_roundtrip m e) as [[a b] [E _]]. rewrite E, F.
  destruct H as [ -> | [ -> | [ -> | -> ] ] ]; reflexivity.
Qed.

Lemma fx2_oa_bounds_int k ge gt le lt : (exists r, int_range k = Some r) -> is_float_kind k = false ->
  forallb (constraint_supported k) (oa_lower true (zb ge) (zb gt) ++ oa_upper true (zb le) (zb lt)) = true.
Proof.
  intros R F. unfold oa_lower, oa_upper, zb. rewrite forallb_app.
  destruct ge, gt, le, lt; cbn [forallb fst snd andb]; rewrite ?(fx2_cmp_int k _ _ _ R F); try reflexivity;
    unfold fc2_is_cmp; tauto.
Qed.
Lemma fx2_oa_bounds_float k ge gt le lt : is_float_kind k = true ->
  forallb (constraint_supported k) (oa_lower false ge gt ++ oa_upper false le lt) = true.
Proof.
  intros F. unfold oa_lower, oa_upper. rewrite forallb_app.
  destruct ge as [[? ?]|], gt as [[? ?]|], le as [[? ?]|], lt as [[? ?]|]; cbn [forallb fst snd andb];
    rewrite ?(fx2_cmp_float k _ _ _ F); try reflexivity; unfold fc2_is_cmp; tauto.
Qed.
Lemma fx2_oa_lengths mn mx : forallb (constraint_supported KString) (oa_lengths mn mx) = true.
Proof. unfold oa_lengths. destruct mn as [n|], mx; try destruct (Z.ltb 0 n); reflexivity. Qed.

(* ---------- source level ---------- *)
Lemma fx2_oa_ty_sup ctx pkg : forall t, sty_plain t = true ->
  (forall n, In n (refs_of t) -> exists o, locate_object ctx pkg n = Some o) ->
  ty_sup_pre ctx (oa_ty pkg t) = true.
Proof.
  induction t; intros P R; try discriminate; cbn [oa_ty ty_sup_pre].
  - reflexivity.
  - destruct (seqb w "int32"); apply fx2_oa_bounds_int; try reflexivity; eexists; reflexivity.
  - destruct (seqb w "float32"); apply fx2_oa_bounds_float; reflexivity.
  - apply fx2_oa_lengths.
  - reflexivity.
  - apply IHt; [exact P|exact R].
  - cbn [t_string andb]. apply IHt; [exact P|exact R].
  - destruct (R name (or_introl eq_refl)) as [o ->]. reflexivity.
Qed.

Lemma fx2_oa_ty_no_bytes pkg : forall t, sty_plain t = true -> ty_no_bytes (oa_ty pkg t) = true.
Proof.
  induction t; intros P; try discriminate; try reflexivity.
  - cbn [oa_ty ty_no_bytes]. cbn [sty_plain] in P. rewrite (IHt P), andb_true_r.
    destruct t; try reflexivity; try discriminate; cbn [oa_ty];
      match goal with |- context [if ?c then _ else _] => destruct c end; reflexivity.
  - cbn [oa_ty ty_no_bytes]. cbn [sty_plain] in P. exact (IHt P).
Qed.

Lemma fx2_oa_locate_def s n : src_wf_oa s = true -> str_in n (map fst (src_defs s)) = true ->
  exists o, locate_object (parse_ctx_oa s) (src_pkg s) n = Some o.
Proof.
  intros W I. destruct (src_wf_oa_parts s W) as [J [N A]].
  apply str_in_In in I. apply in_map_iff in I. destruct I as [[k t] [E I]]. cbn [fst] in E. subst k.
  rewrite (oa_locate_parse s n J), (src_lookup_in _ _ _ N I). eexists; reflexivity.
Qed.

(* every member type of every object of the parsed context satisfies a predicate that holds of oa_ty of plain types *)
Lemma fx2_oa_objects (Q : ty -> bool) s :
  chain_plain_oa s = true ->
  (forall fs, Q (TStruct attrs0 [] fs) = forallb (fun f => Q (f_type f)) fs) ->
  (forall k t g, In (k, t) (src_defs s) -> (exists gs, t = SStruct gs /\ In g gs) -> sty_plain (sf_type g) = true ->
                 Q (oa_ty (src_pkg s) (sf_type g)) = true) ->
  forallb (fun sc => forallb (fun ko => Q (o_type (snd ko))) (s_objects sc)) (parse_ctx_oa s) = true.
Proof.
  intros H QS QT. destruct (fx_chain_plain_oa_parts s H) as [W [J [_ P]]].
  rewrite (oa_parse_ctx_eq s J). cbn [forallb s_objects]. rewrite andb_true_r.
  rewrite fc_forallb_sort_objs, fc_forallb_map. apply forallb_forall. intros d Hd.
  pose proof (P d Hd) as Pd. destruct d as [k t]. cbn [oa_mkobj fst snd o_type] in *.
  destruct t; try discriminate. destruct fs as [|f fs]; [discriminate|].
  cbn [sdef_plain] in Pd. rewrite oa_ty_struct, QS.
  rewrite fc_forallb_sort_fields, fc_forallb_map. apply forallb_forall. intros g Hg.
  pose proof (proj1 (forallb_forall _ _) Pd g Hg) as Pg.
  unfold sfield_plain in Pg. apply andb_true_iff in Pg. destruct Pg as [Pg Hp].
  apply andb_true_iff in Pg. destruct Pg as [Hn _]. apply negb_true_iff in Hn. unfold oa_field. cbn [f_type]. rewrite Hn.
  cbn [andb]. unfold with_nullable. apply (QT k _ g Hd); [|exact Hp]. eexists. split; [reflexivity|exact Hg].
Qed.

Theorem chain_plain_oa_ctx_sup_pre s : chain_plain_oa s = true -> ctx_sup_pre (parse_ctx_oa s) = true.
Proof.
  intro H. destruct (fx_chain_plain_oa_parts s H) as [W _]. destruct (src_wf_oa_parts s W) as [_ [_ A]].
  unfold ctx_sup_pre. apply (fx2_oa_objects (ty_sup_pre (parse_ctx_oa s)) s H); [reflexivity|].
  intros k t g Hd [gs [-> Hg]] Hp. apply fx2_oa_ty_sup; [exact Hp|].
  intros n Hn. apply (fx2_oa_locate_def s n W). destruct (A _ _ Hd) as [_ [_ C]].
  rewrite forallb_forall in C. apply C. cbn [refs_of]. apply in_flat_map. exists g. split; assumption.
Qed.

Theorem chain_plain_oa_ctx_no_bytes s : chain_plain_oa s = true -> ctx_no_bytes (parse_ctx_oa s) = true.
Proof.
  intro H. unfold ctx_no_bytes. apply (fx2_oa_objects ty_no_bytes s H); [reflexivity|].
  intros k t g _ _ Hp. apply fx2_oa_ty_no_bytes. exact Hp.
Qed.

(* ---------- 1 ---------- *)
Theorem chain_plain_oa_ctx_supported s : chain_plain_oa s = true -> ctx_supported (nrfn_only (parse_ctx_oa s)) = true.
Proof.
  intro H. apply fx2_ctx_supported;
    [apply chain_plain_oa_ctx_plain|apply chain_plain_oa_ctx_sup_pre|apply chain_plain_oa_ctx_no_bytes]; exact H.
Qed.

(* ---------- 2 ---------- *)
Theorem src_valid_roundtrip_plain_oa_closed s tname d out :
  chain_plain_oa s = true -> json_wf d = true -> json_ints_int64 d = true ->
  process chain_go (parse_ctx_oa s) = Ok out ->
  str_in tname (map fst (src_defs s)) = true ->
  src_valid_doc "openapi" s tname d = true ->
  roundtrip_safeF out (src_pkg s) tname d = true ->
  roundtrip_holds out (src_pkg s) tname d = true.
Proof.
  intros H WF HI P IN SV RS.
  apply (src_valid_roundtrip_plain_oa s tname d out); try assumption.
  rewrite (chain_go_plain_explicit_oa s H) in P. inversion P; subst out. apply chain_plain_oa_ctx_supported. exact H.
Qed.

Print Assumptions fx2_ctx_supported.
Print Assumptions chain_plain_oa_ctx_supported.
Print Assumptions src_valid_roundtrip_plain_oa_closed.
