From Coq Require Import List String Bool Arith Lia.
From Cog Require Import Model.Heap.
Import ListNotations.
Local Open Scope list_scope.

Section HvalInd.
  Variable P : hval -> Prop.
  Hypothesis HLeaf : forall s, P (Leaf s).
  Hypothesis HNode : forall t l kids, Forall (fun kv => P (snd kv)) kids -> P (Node t l kids).
  Fixpoint hval_ind' (v : hval) : P v :=
    match v with
    | Leaf s => HLeaf s
    | Node t l kids =>
        HNode t l kids
          ((fix go (ks : list (string * hval)) : Forall (fun kv => P (snd kv)) ks :=
              match ks with
              | [] => Forall_nil _
              | kv :: r => Forall_cons kv (hval_ind' (snd kv)) (go r)
              end) kids)
    end.
End HvalInd.

Lemma assoc_in {A} (l : list (string * A)) k a : assoc l k = Some a -> In (k, a) l.
Proof.
  induction l as [|[k' a'] r IH]; simpl; [discriminate|].
  destruct (String.eqb k' k) eqn:E.
  - intros H; inversion H; subst. apply String.eqb_eq in E; subst. left; reflexivity.
  - intros H. right. apply IH. assumption.
Qed.

Definition is_missing (m : mode) : bool := match m with Missing => true | _ => false end.

(* no declared field of a struct that has a copy routine is dropped by it *)
Definition no_missing (d : decls_t) (s : spec_t) : bool :=
  forallb (fun nms =>
    match assoc d (fst nms) with
    | Some fs => forallb (fun ft => negb (is_missing (field_mode s (fst nms) (fst ft)))) fs
    | None => true
    end) s.

Lemma no_missing_field d s n fs fn ft :
  no_missing d s = true -> assoc d n = Some fs -> In (fn, ft) fs -> field_mode s n fn <> Missing.
Proof.
  intros Hnm Hd Hin. unfold field_mode. destruct (assoc s n) as [ms|] eqn:Hs; [|discriminate].
  pose proof (assoc_in _ _ _ Hs) as Hs'. unfold no_missing in Hnm. rewrite forallb_forall in Hnm.
  specialize (Hnm (n, ms) Hs'). simpl in Hnm. rewrite Hd in Hnm. rewrite forallb_forall in Hnm.
  specialize (Hnm (fn, ft) Hin). simpl in Hnm. unfold field_mode in Hnm. rewrite Hs in Hnm.
  destruct (assoc ms fn) as [m|]; [|discriminate].
  destruct m; simpl in Hnm; try discriminate; intros H; discriminate H.
Qed.

Lemma copy_call_unfold d s off n v :
  copy d s off (GNamed n) Call v
  = copy_struct_with d (fun n fn ft kv => copy d s off ft (field_mode s n fn) kv) n v.
Proof. destruct v; reflexivity. Qed.

Lemma copy_ptrcall_unfold d s off n v :
  copy d s off (GPtr (GNamed n)) PtrCall v
  = copy_ptr (copy_struct_with d (fun n fn ft kv => copy d s off ft (field_mode s n fn) kv) n) off v.
Proof. destruct v; reflexivity. Qed.

Definition erase_kv (kv : string * hval) := (fst kv, erase (snd kv)).

Lemma erase_node t l kids : erase (Node t l kids) = Node t None (map erase_kv kids).
Proof. reflexivity. Qed.

Section Faithful.
  Variables (d : decls_t) (s : spec_t) (off : nat).
  Hypothesis Hnm : no_missing d s = true.

  Let CP := (fun n fn ft kv => copy d s off ft (field_mode s n fn) kv).
  Definition FaithfulAt (v : hval) : Prop :=
    forall t m, m <> Missing -> erase (copy d s off t m v) = erase v.

  Lemma copy_kids_erase n kids : forall fs,
    Forall (fun kv => FaithfulAt (snd kv)) kids ->
    (forall fn ft, In (fn, ft) fs -> field_mode s n fn <> Missing) ->
    map erase_kv (copy_kids (CP n) kids fs) = map erase_kv kids.
  Proof.
    induction kids as [|[kn kv] kr IH]; intros fs HF Hf; [reflexivity|].
    destruct fs as [|[fn ft] fr]; [reflexivity|]. simpl.
    inversion HF as [|? ? Hkv Hkr]; subst. f_equal.
    - unfold erase_kv. simpl. f_equal. apply Hkv. apply (Hf fn ft). left; reflexivity.
    - apply IH; [assumption|]. intros fn' ft' Hin. apply (Hf fn' ft'). right; assumption.
  Qed.

  Lemma struct_faithful n v : (forall t l kids, v = Node t l kids -> Forall (fun kv => FaithfulAt (snd kv)) kids) ->
    erase (copy_struct_with d CP n v) = erase v.
  Proof.
    intros HF. unfold copy_struct_with. destruct v as [x|t l kids]; [reflexivity|].
    destruct t; try reflexivity. destruct l; [reflexivity|].
    destruct (assoc d n) as [fs|] eqn:Hd; [|reflexivity].
    rewrite !erase_node. f_equal. apply copy_kids_erase; [apply (HF _ _ _ eq_refl)|].
    intros fn ft Hin. apply (no_missing_field d s n fs fn ft); assumption.
  Qed.

  Theorem copy_faithful_proof : forall v t m, m <> Missing -> erase (copy d s off t m v) = erase v.
  Proof.
    induction v as [x|tg l kids IH] using hval_ind'; intros t m Hm.
    - destruct m; try reflexivity; try congruence; simpl.
      + destruct t; reflexivity.
      + destruct t as [| | | t'| | | |]; try reflexivity. destruct t'; reflexivity.
      + destruct t as [| | | |t' | | |]; try reflexivity. destruct t'; reflexivity.
      + destruct t as [| | | |t' | | |]; try reflexivity. destruct t'; try reflexivity. destruct t'; reflexivity.
      + destruct t as [| | | | | |t' |]; try reflexivity. destruct t'; reflexivity.
    - assert (forall n x, In x (map snd kids) -> erase (copy_struct_with d CP n x) = erase x) as Hcs.
      { intros n x Hin. apply in_map_iff in Hin. destruct Hin as [kv [<- Hin]].
        rewrite Forall_forall in IH. specialize (IH kv Hin).
        unfold CP. rewrite <- copy_call_unfold. apply IH. discriminate. }
      destruct m; try reflexivity; try congruence.
      + (* Call *) destruct t; try reflexivity. rewrite copy_call_unfold.
        apply struct_faithful. intros t' l' kids' E. inversion E; subst. exact IH.
      + (* PtrCall *) simpl. destruct t as [| | | t'| | | |]; try reflexivity. destruct t' as [| |n| | | | |]; try reflexivity.
        unfold copy_ptr. destruct tg; try reflexivity. destruct kids as [|[k x] [|]]; try reflexivity.
        rewrite !erase_node. simpl. unfold erase_kv. simpl. do 3 f_equal.
        apply (Hcs n x). left; reflexivity.
      + (* SliceFreshShallow *) simpl. destruct tg; reflexivity.
      + (* SliceCall *) simpl. destruct t as [| | | |t' | | |]; try reflexivity. destruct t' as [| |n| | | | |]; try reflexivity.
        destruct tg; try reflexivity. rewrite !erase_node. f_equal. rewrite map_map.
        apply map_ext_in. intros kv Hin. unfold erase_kv. simpl. f_equal.
        apply (Hcs n). apply in_map. assumption.
      + (* SlicePtrCall *) simpl. destruct t as [| | | |t' | | |]; try reflexivity. destruct t' as [| | |t''| | | |]; try reflexivity.
        destruct t'' as [| |n| | | | |]; try reflexivity.
        destruct tg; try reflexivity. rewrite !erase_node. f_equal. rewrite map_map.
        apply map_ext_in. intros kv Hin. unfold erase_kv. simpl. f_equal.
        rewrite Forall_forall in IH. specialize (IH kv Hin).
        destruct (snd kv) as [y|tg' l' kids'] eqn:E; [reflexivity|].
        unfold copy_ptr. destruct tg'; try reflexivity. destruct kids' as [|[k x] [|]]; try reflexivity.
        rewrite !erase_node. simpl. unfold erase_kv. simpl. do 3 f_equal.
        (* x is a grandchild: use IH of the child with mode PtrCall *)
        specialize (IH (GPtr (GNamed n)) PtrCall ltac:(discriminate)). simpl in IH.
        injection IH as IH'. exact IH'.
      + (* MapFreshShallow *) simpl. destruct tg; reflexivity.
      + (* OMapCall *) simpl. destruct t as [| | | | | |t' |]; try reflexivity. destruct t' as [| |n| | | | |]; try reflexivity.
        destruct tg; try reflexivity. rewrite !erase_node. f_equal. rewrite map_map.
        apply map_ext_in. intros kv Hin. unfold erase_kv. simpl. f_equal.
        apply (Hcs n). apply in_map. assumption.
  Qed.
End Faithful.

(* ---------- independence ---------- *)
Definition wt_kids (d : decls_t) :=
  fix go (kids : list (string * hval)) (fs : list (string * gty)) {struct kids} : bool :=
    match kids, fs with
    | [], [] => true
    | (kn, kv) :: kr, (fn, ft) :: fr => String.eqb fn kn && wt d ft kv && go kr fr
    | _, _ => false
    end.

Lemma wt_struct d n m l kids :
  wt d (GNamed n) (Node (TgStruct m) l kids)
  = match l with
    | None => String.eqb n m && match assoc d n with Some fs => wt_kids d kids fs | None => false end
    | Some _ => false
    end.
Proof. destruct l; reflexivity. Qed.

Lemma wt_named_inv d n v : wt d (GNamed n) v = true ->
  exists kids fs, v = Node (TgStruct n) None kids /\ assoc d n = Some fs /\ wt_kids d kids fs = true.
Proof.
  destruct v as [x|tg l kids]; [simpl; discriminate|]. destruct tg; try (simpl; discriminate).
  rewrite wt_struct. destruct l; [discriminate|]. intros H. apply andb_true_iff in H. destruct H as [E H].
  apply String.eqb_eq in E; subst. destruct (assoc d n0) as [fs|]; [|discriminate].
  exists kids, fs. repeat split. assumption.
Qed.

Lemma locfree_no_locs d : forall v f t, locfree d f t = true -> wt d t v = true -> locs v = [].
Proof.
  induction v as [x|tg l kids IH] using hval_ind'; intros f t Hlf Hwt; [reflexivity|].
  destruct t; try (destruct f; simpl in Hlf; discriminate Hlf).
  - (* GScalar *) simpl in Hwt. discriminate Hwt.
  - (* GAny *) destruct tg; try (simpl in Hwt; discriminate Hwt). destruct l; [simpl in Hwt; discriminate Hwt|].
    destruct kids as [|[k x] r]; [reflexivity|].
    destruct x; destruct r; simpl in Hwt; try discriminate Hwt; reflexivity.
  - (* GNamed *) destruct f as [|f']; [discriminate Hlf|].
    destruct (wt_named_inv d n _ Hwt) as [kids' [fs [E [Hd Hk]]]]. inversion E; subst. clear E.
    simpl in Hlf. rewrite Hd in Hlf. simpl. clear Hwt Hd.
    revert fs Hlf Hk. induction kids' as [|[kn kv] kr IHk]; intros fs Hlf Hk; [reflexivity|].
    destruct fs as [|[fn ft] fr]; [discriminate|]. simpl in *.
    apply andb_true_iff in Hlf. destruct Hlf as [Hl1 Hl2].
    apply andb_true_iff in Hk. destruct Hk as [Hk1 Hk2]. apply andb_true_iff in Hk1. destruct Hk1 as [_ Hk1].
    inversion IH as [|? ? Hkv Hkr]; subst.
    simpl in Hkv. rewrite (Hkv f' ft Hl1 Hk1). simpl. apply (IHk Hkr fr); assumption.
Qed.

Lemma flat_fresh (P : loc -> Prop) (f : hval -> hval) (kids : list (string * hval)) :
  (forall kv, In kv kids -> Forall P (locs (f (snd kv)))) ->
  Forall P (flat_map (fun kv => locs (snd kv)) (map (fun kv => (fst kv, f (snd kv))) kids)).
Proof.
  induction kids as [|kv r IH]; intros H; [constructor|]. simpl. apply Forall_app. split.
  - apply H. left; reflexivity.
  - apply IH. intros y Hy. apply H. right; assumption.
Qed.

Lemma flat_nil (kids : list (string * hval)) :
  (forall kv, In kv kids -> locs (snd kv) = []) -> flat_map (fun kv => locs (snd kv)) kids = [].
Proof.
  induction kids as [|kv r IH]; intros H; [reflexivity|]. simpl.
  rewrite (H kv (or_introl eq_refl)). simpl. apply IH. intros y Hy. apply H. right; assumption.
Qed.

Section Independent.
  Variables (d : decls_t) (s : spec_t) (off fuel : nat).
  Hypothesis Hsound : spec_sound d s fuel = true.
  Let CP := (fun n fn ft kv => copy d s off ft (field_mode s n fn) kv).

  Lemma sound_field n fs fn ft :
    has_copy s n = true -> assoc d n = Some fs -> In (fn, ft) fs ->
    mode_ok d s fuel ft (field_mode s n fn) = true.
  Proof.
    unfold has_copy. destruct (assoc s n) as [ms|] eqn:Hs; [|discriminate]. intros _ Hd Hin.
    pose proof (assoc_in _ _ _ Hs) as Hs'. unfold spec_sound in Hsound. rewrite forallb_forall in Hsound.
    specialize (Hsound (n, ms) Hs'). simpl in Hsound. rewrite Hd in Hsound. rewrite forallb_forall in Hsound.
    apply (Hsound (fn, ft) Hin).
  Qed.

  Definition FreshAt (v : hval) : Prop :=
    forall t m, wt d t v = true -> mode_ok d s fuel t m = true ->
                Forall (fun l => off <= l) (locs (copy d s off t m v)).

  Lemma copy_kids_fresh n kids : forall fs,
    Forall (fun kv => FreshAt (snd kv)) kids -> wt_kids d kids fs = true ->
    (forall fn ft, In (fn, ft) fs -> mode_ok d s fuel ft (field_mode s n fn) = true) ->
    Forall (fun l => off <= l) (flat_map (fun kv => locs (snd kv)) (copy_kids (CP n) kids fs)).
  Proof.
    induction kids as [|[kn kv] kr IH]; intros fs HF Hwt Hm; [constructor|].
    destruct fs as [|[fn ft] fr]; [discriminate|]. simpl in *.
    apply andb_true_iff in Hwt. destruct Hwt as [Hw1 Hw2]. apply andb_true_iff in Hw1. destruct Hw1 as [_ Hw1].
    inversion HF as [|? ? Hkv Hkr]; subst. apply Forall_app. split.
    - apply Hkv; [assumption|]. apply (Hm fn ft). left; reflexivity.
    - apply IH; [assumption|assumption|]. intros fn' ft' Hin. apply (Hm fn' ft'). right; assumption.
  Qed.

  Lemma struct_fresh n v :
    (forall t l kids, v = Node t l kids -> Forall (fun kv => FreshAt (snd kv)) kids) ->
    wt d (GNamed n) v = true -> has_copy s n = true ->
    Forall (fun l => off <= l) (locs (copy_struct_with d CP n v)).
  Proof.
    intros HF Hwt Hc. destruct (wt_named_inv d n v Hwt) as [kids [fs [E [Hd Hk]]]]. subst v.
    unfold copy_struct_with. rewrite Hd. simpl.
    apply copy_kids_fresh; [apply (HF _ _ _ eq_refl)|assumption|].
    intros fn ft Hin. apply (sound_field n fs fn ft); assumption.
  Qed.

  Lemma shift_fresh l : Forall (fun x => off <= x) (match shift off l with Some x => [x] | None => [] end).
  Proof. destruct l; simpl; [constructor; [lia|constructor]|constructor]. Qed.

  Theorem copy_fresh_proof : forall v t m, wt d t v = true -> mode_ok d s fuel t m = true ->
    Forall (fun l => off <= l) (locs (copy d s off t m v)).
  Proof.
    induction v as [x|tg l kids IH] using hval_ind'; intros t m Hwt Hm.
    - assert (locs (copy d s off t m (Leaf x)) = []) as ->; [|constructor].
      destruct m; simpl; try reflexivity.
      + destruct t; discriminate.
      + destruct t; reflexivity.
      + destruct t as [| | | t'| | | |]; try reflexivity. destruct t'; reflexivity.
      + destruct t as [| | | |t' | | |]; try reflexivity. destruct t'; reflexivity.
      + destruct t as [| | | |t' | | |]; try reflexivity. destruct t'; try reflexivity. destruct t'; reflexivity.
      + destruct t as [| | | | | |t' |]; try reflexivity. destruct t'; reflexivity.
    - assert (forall n x, In x (map snd kids) -> wt d (GNamed n) x = true -> has_copy s n = true ->
                          Forall (fun l => off <= l) (locs (copy_struct_with d CP n x))) as Hcs.
      { intros n x Hin Hw Hc. apply in_map_iff in Hin. destruct Hin as [kv [<- Hin]].
        rewrite Forall_forall in IH. specialize (IH kv Hin).
        unfold CP. rewrite <- copy_call_unfold. apply IH; [assumption|]. simpl. assumption. }
      destruct m; try (destruct t; discriminate).
      + (* Shallow *) simpl in Hm. simpl copy. rewrite (locfree_no_locs d _ fuel t Hm Hwt). constructor.
      + (* Call *) destruct t; try discriminate. rewrite copy_call_unfold. simpl in Hm.
        apply struct_fresh; [|assumption|assumption].
        intros t' l' kids' E. inversion E; subst. exact IH.
      + (* PtrCall *) destruct t as [| | | t'| | | |]; try discriminate. destruct t' as [| |n| | | | |]; try discriminate.
        simpl in Hm. simpl copy. unfold copy_ptr.
        destruct tg; try discriminate. destruct l as [a|].
        * destruct kids as [|[k x] [|]]; try discriminate. simpl in Hwt. simpl.
          constructor; [lia|]. rewrite app_nil_r. apply (Hcs n x); [left; reflexivity|assumption|assumption].
        * destruct kids as [|[k x] r]; [simpl; constructor|discriminate].
      + (* SliceFreshShallow *) destruct t as [| | | |t' | | |]; try discriminate. simpl in Hm. simpl copy.
        destruct tg; try discriminate. destruct l as [a|].
        * simpl in Hwt. simpl. constructor; [lia|].
          rewrite flat_nil; [constructor|]. rewrite forallb_forall in Hwt.
          intros kv Hin. apply (locfree_no_locs d (snd kv) fuel t' Hm). apply Hwt. assumption.
        * destruct kids; [simpl; constructor|discriminate].
      + (* SliceCall *) destruct t as [| | | |t' | | |]; try discriminate. destruct t' as [| |n| | | | |]; try discriminate.
        simpl in Hm. simpl copy. destruct tg; try discriminate. destruct l as [a|].
        * simpl in Hwt. simpl. constructor; [lia|]. rewrite forallb_forall in Hwt.
          apply flat_fresh. intros kv Hin. apply (Hcs n (snd kv)); [apply in_map; assumption|apply Hwt; assumption|assumption].
        * destruct kids; [simpl; constructor|discriminate].
      + (* SlicePtrCall *) destruct t as [| | | |t' | | |]; try discriminate. destruct t' as [| | |t''| | | |]; try discriminate.
        destruct t'' as [| |n| | | | |]; try discriminate.
        simpl in Hm. simpl copy. destruct tg; try discriminate. destruct l as [a|].
        * simpl in Hwt. simpl. constructor; [lia|]. rewrite forallb_forall in Hwt. rewrite Forall_forall in IH.
          apply flat_fresh. intros kv Hin.
          specialize (IH kv Hin (GPtr (GNamed n)) PtrCall (Hwt kv Hin) Hm).
          rewrite copy_ptrcall_unfold in IH. exact IH.
        * destruct kids; [simpl; constructor|discriminate].
      + (* MapFreshShallow *) destruct t as [| | | | |t' | |]; try discriminate. simpl in Hm. simpl copy.
        destruct tg; try discriminate. destruct l as [a|].
        * simpl in Hwt. simpl. constructor; [lia|].
          rewrite flat_nil; [constructor|]. rewrite forallb_forall in Hwt.
          intros kv Hin. apply (locfree_no_locs d (snd kv) fuel t' Hm). apply Hwt. assumption.
        * destruct kids; [simpl; constructor|discriminate].
      + (* OMapCall *) destruct t as [| | | | | |t' |]; try discriminate. destruct t' as [| |n| | | | |]; try discriminate.
        simpl in Hm. simpl copy. destruct tg; try discriminate. destruct l as [a|]; [|discriminate].
        simpl in Hwt. simpl. constructor; [lia|]. rewrite forallb_forall in Hwt.
        apply flat_fresh. intros kv Hin. apply (Hcs n (snd kv)); [apply in_map; assumption|apply Hwt; assumption|assumption].
  Qed.

  Theorem copy_independent_proof : forall v t m,
    wt d t v = true -> mode_ok d s fuel t m = true -> Forall (fun l => l < off) (locs v) ->
    forall l, In l (locs (copy d s off t m v)) -> ~ In l (locs v).
  Proof.
    intros v t m Hwt Hm Hbelow l Hin Hin2.
    pose proof (copy_fresh_proof v t m Hwt Hm) as Hf. rewrite Forall_forall in Hf, Hbelow.
    specialize (Hf l Hin). specialize (Hbelow l Hin2). lia.
  Qed.
End Independent.

(* ---------- mutation frame: a write through a location the value does not contain ---------- *)
Fixpoint write (target : loc) (newkids : list (string * hval)) (v : hval) : hval :=
  match v with
  | Leaf s => Leaf s
  | Node t l kids =>
      match l with
      | Some x => if Nat.eqb x target then Node t l newkids
                  else Node t l (map (fun kv => (fst kv, write target newkids (snd kv))) kids)
      | None => Node t l (map (fun kv => (fst kv, write target newkids (snd kv))) kids)
      end
  end.

Theorem write_frame_proof : forall v target nk, ~ In target (locs v) -> write target nk v = v.
Proof.
  induction v as [x|tg l kids IH] using hval_ind'; intros target nk Hn; [reflexivity|].
  simpl in *. assert (map (fun kv => (fst kv, write target nk (snd kv))) kids = kids) as Hk.
  { rewrite Forall_forall in IH. clear - IH Hn. induction kids as [|[k x] r IHr]; [reflexivity|]. simpl.
    rewrite (IH (k, x) (or_introl eq_refl)).
    - f_equal. apply IHr; [intros y Hy; apply IH; right; assumption|].
      intros H. apply Hn. rewrite in_app_iff in *. destruct H as [H|H]; [left; assumption|right].
      simpl. rewrite in_app_iff. right. assumption.
    - intros H. apply Hn. rewrite in_app_iff. right. simpl. rewrite in_app_iff. left. assumption. }
  destruct l as [a|]; [|rewrite Hk; reflexivity].
  destruct (Nat.eqb a target) eqn:E; [|rewrite Hk; reflexivity].
  apply Nat.eqb_eq in E. subst. exfalso. apply Hn. left. reflexivity.
Qed.

Theorem mutation_frame_proof : forall ws v,
  Forall (fun w => ~ In (fst w) (locs v)) ws ->
  fold_left (fun acc w => write (fst w) (snd w) acc) ws v = v.
Proof.
  induction ws as [|w r IH]; intros v HF; [reflexivity|]. simpl.
  inversion HF as [|? ? Hw Hr]; subst. rewrite write_frame_proof by assumption. apply IH. assumption.
Qed.
