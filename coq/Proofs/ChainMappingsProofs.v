(* C05 over the language chains: discriminator mappings that are ALREADY THERE on input (mappings_ok instead of
   no_mappings).
   WHAT IS HERE
   - `<pass>_keeps_mappings` for the passes that precede DisjunctionInferMapping in the Python chain:
     AnonymousStructsToNamed, NotRequiredFieldAsNullableType, DisjunctionWithNullToOptional,
     DisjunctionOfConstantsToEnum, and FlattenDisjunctions under fd_mappings_safe (a union that carries a mapping
     has only references for branches, each resolving to something that is not a union, with pairwise distinct
     type names - which excludes the case-colliding branches of finding C05-flatten-case-colliding-branches);
   - python_chain_keeps_resolving_mappings. *)
From Coq Require Import List String Bool Ascii Lia.
From Cog Require Import Model.IR Model.Names Model.Passes Model.PassesChain Model.Process Model.NF Model.Refs
     Proofs.TyInd Proofs.PassLemmas Proofs.ChainLemmas Proofs.ChainNFProofs Proofs.ChainPresProofs
     Proofs.ChainRefsProofs Gen.Chains_gen.
Import ListNotations.
Local Open Scope list_scope.

Lemma bm_ok_iff t : bm_ok t = true <-> bad_mappings t = [].
Proof. unfold bm_ok. destruct (bad_mappings t); split; try reflexivity; discriminate. Qed.

(* ---------- branch names ---------- *)
Definition bname (b : ty) : list string := match b with TRef _ _ n => [n] | _ => [] end.
Lemma branch_names_eq bs : branch_names bs = flat_map bname bs.
Proof. reflexivity. Qed.
Lemma branch_names_map_eq (g : ty -> ty) bs : (forall b, bname (g b) = bname b) -> branch_names (map g bs) = branch_names bs.
Proof. intros H. rewrite !branch_names_eq. induction bs as [|b r IH]; [reflexivity|]. simpl. rewrite H, IH. reflexivity. Qed.
Lemma branch_names_map_incl (g : ty -> ty) bs : (forall a p n, g (TRef a p n) = TRef a p n) ->
  forall n, In n (branch_names bs) -> In n (branch_names (map g bs)).
Proof.
  intros H n Hn. rewrite branch_names_eq in *. apply in_flat_map in Hn. destruct Hn as [b [Hb Hn]].
  destruct b; try contradiction. simpl in Hn. destruct Hn as [<-|[]].
  apply in_flat_map. exists (TRef a pkg name). split; [|left; reflexivity]. apply in_map_iff. exists (TRef a pkg name). split; [apply H|exact Hb].
Qed.
Lemma mapping_dangling_mono bs bs' disc m :
  (forall n, In n (branch_names bs) -> In n (branch_names bs')) ->
  mapping_dangling (mkDisj bs disc m) = [] -> mapping_dangling (mkDisj bs' disc m) = [].
Proof.
  unfold mapping_dangling. simpl. intros Hinc H. apply filter_nil_iff. intros n Hn.
  pose proof (proj1 (filter_nil_iff _ _) H n Hn) as Hx. apply negb_false_iff in Hx. apply negb_false_iff.
  apply existsb_exists in Hx. destruct Hx as [x [Hx E]]. apply existsb_exists. exists x. split; [apply Hinc; exact Hx|exact E].
Qed.

(* ---------- union visitors ---------- *)
Lemma bm_v0 f ss out :
  (forall s a d t1, In s ss -> types_all bm_ok [s] = true -> f s (TDisj a d) = Ok t1 -> bm_ok (TDisj a d) = true -> bm_ok t1 = true) ->
  mappings_ok ss -> visit_schemas_disj0 f ss = Ok out -> mappings_ok out.
Proof.
  intros Hf H Hd. apply mappings_ok_types. apply mappings_ok_types in H.
  eapply (v0_types_all bm_ok f); [|exact H|exact Hd].
  intros s t t' Hs Hone Hv Ht. apply visit_disj0_vrel in Hv. eapply (vrel_bm (lift0 (f s))); [|exact Hv|exact Ht].
  intros st a d t1 st1 Hx. apply lift0_inv in Hx. eapply Hf; eassumption.
Qed.

Theorem dwnto_keeps_mappings ss out : mappings_ok ss -> disjunction_with_null_to_optional ss = Ok out -> mappings_ok out.
Proof.
  apply bm_v0. intros s a d t1 _ _ Hd Hn. destruct (dwnto_disj_shape _ _ _ Hd) as [->|[b [Hb [_ ->]]]]; [exact Hn|].
  apply bm_ok_iff. rewrite bad_mappings_set_nullable. apply bm_ok_iff in Hn. simpl in Hn. apply app_eq_nil in Hn. destruct Hn as [_ Hn].
  exact (proj1 (flat_map_nil_iff _ _) Hn b Hb).
Qed.
Theorem docte_keeps_mappings ss out : mappings_ok ss -> disjunction_of_constants_to_enum ss = Ok out -> mappings_ok out.
Proof. apply bm_v0. intros s a d t1 _ _ Hd Hn. destruct (docte_disj_shape _ _ _ _ Hd) as [->|[vs ->]]; [exact Hn|reflexivity]. Qed.

(* ---------- NotRequiredFieldAsNullableType ---------- *)
Lemma flat_map_ext_in {A B} (f g : A -> list B) l : (forall x, In x l -> f x = g x) -> flat_map f l = flat_map g l.
Proof. induction l as [|x r IH]; intros H; [reflexivity|]. simpl. rewrite (H x (or_introl eq_refl)), IH; [reflexivity|]. intros y Hy. apply H. right; exact Hy. Qed.

Lemma bad_nrfn : forall t, bad_mappings (nrfn_ty t) = bad_mappings t.
Proof.
  induction t as [a d IH|a v IH|a vs IH|a i v IHi IHv|a dh fs IHd IHf|a pk n|a pk n v|a k v cs|a bs IH|a v|a k]
    using ty_ind'; simpl; try reflexivity.
  - f_equal.
    + unfold mapping_dangling. simpl. rewrite branch_names_map_eq; [reflexivity|]. intros b. destruct b; reflexivity.
    + rewrite flat_map_concat_map, map_map, <- flat_map_concat_map. apply flat_map_ext_in. rewrite Forall_forall in IH. exact IH.
  - exact IH.
  - rewrite IHi, IHv. reflexivity.
  - f_equal. rewrite flat_map_concat_map, map_map, <- flat_map_concat_map. apply flat_map_ext_in. intros f Hf. simpl. rewrite Forall_forall in IHf.
    destruct (negb (f_required f) && negb (nullable (ty_attrs (nrfn_ty (f_type f))))); [rewrite bad_mappings_set_nullable|]; apply IHf; exact Hf.
  - rewrite flat_map_concat_map, map_map, <- flat_map_concat_map. apply flat_map_ext_in. rewrite Forall_forall in IH. exact IH.
Qed.

Theorem nrfn_keeps_mappings ss : mappings_ok ss -> mappings_ok (not_required_field_as_nullable_type ss).
Proof.
  intros H. apply mappings_ok_types. apply mappings_ok_types in H. unfold types_all, not_required_field_as_nullable_type in *.
  rewrite !forallb_forall in *. intros s' Hs'.
  apply in_map_iff in Hs'. destruct Hs' as [s [<- Hs]]. specialize (H s Hs). apply andb_true_iff in H. destruct H as [He Ho].
  apply andb_true_iff. split; [simpl; unfold bm_ok in *; rewrite bad_nrfn; exact He|].
  apply forallb_forall. intros [k o'] Hko.
  apply visit_schema_t_objects in Hko. destruct Hko as [[k0 o] [Hin ->]]. simpl. unfold bm_ok in *. rewrite bad_nrfn.
  rewrite forallb_forall in Ho. exact (Ho (k0, o) Hin).
Qed.

(* ---------- AnonymousStructsToNamed ---------- *)
Lemma app_nil2 {A} (x y : list A) : x = [] -> y = [] -> x ++ y = [].
Proof. intros -> ->. reflexivity. Qed.

Lemma astn_bm pkg : forall t parent, bad_mappings t = [] ->
  bad_mappings (fst (astn_type pkg parent t)) = [] /\ forall o, In o (snd (astn_type pkg parent t)) -> bad_mappings (o_type o) = [].
Proof.
  induction t as [a d IH|a v IH|a vs IH|a i v IHi IHv|a dh fs IHd IHf|a pk n|a pk n v|a k v cs|a bs IH|a v|a k]
    using ty_ind'; intros parent H; try (split; [exact H|intros o []]).
  - rewrite astn_disj. simpl in *. apply app_eq_nil in H. destruct H as [Hm Hb]. rewrite Forall_forall in IH.
    pose proof (proj1 (flat_map_nil_iff _ _) Hb) as Hb'.
    rewrite (proj1 (astn_list_spec pkg parent _)), (proj2 (astn_list_spec pkg parent _)). split.
    + apply app_nil2.
      * destruct d as [bs0 disc0 m0]. simpl in *. eapply mapping_dangling_mono; [|exact Hm].
        apply (branch_names_map_incl (fun b => fst (astn_type pkg parent b))). reflexivity.
      * apply flat_map_nil_iff. intros b' Hb'in. apply in_map_iff in Hb'in. destruct Hb'in as [b [<- Hbin]].
        exact (proj1 (IH b Hbin parent (Hb' b Hbin))).
    + intros o Ho. apply in_flat_map in Ho. destruct Ho as [b [Hbin Ho]]. exact (proj2 (IH b Hbin parent (Hb' b Hbin)) o Ho).
  - rewrite astn_array. simpl in *. exact (IH parent H).
  - rewrite astn_map. simpl in *. apply app_eq_nil in H. destruct H as [H1 H2]. destruct (IHi parent H1) as [A1 A2]. destruct (IHv parent H2) as [B1 B2].
    split; [rewrite A1, B1; reflexivity|]. intros o Ho. apply in_app_or in Ho. destruct Ho as [Ho|Ho]; [apply A2|apply B2]; exact Ho.
  - destruct (astn_struct pkg parent a dh fs) as [ra [sa [_ E]]]. rewrite E. simpl in *. apply app_eq_nil in H. destruct H as [Hd Hf].
    pose proof (proj1 (flat_map_nil_iff _ _) Hf) as Hf'. rewrite Forall_forall in IHf. split; [reflexivity|].
    rewrite (proj1 (astn_fields_spec pkg parent _)), (proj2 (astn_fields_spec pkg parent _)).
    intros o Ho. apply in_app_or in Ho. destruct Ho as [Ho|[<-|[]]].
    + apply in_flat_map in Ho. destruct Ho as [f [Hfin Ho]]. exact (proj2 (IHf f Hfin _ (Hf' f Hfin)) o Ho).
    + simpl. rewrite Hd. simpl. apply flat_map_nil_iff. intros f' Hf'in. apply in_map_iff in Hf'in. destruct Hf'in as [f [<- Hfin]]. simpl.
      exact (proj1 (IHf f Hfin _ (Hf' f Hfin))).
Qed.

Lemma astn_object_bm o : bad_mappings (o_type o) = [] ->
  bad_mappings (o_type (fst (astn_object o))) = [] /\ forall n, In n (snd (astn_object o)) -> bad_mappings (o_type n) = [].
Proof.
  unfold astn_object. intros H.
  destruct (o_type o) as [a d|a v|a vs|a i v|a dh fs|a pk n|a pk n v|a k v cs|a bs|a v|a k] eqn:E;
    try (simpl; rewrite E; split; [exact H|intros n0 []]).
  - pose proof (astn_bm (o_selfpkg o) (TDisj a d) (String.append (upper_camel_case (o_selfpkg o)) (upper_camel_case (o_name o))) H) as X.
    destruct (astn_type _ _ (TDisj a d)). exact X.
  - pose proof (astn_bm (o_selfpkg o) (TArray a v) (String.append (upper_camel_case (o_selfpkg o)) (upper_camel_case (o_name o))) H) as X.
    destruct (astn_type _ _ (TArray a v)). exact X.
  - pose proof (astn_bm (o_selfpkg o) (TMap a i v) (String.append (upper_camel_case (o_selfpkg o)) (upper_camel_case (o_name o))) H) as X.
    destruct (astn_type _ _ (TMap a i v)). exact X.
  - rewrite astn_object_fields. simpl in *. apply app_eq_nil in H. destruct H as [Hd Hf].
    pose proof (proj1 (flat_map_nil_iff _ _) Hf) as Hf'.
    rewrite (proj1 (astn_fields_spec _ _ _)), (proj2 (astn_fields_spec _ _ _)). split.
    + rewrite Hd. simpl. apply flat_map_nil_iff. intros f' Hf'in. apply in_map_iff in Hf'in. destruct Hf'in as [f [<- Hfin]]. simpl.
      exact (proj1 (astn_bm _ _ _ (Hf' f Hfin))).
    + intros n Hn. apply in_flat_map in Hn. destruct Hn as [f [Hfin Hn]]. exact (proj2 (astn_bm _ _ _ (Hf' f Hfin)) n Hn).
Qed.

Theorem astn_keeps_mappings ss : mappings_ok ss -> mappings_ok (anonymous_structs_to_named ss).
Proof.
  intros H. apply mappings_ok_types. apply mappings_ok_types in H. unfold types_all, anonymous_structs_to_named in *.
  rewrite !forallb_forall in *. intros s' Hs'.
  apply in_map_iff in Hs'. destruct Hs' as [s [<- Hs]]. specialize (H s Hs). apply andb_true_iff in H. destruct H as [He Ho].
  rewrite forallb_forall in Ho. apply andb_true_iff. split.
  - unfold astn_schema. destruct (fold_left _ (s_objects s) ([], [])). simpl. exact He.
  - apply forallb_forall. intros [k o'] Hko. destruct (astn_schema_objects _ _ _ Hko) as [[k0 o] [Hin Hcase]]. simpl in *.
    destruct (astn_object_bm o (proj1 (bm_ok_iff _) (Ho (k0, o) Hin))) as [A B]. apply bm_ok_iff.
    destruct Hcase as [->|Hn]; [exact A|exact (B o' Hn)].
Qed.

(* ---------- FlattenDisjunctions ---------- *)
Fixpoint nodup_names (l : list string) : bool :=
  match l with [] => true | x :: r => negb (existsb (seqb x) r) && nodup_names r end.
(* the union is left exactly as it is: references only, each resolving to something that is not a union, no two
   with the same type name (the pass keeps one branch per type name) *)
Definition fd_keeps_branches (s : schema) (d : disj) : bool :=
  forallb (fun b => is_ref b && match resolve s b with
                                | Ok (Some (TDisj _ _)) => false
                                | Ok (Some _) => true
                                | _ => false
                                end) (d_branches d) &&
  nodup_names (map type_name (d_branches d)).
Definition fd_safe (s : schema) (t : ty) : bool :=
  match t with
  | TDisj _ d => match d_mapping d with [] => true | _ => fd_keeps_branches s d end
  | _ => true
  end.
Fixpoint fd_vis (s : schema) (t : ty) : bool :=
  match t with
  | TArray _ v => fd_vis s v
  | TMap _ i v => fd_vis s i && fd_vis s v
  | TStruct _ _ fs => forallb (fun f => fd_vis s (f_type f)) fs
  | TInter _ bs => forallb (fd_vis s) bs
  | TDisj _ _ => fd_safe s t
  | _ => true
  end.
Definition fd_mappings_safe (ss : schemas) : bool :=
  forallb (fun s => fd_vis s (s_entrytype s) && forallb (fun ko => fd_vis s (o_type (snd ko))) (s_objects s)) ss.

Lemma not_in_existsb n l : ~ In n l -> existsb (seqb n) l = false.
Proof.
  intros H. apply existsb_false_iff. intros x Hx. destruct (seqb n x) eqn:E; [|reflexivity]. apply seqb_eq in E. subst. contradiction.
Qed.

Lemma fd_disj_same s a d : fd_keeps_branches s d = true -> fd_disj s (TDisj a d) = Ok (TDisj a d).
Proof.
  unfold fd_keeps_branches. intros H. apply andb_true_iff in H. destruct H as [Hall Hnd]. unfold fd_disj.
  match goal with |- (do _ <- ?f 0 (d_branches d) ([], []) ; _) = _ =>
    assert (forall l i st,
              forallb (fun b => is_ref b && match resolve s b with Ok (Some (TDisj _ _)) => false | Ok (Some _) => true | _ => false end) l = true ->
              nodup_names (map type_name l) = true -> (forall b, In b l -> ~ In (type_name b) (fst st)) ->
              f i l st = Ok (fst st ++ map type_name l, snd st ++ l)) as G
  end.
  { induction l as [|b r IH]; intros i st Hl Hn Hfresh.
    - simpl. rewrite !app_nil_r. destruct st; reflexivity.
    - simpl in Hl, Hn. apply andb_true_iff in Hl. destruct Hl as [Hb Hr]. apply andb_true_iff in Hb. destruct Hb as [Href Hres].
      apply andb_true_iff in Hn. destruct Hn as [Hnb Hnr]. apply negb_true_iff in Hnb.
      destruct b as [a1 d1|a1 v1|a1 vs1|a1 i1 v1|a1 dh1 fs1|a1 pk1 n1|a1 pk1 n1 v1|a1 k1 v1 cs1|a1 bs1|a1 v1|a1 k1]; try discriminate.
      cbn beta iota. cbn [is_ref negb is_struct].
      destruct (resolve s (TRef a1 pk1 n1)) as [[r1|]| | |]; try discriminate. cbn [bind].
      assert (fd_add st (type_name (TRef a1 pk1 n1)) (TRef a1 pk1 n1)
              = (fst st ++ [type_name (TRef a1 pk1 n1)], snd st ++ [TRef a1 pk1 n1])) as Eadd.
      { unfold fd_add. rewrite (not_in_existsb _ _ (Hfresh _ (or_introl eq_refl))). reflexivity. }
      assert (forall b, In b r -> ~ In (type_name b) (fst st ++ [type_name (TRef a1 pk1 n1)])) as Hfresh'.
      { intros b Hb Hin. apply in_app_or in Hin. destruct Hin as [Hin|[Hin|[]]]; [exact (Hfresh b (or_intror Hb) Hin)|].
        pose proof (proj1 (existsb_false_iff _ _) Hnb (type_name b)) as Hx.
        rewrite Hin in Hx. rewrite seqb_refl in Hx. discriminate Hx. apply in_map. exact Hb. }
      destruct r1 as [a2 d2|a2 v2|a2 vs2|a2 i2 v2|a2 dh2 fs2|a2 pk2 n2|a2 pk2 n2 v2|a2 k2 v2 cs2|a2 bs2|a2 v2|a2 k2]; try discriminate;
        rewrite Eadd, (IH (S i) (fst st ++ [type_name (TRef a1 pk1 n1)], snd st ++ [TRef a1 pk1 n1]) Hr Hnr Hfresh'); cbn [fst snd]; rewrite <- !app_assoc; reflexivity. }
  rewrite (G _ 0 ([], []) Hall Hnd (fun b _ H => H)). simpl. destruct d; reflexivity.
Qed.

Lemma fd_disj_bm s a d t1 :
  (forall k o, In (k, o) (s_objects s) -> bad_mappings (o_type o) = []) ->
  fd_disj s (TDisj a d) = Ok t1 -> bad_mappings (TDisj a d) = [] -> fd_safe s (TDisj a d) = true ->
  bad_mappings t1 = [] /\ fd_vis s t1 = true.
Proof.
  intros Hobjs Hd Hb Hs. destruct (d_mapping d) as [|kv rest] eqn:Em.
  - simpl in Hb. apply app_eq_nil in Hb. destruct Hb as [_ Hb]. pose proof (proj1 (flat_map_nil_iff _ _) Hb) as Hb'.
    destruct (fd_disj_branches (fun b => bad_mappings b = []) s a d t1 Hb') as [bs' [-> Hbs']]; [|exact Hd|].
    + intros k o a' d' Hko E rb Hrb. pose proof (Hobjs k o Hko) as Ho. rewrite E in Ho. simpl in Ho. apply app_eq_nil in Ho.
      exact (proj1 (flat_map_nil_iff _ _) (proj2 Ho) rb Hrb).
    + split; [|simpl; rewrite Em; reflexivity]. simpl. apply app_nil2; [unfold mapping_dangling; simpl; rewrite Em; reflexivity|].
      apply flat_map_nil_iff. exact Hbs'.
  - simpl in Hs. rewrite Em in Hs. rewrite (fd_disj_same s a d Hs) in Hd. inversion Hd; subst. split; [exact Hb|simpl; rewrite Em; exact Hs].
Qed.

Lemma forallb_andb {A} (p q : A -> bool) l : forallb (fun x => p x && q x) l = forallb p l && forallb q l.
Proof. induction l as [|x r IH]; [reflexivity|]. simpl. rewrite IH. destruct (p x), (q x), (forallb p r); reflexivity. Qed.

Lemma fd_type_bm s t t' :
  (forall k o, In (k, o) (s_objects s) -> bad_mappings (o_type o) = []) ->
  visit_disj0 (fd_disj s) t = Ok t' -> bm_ok t = true -> fd_vis s t = true -> bm_ok t' = true.
Proof.
  intros Hobjs Hv Hb Hf. apply visit_disj0_vrel in Hv.
  assert ((fun x => bm_ok x && fd_vis s x) t' = true) as X; [|cbv beta in X; apply andb_true_iff in X; exact (proj1 X)].
  eapply (vrel_pred (lift0 (fd_disj s)) (fun x => bm_ok x && fd_vis s x)); [| | | | | |exact Hv|cbv beta; rewrite Hb, Hf; reflexivity].
  - intros a v. reflexivity.
  - intros a i v. unfold bm_ok. simpl. rewrite is_nil_app.
    destruct (bad_mappings i), (bad_mappings v), (fd_vis s i), (fd_vis s v); reflexivity.
  - intros a bs. unfold bm_ok. simpl. rewrite is_nil_flat_map. symmetry. apply (forallb_andb (fun x => match bad_mappings x with [] => true | _ => false end) (fd_vis s)).
  - intros a dh fs fs' H1 H2. rewrite forallb_andb in H1. apply andb_true_iff in H1. destruct H1 as [H1a H1b].
    apply andb_true_iff in H2. destruct H2 as [H2a _]. unfold bm_ok in *. simpl in *. rewrite is_nil_app in *.
    apply andb_true_iff in H2a. destruct H2a as [A _]. rewrite A. simpl. rewrite is_nil_flat_map. rewrite H1a, H1b. reflexivity.
  - intros a dh fs H. apply andb_true_iff in H. destruct H as [Ha Hb0]. unfold bm_ok in Ha. simpl in *. rewrite is_nil_app in Ha.
    apply andb_true_iff in Ha. destruct Ha as [_ B]. rewrite is_nil_flat_map in B. rewrite forallb_andb. unfold bm_ok. rewrite B, Hb0. reflexivity.
  - intros st a d t1 st1 Hx HP. apply lift0_inv in Hx. apply andb_true_iff in HP. destruct HP as [P1 P2].
    destruct (fd_disj_bm s a d t1 Hobjs Hx (proj1 (bm_ok_iff _) P1) P2) as [Q1 Q2].
    rewrite (proj2 (bm_ok_iff _) Q1). simpl. exact Q2.
Qed.

Theorem fd_keeps_mappings ss out :
  fd_mappings_safe ss = true -> mappings_ok ss -> flatten_disjunctions ss = Ok out -> mappings_ok out.
Proof.
  intros Hsafe H Hd. apply mappings_ok_types. apply mappings_ok_types in H. unfold flatten_disjunctions, visit_schemas_disj0 in Hd.
  unfold types_all, fd_mappings_safe in *. rewrite forallb_forall in *. intros s' Hs'.
  destruct (Forall2_in_r _ _ _ (mapM_Forall2 _ _ _ Hd) s' Hs') as [s [Hs Hv]]. specialize (H s Hs). specialize (Hsafe s Hs).
  apply andb_true_iff in H. destruct H as [He Ho]. apply andb_true_iff in Hsafe. destruct Hsafe as [Se So].
  rewrite forallb_forall in Ho, So.
  assert (forall k o, In (k, o) (s_objects s) -> bad_mappings (o_type o) = []) as Hobjs.
  { intros k o Hko. apply bm_ok_iff. exact (Ho (k, o) Hko). }
  rewrite visit_schema_eq in Hv.
  destruct (visit_disj0 (fd_disj s) (s_entrytype s)) as [et| | |] eqn:Ee; simpl in Hv; try discriminate.
  destruct (vs_loop _ (s_objects s) []) as [objs| | |] eqn:El; simpl in Hv; try discriminate. inversion Hv; subst. simpl.
  rewrite (fd_type_bm s _ _ Hobjs Ee He Se). simpl. apply forallb_forall. intros [k o'] Hko. simpl.
  destruct (vs_loop_spec _ _ _ _ El) as [_ [_ C]]. destruct (C k o' Hko) as [[]|[_ [[k0 o0] [Hko0 Hf]]]]. simpl in Hf.
  destruct (visit_disj0 (fd_disj s) (o_type o0)) as [t'| | |] eqn:Et; simpl in Hf; try discriminate. inversion Hf; subst. simpl.
  apply (fd_type_bm s _ _ Hobjs Et); [exact (Ho (k0, o0) Hko0)|exact (So (k0, o0) Hko0)].
Qed.

(* ---------- the Python chain with mappings already there ---------- *)
(* the flatten condition, on what reaches FlattenDisjunctions *)
Definition python_fd_safe (ss : schemas) : bool :=
  match process (firstn 4 chain_python) ss with Ok mid => fd_mappings_safe mid | _ => true end.

Theorem python_chain_keeps_resolving_mappings ss out :
  wf_refs_input ss -> python_fd_safe ss = true -> resolves ss = true -> process chain_python ss = Ok out -> resolves out = true.
Proof.
  intros Hwf Hsafe Hr H. eapply python_chain_resolves_modulo_mappings; try eassumption.
  apply resolves_iff in Hr. destruct Hr as [_ [_ M0]].
  unfold python_fd_safe in Hsafe. unfold chain_python in H, Hsafe. cbn [firstn] in Hsafe.
  step_total H. pose proof (astn_keeps_mappings _ M0) as M1.
  step_total H. pose proof (nrfn_keeps_mappings _ M1) as M2.
  step_res H s3 P3. pose proof (dwnto_keeps_mappings _ _ M2 P3) as M3.
  step_res H s4 P4. pose proof (docte_keeps_mappings _ _ M3 P4) as M4.
  assert (process [PAnonymousStructsToNamed; PNotRequiredFieldAsNullableType; PDisjunctionWithNullToOptional; PDisjunctionOfConstantsToEnum] ss = Ok s4) as Emid.
  { cbn [process run_pass bind]. rewrite P3. cbn [bind]. rewrite P4. reflexivity. }
  rewrite Emid in Hsafe.
  step_res H s5 P5. pose proof (fd_keeps_mappings _ _ Hsafe M4 P5) as M5.
  step_res H s6 P6. pose proof (dim_keeps_mappings _ _ M5 P6) as M6.
  step_total H. simpl in H. inversion H; subst. apply rnev_keeps_mappings. exact M6.
Qed.

(* non-vacuity: a union that arrives with its mapping; and the witness of C05-flatten-case-colliding-branches is
   exactly what fd_mappings_safe excludes *)
Local Open Scope string_scope.
Definition w_mapped : schemas :=
  [mkSchema "p" wm0 "" ty_zero
    [("A", mkObject "A" [] (TStruct A0 [] [mkField "kind" [] (xCst "a") true]) "p" "A");
     ("B", mkObject "B" [] (TStruct A0 [] [mkField "kind" [] (xCst "b") true]) "p" "B");
     ("U", mkObject "U" [] (TDisj A0 (mkDisj [TRef A0 "p" "A"; TRef A0 "p" "B"] "kind" [("a", "A"); ("b", "B")])) "p" "U")]].
Example python_chain_mappings_nonvacuous :
  (no_mappings w_mapped = false /\ python_fd_safe w_mapped = true /\ resolves w_mapped = true /\
   exists out, process chain_python w_mapped = Ok out /\ resolves out = true /\ no_mappings out = false) /\
  (resolves w_flatten_orphan = true /\ fd_mappings_safe w_flatten_orphan = false /\
   exists out, flatten_disjunctions w_flatten_orphan = Ok out /\ resolves out = false).
Proof.
  split.
  - split; [vm_compute; reflexivity|]. split; [vm_compute; reflexivity|]. split; [vm_compute; reflexivity|].
    eexists. split; [vm_compute; reflexivity|]. split; vm_compute; reflexivity.
  - split; [vm_compute; reflexivity|]. split; [vm_compute; reflexivity|]. eexists. split; vm_compute; reflexivity.
Qed.
Local Close Scope string_scope.
