From Coq Require Import List String Bool ZArith Ascii.
From Cog Require Import Model.IR Model.Names Model.Passes Model.PassesChain Model.Process Model.NF
     Proofs.PassLemmas Proofs.TyInd Proofs.C05Proofs.
Import ListNotations.
Local Open Scope list_scope.

(* ---------- NotRequiredFieldAsNullableType establishes "every non-required field is nullable" ---------- *)
Definition optnn (_ : bool) (t : ty) : bool :=
  match t with
  | TStruct _ _ fs => existsb (fun f => negb (f_required f) && negb (nullable (ty_attrs (f_type f)))) fs
  | _ => false
  end.

Lemma nullable_set_true t : nullable (ty_attrs (set_nullable t true)) = true.
Proof. destruct t; reflexivity. Qed.

Lemma any_sub_set_nullable t b inter : any_sub optnn inter (set_nullable t b) = any_sub optnn inter t.
Proof. destruct t; reflexivity. Qed.

Lemma existsb_false_all {A} (p : A -> bool) l : (forall x, In x l -> p x = false) -> existsb p l = false.
Proof.
  induction l as [|x r IH]; intros H; [reflexivity|]. simpl. rewrite (H x (or_introl eq_refl)). simpl.
  apply IH. intros y Hy. apply H. right; assumption.
Qed.

Lemma existsb_map' {A B} (f : A -> B) (p : B -> bool) l : existsb p (map f l) = existsb (fun x => p (f x)) l.
Proof. induction l as [|x r IH]; [reflexivity|]. simpl. rewrite IH. reflexivity. Qed.

Lemma nrfn_optional_nullable : forall t inter, any_sub optnn inter (nrfn_ty t) = false.
Proof.
  induction t as [a d IH|a v IH|a vs IH|a i v IHi IHv|a dh fs IHd IHf|a p n|a p n v|a k v cs|a bs IH|a v|a k]
    using ty_ind'; intros inter; simpl; try reflexivity.
  - apply existsb_false_all. intros x Hx. apply in_map_iff in Hx. destruct Hx as [b [<- Hb]].
    rewrite Forall_forall in IH. apply IH. assumption.
  - apply IH.
  - rewrite IHi, IHv. reflexivity.
  - apply orb_false_iff. split.
    + apply existsb_false_all. intros f' Hf'. apply in_map_iff in Hf'. destruct Hf' as [f [<- Hf]]. simpl.
      destruct (f_required f); [reflexivity|]. simpl.
      destruct (nullable (ty_attrs (nrfn_ty (f_type f)))) eqn:E; simpl; [rewrite E; reflexivity|].
      rewrite nullable_set_true. reflexivity.
    + rewrite existsb_map'. apply existsb_false_all. intros f Hf. simpl.
      rewrite Forall_forall in IHf.
      destruct (negb (f_required f) && negb (nullable (ty_attrs (nrfn_ty (f_type f)))));
        [rewrite any_sub_set_nullable|]; apply IHf; assumption.
  - apply existsb_false_all. intros x Hx. apply in_map_iff in Hx. destruct Hx as [b [<- Hb]].
    rewrite Forall_forall in IH. apply IH. assumption.
Qed.

Theorem not_required_establishes_optional_nullable_proof ss :
  has_optional_not_nullable (not_required_field_as_nullable_type ss) = false.
Proof.
  unfold has_optional_not_nullable. apply existsb_false_all. intros o Ho.
  unfold objects_of, not_required_field_as_nullable_type in Ho. apply in_flat_map in Ho.
  destruct Ho as [s' [Hs' Ho]]. apply in_map_iff in Hs'. destruct Hs' as [s [<- Hs]].
  apply in_map_iff in Ho. destruct Ho as [[k o'] [<- Hko]]. simpl.
  unfold visit_schema_t in Hko. simpl in Hko.
  apply (fold_add_image (fun o => set_otype o (nrfn_ty (o_type o)))) in Hko.
  destruct Hko as [[]|[ko [_ ->]]]. simpl. apply nrfn_optional_nullable.
Qed.

(* ---------- RenameNumericEnumValues: no purely numeric member name remains ---------- *)
Lemma upper_camel_n r : exists x, upper_camel_case (String "n" r) = String "N" x.
Proof. unfold upper_camel_case, lower_camel_case. simpl. eexists. reflexivity. Qed.

Lemma not_numeric_N x : is_numeric_name (String "N" x) = false.
Proof. reflexivity. Qed.

Lemma negative_name_not_numeric n : is_numeric_name (negative_name n) = false.
Proof.
  unfold negative_name.
  change (String.append "negative" (tail_str n)) with (String "n" (String.append "egative" (tail_str n))).
  destruct (upper_camel_n (String.append "egative" (tail_str n))) as [x Hx]. rewrite Hx. reflexivity.
Qed.

(* names on which NF's "purely numeric" and strconv.Atoi (which also checks the int range) agree *)
Definition names_fit (ss : schemas) : Prop :=
  forall o v, In o (objects_of ss) -> In v (enum_members o) ->
              is_numeric_name (ev_name v) = true -> atoi_ok (ev_name v) = true.

Lemma rnev_members o v : In v (enum_members (rnev_object o)) ->
  exists v0, In v0 (enum_members o) /\
    ev_name v = if atoi_ok (ev_name v0)
                then match first_char (ev_name v0) with
                     | Some c => if is_char c 45 then negative_name (ev_name v0)
                                 else ("N" ++ upper_camel_case (ev_name v0))%string
                     | None => ev_name v0
                     end
                else ev_name v0.
Proof.
  unfold rnev_object. destruct (o_type o) as [a d|a v1|a vs|a i v1|a dh fs|a p n|a p n v1|a k v1 cs|a bs|a v1|a k] eqn:E;
    try (unfold enum_members; rewrite E; intros []).
  unfold enum_members at 1. simpl. intros H. apply in_map_iff in H. destruct H as [v0 [<- Hv0]].
  exists v0. split; [unfold enum_members; rewrite E; assumption|].
  destruct (atoi_ok (ev_name v0)); reflexivity.
Qed.

Theorem rename_numeric_establishes_proof ss :
  names_fit ss -> numeric_member (rename_numeric_enum_values ss) = false.
Proof.
  intros Hfit. unfold numeric_member. apply existsb_false_all. intros o Ho.
  unfold objects_of, rename_numeric_enum_values in Ho. apply in_flat_map in Ho.
  destruct Ho as [s' [Hs' Ho]]. apply in_map_iff in Hs'. destruct Hs' as [s [<- Hs]].
  apply in_map_iff in Ho. destruct Ho as [[k o'] [<- Hko]]. simpl in *.
  assert (exists ko, In ko (s_objects s) /\ o' = rnev_object (snd ko)) as [ko [Hko0 ->]].
  { clear - Hko.
    assert (forall (l : list (string * object)) acc,
              In (k, o') (fold_left (fun acc ko => objs_set acc (fst ko) (rnev_object (snd ko))) l acc) ->
              In (k, o') acc \/ exists ko, In ko l /\ o' = rnev_object (snd ko)) as G.
    { induction l as [|x r IH]; intros acc H; [left; assumption|]. simpl in H. apply IH in H.
      destruct H as [H|[ko [Hk E]]]; [|right; exists ko; split; [right; assumption|assumption]].
      apply objs_set_in in H. destruct H as [H|H]; [left; assumption|right; exists x; split; [left; reflexivity|assumption]]. }
    apply G in Hko. destruct Hko as [[]|H]; assumption. }
  apply existsb_false_all. intros v Hv. destruct (rnev_members _ _ Hv) as [v0 [Hv0 Hn]]. rewrite Hn.
  destruct (atoi_ok (ev_name v0)) eqn:Ea.
  - destruct (first_char (ev_name v0)) as [c|] eqn:Ec.
    + destruct (is_char c 45); [apply negative_name_not_numeric|apply not_numeric_N].
    + destruct (ev_name v0); [reflexivity|discriminate].
  - destruct (is_numeric_name (ev_name v0)) eqn:En; [|reflexivity].
    assert (In (snd ko) (objects_of ss)) as Hin.
    { unfold objects_of. apply in_flat_map. exists s. split; [assumption|]. apply in_map. assumption. }
    rewrite (Hfit (snd ko) v0 Hin Hv0 En) in Ea. discriminate.
Qed.
