(* C01 front-end: acceptance is preserved by the JSON Schema front-end (partial form). *)
From Coq Require Import List String ZArith Bool Ascii Arith Lia.
From Cog Require Import Model.IR Model.Json Model.GoSemBase Model.GoSemValidate Model.Src Model.FrontEnd Model.FrontEndSpec.
From Cog Require Import Proofs.FrontEndLemmas Proofs.FrontEndFields.
Import FEDec.
Import ListNotations.
Local Open Scope list_scope.
Local Open Scope string_scope.

(* ---------- induction on documents ---------- *)
Section JsonInd.
  Variable P : json -> Prop.
  Hypothesis HNull : P JNull.
  Hypothesis HBool : forall b, P (JBool b).
  Hypothesis HNum : forall m e, P (JNum m e).
  Hypothesis HStr : forall s, P (JStr s).
  Hypothesis HArr : forall l, Forall P l -> P (JArr l).
  Hypothesis HObj : forall l, Forall (fun kv => P (snd kv)) l -> P (JObj l).
  Fixpoint fe_json_ind (j : json) : P j :=
    match j with
    | JNull => HNull | JBool b => HBool b | JNum m e => HNum m e | JStr s => HStr s
    | JArr l =>
        HArr l ((fix go (l : list json) : Forall P l :=
                   match l with [] => Forall_nil _ | x :: r => Forall_cons x (fe_json_ind x) (go r) end) l)
    | JObj l =>
        HObj l ((fix go (l : list (string * json)) : Forall (fun kv => P (snd kv)) l :=
                   match l with [] => Forall_nil _ | x :: r => Forall_cons x (fe_json_ind (snd x)) (go r) end) l)
    end.
End JsonInd.

(* ---------- list helpers ---------- *)
Lemma forallb_map {A B} (p : B -> bool) (F : A -> B) l : forallb p (map F l) = forallb (fun x => p (F x)) l.
Proof. induction l; simpl; auto. rewrite IHl. reflexivity. Qed.
Lemma existsb_map {A B} (p : B -> bool) (F : A -> B) l : existsb p (map F l) = existsb (fun x => p (F x)) l.
Proof. induction l; simpl; auto. rewrite IHl. reflexivity. Qed.
Lemma existsb_flat_map {A B} (p : B -> bool) (F : A -> list B) l :
  existsb p (flat_map F l) = existsb (fun x => existsb p (F x)) l.
Proof. induction l; simpl; auto. rewrite existsb_app, IHl. reflexivity. Qed.
Lemma forallb_ext_in {A} (p q : A -> bool) l : (forall x, In x l -> p x = q x) -> forallb p l = forallb q l.
Proof. induction l; simpl; intro H; auto. rewrite H, IHl; auto. Qed.
Lemma existsb_ext_in {A} (p q : A -> bool) l : (forall x, In x l -> p x = q x) -> existsb p l = existsb q l.
Proof. induction l; simpl; intro H; auto. rewrite H, IHl; auto. Qed.
Lemma filter_all {A} (p : A -> bool) l : forallb p l = true -> filter p l = l.
Proof. induction l; simpl; intro H; auto. apply andb_true_iff in H. destruct H as [H1 H2]. rewrite H1, IHl; auto. Qed.

(* ---------- unfolding the two recursive predicates ---------- *)
Definition alt_check (ctx : schemas) (j : json) (alt : ty) : bool :=
  match alt with
  | TScalar a k v cs => scalar_accepts alt a k v cs j
  | TEnum _ vs => existsb (fun ev => const_matches (ev_value ev) j) vs
  | TArray _ et => match j with JArr l => forallb (fun x => ir_accepts ctx x et) l | _ => false end
  | TMap _ _ vt => match j with JObj ms => forallb (fun kv => ir_accepts ctx (snd kv) vt) ms | _ => false end
  | TStruct _ _ fs =>
      match j with
      | JObj ms =>
          (str_nodup (map fst ms) &&
           forallb (fun kv => match find (fun f => seqb (f_name f) (fst kv)) fs with
                              | Some f => ir_accepts ctx (snd kv) (f_type f)
                              | None => false
                              end) ms &&
           forallb (fun f => (negb (f_required f) || str_in (f_name f) (map fst ms))%bool) fs)%bool
      | _ => false
      end
  | _ => false
  end.
Lemma ir_accepts_unfold ctx j t : ir_accepts ctx j t = existsb (alt_check ctx j) (alternatives ctx (alt_fuel ctx) t).
Proof. destruct j; reflexivity. Qed.

Definition JS := "jsonschema".
Definition sv_simple (defs : list (string * src_ty)) (j : json) (rt : src_ty) : bool :=
  match rt, j with
  | SBool, JBool _ => true
  | SInt w ge gt le lt, JNum m e => (is_integral m e && true && bounds_ok (zopt ge) (zopt gt) (zopt le) (zopt lt) (m, e))%bool
  | SFloat _ ge gt le lt, JNum m e => bounds_ok ge gt le lt (m, e)
  | SString mn mx, JStr s =>
      (match mn with Some n => Z.leb n (rune_count s) | None => true end &&
       match mx with Some n => Z.leb (rune_count s) n | None => true end)%bool
  | SDateTime, JStr s => match parse_time s with TBadTime => false | _ => true end
  | SAny, _ => true
  | SConst v, _ => json_eq v j
  | SEnum vals, _ => in_list j vals
  | SArray et, JArr l => forallb (fun x => src_valid JS defs x et) l
  | SMap vt, JObj ms => forallb (fun kv => src_valid JS defs (snd kv) vt) ms
  | _, _ => false
  end.
Definition sv_struct (defs : list (string * src_ty)) (fs : list sfield) (ms : list (string * json)) : bool :=
  (str_nodup (map fst ms) &&
   forallb (fun kv => match find (fun f => seqb (sf_name f) (fst kv)) fs with
                      | None => false
                      | Some f =>
                          match snd kv with
                          | JNull => (sf_null f ||
                                      match src_resolve defs (S (List.length defs)) (sf_type f) with Some SAny => true | _ => false end)%bool
                          | _ => src_valid JS defs (snd kv) (sf_type f)
                          end
                      end) ms &&
   forallb (fun f => (negb (sf_req f) || str_in (sf_name f) (map fst ms))%bool) fs)%bool.
Definition sv_body (defs : list (string * src_ty)) (j : json) (t : src_ty) : bool :=
  match src_resolve defs (S (List.length defs)) t with
  | None => false
  | Some rt =>
      match rt with
      | SStruct fs => match j with JObj ms => sv_struct defs fs ms | _ => false end
      | SUnion bs =>
          existsb (fun b => match src_resolve defs (S (List.length defs)) b with Some rb => sv_simple defs j rb | None => false end) bs
      | SDUnion disc names =>
          match j with
          | JObj ms =>
              existsb (fun n => match src_resolve defs (S (List.length defs)) (SRef n) with
                                | Some (SStruct fs) => sv_struct defs fs ms
                                | _ => false end) names
          | _ => false
          end
      | _ => sv_simple defs j rt
      end
  end.
Lemma src_valid_unfold defs j t : src_valid JS defs j t = sv_body defs j t.
Proof.
  destruct j; reflexivity.
Qed.

(* ---------- printing then parsing a bound: FEDec.dec_roundtrip (by value), exact for exponents <= 0 ---------- *)
Lemma roundtrip_small p : bound_small p = true -> parse_dec (dec_string (fst p) (snd p)) = Some p.
Proof.
  destruct p as [m e]. unfold bound_small. cbn [fst snd]. intro H.
  apply andb_true_iff in H. destruct H as [_ H4]. apply Z.leb_le in H4. apply dec_roundtrip_nonpos. exact H4.
Qed.

(* ---------- constraints ---------- *)
Lemma cstr_num op a b m e : parse_dec (dec_string a b) = Some (a, b) ->
  cstr_holds_json (cstr op (dflo a b)) (JNum m e) =
  (let c := dec_compare (m, e) (a, b) in
   if seqb op ">=" then match c with Lt => false | _ => true end
   else if seqb op ">" then match c with Gt => true | _ => false end
   else if seqb op "<=" then match c with Gt => false | _ => true end
   else if seqb op "<" then match c with Lt => true | _ => false end
   else false).
Proof. intro H. unfold cstr_holds_json, cstr, dflo. cbn [c_args c_op dyn_num]. rewrite H. reflexivity. Qed.

Lemma cstr_num_val op a b m e :
  cstr_holds_json (cstr op (dflo a b)) (JNum m e) =
  (let c := dec_compare (m, e) (a, b) in
   if seqb op ">=" then match c with Lt => false | _ => true end
   else if seqb op ">" then match c with Gt => true | _ => false end
   else if seqb op "<=" then match c with Gt => false | _ => true end
   else if seqb op "<" then match c with Lt => true | _ => false end
   else false).
Proof.
  destruct (dec_roundtrip a b) as [p [H1 H2]].
  unfold cstr_holds_json, cstr, dflo. cbn [c_args c_op dyn_num]. rewrite H1. cbv zeta. rewrite H2. reflexivity.
Qed.

Lemma bounds_agree_val ge gt le lt m e :
  forallb (fun c => cstr_holds_json c (JNum m e)) (js_bounds ge gt le lt) = bounds_ok ge gt le lt (m, e).
Proof.
  unfold js_bounds, bounds_ok, opt_ok, opt_list.
  destruct ge as [[a1 b1]|], gt as [[a2 b2]|], le as [[a3 b3]|], lt as [[a4 b4]|];
    cbn [app forallb fst snd]; rewrite ?cstr_num_val;
    cbv zeta; cbn [seqb String.eqb Ascii.eqb Bool.eqb];
    repeat match goal with |- context [dec_compare ?x ?y] => destruct (dec_compare x y) end; reflexivity.
Qed.
Lemma bounds_agree ge gt le lt m e :
  obound_small ge = true -> obound_small gt = true -> obound_small le = true -> obound_small lt = true ->
  forallb (fun c => cstr_holds_json c (JNum m e)) (js_bounds ge gt le lt) = bounds_ok ge gt le lt (m, e).
Proof. intros _ _ _ _. apply bounds_agree_val. Qed.

Lemma dec_compare_int a b : dec_compare (a, 0%Z) (b, 0%Z) = Z.compare a b.
Proof. unfold dec_compare. simpl. rewrite !Z.mul_1_r. reflexivity. Qed.

Lemma lengths_agree mn mx s :
  forallb (fun c => cstr_holds_json c (JStr s)) (js_lengths mn mx) =
  (match mn with Some n => Z.leb n (rune_count s) | None => true end &&
   match mx with Some n => Z.leb (rune_count s) n | None => true end)%bool.
Proof.
  assert (A : forall n, cstr_holds_json (cstr "minLength" (DInt "int" n)) (JStr s) = Z.leb n (rune_count s)).
  { intro n. unfold cstr_holds_json, cstr. cbn [c_args c_op dyn_num]. rewrite dec_compare_int.
    cbn [seqb String.eqb Ascii.eqb Bool.eqb]. unfold Z.leb. rewrite (Z.compare_antisym (rune_count s) n).
    destruct (rune_count s ?= n)%Z; reflexivity. }
  assert (B : forall n, cstr_holds_json (cstr "maxLength" (DInt "int" n)) (JStr s) = Z.leb (rune_count s) n).
  { intro n. unfold cstr_holds_json, cstr. cbn [c_args c_op dyn_num]. rewrite dec_compare_int.
    cbn [seqb String.eqb Ascii.eqb Bool.eqb]. unfold Z.leb.
    destruct (rune_count s ?= n)%Z; reflexivity. }
  unfold js_lengths, opt_list. destruct mn, mx; cbn [app forallb]; rewrite ?A, ?B, ?andb_true_r; reflexivity.
Qed.

(* ---------- constants ---------- *)
Definition is_jnull (j : json) : bool := match j with JNull => true | _ => false end.

Lemma json_eq_str s j : json_eq (JStr s) j = const_matches (DStr s) j.
Proof. destruct j; unfold json_eq; simpl; try reflexivity. destruct (num_norm m e); reflexivity. Qed.
Lemma json_eq_bool b j : json_eq (JBool b) j = const_matches (DBool b) j.
Proof. destruct j; unfold json_eq; simpl; try reflexivity. destruct (num_norm m e); reflexivity. Qed.
Lemma json_eq_num m j g : json_eq (JNum m 0) j = const_matches (DInt g (m * 10 ^ 0)) j.
Proof.
  change (10 ^ 0)%Z with 1%Z. rewrite Z.mul_1_r.
  destruct j; unfold json_eq; simpl; try (destruct (num_norm m 0); reflexivity).
  unfold num_eqb. destruct (num_norm m 0), (num_norm m0 e). reflexivity.
Qed.

Lemma const_agree ctx v j : json_scalar_const v = true -> const_plain v = true ->
  json_eq v j = alt_check ctx j (js_const v).
Proof.
  destruct v; simpl; intros H1 H2; try discriminate.
  - rewrite json_eq_bool. reflexivity.
  - apply Z.eqb_eq in H2. subst e. rewrite (json_eq_num m j "int64"). reflexivity.
  - rewrite json_eq_str. reflexivity.
Qed.

Lemma json_eq_num_val m e j g : (0 <= e)%Z -> json_eq (JNum m e) j = const_matches (DInt g (m * 10 ^ e)) j.
Proof.
  intro H. destruct j; unfold json_eq; simpl; try (destruct (num_norm m e); reflexivity).
  unfold num_eqb. rewrite (num_norm_value m e H). destruct (num_norm m e), (num_norm m0 e0). reflexivity.
Qed.
Lemma const_agree_val ctx v j : json_scalar_const v = true -> json_eq v j = alt_check ctx j (js_const v).
Proof.
  destruct v; simpl; intros H1; try discriminate.
  - rewrite json_eq_bool. reflexivity.
  - apply Z.leb_le in H1. rewrite (json_eq_num_val m e j "int64" H1). reflexivity.
  - rewrite json_eq_str. reflexivity.
Qed.

Definition enum_val_ok (v : json) : bool := match v with JStr _ => true | JNum _ e => Z.leb 0 e | _ => false end.
Lemma enum_ok_all vals : enum_ok vals = true -> forall v, In v vals -> enum_val_ok v = true.
Proof.
  unfold enum_ok. destruct vals as [|v0 r]; [discriminate|].
  intros H v I.
  assert (X : forallb json_is_string (v0 :: r) = true \/
              forallb (fun j => match j with JNum m e => Z.leb 0 e | _ => false end) (v0 :: r) = true).
  { destruct v0; auto. }
  destruct X as [X|X]; rewrite forallb_forall in X; specialize (X v I); destruct v; simpl in *; auto; discriminate.
Qed.

Lemma enum_member_agree et v j : enum_val_ok v = true -> const_plain v = true ->
  const_matches (ev_value (js_enum_member et v)) j = json_eq v j.
Proof.
  destruct v; simpl; intros H1 H2; try discriminate.
  - apply Z.eqb_eq in H2. subst e. rewrite (json_eq_num m j "int64"). reflexivity.
  - rewrite json_eq_str. reflexivity.
Qed.

Lemma enum_agree ctx vals j : enum_ok vals = true -> forallb const_plain vals = true ->
  in_list j vals = alt_check ctx j (js_enum vals).
Proof.
  intros H1 H2. unfold js_enum, in_list. cbn [alt_check]. rewrite existsb_map.
  apply existsb_ext_in. intros v I. symmetry. apply enum_member_agree.
  - apply (enum_ok_all vals H1 v I).
  - rewrite forallb_forall in H2. apply H2. exact I.
Qed.

Lemma enum_member_agree_val et v j : enum_val_ok v = true ->
  const_matches (ev_value (js_enum_member et v)) j = json_eq v j.
Proof.
  destruct v; simpl; intros H1; try discriminate.
  - apply Z.leb_le in H1. rewrite (json_eq_num_val m e j "int64" H1). reflexivity.
  - rewrite json_eq_str. reflexivity.
Qed.
Lemma enum_agree_val ctx vals j : enum_ok vals = true -> in_list j vals = alt_check ctx j (js_enum vals).
Proof.
  intros H1. unfold js_enum, in_list. cbn [alt_check]. rewrite existsb_map.
  apply existsb_ext_in. intros v I. symmetry. apply enum_member_agree_val. apply (enum_ok_all vals H1 v I).
Qed.

(* ---------- the types inside a well-formed schema ---------- *)
Definition good (s : src_schema) (t : src_ty) : Prop :=
  js_supported t = true /\ ty_wf (src_defs s) t = true /\ no_constrained_typearray t = true /\
  forallb (fun n => str_in n (map fst (src_defs s))) (refs_of t) = true.
Definition nonref (t : src_ty) : bool := match t with SRef _ => false | _ => true end.

Section Ctx.
  Variable s : src_schema.
  Hypothesis W : src_wf s = true.
  Hypothesis NC : schema_no_constrained_typearray s = true.
  Local Notation defs := (src_defs s).
  Local Notation pkg := (src_pkg s).
  Local Notation ctx := (parse_ctx s).
  Local Notation fuel := (S (List.length (src_defs s))).

  Lemma good_def k t : In (k, t) defs -> good s t.
  Proof.
    intro I. destruct (src_wf_parts s W) as [_ [_ ALL]]. destruct (ALL k t I) as [A [B [_ D]]].
    unfold schema_no_constrained_typearray in NC.
    rewrite forallb_forall in NC. repeat split; auto.
    apply (NC _ I).
  Qed.

  Lemma locate_ok m t : src_lookup defs m = Some t -> locate_object ctx pkg m = Some (obj_of pkg m t).
  Proof.
    intro L. destruct (src_wf_parts s W) as [SUP [_ ALL]].
    rewrite (locate_parse s m SUP). apply src_lookup_some_in in L.
    destruct (ALL m t L) as [_ [_ [R _]]]. rewrite R.
    destruct (src_wf_parts s W) as [_ [ND _]]. rewrite (src_lookup_in _ _ _ ND L). reflexivity.
  Qed.

  Lemma alt_fuel_eq : alt_fuel ctx = (2 * List.length defs + 8)%nat.
  Proof.
    destruct (src_wf_parts s W) as [SUP [_ ALL]]. rewrite (parse_ctx_eq s SUP).
    unfold alt_fuel, count_objects. cbn [fold_right s_objects]. rewrite length_sort_objs, map_length.
    rewrite filter_all.
    - lia.
    - apply forallb_forall. intros [k t] I. destruct (ALL k t I) as [_ [_ [R _]]]. exact R.
  Qed.

  Lemma alts_disj F bs : alternatives ctx (S F) (mk_disj bs) = flat_map (alternatives ctx F) bs.
  Proof. reflexivity. Qed.
  Lemma alts_ref F a p n : alternatives ctx (S F) (TRef a p n) =
    match locate_object ctx p n with Some o => alternatives ctx F (o_type o) | None => [] end.
  Proof. reflexivity. Qed.

  Lemma resolve_good : forall f t rt, good s t -> src_resolve defs f t = Some rt -> good s rt /\ nonref rt = true.
  Proof.
    induction f as [|f IH]; intros t rt G R.
    - destruct t; simpl in R; try discriminate; inversion R; subst; auto.
    - destruct t; simpl in R; try (inversion R; subst; auto; fail).
      destruct (src_lookup defs name) as [t'|] eqn:L; [|discriminate].
      apply (IH t' rt); auto. apply (good_def name). apply src_lookup_some_in. exact L.
  Qed.

  Lemma resolve_alts : forall f t rt, src_resolve defs f t = Some rt ->
    exists k, (k <= f)%nat /\ forall F, alternatives ctx (k + F) (js_ty pkg t) = alternatives ctx F (js_ty pkg rt).
  Proof.
    induction f as [|f IH]; intros t rt R.
    - destruct t; simpl in R; try discriminate; inversion R; subst; exists 0%nat; split; auto.
    - destruct t; simpl in R; try (inversion R; subst; exists 0%nat; split; [lia|auto]; fail).
      destruct (src_lookup defs name) as [t'|] eqn:L; [|discriminate].
      destruct (IH t' rt R) as [k [K1 K2]]. exists (S k). split; [lia|].
      intro F. cbn [plus js_ty]. rewrite alts_ref. rewrite (locate_ok name t' L). cbn [obj_of o_type]. apply K2.
  Qed.

  (* ---------- alias cycles: src_resolve fails within its fuel iff it fails with every fuel (pigeonhole on the names
     visited), and then the IR side has no alternative at all ---------- *)
  Fixpoint chain (F : nat) (t : src_ty) : list string :=
    match F with
    | O => []
    | S F' => match t with
              | SRef m => match src_lookup defs m with Some t' => m :: chain F' t' | None => [] end
              | _ => []
              end
    end.
  Lemma chain_nonref F t : nonref t = true -> chain F t = [].
  Proof. destruct F, t; simpl; intro H; try reflexivity; discriminate. Qed.

  Lemma chain_some : forall F t rt, src_resolve defs F t = Some rt ->
    src_resolve defs (S (List.length (chain F t))) t = Some rt.
  Proof.
    induction F as [|F IH]; intros t rt R.
    - destruct t; simpl in R; try discriminate; inversion R; subst; reflexivity.
    - destruct t; try (simpl in R; inversion R; subst; reflexivity).
      simpl in R. destruct (src_lookup defs name) as [t'|] eqn:L; [|discriminate].
      cbn [chain]. rewrite L. cbn [List.length src_resolve]. rewrite L. apply IH. exact R.
  Qed.

  Lemma chain_indep : forall F F1 t rt rt1, src_resolve defs F t = Some rt -> src_resolve defs F1 t = Some rt1 ->
    chain F t = chain F1 t.
  Proof.
    induction F as [|F IH]; intros F1 t rt rt1 R R1.
    - destruct t; simpl in R; try discriminate; rewrite !chain_nonref by reflexivity; reflexivity.
    - destruct t; try (rewrite !chain_nonref by reflexivity; reflexivity).
      simpl in R. destruct (src_lookup defs name) as [t'|] eqn:L; [|discriminate].
      destruct F1 as [|F1]; [simpl in R1; discriminate|]. simpl in R1. rewrite L in R1.
      cbn [chain]. rewrite L. f_equal. apply (IH F1 t' rt rt1); assumption.
  Qed.

  Lemma chain_suffix : forall F t rt m, In m (chain F t) -> src_resolve defs F t = Some rt ->
    exists F1, src_resolve defs F1 (SRef m) = Some rt /\ (List.length (chain F1 (SRef m)) <= List.length (chain F t))%nat.
  Proof.
    induction F as [|F IH]; intros t rt m I R; [destruct I|].
    destruct t; try (destruct I; fail).
    simpl in R. cbn [chain] in *. destruct (src_lookup defs name) as [t'|] eqn:L; [|destruct I].
    destruct I as [I|I].
    - subst m. exists (S F). split.
      + simpl. rewrite L. exact R.
      + cbn [chain]. rewrite L. apply le_n.
    - destruct (IH t' rt m I R) as [F1 [R1 LE]]. exists F1. split; auto. cbn [List.length]. lia.
  Qed.

  Lemma chain_nodup : forall F t rt, src_resolve defs F t = Some rt -> NoDup (chain F t).
  Proof.
    induction F as [|F IH]; intros t rt R; [constructor|].
    destruct t; try (rewrite chain_nonref by reflexivity; constructor).
    simpl in R. destruct (src_lookup defs name) as [t'|] eqn:L; [|discriminate].
    cbn [chain]. rewrite L. constructor; [|apply (IH t' rt R)].
    intro I. destruct (chain_suffix F t' rt name I R) as [F1 [R1 LE]].
    assert (E : chain F1 (SRef name) = chain (S F) (SRef name)).
    { apply (chain_indep F1 (S F) (SRef name) rt rt); auto. simpl. rewrite L. exact R. }
    rewrite E in LE. cbn [chain] in LE. rewrite L in LE. cbn [List.length] in LE. lia.
  Qed.

  Lemma chain_incl : forall F t m, In m (chain F t) -> In m (map fst defs).
  Proof.
    induction F as [|F IH]; intros t m I; [destruct I|].
    destruct t; try (destruct I; fail).
    cbn [chain] in I. destruct (src_lookup defs name) as [t'|] eqn:L; [|destruct I].
    destruct I as [I|I].
    - subst m. apply src_lookup_some_in in L. apply (in_map fst) in L. exact L.
    - apply (IH t' m I).
  Qed.

  Lemma resolve_mono : forall f t rt, src_resolve defs f t = Some rt -> forall f', (f <= f')%nat -> src_resolve defs f' t = Some rt.
  Proof.
    induction f as [|f IH]; intros t rt R f' LE.
    - destruct t; simpl in R; try discriminate; inversion R; subst; destruct f'; reflexivity.
    - destruct t; try (simpl in R; inversion R; subst; destruct f'; reflexivity).
      destruct f' as [|f']; [lia|]. simpl in *.
      destruct (src_lookup defs name) as [t'|]; [|discriminate]. apply (IH t' rt R). lia.
  Qed.

  Lemma resolve_stable F t rt : src_resolve defs F t = Some rt -> src_resolve defs fuel t = Some rt.
  Proof.
    intro R. apply (resolve_mono _ _ _ (chain_some F t rt R)).
    assert (LE : (List.length (chain F t) <= List.length (map fst defs))%nat).
    { apply NoDup_incl_length; [apply (chain_nodup F t rt R)|]. intros m I. apply (chain_incl F t m I). }
    rewrite map_length in LE. lia.
  Qed.

  Lemma none_alts : forall F t, src_resolve defs F t = None -> alternatives ctx F (js_ty pkg t) = [].
  Proof.
    induction F as [|F IH]; intros t R; [reflexivity|].
    destruct t; simpl in R; try discriminate.
    cbn [js_ty]. rewrite alts_ref.
    destruct (src_lookup defs name) as [t'|] eqn:L.
    - rewrite (locate_ok name t' L). cbn [obj_of o_type]. apply IH. exact R.
    - destruct (src_wf_parts s W) as [SUP _]. rewrite (locate_parse s name SUP), L.
      destruct (str_in name (reachable s)); reflexivity.
  Qed.

  Lemma alts_none t F : src_resolve defs fuel t = None -> alternatives ctx F (js_ty pkg t) = [].
  Proof.
    intro R. apply none_alts. destruct (src_resolve defs F t) as [rt|] eqn:RF; auto.
    apply resolve_stable in RF. congruence.
  Qed.

  (* the alternatives of a resolved (reference-free at the top) type *)
  Definition alts_nr (rt : src_ty) : list ty :=
    match rt with
    | SUnion bs => map (js_ty pkg) bs
    | SDUnion _ names =>
        flat_map (fun m => match src_lookup defs m with Some t' => [js_ty pkg t'] | None => [] end) names
    | _ => [js_ty pkg rt]
    end.

  Lemma alts_simple_branch F b : is_simple_branch b = true -> alternatives ctx (S F) (js_ty pkg b) = [js_ty pkg b].
  Proof. destruct b; simpl; intro H; try discriminate; reflexivity. Qed.

  Lemma alts_nonref F rt : good s rt -> nonref rt = true ->
    alternatives ctx (S (S (S F))) (js_ty pkg rt) = alts_nr rt.
  Proof.
    intros G NR. destruct rt; try discriminate; try reflexivity.
    - destruct v; reflexivity.
    - destruct fs; reflexivity.
    - (* union *)
      destruct G as [_ [G _]]. cbn [ty_wf] in G. cbn [js_ty alts_nr]. rewrite alts_disj.
      induction bs as [|b r IH]; [reflexivity|].
      cbn [forallb] in G. apply andb_true_iff in G. destruct G as [G1 G2].
      cbn [map flat_map]. rewrite (alts_simple_branch (S F) b G1), IH; auto.
    - (* discriminated union *)
      destruct G as [_ [G _]]. cbn [ty_wf] in G. cbn [js_ty alts_nr]. rewrite alts_disj.
      induction names as [|m r IH]; [reflexivity|].
      cbn [forallb] in G. apply andb_true_iff in G. destruct G as [G1 G2].
      cbn [map flat_map]. rewrite IH by auto. f_equal.
      destruct (src_lookup defs m) as [t'|] eqn:L; [|discriminate].
      rewrite alts_ref. rewrite (locate_ok m t' L). cbn [obj_of o_type].
      destruct t'; try discriminate. destruct fs; reflexivity.
  Qed.

  Lemma alts_enough t F rt : good s t -> (List.length defs + 4 <= F)%nat -> src_resolve defs fuel t = Some rt ->
    good s rt /\ nonref rt = true /\ alternatives ctx F (js_ty pkg t) = alts_nr rt.
  Proof.
    intros G HF R.
    destruct (resolve_good _ _ _ G R) as [G' NR].
    split; [exact G'|]. split; [exact NR|].
    destruct (resolve_alts _ _ _ R) as [k [K1 K2]].
    replace F with (k + S (S (S (F - k - 3))))%nat by lia.
    rewrite K2. apply alts_nonref; auto.
  Qed.

  (* ---------- the main induction ---------- *)
  Definition Pk (j : json) : Prop := forall t, good s t -> src_valid JS defs j t = ir_accepts ctx j (js_ty pkg t).
  Definition kids (j : json) : Prop :=
    match j with JArr l => Forall Pk l | JObj ms => Forall (fun kv => Pk (snd kv)) ms | _ => True end.
  Definition simple_kind (rt : src_ty) : bool :=
    match rt with SRef _ | SStruct _ | SUnion _ | SDUnion _ _ => false | _ => true end.

  Lemma good_array et : good s (SArray et) -> good s et.
  Proof. intro G. exact G. Qed.
  Lemma good_map vt : good s (SMap vt) -> good s vt.
  Proof. intro G. exact G. Qed.

  Lemma existsb_false {A} (p : A -> bool) l : (forall x, In x l -> p x = false) -> existsb p l = false.
  Proof. induction l; simpl; intro H; auto. rewrite H, IHl; auto. Qed.

  Lemma scalar_int cs m e t0 :
    scalar_accepts t0 attrs0 KInt64 DNil cs (JNum m e) =
    ((is_integral m e && Z.leb (-9223372036854775808) (int_value m e) && Z.leb (int_value m e) 9223372036854775807)
     && forallb (fun c => cstr_holds_json c (JNum m e)) cs)%bool.
  Proof. reflexivity. Qed.
  Lemma scalar_float cs m e t0 :
    scalar_accepts t0 attrs0 KFloat64 DNil cs (JNum m e) = forallb (fun c => cstr_holds_json c (JNum m e)) cs.
  Proof. reflexivity. Qed.
  Lemma scalar_string cs x t0 :
    scalar_accepts t0 attrs0 KString DNil cs (JStr x) = forallb (fun c => cstr_holds_json c (JStr x)) cs.
  Proof. reflexivity. Qed.
  Lemma scalar_datetime x t0 :
    scalar_accepts t0 a_datetime KString DNil [] (JStr x) = match parse_time x with TBadTime => false | _ => true end.
  Proof. unfold scalar_accepts. cbn. apply andb_true_r. Qed.

  Lemma simple_agree j rt : kids j -> json_ints_int64 j = true -> good s rt -> simple_kind rt = true ->
    sv_simple defs j rt = alt_check ctx j (js_ty pkg rt).
  Proof.
    intros K HI G SK. destruct rt as [|w ge gt le lt|w ge gt le lt|mn mx| | |cv|vals|et|vt|rn|cfs|bs|disc names]; try discriminate.
    - destruct j; reflexivity.
    - destruct j; try reflexivity.
      cbn [sv_simple js_ty alt_check]. rewrite scalar_int.
      rewrite bounds_agree_val.
      change (zopt ge) with (zb ge). change (zopt gt) with (zb gt). change (zopt le) with (zb le). change (zopt lt) with (zb lt).
      cbn [json_ints_int64] in HI. destruct (is_integral m e); cbn [negb orb andb] in *; [rewrite HI|]; reflexivity.
    - destruct j; try reflexivity.
      cbn [sv_simple js_ty alt_check]. rewrite scalar_float.
      rewrite bounds_agree_val. reflexivity.
    - destruct j; try reflexivity.
      cbn [sv_simple js_ty alt_check]. rewrite scalar_string. rewrite lengths_agree. reflexivity.
    - destruct j; try reflexivity.
      cbn [sv_simple js_ty alt_check]. rewrite scalar_datetime. reflexivity.
    - destruct j; reflexivity.
    - destruct G as [G1 _]. cbn [sv_simple js_ty]. apply const_agree_val; assumption.
    - destruct G as [G1 _].
      assert (E : forall j0, sv_simple defs j0 (SEnum vals) = in_list j0 vals) by (intro j0; destruct j0; reflexivity).
      rewrite E. apply enum_agree_val; assumption.
    - destruct j; try reflexivity. cbn [sv_simple js_ty alt_check].
      apply forallb_ext_in. intros x I. cbn [kids] in K. rewrite Forall_forall in K. apply (K x I). exact G.
    - destruct j; try reflexivity. cbn [sv_simple js_ty alt_check].
      apply forallb_ext_in. intros x I. cbn [kids] in K. rewrite Forall_forall in K. apply (K x I). exact G.
  Qed.

  Lemma simple_branch_kind b : is_simple_branch b = true -> simple_kind b = true /\ nonref b = true.
  Proof. destruct b; simpl; intro H; try discriminate; auto. Qed.
  Lemma resolve_nonref f t : nonref t = true -> src_resolve defs f t = Some t.
  Proof. destruct f, t; simpl; intro H; try discriminate; reflexivity. Qed.

  Lemma json_eq_null v : enum_val_ok v = true \/ json_scalar_const v = true -> json_eq v JNull = false.
  Proof.
    intros [H|H]; destruct v; simpl in H; try discriminate; unfold json_eq; simpl; try reflexivity;
      destruct (num_norm m e); reflexivity.
  Qed.

  Lemma src_valid_null t : good s t ->
    src_valid JS defs JNull t = match src_resolve defs fuel t with Some SAny => true | _ => false end.
  Proof.
    intro G. rewrite src_valid_unfold. unfold sv_body.
    destruct (src_resolve defs fuel t) as [rt|] eqn:R; [|reflexivity].
    destruct (resolve_good _ _ _ G R) as [G' NR].
    destruct rt; try reflexivity.
    - cbn [sv_simple]. apply json_eq_null. right. apply G'.
    - cbn [sv_simple]. unfold in_list. apply existsb_false. intros x I. apply json_eq_null. left.
      destruct G' as [G1 _]. apply (enum_ok_all vals G1 x I).
    - destruct G' as [_ [G2 _]]. cbn [ty_wf] in G2. rewrite forallb_forall in G2.
      apply existsb_false. intros b I. destruct (simple_branch_kind b (G2 b I)) as [_ NB].
      rewrite (resolve_nonref _ b NB). specialize (G2 b I). destruct b; try discriminate; reflexivity.
  Qed.

  Lemma alt_check_null v : alt_check ctx v t_null = is_jnull v.
  Proof. destruct v; reflexivity. Qed.

  Lemma wrap_null t v : good s t ->
    ir_accepts ctx v (mk_disj [js_ty pkg t; t_null]) = (ir_accepts ctx v (js_ty pkg t) || is_jnull v)%bool.
  Proof.
    intro G. rewrite !ir_accepts_unfold. rewrite alt_fuel_eq.
    replace (2 * List.length defs + 8)%nat with (S (S (2 * List.length defs + 6)))%nat by lia.
    rewrite alts_disj. cbn [flat_map]. rewrite existsb_app.
    assert (EA : alternatives ctx (S (2 * List.length defs + 6)) (js_ty pkg t) =
                 alternatives ctx (S (S (2 * List.length defs + 6))) (js_ty pkg t)).
    { destruct (src_resolve defs fuel t) as [rt|] eqn:R.
      - destruct (alts_enough t (S (2 * List.length defs + 6)) rt G) as [_ [_ A1]]; [lia|exact R|].
        destruct (alts_enough t (S (S (2 * List.length defs + 6))) rt G) as [_ [_ A2]]; [lia|exact R|].
        rewrite A1, A2. reflexivity.
      - rewrite !alts_none by exact R. reflexivity. }
    rewrite EA.
    f_equal. change (alternatives ctx (S (2 * List.length defs + 6)) t_null) with [t_null].
    cbn [app existsb]. rewrite alt_check_null. apply orb_false_r.
  Qed.

  Lemma wrap_null_union bs v :
    ir_accepts ctx v (mk_disj (map (js_ty pkg) bs ++ [t_null])) = (ir_accepts ctx v (js_ty pkg (SUnion bs)) || is_jnull v)%bool.
  Proof.
    rewrite !ir_accepts_unfold. rewrite alt_fuel_eq.
    replace (2 * List.length defs + 8)%nat with (S (S (2 * List.length defs + 6)))%nat by lia.
    change (js_ty pkg (SUnion bs)) with (mk_disj (map (js_ty pkg) bs)).
    rewrite !alts_disj. rewrite flat_map_app, existsb_app. f_equal.
    cbn [flat_map]. change (alternatives ctx (S (2 * List.length defs + 6)) t_null) with [t_null].
    cbn [app existsb]. rewrite alt_check_null. apply orb_false_r.
  Qed.

  Definition fld_ok (f : sfield) : Prop :=
    good s (sf_type f) /\
    (negb (sf_nullta f) || (sf_null f && match js_plain (sf_type f) with Some _ => true | None => false end))%bool = true /\
    (negb (sf_nullta f) ||
       match sf_type f with
       | SInt _ None None None None | SFloat _ None None None None | SString None None | SBool => true
       | _ => false end)%bool = true.

  Lemma nullable_field f v : fld_ok f -> sf_null f = true ->
    ir_accepts ctx v (f_type (js_field pkg f)) = (ir_accepts ctx v (js_ty pkg (sf_type f)) || is_jnull v)%bool.
  Proof.
    intros [G [H1 H2]] N. destruct f as [nm t rq nl ta]. cbn [sf_name sf_type sf_req sf_null sf_nullta] in *. subst nl.
    unfold js_field. cbn [sf_name sf_type sf_req sf_null sf_nullta f_type].
    destruct ta.
    - cbn [negb orb] in H2.
      destruct t as [|w [?|] [?|] [?|] [?|]|w [?|] [?|] [?|] [?|]|[?|] [?|]| | |cv|vals|et|vt|rn|cfs|bs|disc names]; try discriminate;
        cbn [js_plain]; apply (wrap_null _ v G).
    - destruct t; try apply (wrap_null _ v G).
      apply wrap_null_union.
  Qed.

  Lemma field_agree f v : Pk v -> fld_ok f ->
    match v with
    | JNull => (sf_null f || match src_resolve defs fuel (sf_type f) with Some SAny => true | _ => false end)%bool
    | _ => src_valid JS defs v (sf_type f)
    end = ir_accepts ctx v (f_type (js_field pkg f)).
  Proof.
    intros PV FO. pose proof FO as [G _].
    destruct (sf_null f) eqn:N.
    - rewrite (nullable_field f v FO N). rewrite <- (PV _ G). destruct v; cbn [is_jnull orb]; rewrite ?orb_false_r, ?orb_true_r; reflexivity.
    - assert (E : f_type (js_field pkg f) = js_ty pkg (sf_type f)).
      { unfold js_field. cbn [f_type]. rewrite N. reflexivity. }
      rewrite E. rewrite <- (PV _ G). destruct v; try reflexivity. cbn [orb]. symmetry. apply src_valid_null. exact G.
  Qed.

  Lemma good_struct_fields fs f : good s (SStruct fs) -> In f fs -> fld_ok f.
  Proof.
    intros [G1 [G2 [G3 G5]]] I.
    apply js_supported_struct in G1. destruct G1 as [_ G1]. destruct (G1 f I) as [A1 A2].
    cbn [ty_wf] in G2. apply andb_true_iff in G2. destruct G2 as [_ G2]. rewrite forallb_forall in G2.
    cbn [no_constrained_typearray] in G3. rewrite forallb_forall in G3. specialize (G3 f I).
    apply andb_true_iff in G3. destruct G3 as [B1 B2].
    cbn [refs_of] in G5. rewrite forallb_forall in G5.
    split; [|split; assumption].
    repeat split; auto.
    apply forallb_forall. intros x Ix. apply G5. apply in_flat_map. exists f. split; assumption.
  Qed.

  Lemma struct_agree fs ms : fs <> [] -> good s (SStruct fs) -> Forall (fun kv => Pk (snd kv)) ms ->
    sv_struct defs fs ms = alt_check ctx (JObj ms) (js_ty pkg (SStruct fs)).
  Proof.
    intros NE G K. destruct fs as [|f0 fr]; [congruence|]. rewrite js_ty_struct.
    unfold sv_struct. cbn [alt_check]. rewrite forallb_sort_fields, forallb_map.
    f_equal. f_equal.
    apply forallb_ext_in. intros kv I. rewrite Forall_forall in K. specialize (K kv I).
    rewrite find_sort_fields. rewrite (find_map_field (js_field pkg)) by reflexivity.
    destruct (find (fun f => seqb (sf_name f) (fst kv)) (f0 :: fr)) as [f|] eqn:E; [|reflexivity].
    cbn [option_map]. apply find_some in E. destruct E as [E _].
    apply field_agree; auto. apply (good_struct_fields (f0 :: fr)); assumption.
  Qed.

  Lemma good_simple b : is_simple_branch b = true -> good s b.
  Proof.
    intros H. unfold good. destruct b; try discriminate; try (repeat split; auto; fail).
    destruct b; try discriminate; repeat split; auto.
  Qed.

  Lemma resolved_agree j rt : kids j -> json_ints_int64 j = true -> good s rt -> nonref rt = true ->
    match rt with
    | SStruct fs => match j with JObj ms => sv_struct defs fs ms | _ => false end
    | SUnion bs =>
        existsb (fun b => match src_resolve defs fuel b with Some rb => sv_simple defs j rb | None => false end) bs
    | SDUnion disc names =>
        match j with
        | JObj ms =>
            existsb (fun n => match src_resolve defs fuel (SRef n) with
                              | Some (SStruct fs) => sv_struct defs fs ms
                              | _ => false end) names
        | _ => false
        end
    | _ => sv_simple defs j rt
    end = existsb (alt_check ctx j) (alts_nr rt).
  Proof.
    intros K HI G NR.
    destruct rt as [|w ge gt le lt|w ge gt le lt|mn mx| | |cv|vals|et|vt|rn|cfs|bs|disc names]; try discriminate;
      try (cbn [alts_nr existsb]; rewrite orb_false_r; apply simple_agree; auto; fail).
    - (* struct *)
      cbn [alts_nr existsb]. rewrite orb_false_r.
      assert (NE : cfs <> []).
      { destruct G as [_ [G2 _]]. cbn [ty_wf] in G2. destruct cfs; [discriminate|congruence]. }
      destruct j; try (destruct cfs; [congruence|reflexivity]).
      apply struct_agree; auto.
    - (* union *)
      cbn [alts_nr]. rewrite existsb_map. apply existsb_ext_in. intros b I.
      pose proof G as [G1 [G2 [G3 G5]]].
      cbn [ty_wf] in G2. rewrite forallb_forall in G2. destruct (simple_branch_kind b (G2 b I)) as [SK NB].
      rewrite (resolve_nonref _ b NB). apply simple_agree; auto.
      apply good_simple; auto.
    - (* discriminated union *)
      cbn [alts_nr]. rewrite existsb_flat_map.
      pose proof G as [_ [G2 _]]. cbn [ty_wf] in G2. rewrite forallb_forall in G2.
      assert (E : forall m, In m names ->
                 existsb (alt_check ctx j) (match src_lookup defs m with Some t' => [js_ty pkg t'] | None => [] end) =
                 match j with
                 | JObj ms => match src_resolve defs fuel (SRef m) with
                              | Some (SStruct fs) => sv_struct defs fs ms
                              | _ => false end
                 | _ => false end).
      { intros m I. specialize (G2 m I). cbn [src_resolve].
        destruct (src_lookup defs m) as [t'|] eqn:L; [|discriminate].
        destruct t' as [| | | | | | | | | | |fs'| |]; try discriminate.
        rewrite (resolve_nonref _ (SStruct fs')) by reflexivity.
        cbn [existsb]. rewrite orb_false_r.
        assert (G' : good s (SStruct fs')) by (apply (good_def m); apply src_lookup_some_in; exact L).
        assert (NE : fs' <> []).
        { destruct G' as [_ [X _]]. cbn [ty_wf] in X. destruct fs'; [discriminate|congruence]. }
        destruct j; try (destruct fs'; [congruence|reflexivity]).
        symmetry. apply struct_agree; auto. }
      destruct j; try (symmetry; apply existsb_false; intros nm1 I1; rewrite (E nm1 I1); reflexivity).
      apply existsb_ext_in. intros nm1 I1. rewrite (E nm1 I1). reflexivity.
  Qed.

  Lemma main_agree : forall j, json_ints_int64 j = true -> Pk j.
  Proof.
    assert (X : forall j, kids j -> json_ints_int64 j = true -> Pk j).
    { intros j K HI t G. rewrite src_valid_unfold, ir_accepts_unfold. unfold sv_body.
      destruct (src_resolve defs fuel t) as [rt|] eqn:R.
      - destruct (alts_enough t (alt_fuel ctx) rt G) as [G' [NR A]]; [rewrite alt_fuel_eq; lia|exact R|].
        rewrite A. apply resolved_agree; auto.
      - rewrite (alts_none t _ R). reflexivity. }
    induction j using fe_json_ind; intros HI; apply X; auto; try exact I.
    - cbn [kids]. cbn [json_ints_int64] in HI. rewrite forallb_forall in HI. rewrite Forall_forall in *.
      intros x Ix. apply H; auto.
    - cbn [kids]. cbn [json_ints_int64] in HI. rewrite forallb_forall in HI. rewrite Forall_forall in *.
      intros x Ix. apply H; auto.
  Qed.
End Ctx.

(* parse_preserves_acceptance_partial EXACTLY as required, no extra hypothesis.
   Numeric bounds are unrestricted (FEDec.dec_roundtrip), numeric constants / enum values may carry an exponent
   (FEDec.num_norm_value), alias cycles are rejected by both sides (resolve_stable / alts_none). *)
Lemma parse_preserves_acceptance_partial_strong :
  forall s tname d, src_wf s = true -> schema_no_constrained_typearray s = true ->
    json_wf d = true -> json_ints_int64 d = true ->
    str_in tname (map fst (src_defs s)) = true -> acceptance_agrees s tname d = true.
Proof.
  intros s tname d W NC WF HI IN.
  unfold acceptance_agrees, src_valid_doc, ir_accepts_doc.
  assert (G : good s (SRef tname)).
  { unfold good. repeat split; auto. cbn [refs_of forallb]. rewrite IN. reflexivity. }
  pose proof (main_agree s W NC d HI (SRef tname) G) as E.
  change (js_ty (src_pkg s) (SRef tname)) with (TRef attrs0 (src_pkg s) tname) in E. unfold JS in E.
  destruct d; try reflexivity; rewrite E; apply eqb_reflx.
Qed.

(* the first proved form (schema_bounds_small s and schema_aliases_resolve s are no longer needed): kept under its name *)
Lemma parse_preserves_acceptance_partial_weak :
  forall s tname d, src_wf s = true -> schema_no_constrained_typearray s = true ->
    schema_bounds_small s = true -> schema_aliases_resolve s = true ->
    json_wf d = true -> json_ints_int64 d = true ->
    str_in tname (map fst (src_defs s)) = true -> acceptance_agrees s tname d = true.
Proof. intros s tname d W NC _ _. apply parse_preserves_acceptance_partial_strong; assumption. Qed.
