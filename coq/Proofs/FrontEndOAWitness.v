(* C01 front-end, OpenAPI: concrete witnesses (vm_compute).
     openapi_frontend_nonvacuous      : the hypotheses of the two theorems of Proofs/FrontEndOA.v are satisfiable together
     openapi_dunion_degraded_witness  : known finding C08-openapi-union-of-structs-degraded-to-any: the OpenAPI FRONT-END keeps
                                        the discriminated union (a disjunction of references, discriminator recorded, no
                                        mapping); the Go CHAIN turns the member into `any` *)
From Coq Require Import List String ZArith Bool Ascii.
From Cog Require Import Model.IR Model.Json Model.GoSemBase Model.GoSemValidate Model.Src Model.FrontEnd Model.FrontEndSpec
  Model.FrontEndSpecOA Model.Passes Model.Process Model.GoSemSpec01 Gen.Chains_gen.
Import ListNotations.
Local Open Scope list_scope.
Local Open Scope string_scope.

(* ---------- O3 ---------- *)
Definition sOA : src_schema :=
  mkSrc "p" "Root"
    [("Root", SStruct [mkSField "inner" (SRef "Inner") true false false;
                       mkSField "count" (SInt "int32" None (Some 0%Z) (Some 10%Z) None) true false false;
                       mkSField "label" (SString (Some 1%Z) (Some 5%Z)) false true false;
                       mkSField "items" (SArray (SString None None)) false false false;
                       mkSField "tags" (SMap SBool) false false false;
                       mkSField "ratio" (SFloat "float64" (Some (5, -1)%Z) None None (Some (25, -1)%Z)) false true false;
                       mkSField "idor" (SUnion [SInt "int64" None None None None; SString None None]) false true false;
                       mkSField "shape" (SDUnion "kind" ["Circle"; "Square"]) true false false]);
     ("Inner", SStruct [mkSField "deep" (SRef "Leaf") true false false]);
     ("Leaf", SStruct [mkSField "x" SBool true false false; mkSField "big" (SInt "int64" (Some 0%Z) None None None) false false false]);
     ("Circle", SStruct [mkSField "kind" (SConst (JStr "circle")) true false false;
                         mkSField "r" (SFloat "float32" None (Some (0, 0)%Z) None None) true false false]);
     ("Square", SStruct [mkSField "kind" (SConst (JStr "square")) true false false;
                         mkSField "side" (SInt "int32" (Some 1%Z) None None None) true false false])].
Definition dOA : json :=
  JObj [("inner", JObj [("deep", JObj [("x", JBool true); ("big", JNum 7 0)])]);
        ("count", JNum 3 0); ("label", JNull);
        ("items", JArr [JStr "a"; JStr "b"]); ("tags", JObj [("k", JBool false)]);
        ("ratio", JNum 15 (-1)); ("idor", JNull);
        ("shape", JObj [("kind", JStr "square"); ("side", JNum 2 0)])].
(* the exclusive bound and the null are effective *)
Definition dOA_bad1 : json :=
  JObj [("inner", JObj [("deep", JObj [("x", JBool true)])]); ("count", JNum 0 0);
        ("shape", JObj [("kind", JStr "square"); ("side", JNum 2 0)])].
Definition dOA_bad2 : json :=
  JObj [("inner", JObj [("deep", JObj [("x", JBool true)])]); ("count", JNum 3 0); ("items", JNull);
        ("shape", JObj [("kind", JStr "square"); ("side", JNum 2 0)])].

Lemma openapi_frontend_nonvacuous : exists s tname d,
  src_wf_oa s = true /\ schema_bounds_small s = true /\ schema_aliases_resolve s = true /\
  json_wf d = true /\ json_ints_int64 d = true /\ str_in tname (map fst (src_defs s)) = true /\
  src_valid_doc "openapi" s tname d = true /\ oa_schema_fields_kept s = true /\
  ir_accepts_n_doc (parse_ctx_oa s) (src_pkg s) tname d = true.
Proof.
  exists sOA, "Root", dOA. vm_compute. repeat split; reflexivity.
Qed.

Example openapi_frontend_rejections :
  src_valid_doc "openapi" sOA "Root" dOA_bad1 = false /\ ir_accepts_n_doc (parse_ctx_oa sOA) "p" "Root" dOA_bad1 = false /\
  src_valid_doc "openapi" sOA "Root" dOA_bad2 = false /\ ir_accepts_n_doc (parse_ctx_oa sOA) "p" "Root" dOA_bad2 = false.
Proof. vm_compute. repeat split; reflexivity. Qed.

(* an alias cycle and a numeric enum value written with an exponent: outside schema_aliases_resolve / schema_bounds_small,
   inside the domain of parse_openapi_preserves_acceptance_partial_strong; the two sides agree *)
Definition sCY : src_schema :=
  mkSrc "p" "Root"
    [("Root", SStruct [mkSField "c" (SRef "X") false false false; mkSField "e" (SEnum [JNum 1 2; JNum 7 0]) false false false;
                       mkSField "f" (SFloat "float64" (Some (123456789, -12)%Z) None None None) false false false]);
     ("X", SRef "Y"); ("Y", SRef "X")].
Example openapi_alias_cycle_agrees :
  src_wf_oa sCY = true /\ schema_aliases_resolve sCY = false /\ schema_bounds_small sCY = false /\
  src_valid_doc "openapi" sCY "Root" (JObj [("c", JBool true)]) = false /\
  ir_accepts_n_doc (parse_ctx_oa sCY) "p" "Root" (JObj [("c", JBool true)]) = false /\
  src_valid_doc "openapi" sCY "Root" (JObj [("e", JNum 100 0); ("f", JNum 1 0)]) = true /\
  ir_accepts_n_doc (parse_ctx_oa sCY) "p" "Root" (JObj [("e", JNum 100 0); ("f", JNum 1 0)]) = true /\
  src_valid_doc "openapi" sCY "X" (JBool true) = false /\ ir_accepts_n_doc (parse_ctx_oa sCY) "p" "X" (JBool true) = false.
Proof. vm_compute. repeat split; reflexivity. Qed.

(* ---------- O4 ---------- *)
(* Root { u: oneOf [#A, #B], discriminator propertyName "kind", no mapping }; `kind` is a plain required string *)
Definition sDU : src_schema :=
  mkSrc "p" "Root"
    [("Root", SStruct [mkSField "u" (SDUnion "kind" ["A"; "B"]) true false false]);
     ("A", SStruct [mkSField "kind" (SString None None) true false false;
                    mkSField "x" (SInt "int64" None None None None) true false false]);
     ("B", SStruct [mkSField "kind" (SString None None) true false false;
                    mkSField "y" (SString None None) true false false])].
(* the same with `kind` a constant in each branch (the OpenAPI front-end makes a one-member enum of a const, not a
   constant scalar, so PDisjunctionInferMapping finds no mapping either) *)
Definition sDUc : src_schema :=
  mkSrc "p" "Root"
    [("Root", SStruct [mkSField "u" (SDUnion "kind" ["A"; "B"]) true false false]);
     ("A", SStruct [mkSField "kind" (SConst (JStr "A")) true false false;
                    mkSField "x" (SInt "int64" None None None None) true false false]);
     ("B", SStruct [mkSField "kind" (SConst (JStr "B")) true false false;
                    mkSField "y" (SString None None) true false false])].
Definition oDU : schemas := match process chain_go (parse_ctx_oa sDU) with Ok o => o | _ => [] end.
Definition oDUc : schemas := match process chain_go (parse_ctx_oa sDUc) with Ok o => o | _ => [] end.
Definition dDU : json := JObj [("u", JObj [("kind", JStr "C"); ("z", JBool true)])].
Definition dDU2 : json := JObj [("u", JNum 5 0)].

Definition member_is_any (ctx : schemas) (p obj fname : string) : bool :=
  match ir_field ctx p obj fname with Some f => is_any (f_type f) | None => false end.
Definition member_is_disj_of_refs (ctx : schemas) (p obj fname : string) : bool :=
  match ir_field ctx p obj fname with
  | Some f => match f_type f with TDisj _ d => forallb is_ref (d_branches d) | _ => false end
  | None => false
  end.

Lemma openapi_dunion_degraded_witness :
  src_wf_oa sDU = true /\
  (* the front-end keeps the union, and agrees with the schema on both documents *)
  member_is_disj_of_refs (parse_ctx_oa sDU) "p" "Root" "u" = true /\
  oa_acceptance_agrees sDU "Root" dDU = true /\ oa_acceptance_agrees sDU "Root" dDU2 = true /\
  (* the Go chain makes `any` of it *)
  process chain_go (parse_ctx_oa sDU) = Ok oDU /\
  member_is_any oDU "p" "Root" "u" = true /\
  src_valid_doc "openapi" sDU "Root" dDU = false /\ ir_valid_object oDU (src_pkg sDU) "Root" dDU = true /\
  src_valid_doc "openapi" sDU "Root" dDU2 = false /\ ir_valid_object oDU (src_pkg sDU) "Root" dDU2 = true.
Proof. vm_compute. repeat split; reflexivity. Qed.

Lemma openapi_dunion_const_degraded_witness :
  src_wf_oa sDUc = true /\
  member_is_disj_of_refs (parse_ctx_oa sDUc) "p" "Root" "u" = true /\
  process chain_go (parse_ctx_oa sDUc) = Ok oDUc /\
  member_is_any oDUc "p" "Root" "u" = true /\
  src_valid_doc "openapi" sDUc "Root" dDU = false /\ ir_valid_object oDUc (src_pkg sDUc) "Root" dDU = true.
Proof. vm_compute. repeat split; reflexivity. Qed.

Print Assumptions openapi_frontend_nonvacuous.
Print Assumptions openapi_dunion_degraded_witness.
Print Assumptions openapi_dunion_const_degraded_witness.
