(* Shared lemmas about the ordered object list and the visitor skeleton. *)
From Coq Require Import List String Bool Lia.
From Cog Require Import Model.IR Model.Passes.
Import ListNotations.
Local Open Scope list_scope.

Lemma seqb_eq a b : seqb a b = true <-> a = b.
Proof. apply String.eqb_eq. Qed.
Lemma seqb_neq a b : seqb a b = false <-> a <> b.
Proof. apply String.eqb_neq. Qed.
Lemma seqb_refl a : seqb a a = true.
Proof. apply String.eqb_refl. Qed.

(* well-formed schema: keys are the object names and are unique *)
Definition wf_objects (l : list (string * object)) : Prop :=
  NoDup (map fst l) /\ Forall (fun ko => fst ko = o_name (snd ko)) l.
Definition wf_schema (s : schema) : Prop := wf_objects (s_objects s).

Lemma objs_set_fresh l k o : ~ In k (map fst l) -> objs_set l k o = l ++ [(k, o)].
Proof.
  induction l as [|[k' o'] r IH]; intros Hn; [reflexivity|]. simpl.
  destruct (seqb k' k) eqn:E.
  - apply seqb_eq in E; subst. exfalso; apply Hn; left; reflexivity.
  - f_equal. apply IH. intros H; apply Hn; right; exact H.
Qed.

Lemma objs_set_keys l k o : In k (map fst l) -> map fst (objs_set l k o) = map fst l.
Proof.
  induction l as [|[k' o'] r IH]; intros Hin; [inversion Hin|]. simpl.
  destruct (seqb k' k) eqn:E; simpl; [reflexivity|]. f_equal. apply IH.
  destruct Hin as [H|H]; [|exact H]. simpl in H. subst. rewrite seqb_refl in E. discriminate.
Qed.

(* adding objects with pairwise distinct names, none present yet, appends them in order *)
Lemma fold_add_fresh (g : object -> object) (objs : list object) : forall acc,
  NoDup (map (fun o => o_name (g o)) objs) ->
  (forall o, In o objs -> ~ In (o_name (g o)) (map fst acc)) ->
  fold_left (fun a o => add_object a (g o)) objs acc
  = acc ++ map (fun o => (o_name (g o), g o)) objs.
Proof.
  induction objs as [|o r IH]; intros acc Hnd Hfresh; simpl; [rewrite app_nil_r; reflexivity|].
  inversion Hnd as [|? ? Hx Hr]; subst.
  unfold add_object at 2. rewrite objs_set_fresh by (apply Hfresh; left; reflexivity).
  rewrite IH; [rewrite <- app_assoc; reflexivity|assumption|].
  intros o' Ho'. rewrite map_app, in_app_iff. simpl. intros [H|[H|[]]].
  - apply (Hfresh o'); [right; assumption|assumption].
  - apply Hx. rewrite H. apply (in_map (fun o => o_name (g o))). assumption.
Qed.

(* the visitor skeleton with a name-preserving object function is a plain map *)
Lemma visit_objects_map (g : object -> object) (l : list (string * object)) :
  wf_objects l -> (forall o, o_name (g o) = o_name o) ->
  fold_left (fun acc ko => add_object acc (g (snd ko))) l []
  = map (fun ko => (fst ko, g (snd ko))) l.
Proof.
  intros [Hnd Hk] Hname.
  assert (fold_left (fun acc ko => add_object acc (g (snd ko))) l []
          = fold_left (fun a o => add_object a (g o)) (map snd l) []) as ->.
  { generalize (@nil (string * object)). induction l as [|ko r IH]; intros acc; [reflexivity|].
    simpl. apply IH; [inversion Hnd; assumption|inversion Hk; assumption]. }
  assert (map (fun o => o_name (g o)) (map snd l) = map fst l) as Hnames.
  { rewrite map_map. apply map_ext_in. intros ko Hin. rewrite Hname.
    rewrite Forall_forall in Hk. symmetry. apply Hk. assumption. }
  rewrite fold_add_fresh; simpl.
  - rewrite map_map. apply map_ext_in. intros ko Hin. rewrite Hname.
    rewrite Forall_forall in Hk. rewrite <- (Hk ko Hin). reflexivity.
  - rewrite Hnames. assumption.
  - intros o _ [].
Qed.

Lemma visit_schema_t_local (g : object -> object) (s : schema) :
  wf_schema s -> (forall o, o_name (g o) = o_name o) ->
  visit_schema_t (fun t => t) g s = set_objects s (map (fun ko => (fst ko, g (snd ko))) (s_objects s)).
Proof.
  intros Hwf Hname. unfold visit_schema_t, set_objects. f_equal. apply visit_objects_map; assumption.
Qed.

Lemma wf_objects_map (g : object -> object) l :
  wf_objects l -> (forall o, o_name (g o) = o_name o) ->
  wf_objects (map (fun ko => (fst ko, g (snd ko))) l).
Proof.
  intros [Hnd Hk] Hname. split.
  - rewrite map_map. simpl. assumption.
  - rewrite Forall_forall in *. intros ko Hin. apply in_map_iff in Hin.
    destruct Hin as [ko' [<- Hin']]. simpl. rewrite Hname. apply Hk. assumption.
Qed.

Lemma map_id_in {A} (f : A -> A) l : (forall x, In x l -> f x = x) -> map f l = l.
Proof.
  intros H. induction l as [|x r IH]; [reflexivity|]. simpl. rewrite H by (left; reflexivity).
  f_equal. apply IH. intros y Hy. apply H. right. assumption.
Qed.

Lemma set_objects_same s : set_objects s (s_objects s) = s.
Proof. destruct s; reflexivity. Qed.
