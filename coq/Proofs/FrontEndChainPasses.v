(* chain_go on the leafy fragment of the IR (Model/FrontEndChainSpec.v ctx_leafy): every pass except
   NotRequiredFieldAsNullableType is the identity, that one is nrfn_only. *)
From Coq Require Import List String ZArith Bool Ascii.
From Cog Require Import Model.IR Model.Json Model.Passes Model.PassesChain Model.Process Gen.Chains_gen
  Model.FrontEndChainSpec.
Import ListNotations.
Local Open Scope string_scope.
Local Open Scope list_scope.
Local Notation "a +++ b" := (String.append a b) (at level 60, right associativity).

(* ---------- eta ---------- *)
Lemma fc_field_eta (f : field) : mkField (f_name f) (f_comments f) (f_type f) (f_required f) = f.
Proof. destruct f; reflexivity. Qed.
Lemma fc_set_otype_eta o : set_otype o (o_type o) = o.
Proof. destruct o; reflexivity. Qed.
Lemma fc_set_objects_eta s : set_objects s (s_objects s) = s.
Proof. destruct s; reflexivity. Qed.
Lemma fc_schema_eta s : mkSchema (s_pkg s) (s_meta s) (s_entry s) (s_entrytype s) (s_objects s) = s.
Proof. destruct s; reflexivity. Qed.
Lemma fc_map_fields_eta (fs : list field) :
  map (fun f => mkField (f_name f) (f_comments f) (f_type f) (f_required f)) fs = fs.
Proof. induction fs as [|f r IH]; simpl; [reflexivity|]. rewrite fc_field_eta, IH. reflexivity. Qed.

(* ---------- the ordered map rebuilt in order ---------- *)
Lemma fc_str_in_app k a b : str_in k (a ++ b) = (str_in k a || str_in k b)%bool.
Proof. induction a as [|x r IH]; simpl; [reflexivity|]. rewrite IH. apply orb_assoc. Qed.

Lemma fc_nodup_app_head a k r :
  str_nodup (a ++ k :: r) = true -> str_in k a = false /\ str_nodup ((a ++ [k]) ++ r) = true.
Proof.
  induction a as [|x a IH]; simpl; intro H.
  - split; [reflexivity|assumption].
  - apply andb_true_iff in H. destruct H as [H1 H2]. destruct (IH H2) as [I1 I2].
    rewrite fc_str_in_app in H1. simpl in H1. apply negb_true_iff in H1.
    apply orb_false_iff in H1. destruct H1 as [H1a H1b]. apply orb_false_iff in H1b. destruct H1b as [H1b H1c].
    split.
    + rewrite I1. rewrite orb_false_r. unfold seqb in *. rewrite String.eqb_sym. exact H1b.
    + rewrite I2, andb_true_r. apply negb_true_iff. rewrite !fc_str_in_app. simpl.
      rewrite H1a, H1b, H1c. reflexivity.
Qed.

Lemma fc_objs_set_fresh l k o : str_in k (map fst l) = false -> objs_set l k o = l ++ [(k, o)].
Proof.
  induction l as [|[k' o'] r IH]; simpl; intro H; [reflexivity|].
  apply orb_false_iff in H. destruct H as [H1 H2]. unfold seqb. rewrite H1, (IH H2). reflexivity.
Qed.

(* the generic loop: every style of "visit the objects, store each result under its key" *)
Lemma fc_rebuild (g : string * object -> object) l : forall acc,
  str_nodup (map fst acc ++ map fst l) = true ->
  fold_left (fun acc ko => objs_set acc (fst ko) (g ko)) l acc = acc ++ map (fun ko => (fst ko, g ko)) l.
Proof.
  induction l as [|[k o] r IH]; intros acc H; simpl.
  - rewrite app_nil_r. reflexivity.
  - simpl in H. destruct (fc_nodup_app_head _ _ _ H) as [H1 H2].
    rewrite (fc_objs_set_fresh _ _ _ H1). rewrite IH.
    + rewrite <- app_assoc. reflexivity.
    + rewrite map_app. simpl. exact H2.
Qed.

Lemma fc_map_pair_eta {A B} (l : list (A * B)) : map (fun ko => (fst ko, snd ko)) l = l.
Proof. induction l as [|[a b] r IH]; simpl; [reflexivity|]. rewrite IH. reflexivity. Qed.

Lemma fc_fold_ext {A B} (f g : A -> B -> A) l :
  (forall a b, In b l -> f a b = g a b) -> forall a, fold_left f l a = fold_left g l a.
Proof.
  induction l as [|x r IH]; intros H a; simpl; [reflexivity|].
  rewrite (H a x (or_introl eq_refl)). apply IH. intros; apply H; right; assumption.
Qed.

(* ---------- leaves of the fragment are fixed by every traversal ---------- *)
Lemma fc_astn_type_leafy pkg : forall t parent, ty_leafy t = true -> astn_type pkg parent t = (t, []).
Proof.
  induction t; intros parent H; simpl in H; try discriminate; try reflexivity.
  - simpl. rewrite (IHt parent H). reflexivity.
  - apply andb_true_iff in H. destruct H as [H1 H2]. simpl. rewrite (IHt1 parent H1), (IHt2 parent H2). reflexivity.
Qed.

Lemma fc_nrfn_ty_leafy : forall t, ty_leafy t = true -> nrfn_ty t = t.
Proof.
  induction t; intros H; simpl in H; try discriminate; try reflexivity.
  - simpl. rewrite (IHt H). reflexivity.
  - apply andb_true_iff in H. destruct H as [H1 H2]. simpl. rewrite (IHt1 H1), (IHt2 H2). reflexivity.
Qed.

Lemma fc_visit_disj_leafy {S} (f : S -> ty -> res (ty * S)) : forall t st, ty_leafy t = true -> visit_disj f st t = Ok (t, st).
Proof.
  induction t; intros st H; simpl in H; try discriminate; try reflexivity.
  - simpl. rewrite (IHt st H). reflexivity.
  - apply andb_true_iff in H. destruct H as [H1 H2]. simpl. rewrite (IHt1 st H1). simpl. rewrite (IHt2 st H2). reflexivity.
Qed.

Lemma fc_aete_type_leafy spkg pkg cur : forall t sug, ty_leafy t = true -> aete_type spkg pkg cur sug t = (t, []).
Proof.
  induction t; intros sug H; simpl in H; try discriminate; try reflexivity.
  - simpl. rewrite (IHt sug H). reflexivity.
  - apply andb_true_iff in H. destruct H as [H1 H2]. simpl. rewrite (IHt1 sug H1), (IHt2 sug H2). reflexivity.
Qed.

Lemma fc_doaste_ty_leafy pkg : forall t st, ty_leafy t = true -> doaste_ty pkg st t = (t, st).
Proof.
  induction t; intros st H; simpl in H; try discriminate; try reflexivity.
  - simpl. rewrite (IHt st H). reflexivity.
  - apply andb_true_iff in H. destruct H as [H1 H2]. simpl. rewrite (IHt1 st H1), (IHt2 st H2). reflexivity.
Qed.

(* ---------- structs with leafy fields ---------- *)
Definition fields_leafy (fs : list field) : bool := forallb (fun f => ty_leafy (f_type f)) fs.

Definition vd_fields {S} (f : S -> ty -> res (ty * S)) : list field -> S -> res (list field * S) :=
  fix go (l : list field) (st : S) : res (list field * S) :=
    match l with
    | [] => Ok ([], st)
    | fd :: rest =>
        do r1 <- visit_disj f st (f_type fd) ;
        do r2 <- go rest (snd r1) ;
        Ok (mkField (f_name fd) (f_comments fd) (fst r1) (f_required fd) :: fst r2, snd r2)
    end.
Lemma fc_visit_disj_struct {S} (f : S -> ty -> res (ty * S)) st a dh fs :
  visit_disj f st (TStruct a dh fs) = do r <- vd_fields f fs st ; Ok (TStruct a dh (fst r), snd r).
Proof. reflexivity. Qed.
Lemma fc_vd_fields_leafy {S} (f : S -> ty -> res (ty * S)) : forall fs st, fields_leafy fs = true -> vd_fields f fs st = Ok (fs, st).
Proof.
  induction fs as [|fd r IH]; intros st H; simpl; [reflexivity|].
  simpl in H. apply andb_true_iff in H. destruct H as [H1 H2].
  rewrite (fc_visit_disj_leafy f _ st H1). simpl. rewrite (IH st H2). simpl. rewrite fc_field_eta. reflexivity.
Qed.
Lemma fc_visit_disj_struct_leafy {S} (f : S -> ty -> res (ty * S)) st a dh fs :
  fields_leafy fs = true -> visit_disj f st (TStruct a dh fs) = Ok (TStruct a dh fs, st).
Proof. intro H. rewrite fc_visit_disj_struct, (fc_vd_fields_leafy f fs st H). reflexivity. Qed.

Lemma fc_visit_disj0_struct_leafy f a dh fs :
  fields_leafy fs = true -> visit_disj0 f (TStruct a dh fs) = Ok (TStruct a dh fs).
Proof. intro H. unfold visit_disj0. rewrite (fc_visit_disj_struct_leafy _ tt a dh fs H). reflexivity. Qed.
Lemma fc_visit_disj0_leafy f t : ty_leafy t = true -> visit_disj0 f t = Ok t.
Proof. intro H. unfold visit_disj0. rewrite (fc_visit_disj_leafy _ t tt H). reflexivity. Qed.

Definition aete_fields (spkg pkg cur : string) : list field -> list field * list object :=
  fix go (l : list field) : list field * list object :=
    match l with
    | [] => ([], [])
    | f :: r =>
        let '(t', n1) := aete_type spkg pkg cur (upper_camel_case cur +++ upper_camel_case (f_name f)) (f_type f) in
        let '(r', n2) := go r in
        (mkField (f_name f) (f_comments f) t' (f_required f) :: r', n1 ++ n2)
    end.
Lemma fc_aete_type_struct spkg pkg cur sug a dh fs :
  aete_type spkg pkg cur sug (TStruct a dh fs) = let '(fs', n) := aete_fields spkg pkg cur fs in (TStruct a dh fs', n).
Proof. reflexivity. Qed.
Lemma fc_aete_fields_leafy spkg pkg cur : forall fs, fields_leafy fs = true -> aete_fields spkg pkg cur fs = (fs, []).
Proof.
  induction fs as [|fd r IH]; intros H; simpl; [reflexivity|].
  simpl in H. apply andb_true_iff in H. destruct H as [H1 H2].
  rewrite (fc_aete_type_leafy spkg pkg cur _ _ H1). rewrite (IH H2). rewrite fc_field_eta. reflexivity.
Qed.

Definition doaste_fields (pkg : string) : list field -> list (string * object) -> list field * list (string * object) :=
  fix go (l : list field) (st : list (string * object)) : list field * list (string * object) :=
    match l with
    | [] => ([], st)
    | f :: r => let '(t', st1) := doaste_ty pkg st (f_type f) in
                let '(r', st2) := go r st1 in
                (mkField (f_name f) (f_comments f) t' (f_required f) :: r', st2)
    end.
Lemma fc_doaste_ty_struct pkg st a dh fs :
  doaste_ty pkg st (TStruct a dh fs) = let '(fs', st') := doaste_fields pkg fs st in (TStruct a dh fs', st').
Proof. reflexivity. Qed.
Lemma fc_doaste_fields_leafy pkg : forall fs st, fields_leafy fs = true -> doaste_fields pkg fs st = (fs, st).
Proof.
  induction fs as [|fd r IH]; intros st H; simpl; [reflexivity|].
  simpl in H. apply andb_true_iff in H. destruct H as [H1 H2].
  rewrite (fc_doaste_ty_leafy pkg _ st H1). rewrite (IH st H2). rewrite fc_field_eta. reflexivity.
Qed.

Lemma fc_astn_fields_leafy pkg parent : forall fs acc news, fields_leafy fs = true ->
  fold_left (fun acc f =>
               let '(t', n1) := astn_type pkg (parent +++ upper_camel_case (f_name f)) (f_type f) in
               (fst acc ++ [mkField (f_name f) (f_comments f) t' (f_required f)], snd acc ++ n1))
            fs (acc, news) = (acc ++ fs, news).
Proof.
  induction fs as [|fd r IH]; intros acc news H; simpl.
  - rewrite app_nil_r. reflexivity.
  - simpl in H. apply andb_true_iff in H. destruct H as [H1 H2].
    rewrite (fc_astn_type_leafy pkg _ _ H1). simpl. rewrite fc_field_eta, app_nil_r. rewrite (IH _ _ H2).
    rewrite <- app_assoc. reflexivity.
Qed.

(* ---------- objects of the fragment ---------- *)
Lemma fc_obj_leafy_inv ko : obj_leafy ko = true ->
  fst ko = o_name (snd ko) /\ exists a dh fs, o_type (snd ko) = TStruct a dh fs /\ fields_leafy fs = true.
Proof.
  unfold obj_leafy. intro H. apply andb_true_iff in H. destruct H as [H1 H2].
  split; [apply String.eqb_eq; exact H1|].
  destruct (o_type (snd ko)); try discriminate. exists a, dh, fs. split; [reflexivity|exact H2].
Qed.

Lemma fc_astn_object_leafy k o : obj_leafy (k, o) = true -> astn_object o = (o, []).
Proof.
  intro H. destruct (fc_obj_leafy_inv _ H) as [_ [a [dh [fs [E F]]]]]. simpl in E.
  unfold astn_object. rewrite E. rewrite (fc_astn_fields_leafy _ _ fs [] [] F). simpl.
  rewrite <- E, fc_set_otype_eta. reflexivity.
Qed.

Lemma fc_aete_object_leafy spkg k o : obj_leafy (k, o) = true ->
  is_enum (o_type o) = false /\
  forall sug, aete_type spkg (o_selfpkg o) (o_name o) sug (o_type o) = (o_type o, []).
Proof.
  intro H. destruct (fc_obj_leafy_inv _ H) as [_ [a [dh [fs [E F]]]]]. simpl in E. rewrite E. split; [reflexivity|].
  intro sug. rewrite fc_aete_type_struct, (fc_aete_fields_leafy _ _ _ fs F). reflexivity.
Qed.

Lemma fc_pev_object_leafy k o : obj_leafy (k, o) = true -> pev_object o = Ok o.
Proof.
  intro H. destruct (fc_obj_leafy_inv _ H) as [_ [a [dh [fs [E F]]]]]. simpl in E.
  unfold pev_object. rewrite E. reflexivity.
Qed.

Lemma fc_obj_visit_disj {S} (f : S -> ty -> res (ty * S)) st k o : obj_leafy (k, o) = true ->
  visit_disj f st (o_type o) = Ok (o_type o, st).
Proof.
  intro H. destruct (fc_obj_leafy_inv _ H) as [_ [a [dh [fs [E F]]]]]. simpl in E. rewrite E.
  apply fc_visit_disj_struct_leafy. exact F.
Qed.
Lemma fc_obj_visit_disj0 f k o : obj_leafy (k, o) = true -> visit_disj0 f (o_type o) = Ok (o_type o).
Proof. intro H. unfold visit_disj0. rewrite (fc_obj_visit_disj _ tt k o H). reflexivity. Qed.
Lemma fc_obj_doaste pkg st k o : obj_leafy (k, o) = true -> doaste_ty pkg st (o_type o) = (o_type o, st).
Proof.
  intro H. destruct (fc_obj_leafy_inv _ H) as [_ [a [dh [fs [E F]]]]]. simpl in E. rewrite E.
  rewrite fc_doaste_ty_struct, (fc_doaste_fields_leafy pkg fs st F). reflexivity.
Qed.

(* ---------- schema level ---------- *)
Lemma fc_schema_leafy_inv s : schema_leafy s = true ->
  str_nodup (map fst (s_objects s)) = true /\ (forall ko, In ko (s_objects s) -> obj_leafy ko = true) /\
  ty_leafy (s_entrytype s) = true.
Proof.
  unfold schema_leafy. intro H. apply andb_true_iff in H. destruct H as [H H3].
  apply andb_true_iff in H. destruct H as [H1 H2]. repeat split; try assumption.
  apply forallb_forall. exact H2.
Qed.

(* a fold storing (g ko) under the object's NAME, when the key is the name *)
Lemma fc_rebuild_id (l : list (string * object)) :
  str_nodup (map fst l) = true ->
  fold_left (fun acc ko => objs_set acc (fst ko) (snd ko)) l [] = l.
Proof.
  intro H. rewrite (fc_rebuild (fun ko => snd ko) l [] H). simpl. apply fc_map_pair_eta.
Qed.

(* 1. AnonymousStructsToNamed *)
Lemma fc_astn_schema s : schema_leafy s = true -> astn_schema s = s.
Proof.
  intro H. destruct (fc_schema_leafy_inv s H) as [N [O _]]. unfold astn_schema.
  assert (forall l acc news, (forall ko, In ko l -> obj_leafy ko = true) ->
            fold_left (fun acc ko => let '(o', n) := astn_object (snd ko) in
                                     (objs_set (fst acc) (fst ko) o', snd acc ++ n)) l (acc, news) =
            (fold_left (fun acc ko => objs_set acc (fst ko) (snd ko)) l acc, news)) as G.
  { induction l as [|[k o] r IH]; intros acc news Hl; simpl; [reflexivity|].
    rewrite (fc_astn_object_leafy k o (Hl _ (or_introl eq_refl))). simpl. rewrite app_nil_r.
    apply IH. intros; apply Hl; right; assumption. }
  rewrite (G _ _ _ O). rewrite (fc_rebuild_id _ N). simpl. apply fc_set_objects_eta.
Qed.

(* 5. AnonymousEnumToExplicitType *)
Lemma fc_aete_schema s : schema_leafy s = true -> aete_schema s = s.
Proof.
  intro H. destruct (fc_schema_leafy_inv s H) as [N [O _]]. unfold aete_schema.
  assert (forall l acc news, (forall ko, In ko l -> obj_leafy ko = true) ->
            fold_left (fun acc ko =>
                   let o := snd ko in
                   if is_enum (o_type o) then (objs_set (fst acc) (fst ko) o, snd acc) else
                   let '(t', n) := aete_type (s_pkg s) (o_selfpkg o) (o_name o)
                                     (upper_camel_case (o_name o) +++ "Enum") (o_type o) in
                   (objs_set (fst acc) (fst ko) (set_otype o t'), snd acc ++ n)) l (acc, news) =
            (fold_left (fun acc ko => objs_set acc (fst ko) (snd ko)) l acc, news)) as G.
  { induction l as [|[k o] r IH]; intros acc news Hl; simpl; [reflexivity|].
    destruct (fc_aete_object_leafy (s_pkg s) k o (Hl _ (or_introl eq_refl))) as [E1 E2].
    rewrite E1, E2. simpl. rewrite app_nil_r, fc_set_otype_eta.
    apply IH. intros; apply Hl; right; assumption. }
  rewrite (G _ _ _ O). rewrite (fc_rebuild_id _ N). simpl. apply fc_set_objects_eta.
Qed.

(* loops storing under the object's name *)
Lemma fc_name_loop (l : list (string * object)) :
  (forall ko, In ko l -> obj_leafy ko = true) -> forall acc,
  fold_left (fun acc ko => objs_set acc (o_name (snd ko)) (snd ko)) l acc =
  fold_left (fun acc ko => objs_set acc (fst ko) (snd ko)) l acc.
Proof.
  intros Hl acc. apply fc_fold_ext. intros a ko Hin.
  destruct (fc_obj_leafy_inv _ (Hl _ Hin)) as [E _]. rewrite E. reflexivity.
Qed.

(* named versions of the anonymous loops *)
Definition fc_vs_loop (fo : object -> res object) : list (string * object) -> list (string * object) -> res (list (string * object)) :=
  fix go (l : list (string * object)) (acc : list (string * object)) : res (list (string * object)) :=
    match l with
    | [] => Ok acc
    | (_, o) :: r => do o' <- fo o ; go r (add_object acc o')
    end.
Lemma fc_visit_schema_eq ft fo s :
  visit_schema ft fo s = do et <- ft (s_entrytype s) ; do objs <- fc_vs_loop fo (s_objects s) [] ;
                         Ok (mkSchema (s_pkg s) (s_meta s) (s_entry s) et objs).
Proof. reflexivity. Qed.
Definition fc_vst_loop {S} (on_type : S -> ty -> res (ty * S))
  : list (string * object) -> list (string * object) -> S -> res (list (string * object) * S) :=
  fix go (l : list (string * object)) (acc : list (string * object)) (st : S) : res (list (string * object) * S) :=
    match l with
    | [] => Ok (acc, st)
    | (_, o) :: rest =>
        do r <- on_type st (o_type o) ;
        go rest (add_object acc (set_otype o (fst r))) (snd r)
    end.
Lemma fc_visit_schema_st_eq {S} (init : S) on_type news s :
  visit_schema_st init on_type news s =
  do r <- on_type init (s_entrytype s) ; do r2 <- fc_vst_loop on_type (s_objects s) [] (snd r) ;
  Ok (mkSchema (s_pkg s) (s_meta s) (s_entry s) (fst r) (fold_left add_object (news (snd r2)) (fst r2))).
Proof. reflexivity. Qed.
Definition fc_mor_loop (f : object -> res object) : list (string * object) -> list (string * object) -> res (list (string * object)) :=
  fix go (l : list (string * object)) (acc : list (string * object)) :=
    match l with
    | [] => Ok acc
    | (k, o) :: r => do o' <- f o ; go r (objs_set acc k o')
    end.
Lemma fc_map_objects_res_eq f s : map_objects_res f s = do objs <- fc_mor_loop f (s_objects s) [] ; Ok (set_objects s objs).
Proof. reflexivity. Qed.

(* 3,4,7,9,10. the stateless disjunction visitors *)
Lemma fc_visit_schema_disj0 f s : schema_leafy s = true ->
  visit_schema (visit_disj0 f) (fun o => do t <- visit_disj0 f (o_type o) ; Ok (set_otype o t)) s = Ok s.
Proof.
  intro H. destruct (fc_schema_leafy_inv s H) as [N [O E]]. rewrite fc_visit_schema_eq.
  rewrite (fc_visit_disj0_leafy f _ E). cbn [bind].
  set (go := fc_vs_loop (fun o => do t <- visit_disj0 f (o_type o) ; Ok (set_otype o t))).
  assert (forall l acc, (forall ko, In ko l -> obj_leafy ko = true) ->
            go l acc = Ok (fold_left (fun acc ko => objs_set acc (fst ko) (snd ko)) l acc)) as G.
  { induction l as [|[k o] r IH]; intros acc Hl; simpl; [reflexivity|].
    rewrite (fc_obj_visit_disj0 f k o (Hl _ (or_introl eq_refl))). simpl. rewrite fc_set_otype_eta.
    rewrite IH by (intros; apply Hl; right; assumption).
    unfold add_object. destruct (fc_obj_leafy_inv _ (Hl _ (or_introl eq_refl))) as [Ek _]. simpl in Ek.
    rewrite <- Ek. reflexivity. }
  rewrite (G _ _ O). simpl. rewrite (fc_rebuild_id _ N). rewrite fc_schema_eta. reflexivity.
Qed.

(* 6. PrefixEnumValues *)
Lemma fc_pev_schema s : schema_leafy s = true -> map_objects_res pev_object s = Ok s.
Proof.
  intro H. destruct (fc_schema_leafy_inv s H) as [N [O _]]. rewrite fc_map_objects_res_eq.
  set (go := fc_mor_loop pev_object).
  assert (forall l acc, (forall ko, In ko l -> obj_leafy ko = true) ->
            go l acc = Ok (fold_left (fun acc ko => objs_set acc (fst ko) (snd ko)) l acc)) as G.
  { induction l as [|[k o] r IH]; intros acc Hl; simpl; [reflexivity|].
    rewrite (fc_pev_object_leafy k o (Hl _ (or_introl eq_refl))). simpl.
    apply IH. intros; apply Hl; right; assumption. }
  rewrite (G _ _ O). simpl. rewrite (fc_rebuild_id _ N). rewrite fc_set_objects_eta. reflexivity.
Qed.

(* 8, 11. the stateful visitors: state untouched *)
Lemma fc_visit_schema_st {S} (init : S) (on_type : S -> ty -> res (ty * S)) (news : S -> list object) s :
  schema_leafy s = true ->
  (forall st t, ty_leafy t = true -> on_type st t = Ok (t, st)) ->
  (forall st k o, obj_leafy (k, o) = true -> on_type st (o_type o) = Ok (o_type o, st)) ->
  news init = [] ->
  visit_schema_st init on_type news s = Ok s.
Proof.
  intros H HT HO HN. destruct (fc_schema_leafy_inv s H) as [N [O E]]. rewrite fc_visit_schema_st_eq.
  rewrite (HT init _ E). cbn [bind fst snd].
  set (go := fc_vst_loop on_type).
  assert (forall l acc, (forall ko, In ko l -> obj_leafy ko = true) ->
            go l acc init = Ok (fold_left (fun acc ko => objs_set acc (fst ko) (snd ko)) l acc, init)) as G.
  { induction l as [|[k o] r IH]; intros acc Hl; simpl; [reflexivity|].
    rewrite (HO init k o (Hl _ (or_introl eq_refl))). simpl. rewrite fc_set_otype_eta.
    rewrite IH by (intros; apply Hl; right; assumption).
    unfold add_object. destruct (fc_obj_leafy_inv _ (Hl _ (or_introl eq_refl))) as [Ek _]. simpl in Ek.
    rewrite <- Ek. reflexivity. }
  rewrite (G _ _ O). simpl. rewrite HN. simpl. rewrite (fc_rebuild_id _ N). rewrite fc_schema_eta. reflexivity.
Qed.

(* ---------- lists of schemas ---------- *)
Lemma fc_mapM_id {A} (F : A -> res A) l : (forall x, In x l -> F x = Ok x) -> mapM F l = Ok l.
Proof.
  induction l as [|x r IH]; intro H; simpl; [reflexivity|].
  rewrite (H x (or_introl eq_refl)). simpl. rewrite IH by (intros; apply H; right; assumption). reflexivity.
Qed.
Lemma fc_map_id {A} (F : A -> A) l : (forall x, In x l -> F x = x) -> map F l = l.
Proof.
  induction l as [|x r IH]; intro H; simpl; [reflexivity|].
  rewrite (H x (or_introl eq_refl)), IH by (intros; apply H; right; assumption). reflexivity.
Qed.
Lemma fc_ctx_leafy_in ctx s : ctx_leafy ctx = true -> In s ctx -> schema_leafy s = true.
Proof. unfold ctx_leafy. intros H. apply forallb_forall. exact H. Qed.

Lemma fc_disj0_pass (f : schema -> ty -> res ty) ctx : ctx_leafy ctx = true -> visit_schemas_disj0 f ctx = Ok ctx.
Proof.
  intro H. unfold visit_schemas_disj0. apply fc_mapM_id. intros s Hs.
  apply fc_visit_schema_disj0. exact (fc_ctx_leafy_in _ _ H Hs).
Qed.

Lemma fc_run_identity p ctx : ctx_leafy ctx = true ->
  In p [PAnonymousStructsToNamed; PDisjunctionWithNullToOptional; PDisjunctionOfConstantsToEnum;
        PAnonymousEnumToExplicitType; PPrefixEnumValues; PFlattenDisjunctions;
        PDisjunctionOfAnonymousStructsToExplicit; PDisjunctionInferMapping; PUndiscriminatedDisjunctionToAny;
        PDisjunctionToType] ->
  run_pass p ctx = Ok ctx.
Proof.
  intros H Hp. simpl in Hp.
  repeat (destruct Hp as [<-|Hp]); try contradiction; simpl.
  - f_equal. unfold anonymous_structs_to_named. apply fc_map_id. intros s Hs. apply fc_astn_schema. exact (fc_ctx_leafy_in _ _ H Hs).
  - apply fc_disj0_pass; assumption.
  - apply fc_disj0_pass; assumption.
  - f_equal. unfold anonymous_enum_to_explicit_type. apply fc_map_id. intros s Hs. apply fc_aete_schema. exact (fc_ctx_leafy_in _ _ H Hs).
  - unfold prefix_enum_values. apply fc_mapM_id. intros s Hs. apply fc_pev_schema. exact (fc_ctx_leafy_in _ _ H Hs).
  - apply fc_disj0_pass; assumption.
  - unfold disjunction_of_anonymous_structs_to_explicit. apply fc_mapM_id. intros s Hs.
    apply fc_visit_schema_st; [exact (fc_ctx_leafy_in _ _ H Hs)| | |reflexivity].
    + intros st t Ht. rewrite (fc_doaste_ty_leafy _ t st Ht). reflexivity.
    + intros st k o Ho. rewrite (fc_obj_doaste _ st k o Ho). reflexivity.
  - apply fc_disj0_pass; assumption.
  - apply fc_disj0_pass; assumption.
  - unfold disjunction_to_type. apply fc_mapM_id. intros s Hs.
    apply fc_visit_schema_st; [exact (fc_ctx_leafy_in _ _ H Hs)| | |reflexivity].
    + intros st t Ht. apply fc_visit_disj_leafy. exact Ht.
    + intros st k o Ho. apply (fc_obj_visit_disj _ st k o Ho).
Qed.

(* ---------- 2. NotRequiredFieldAsNullableType ---------- *)
Lemma fc_nrfn_ty_struct a dh fs : fields_leafy fs = true ->
  nrfn_ty (TStruct a dh fs) = TStruct a dh (map nrfn_field fs).
Proof.
  intro H. simpl. f_equal. apply map_ext_in. intros f Hin.
  rewrite (fc_nrfn_ty_leafy _ (proj1 (forallb_forall _ _) H f Hin)). reflexivity.
Qed.

Lemma fc_nrfn_obj k o : obj_leafy (k, o) = true -> set_otype o (nrfn_ty (o_type o)) = nrfn_only_obj o.
Proof.
  intro H. destruct (fc_obj_leafy_inv _ H) as [_ [a [dh [fs [E F]]]]]. simpl in E.
  unfold nrfn_only_obj. rewrite E. rewrite (fc_nrfn_ty_struct a dh fs F). reflexivity.
Qed.

Lemma fc_nrfn_obj_name o : o_name (nrfn_only_obj o) = o_name o.
Proof. unfold nrfn_only_obj. destruct (o_type o); reflexivity. Qed.

Lemma fc_nrfn_schema s : schema_leafy s = true ->
  visit_schema_t nrfn_ty (fun o => set_otype o (nrfn_ty (o_type o))) s =
  set_objects s (map (fun ko => (fst ko, nrfn_only_obj (snd ko))) (s_objects s)).
Proof.
  intro H. destruct (fc_schema_leafy_inv s H) as [N [O E]]. unfold visit_schema_t, set_objects.
  rewrite (fc_nrfn_ty_leafy _ E). f_equal.
  rewrite (fc_fold_ext _ (fun acc ko => objs_set acc (fst ko) (nrfn_only_obj (snd ko)))).
  - rewrite (fc_rebuild (fun ko => nrfn_only_obj (snd ko)) _ [] N). reflexivity.
  - intros a [k o] Hin. simpl. rewrite (fc_nrfn_obj k o (O _ Hin)). unfold add_object.
    rewrite fc_nrfn_obj_name. destruct (fc_obj_leafy_inv _ (O _ Hin)) as [Ek _]. simpl in Ek. rewrite <- Ek. reflexivity.
Qed.

Lemma fc_nrfn_pass ctx : ctx_leafy ctx = true -> not_required_field_as_nullable_type ctx = nrfn_only ctx.
Proof.
  intro H. unfold not_required_field_as_nullable_type, nrfn_only. apply map_ext_in. intros s Hs.
  apply fc_nrfn_schema. exact (fc_ctx_leafy_in _ _ H Hs).
Qed.

(* the output is still in the fragment *)
Lemma fc_map_fst_map {A B C} (g : A * B -> C) l : map fst (map (fun ko => (fst ko, g ko)) l) = map fst l.
Proof. induction l as [|x r IH]; simpl; [reflexivity|]. rewrite IH. reflexivity. Qed.
Lemma fc_forallb_map {A B} (f : A -> B) (p : B -> bool) l : forallb p (map f l) = forallb (fun x => p (f x)) l.
Proof. induction l as [|x r IH]; simpl; [reflexivity|]. rewrite IH. reflexivity. Qed.
Lemma fc_set_nullable_leafy t b : ty_leafy (set_nullable t b) = ty_leafy t.
Proof. destruct t; reflexivity. Qed.
Lemma fc_nrfn_fields_leafy fs : fields_leafy fs = true -> fields_leafy (map nrfn_field fs) = true.
Proof.
  induction fs as [|fd r IH]; intro H; simpl; [reflexivity|].
  simpl in H. apply andb_true_iff in H. destruct H as [H1 H2]. rewrite (IH H2), andb_true_r.
  destruct (negb (f_required fd) && negb (nullable (ty_attrs (f_type fd))))%bool; [rewrite fc_set_nullable_leafy|]; exact H1.
Qed.
Lemma fc_nrfn_obj_leafy ko : obj_leafy ko = true -> obj_leafy (fst ko, nrfn_only_obj (snd ko)) = true.
Proof.
  intro H. destruct (fc_obj_leafy_inv _ H) as [Ek [a [dh [fs [E F]]]]].
  unfold obj_leafy. simpl. rewrite fc_nrfn_obj_name, Ek. unfold seqb. rewrite String.eqb_refl. simpl.
  unfold nrfn_only_obj. rewrite E. simpl. apply fc_nrfn_fields_leafy. exact F.
Qed.
Lemma fc_nrfn_only_leafy ctx : ctx_leafy ctx = true -> ctx_leafy (nrfn_only ctx) = true.
Proof.
  unfold ctx_leafy, nrfn_only. intro H. rewrite fc_forallb_map. apply forallb_forall. intros s Hs.
  assert (schema_leafy s = true) as Hl by (exact (proj1 (forallb_forall _ _) H s Hs)).
  destruct (fc_schema_leafy_inv s Hl) as [N [O E]]. unfold schema_leafy. simpl.
  rewrite fc_map_fst_map, N, E. simpl. rewrite andb_true_r.
  rewrite fc_forallb_map. apply forallb_forall. intros ko Hko. apply fc_nrfn_obj_leafy. apply O. exact Hko.
Qed.

(* ---------- T1 on the IR ---------- *)
Theorem chain_go_leafy ctx : ctx_leafy ctx = true -> process chain_go ctx = Ok (nrfn_only ctx).
Proof.
  intro H. pose proof (fc_nrfn_only_leafy ctx H) as H'.
  unfold chain_go. cbn [process].
  rewrite (fc_run_identity PAnonymousStructsToNamed ctx H) by (simpl; tauto). cbn [bind].
  change (run_pass PNotRequiredFieldAsNullableType ctx) with (Ok (not_required_field_as_nullable_type ctx)).
  rewrite (fc_nrfn_pass ctx H). cbn [bind].
  repeat (rewrite (fc_run_identity _ (nrfn_only ctx) H') by (simpl; tauto); cbn [bind]).
  reflexivity.
Qed.
