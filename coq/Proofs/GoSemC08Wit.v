(* C08 — concrete witnesses (refutations and non-vacuity). *)
From Coq Require Import List String ZArith Bool Ascii Arith Lia.
From Cog Require Import Model.GoSem Model.GoSemSpec08 Model.GoSemSpec08F Model.GoSemSpec01.
Import ListNotations.
Local Open Scope list_scope.
Local Open Scope string_scope.

Module W8.
  Definition meta0 : smeta := {| m_kind := "" ; m_variant := "" ; m_identifier := "" |}.
  Definition tstr : ty := TScalar attrs0 KString DNil [].
  Definition tint : ty := TScalar attrs0 KInt64 DNil [].

  (* a constraint behind a scalar alias *)
  Definition ctxA : schemas :=
    [mkSchema "p" meta0 "" ty_zero
       [("Name", mkObject "Name" []
           (TScalar attrs0 KString DNil [{| c_op := "minLength"; c_args := [DInt "int" 3%Z] |}]) "p" "Name");
        ("Root", mkObject "Root" [] (TStruct attrs0 [] [mkField "id" [] (TRef attrs0 "p" "Name") true]) "p" "Root")]].
  Definition vA : gval := GStruct [("id", GStr "ab")].

  (* a map of maps of structs *)
  Definition ctxB : schemas :=
    [mkSchema "p" meta0 "" ty_zero
       [("S", mkObject "S" [] (TStruct attrs0 [] [mkField "x" [] tint true]) "p" "S");
        ("Root", mkObject "Root" []
           (TStruct attrs0 [] [mkField "m" [] (TMap attrs0 tstr (TMap attrs0 tstr (TRef attrs0 "p" "S"))) true])
           "p" "Root")]].
  Definition dB : json := JObj [("m", JObj [("a", JObj [("b", JObj [("x", JNum 1 0)])])])].

  (* non-vacuity: a violated bound inside an array of referenced structs *)
  Definition ctxC : schemas :=
    [mkSchema "p" meta0 "" ty_zero
       [("Item", mkObject "Item" []
           (TStruct attrs0 []
              [mkField "n" [] (TScalar attrs0 KInt64 DNil [{| c_op := ">="; c_args := [DInt "int" 1%Z] |}]) true])
           "p" "Item");
        ("Root", mkObject "Root" []
           (TStruct attrs0 [] [mkField "items" [] (TArray attrs0 (TRef attrs0 "p" "Item")) true])
           "p" "Root")]].
  Definition vC : gval := GStruct [("items", GSlice [GStruct [("n", GInt 0)]])].
  Definition dC : json := JObj [("items", JArr [JObj [("n", JNum 1 0)]])].

  (* counterexamples to the statements of Props/C08.v as first written *)
  Definition cge1 : constraint := {| c_op := ">="; c_args := [DInt "int" 1%Z] |}.
  (* (a) a field named by the empty string *)
  Definition ctxD : schemas :=
    [mkSchema "p" meta0 "" ty_zero
       [("S", mkObject "S" [] (TStruct attrs0 [] [mkField "n" [] (TScalar attrs0 KInt64 DNil [cge1]) true]) "p" "S");
        ("Root", mkObject "Root" [] (TStruct attrs0 [] [mkField "" [] (TRef attrs0 "p" "S") true]) "p" "Root")]].
  Definition vD : gval := GStruct [("", GStruct [("n", GInt 0)])].
  (* (b) a constant reference through an alias object *)
  Definition ctxE : schemas :=
    [mkSchema "p" meta0 "" ty_zero
       [("E", mkObject "E" [] (TEnum attrs0 [mkEnumVal tstr "X" (DStr "x"); mkEnumVal tstr "Y" (DStr "y")]) "p" "E");
        ("A", mkObject "A" [] (TRef attrs0 "p" "E") "p" "A");
        ("Root", mkObject "Root" [] (TStruct attrs0 [] [mkField "f" [] (TConstRef attrs0 "p" "A" (DStr "x")) true]) "p" "Root")]].
  Definition vE : gval := GStruct [("f", GStr "y")].
  (* (c) a disjunction of scalars with an array-of-struct branch *)
  Definition ctxF : schemas :=
    [mkSchema "p" meta0 "" ty_zero
       [("S", mkObject "S" [] (TStruct attrs0 [] [mkField "x" [] tint false]) "p" "S");
        ("U", mkObject "U" []
           (TStruct attrs0 [("disjunction_of_scalars", mkDisj [] "" [])]
              [mkField "String" [] (TScalar {| nullable := true; dflt := DNil; hints := [] |} KString DNil []) false;
               mkField "ArrayOfS" [] (TArray attrs0 (TRef attrs0 "p" "S")) false]) "p" "U");
        ("Root", mkObject "Root" [] (TStruct attrs0 [] [mkField "u" [] (TRef attrs0 "p" "U") true]) "p" "Root")]].
  Definition dF : json := JObj [("u", JArr [JObj [("y", JNum 1 0)]])].
  (* (d) an inline struct *)
  Definition ctxG : schemas :=
    [mkSchema "p" meta0 "" ty_zero
       [("Root", mkObject "Root" []
           (TStruct attrs0 [] [mkField "s" [] (TStruct attrs0 [] [mkField "x" [] tint true]) true]) "p" "Root")]].
  Definition dG : json := JObj [("s", JObj [("x", JNum 1 0)])].
End W8.

Lemma validate_iff_refuted :
  ~ (forall ctx p n v,
       (ctx_supported ctx = true /\ struct_object ctx p n = true /\ wt ctx (TRef attrs0 p n) v = true) ->
       (validate_object ctx p n v = [] <-> violations_object ctx p n v = [])).
Proof.
  intro H.
  assert (T : ctx_supported W8.ctxA = true /\ struct_object W8.ctxA "p" "Root" = true /\
              wt W8.ctxA (TRef attrs0 "p" "Root") W8.vA = true)
    by (repeat split; vm_compute; reflexivity).
  destruct (H W8.ctxA "p" "Root" W8.vA T) as [H1 _].
  assert (E : validate_object W8.ctxA "p" "Root" W8.vA = []) by (vm_compute; reflexivity).
  specialize (H1 E). vm_compute in H1. discriminate.
Qed.

Lemma strict_iff_refuted :
  ~ (forall ctx p n d, ctx_supported ctx = true -> struct_object ctx p n = true ->
       ((exists v, strict_object ctx p n d = GOk v) <-> strict_ok_object ctx p n d = true)).
Proof.
  intro H.
  assert (A : ctx_supported W8.ctxB = true) by (vm_compute; reflexivity).
  assert (B : struct_object W8.ctxB "p" "Root" = true) by (vm_compute; reflexivity).
  destruct (H W8.ctxB "p" "Root" W8.dB A B) as [_ H2].
  assert (E : strict_ok_object W8.ctxB "p" "Root" W8.dB = true) by (vm_compute; reflexivity).
  destruct (H2 E) as [v Hv]. vm_compute in Hv. discriminate.
Qed.

Lemma c08_nonvacuous :
  exists ctx p n v,
    (ctx_supported ctx = true /\ struct_object ctx p n = true /\ wt ctx (TRef attrs0 p n) v = true) /\
    ctx_alias_free ctx = true /\ violations_object ctx p n v <> [].
Proof.
  exists W8.ctxC, "p", "Root", W8.vC. repeat split; try (vm_compute; reflexivity).
  vm_compute. discriminate.
Qed.

(* sanity of the non-vacuity witness: Validate reports it as well *)
Example c08_nonvacuous_validate :
  validate_object W8.ctxC "p" "Root" W8.vC = ["items[0].n"] /\
  violations_object W8.ctxC "p" "Root" W8.vC = ["items[0].n"].
Proof. split; vm_compute; reflexivity. Qed.

(* ---------- the statements of Props/C08.v that do NOT hold as first written ---------- *)
Lemma validate_reports_only_violations_refuted :
  ~ (forall ctx p n v q,
       (ctx_supported ctx = true /\ struct_object ctx p n = true /\ wt ctx (TRef attrs0 p n) v = true) ->
       In q (validate_object ctx p n v) -> In q (violations_object ctx p n v)).
Proof.
  intro H.
  assert (T : ctx_supported W8.ctxD = true /\ struct_object W8.ctxD "p" "Root" = true /\
              wt W8.ctxD (TRef attrs0 "p" "Root") W8.vD = true)
    by (repeat split; vm_compute; reflexivity).
  specialize (H W8.ctxD "p" "Root" W8.vD ".n" T).
  assert (I : In ".n" (validate_object W8.ctxD "p" "Root" W8.vD)) by (vm_compute; left; reflexivity).
  specialize (H I). vm_compute in H. destruct H as [H|[]]. discriminate H.
Qed.

Lemma validate_iff_partial_refuted :
  ~ (forall ctx p n v,
       (ctx_supported ctx = true /\ struct_object ctx p n = true /\ wt ctx (TRef attrs0 p n) v = true) ->
       ctx_alias_free ctx = true -> validate_object ctx p n v = violations_object ctx p n v).
Proof.
  intro H.
  assert (T : ctx_supported W8.ctxE = true /\ struct_object W8.ctxE "p" "Root" = true /\
              wt W8.ctxE (TRef attrs0 "p" "Root") W8.vE = true)
    by (repeat split; vm_compute; reflexivity).
  assert (A : ctx_alias_free W8.ctxE = true) by (vm_compute; reflexivity).
  specialize (H W8.ctxE "p" "Root" W8.vE T A). vm_compute in H. discriminate H.
Qed.

Lemma strict_accepts_only_ok_partial_refuted :
  ~ (forall ctx p n d v, ctx_supported ctx = true -> struct_object ctx p n = true ->
       json_wf d = true -> json_null_free d = true ->
       strict_object ctx p n d = GOk v -> strict_ok_object ctx p n d = true).
Proof.
  intro H.
  destruct (strict_object W8.ctxF "p" "Root" W8.dF) as [v| | |] eqn:E; try (vm_compute in E; discriminate E).
  assert (X : strict_ok_object W8.ctxF "p" "Root" W8.dF = true).
  { apply (H W8.ctxF "p" "Root" W8.dF v); try (vm_compute; reflexivity). exact E. }
  vm_compute in X. discriminate X.
Qed.

Lemma strict_rejects_only_bad_partial_refuted :
  ~ (forall ctx p n d, ctx_supported ctx = true -> struct_object ctx p n = true ->
       json_wf d = true -> json_null_free d = true -> roundtrip_safe ctx p n d = true ->
       strict_ok_object ctx p n d = true -> exists v, strict_object ctx p n d = GOk v).
Proof.
  intro H.
  assert (X : exists v, strict_object W8.ctxG "p" "Root" W8.dG = GOk v)
    by (apply H; vm_compute; reflexivity).
  destruct X as [v X]. vm_compute in X. discriminate X.
Qed.
